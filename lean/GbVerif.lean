import GbVerif.Props.C17
