import GbVerif.Props.C11
import GbVerif.Props.C13
import GbVerif.Props.C14
import GbVerif.Props.C15
import GbVerif.Props.C16
import GbVerif.Props.C17
import GbVerif.Props.C19
import GbVerif.Props.C20
