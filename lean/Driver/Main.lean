import Driver.Proto
import Driver.SC01
import Driver.SC02
import Driver.SC03
import Driver.SC04
import Driver.SC05
import Driver.SC06
import Driver.SC07
import Driver.SC08
import Driver.SC09
import Driver.SC10
import Driver.SC11
import Driver.SC12
import Driver.SC13
import Driver.SC14
import Driver.SC15
import Driver.SC16
import Driver.SC17
import Driver.SC18
import Driver.SC19
import Driver.SC20
/-!
`gbdriver`: replays correspondence lines on the Lean models and specs.
Prints one line per non-ok case and a final `SUMMARY` line.
-/
namespace Driver

def dispatch (l : Line) : Verdict :=
  -- stream names are "<pid>" or "<pid>.<sub>"
  match (l.stream.splitOn ".").head! with
  | "c01" => checkC01 l
  | "c02" => checkC02 l
  | "c03" => checkC03 l
  | "c04" => checkC04 l
  | "c05" => checkC05 l
  | "c06" => checkC06 l
  | "c07" => checkC07 l
  | "c08" => checkC08 l
  | "c09" => checkC09 l
  | "c10" => checkC10 l
  | "c11" => checkC11 l
  | "c12" => checkC12 l
  | "c13" => checkC13 l
  | "c14" => checkC14 l
  | "c15" => checkC15 l
  | "c16" => checkC16 l
  | "c17" => checkC17 l
  | "c18" => checkC18 l
  | "c19" => checkC19 l
  | "c20" => checkC20 l
  | s => .bad s!"unknown stream {s}"

structure Counts where
  total : Nat := 0
  ok : Nat := 0
  nontrivial : Nat := 0
  modelDiff : Nat := 0
  specDiff : Nat := 0
  bad : Nat := 0

partial def loop (h : IO.FS.Stream) (c : Counts) (lineNo : Nat) : IO Counts := do
  let line ← h.getLine
  if line.isEmpty then return c
  match parseLine line with
  | none => loop h c (lineNo + 1)
  | some l =>
    let c := { c with total := c.total + 1 }
    match dispatch l with
    | .ok nt =>
      if nt && c.nontrivial < 3 then IO.println s!"SAMPLE {line.trimAscii}"
      loop h { c with ok := c.ok + 1, nontrivial := c.nontrivial + (if nt then 1 else 0) } (lineNo + 1)
    | .modelDiff m =>
      if c.modelDiff < 50 then IO.println s!"MODEL≠IMPL line={lineNo} {m} :: {line.trimAscii}"
      loop h { c with modelDiff := c.modelDiff + 1 } (lineNo + 1)
    | .specDiff m =>
      if c.specDiff < 50 then IO.println s!"IMPL≠SPEC line={lineNo} {m} :: {line.trimAscii}"
      loop h { c with specDiff := c.specDiff + 1 } (lineNo + 1)
    | .bad m =>
      if c.bad < 50 then IO.println s!"BAD line={lineNo} {m} :: {line.trimAscii}"
      loop h { c with bad := c.bad + 1 } (lineNo + 1)

end Driver

def main : IO UInt32 := do
  let c ← Driver.loop (← IO.getStdin) {} 1
  IO.println s!"SUMMARY total={c.total} ok={c.ok} nontrivial={c.nontrivial} modeldiff={c.modelDiff} specdiff={c.specDiff} bad={c.bad}"
  return (if c.modelDiff + c.specDiff + c.bad == 0 then 0 else 1)
