import Driver.Proto
import Driver.SJoy
/-!
`gbdriver`: replays correspondence lines on the Lean models and specs.
Prints one line per non-ok case and a final `SUMMARY` line.
-/
namespace Driver

def dispatch (l : Line) : Verdict :=
  match l.stream with
  | "joy" => checkJoy l
  | s => .bad s!"unknown stream {s}"

structure Counts where
  total : Nat := 0
  ok : Nat := 0
  nontrivial : Nat := 0
  modelDiff : Nat := 0
  specDiff : Nat := 0
  bad : Nat := 0

partial def loop (h : IO.FS.Stream) (c : Counts) (lineNo : Nat) : IO Counts := do
  let line ← h.getLine
  if line.isEmpty then return c
  match parseLine line with
  | none => loop h c (lineNo + 1)
  | some l =>
    let c := { c with total := c.total + 1 }
    match dispatch l with
    | .ok nt =>
      if nt && c.nontrivial < 3 then IO.println s!"SAMPLE {line.trimAscii}"
      loop h { c with ok := c.ok + 1, nontrivial := c.nontrivial + (if nt then 1 else 0) } (lineNo + 1)
    | .modelDiff m =>
      if c.modelDiff < 50 then IO.println s!"MODEL≠IMPL line={lineNo} {m} :: {line.trimAscii}"
      loop h { c with modelDiff := c.modelDiff + 1 } (lineNo + 1)
    | .specDiff m =>
      if c.specDiff < 50 then IO.println s!"IMPL≠SPEC line={lineNo} {m} :: {line.trimAscii}"
      loop h { c with specDiff := c.specDiff + 1 } (lineNo + 1)
    | .bad m =>
      if c.bad < 50 then IO.println s!"BAD line={lineNo} {m} :: {line.trimAscii}"
      loop h { c with bad := c.bad + 1 } (lineNo + 1)

end Driver

def main : IO UInt32 := do
  let c ← Driver.loop (← IO.getStdin) {} 1
  IO.println s!"SUMMARY total={c.total} ok={c.ok} nontrivial={c.nontrivial} modeldiff={c.modelDiff} specdiff={c.specDiff} bad={c.bad}"
  return (if c.modelDiff + c.specDiff + c.bad == 0 then 0 else 1)
