import Driver.Proto
import GbVerif.Model.Debug
import GbVerif.Spec.Debug
import GbVerif.Gen.DecoderTable
namespace Driver
open GbVerif

namespace C20

/-- comma-separated hexadecimal scalar values → chars -/
def cpList (s : String) : List Char :=
  if s = "" then [] else (s.splitOn ",").map fun h => Char.ofNat (parseHex h)

/-- what the implementation answered: `none` = it panicked or built a variant outside the grammar -/
def parseCmd (s : String) : Option (Option DebugSpec.Cmd) :=
  match s.splitOn ":" with
  | ["none"] => some none
  | ["continue"] => some (some .continue_)
  | ["readregs"] => some (some .readRegisters)
  | ["step"] => some (some .step)
  | ["breakset", n] => some (some (.breakSet n.toNat!))
  | ["readmem", n] => some (some (.readMemory n.toNat!))
  | _ => none

def toSpec : Debug.Command → DebugSpec.Cmd
  | .breakSet a => .breakSet a
  | .continue_ => .continue_
  | .readMemory a => .readMemory a
  | .readRegisters => .readRegisters
  | .step => .step

def showCmd : Option DebugSpec.Cmd → String
  | none => "none"
  | some c => reprStr c

/-- the spec's own stripping of surrounding whitespace (Unicode White_Space list of the spec) -/
def specStrip (s : List Char) : List Char :=
  ((s.dropWhile DebugSpec.whiteSpace).reverse.dropWhile DebugSpec.whiteSpace).reverse

def checkAddr (l : Line) : Verdict :=
  let tok := cpList (l.inS "cp")
  let r := l.outS "r"
  -- spec: the 16-bit address denoted by the token without its surrounding whitespace, else rejection
  let expected := DebugSpec.address? (specStrip tok)
  let model := Debug.parseAddress Debug.rust tok
  if r == "panic" then .specDiff "parse_address panicked"
  else
    let impl : Option Nat := if r == "none" then none else some r.toNat!
    if impl != expected then .specDiff s!"address: impl={impl} spec={expected}"
    else if model != impl then .modelDiff s!"address: model={model} impl={impl}"
    else .ok (!tok.isEmpty)

def checkCmd (l : Line) : Verdict :=
  let line := cpList (l.inS "cp")
  let r := l.outS "r"
  if r == "panic" then .specDiff "parse_command panicked (no result for this line)"
  else match parseCmd r with
    | none => .specDiff s!"parse_command returned a variant outside the command grammar: {r}"
    | some impl =>
      let model := (Debug.parseCommand Debug.rust line).map toSpec
      if !DebugSpec.allows DebugSpec.whiteSpace line impl then
        .specDiff s!"command: impl={showCmd impl} spec={showCmd (DebugSpec.command? DebugSpec.whiteSpace line)} (not allowed)"
      else if model != impl then .modelDiff s!"command: model={showCmd model} impl={showCmd impl}"
      else .ok impl.isSome

/-- cut `bs` into pieces of the given lengths; `none` if they do not add up -/
def cut : List Nat → List Nat → Option (List (List Nat))
  | [], [] => some []
  | [], _ :: _ => none
  | n :: ns, bs =>
    if bs.length < n ∨ n = 0 then none
    else (cut ns (bs.drop n)).map fun rest => bs.take n :: rest

def checkDisasm (l : Line) : Verdict :=
  let addr := l.inN "addr"
  let bytes := (parseBytes (l.inS "bytes")).toList
  let dl := parseNatList (l.inS "dl")
  let trunc := l.inN "trunc" == 1
  let panicked := l.outS "panic" == "1"
  let n := l.outN "n"
  let a := parseNatList (l.outS "a")
  let ls := parseNatList (l.outS "l")
  let b := (parseBytes (l.outS "b")).toList
  if !panicked && l.outN "unreadable" != 0 then .bad "Display form of an Instruction not readable"
  else
    -- spec side (premise: the sequence ends on an instruction boundary): the instructions as the real decoder
    -- delimits them, laid out from `addr`
    let specV : Option String :=
      if trunc then none
      else match cut dl bytes with
        | none => some "harness: decoder lengths do not add up to the byte count"
        | some is =>
          let lay := DebugSpec.layout addr is
          if panicked then some "disassemble panicked on a sequence of complete instructions"
          else if n != is.length then some s!"count: impl={n} spec={is.length}"
          else if ls != lay.map (·.length) then some s!"lengths: impl={ls} spec(decoder)={lay.map (·.length)}"
          else if a != lay.map (·.address) then some s!"addresses: impl={a} spec={lay.map (·.address)}"
          else if b != (lay.map (·.bytes)).flatten then some "bytes shown differ from the input"
          else if ls.sum != bytes.length then some s!"lengths sum to {ls.sum}, input has {bytes.length} bytes"
          else none
    match specV with
    | some m => if m.startsWith "harness" then .bad m else .specDiff m
    | none =>
      match Debug.disassemble addr bytes with
      | .error e =>
        if panicked then .ok false else .modelDiff s!"model fails with {reprStr e}, impl returned {n} instructions"
      | .ok out =>
        if panicked then .modelDiff s!"impl panicked, model returns {out.length} instructions"
        else if out.length != n || out.map (·.address) != a || out.map (·.length) != ls
            || (out.map (·.bytes)).flatten != b then
          .modelDiff s!"model addresses={out.map (·.address)} lengths={out.map (·.length)}; impl a={a} l={ls}"
        else .ok (n ≥ 2)

def checkDec (l : Line) : Verdict :=
  let b0 := l.inN "b0"; let b1 := l.inN "b1"
  let len := l.outN "len"; let clk := l.outN "clk"
  let inv := l.outN "inv" == 1; let p1 := l.outN "p1" == 1; let p2 := l.outN "p2" == 1
  if Debug.decodeLen b0 [b1, 0x12] != some len then
    .modelDiff s!"length: table={reprStr (Debug.decodeLen b0 [b1, 0x12])} impl={len}"
  else if Gen.instrClocks b0 b1 != clk then .modelDiff s!"clocks: table={Gen.instrClocks b0 b1} impl={clk}"
  else if (b0 != Gen.prefixByte && Gen.isInvalid b0) != inv then .modelDiff s!"invalid: table={Gen.isInvalid b0} impl={inv}"
  else if (Debug.decodeLen b0 []).isNone != p1 then .modelDiff s!"1-byte slice: model panics={(Debug.decodeLen b0 []).isNone} impl={p1}"
  else if (Debug.decodeLen b0 [b1]).isNone != p2 then .modelDiff s!"2-byte slice: model panics={(Debug.decodeLen b0 [b1]).isNone} impl={p2}"
  else .ok (len > 1 || inv)

/-- a lowercase expansion as far as a comparison with ASCII words can see it -/
def asciiView (cs : List Char) : Option (List Char) := if cs.all DebugSpec.isAscii then some cs else none

def checkUni (l : Line) : Verdict :=
  let c := Char.ofNat (parseHex (l.inS "c"))
  let ws := l.outN "ws" == 1
  let lo := cpList (l.outS "lo")
  let slo := cpList (l.outS "slo")
  let asciiWs := c.toNat == 32 || (9 ≤ c.toNat && c.toNat ≤ 13)
  if c.toNat < 128 && (ws != asciiWs || lo != [Debug.asciiLower c]) then
    .modelDiff s!"assumption AsciiOk does not hold for std at U+{l.inS "c"}"
  else if Debug.rust.isWhite c != ws then .modelDiff s!"is_whitespace: model={Debug.rust.isWhite c} std={ws}"
  else if DebugSpec.whiteSpace c != ws then .modelDiff s!"White_Space list of the spec={DebugSpec.whiteSpace c} std={ws}"
  else if asciiView (Debug.rust.lower c) != asciiView lo then
    .modelDiff s!"to_lowercase (ASCII view): model={Debug.rust.lower c} std={lo}"
  else if asciiView slo != asciiView lo then .modelDiff s!"str::to_lowercase differs from char::to_lowercase: {slo} vs {lo}"
  else .ok (ws || lo != [c])

end C20

/-- C20 correspondence: `c20.addr`, `c20.cmd`, `c20.disasm`, `c20.dec`, `c20.uni` -/
def checkC20 (l : Line) : Verdict :=
  match l.stream with
  | "c20.addr" => C20.checkAddr l
  | "c20.cmd" => C20.checkCmd l
  | "c20.disasm" => C20.checkDisasm l
  | "c20.dec" => C20.checkDec l
  | "c20.uni" => C20.checkUni l
  | s => .bad s!"unknown C20 stream {s}"

end Driver
