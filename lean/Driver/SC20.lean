import Driver.Proto
namespace Driver

/-- C20 correspondence (stub) -/
def checkC20 (l : Line) : Verdict := .bad s!"stream {l.stream} not implemented"

end Driver
