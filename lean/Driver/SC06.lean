import Driver.Proto
namespace Driver

/-- C06 correspondence (stub) -/
def checkC06 (l : Line) : Verdict := .bad s!"stream {l.stream} not implemented"

end Driver
