import Driver.CpuUtil
namespace Driver

/-- C06: control flow, length and timing, one instruction per line -/
def checkC06 (l : Line) : Verdict := checkCpu l

end Driver
