import Driver.CpuUtil
import GbVerif.Model.Cpu
namespace Driver
open GbVerif

/-- `c06.block`: a straight-line block of one-byte, one-cycle instructions ending in HALT / EI / DI, run through
`interpreter::run_code_block`: it ends at the terminator and nowhere else (spec: PC = start + length, one machine cycle
per instruction, the terminator's status), and the model of the block loop agrees -/
def checkBlock (l : Line) : Verdict := Id.run do
  let at_ := l.inN "at"
  let code := parseBytes (l.inS "code")
  let n := code.size
  if n == 0 then return .bad "empty block"
  let term := code[n - 1]!
  let stExp := if term == 0x76 then 2 else if term == 0xfb then 4 else 3
  -- spec, from the implementation's outputs
  if l.outN "ip" != at_ + n then
    return .specDiff s!"block of {n} instructions at {at_} ended with PC={l.outN "ip"}, its terminator is at {at_ + n - 1}"
  if l.outN "cy" != n then return .specDiff s!"block of {n} one-cycle instructions charged {l.outN "cy"} machine cycles"
  if l.outN "st" != stExp then return .specDiff s!"terminator {term} returned status {l.outN "st"}, expected {stExp}"
  -- model
  let patch : List (Nat × Nat) := if at_ < 0x8000 then (List.range n).map fun k => (at_ + k, code[k]!) else []
  let rom := fun i => if i ≥ at_ && i < at_ + n && at_ < 0x8000 then code[i - at_]! else romByte i
  let _ := patch
  let mut b := Bus.create .mbc1 4 32768 rom
  if at_ ≥ 0x8000 then
    for k in [0:n] do
      -- code at an echo address is written through the work-RAM cell it mirrors (the harness does the same)
      match Bus.write b (if at_ + k ≥ 0xe000 && at_ + k < 0xfe00 then at_ + k - 0x2000 else at_ + k) code[k]! with | .ok b' => b := b' | .error _ => return .bad "setup"
  let r : Interp.Regs := { af := 0x1200, bc := 0x3456, de := 0x789a, hl := 0xc800, sp := 0xdff0, ip := at_ }
  match Cpu.runCodeBlock r b 65536 with
  | .error _ => return .modelDiff "model panics"
  | .ok (r', _, st) =>
    if r'.ip != l.outN "ip" || r'.cycles != l.outN "cy" || st != l.outN "st" then
      return .modelDiff s!"block loop: model ip={r'.ip} cy={r'.cycles} st={st} impl ip={l.outN "ip"} cy={l.outN "cy"} st={l.outN "st"}"
  return .ok (n > 100)

/-- C06: control flow, length and timing, one instruction per line; whole blocks in `c06.block` -/
def checkC06 (l : Line) : Verdict := if l.stream == "c06.block" then checkBlock l else checkCpu l

end Driver
