import Driver.Proto
namespace Driver

/-- C13 correspondence (stub) -/
def checkC13 (l : Line) : Verdict := .bad s!"stream {l.stream} not implemented"

end Driver
