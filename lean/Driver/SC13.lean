import Driver.Proto
import GbVerif.Model.Timer
import GbVerif.Spec.Timer
/-!
C13 replay.  Line: `c13.<sub> ops=<op,op,…> [pops=<op,…>] | obs=<o,o,…> [pobs=<o,…>]`
  op  = `d` (DIV write) | `t<v>` (TIMA) | `m<v>` (TMA) | `c<v>` (TAC) | `r<n>+<n>+…` (run_cycles batches, one
        observation after the last one, flags OR-ed)
  obs = `div:tima:tma:tac:flag[:cycle_count:enabled_mask:timer_clock_mask]` after each op, or `P` (panicked; last)
Spec side: the per-clock machine `GbVerif.TimerSpec` fed with the same events (a run = the total of its batches).
Model side: `GbVerif.Timer` batch by batch.  `c13.part`: `pops` is `ops` with the runs split differently;
implementation results of both must agree (batching independence) and the model must match both.
-/
namespace Driver
open GbVerif

inductive C13Op where
  | div | tima (v : Nat) | tma (v : Nat) | tac (v : Nat) | run (bs : List Nat)

def parseC13Op (s : String) : Option C13Op :=
  match s.toList with
  | ['d'] => some .div
  | 't' :: r => some (.tima (parseNat (String.ofList r)))
  | 'm' :: r => some (.tma (parseNat (String.ofList r)))
  | 'c' :: r => some (.tac (parseNat (String.ofList r)))
  | 'r' :: r => some (.run (((String.ofList r).splitOn "+").map parseNat))
  | _ => none

def parseC13Ops (s : String) : Option (List C13Op) :=
  if s = "" then some [] else (s.splitOn ",").mapM parseC13Op

/-- `none` = the implementation panicked at this op -/
def parseC13Obs (s : String) : List (Option (List Nat)) :=
  if s = "" then [] else (s.splitOn ",").map fun o => if o = "P" then none else some ((o.splitOn ":").map parseNat)

/-- model: one op; `none` = panic -/
def c13ModelStep (s : Timer.State) : C13Op → Option (Timer.State × Bool)
  | .div => some (Timer.resetDivider s, false)
  | .tima v => some (Timer.setCounter s v, false)
  | .tma v => some (Timer.setModulo s v, false)
  | .tac v => some (Timer.setTimerControl s v)
  | .run bs => bs.foldlM (fun (acc : Timer.State × Bool) b =>
      (Timer.runCycles acc.1 b).map fun r => (r.1, acc.2 || r.2)) (s, false)

def c13ModelObs (s : Timer.State) (f : Bool) : List Nat :=
  [Timer.getDivider s, Timer.getCounter s, Timer.getModulo s, Timer.getTimerControl s, if f then 1 else 0,
   s.cycleCount, s.enabledMask, s.timerClockMask]

/-- spec: one event; batches are just time. Short runs are stepped clock by clock, long ones use the
proved closed form. -/
def c13SpecStep (h : TimerSpec.Hw) : C13Op → TimerSpec.Hw × Bool
  | .div => (TimerSpec.writeDiv h, false)
  | .tima v => (TimerSpec.writeTima h v, false)
  | .tma v => (TimerSpec.writeTma h v, false)
  | .tac v => TimerSpec.writeTac h v
  | .run bs =>
    let n := bs.foldl (· + ·) 0
    if n ≤ 4096 then TimerSpec.clocksAcc n h false else TimerSpec.clocksFast n h

def c13SpecObs (h : TimerSpec.Hw) (f : Bool) : List Nat :=
  [TimerSpec.div h, h.tima, h.tma, h.tac, if f then 1 else 0]

def c13Show (l : List Nat) : String := ":".intercalate (l.map toString)

/-- first disagreement between the spec machine and the implementation's observations -/
def c13SpecCheck (ops : List C13Op) (obs : List (Option (List Nat))) : Option String :=
  let rec go (i : Nat) (h : TimerSpec.Hw) : List C13Op → List (Option (List Nat)) → Option String
    | [], [] => none
    | op :: ops, some o :: obs =>
      let r := c13SpecStep h op
      let want := c13SpecObs r.1 r.2
      if o.take 5 != want then some s!"op#{i}: impl={c13Show (o.take 5)} spec={c13Show want} (div:tima:tma:tac:irq)"
      else go (i + 1) r.1 ops obs
    | _, none :: _ => none      -- a panic is outside the spec's domain; the model decides
    | _, _ => some s!"op#{i}: observation count mismatch"
  go 0 TimerSpec.init ops obs

def c13ModelCheck (ops : List C13Op) (obs : List (Option (List Nat))) : Option String :=
  let rec go (i : Nat) (s : Timer.State) : List C13Op → List (Option (List Nat)) → Option String
    | [], [] => none
    | op :: _, [none] =>
      match c13ModelStep s op with
      | none => none
      | some _ => some s!"op#{i}: impl panicked, model did not"
    | op :: ops, some o :: obs =>
      match c13ModelStep s op with
      | none => some s!"op#{i}: model panics, impl={c13Show o}"
      | some r =>
        let want := (c13ModelObs r.1 r.2).take o.length
        if o != want then some s!"op#{i}: model={c13Show want} impl={c13Show o}"
        else go (i + 1) r.1 ops obs
    | _, _ => some s!"op#{i}: observation count mismatch"
  go 0 Timer.init ops obs

def c13Nontrivial (obs : List (Option (List Nat))) : Bool :=
  obs.any fun o => match o with
    | none => true
    | some l => l.getD 4 0 == 1

def checkC13 (l : Line) : Verdict :=
  match parseC13Ops (l.inS "ops") with
  | none => .bad "unparsable ops"
  | some ops =>
    let obs := parseC13Obs (l.outS "obs")
    if l.stream == "c13.part" then
      match parseC13Ops (l.inS "pops") with
      | none => .bad "unparsable pops"
      | some pops =>
        let pobs := parseC13Obs (l.outS "pobs")
        if obs.map (·.map (·.take 5)) != pobs.map (·.map (·.take 5)) then
          .specDiff "batching: the same history with the elapsed time split differently gives different DIV/TIMA/TMA/TAC/irq"
        else match c13SpecCheck ops obs with
        | some m => .specDiff m
        | none => match c13ModelCheck ops obs with
          | some m => .modelDiff m
          | none => match c13ModelCheck pops pobs with
            | some m => .modelDiff ("split: " ++ m)
            | none => .ok (c13Nontrivial obs)
    else if l.stream == "c13.big" then
      -- batches beyond the stated domain (u32 truncation / overflow check): model tie only
      match c13ModelCheck ops obs with
      | some m => .modelDiff m
      | none => .ok (c13Nontrivial obs)
    else match c13SpecCheck ops obs with
      | some m => .specDiff m
      | none => match c13ModelCheck ops obs with
        | some m => .modelDiff m
        | none => .ok (c13Nontrivial obs)

end Driver
