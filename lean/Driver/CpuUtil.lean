import Driver.BusUtil
import GbVerif.Model.Cpu
import GbVerif.Spec.SM83
namespace Driver
open GbVerif

def cpuOfRegs (af bc de hl sp ip : Nat) : SM83.Cpu :=
  { a := af / 256 % 256, f := af % 256, b := bc / 256 % 256, c := bc % 256, d := de / 256 % 256, e := de % 256,
    h := hl / 256 % 256, l := hl % 256, sp := sp % 65536, pc := ip % 65536 }

def specMem : SM83.Mem Bus.State := ⟨Bus.read, Bus.write⟩

def outcomeCode : SM83.Outcome → Nat
  | .normal => 0 | .stop => 1 | .halt => 2 | .di => 3 | .ei => 4 | .reti => 5 | .undefined => 100

def smallDigest (s : Bus.State) : UInt64 := digestRange (busRd s) 0xfe00 0x10000

/-- set-up shared by the one-instruction CPU streams: bus with ROM patches and pre-writes applied -/
def cpuSetup (l : Line) : Except String Bus.State := do
  let cfg := parseNatList (l.inS "cfg")
  let patches := parsePairs (l.inS "rompatch")
  let rom := fun i => match patches.lookup i with | some v => v | none => romByte i
  let mut s := Bus.create (kindOf (cfg.getD 0 0)) (l.inN "banks") (l.inN "ramb") rom
  for (a, v) in parsePairs (l.inS "pre") do
    match Bus.write s a v with
    | .ok s' => s := s'
    | .error _ => throw "model panics in the set-up writes"
  return s

/-- one instruction: implementation vs SM83 spec, then implementation vs model -/
def checkCpu (l : Line) : Verdict := Id.run do
  let s0 ← match cpuSetup l with | .ok s => pure s | .error e => return .modelDiff e
  let rin := parseNatList (l.inS "regs")
  let bytes := parseNatList (l.inS "b")
  let b0 := bytes.getD 0 0; let b1 := bytes.getD 1 0; let b2 := bytes.getD 2 0
  let rout := parseNatList (l.outS "regs")
  let died := l.outN "died" == 1
  let probes := parseNatList (l.inS "probes")
  let pv := parseNatList (l.outS "pv")
  let g (xs : List Nat) (i : Nat) := xs.getD i 0
  -- spec
  let cpu := cpuOfRegs (g rin 0) (g rin 1) (g rin 2) (g rin 3) (g rin 4) (g rin 5)
  match SM83.step specMem cpu s0 b0 b1 b2 with
  | .error _ => pure ()     -- the bus model itself refuses (not reachable with the generated cases)
  | .ok (c, sm, cyc, out) =>
    if out == .undefined then
      if !died then return .specDiff s!"undefined opcode {b0} was executed as something else"
    else
      if died then return .specDiff s!"defined instruction {b0},{b1},{b2} at pc={g rin 5} did not complete (panic)"
      let exp := [c.a * 256 + c.f, c.b * 256 + c.c, c.d * 256 + c.e, c.h * 256 + c.l, c.sp, c.pc]
      let names := ["AF", "BC", "DE", "HL", "SP", "PC"]
      for i in [0:6] do
        if g rout i != g exp i then
          return .specDiff s!"{names.getD i ""} after op {b0},{b1},{b2}: impl={g rout i} SM83={g exp i}"
      if l.outN "cy" != cyc then return .specDiff s!"machine cycles of op {b0},{b1}: impl={l.outN "cy"} SM83={cyc}"
      if l.outN "st" != outcomeCode out then return .specDiff s!"control outcome of op {b0}: impl status={l.outN "st"} SM83={outcomeCode out}"
      if (l.outN "be" == 1) != SM83.terminates b0 then return .specDiff s!"block-end flag of op {b0}: impl={l.outN "be"} SM83={SM83.terminates b0}"
      let mut i := 0
      for a in probes do
        if busRd sm a != g pv i then return .specDiff s!"memory at {a} after op {b0},{b1},{b2}: impl={g pv i} SM83={busRd sm a}"
        i := i + 1
      if toString (smallDigest sm) != l.outS "small" then return .specDiff s!"OAM/IO/HRAM/IE image after op {b0},{b1},{b2} differs from SM83 effect"
  -- model
  let r0 : Interp.Regs := { af := g rin 0, bc := g rin 1, de := g rin 2, hl := g rin 3, sp := g rin 4, ip := g rin 5 }
  match Cpu.runNextOp r0 s0 with
  | .error _ => if died then return .ok true else return .modelDiff s!"model panics on op {b0},{b1},{b2} but the implementation returned"
  | .ok (r, s, st, be) =>
    if died then return .modelDiff s!"implementation panicked on op {b0},{b1},{b2}, model returns"
    let got := [r.af, r.bc, r.de, r.hl, r.sp, r.ip]
    for i in [0:6] do
      if g rout i != g got i then return .modelDiff s!"register {i} model={g got i} impl={g rout i}"
    if l.outN "cy" != r.cycles then return .modelDiff s!"cycles model={r.cycles} impl={l.outN "cy"}"
    if l.outN "st" != st then return .modelDiff s!"status model={st} impl={l.outN "st"}"
    if (l.outN "be" == 1) != be then return .modelDiff s!"block end model={be}"
    let mut i := 0
    for a in probes do
      if busRd s a != g pv i then return .modelDiff s!"memory at {a}: model={busRd s a} impl={g pv i}"
      i := i + 1
    if toString (smallDigest s) != l.outS "small" then return .modelDiff "small image digest"
    return .ok true

end Driver
