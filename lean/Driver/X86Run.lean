import Driver.CpuUtil
import GbVerif.Model.X86Sem
import GbVerif.Gen.EmitTable
namespace Driver
open GbVerif

/-- bus with a write log (newest first) -/
abbrev LBus := Bus.State × List (Nat × Nat)

def lbusOps : Interp.BusOps LBus :=
  ⟨fun m a => Bus.read m.1 a, fun m a v => match Bus.write m.1 a v with | .ok b => .ok (b, (a, v) :: m.2) | .error e => .error e⟩

/-- guest registers → host registers as the prologue loads them (`mov e?x,[rdi+k]`, `mov r1?w,[rdi+k]`, `xor r14,r14`);
the untouched upper bits of r12/r13/r15 and all other registers hold junk -/
def embed (r : Interp.Regs) (bus : LBus) : X86.St LBus :=
  let j (k : Nat) : Nat := 0xabcd000000000000 + k * 0x1111000000
  let regs : Array X86.W := #[
    BitVec.ofNat 64 (r.af % 2^32), BitVec.ofNat 64 (r.hl % 2^32), BitVec.ofNat 64 (r.de % 2^32), BitVec.ofNat 64 (r.bc % 2^32),
    BitVec.ofNat 64 (j 4), BitVec.ofNat 64 (j 5), BitVec.ofNat 64 (j 6), BitVec.ofNat 64 (j 7),
    BitVec.ofNat 64 (j 8), BitVec.ofNat 64 (j 9), BitVec.ofNat 64 (j 10), BitVec.ofNat 64 (j 11),
    BitVec.ofNat 64 (j 12 - j 12 % 65536 + r.sp % 65536), BitVec.ofNat 64 (j 13 - j 13 % 65536 + r.ip % 65536),
    0, BitVec.ofNat 64 (j 15 - j 15 % 65536 + r.cycles % 65536)]
  { r := regs, bus := bus, stack := [BitVec.ofNat 64 0xe9110e, BitVec.ofNat 64 0x4e65] }

/-- host registers → guest registers as the epilogue stores them (16-bit stores keep the upper half of the struct field) -/
def project (s : X86.St LBus) (old : Interp.Regs) : Interp.Regs × Nat :=
  let g (i : Nat) := (X86.get s i).toNat
  ({ af := g 0 % 2^32, bc := g 3 % 2^32, de := g 2 % 2^32, hl := g 1 % 2^32,
     sp := old.sp - old.sp % 65536 + g 12 % 65536, ip := old.ip - old.ip % 65536 + g 13 % 65536,
     cycles := old.cycles - old.cycles % 65536 + g 15 % 65536 }, g 14 % 256)

/-- one translated block starting at `r.ip` (ROM): the templates of the guest instructions up to the block end, run on the x86 model -/
def runJitBlock (r : Interp.Regs) (bus : LBus) : Except String (Interp.Regs × LBus × Nat) := do
  let start := r.ip
  let mut s := embed r bus
  let mut index := start
  let mut fuel := 20000
  let mut done := false
  while !done && fuel > 0 do
    fuel := fuel - 1
    if Cpu.romBlockMustEnd start index then
      done := true
    else
      let rd (a : Nat) : Nat := match Cpu.sliceByte bus.1 a 0 with | .ok v => v | .error _ => 0
      -- the translator decodes through the fetch view of the region (never across its end: see can_dynarec)
      let b0 := rd index; let b1 := rd (index + 1); let b2 := rd (index + 2)
      let (op, len, _) := Gen.decode b0 b1 b2
      let toks := if b0 == 0xcb then Gen.emitCb b1 else Gen.emitOp b0
      if toks.isEmpty then throw s!"no template for opcode {b0}"
      match X86.decodeCode toks with
      | none => throw s!"template of opcode {b0} does not decode"
      | some code =>
        let s0 := { s with pc := 0, op1 := b1, op2 := b2 }
        match X86.run lbusOps code (X86.bytesOf toks) 400 s0 with
        | .ok s' => s := s'
        | .error e => throw s!"x86 model fault in the template of opcode {b0},{b1}: {repr e}"
      if s.stack.length != 2 then throw s!"template of opcode {b0} left the host stack unbalanced"
      index := index + len
      if Gen.isBlockEnd op then done := true
  let (r', st) := project s r
  return (r', s.bus, st)

end Driver
