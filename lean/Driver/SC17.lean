import Driver.Proto
import GbVerif.Model.Joypad
import GbVerif.Spec.Joypad
namespace Driver
open GbVerif

def absOf (a d : Nat) (sa sd : Bool) : JoypadSpec.Abs where
  held := fun k => if k.val < 4 then a.testBit k.val else d.testBit (k.val - 4)
  bit4 := !sd
  bit5 := !sa

/-- two actions in a row, the interrupt collected once afterwards -/
def checkC17Seq (l : Line) : Verdict :=
  let a := l.inN "a"; let d := l.inN "d"
  let sa := l.inN "sa" == 1; let sd := l.inN "sd" == 1
  let mk (op : String) (arg : Nat) : Joypad.Action × JoypadSpec.Ev :=
    let k : Fin 8 := ⟨arg % 8, Nat.mod_lt _ (by decide)⟩
    match op with
    | "p" => (.press k, .press k)
    | "r" => (.release k, .release k)
    | _ => (.select arg, .write arg)
  let (act1, ev1) := mk (l.inS "op") (l.inN "arg")
  let (act2, ev2) := mk (l.inS "op2") (l.inN "arg2")
  let s0 : Joypad.State := ⟨a, d, sa, sd, false⟩
  let s1 := Joypad.step s0 act1
  let s2 := Joypad.step s1 act2
  let (i1, s3) := Joypad.takeIrq s2
  let (i2, _) := Joypad.takeIrq s3
  let a0 := absOf a d sa sd
  let a1 := a0.apply ev1
  let a2 := a1.apply ev2
  let falls := JoypadSpec.someLineFalls a0 a1 || JoypadSpec.someLineFalls a1 a2
  let ii1 := l.outN "i1" == 1; let ii2 := l.outN "i2" == 1
  if l.outN "v1" % 64 != JoypadSpec.p1Value a1 then .specDiff s!"P1 after the first action: impl={l.outN "v1" % 64} spec={JoypadSpec.p1Value a1}"
  else if l.outN "v2" % 64 != JoypadSpec.p1Value a2 then .specDiff s!"P1 after the second action: impl={l.outN "v2" % 64} spec={JoypadSpec.p1Value a2}"
  else if ii1 != falls then .specDiff s!"irq after two actions: impl={ii1} spec(some line fell in either step)={falls}"
  else if ii2 then .specDiff "irq reported twice"
  else if Joypad.getValue s2 != l.outN "v2" then .modelDiff s!"v2 model={Joypad.getValue s2} impl={l.outN "v2"}"
  else if i1 != ii1 || i2 != ii2 then .modelDiff s!"irq model={i1},{i2} impl={ii1},{ii2}"
  else .ok ii1

def checkC17 (l : Line) : Verdict :=
  if l.stream == "c17.seq" then checkC17Seq l else
  let a := l.inN "a"; let d := l.inN "d"
  let sa := l.inN "sa" == 1; let sd := l.inN "sd" == 1
  let arg := l.inN "arg"
  let k : Fin 8 := ⟨arg % 8, Nat.mod_lt _ (by decide)⟩
  let (act, ev) : Joypad.Action × JoypadSpec.Ev := match l.inS "op" with
    | "p" => (.press k, .press k)
    | "r" => (.release k, .release k)
    | _ => (.select arg, .write arg)
  let s0 : Joypad.State := ⟨a, d, sa, sd, false⟩
  let s1 := Joypad.step s0 act
  let (i1, s2) := Joypad.takeIrq s1
  let (i2, _) := Joypad.takeIrq s2
  let v0 := l.outN "v0"; let v1 := l.outN "v1"
  let ii1 := l.outN "i1" == 1; let ii2 := l.outN "i2" == 1
  -- spec side, computed from the inputs and the implementation's outputs only
  let a0 := absOf a d sa sd
  let a1 := a0.apply ev
  let falls := JoypadSpec.someLineFalls a0 a1
  if v0 % 64 != JoypadSpec.p1Value a0 then .specDiff s!"P1 before: impl={v0 % 64} spec={JoypadSpec.p1Value a0}"
  else if v1 % 64 != JoypadSpec.p1Value a1 then .specDiff s!"P1 after: impl={v1 % 64} spec={JoypadSpec.p1Value a1}"
  else if ii1 != falls then .specDiff s!"irq: impl={ii1} spec(line falls)={falls}"
  else if ii2 then .specDiff "irq reported twice"
  else if Joypad.getValue s0 != v0 then .modelDiff s!"v0 model={Joypad.getValue s0} impl={v0}"
  else if Joypad.getValue s1 != v1 then .modelDiff s!"v1 model={Joypad.getValue s1} impl={v1}"
  else if i1 != ii1 then .modelDiff s!"i1 model={i1} impl={ii1}"
  else if i2 != ii2 then .modelDiff s!"i2 model={i2} impl={ii2}"
  else .ok (v0 != v1 || ii1)

end Driver
