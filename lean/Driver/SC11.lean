import Driver.Proto
namespace Driver

/-- C11 correspondence (stub) -/
def checkC11 (l : Line) : Verdict := .bad s!"stream {l.stream} not implemented"

end Driver
