import Driver.BusUtil
import GbVerif.Model.Sys
namespace Driver
open GbVerif

def boundary : List Nat := [
  0x0000, 0x0001, 0x1fff, 0x2000, 0x3fff, 0x4000, 0x5fff, 0x6000, 0x7fff, 0x8000, 0x9fff, 0xa000, 0xa7ff, 0xa800,
  0xbfff, 0xc000, 0xcfff, 0xd000, 0xdfff, 0xe000, 0xfdff, 0xfe00, 0xfe9f, 0xfea0, 0xfeff, 0xff00, 0xff01, 0xff02,
  0xff04, 0xff05, 0xff06, 0xff07, 0xff0f, 0xff40, 0xff41, 0xff45, 0xff46, 0xff47, 0xff4b, 0xff7f, 0xff80, 0xffc6,
  0xfffe, 0xffff]

/-- `addr_set` of harness/src/s_c11.rs -/
def addrSet (all : Bool) (seed : Nat) : Array Nat := Id.run do
  if all then
    let mut v : Array Nat := Array.mkEmpty 65536
    for a in [0x8000:0x10000] do v := v.push a
    for a in [0:0x8000] do v := v.push a
    return v
  else
    let mut v : Array Nat := (boundary.filter (· ≥ 0x8000)).toArray
    let mut r := Rng.new (UInt64.ofNat (seed ^^^ 0xadd5))
    for _ in [0:200] do
      let (x, r') := r.u16; r := r'
      v := v.push (0x8000 ||| x)
    v := v ++ (boundary.filter (· < 0x8000)).toArray
    for _ in [0:56] do
      let (x, r') := r.u16; r := r'
      v := v.push (x &&& 0x7fff)
    return v

/-- C11: replay one sweep on the model with explicit panics; the spec is "never dies" -/
def checkC11 (l : Line) : Verdict := Id.run do
  let died := l.outS "died"
  let kind := l.inS "kind"
  let addrs := addrSet (l.inS "set" == "all") (l.inN "seed")
  let mut s := mkBus l
  for (a, v) in parsePairs (l.inS "regs") do
    -- pseudo-addresses 65536 / 65537: 64*v / 4*v clocks pass (`MemoryAreas::run_clock_cycles`, model `Sys.dev`)
    if a ≥ 65536 then
      match Sys.dev s (if a == 65536 then 64 * v else 4 * v) with
      | .ok s' => s := s'
      | .error _ => return .modelDiff "model panics while time passes in the register prefix"
    else
    match Bus.write s a v with
    | .ok s' => s := s'
    | .error _ => return .modelDiff "model panics in the register prefix"
  let mut h := fnv0
  let mut panicAt : Option Nat := none
  let mut i := 0
  for a in addrs do
    if panicAt.isNone then
      match kind with
      | "rd" => match Bus.read s a with
        | .ok v => h := fnv h v
        | .error _ => panicAt := some i
      | "wr" => match Bus.write s a ((a * 7 + 3) % 256) with
        | .ok s' => s := s'
        | .error _ => panicAt := some i
      | "rdw" => match Bus.readWord s a with
        | .ok v => h := fnv (fnv h (v % 256)) (v / 256)
        | .error _ => panicAt := some i
      | _ => match Bus.writeWord s a ((a * 257 + 1) % 65536) with
        | .ok s' => s := s'
        | .error _ => panicAt := some i
    i := i + 1
  if died != "none" then
    -- the implementation crashed: violation witness (spec: every access completes)
    return .specDiff s!"process died ({died}) during a {kind} sweep — a guest-controlled bus access crashed the emulator"
  match panicAt with
  | some j => return .modelDiff s!"model predicts a panic at access {j} (addr {addrs[j]!}) but the implementation survived"
  | none => pure ()
  if toString h != l.outS "dig" then return .modelDiff s!"result digest model={h} impl={l.outS "dig"}"
  let md := modelDigests s
  let mut img := fnv0
  for d in md do
    for k in [0:8] do
      img := fnv img ((d.toNat >>> (8 * k)) % 256)
  if toString img != l.outS "img" then return .modelDiff s!"image digest after sweep model={img} impl={l.outS "img"}"
  return .ok true

end Driver
