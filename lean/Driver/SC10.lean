import Driver.BusUtil
import GbVerif.Model.Fetch
import GbVerif.Model.Cpu
import GbVerif.Model.Sys
namespace Driver
open GbVerif

/-- address lists of `fetch_digests` / `fetch_echo_digest` in harness/src/s_c10.rs -/
def fetchAddrs : Array Nat := Id.run do
  let mut v : Array Nat := #[]
  let mut a := 0
  while a < 0x8000 do
    v := v.push a; a := a + 7
  a := 0xc000
  while a < 0xe000 do
    v := v.push a; a := a + 3
  for x in [0xff80:0xffff] do v := v.push x
  return v ++ #[0x3ffd, 0x3ffe, 0x3fff, 0x4000, 0x7ffd, 0x7ffe, 0x7fff, 0xcffd, 0xcffe, 0xcfff, 0xd000, 0xdffe, 0xdfff]

def fetchEchoAddrs : Array Nat := Id.run do
  let mut v : Array Nat := #[]
  let mut a := 0xe000
  while a < 0xfea0 do
    v := v.push a; a := a + 5
  return v ++ #[0xefff, 0xf000, 0xfdff, 0xfe00, 0xfe9f]

/-- the (up to three) bytes `get_executable_memory_slice(a)` hands to the decoder, preceded by their number -/
def fetchDigest (s : Bus.State) (addrs : Array Nat) : UInt64 := Id.run do
  let mut h := fnv0
  for a in addrs do
    let n := match Cpu.sliceLen a with | .ok n => min n 3 | .error _ => 0
    h := fnv h n
    for k in [0:n] do
      h := fnv h (match Cpu.sliceByte s a k with | .ok v => v | .error _ => 0x1ff)
  return h

/-- C10: per-region digests of the whole 64 KiB read image after a write history -/
def checkC10 (l : Line) : Verdict := Id.run do
  let hist := parsePairs (l.inS "hist")
  let ds := parseNatList (l.outS "d")
  let io := parseBytes (l.outS "io")
  if ds.length != 12 || io.size != 128 then return .bad "malformed outputs"
  -- spec
  let mut sm := mkSpec l
  -- the passage of time (pseudo-address 65536) does not exist in the memory-map spec: stored bytes stay stored
  for (a, v) in hist do if a < 65536 then sm := BusSpec.write sm a v
  let names := ["rom0", "romx", "vram", "cram", "wram0", "wramx", "echo", "oam", "unused", "io", "hram", "ie"]
  let mut k := 0
  -- an OAM DMA that is given time copies into OAM: that region is then outside the memory-map spec (the model below covers it)
  let dmaRuns := Id.run do
    let mut started := false
    let mut runs := false
    for (a, _) in hist do
      if a == 0xff46 then started := true
      if a ≥ 65536 && started then runs := true
    return runs
  for (lo, hi) in windows do
    if k != 9 && !(k == 7 && dmaRuns) then
      let d := digestRange (BusSpec.read sm) lo hi
      if d.toNat != ds.getD k 0 then
        return .specDiff s!"region {names.getD k ""} [{lo},{hi}) differs from the memory-map spec after the history"
    k := k + 1
  -- I/O: unassigned addresses read 0xff; the last write's defined bits read back
  for low in [0:128] do
    if BusSpec.ioUnassigned low && io[low]! != 0xff then
      return .specDiff s!"unassigned I/O 0xff{low} reads {io[low]!}"
  match hist.getLast? with
  | some (a, v) =>
    if 0xff00 ≤ a && a < 0xff80 then
      let low := a - 0xff00
      let m := BusSpec.ioMask low
      if (io[low]! &&& m) != (v &&& m) then
        return .specDiff s!"I/O register 0xff{low}: wrote {v}, reads {io[low]!} (defined bits {m})"
  | none => pure ()
  if l.outS "fd" != l.outS "rd" then return .specDiff "instruction fetch view differs from data reads in ROM/WRAM/HRAM"
  -- model
  let mut s := mkBus l
  for (a, v) in hist do
    if a ≥ 65536 then
      let clocks := if a == 65536 then 64 * v else 4 * v
      match Sys.dev s clocks with
      | .ok s' => s := s'
      | .error _ => return .modelDiff s!"model panics when {clocks} clocks pass but the implementation survived"
    else
    match Bus.write s a v with
    | .ok s' => s := s'
    | .error _ => return .modelDiff s!"model panics on write {a}:{v} but the implementation survived"
  let md := modelDigests s
  k := 0
  for d in md do
    if d.toNat != ds.getD k 0 then return .modelDiff s!"region {names.getD k ""} digest model={d} impl={ds.getD k 0}"
    k := k + 1
  for low in [0:128] do
    if busRd s (0xff00 + low) != io[low]! then return .modelDiff s!"io 0xff{low} model={busRd s (0xff00 + low)} impl={io[low]!}"
  if toString (fetchDigest s fetchAddrs) != l.outS "fd" then
    return .modelDiff s!"fetch view over ROM/WRAM/HRAM: model digest {fetchDigest s fetchAddrs} impl={l.outS "fd"}"
  if toString (fetchDigest s fetchEchoAddrs) != l.outS "fe" then
    return .modelDiff s!"fetch view over the echo aliases: model digest {fetchDigest s fetchEchoAddrs} impl={l.outS "fe"}"
  return .ok (hist.any fun (a, _) => a ≥ 0x2000)

end Driver
