import Driver.Proto
namespace Driver

/-- C10 correspondence (stub) -/
def checkC10 (l : Line) : Verdict := .bad s!"stream {l.stream} not implemented"

end Driver
