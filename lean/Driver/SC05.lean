import Driver.CpuUtil
namespace Driver

/-- C05: data semantics, one instruction per line -/
def checkC05 (l : Line) : Verdict := checkCpu l

end Driver
