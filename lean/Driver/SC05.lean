import Driver.Proto
namespace Driver

/-- C05 correspondence (stub) -/
def checkC05 (l : Line) : Verdict := .bad s!"stream {l.stream} not implemented"

end Driver
