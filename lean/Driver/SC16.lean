import Driver.BusUtil
namespace Driver
open GbVerif

/-- events of a C16 scenario: a bus write, or a catch-up batch of `n` clocks -/
inductive Ev16 where
  | w (a v : Nat)
  | b (n : Nat)

def parseEvs16 (s : String) : List Ev16 :=
  if s = "" then [] else (s.splitOn ",").filterMap fun t =>
    match t.splitOn ":" with
    | ["w", a, v] => some (.w (parseNat a) (parseNat v))
    | ["b", n] => some (.b (parseNat n))
    | _ => none

/-- `prefill` of harness/src/s_c16.rs -/
def prefillBus (l : Line) : Bus.State :=
  let s := mkBus l
  { s with
    vram := (Array.range 0x2000).map fun i => romByte (0x8000 + i + 12345)
    cram := (Array.range (l.inN "ramb")).map fun i => romByte (i + 54321)
    wram := (Array.range 0x2000).map fun i => romByte (0xc000 + i + 12345)
    oam := (Array.range 0xa0).map fun i => romByte (0xfe00 + i + 12345)
    hram := (Array.range 127).map fun i => romByte (0xff80 + i + 12345) }

/-- `other_digest`: every RAM byte outside OAM and the I/O window -/
def otherDigest (s : Bus.State) : UInt64 := Id.run do
  let mut h := fnv0
  for b in s.vram do h := fnv h b
  for b in s.cram do h := fnv h b
  for b in s.wram do h := fnv h b
  for b in s.hram do h := fnv h b
  return fnv h (s.io.ie ||| s.io.ieUpper)

/-- I/O registers that advance with time (DIV, TIMA, IF, STAT, LY): when they are the DMA source (page 0xFF) the
value copied is the one at the byte's own machine cycle, which only the first byte of a batch shares with the
read taken just before the batch; the batch-invariance stream `c16.inv` covers them. The bus model has no time. -/
def volatileOff (i : Nat) : Bool := i == 0x04 || i == 0x05 || i == 0x0f || i == 0x41 || i == 0x44

structure Rec16 where
  ab : Nat
  pb : Nat
  sb : Nat
  aa : Nat
  pa : Nat
  oam0 : Array Nat
  src : Array Nat
  oam1 : Array Nat
  d0 : String
  d1 : String
deriving Inhabited

def parseRec16 (s : String) : Option Rec16 :=
  match s.splitOn ":" with
  | [ab, pb, sb, aa, pa, o0, src, o1, d0, d1] =>
    some { ab := parseNat ab, pb := parseNat pb, sb := parseNat sb, aa := parseNat aa, pa := parseNat pa,
           oam0 := parseBytes o0, src := parseBytes src, oam1 := parseBytes o1, d0 := d0, d1 := d1 }
  | _ => none

def runEvs16 (s : Bus.State) (evs : List Ev16) : Except String Bus.State := do
  let mut s := s
  for e in evs do
    match e with
    | .w a v => match Bus.write s a v with
      | .ok s' => s := s'
      | .error _ => throw s!"model panics on write {a}:{v}"
    | .b n => match Bus.runDma s n with
      | .ok s' => s := s'
      | .error _ => throw s!"model panics in a DMA batch of {n} clocks"
  return s

def dmaProgress (s : Bus.State) : Nat × Nat := match s.dma with
  | some (_, off) => (1, off)
  | none => (0, 160)

def checkC16Main (l : Line) : Verdict := Id.run do
  let evs := parseEvs16 (l.inS "ev")
  let recs := ((l.outS "r").splitOn ";").filterMap parseRec16
  let nb := evs.foldl (fun k e => match e with | .b _ => k + 1 | _ => k) 0
  if recs.length != nb || nb == 0 then return .bad s!"{recs.length} records for {nb} batches"
  -- spec, from the implementation's own outputs
  let mut page : Option Nat := none
  let mut active := false
  let mut prog := 160
  let mut copied := 0
  let mut rs := recs
  for e in evs do
    match e with
    | .w a v => if a == 0xff46 then page := some v; active := true; prog := 0
    | .b n =>
      let r := rs.head!
      rs := rs.tail!
      if r.oam0.size != 160 || r.oam1.size != 160 then return .bad "malformed OAM dump"
      if (r.ab == 1) != active then return .specDiff s!"DMA active={r.ab} before a batch, expected {active}"
      if r.d0 != r.d1 then return .specDiff s!"a catch-up batch of {n} clocks changed RAM outside OAM"
      if active then
        let pg := page.getD 0
        if r.src.size != 160 then return .bad "malformed source dump"
        if r.pb != prog then return .specDiff s!"progress {r.pb} before the batch, expected {prog}"
        if r.sb != pg * 256 then return .specDiff s!"DMA source {r.sb} after writing page {pg} to 0xFF46"
        let pa := min (prog + n / 4) 160
        if r.pa != pa then return .specDiff s!"progress {r.pa} after {n} clocks from {prog}, expected {pa} (one byte per machine cycle)"
        if (r.aa == 1) != (pa < 160) then return .specDiff s!"DMA active={r.aa} with progress {pa} (finished exactly after 160 machine cycles)"
        for i in [0:160] do
          if prog ≤ i && i < pa then
            if !(pg == 0xff && volatileOff i && i != prog) && r.oam1[i]! != r.src[i]! then
              return .specDiff s!"OAM[{i}]={r.oam1[i]!} after the batch, source byte {pg * 256 + i} read {r.src[i]!}"
          else if r.oam1[i]! != r.oam0[i]! then
            return .specDiff s!"OAM[{i}] changed from {r.oam0[i]!} to {r.oam1[i]!} outside the copied range [{prog},{pa})"
        copied := copied + (pa - prog)
        prog := pa
        active := pa < 160
      else
        if r.aa != 0 || r.pa != 160 then return .specDiff "an idle DMA became active without a write to 0xFF46"
        if r.oam1 != r.oam0 then return .specDiff "OAM changed while no DMA was active"
  -- model
  let mut s := prefillBus l
  let mut tainted := false
  rs := recs
  for e in evs do
    match e with
    | .w a v =>
      if a == 0xff46 && v == 0xff then tainted := true
      match Bus.write s a v with
      | .ok s' => s := s'
      | .error _ => return .modelDiff s!"model panics on write {a}:{v}"
    | .b n =>
      let r := rs.head!
      rs := rs.tail!
      match Bus.runDma s n with
      | .error _ => return .modelDiff s!"model panics in a DMA batch of {n} clocks"
      | .ok s' =>
        s := s'
        let (a, p) := dmaProgress s
        if a != r.aa || p != r.pa then return .modelDiff s!"progress model=({a},{p}) impl=({r.aa},{r.pa})"
        for i in [0:160] do
          if !(tainted && volatileOff i) && s.oam[i]! != r.oam1[i]! then
            return .modelDiff s!"OAM[{i}] model={s.oam[i]!} impl={r.oam1[i]!} after a batch of {n}"
  if toString (otherDigest s) != l.outS "fd" then return .modelDiff s!"final RAM digest model={otherDigest s} impl={l.outS "fd"}"
  return .ok (copied > 0)

def checkC16Inv (l : Line) : Verdict := Id.run do
  let of := l.outS "of"; let oc := l.outS "oc"; let or := l.outS "or"
  if of.length != 320 then return .bad "malformed OAM dump"
  -- spec: the result does not depend on how the time is split into batches
  if of != oc then return .specDiff "final OAM differs between 4-clock batches and one batch per gap"
  if of != or then return .specDiff "final OAM differs between 4-clock batches and the random split"
  if l.outS "df" != l.outS "dc" || l.outS "df" != l.outS "dr" then return .specDiff "RAM outside OAM depends on the batch split"
  if l.outS "pf" != l.outS "pc" || l.outS "pf" != l.outS "pr" then return .specDiff "DMA progress depends on the batch split"
  -- model on the random split
  let page := l.inN "page"
  let segs : List (Nat × Nat × Nat) := if l.inS "segs" = "" then [] else ((l.inS "segs").splitOn ",").filterMap fun t =>
    match t.splitOn ":" with
    | [g, a, v] => some (parseNat g, parseNat a, parseNat v)
    | _ => none
  let part : List (List Nat) := ((l.inS "part").splitOn ",").map fun t => (t.splitOn "+").map parseNat
  let mut evs : List Ev16 := []
  if l.inN "pre" > 0 then evs := evs ++ [.b (l.inN "pre")]
  evs := evs ++ [.w 0xff46 page]
  let mut k := 0
  for p in part do
    evs := evs ++ p.map Ev16.b
    match segs[k]? with
    | some (_, a, v) => evs := evs ++ [.w a v]
    | none => pure ()
    k := k + 1
  let tainted := page == 0xff || segs.any fun (_, a, v) => a == 0xff46 && v == 0xff
  match runEvs16 (prefillBus l) evs with
  | .error m => return .modelDiff m
  | .ok s =>
    let o := parseBytes or
    for i in [0:160] do
      if !(tainted && volatileOff i) && s.oam[i]! != o[i]! then
        return .modelDiff s!"final OAM[{i}] model={s.oam[i]!} impl={o[i]!}"
    if toString (otherDigest s) != l.outS "dr" then return .modelDiff "final RAM digest"
    if toString (dmaProgress s).2 != l.outS "pr" then return .modelDiff "final progress"
    return .ok true

/-- C16: OAM DMA scenarios on the real `MemoryAreas` -/
def checkC16 (l : Line) : Verdict :=
  if l.stream == "c16.inv" then checkC16Inv l else checkC16Main l

end Driver
