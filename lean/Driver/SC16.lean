import Driver.Proto
namespace Driver

/-- C16 correspondence (stub) -/
def checkC16 (l : Line) : Verdict := .bad s!"stream {l.stream} not implemented"

end Driver
