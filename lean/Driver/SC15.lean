import Driver.Proto
namespace Driver

/-- C15 correspondence (stub) -/
def checkC15 (l : Line) : Verdict := .bad s!"stream {l.stream} not implemented"

end Driver
