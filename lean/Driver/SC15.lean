import Driver.Proto
import GbVerif.Model.Ppu
import GbVerif.Spec.Frame
/-!
C15 correspondence.  One line = one full frame from power-on with constant memories/registers:
`c15 lcdc=.. scx=.. scy=.. wx=.. wy=.. bgp=.. obp0=.. obp1=.. bs=<batch seed> oam=<320 hex> vram=<16384 hex>
 | frame=<46080 hex>`  (or `| panic=1` when `run_clock_cycles` panicked).
The implementation's frame is compared pixel by pixel with the reference composition
(`IMPL≠SPEC`, naming the first differing x, ly) and with the model's frame (`MODEL≠IMPL`).
-/
namespace Driver
open GbVerif

/-- first (x, ly) where the implementation's frame differs from the reference composition -/
def c15SpecDiff (r : FrameSpec.Regs) (vram oam : FrameSpec.Mem) (impl : Array Nat) : Option (Nat × Nat × Nat × Nat) := Id.run do
  for ly in [0:144] do
    let sel := FrameSpec.selected r oam ly
    for x in [0:160] do
      let s := FrameSpec.pixelOf r vram oam sel x ly
      let i := impl[ly * 160 + x]!
      if s != i then return some (x, ly, s, i)
  return none

def c15FirstDiff (a b : Array Nat) : Option Nat := Id.run do
  for k in [0:a.size] do
    if a[k]! != b[k]! then return some k
  return none

def checkC15One (l : Line) : Verdict :=
  let rm : Ppu.Regs := { lcdc := l.inN "lcdc", scx := l.inN "scx", scy := l.inN "scy", wx := l.inN "wx",
                         wy := l.inN "wy", bgp := l.inN "bgp", obp0 := l.inN "obp0", obp1 := l.inN "obp1" }
  let rs : FrameSpec.Regs := { lcdc := rm.lcdc, scx := rm.scx, scy := rm.scy, wx := rm.wx, wy := rm.wy,
                               bgp := rm.bgp, obp0 := rm.obp0, obp1 := rm.obp1 }
  let vram := parseBytes (l.inS "vram")
  let oam := parseBytes (l.inS "oam")
  if vram.size != 8192 || oam.size != 160 then .bad s!"vram/oam size {vram.size}/{oam.size}"
  else if rm.lcdc % 2 != 1 || rm.lcdc / 128 % 2 != 1 then .bad "LCDC bits 7 and 0 must be set (property: LCD and BG enabled)"
  else
    let model := Ppu.renderFrame rm vram oam
    if l.outS "panic" != "" then
      -- the reference defines a frame for every input: a panic contradicts it
      .specDiff s!"implementation panicked ({l.outS "panic"}); spec defines a frame; model={match model with | .ok _ => "frame" | .error _ => "panic"}"
    else
      let impl := parseBytes (l.outS "frame")
      if impl.size != 23040 then .bad s!"frame size {impl.size}"
      else
        match c15SpecDiff rs (fun a => vram[a]!) (fun a => oam[a]!) impl with
        | some (x, ly, s, i) =>
          let m := match model with
            | .ok f => s!"{f[ly * 160 + x]!}"
            | .error _ => "panic"
          .specDiff s!"pixel x={x} ly={ly} spec={s} impl={i} model={m}"
        | none =>
          match model with
          | .error _ => .modelDiff "model panics, implementation does not"
          | .ok f =>
            if f.size != 23040 then .modelDiff s!"model frame size {f.size}"
            else match c15FirstDiff f impl with
              | some k => .modelDiff s!"pixel x={k % 160} ly={k / 160} model={f[k]!} impl={impl[k]!}"
              | none =>
                -- non-trivial: more than one shade on screen
                .ok (impl.any (· != impl[0]!))

/-! ### `c15.seq`: several frames on one machine -/

def c15Shade (d : Nat) : Nat := if d == 0 then 255 else if d == 1 then 170 else if d == 2 then 85 else 0

/-- `fz<f>` (one hex digit = two pixels as shade indices) or `frame<f>` (plain hex) -/
def c15Frame (l : Line) (f : Nat) : Array Nat :=
  let z := l.outS s!"fz{f}"
  if z != "" then Id.run do
    let mut out : Array Nat := Array.mkEmpty (2 * z.length)
    for c in z.toList do
      let d := hexDigit c
      out := (out.push (c15Shade (d / 4))).push (c15Shade (d % 4))
    return out
  else parseBytes (l.outS s!"frame{f}")

def c15Regs (l : Line) (f : Nat) : Ppu.Regs :=
  { lcdc := l.inN s!"lcdc{f}", scx := l.inN s!"scx{f}", scy := l.inN s!"scy{f}", wx := l.inN s!"wx{f}",
    wy := l.inN s!"wy{f}", bgp := l.inN s!"bgp{f}", obp0 := l.inN s!"obp0{f}", obp1 := l.inN s!"obp1{f}" }

def checkC15Seq (l : Line) : Verdict := Id.run do
  let nf := l.inN "nf"
  if nf == 0 || nf > 8 then return .bad s!"nf={nf}"
  if l.outS "panic" != "" then
    return .specDiff s!"implementation panicked ({l.outS "panic"}); spec defines every frame"
  let mut vram : Array Nat := #[]
  let mut oam : Array Nat := #[]
  let mut st : Except Ppu.Panic Ppu.State := .error .oob
  let mut nontrivial := false
  let mut modelMsg : Option String := none
  for f in [0:nf] do
    let rm := c15Regs l f
    let vramOld := vram
    let oamOld := oam
    if l.inS s!"vram{f}" != "" then vram := parseBytes (l.inS s!"vram{f}")
    oam := parseBytes (l.inS s!"oam{f}")
    if vram.size != 8192 || oam.size != 160 then return .bad s!"frame {f}: vram/oam size {vram.size}/{oam.size}"
    if rm.lcdc % 2 != 1 || rm.lcdc / 128 % 2 != 1 then return .bad "LCDC bits 7 and 0 must be set"
    let impl := c15Frame l f
    if impl.size != 23040 then return .bad s!"frame {f} size {impl.size}"
    -- the model, carried on from the previous frame
    st := if f == 0 then Ppu.renderFirst rm vram oam
          else match st with
            | .ok s => Ppu.renderNext s rm vramOld oamOld vram oam (l.inN s!"vb{f}" / 4)
            | .error e => .error e
    let rs : FrameSpec.Regs := { lcdc := rm.lcdc, scx := rm.scx, scy := rm.scy, wx := rm.wx, wy := rm.wy,
                                 bgp := rm.bgp, obp0 := rm.obp0, obp1 := rm.obp1 }
    let v := vram
    let o := oam
    match c15SpecDiff rs (fun a => v[a]!) (fun a => o[a]!) impl with
    | some (x, ly, sp, i) =>
      let m := match st with
        | .ok s => s!"{s.visible[ly * 160 + x]!}"
        | .error _ => "panic"
      return .specDiff s!"frame={f} pixel x={x} ly={ly} spec={sp} impl={i} model={m}"
    | none => pure ()
    if modelMsg.isNone then
      match st with
      | .error _ => modelMsg := some s!"frame={f}: model panics, implementation does not"
      | .ok s =>
        match c15FirstDiff s.visible impl with
        | some k => modelMsg := some s!"frame={f} pixel x={k % 160} ly={k / 160} model={s.visible[k]!} impl={impl[k]!}"
        | none => pure ()
    if impl.any (· != impl[0]!) then nontrivial := true
  match modelMsg with
  | some m => return .modelDiff m
  | none => return .ok nontrivial

def checkC15 (l : Line) : Verdict :=
  if l.stream == "c15.seq" then checkC15Seq l else checkC15One l

end Driver
