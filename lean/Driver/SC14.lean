import Driver.Proto
namespace Driver

/-- C14 correspondence (stub) -/
def checkC14 (l : Line) : Verdict := .bad s!"stream {l.stream} not implemented"

end Driver
