import Driver.Proto
import GbVerif.Model.Lcd
import GbVerif.Spec.Lcd
/-!
C14 correspondence: replays the `c14.*` lines (see `harness/src/s_c14.rs`) on the closed-form
schedule of `Spec/Lcd.lean` (spec verdict first) and on the model `Model/Lcd.lean`.
-/
namespace Driver
open GbVerif

namespace C14

/-- `N` or `NxM` items, comma separated → the expanded batch list (clocks) -/
def parseBatches (s : String) : Array Nat := Id.run do
  let mut out : Array Nat := #[]
  if s = "" then return out
  for it in s.splitOn "," do
    match it.splitOn "x" with
    | [n] => out := out.push (parseNat n)
    | [n, m] =>
      let nn := parseNat n
      for _ in [0:parseNat m] do out := out.push nn
    | _ => out := out.push 1   -- malformed: not a multiple of 4, reported as bad below
  return out

def b2n (b : Bool) : Nat := if b then 1 else 0

/-- what the spec demands of one batch of `n` ticks starting at tick `k`:
(LY after, STAT bits 0..2 after, VBlank requested, STAT requested) -/
def specBatch (e : LcdSpec.Enables) (lyc k n : Nat) : Nat × Nat × Bool × Bool :=
  -- `evScan … = (sched (4(k+n)), anyTick vblankEv k n, anyTick (statEv e lyc) k n)` (C14.batch_events_scan)
  let (_, vb, st) := LcdSpec.evScan e lyc (LcdSpec.sched (4 * k)) k n false false
  ((LcdSpec.sched (4 * (k + n))).line, LcdSpec.statLow lyc (4 * (k + n)), vb, st)

structure Obs where
  ly : Nat
  st : Nat
  fl : Nat

def obsAt (o : Array Nat) (i : Nat) : Obs := ⟨o[3*i]!, o[3*i+1]!, o[3*i+2]!⟩

/-- spec verdict for one observation after the batch `[k, k+n)` (ticks); `none` = agrees -/
def specCheck (e : LcdSpec.Enables) (lyc k n : Nat) (ob : Obs) (tag : String) : Option String :=
  let (ly, low, vb, st) := specBatch e lyc k n
  if ob.ly != ly then some s!"{tag}: LY impl={ob.ly} spec={ly} at clock {4 * (k + n)}"
  else if ob.st % 8 != low then some s!"{tag}: STAT bits 0..2 impl={ob.st % 8} spec={low} at clock {4 * (k + n)}"
  else if ob.fl.testBit 0 != vb then
    some s!"{tag}: VBlank request impl={b2n (ob.fl.testBit 0)} spec={b2n vb} for clocks ({4 * k},{4 * (k + n)}]"
  else if ob.fl.testBit 1 != st then
    some s!"{tag}: STAT request impl={b2n (ob.fl.testBit 1)} spec={b2n st} for clocks ({4 * k},{4 * (k + n)}]"
  else if ob.fl / 4 != 0 then some s!"{tag}: unexpected flag bits impl={ob.fl}"
  else none

def modelStart (stat lyc : Nat) : Lcd.State × Nat × Nat :=
  let (s1, w1) := Lcd.setStat stat Lcd.powerOn
  let (s2, w2) := Lcd.setLyc lyc s1
  (s2, w1, w2)

/-- streams `c14.edge`, `c14.step`, `c14.run`, `c14.io`: one observation per batch -/
def checkSeq (l : Line) : Verdict := Id.run do
  let stat := l.inN "stat"; let lyc := l.inN "lyc"
  let bs := parseBatches (l.inS "b")
  let o := parseBytes (l.outS "o")
  let wv := parseBytes (l.outS "w")
  if stat ≥ 256 || lyc ≥ 256 then return .bad "stat/lyc not a byte"
  if o.size != 3 * bs.size || wv.size != 2 then return .bad s!"expected {bs.size} observations, got {o.size}/3"
  if bs.any (· % 4 != 0) then return .bad "batch not a multiple of 4 clocks"
  -- spec: closed-form schedule and events
  let e := LcdSpec.Enables.ofByte stat
  let mut k := 0
  let mut nt := false
  for i in [0:bs.size] do
    let n := bs[i]! / 4
    let ob := obsAt o i
    match specCheck e lyc k n ob s!"batch {i}" with
    | some m => return .specDiff m
    | none => pure ()
    if ob.fl != 0 then nt := true
    k := k + n
  -- model
  let (s0, w1, w2) := modelStart stat lyc
  if w1 != wv[0]! then return .modelDiff s!"flags of STAT write model={w1} impl={wv[0]!}"
  if w2 != wv[1]! then return .modelDiff s!"flags of LYC write model={w2} impl={wv[1]!}"
  let mut s := s0
  for i in [0:bs.size] do
    let ob := obsAt o i
    match Lcd.runClocks bs[i]! s with
    | none => return .bad "batch not a multiple of 4 clocks"
    | some (s', fl) =>
      s := s'
      if Lcd.getLy s != ob.ly then return .modelDiff s!"batch {i}: LY model={Lcd.getLy s} impl={ob.ly}"
      if Lcd.getStat s != ob.st then return .modelDiff s!"batch {i}: STAT model={Lcd.getStat s} impl={ob.st}"
      if fl != ob.fl then return .modelDiff s!"batch {i}: flags model={fl} impl={ob.fl}"
  return .ok nt

def runAll (bs : Array Nat) (s : Lcd.State) : Option (Lcd.State × Nat) := Id.run do
  let mut s := s
  let mut acc := 0
  for c in bs do
    match Lcd.runClocks c s with
    | none => return none
    | some (s', fl) => s := s'; acc := acc ||| fl
  return some (s, acc)

/-- stream `c14.part`: the same elapsed time under two partitions, final observation + OR of flags -/
def checkPart (l : Line) : Verdict := Id.run do
  let stat := l.inN "stat"; let lyc := l.inN "lyc"
  let as := parseBatches (l.inS "a"); let bs := parseBatches (l.inS "b")
  let oa := parseBytes (l.outS "oa"); let ob := parseBytes (l.outS "ob")
  if stat ≥ 256 || lyc ≥ 256 then return .bad "stat/lyc not a byte"
  if oa.size != 3 || ob.size != 3 then return .bad "expected one observation per partition"
  if as.any (· % 4 != 0) || bs.any (· % 4 != 0) then return .bad "batch not a multiple of 4 clocks"
  let tot := as.foldl (· + ·) 0
  if bs.foldl (· + ·) 0 != tot then return .bad "partitions of different totals"
  let e := LcdSpec.Enables.ofByte stat
  let a := obsAt oa 0; let b := obsAt ob 0
  -- spec: both partitions must show what one call of the whole time shows …
  match specCheck e lyc 0 (tot / 4) a "partition a" with
  | some m => return .specDiff m
  | none => pure ()
  match specCheck e lyc 0 (tot / 4) b "partition b" with
  | some m => return .specDiff m
  | none => pure ()
  -- … hence the same (independent of the spec's schedule)
  if oa != ob then return .specDiff s!"batching changes the outcome: a={oa} b={ob}"
  let (s0, _, _) := modelStart stat lyc
  match runAll as s0, runAll bs s0 with
  | some (sa, fa), some (sb, fb) =>
    if Lcd.getLy sa != a.ly || Lcd.getStat sa != a.st || fa != a.fl then
      return .modelDiff s!"partition a: model LY={Lcd.getLy sa} STAT={Lcd.getStat sa} flags={fa} impl={oa}"
    if Lcd.getLy sb != b.ly || Lcd.getStat sb != b.st || fb != b.fl then
      return .modelDiff s!"partition b: model LY={Lcd.getLy sb} STAT={Lcd.getStat sb} flags={fb} impl={ob}"
    return .ok (a.fl != 0)
  | _, _ => return .bad "batch not a multiple of 4 clocks"

end C14

/-- C14 correspondence -/
def checkC14 (l : Line) : Verdict :=
  if l.stream == "c14.part" then C14.checkPart l
  else if l.stream == "c14.edge" || l.stream == "c14.step" || l.stream == "c14.run" || l.stream == "c14.io" then C14.checkSeq l
  else .bad s!"unknown stream {l.stream}"

end Driver
