import Driver.BusUtil
import GbVerif.Spec.Serial
namespace Driver
open GbVerif

/-- C18: bytes that reached fd 1 (jit build `out`, non-jit build `n_out`) vs the serial spec and the I/O model -/
def checkC18 (l : Line) : Verdict := Id.run do
  if l.stream == "c18.fill" then
    if l.outS "skipped" == "1" then return .ok false          -- the probe only exists in the jit build
    if l.outS "out" != "" then return .specDiff s!"the core wrote to stdout while filling the translation cache: {l.outS "out"}"
    return .ok true
  let ws := parsePairs (l.inS "ws")
  let spec := SerialSpec.output ws
  let hexOf (bs : List Nat) : String := String.join (bs.map fun b => String.ofList [Nat.digitChar (b / 16), Nat.digitChar (b % 16)])
  let exp := hexOf spec
  if l.outS "halted" != "1" || l.outS "n_halted" != "1" then return .bad "program did not reach its HALT"
  if l.outS "out" != exp then return .specDiff s!"recompiler build: stdout carries {l.outS "out"}, the serial writes define {exp}"
  if l.outS "n_out" != exp then return .specDiff s!"interpreter build: stdout carries {l.outS "n_out"}, the serial writes define {exp}"
  let io := ws.foldl (fun (io : Bus.Io) w => io.setByte w.1 w.2) {}
  if hexOf io.serialOut != l.outS "out" then return .modelDiff s!"model log {hexOf io.serialOut} impl {l.outS "out"}"
  return .ok (spec.length > 0)

end Driver
