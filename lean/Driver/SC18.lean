import Driver.Proto
namespace Driver

/-- C18 correspondence (stub) -/
def checkC18 (l : Line) : Verdict := .bad s!"stream {l.stream} not implemented"

end Driver
