import Driver.Proto
import GbVerif.Model.Header
import GbVerif.Spec.Header
import GbVerif.Spec.Cart
import GbVerif.Model.Cart
import GbVerif.Gen.HeaderTables
namespace Driver
open GbVerif

/-! C19 correspondence.

`c19.hdr hdr=<80 bytes hex> | valid=<0|1> banks=<n> rombytes=<n> rambytes=<n> cart=<0|1|3|n|panic> pmsg=<panic message, _ for space>`
   in-process: `Header` transmuted from the 80 bytes; `valid_checksum`, `get_rom_bank_count`, `get_rom_size_bytes`,
   `get_ram_size_bytes`, `create_cart_state` (identified by its bank-register behaviour; panic caught).

`c19.file kind=<file|missing> hdr=<80 bytes hex> len=<n> pb=<bank number selected> mk=<bank holding 'Z'> | out=<stdout prefix hex> err=<stderr prefix hex> status=<alive|exit:N|sig:N>`
   the real binary on a file of `len` bytes: zeros, the header at 0x100, a probe program at 0x150 that selects ROM
   bank number `pb`, reads 0x7FFF, prints that byte, 'K' and a newline on the serial port, then loops; byte 'Z' at
   offset 0x4000*mk + 0x3FFF (whatever of this fits into `len`).  `pb` may exceed the declared bank count: the
   controller then reduces it (model: `Cart.getRomBank`; spec: `CartSpec.romBank`), and a run that dies is a fault.
-/

namespace C19

def bytesOfString (s : String) : List Nat := s.toUTF8.toList.map (·.toNat)

def isPrefix : List Nat → List Nat → Bool
  | [], _ => true
  | _ :: _, [] => false
  | a :: as, b :: bs => a == b && isPrefix as bs

def containsSub (pat : List Nat) : List Nat → Bool
  | [] => pat.isEmpty
  | b :: bs => isPrefix pat (b :: bs) || containsSub pat bs

/-- `Header::get_title`: the 11 title bytes decoded lossily, trailing NULs trimmed (`Header.titleText`) -/
def titleBytes (hdr : Array Nat) : List Nat := Header.titleText ⟨fun i => hdr.getD i 0⟩

def kindCode : HeaderSpec.Controller → Nat
  | .romOnly => 0 | .mbc1 => 1 | .mbc3 => 3 | _ => 99

def romOf (hdr : Array Nat) : Nat → Nat :=
  fun i => if 0x100 ≤ i ∧ i < 0x150 then hdr.getD (i - 0x100) 0 else 0

def checkHdr (l : Line) : Verdict :=
  let hdr := parseBytes (l.inS "hdr")
  if hdr.size != 80 then .bad "hdr is not 80 bytes" else
  let rom := romOf hdr
  let h : Header.Header := ⟨fun i => hdr.getD i 0⟩
  let valid := l.outN "valid" == 1
  let banks := l.outN "banks"; let romb := l.outN "rombytes"; let ramb := l.outN "rambytes"
  let cart := l.outS "cart"
  let typ := rom 0x147; let rc := rom 0x148; let ac := rom 0x149
  -- spec, from the header bytes and the implementation's outputs only
  if valid && !HeaderSpec.checksumOk rom then
    .specDiff s!"valid_checksum accepts although the standard checksum is {HeaderSpec.headerChecksum rom} ≠ byte 0x14D = {rom 0x14D}"
  else if (match HeaderSpec.romBanks? rc with | some n => banks != n | none => false) then
    .specDiff s!"ROM banks for code {rc}: impl={banks} standard={HeaderSpec.romBanks? rc}"
  else if (match HeaderSpec.romBytes? rc with | some n => romb != n | none => false) then
    .specDiff s!"ROM bytes for code {rc}: impl={romb} standard={HeaderSpec.romBytes? rc}"
  else if (match HeaderSpec.ramBytes? ac with | some n => ramb != n | none => false) then
    .specDiff s!"RAM bytes for code {ac}: impl={ramb} standard={HeaderSpec.ramBytes? ac}"
  else if cart != "panic" && !(match HeaderSpec.controller? typ with
      | some c => HeaderSpec.implemented c && toString (kindCode c) == cart
      | none => false) then
    .specDiff s!"cartridge type {typ}: impl builds controller {cart}, the standard says {repr (HeaderSpec.controller? typ)}"
  -- model
  else if Header.validChecksum h != valid then .modelDiff s!"valid model={Header.validChecksum h} impl={valid}"
  else if Header.romBankCount h != banks then .modelDiff s!"banks model={Header.romBankCount h} impl={banks}"
  else if Header.romSizeBytes h != romb then .modelDiff s!"rombytes model={Header.romSizeBytes h} impl={romb}"
  else if Header.ramSizeBytes h != ramb then .modelDiff s!"rambytes model={Header.ramSizeBytes h} impl={ramb}"
  else
    let mcart := match Header.cartState h with | some k => toString k | none => "panic"
    if mcart != cart then .modelDiff s!"cart model={mcart} impl={cart}"
    else if cart == "panic" && l.outS "pmsg" != "Unsupported_cart_type" then
      .modelDiff s!"panic message impl={l.outS "pmsg"}"
    else if l.outS "title" == "panic" then
      .specDiff "get_title panics on these title bytes: a file with this header and a matching checksum dies while the Loading line is printed"
    else if (if l.outS "title" == "-" then [] else (parseBytes (l.outS "title")).toList) != titleBytes hdr then
      .modelDiff s!"title model={titleBytes hdr} impl={l.outS "title"}"
    else .ok (valid || cart != "panic" || (HeaderSpec.romBanks? rc).isSome || (HeaderSpec.ramBytes? ac).isSome
              || ((hdr.toList.drop 0x34).take 11).any (· ≥ 0x80))   -- or a title that is not ASCII

def fallbackLine : List Nat := bytesOfString "\nNo ROM, loading fallback\n"

def checkFile (l : Line) : Verdict :=
  let hdr := parseBytes (l.inS "hdr")
  if hdr.size != 80 then .bad "hdr is not 80 bytes" else
  let missing := l.inS "kind" == "missing"
  let len := l.inN "len"
  let pb := l.inN "pb"
  let mk := l.inN "mk"
  let rom := romOf hdr
  -- the probe's register writes (harness `probe_code`): MBC1 5 low bits at 0x2000 and 2 high bits at 0x4000, else 7 bits at 0x2000
  let typ := rom 0x147
  let isMbc1 : Bool := decide (1 ≤ typ) && decide (typ ≤ 3)
  let wlo := if isMbc1 then pb % 32 else pb % 128
  let whi := if isMbc1 then pb / 32 else 0
  let out := (parseBytes (l.outS "out")).toList
  let err := (parseBytes (l.outS "err")).toList
  let status := l.outS "status"
  let loading := bytesOfString "Loading \"" ++ titleBytes hdr ++ bytesOfString "\"\n"
  let saysLoading := isPrefix (bytesOfString "Loading \"") out
  -- classify the run
  let obs? : Option HeaderSpec.Observed :=
    if status.startsWith "sig:" then some .fault
    -- a panic is controlled termination only where the code says `panic!`: the unsupported cartridge type
    else if status == "exit:101" && !containsSub (bytesOfString "Unsupported cart type") err then some .fault
    else if status.startsWith "exit:" then some .rejected                       -- controlled termination
    else if status == "alive" && saysLoading then some .accepted
    else if status == "alive" && containsSub fallbackLine out then some .rejected  -- message, load_rom returned None
    else none
  match obs? with
  | none => .bad s!"unclassifiable run: status={status}"
  | some obs =>
  -- spec: the property on this run
  if !HeaderSpec.allowed rom (if missing then 0 else len) obs then
    (match obs with
     | .fault => .specDiff s!"process killed by a signal or an unintended panic ({status}) — spec: load-time rejection or clean run only"
     | _ => .specDiff s!"file accepted although the property requires rejection (len={len}, declared={HeaderSpec.romBytes? (rom 0x148)}, checksumOk={HeaderSpec.checksumOk rom}, typeSupported={HeaderSpec.typeSupported (rom 0x147)})")
  else
  let specProbeBad :=
    obs == .accepted && (match HeaderSpec.romBanks? (rom 0x148) with
      | some n =>
        let ctl? : Option CartSpec.Ctl := match HeaderSpec.controller? typ with
          | some .romOnly => some .romOnly | some .mbc1 => some .mbc1 | some .mbc3 => some .mbc3 | _ => none
        (match ctl? with
         | some ctl =>
           let eff := CartSpec.romBank ctl n (CartSpec.regsAfter ctl [(0x2000, wlo), (0x4000, whi)])
           eff == mk && mk < n && 0x4000 * mk + 0x3fff < len && !isPrefix (loading ++ [0x5A, 0x4B, 0x0A]) out
         | none => false)
      | none => false)
  if specProbeBad then
    .specDiff s!"accepted, but after selecting bank number {pb} the byte at 0x7FFF (bank {mk} of the declared ROM) did not read back: ROM size / controller not as the header tables say"
  else
  -- model
  let f : Header.RomFile := ⟨!missing, len, rom⟩
  match Header.loadRom f with
  | .rejectedMsg m =>
    if !isPrefix (bytesOfString m.text ++ fallbackLine) out then .modelDiff s!"model: rejected with \"{m.text}\"; impl stdout differs"
    else if status != "alive" then .modelDiff s!"model: rejected, fallback core keeps running; impl status={status}"
    else .ok true
  | .panic =>
    if out != loading then .modelDiff "model: Loading line then panic; impl stdout differs"
    else if status != "exit:101" then .modelDiff s!"model: panic (exit 101); impl status={status}"
    else if !containsSub (bytesOfString "Unsupported cart type") err then .modelDiff "model: panic message 'Unsupported cart type' not on stderr"
    else .ok true
  | .accepted cfg =>
    let kind : Cart.Kind := if cfg.kind == 1 then .mbc1 else if cfg.kind == 3 then .mbc3 else .none
    let cart := Cart.writeRom (Cart.writeRom (Cart.init kind cfg.romBanks (cfg.ramBytes / 0x2000)) 0x2000 wlo) 0x4000 whi
    let eff := Cart.getRomBank cart
    if mk ≥ cfg.romBanks then .bad s!"marker bank {mk} outside the model's {cfg.romBanks} banks"
    else
      let b := if eff == mk && 0x4000 * mk + 0x3fff < len then 0x5A else 0
      if !isPrefix (loading ++ [b, 0x4B, 0x0A]) out then .modelDiff s!"model: accepted ({cfg.romBanks} banks, kind {cfg.kind}), probe prints {b}; impl stdout differs"
      else if status != "alive" then .modelDiff s!"model: accepted and running; impl status={status}"
      else .ok true

end C19

def checkC19 (l : Line) : Verdict :=
  if l.stream == "c19.hdr" then C19.checkHdr l
  else if l.stream == "c19.file" then C19.checkFile l
  else .bad s!"unknown stream {l.stream}"

end Driver
