import Driver.Proto
namespace Driver

/-- C19 correspondence (stub) -/
def checkC19 (l : Line) : Verdict := .bad s!"stream {l.stream} not implemented"

end Driver
