import Driver.Proto
namespace Driver

/-- C03 correspondence (stub) -/
def checkC03 (l : Line) : Verdict := .bad s!"stream {l.stream} not implemented"

end Driver
