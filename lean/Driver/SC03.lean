import Driver.Proto
import GbVerif.Model.Cache
namespace Driver
open GbVerif

/-- C03: warm cache vs cold cache vs interpreter over a history of block runs and bank switches (joined line:
`o=` warm jit, `c=` cold jit, `n_o=` interpreter build); cache hit/miss against the key discipline of the cache model -/
def checkC03 (l : Line) : Verdict := Id.run do
  let warm := (l.outS "o").splitOn ";"
  let cold := (l.outS "c").splitOn ";"
  let interp := (l.outS "n_o").splitOn ";"
  if warm.length != cold.length || warm.length != interp.length then return .bad "run counts differ between builds"
  let mut seen : List (Nat × Nat) := []      -- (key, bytes_translated) of every block translated so far (warm cache)
  let mut k := 0
  for w in warm do
    let wf := parseNatList w
    let cf := parseNatList (cold.getD k "")
    let nf := parseNatList (interp.getD k "")
    let st (xs : List Nat) := xs.take 7
    if st nf != st wf || st nf != st cf then
      let what := if st wf != st cf then "warm cache differs from a cache emptied before every block" else "recompiler differs from the interpreter"
      -- the recorded finding: the block that just ran is located INSIDE the switchable bank and, as the interpreter ran
      -- it, wrote to the cartridge's banking registers; the translated block went on in the old bank's translation
      -- (warm and cold cache alike)
      let ip0 := nf.getD 7 0
      let inBanked := ip0 ≥ 0x4000 && ip0 < 0x8000 && wf.getD 7 0 == ip0 && wf.getD 8 0 == nf.getD 8 0
      let switched := nf.getD 11 0 == 1      -- the interpreter's run of that block wrote to 0x2000..0x7fff
      let tag := if inBanked && switched && st wf == st cf then " [mid-block bank switch from code in the switchable bank]" else ""
      return .specDiff s!"run {k}: {what}{tag}: interp={st nf} warm={st wf} cold={st cf}"
    -- cache model: key discipline
    let ip0 := wf.getD 7 0; let bank0 := wf.getD 8 0; let h := wf.getD 9 0; let bt := wf.getD 10 0
    if h == 3 then return .modelDiff s!"run {k}: after running the block at bank {bank0} ip {ip0} no translation is cached under that key"
    if h != 2 then
      let key := Cache.key (if ip0 < 0x4000 then 0 else bank0) ip0
      match seen.lookup key with
      | some bt' =>
        if h != 1 then return .modelDiff s!"run {k}: model predicts a cache hit for bank {bank0} ip {ip0}, implementation missed"
        if bt' != bt then return .modelDiff s!"run {k}: block for key {key} covers {bt} bytes now, {bt'} before"
      | none =>
        if h != 0 then return .modelDiff s!"run {k}: model predicts a miss for bank {bank0} ip {ip0}, implementation hit"
        seen := (key, bt) :: seen
      if cf.getD 9 0 != 0 then return .modelDiff s!"run {k}: emptied cache reported a hit"
      if cf.getD 10 0 != bt then return .modelDiff s!"run {k}: cold translation covers {cf.getD 10 0} bytes, warm block {bt}"
    k := k + 1
  return .ok (seen.length > 2)

end Driver
