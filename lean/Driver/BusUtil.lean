import Driver.Proto
import GbVerif.Model.Bus
import GbVerif.Spec.BusSpec
namespace Driver
open GbVerif

/-- ROM pattern of harness/src/roms.rs -/
def romByte (i : Nat) : Nat := ((i * 2654435761) % 4294967296) >>> 13 % 256

def fnv0 : UInt64 := 0xcbf29ce484222325
@[inline] def fnv (h : UInt64) (b : Nat) : UInt64 := (h ^^^ UInt64.ofNat b) * 0x100000001b3

def kindOf (t : Nat) : Cart.Kind :=
  if t == 0 then .none else if t ≤ 3 then .mbc1 else .mbc3
def ctlOf (t : Nat) : CartSpec.Ctl :=
  if t == 0 then .romOnly else if t ≤ 3 then .mbc1 else .mbc3

/-- `a:v;a:v;…` -/
def parsePairs (s : String) : List (Nat × Nat) :=
  if s = "" then [] else (s.splitOn ";").filterMap fun t =>
    match t.splitOn ":" with
    | [a, v] => some (parseNat a, parseNat v)
    | _ => none

def mkBus (l : Line) : Bus.State :=
  Bus.create (kindOf (l.inN "type")) (l.inN "banks") (l.inN "ramb") romByte

def mkSpec (l : Line) : BusSpec.Mem :=
  { ctl := ctlOf (l.inN "type"), romBanks := l.inN "banks", ramBytes := l.inN "ramb", rom := romByte }

def windows : List (Nat × Nat) := [
  (0x0000, 0x4000), (0x4000, 0x8000), (0x8000, 0xa000), (0xa000, 0xc000), (0xc000, 0xd000), (0xd000, 0xe000),
  (0xe000, 0xfe00), (0xfe00, 0xfea0), (0xfea0, 0xff00), (0xff00, 0xff80), (0xff80, 0xffff), (0xffff, 0x10000)]

def digestRange (rd : Nat → Nat) (lo hi : Nat) : UInt64 := Id.run do
  let mut h := fnv0
  for a in [lo:hi] do
    h := fnv h (rd a)
  return h

def busRd (s : Bus.State) (a : Nat) : Nat :=
  match Bus.read s a with
  | .ok v => v
  | .error _ => 0x1ff   -- poison: a model panic never matches an implementation byte

def modelDigests (s : Bus.State) : List UInt64 := windows.map fun (lo, hi) => digestRange (busRd s) lo hi

/-- xorshift64* of harness/src/util.rs -/
structure Rng where
  s : UInt64

def Rng.new (seed : UInt64) : Rng := ⟨seed * 0x9E3779B97F4A7C15 ||| 1⟩
def Rng.next (r : Rng) : UInt64 × Rng :=
  let x := r.s
  let x := x ^^^ (x >>> 12)
  let x := x ^^^ (x <<< 25)
  let x := x ^^^ (x >>> 27)
  (x * 0x2545F4914F6CDD1D, ⟨x⟩)
def Rng.u16 (r : Rng) : Nat × Rng := let (v, r) := r.next; ((v >>> 32).toNat % 65536, r)

end Driver
