/-! Line protocol: `<stream> k=v k=v … | k=v …` — inputs before the bar, implementation outputs after. -/
namespace Driver

structure Line where
  stream : String
  ins : List (String × String)
  outs : List (String × String)

def parseKV (t : String) : Option (String × String) :=
  match t.splitOn "=" with
  | [k, v] => some (k, v)
  | _ => none

def parseLine (s : String) : Option Line :=
  let toks := (s.trimAscii.toString.splitOn " ").filter (· ≠ "")
  match toks with
  | [] => none
  | st :: rest =>
    let (a, b) := rest.span (· ≠ "|")
    some { stream := st, ins := a.filterMap parseKV, outs := (b.drop 1).filterMap parseKV }

def Line.inS (l : Line) (k : String) : String := (l.ins.lookup k).getD ""
def Line.outS (l : Line) (k : String) : String := (l.outs.lookup k).getD ""

def hexDigit (c : Char) : Nat :=
  if '0' ≤ c ∧ c ≤ '9' then c.toNat - '0'.toNat
  else if 'a' ≤ c ∧ c ≤ 'f' then c.toNat - 'a'.toNat + 10
  else if 'A' ≤ c ∧ c ≤ 'F' then c.toNat - 'A'.toNat + 10 else 0

def parseHex (s : String) : Nat := s.foldl (fun acc c => acc * 16 + hexDigit c) 0

/-- decimal, or hex with `0x`/`x` prefix -/
def parseNat (s : String) : Nat :=
  if s.startsWith "0x" then parseHex (s.drop 2).toString
  else if s.startsWith "x" then parseHex (s.drop 1).toString
  else s.toNat?.getD 0

def Line.inN (l : Line) (k : String) : Nat := parseNat (l.inS k)
def Line.outN (l : Line) (k : String) : Nat := parseNat (l.outS k)

/-- hex string → bytes -/
def parseBytes (s : String) : Array Nat := Id.run do
  let cs := s.toList.toArray
  let mut out : Array Nat := Array.mkEmpty (cs.size / 2)
  let mut i := 0
  while i + 1 < cs.size do
    out := out.push (hexDigit cs[i]! * 16 + hexDigit cs[i+1]!)
    i := i + 2
  return out

/-- comma-separated naturals -/
def parseNatList (s : String) : List Nat :=
  if s = "" then [] else (s.splitOn ",").map parseNat

inductive Verdict where
  | ok (nontrivial : Bool)
  | modelDiff (msg : String)   -- model ≠ implementation (broken tie)
  | specDiff (msg : String)    -- implementation ≠ spec (violation witness)
  | bad (msg : String)         -- unparsable line

end Driver
