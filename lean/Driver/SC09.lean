import Driver.SC08
import GbVerif.Model.Sys
import GbVerif.Spec.Lcd
namespace Driver
open GbVerif GbVerif.Core

/-! C09: time conservation over generated programs (`c09`, `c09.blocks`) and the `run_frame` probe (`c09.frame`). -/

/-- `MemoryAreas::run_clock_cycles`: the whole-machine device function (OAM DMA byte by byte, timer, LCD with its frame
counter, joypad) — `Model/Sys.lean`.  `Props/C09.lean` proves `SysInv` for it. -/
def devSys : Dev := Sys.dev

/-- `Core::update` with the `jit` feature, interpreter as block engine -/
def updateBlocks (dev : Dev) (c : State) : Except Bus.Panic State :=
  if c.run == .Run then runCodeBlockInterp dev c else update dev c

def handlerBytes : List Nat := [0xf5, 0x3c, 0xf1, 0xd9]

/-- ROM as the harness patches it: NOPs below 0x100, the handler at every vector -/
def c09Rom (i : Nat) : Nat :=
  if i < 0x100 then
    (if i ≥ 0x40 ∧ i < 0x64 ∧ i % 8 < 4 then handlerBytes.getD (i % 8) 0 else 0)
  else romByte i

structure Obs where
  div : Nat
  cyc : Nat
  lbc : Nat
  ly : Nat
  ip : Nat
  sp : Nat
  af : Nat
  bc : Nat
  de : Nat
  hl : Nat
  ime : Nat
  run : Nat
  ifl : Nat
  stat : Nat
  frames : Nat
  dma : Nat
  oam : Nat

def parseObs (s : String) : Obs :=
  let xs := parseNatList s
  let g (i : Nat) := xs.getD i 0
  ⟨g 0, g 1, g 2, g 3, g 4, g 5, g 6, g 7, g 8, g 9, g 10, g 11, g 12, g 13, g 14, g 15, g 16⟩

/-- LY of the closed-form LCD schedule (C14) after `t` clocks from power-on -/
def lyAfter (t : Nat) : Nat := (LcdSpec.sched t).line

def checkRun (l : Line) (blocks : Bool) : Verdict := Id.run do
  let prog := parseBytes (l.inS "prog")
  let init := parseNatList (l.inS "init")
  let mut b := Bus.create .mbc1 4 32768 c09Rom
  let mut addr := 0xc000
  for byte in prog do
    match Bus.write b addr byte with | .ok b' => b := b' | .error _ => return .bad "setup"
    addr := addr + 1
  let image := b            -- the static program image (the programs never write to their own code)
  let regs0 : Interp.Regs := { af := init.getD 0 0, bc := init.getD 1 0, de := init.getD 2 0, hl := init.getD 3 0, sp := 0xdff0, ip := 0xc000 }
  let mut cm : State := { regs := regs0, bus := b, ime := .Disabled, run := .Run }
  let mut prev : Obs := ⟨0, 0, 0, 144, 0xc000, 0xdff0, regs0.af, regs0.bc, regs0.de, regs0.hl, 1, 0, 0, 0, 0, 160, 0⟩
  let mut total := 0
  let mut k := 0
  let mut nontrivial := false
  let mut modelOn := true
  -- key events injected between steps: (step, press?, button)
  let evs : List (Nat × Nat × Nat) := ((l.inS "ev").splitOn ",").filterMap fun e =>
    match e.splitOn ":" with
    | [a, b, c] => some (parseNat a, parseNat b, parseNat c)
    | _ => none
  for stepS in (l.outS "t").splitOn ";" do
    for (ek, press, bt) in evs do
      if ek == k then
        let kf : Fin 8 := ⟨bt % 8, Nat.mod_lt _ (by decide)⟩
        let joy := Joypad.step cm.bus.io.joy (if press == 1 then .press kf else .release kf)
        cm := { cm with bus := { cm.bus with io := { cm.bus.io with joy := joy } } }
    let cur := parseObs stepS
    -- 1. the property, from the implementation's outputs (and the SM83 cycle table for instruction steps)
    let d := (cur.div + 65536 - prev.div) % 65536
    if d < 4 || d % 4 != 0 then
      return .specDiff s!"step {k}: the devices received {d} clocks (not a positive number of machine cycles)"
    if cur.cyc != 0 && cur.cyc != 5 then
      return .specDiff s!"step {k}: {cur.cyc} machine cycles left pending after the step"
    -- a dispatch is visible in the outputs: IME is off and PC sits on a vector (0x0000 for a cancelled dispatch) without
    -- having walked there through the NOP sled below it; the programs contain no RST / JP / CALL to the vector page and
    -- run from work RAM.  (IME alone does not show it: RETI followed at once by the next dispatch leaves IME off -> off.)
    let dispatched := cur.ime == 1 && [0x00, 0x40, 0x48, 0x50, 0x58, 0x60].contains cur.ip && !(cur.ip != 0 && prev.ip + 1 == cur.ip)
    if dispatched && cur.cyc != 5 then
      return .specDiff s!"step {k}: interrupt dispatch to pc={cur.ip} charged {cur.cyc} machine cycles, not 5"
    if !dispatched && cur.cyc == 5 then
      return .specDiff s!"step {k}: five machine cycles pending without a dispatch (pc={cur.ip})"
    if prev.run != 0 then
      if d != 4 then return .specDiff s!"step {k}: suspended step delivered {d} clocks, expected 4"
      nontrivial := true
    else if blocks then
      if d != 4 * cur.lbc then
        return .specDiff s!"step {k}: block of {cur.lbc} machine cycles (last_block_cycle_length), devices received {d} clocks"
    else
      let b0 := busRd image prev.ip
      let b1 := busRd image ((prev.ip + 1) % 65536)
      let b2 := busRd image ((prev.ip + 2) % 65536)
      match SM83.step specMem (cpuOfRegs prev.af prev.bc prev.de prev.hl prev.sp prev.ip) image b0 b1 b2 with
      | .ok (_, _, cyc, out) =>
        if out != .undefined then
          if d != 4 * (cyc + prev.cyc) then
            return .specDiff s!"step {k}: instruction {b0},{b1},{b2} at pc={prev.ip} takes {cyc} machine cycles (+{prev.cyc} of a dispatch), devices received {d} clocks"
      | .error _ => pure ()
    total := total + d
    if cur.ly != lyAfter total then
      return .specDiff s!"step {k}: after {total} clocks LY={cur.ly}, the LCD schedule says {lyAfter total} (LCD and timer did not receive the same clocks)"
    if cur.cyc == 5 then nontrivial := true
    -- 2. the model
    if modelOn then
      match (if blocks then updateBlocks devSys cm else update devSys cm) with
      | .error _ => return .modelDiff s!"step {k}: model panics"
      | .ok c' =>
        cm := c'
        let got := [c'.delivered % 65536, c'.regs.cycles, c'.regs.ip, c'.regs.sp, c'.regs.af, c'.regs.bc, c'.regs.de, c'.regs.hl,
                    imeCode c'.ime, runCode c'.run, c'.bus.io.ifl &&& 0x1f, c'.bus.io.video.line, c'.bus.io.video.stat, Sys.frames c',
                    (match c'.bus.dma with | some (_, off) => off | none => 160),
                    (c'.bus.oam.foldl (fun h b => fnv h b) fnv0).toNat]
        let imp := [cur.div, cur.cyc, cur.ip, cur.sp, cur.af, cur.bc, cur.de, cur.hl, cur.ime, cur.run, cur.ifl &&& 0x1f, cur.ly, cur.stat, cur.frames,
                    cur.dma, cur.oam]
        let names := ["clocks delivered", "cycles", "PC", "SP", "AF", "BC", "DE", "HL", "IME", "run state", "IF", "LY", "STAT", "frames completed",
                      "OAM DMA progress", "OAM digest"]
        for i in [0:16] do
          if got.getD i 0 != imp.getD i 0 then
            return .modelDiff s!"step {k}: {names.getD i ""} model={got.getD i 0} impl={imp.getD i 0}"
        if blocks && prev.run == 0 && c'.lastBlockCycles != cur.lbc then
          return .modelDiff s!"step {k}: last_block_cycle_length model={c'.lastBlockCycles} impl={cur.lbc}"
        -- the ghost counters obey the proved invariant (sanity of the tie between theorem and stream)
        if c'.delivered + 4 * c'.regs.cycles != 4 * c'.charged then
          return .modelDiff s!"step {k}: model counters delivered={c'.delivered} cycles={c'.regs.cycles} charged={c'.charged}"
    prev := cur
    k := k + 1
  let _ := modelOn
  return .ok nontrivial

/-- the harness's `setup`: pattern ROM with the handler at every vector, the program at 0xC000 -/
def mkCore (prog : List Nat) (af bc de hl : Nat) : Option State := Id.run do
  let mut b := Bus.create .mbc1 4 32768 c09Rom
  let mut addr := 0xc000
  for byte in prog do
    match Bus.write b addr byte with | .ok b' => b := b' | .error _ => return none
    addr := addr + 1
  return some { regs := { af := af, bc := bc, de := de, hl := hl, sp := 0xdff0, ip := 0xc000 }, bus := b, ime := .Disabled, run := .Run }

/-- `frame_program(n0, n1, lcd_off)`: [XOR A ; LDH (0x40),A] n0 NOPs ; JP loop ; loop: n1 NOPs ; JP loop -/
def frameProgram (n0 n1 : Nat) (off : Bool) : List Nat :=
  let pre : List Nat := if off then [0xaf, 0xe0, 0x40] else []
  let lp := 0xc000 + pre.length + n0 + 3
  pre ++ List.replicate n0 0 ++ [0xc3, lp % 256, lp / 256] ++ List.replicate n1 0 ++ [0xc3, lp % 256, lp / 256]

/-- `Core::run_frame` (jit build: block stepping) on the whole-machine model: step until the frame counter differs from
its value at the call -/
def runFrameModel (start : Nat) (c : State) : Nat → Option State
  | 0 => none
  | fuel+1 =>
    match updateBlocks devSys c with
    | .error _ => none
    | .ok c' => if Sys.frames c' != start then some c' else runFrameModel start c' fuel

/-- `run_frame` probe (the real `Core::run_frame` in a child process under an alarm): each of the two calls must return,
and must return after at most two frames completed by the LCD (the property's bound: two frame periods plus one block);
then the same two calls on the whole-machine model: frames completed, LY and mode at return must agree -/
def checkFrame (l : Line) : Verdict :=
  let blk := l.outN "blk"
  let bad (which : String) (e f : Nat) : Option Verdict :=
    if e == 0 then
      some (.specDiff s!"[run_frame.nontermination] {which} run_frame call did not return (killed by the alarm); loop block of {blk} clocks")
    else if f > 2 then
      some (.specDiff s!"[run_frame.late] {which} run_frame call returned only after {f} completed frames (more than two frame periods)")
    else none
  match bad "first" (l.outN "e1") (l.outN "f1") with
  | some v => v
  | none =>
    match bad "second" (l.outN "e2") (l.outN "f2") with
    | some v => v
    | none =>
      -- the ROM-resident polling loops (rl = address of a JR -2 in the last bytes of a region) are checked against the
      -- property only: both calls returned, each within two frames
      if l.inN "rl" != 0 then .ok true else
      match mkCore (frameProgram (l.inN "n0") (l.inN "n1") (l.inN "off" == 1)) 0x01b0 0x0013 0x00d8 0x014d with
      | none => .bad "setup"
      | some c0 =>
        match runFrameModel (Sys.frames c0) c0 40000 with
        | none => .modelDiff "model: first run_frame does not return within 40000 blocks"
        | some c1 =>
          let g1 := [Sys.frames c1 - Sys.frames c0, c1.bus.io.video.line, c1.bus.io.video.mode]
          let i1 := [l.outN "f1", l.outN "ly1", l.outN "m1"]
          if g1 != i1 then .modelDiff s!"first run_frame (frames, LY, mode): model={g1} impl={i1}"
          else
            match runFrameModel (Sys.frames c1) c1 40000 with
            | none => .modelDiff "model: second run_frame does not return within 40000 blocks"
            | some c2 =>
              let g2 := [Sys.frames c2 - Sys.frames c1, c2.bus.io.video.line, c2.bus.io.video.mode]
              let i2 := [l.outN "f2", l.outN "ly2", l.outN "m2"]
              if g2 != i2 then .modelDiff s!"second run_frame (frames, LY, mode): model={g2} impl={i2}"
              else .ok (blk > 456)

def checkC09 (l : Line) : Verdict :=
  if l.stream == "c09.frame" then checkFrame l
  else checkRun l (l.stream == "c09.blocks")

end Driver
