import Driver.Proto
namespace Driver

/-- C09 correspondence (stub) -/
def checkC09 (l : Line) : Verdict := .bad s!"stream {l.stream} not implemented"

end Driver
