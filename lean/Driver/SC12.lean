import Driver.Proto
namespace Driver

/-- C12 correspondence (stub) -/
def checkC12 (l : Line) : Verdict := .bad s!"stream {l.stream} not implemented"

end Driver
