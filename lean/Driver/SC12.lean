import Driver.BusUtil
namespace Driver
open GbVerif

/-- C12: the visible ROM/RAM banks after every write of a sequence -/
def checkC12 (l : Line) : Verdict := Id.run do
  let ws := parsePairs (l.inS "ws")
  let banks := l.inN "banks"; let ramb := l.inN "ramb"
  let ctl := ctlOf (l.inN "type")
  let rb := parseNatList (l.outS "rb"); let mb := parseNatList (l.outS "mb")
  let r0 := parseNatList (l.outS "r0"); let r4 := parseNatList (l.outS "r4"); let ra := parseNatList (l.outS "ra")
  let f0 := parseNatList (l.outS "f0"); let f4 := parseNatList (l.outS "f4")
  if rb.length != ws.length then return .bad "length mismatch"
  let mut cart := Cart.init (kindOf (l.inN "type")) banks (ramb / 0x2000)
  let mut regs : CartSpec.Regs := {}
  let mut i := 0
  let mut nontrivial := false
  for (a, v) in ws do
    cart := Cart.writeRom cart a v
    regs := CartSpec.applyWrite ctl regs a v
    let sRom := CartSpec.romBank ctl banks regs
    let sRam := CartSpec.ramBank ctl (ramb / 0x2000) regs
    let iRom := rb.getD i 0; let iRam := mb.getD i 0
    -- spec: what the guest sees through the bus
    let seen4 := r4.getD i 0; let seen0 := r0.getD i 0; let seenA := ra.getD i 0
    if seen0 != romByte 0 then return .specDiff s!"write {i}: byte at 0x0000 is {seen0}, bank 0 holds {romByte 0}"
    if seen4 != romByte (sRom * 0x4000) then
      return .specDiff s!"write {i} ({a}:{v}): byte at 0x4000 is {seen4}, protocol bank {sRom} holds {romByte (sRom * 0x4000)} (impl bank {iRom})"
    -- the bank that is visible is the bank that is executed
    if f4.getD i 0 != romByte (sRom * 0x4000) then
      return .specDiff s!"write {i} ({a}:{v}): an instruction fetch at 0x4000 gets {f4.getD i 0}, protocol bank {sRom} holds {romByte (sRom * 0x4000)} (a data read gets {seen4})"
    if f0.getD i 0 != romByte 0 then return .specDiff s!"write {i}: an instruction fetch at 0x0000 gets {f0.getD i 0}, bank 0 holds {romByte 0}"
    let expA := if ramb == 0 then 0xff else if ramb < 0x2000 then 1 else sRam + 1
    if seenA != expA then
      return .specDiff s!"write {i} ({a}:{v}): byte at 0xA000 is {seenA}, protocol RAM bank {sRam} is tagged {expA} (impl bank {iRam})"
    if Cart.getRomBank cart != iRom then return .modelDiff s!"write {i}: rom bank model={Cart.getRomBank cart} impl={iRom}"
    if Cart.getRamBank cart != iRam then return .modelDiff s!"write {i}: ram bank model={Cart.getRamBank cart} impl={iRam}"
    if sRom != 1 || sRam != 0 then nontrivial := true
    i := i + 1
  return .ok nontrivial

end Driver
