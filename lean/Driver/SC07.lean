import Driver.Proto
namespace Driver

/-- C07 correspondence (stub) -/
def checkC07 (l : Line) : Verdict := .bad s!"stream {l.stream} not implemented"

end Driver
