import Driver.CpuUtil
import GbVerif.Model.Core
import GbVerif.Spec.Interrupt
namespace Driver
open GbVerif GbVerif.Core

def imeOf (k : Nat) : Ime := match k with | 0 => .Enabled | 1 => .Disabled | _ => .EnableNext
def imeCode : Ime → Nat | .Enabled => 0 | .Disabled => 1 | .EnableNext => 2
def runOf (k : Nat) : RunState := match k with | 0 => .Run | 1 => .Stop | _ => .Halt
def runCode : RunState → Nat | .Run => 0 | .Stop => 1 | .Halt => 2

/-- the cartridge every c07/c08 case runs on: MBC1+RAM+BATTERY, 4 ROM banks, 32 KiB RAM -/
def stdBus : Bus.State := Bus.create .mbc1 4 32768 romByte

def cmpCore (l : Line) (what : String) (c : State) (sp : Nat) (mk : String → Verdict) : Option Verdict :=
  let chk (k : String) (v : Nat) : Option Verdict :=
    if l.outN k != v then some (mk s!"{what}: {k} impl={l.outN k} {what}={v}") else none
  (chk "if" c.bus.io.ifl).orElse fun _ => (chk "ie" (busRd c.bus 0xffff)).orElse fun _ =>
  (chk "ime" (imeCode c.ime)).orElse fun _ => (chk "run" (runCode c.run)).orElse fun _ =>
  (chk "sp" c.regs.sp).orElse fun _ => (chk "ip" c.regs.ip).orElse fun _ => (chk "cy" c.regs.cycles).orElse fun _ =>
  (chk "p1" (busRd c.bus ((sp + 65535) % 65536))).orElse fun _ => (chk "p2" (busRd c.bus ((sp + 65534) % 65536))).orElse fun _ =>
  (chk "rb" (Cart.getRomBank c.bus.cart)).orElse fun _ =>
  (if toString (smallDigest c.bus) != l.outS "small" then some (mk s!"{what}: OAM/IO/HRAM/IE image differs") else none)

def checkC07 (l : Line) : Verdict :=
  let b := stdBus
  let st := l.inN "st"
  let video := { b.io.video with lyc := l.inN "lyc", irqLyc := st &&& 0x40 != 0, irqM2 := st &&& 0x20 != 0,
                                 irqM1 := st &&& 0x10 != 0, irqM0 := st &&& 0x08 != 0 }
  let b := { b with io := { b.io with ifl := l.inN "if", ie := l.inN "ie", ieUpper := l.inN "ieu", video := video } }
  let sp := l.inN "sp"
  let c0 : State := { regs := { sp := sp, ip := l.inN "ip" }, bus := b, ime := imeOf (l.inN "ime"), run := runOf (l.inN "run") }
  match InterruptSpec.dispatch c0 with
  | .error _ => .bad "spec: bus model refuses"
  | .ok cs =>
    match cmpCore l "spec" cs sp .specDiff with
    | some v => v
    | none =>
      match handleInterrupt c0 with
      | .error _ => .modelDiff "model panics"
      | .ok cm =>
        match cmpCore l "model" cm sp .modelDiff with
        | some v => v
        | none => .ok (l.outN "cy" != 0 || l.outN "run" != l.inN "run")

end Driver
