import Driver.Proto
namespace Driver

/-- C02 correspondence (stub) -/
def checkC02 (l : Line) : Verdict := .bad s!"stream {l.stream} not implemented"

end Driver
