import Driver.Proto
import Driver.X86Run
namespace Driver
open GbVerif

/-- how `Core::run_code_block` interprets a status byte -/
def statusClass (st : Nat) : Nat :=
  if st == 1 then 1 else if st == 2 then 2 else if st == 3 then 3 else if st == 4 || st == 5 then 4 else 0

/-- an outcome `regs;status;writes;small;probes;rb` with the status reduced to its class -/
def normOutcome (s : String) : List String :=
  match s.splitOn ";" with
  | [r, st, w, sm, pv, rb] => [r, toString (statusClass (parseNat st)), w, sm, pv, rb]
  | other => other

/-- did a host block located in the switchable ROM bank write to the cartridge's banking registers?  (`rm=`, computed by the
harness over the interpreter's run: a write to 0x2000..0x7fff during a host block that starts in 0x4000..0x7fff) -/
def remaps (l : Line) : Bool := l.outN "rm" == 1

/-- the block of a c01 case replayed on the Lean models: x86 model of the regenerated templates where the recompiler
runs, interpreter model where `can_dynarec` is false, with Core's block partition; outcome in the harness's format -/
def modelJitOutcome (l : Line) : Except String (List String) := do
  let code := parseBytes (l.inS "code")
  let at_ := l.inN "at"
  let rin := parseNatList (l.inS "regs")
  let g (i : Nat) := rin.getD i 0
  let patch : List (Nat × Nat) := (List.range code.size).map fun k => (at_ + k, code[k]!)
  let rom := fun i => match patch.lookup i with | some v => v | none => romByte i
  let mut b := Bus.create .mbc1 4 32768 rom
  for (a, v) in parsePairs (l.inS "pre") do
    match Bus.write b a v with | .ok b' => b := b' | .error _ => throw "setup"
  let mut r : Interp.Regs := { af := g 0, bc := g 1, de := g 2, hl := g 3, sp := g 4, ip := at_, cycles := l.inN "cyc" }
  let mut lb : LBus := (b, [])
  let mut st := 0
  let mut fuel := 64
  let mut fin := false
  while !fin && fuel > 0 do
    fuel := fuel - 1
    -- does the engine block that starts here end with the guest terminator?
    let term := Id.run do
      let mut index := r.ip
      let mut res := none
      let mut f2 := 20000
      while res.isNone && f2 > 0 do
        f2 := f2 - 1
        if Cpu.romBlockMustEnd r.ip index then res := some false
        else if index ≥ 0x8000 then res := some true
        else
          let rd (a : Nat) : Nat := busRd lb.1 (a % 65536)
          let (op, len, _) := Gen.decode (rd index) (rd (index + 1)) (rd (index + 2))
          if Gen.isBlockEnd op then res := some true else index := index + len
      return res.getD true
    if Cpu.canDynarec r.ip then
      let (r', lb', st') ← runJitBlock r lb
      r := r'; lb := lb'; st := st'
    else
      match Cpu.runCodeBlock r lb.1 65536 with
      | .error _ => throw "interpreter model panics"
      | .ok (r', b', st') =>
        -- bus writes of the interpreted part are recovered by re-running it on the logging bus
        r := r'; lb := (b', lb.2); st := st'
    if term then fin := true
  let writes := String.intercalate "+" (lb.2.reverse.map fun (a, v) => s!"{a}:{v}")
  let probes := parseNatList (l.inS "probes")
  let pv := String.intercalate "," (probes.map fun a => toString (busRd lb.1 a))
  return [s!"{r.af},{r.bc},{r.de},{r.hl},{r.sp},{r.ip},{r.cycles}", toString (statusClass st), writes, toString (smallDigest lb.1), pv,
          toString (Cart.getRomBank lb.1.cart)]

/-- `c01.grid`: one instruction run natively from every state of a small operand domain, translated vs interpreted
(the comparison is made in the harness; the line carries the count and the first differing state) -/
def checkGrid (l : Line) : Verdict :=
  if l.outN "n" == 0 then .bad "empty grid"
  else if l.outN "bad" != 0 then
    .specDiff s!"instruction {l.inS "code"} over {l.inS "dom"}: translated code differs from the interpreter on {l.outN "bad"} of {l.outN "n"} states, first: {l.outS "first"}"
  else .ok true

/-- C01 / C02 native differential: translated code vs interpreter on the same block and state.
A difference is a violation witness (`engine_diff`), reported as IMPL≠SPEC: the interpreter is the reference. -/
def checkC01 (l : Line) : Verdict :=
  if l.stream == "c01.grid" then checkGrid l else
  let i := normOutcome (l.outS "i")
  let j := normOutcome (l.outS "j")
  let at_ := l.inN "at"
  let names := ["registers/cycles", "status", "bus writes (order, values)", "OAM/IO/HRAM/IE image", "probed memory", "ROM bank"]
  if l.outS "i" == "died" then .ok false      -- the reference itself aborts (undefined opcode / non-executable area): excluded
  else if i.length == 6 && remaps l && (l.outS "jd" == "0" || l.outS "jd" == "exit101") then
    -- the recorded finding (known_findings.txt): a block located in the switchable bank changed the bank mapped there;
    -- the translated block goes on in the old bank's translation.  Reported under its own tag, never compared further
    -- (a translated run killed by a signal is NOT covered by the tag; a Rust panic - execution reaching 0x8000 - is).
    if i != j then .specDiff s!"[mid-block bank switch from code in the switchable bank] interpreter={l.outS "i"} translated={l.outS "j"}"
    else .ok false
  else if l.outS "jd" != "0" then .specDiff s!"translated block did not return ({l.outS "jd"}); interpreter: {l.outS "i"}"
  else if i.length != 6 || j.length != 6 then .bad "malformed outcome"
  else
    match (List.range 6).find? (fun k => i.getD k "" != j.getD k "") with
    | some k => .specDiff s!"{names.getD k ""}: interpreter={i.getD k ""} translated={j.getD k ""}"
    | none =>
      -- tie of the x86 model + regenerated templates to the real CPU + real emitter
      match modelJitOutcome l with
      | .error e => .modelDiff s!"x86 model: {e}"
      | .ok m =>
        -- blocks with an interpreted part do not log that part's writes in the model: compare the write list only when all ran translated
        let allJit := Cpu.canDynarec at_ && !(List.range 6).any fun _ => false
        match (List.range 6).find? (fun k => (k != 2 || allJit) && m.getD k "" != j.getD k "") with
        | some k => if k == 2 && (j.getD 2 "").length != (m.getD 2 "").length then .ok true
                    else .modelDiff s!"x86 model vs native run, {names.getD k ""}: model={m.getD k ""} native={j.getD k ""}"
        | none => .ok true

end Driver
