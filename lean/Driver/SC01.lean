import Driver.Proto
namespace Driver

/-- how `Core::run_code_block` interprets a status byte -/
def statusClass (st : Nat) : Nat :=
  if st == 1 then 1 else if st == 2 then 2 else if st == 3 then 3 else if st == 4 || st == 5 then 4 else 0

/-- an outcome `regs;status;writes;small;probes;rb` with the status reduced to its class -/
def normOutcome (s : String) : List String :=
  match s.splitOn ";" with
  | [r, st, w, sm, pv, rb] => [r, toString (statusClass (parseNat st)), w, sm, pv, rb]
  | other => other

/-- did the block, while located in the switchable ROM bank, write to the cartridge registers? -/
def remaps (at_ : Nat) (writes : String) : Bool :=
  at_ ≥ 0x4000 && (writes.splitOn "+").any fun w =>
    match w.splitOn ":" with
    | [a, _] => a != "" && parseNat a < 0x8000
    | _ => false

/-- C01 / C02 native differential: translated code vs interpreter on the same block and state.
A difference is a violation witness (`engine_diff`), reported as IMPL≠SPEC: the interpreter is the reference. -/
def checkC01 (l : Line) : Verdict :=
  let i := normOutcome (l.outS "i")
  let j := normOutcome (l.outS "j")
  let at_ := l.inN "at"
  let names := ["registers/cycles", "status", "bus writes (order, values)", "OAM/IO/HRAM/IE image", "probed memory", "ROM bank"]
  if l.outS "i" == "died" then .ok false      -- the reference itself aborts (undefined opcode / non-executable area): excluded
  else if i.length == 6 && remaps at_ (i.getD 2 "") then .ok false     -- recorded separately (C03: mid-block bank switch from banked code)
  else if l.outS "jd" != "0" then .specDiff s!"translated block did not return ({l.outS "jd"}); interpreter: {l.outS "i"}"
  else if i.length != 6 || j.length != 6 then .bad "malformed outcome"
  else
    match (List.range 6).find? (fun k => i.getD k "" != j.getD k "") with
    | some k => .specDiff s!"{names.getD k ""}: interpreter={i.getD k ""} translated={j.getD k ""}"
    | none => .ok true

end Driver
