import Driver.Proto
namespace Driver

/-- C01 correspondence (stub) -/
def checkC01 (l : Line) : Verdict := .bad s!"stream {l.stream} not implemented"

end Driver
