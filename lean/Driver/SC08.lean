import Driver.Proto
namespace Driver

/-- C08 correspondence (stub) -/
def checkC08 (l : Line) : Verdict := .bad s!"stream {l.stream} not implemented"

end Driver
