import Driver.SC07
import GbVerif.Spec.CoreSpec
namespace Driver
open GbVerif GbVerif.Core

def alpha : List (List Nat) := [[0xfb], [0xf3], [0xd9], [0x76], [0x10, 0x00], [0x00], [0xe0, 0x0f], [0xe0, 0xff]]

/-- devices without time: valid for the short c08 runs (no device raises a request within them) -/
def noTimeDev : Dev := fun b _ => .ok b

/-- C08 (+ the instruction-stepped part of C09): replay a sequence on the model and on the step spec -/
def checkC08 (l : Line) : Verdict := Id.run do
  let seq := parseNatList (l.inS "seq")
  let rom := fun i => if i < 0x100 then 0 else romByte i
  let mut b := Bus.create .mbc1 4 32768 rom
  let code := seq.foldl (fun acc k => acc ++ alpha.getD k []) []
  let mut addr := 0xc000
  for byte in code do
    match Bus.write b addr byte with | .ok b' => b := b' | .error _ => return .bad "setup"
    addr := addr + 1
  let mut sp := 0xdff0
  for _ in [0:8] do
    match Bus.write b sp 0x00 with | .ok b' => b := b' | .error _ => return .bad "setup"
    match Bus.write b (sp + 1) 0xc1 with | .ok b' => b := b' | .error _ => return .bad "setup"
    sp := sp + 2
  b := { b with io := { b.io with ifl := l.inN "if", ie := l.inN "ie" } }
  let a := l.inN "a"
  let mut cm : State := { regs := { af := a * 256, sp := 0xdff0, ip := 0xc000 }, bus := b, ime := imeOf (l.inN "ime"), run := runOf (l.inN "run") }
  let mut cs : CoreSpec.S := { cpu := { a := a, sp := 0xdff0, pc := 0xc000 }, bus := b, ime := imeOf (l.inN "ime"), run := runOf (l.inN "run") }
  let mut specOn := true
  let mut k := 0
  let mut nontrivial := false
  for stepS in (l.outS "t").splitOn ";" do
    let obs := parseNatList stepS
    let g (i : Nat) := obs.getD i 0
    -- spec
    if specOn then
      let pend := cs.bus.io.ifl &&& cs.bus.io.ie
      if cs.run == .Run && busRd cs.bus cs.cpu.pc == 0x76 && pend != 0 then
        specOn := false         -- HALT with an enabled interrupt already pending: excluded by the property
      else
        match CoreSpec.step cs with
        | .ok (some s') =>
          cs := s'
          let exp := [imeCode s'.ime, runCode s'.run, s'.cpu.pc, s'.cpu.sp, s'.bus.io.ifl, busRd s'.bus 0xffff]
          let names := ["IME", "run state", "PC", "SP", "IF", "IE"]
          for i in [0:6] do
            if g i != exp.getD i 0 then
              return .specDiff s!"step {k}: {names.getD i ""} impl={g i} spec={exp.getD i 0}"
          let due := 4 * (s'.charged - (if s'.dispatched then 5 else 0))
          if g 6 != due % 65536 then
            return .specDiff s!"step {k}: devices received {g 6} clocks in total, 4 x machine cycles consumed = {due}"
          if s'.dispatched || s'.run != .Run then nontrivial := true
        | .ok none => specOn := false
        | .error _ => specOn := false
    -- model
    match update noTimeDev cm with
    | .error _ => return .modelDiff s!"step {k}: model panics"
    | .ok c' =>
      cm := c'
      let got := [imeCode c'.ime, runCode c'.run, c'.regs.ip, c'.regs.sp, c'.bus.io.ifl, busRd c'.bus 0xffff, c'.delivered % 65536]
      for i in [0:7] do
        if g i != got.getD i 0 then return .modelDiff s!"step {k}: field {i} model={got.getD i 0} impl={g i}"
    k := k + 1
  return .ok nontrivial

end Driver
