import Driver.Proto
namespace Driver

/-- C04: per-step observable state of the same generated program in the recompiler build and in the interpreter build -/
def checkC04 (l : Line) : Verdict := Id.run do
  let sj := (l.outS "s").splitOn ";"
  let sn := (l.outS "n_s").splitOn ";"
  if sj.length != sn.length || sj.length < 2 then return .bad "step counts differ"
  let mut k := 0
  for (a, b) in sj.zip sn do
    if a != b then
      let prev := if k == 0 then "start" else sj.getD (k - 1) ""
      return .specDiff s!"step {k}: machine state differs (ip,af,sp,clocks delivered,digest of BC DE HL IF IE TIMA LY STAT DMA bank run IME): recompiler={a} interpreter={b}; previous step={prev}"
    k := k + 1
  if l.outS "ram" != l.outS "n_ram" then return .specDiff "RAM digests (every 64 steps and final) differ between the two execution modes"
  if l.outS "fb" != l.outS "n_fb" then return .specDiff "frame buffer differs between the two execution modes"
  if l.outS "ser" != l.outS "n_ser" then return .specDiff s!"serial output differs: recompiler={l.outS "ser"} interpreter={l.outS "n_ser"}"
  -- non-trivial: the program visited more than ten distinct block entry points
  let ips := sj.map fun s => (s.splitOn ",").headD ""
  return .ok ((ips.eraseDups).length > 10)

end Driver
