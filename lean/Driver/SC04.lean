import Driver.Proto
namespace Driver

/-- C04 correspondence (stub) -/
def checkC04 (l : Line) : Verdict := .bad s!"stream {l.stream} not implemented"

end Driver
