import Driver.SC09
namespace Driver
open GbVerif GbVerif.Core

/-! C04: per-step observable state of the same generated program in the recompiler build and in the interpreter build,
and (third leg) of the whole-machine model `Core.update / runCodeBlockInterp` over `Sys.dev`. -/

/-- `s_c04::load`: zeroed ROM, `JP 0x0150` every 32 bytes (not in the last 16 bytes of a bank), then the program's patches -/
def c04Rom (patches : String) (len : Nat) : Array Nat := Id.run do
  let mut a := Array.replicate len 0
  let mut i := 0x20
  while i + 3 < len do
    if i &&& 0x3fff < 0x3ff0 then
      a := a.set! i 0xc3; a := a.set! (i + 1) 0x50; a := a.set! (i + 2) 0x01
    i := i + 0x20
  -- patches: `addr:hexbytes,addr:hexbytes,...` in program order (later patches win)
  for seg in patches.splitOn "," do
    match seg.splitOn ":" with
    | [at_, bytes] =>
      let mut k := parseNat at_
      for b in parseBytes bytes do
        if k < len then a := a.set! k b
        k := k + 1
    | _ => pure ()
  return a

def c04Digest (c : State) : UInt64 := Id.run do
  let b := c.bus
  let rd (a : Nat) : Nat := match Bus.read b a with | .ok v => v | .error _ => 0
  let dma := match b.dma with | some (_, off) => off | none => 160
  let vals := [c.regs.bc, c.regs.de, c.regs.hl, b.io.ifl, rd 0xffff, b.io.timer.counter, rd 0xff44, rd 0xff41, dma,
               Cart.getRomBank b.cart, (if c.run == .Run then 1 else 0), imeCode c.ime]
  let mut h := fnv0
  for v in vals do
    for i in [0:4] do h := fnv h ((v >>> (8 * i)) % 256)
  return h

/-- `ram_digest`: every bus byte 0x8000..0xFFFF outside the I/O block, then the cartridge RAM -/
def c04RamDigest (c : State) : UInt64 := Id.run do
  let b := c.bus
  let mut h := fnv0
  for a in [0x8000:0x10000] do
    if !(a ≥ 0xff00 && a < 0xff80) then
      h := fnv h (match Bus.read b a with | .ok v => v | .error _ => 0)
  for v in b.cram do h := fnv h v
  return h

def hexOfBytes (bs : List Nat) : String :=
  String.join (bs.map fun b => String.singleton (Nat.digitChar (b / 16)) ++ String.singleton (Nat.digitChar (b % 16)))

def checkC04 (l : Line) : Verdict := Id.run do
  let sj := (l.outS "s").splitOn ";"
  let sn := (l.outS "n_s").splitOn ";"
  if sj.length != sn.length || sj.length < 2 then return .bad "step counts differ"
  let mut k := 0
  for (a, b) in sj.zip sn do
    if a != b then
      let prev := if k == 0 then "start" else sj.getD (k - 1) ""
      return .specDiff s!"step {k}: machine state differs (ip,af,sp,clocks delivered,digest of BC DE HL IF IE TIMA LY STAT DMA bank run IME): recompiler={a} interpreter={b}; previous step={prev}"
    k := k + 1
  if l.outS "ram" != l.outS "n_ram" then return .specDiff "RAM digests (every 64 steps and final) differ between the two execution modes"
  if l.outS "fb" != l.outS "n_fb" then return .specDiff "frame buffer differs between the two execution modes"
  if l.outS "ser" != l.outS "n_ser" then return .specDiff s!"serial output differs: recompiler={l.outS "ser"} interpreter={l.outS "n_ser"}"
  -- third leg: the whole-machine model, block-stepped like the harness (run_code_block while running, update when suspended)
  if l.inS "rom" != "" then
    let rom := c04Rom (l.inS "rom") (8 * 0x4000)
    let bus := Bus.create .mbc1 8 32768 (fun i => rom.getD i 0)
    let mut c : State := { regs := { af := 0x01b0, bc := 0x0013, de := 0x00d8, hl := 0x014d, sp := 0xfffe, ip := 0x0100 }, bus := bus,
                           ime := .Disabled, run := .Run }
    let rams := (l.outS "n_ram").splitOn ";"
    k := 0
    for s in sn do
      match updateBlocks devSys c with
      | .error _ => return .modelDiff s!"step {k}: model panics"
      | .ok c' =>
        c := c'
        let got := s!"{c.regs.ip},{c.regs.af},{c.regs.sp},{c.bus.io.timer.cycleCount},{(c04Digest c).toNat}"
        if got != s then
          return .modelDiff s!"step {k}: (ip,af,sp,clocks,digest) model={got} impl={s}"
      if k == 63 then
        let d := toString (c04RamDigest c).toNat
        if d != rams.getD 0 "" then return .modelDiff s!"RAM digest after 64 steps: model={d} impl={rams.getD 0 ""}"
      k := k + 1
    let d := toString (c04RamDigest c).toNat
    if d != rams.getLastD "" then return .modelDiff s!"final RAM digest: model={d} impl={rams.getLastD ""}"
    let ser := hexOfBytes c.bus.io.serialOut
    if ser != l.outS "n_ser" then return .modelDiff s!"serial output: model={ser} impl={l.outS "n_ser"}"
  -- non-trivial: the program visited more than ten distinct block entry points
  let ips := sj.map fun s => (s.splitOn ",").headD ""
  return .ok ((ips.eraseDups).length > 10)

end Driver
