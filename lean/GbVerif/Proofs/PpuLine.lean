import GbVerif.Proofs.PpuSel
/-!
C15 stages (iii)–(v): the mode-3 pixel pipeline.  Loop invariant over the pixel index `i`:
the line-buffer prefix `[0, i)` equals the reference, the 16-bit shift register holds the rest of
the current tile row (BG or window), `next_cached_tile_x` is the column after it.
-/
namespace GbVerif.PpuLine
open GbVerif.Ppu GbVerif.FrameSpec GbVerif.PpuBits GbVerif.PpuObj GbVerif.PpuSel

/-! ### palettes -/

theorem and3 (x : Nat) : x &&& 3 = x % 4 := Nat.and_two_pow_sub_one_eq_mod x 2
theorem and7 (x : Nat) : x &&& 7 = x % 8 := Nat.and_two_pow_sub_one_eq_mod x 3

theorem shade_eq (i : Nat) : shade i = shadeOf i := rfl

theorem bgPalette_get (r : Ppu.Regs) (k : Nat) (hk : k < 4) :
    rd (Cfg.ofRegs r).bgPalette k = .ok (paletteShade r.bgp k) := by
  have e : (Cfg.ofRegs r).bgPalette = #[shade (r.bgp &&& 3), shade ((r.bgp >>> 2) &&& 3),
      shade ((r.bgp >>> 4) &&& 3), shade ((r.bgp >>> 6) &&& 3)] := rfl
  rw [e]
  unfold paletteShade
  match k, hk with
  | 0, _ => simp [rd, and3, shade_eq]
  | 1, _ => simp [rd, and3, shade_eq]
  | 2, _ => simp [rd, and3, shade_eq]
  | 3, _ => simp [rd, and3, shade_eq]

theorem mem_sib (a : Array Nat) (i v j : Nat) :
    mem (a.setIfInBounds i v) j = if j = i ∧ i < a.size then v else mem a j := by
  unfold mem
  rw [Array.getD_eq_getD_getElem?, Array.getD_eq_getD_getElem?, Array.getElem?_setIfInBounds]
  by_cases hji : j = i
  · subst hji; by_cases h : j < a.size <;> simp [h]
  · have : ¬ i = j := fun e => hji e.symm
    simp [this, hji]

theorem objPalettes_eq (r : Ppu.Regs) : (Cfg.ofRegs r).objectPalettes =
    ((((((((Array.replicate 32 0).set! 0 (shade (r.obp0 &&& 3))).set! 1 (shade ((r.obp0 >>> 2) &&& 3))).set! 2
      (shade ((r.obp0 >>> 4) &&& 3))).set! 3 (shade ((r.obp0 >>> 6) &&& 3))).set! 4 (shade (r.obp1 &&& 3))).set! 5
      (shade ((r.obp1 >>> 2) &&& 3))).set! 6 (shade ((r.obp1 >>> 4) &&& 3))).set! 7 (shade ((r.obp1 >>> 6) &&& 3)) := by
  simp only [Cfg.ofRegs, Cfg.applyRegs, Cfg.setObjPalette, Cfg.setBgp, Cfg.setLcdControl, Cfg.new,
    show (0 &&& 7) * 4 = 0 from rfl, show (1 &&& 7) * 4 = 4 from rfl, Nat.zero_add, Nat.add_zero]

theorem objPalettes_size (r : Ppu.Regs) : (Cfg.ofRegs r).objectPalettes.size = 32 := by
  rw [objPalettes_eq]; simp [size_set!]

theorem objPalettes_get (r : Ppu.Regs) (b4 : Bool) (k : Nat) (hk : k < 4) :
    rd (Cfg.ofRegs r).objectPalettes ((if b4 then 1 else 0) * 4 + k) =
      .ok (paletteShade (if b4 then r.obp1 else r.obp0) k) := by
  rw [rd_ok _ _ (by rw [objPalettes_size]; cases b4 <;> simp <;> omega)]
  unfold paletteShade
  rw [objPalettes_eq]
  cases b4 <;> match k, hk with
  | 0, _ => simp [mem_sib, mem_replicate, shade_eq, and3]
  | 1, _ => simp [mem_sib, mem_replicate, shade_eq, and3]
  | 2, _ => simp [mem_sib, mem_replicate, shade_eq, and3]
  | 3, _ => simp [mem_sib, mem_replicate, shade_eq, and3]

/-! ### mixing BG and object pixels (stage iv) -/

/-- the pipeline's choice between the object-cache byte `px` and the BG colour index `idx` -/
def mixM (c : Cfg) (px idx : Nat) : Except Panic Nat := do
  let bgColor ← rd c.bgPalette idx
  let objHasPriority := (px &&& 0x40) != 0 || idx == 0
  if px &&& 0x80 != 0 && objHasPriority then
    rd c.objectPalettes (((px &&& 0x1c) >>> 2) * 4 + (px &&& 3))
  else pure bgColor

theorem px_decode : ∀ b7 b4 : Bool, ∀ col, col < 4 →
    ((0x80 + (if b7 then 0 else 0x40) + (if b4 then 4 else 0) + col) &&& 0x80 != 0) = true ∧
    (((0x80 + (if b7 then 0 else 0x40) + (if b4 then 4 else 0) + col) &&& 0x40) != 0) = !b7 ∧
    ((0x80 + (if b7 then 0 else 0x40) + (if b4 then 4 else 0) + col) &&& 0x1c) >>> 2 = (if b4 then 1 else 0) ∧
    (0x80 + (if b7 then 0 else 0x40) + (if b4 then 4 else 0) + col) &&& 3 = col := by decide

theorem mapColour_lt (r : FrameSpec.Regs) (vram : Mem) (b px py : Nat) : mapColour r vram b px py < 4 :=
  tileRowColour_lt _ _ _

theorem bgWinColour_lt (r : FrameSpec.Regs) (vram : Mem) (x ly : Nat) : bgWinColour r vram x ly < 4 := by
  unfold bgWinColour; split
  · exact mapColour_lt _ _ _ _ _
  · exact mapColour_lt _ _ _ _ _

theorem mix_spec (r : Ppu.Regs) (vram oam : Mem) (x ly : Nat) :
    mixM (Cfg.ofRegs r) (cacheByteSpec (toSpec r) vram oam x ly) (bgWinColour (toSpec r) vram x ly) =
      .ok (FrameSpec.pixel (toSpec r) vram oam x ly) := by
  have hlt := bgWinColour_lt (toSpec r) vram x ly
  unfold mixM FrameSpec.pixel pixelOf cacheByteSpec
  rw [bgPalette_get r _ hlt]
  simp only [bind, Except.bind, pure, Except.pure]
  generalize bgWinColour (toSpec r) vram x ly = bg at hlt ⊢
  cases hW : (if lcdcBit (toSpec r) 1 then winnerOf (toSpec r) vram oam (selected (toSpec r) oam ly) x ly else none) with
  | none => simp; rfl
  | some i =>
    simp only [specByte]
    obtain ⟨d1, d2, d3, d4⟩ := px_decode ((objAttr oam i).testBit 7) ((objAttr oam i).testBit 4)
      (objColour (toSpec r) vram oam i x ly) (objColour_lt _ _ _ _ _ _)
    simp only [d1, d2, d3, d4, objPalettes_get r _ _ (objColour_lt _ _ _ _ _ _)]
    cases (objAttr oam i).testBit 7 <;> cases hb : (bg == 0) <;> simp [hb, bne] <;> rfl

/-! ### tile fetches (stage iii) -/

/-- the row register after fetching the tile at column `col` of the map at `base`, map line `l` -/
def rowAt (r : Ppu.Regs) (vram : Array Nat) (base l col : Nat) : Nat :=
  interleave
    (mem vram (getTileAddress (Cfg.ofRegs r) (mem vram (base + (col + (l >>> 3) * 32))) + (l &&& 7) * 2))
    (mem vram (getTileAddress (Cfg.ofRegs r) (mem vram (base + (col + (l >>> 3) * 32))) + (l &&& 7) * 2 + 1))

def bgLine (r : Ppu.Regs) (ly : Nat) : Nat := (ly + r.scy) % 256
def winLine (r : Ppu.Regs) (ly : Nat) : Nat := (ly + 256 - r.wy) % 256

def bgRowM (r : Ppu.Regs) (vram : Array Nat) (ly col : Nat) : Nat :=
  rowAt r vram (Cfg.ofRegs r).bgMapOffset (bgLine r ly) col
def winRowM (r : Ppu.Regs) (vram : Array Nat) (ly col : Nat) : Nat :=
  rowAt r vram (Cfg.ofRegs r).windowMapOffset (winLine r ly) col

theorem bgTileData_lt (r : FrameSpec.Regs) (idx : Nat) (h : idx < 256) : bgTileData r idx < 0x1800 := by
  unfold bgTileData
  repeat' split
  all_goals omega

theorem mapBase_le (b : Bool) : mapBase b = 0x1800 ∨ mapBase b = 0x1c00 := by
  cases b
  · exact Or.inl rfl
  · exact Or.inr rfl

theorem shr3 (x : Nat) : x >>> 3 = x / 8 := by rw [Nat.shiftRight_eq_div_pow]

theorem fetch_ok (r : Ppu.Regs) (hr : RegsOk r) (vram : Array Nat) (hv : vram.size = 8192) (hvb : IsBytes vram)
    (base l col : Nat) (hb : base = 0x1800 ∨ base = 0x1c00) (hl : l < 256) (hc : col < 32) :
    rd vram (base + (col + (l >>> 3) * 32)) = .ok (mem vram (base + (col + (l >>> 3) * 32))) ∧
    getTileRow (Cfg.ofRegs r) vram (mem vram (base + (col + (l >>> 3) * 32))) (l &&& 7) = .ok (rowAt r vram base l col) := by
  have h3 : l >>> 3 < 32 := by rw [shr3]; omega
  have h7 : l &&& 7 < 8 := by rw [and7]; omega
  refine ⟨rd_ok vram _ (by omega), ?_⟩
  simp only [getTileRow]
  have ha := tileAddr_eq r (mem vram (base + (col + (l >>> 3) * 32))) hr.lcdc (hvb _)
  have hlt := bgTileData_lt (toSpec r) (mem vram (base + (col + (l >>> 3) * 32))) (hvb _)
  rw [rd_ok vram _ (by omega), rd_ok vram _ (by omega)]
  rfl

theorem cacheNextTileRow_ok (r : Ppu.Regs) (hr : RegsOk r) (vram : Array Nat) (hv : vram.size = 8192)
    (hvb : IsBytes vram) (s : State) (ly : Nat) (hc : s.cfg = Cfg.ofRegs r) (hl : s.line = ly) (hn : s.nextTileX < 32) :
    cacheNextTileRow s vram =
      .ok { s with tileCache := bgRowM r vram ly s.nextTileX, nextTileX := (s.nextTileX + 1) % 32 } := by
  obtain ⟨h1, h2⟩ := fetch_ok r hr vram hv hvb (Cfg.ofRegs r).bgMapOffset (bgLine r ly) s.nextTileX
    (by rw [cfg_bgMap r hr]; exact mapBase_le _) (Nat.mod_lt _ (by decide)) hn
  unfold cacheNextTileRow getBgTile
  rw [hc, hl]
  have e : (Cfg.ofRegs r).scrollY = r.scy := rfl
  rw [e]
  unfold bgLine at h1 h2
  simp only [bind, Except.bind, h1, h2, pure, Except.pure]
  rfl

theorem cacheNextWindowTileRow_ok (r : Ppu.Regs) (hr : RegsOk r) (vram : Array Nat) (hv : vram.size = 8192)
    (hvb : IsBytes vram) (s : State) (ly : Nat) (hc : s.cfg = Cfg.ofRegs r) (hl : s.line = ly) (hn : s.nextTileX < 32) :
    cacheNextWindowTileRow s vram =
      .ok { s with tileCache := winRowM r vram ly s.nextTileX, nextTileX := (s.nextTileX + 1) % 32 } := by
  obtain ⟨h1, h2⟩ := fetch_ok r hr vram hv hvb (Cfg.ofRegs r).windowMapOffset (winLine r ly) s.nextTileX
    (by rw [cfg_windowMap r hr]; exact mapBase_le _) (Nat.mod_lt _ (by decide)) hn
  unfold cacheNextWindowTileRow getWindowTile
  rw [hc, hl]
  have e : (Cfg.ofRegs r).windowY = r.wy := rfl
  rw [e]
  unfold winLine at h1 h2
  simp only [bind, Except.bind, h1, h2, pure, Except.pure]
  rfl

/-- the colour shifted out of a fetched row after `t` shifts is the reference's map pixel -/
theorem rowAt_colour (r : Ppu.Regs) (hr : RegsOk r) (vram : Array Nat) (hvb : IsBytes vram)
    (base l col t : Nat) (ht : t < 8) :
    shiftedOut (rowAt r vram base l col) t = mapColour (toSpec r) (mem vram) base (col * 8 + t) l := by
  unfold rowAt mapColour
  rw [shiftedOut_interleave _ _ t (hvb _) (hvb _) ht, tileRowColour_eq]
  have e1 : (col * 8 + t) / 8 = col := by omega
  have e2 : (col * 8 + t) % 8 = t := by omega
  have e3 : base + l / 8 * 32 + (col * 8 + t) / 8 = base + (col + (l >>> 3) * 32) := by rw [shr3]; omega
  rw [e2, e3, tileAddr_eq r _ hr.lcdc (hvb _), and7]
  have e4 : bgTileData (toSpec r) (mem vram (base + (col + (l >>> 3) * 32))) + l % 8 * 2 =
      bgTileData (toSpec r) (mem vram (base + (col + (l >>> 3) * 32))) + 2 * (l % 8) := by omega
  rw [e4]

/-! ### what the shift register holds -/

/-- the window is shown on line `ly` -/
def active (r : Ppu.Regs) (ly : Nat) : Bool := (Cfg.ofRegs r).windowEnabled && decide (r.wy ≤ ly)
/-- pixel `i` of line `ly` comes from the window -/
def srcWin (r : Ppu.Regs) (ly i : Nat) : Bool := active r ly && decide (r.wx ≤ i + 7)
/-- map column of the tile pixel `i` lies in -/
def tcol (r : Ppu.Regs) (ly i : Nat) : Nat := if srcWin r ly i then (i + 7 - r.wx) / 8 else ((i + r.scx) / 8) % 32
/-- position of pixel `i` in its tile -/
def tpos (r : Ppu.Regs) (ly i : Nat) : Nat := if srcWin r ly i then (i + 7 - r.wx) % 8 else (i + r.scx) % 8
/-- the fetched row of that tile -/
def trow (r : Ppu.Regs) (vram : Array Nat) (ly i : Nat) : Nat :=
  if srcWin r ly i then winRowM r vram ly (tcol r ly i) else bgRowM r vram ly (tcol r ly i)

theorem tpos_lt (r : Ppu.Regs) (ly i : Nat) : tpos r ly i < 8 := by unfold tpos; split <;> omega

theorem trow_lt (r : Ppu.Regs) (vram : Array Nat) (ly i : Nat) : trow r vram ly i < 65536 := by
  unfold trow winRowM bgRowM rowAt; split <;> exact interleave_lt' _ _

/-- the colour index the pipeline shifts out for pixel `i` is the reference's BG/window colour -/
theorem shifted_spec (r : Ppu.Regs) (hr : RegsOk r) (vram : Array Nat) (hvb : IsBytes vram) (ly i : Nat) (hly : ly < 256) :
    shiftedOut (trow r vram ly i) (tpos r ly i) = bgWinColour (toSpec r) (mem vram) i ly := by
  have hw : windowAt (toSpec r) i ly = srcWin r ly i := by
    unfold windowAt srcWin active; rw [cfg_windowEnabled r hr]; rfl
  unfold bgWinColour trow tpos tcol
  rw [hw]
  cases hs : srcWin r ly i
  · simp only [Bool.false_eq_true, if_false]
    unfold bgRowM bgColour
    rw [rowAt_colour r hr vram hvb _ _ _ _ (by omega), cfg_bgMap r hr]
    have : (i + r.scx) / 8 % 32 * 8 + (i + r.scx) % 8 = (i + r.scx) % 256 := by omega
    rw [this]; rfl
  · simp only [if_true]
    unfold winRowM windowColour
    rw [rowAt_colour r hr vram hvb _ _ _ _ (by omega), cfg_windowMap r hr]
    have : (i + 7 - r.wx) / 8 * 8 + (i + 7 - r.wx) % 8 = i + 7 - r.wx := by omega
    rw [this]
    have hwy : r.wy ≤ ly := by
      simp only [srcWin, active, Bool.and_eq_true, decide_eq_true_eq] at hs; exact hs.1.2
    have : winLine r ly = ly - r.wy := by unfold winLine; omega
    rw [this]; rfl

/-! ### one pixel -/

/-- the tail of `pixelStep`: window switch, tile fetch when the tile is used up -/
def advance (drawWindow : Bool) (vram : Array Nat) (tileX writeIndex : Nat) (s : State) : Except Panic (Nat × State) :=
  let (tileX, s) :=
    if drawWindow && writeIndex + 7 == s.cfg.windowX then (8, { s with nextTileX := 0 })
    else (tileX, s)
  if tileX ≥ 8 then do
    let s ← if drawWindow && writeIndex + 7 ≥ s.cfg.windowX then cacheNextWindowTileRow s vram
            else cacheNextTileRow s vram
    pure (0, s)
  else pure (tileX, s)

theorem pixelStep_eq (dw : Bool) (vram : Array Nat) (t wi : Nat) (s : State) (px color : Nat) (w' : Array Nat)
    (h1 : rd s.objCache s.objPix = .ok px)
    (h2 : mixM s.cfg px ((s.tileCache &&& 0xc000) >>> 14) = .ok color)
    (h3 : ¬ (s.line * 160 + 160 > s.writing.size ∨ wi ≥ 160))
    (h4 : wr s.writing (s.line * 160 + wi) color = .ok w') :
    pixelStep dw vram t wi s =
      advance dw vram (t + 1) (wi + 1)
        { s with writing := w', objPix := s.objPix + 1, tileCache := (s.tileCache <<< 2) % 65536 } := by
  unfold pixelStep mixM at *
  simp only [h1, bind, Except.bind] at h2 ⊢
  cases hb : rd s.cfg.bgPalette ((s.tileCache &&& 0xc000) >>> 14) with
  | error e => rw [hb] at h2; cases h2
  | ok bg =>
    rw [hb] at h2
    simp only [h3, if_false, pure, Except.pure] at h2 ⊢
    by_cases hcnd : (px &&& 128 != 0 && (px &&& 64 != 0 || (s.tileCache &&& 49152) >>> 14 == 0)) = true
    · simp only [hcnd, if_true] at h2 ⊢
      simp only [h2, h4]
      rfl
    · simp only [hcnd, if_false] at h2 ⊢
      cases h2
      simp only [h4]
      rfl

theorem shl0 (x : Nat) (h : x < 65536) : (x <<< (2 * 0)) % 65536 = x := by
  simp [Nat.mod_eq_of_lt h]

/-- the tail of a pixel step re-establishes the shift-register part of the invariant for `i + 1` -/
theorem advance_inv (r : Ppu.Regs) (hr : RegsOk r) (vram : Array Nat) (hv : vram.size = 8192) (hvb : IsBytes vram)
    (ly i : Nat) (hi : i < 160) (s1 : State) (hc : s1.cfg = Cfg.ofRegs r) (hl : s1.line = ly)
    (hn : s1.nextTileX = (tcol r ly i + 1) % 32)
    (htc : s1.tileCache = (trow r vram ly i <<< (2 * (tpos r ly i + 1))) % 65536) :
    ∃ t' tc nx, advance (active r ly) vram (tpos r ly i + 1) (i + 1) s1 =
        .ok (t', { s1 with tileCache := tc, nextTileX := nx }) ∧ nx < 32 ∧
      (i + 1 < 160 → t' = tpos r ly (i + 1) ∧ tc = (trow r vram ly (i + 1) <<< (2 * t')) % 65536 ∧
        nx = (tcol r ly (i + 1) + 1) % 32) := by
  have hwx : s1.cfg.windowX = r.wx := by rw [hc]; rfl
  have hn32 : s1.nextTileX < 32 := by rw [hn]; exact Nat.mod_lt _ (by decide)
  unfold advance
  by_cases hsw : (active r ly && (i + 1 + 7 == s1.cfg.windowX)) = true
  · -- the window starts at pixel `i + 1`
    simp only [hsw, if_true]
    have hact : active r ly = true := by simp only [Bool.and_eq_true] at hsw; exact hsw.1
    have hweq : i + 1 + 7 = r.wx := by
      simp only [Bool.and_eq_true, beq_iff_eq] at hsw; rw [← hwx]; exact hsw.2
    have hge : (active r ly && decide (i + 1 + 7 ≥ ({ s1 with nextTileX := 0 } : State).cfg.windowX)) = true := by
      simp only [hact, Bool.true_and, decide_eq_true_eq]; show i + 1 + 7 ≥ s1.cfg.windowX; omega
    have h88 : (8:Nat) ≥ 8 := by omega
    simp only [h88, if_true, hge]
    have hw0 := cacheNextWindowTileRow_ok r hr vram hv hvb ({ s1 with nextTileX := 0 } : State) ly hc hl
      (by show (0:Nat) < 32; omega)
    rw [hw0]
    refine ⟨0, winRowM r vram ly 0, (0 + 1) % 32, rfl, by omega, ?_⟩
    intro _
    have hs : srcWin r ly (i + 1) = true := by
      simp only [srcWin, hact, Bool.true_and, decide_eq_true_eq]; omega
    simp only [tpos, tcol, trow, hs, if_true]
    have e1 : (i + 1 + 7 - r.wx) % 8 = 0 := by omega
    have e2 : (i + 1 + 7 - r.wx) / 8 = 0 := by omega
    rw [e1, e2]
    refine ⟨rfl, ?_, rfl⟩
    rw [shl0 _ (by unfold winRowM rowAt; exact interleave_lt' _ _)]
  · simp only [hsw, if_false, Bool.false_eq_true]
    have hmono : srcWin r ly i = true → srcWin r ly (i + 1) = true := by
      simp only [srcWin, Bool.and_eq_true, decide_eq_true_eq]; intro h; exact ⟨h.1, by omega⟩
    have hback : srcWin r ly (i + 1) = true → srcWin r ly i = true := by
      simp only [srcWin, Bool.and_eq_true, decide_eq_true_eq]
      intro h
      refine ⟨h.1, ?_⟩
      by_cases hw : r.wx ≤ i + 7
      · exact hw
      · exfalso; apply hsw
        simp only [Bool.and_eq_true, beq_iff_eq]; exact ⟨h.1, by rw [hwx]; omega⟩
    by_cases h8 : tpos r ly i + 1 ≥ 8
    · -- the tile is used up: fetch the next one
      have hp7 : tpos r ly i = 7 := by have := tpos_lt r ly i; omega
      simp only [h8, if_true]
      have hcond : (active r ly && decide (i + 1 + 7 ≥ s1.cfg.windowX)) = srcWin r ly (i + 1) := by
        rw [hwx]; rfl
      rw [hcond]
      cases hs1 : srcWin r ly (i + 1)
      · have hs0 : srcWin r ly i = false := by
          cases h : srcWin r ly i
          · rfl
          · rw [hmono h] at hs1; cases hs1
        simp only [Bool.false_eq_true, if_false]
        rw [cacheNextTileRow_ok r hr vram hv hvb _ ly hc hl hn32]
        refine ⟨0, bgRowM r vram ly s1.nextTileX, (s1.nextTileX + 1) % 32, rfl, Nat.mod_lt _ (by decide), ?_⟩
        intro _
        simp only [tpos, tcol, hs0, Bool.false_eq_true, if_false] at hp7 hn
        simp only [tpos, tcol, trow, hs1, Bool.false_eq_true, if_false]
        have e1 : (i + 1 + r.scx) % 8 = 0 := by omega
        have e2 : (i + 1 + r.scx) / 8 % 32 = s1.nextTileX := by rw [hn]; omega
        rw [e1, e2]
        refine ⟨rfl, ?_, rfl⟩
        rw [shl0 _ (by unfold bgRowM rowAt; exact interleave_lt' _ _)]
      · have hs0 := hback hs1
        simp only [if_true]
        rw [cacheNextWindowTileRow_ok r hr vram hv hvb _ ly hc hl hn32]
        refine ⟨0, winRowM r vram ly s1.nextTileX, (s1.nextTileX + 1) % 32, rfl, Nat.mod_lt _ (by decide), ?_⟩
        intro _
        simp only [tpos, tcol, hs0, if_true] at hp7 hn
        simp only [tpos, tcol, trow, hs1, if_true]
        have hwle : r.wx ≤ i + 7 := by
          simp only [srcWin, Bool.and_eq_true, decide_eq_true_eq] at hs0; exact hs0.2
        have e1 : (i + 1 + 7 - r.wx) % 8 = 0 := by omega
        have e2 : (i + 1 + 7 - r.wx) / 8 = s1.nextTileX := by rw [hn]; omega
        rw [e1, e2]
        refine ⟨rfl, ?_, rfl⟩
        rw [shl0 _ (by unfold winRowM rowAt; exact interleave_lt' _ _)]
    · -- same tile
      simp only [h8, if_false]
      refine ⟨tpos r ly i + 1, s1.tileCache, s1.nextTileX, rfl, hn32, ?_⟩
      intro _
      have hsame : srcWin r ly (i + 1) = srcWin r ly i := by
        cases h : srcWin r ly i
        · cases h' : srcWin r ly (i + 1)
          · rfl
          · rw [hback h'] at h; cases h
        · exact hmono h
      have hlt := tpos_lt r ly i
      have hpos : tpos r ly (i + 1) = tpos r ly i + 1 := by
        unfold tpos at h8 ⊢; rw [hsame]
        cases hs : srcWin r ly i
        · simp only [hs, Bool.false_eq_true, if_false] at h8 ⊢; omega
        · simp only [hs, if_true] at h8 ⊢
          have : r.wx ≤ i + 7 := by
            simp only [srcWin, Bool.and_eq_true, decide_eq_true_eq] at hs; exact hs.2
          omega
      have hcol : tcol r ly (i + 1) = tcol r ly i := by
        unfold tpos at h8; unfold tcol; rw [hsame]
        cases hs : srcWin r ly i
        · simp only [hs, Bool.false_eq_true, if_false] at h8 ⊢; omega
        · simp only [hs, if_true] at h8 ⊢
          have : r.wx ≤ i + 7 := by
            simp only [srcWin, Bool.and_eq_true, decide_eq_true_eq] at hs; exact hs.2
          omega
      have hrow : trow r vram ly (i + 1) = trow r vram ly i := by
        unfold trow; rw [hsame, hcol]
      rw [hpos, hrow, hcol]
      exact ⟨rfl, htc, hn⟩

/-! ### the loop invariant -/

def topTwoCheck (v : Nat) : Bool := (v &&& 0xc000) >>> 14 == v / 16384
theorem topTwo_all : Enum.allRange topTwoCheck 16 0 = true := by decide +kernel
theorem topTwo (v : Nat) (h : v < 65536) : (v &&& 0xc000) >>> 14 = v / 16384 := by
  have := Enum.forall_lt_of_allRange topTwoCheck 16 topTwo_all v h
  simpa [topTwoCheck] using this

/-- what stage (ii) says about the object line cache of line `ly` -/
def CacheOk (r : Ppu.Regs) (vram oam : Array Nat) (ly : Nat) (cache : Array Nat) : Prop :=
  cache.size = 176 ∧ ∀ x, x < 160 → mem cache (x + 8) = cacheByteSpec (toSpec r) (mem vram) (mem oam) x ly

/-- invariant before pixel `i` of line `ly` is drawn; `base` is the state when mode 3 was entered -/
structure LineInv (r : Ppu.Regs) (vram oam : Array Nat) (ly : Nat) (base : State) (i : Nat) (s : State) : Prop where
  cfg : s.cfg = Cfg.ofRegs r
  line : s.line = ly
  wsize : s.writing.size = 23040
  ocache : s.objCache = base.objCache
  opix : s.objPix = 8 + i
  wline : s.windowLine.isSome = active r ly
  vis : s.visible = base.visible
  mode : s.mode = base.mode
  dots : s.dots = base.dots
  done : ∀ j, j < i → mem s.writing (ly * 160 + j) = FrameSpec.pixel (toSpec r) (mem vram) (mem oam) j ly
  other : ∀ k, (k < ly * 160 ∨ ly * 160 + 160 ≤ k) → mem s.writing k = mem base.writing k
  next : s.nextTileX < 32

/-- the shift-register part -/
structure Pipe (r : Ppu.Regs) (vram : Array Nat) (ly i : Nat) (s : State) (t : Nat) : Prop where
  pos : t = tpos r ly i
  cache : s.tileCache = (trow r vram ly i <<< (2 * t)) % 65536
  next : s.nextTileX = (tcol r ly i + 1) % 32

theorem pixelStep_inv (r : Ppu.Regs) (hr : RegsOk r) (vram oam : Array Nat) (hv : vram.size = 8192)
    (hvb : IsBytes vram) (ly : Nat) (hly : ly < 144) (base : State) (hco : CacheOk r vram oam ly base.objCache)
    (i t : Nat) (s : State) (hi : i < 160) (inv : LineInv r vram oam ly base i s) (pipe : Pipe r vram ly i s t) :
    ∃ t' s', pixelStep (active r ly) vram t i s = .ok (t', s') ∧ LineInv r vram oam ly base (i + 1) s' ∧
      (i + 1 < 160 → Pipe r vram ly (i + 1) s' t') := by
  -- the object pixel
  have h1 : rd s.objCache s.objPix = .ok (cacheByteSpec (toSpec r) (mem vram) (mem oam) i ly) := by
    rw [inv.ocache, inv.opix, rd_ok _ _ (by rw [hco.1]; omega), Nat.add_comm 8 i, hco.2 i hi]
  -- the BG / window colour index
  have hidx : (s.tileCache &&& 0xc000) >>> 14 = bgWinColour (toSpec r) (mem vram) i ly := by
    rw [topTwo _ (by rw [pipe.cache]; exact Nat.mod_lt _ (by decide)), pipe.cache, pipe.pos,
      ← shifted_spec r hr vram hvb ly i (by omega)]
    rfl
  have h2 : mixM s.cfg (cacheByteSpec (toSpec r) (mem vram) (mem oam) i ly) ((s.tileCache &&& 0xc000) >>> 14) =
      .ok (FrameSpec.pixel (toSpec r) (mem vram) (mem oam) i ly) := by
    rw [hidx, inv.cfg]; exact mix_spec r (mem vram) (mem oam) i ly
  have h3 : ¬ (s.line * 160 + 160 > s.writing.size ∨ i ≥ 160) := by rw [inv.line, inv.wsize]; omega
  have hidxlt : s.line * 160 + i < s.writing.size := by rw [inv.line, inv.wsize]; omega
  have h4 := wr_ok s.writing (s.line * 160 + i) (FrameSpec.pixel (toSpec r) (mem vram) (mem oam) i ly) hidxlt
  rw [pixelStep_eq (active r ly) vram t i s _ _ _ h1 h2 h3 h4, pipe.pos]
  obtain ⟨t', tc, nx, ha, hnx, hpipe⟩ := advance_inv r hr vram hv hvb ly i hi
    { s with writing := s.writing.set! (s.line * 160 + i) (FrameSpec.pixel (toSpec r) (mem vram) (mem oam) i ly),
             objPix := s.objPix + 1, tileCache := (s.tileCache <<< 2) % 65536 }
    inv.cfg inv.line pipe.next
    (by show (s.tileCache <<< 2) % 65536 = _; rw [pipe.cache, pipe.pos, shl_step])
  refine ⟨t', _, ha, ?_, ?_⟩
  · refine ⟨inv.cfg, inv.line, ?_, inv.ocache, ?_, inv.wline, inv.vis, inv.mode, inv.dots, ?_, ?_, hnx⟩
    · show (s.writing.set! _ _).size = 23040; rw [size_set!]; exact inv.wsize
    · show s.objPix + 1 = 8 + (i + 1); rw [inv.opix]; omega
    · intro j hj
      show mem (s.writing.set! _ _) _ = _
      rw [mem_set! _ _ _ _ hidxlt, inv.line]
      by_cases hji : j = i
      · subst hji; simp
      · have : ¬ (ly * 160 + j = ly * 160 + i) := by omega
        rw [if_neg this]; exact inv.done j (by omega)
    · intro k hk
      show mem (s.writing.set! _ _) _ = _
      rw [mem_set! _ _ _ _ hidxlt, inv.line]
      have : ¬ (k = ly * 160 + i) := by omega
      rw [if_neg this]; exact inv.other k hk
  · intro h160
    obtain ⟨p1, p2, p3⟩ := hpipe h160
    exact ⟨p1, p2, p3⟩

theorem LineInv.rebase {r : Ppu.Regs} {vram oam : Array Nat} {ly : Nat} {base base' : State} {i : Nat} {s : State}
    (inv : LineInv r vram oam ly base i s) (h1 : base'.objCache = base.objCache) (h2 : base'.visible = base.visible)
    (h3 : base'.mode = base.mode) (h4 : base'.dots = base.dots) (h5 : base'.writing = base.writing) :
    LineInv r vram oam ly base' i s :=
  ⟨inv.cfg, inv.line, inv.wsize, by rw [h1]; exact inv.ocache, inv.opix, inv.wline, by rw [h2]; exact inv.vis,
    by rw [h3]; exact inv.mode, by rw [h4]; exact inv.dots, inv.done, by rw [h5]; exact inv.other, inv.next⟩

theorem LineInv.setDots {r : Ppu.Regs} {vram oam : Array Nat} {ly : Nat} {base : State} {i : Nat} {s : State}
    (inv : LineInv r vram oam ly base i s) (d : Nat) :
    LineInv r vram oam ly { base with dots := d } i { s with dots := d } :=
  ⟨inv.cfg, inv.line, inv.wsize, inv.ocache, inv.opix, inv.wline, inv.vis, inv.mode, rfl, inv.done, inv.other, inv.next⟩

theorem Pipe.setDots {r : Ppu.Regs} {vram : Array Nat} {ly i : Nat} {s : State} {t : Nat}
    (p : Pipe r vram ly i s t) (d : Nat) : Pipe r vram ly i { s with dots := d } t := ⟨p.pos, p.cache, p.next⟩

theorem drawDots_inv (r : Ppu.Regs) (hr : RegsOk r) (vram oam : Array Nat) (hv : vram.size = 8192)
    (hvb : IsBytes vram) (ly : Nat) (hly : ly < 144) (base : State) (hco : CacheOk r vram oam ly base.objCache) :
    ∀ (n i t : Nat) (s : State), i + n ≤ 160 → LineInv r vram oam ly base i s → (i < 160 → Pipe r vram ly i s t) →
      ∃ s', drawDots (active r ly) vram n t i s = .ok s' ∧ LineInv r vram oam ly base (i + n) s' ∧
        (i + n < 160 → ∃ t', Pipe r vram ly (i + n) s' t') := by
  intro n
  induction n with
  | zero => intro i t s _ inv hp; exact ⟨s, rfl, inv, fun h => ⟨t, hp h⟩⟩
  | succ n ih =>
    intro i t s hin inv hp
    obtain ⟨t', s1, h1, inv1, hp1⟩ := pixelStep_inv r hr vram oam hv hvb ly hly base hco i t s (by omega) inv (hp (by omega))
    obtain ⟨s', h2, inv2, hp2⟩ := ih (i + 1) t' s1 (by omega) inv1 hp1
    refine ⟨s', ?_, ?_, ?_⟩
    · simp only [drawDots, h1, bind, Except.bind]; exact h2
    · have : i + (n + 1) = i + 1 + n := by omega
      rw [this]; exact inv2
    · have : i + (n + 1) = i + 1 + n := by omega
      rw [this]; exact hp2

theorem drawStep_inv (r : Ppu.Regs) (hr : RegsOk r) (vram oam : Array Nat) (hv : vram.size = 8192)
    (hvb : IsBytes vram) (ly : Nat) (hly : ly < 144) (base : State) (hco : CacheOk r vram oam ly base.objCache)
    (p t : Nat) (s : State) (hp4 : p + 4 ≤ 160) (inv : LineInv r vram oam ly base p s) (pipe : Pipe r vram ly p s t) :
    ∃ s', drawStep s vram p = .ok s' ∧ LineInv r vram oam ly base (p + 4) s' ∧
      (p + 4 < 160 → ∃ t', Pipe r vram ly (p + 4) s' t') := by
  have hscx : s.cfg.scrollX = r.scx := by rw [inv.cfg]; rfl
  have hwx : s.cfg.windowX = r.wx := by rw [inv.cfg]; rfl
  have ht : (if (s.windowLine.isSome && decide (p + 7 ≥ s.cfg.windowX)) = true then (p + 7 - s.cfg.windowX) &&& 7
      else ((p &&& 7) + (s.cfg.scrollX &&& 7)) &&& 7) = tpos r ly p := by
    rw [inv.wline, hscx, hwx]
    unfold tpos srcWin
    have : decide (p + 7 ≥ r.wx) = decide (r.wx ≤ p + 7) := rfl
    rw [this]
    split
    · rw [and7]
    · rw [and7, and7, and7]; omega
  unfold drawStep
  rw [inv.wline] at ht
  simp only [inv.wline, ht]
  rw [← pipe.pos]
  exact drawDots_inv r hr vram oam hv hvb ly hly base hco 4 p t s hp4 inv (fun _ => pipe)

end GbVerif.PpuLine
