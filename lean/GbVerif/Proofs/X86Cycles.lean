import GbVerif.Proofs.X86Step
/-!
Soundness of the cycle path analysis (`JitCycles.pathSums`) with respect to the executable x86 model: if the analysis of a
template returns the list `L`, then EVERY execution of that template by `X86.run` — any register contents, flags, host
stack, operand bytes, any behaviour of the bus helpers — that reaches the end of the template has added one of the
totals in `L` to r15 (mod 2^64), and nothing else has touched r15.
-/
namespace GbVerif.X86
open GbVerif.JitCycles
variable {β : Type}

/-- byte offset of instruction `i` (`endOff` for the end of the code) -/
def offAt (code : List (Nat × Instr)) (endOff i : Nat) : Nat :=
  match code[i]? with | some (o, _) => o | none => endOff

/-- offsets are looked up by first occurrence, none of them is the end offset, and they do not decrease -/
def codeOk (code : List (Nat × Instr)) (endOff : Nat) : Bool :=
  (List.range code.length).all fun i =>
    code.findIdx? (fun p => p.1 == offAt code endOff i) == some i && offAt code endOff i != endOff &&
    decide (offAt code endOff i ≤ offAt code endOff (i + 1))

theorem codeOk_at {code : List (Nat × Instr)} {endOff : Nat} (h : codeOk code endOff = true) {i : Nat} (hi : i < code.length) :
    code.findIdx? (fun p => p.1 == offAt code endOff i) = some i ∧ offAt code endOff i ≠ endOff ∧
    offAt code endOff i ≤ offAt code endOff (i + 1) := by
  unfold codeOk at h
  rw [List.all_eq_true] at h
  have := h i (List.mem_range.mpr hi)
  simp only [Bool.and_eq_true, beq_iff_eq, bne_iff_ne, ne_eq, decide_eq_true_eq] at this
  exact ⟨this.1.1, this.1.2, this.2⟩

theorem offAt_of_get {code : List (Nat × Instr)} {endOff i off : Nat} {ins : Instr} (h : code[i]? = some (off, ins)) :
    offAt code endOff i = off := by unfold offAt; rw [h]

theorem indexOf_offAt {code : List (Nat × Instr)} {endOff off j : Nat} (h : indexOf code endOff off = some j) :
    offAt code endOff j = off := by
  unfold indexOf at h
  split at h
  · rename_i he
    injection h with h; subst h
    unfold offAt
    have : code[code.length]? = none := by simp
    rw [this]
    exact (by simpa using he : off = endOff).symm
  · have := List.findIdx?_eq_some_iff_getElem.mp h
    obtain ⟨hj, hp, _⟩ := this
    unfold offAt
    rw [List.getElem?_eq_getElem hj]
    simpa using hp

theorem tokVal_lit (s : St β) (n : Nat) (h : n < 128) : tokVal s n = n := by
  unfold tokVal
  have h1 : (n == 256) = false := by simp; omega
  have h2 : (n == 257) = false := by simp; omega
  simp only [h1, h2, Bool.false_eq_true, if_false]
  omega


/-- one iteration of `run` at instruction `i` -/
theorem run_unfold (B : Interp.BusOps β) {code : List (Nat × Instr)} {endOff : Nat} (hok : codeOk code endOff = true)
    {i off : Nat} {ins : Instr} (hget : code[i]? = some (off, ins)) {s s' : St β} (hpc : s.pc = off) {fr : Nat}
    (h : run B code endOff (fr + 1) s = .ok s') :
    ∃ s1, step B s ins (offAt code endOff (i + 1) - off) = .ok s1 ∧ run B code endOff fr s1 = .ok s' := by
  have hi : i < code.length := by
    rcases Nat.lt_or_ge i code.length with h' | h'
    · exact h'
    · rw [List.getElem?_eq_none h'] at hget; cases hget
  obtain ⟨h1, h2, _⟩ := codeOk_at hok hi
  have ho := offAt_of_get (endOff := endOff) hget
  rw [ho] at h1 h2
  rw [run] at h
  have hne : (s.pc == endOff) = false := by rw [hpc]; simpa using h2
  rw [hne] at h
  simp only [Bool.false_eq_true, if_false] at h
  rw [hpc, h1] at h
  simp only [hget] at h
  have h' : (match step B s ins (offAt code endOff (i + 1) - off) with
      | .ok s' => run B code endOff fr s'
      | .error e => .error e) = .ok s' := h
  cases hs : step B s ins (offAt code endOff (i + 1) - off) with
  | error e => rw [hs] at h'; cases h'
  | ok s1 => rw [hs] at h'; exact ⟨s1, rfl, h'⟩


theorem destReg_of_not_writes {ins : Instr} (hw : writesR15Otherwise ins = false) (hadd : ∀ n, ins ≠ .aluI .add .q 15 [n] true) :
    destReg ins ≠ some 15 := by
  unfold writesR15Otherwise at hw
  split at hw
  · rename_i n; exact absurd rfl (hadd n)
  · simpa using hw

theorem step_callRax_r15 (B : Interp.BusOps β) (s s1 : St β) (len : Nat) (h : step B s .callRax len = .ok s1) :
    get s1 15 = get s 15 := by
  have h' : callBus B ({ s with pc := s.pc + len } : St β) = .ok s1 := h
  have := callBus_frame B ({ s with pc := s.pc + len } : St β) s1 15 h' (by decide)
  exact this

/-- **soundness of the cycle analysis** -/
theorem pathSums_sound (B : Interp.BusOps β) (code : List (Nat × Instr)) (endOff : Nat) (hok : codeOk code endOff = true) :
    ∀ (fa i : Nat) (L : List Nat), pathSums code endOff i fa = some L →
    ∀ (fr : Nat) (s s' : St β), s.r.size = 16 → s.pc = offAt code endOff i → run B code endOff fr s = .ok s' →
    ∃ l ∈ L, (get s' 15).toNat = ((get s 15).toNat + l) % 2 ^ 64 := by
  intro fa
  induction fa with
  | zero => intro i L h; simp [pathSums] at h
  | succ fa ih =>
    intro i L h fr s s' hsz hpc hrun
    cases fr with
    | zero => simp [run] at hrun
    | succ fr =>
    rw [pathSums] at h
    cases hget : code[i]? with
    | none =>
      rw [hget] at h; simp only [] at h
      split at h
      · injection h with h; subst h
        have hoe : offAt code endOff i = endOff := by unfold offAt; rw [hget]
        rw [run] at hrun
        have hpe : (s.pc == endOff) = true := by rw [hpc, hoe]; simp
        rw [hpe] at hrun; simp only [if_true] at hrun
        injection hrun with hrun; subst hrun
        exact ⟨0, List.mem_singleton.mpr rfl, by rw [Nat.add_zero, Nat.mod_eq_of_lt (get s 15).isLt]⟩
      · cases h
    | some p =>
      obtain ⟨off, ins⟩ := p
      rw [hget] at h; simp only [] at h
      have hoff := offAt_of_get (endOff := endOff) hget
      obtain ⟨s1, hstep, hrun1⟩ := run_unfold B hok hget (hpc.trans hoff) hrun
      have hi : i < code.length := by
        rcases Nat.lt_or_ge i code.length with h' | h'
        · exact h'
        · rw [List.getElem?_eq_none h'] at hget; cases hget
      obtain ⟨_, _, hmono⟩ := codeOk_at hok hi
      rw [hoff] at hmono
      have hlen : off + (offAt code endOff (i + 1) - off) = offAt code endOff (i + 1) := by omega
      obtain ⟨hsz1, hpcn⟩ := step_size_pc B s s1 ins _ hstep
      rw [hsz] at hsz1
      have hspc : s.pc = off := hpc.trans hoff
      split at h
      · cases h
      · rename_i hw
        have hw' : writesR15Otherwise ins = false := by simpa using hw
        -- the continuation at the next instruction, for everything that neither jumps nor adds to r15
        have fallthrough : (∀ c rel, ins ≠ .jcc c rel) → (∀ rel, ins ≠ .jmp rel) → (∀ n, ins ≠ .aluI .add .q 15 [n] true) →
            ∀ L', pathSums code endOff (i + 1) fa = some L' →
            ∃ l ∈ L', (get s' 15).toNat = ((get s 15).toNat + l) % 2 ^ 64 := by
          intro hj1 hj2 hadd L' hL'
          have hpc1 : s1.pc = offAt code endOff (i + 1) := by rw [hpcn hj1 hj2, hspc, hlen]
          have hfr : get s1 15 = get s 15 := by
            by_cases hc : ins = .callRax
            · subst hc
              exact step_callRax_r15 B s s1 _ hstep
            · exact step_frame B s s1 ins _ 15 hstep hc (destReg_of_not_writes hw' hadd)
          obtain ⟨l, hl, he⟩ := ih (i + 1) L' hL' fr s1 s' hsz1 hpc1 hrun1
          exact ⟨l, hl, by rw [he, hfr]⟩
        split at h
        · -- jcc
          rename_i c rel
          split at h
          · cases h
          · rename_i hrel
            have hrel' : rel < 128 := by omega
            split at h
            · rename_i j hidx
              have hidx' : indexOf code endOff (offAt code endOff (i + 1) + rel) = some j := hidx
              split at h
              · cases h
              · split at h
                · rename_i a b ha hb
                  injection h with h; subst h
                  have hfr : get s1 15 = get s 15 := step_frame B s s1 _ _ 15 hstep (by intro e; cases e) (by simp [destReg])
                  simp only [step] at hstep
                  injection hstep with hstep
                  by_cases hcond : condHolds s.fl c = true
                  · -- taken
                    have hpc1 : s1.pc = offAt code endOff j := by
                      rw [indexOf_offAt hidx', ← hstep]
                      simp only [hcond, if_true]
                      show s.pc + _ + tokVal _ rel = _
                      rw [tokVal_lit _ _ hrel', hspc, hlen]
                    obtain ⟨l, hl, he⟩ := ih j b hb fr s1 s' hsz1 hpc1 hrun1
                    exact ⟨l, List.mem_append_right _ hl, by rw [he, hfr]⟩
                  · have hpc1 : s1.pc = offAt code endOff (i + 1) := by
                      rw [← hstep]
                      simp only [hcond, Bool.false_eq_true, if_false]
                      show s.pc + _ = _
                      rw [hspc, hlen]
                    obtain ⟨l, hl, he⟩ := ih (i + 1) a ha fr s1 s' hsz1 hpc1 hrun1
                    exact ⟨l, List.mem_append_left _ hl, by rw [he, hfr]⟩
                · cases h
            · cases h
        · -- jmp
          rename_i rel
          split at h
          · cases h
          · rename_i hrel
            have hrel' : rel < 128 := by omega
            split at h
            · rename_i j hidx
              have hidx' : indexOf code endOff (offAt code endOff (i + 1) + rel) = some j := hidx
              split at h
              · cases h
              · have hfr : get s1 15 = get s 15 := step_frame B s s1 _ _ 15 hstep (by intro e; cases e) (by simp [destReg])
                simp only [step] at hstep
                injection hstep with hstep
                have hpc1 : s1.pc = offAt code endOff j := by
                  rw [indexOf_offAt hidx', ← hstep]
                  show s.pc + _ + tokVal _ rel = _
                  rw [tokVal_lit _ _ hrel', hspc, hlen]
                obtain ⟨l, hl, he⟩ := ih j L h fr s1 s' hsz1 hpc1 hrun1
                exact ⟨l, hl, by rw [he, hfr]⟩
            · cases h
        · -- add r15, n
          rename_i n
          split at h
          · cases h
          · rename_i hn
            have hn' : n < 128 := by omega
            cases hL' : pathSums code endOff (i + 1) fa with
            | none => rw [hL'] at h; cases h
            | some L' =>
              rw [hL'] at h
              simp only [Option.map] at h
              injection h with h; subst h
              have hadd := step_add_r15 B s s1 n _ hn' hsz hstep
              have hpc1 : s1.pc = offAt code endOff (i + 1) := by
                rw [hpcn (by intro c rel e; cases e) (by intro rel e; cases e), hspc, hlen]
              obtain ⟨l, hl, he⟩ := ih (i + 1) L' hL' fr s1 s' hsz1 hpc1 hrun1
              refine ⟨l + n, List.mem_map.mpr ⟨l, hl, rfl⟩, ?_⟩
              rw [he, hadd]
              omega
        · exact fallthrough (fun c rel e => by cases e) (fun rel e => by cases e) (fun n e => by cases e) L h
        · exact fallthrough (fun c rel e => by cases e) (fun rel e => by cases e) (fun n e => by cases e) L h
        · exact fallthrough (fun c rel e => by cases e) (fun rel e => by cases e) (fun n e => by cases e) L h
        · exact fallthrough (fun c rel e => by cases e) (fun rel e => by cases e) (fun n e => by cases e) L h
        · exact fallthrough (fun c rel e => by cases e) (fun rel e => by cases e) (fun n e => by cases e) L h
        · rename_i h1 h2 h3 h4 h5 h6 h7 h8
          exact fallthrough h1 h2 h3 L h

end GbVerif.X86

namespace GbVerif.X86
open GbVerif.JitCycles
variable {β : Type}

theorem mem_insertSorted (x y : Nat) : ∀ l : List Nat, y ∈ insertSorted x l ↔ y = x ∨ y ∈ l
  | [] => by simp [insertSorted]
  | z :: zs => by
    unfold insertSorted
    split
    · simp
    · split
      · rename_i h; have : x = z := by simpa using h
        subst this; simp
      · rw [List.mem_cons, mem_insertSorted x y zs]; simp only [List.mem_cons]; constructor
        · rintro (h | h | h)
          · exact Or.inr (Or.inl h)
          · exact Or.inl h
          · exact Or.inr (Or.inr h)
        · rintro (h | h | h)
          · exact Or.inr (Or.inl h)
          · exact Or.inl h
          · exact Or.inr (Or.inr h)

theorem mem_norm (y : Nat) : ∀ l : List Nat, y ∈ norm l ↔ y ∈ l
  | [] => by simp [norm]
  | x :: xs => by
    have ih := mem_norm y xs
    unfold norm at ih ⊢
    rw [List.foldr_cons, mem_insertSorted, ih]
    simp

/-- **what `jitCycles` means**: if the analysis of a template yields the set `C`, every complete execution of the template
on the x86 model adds a member of `C` to r15 -/
theorem jitCycles_sound (B : Interp.BusOps β) (tokens : List Nat) (code : List (Nat × Instr)) (C : List Nat)
    (hdec : decodeCode tokens = some code) (hok : codeOk code (bytesOf tokens) = true) (hC : jitCycles tokens = some C)
    (fr : Nat) (s s' : St β) (hsz : s.r.size = 16) (hpc : s.pc = offAt code (bytesOf tokens) 0)
    (hrun : run B code (bytesOf tokens) fr s = .ok s') :
    ∃ l ∈ C, (get s' 15).toNat = ((get s 15).toNat + l) % 2 ^ 64 := by
  unfold jitCycles at hC
  rw [hdec] at hC
  simp only [] at hC
  cases hL : pathSums code (bytesOf tokens) 0 (code.length + 2) with
  | none => rw [hL] at hC; cases hC
  | some L =>
    rw [hL] at hC
    simp only [Option.map] at hC
    injection hC with hC; subst hC
    obtain ⟨l, hl, he⟩ := pathSums_sound B code (bytesOf tokens) hok _ 0 L hL fr s s' hsz hpc hrun
    exact ⟨l, (mem_norm l L).mpr hl, he⟩

end GbVerif.X86
