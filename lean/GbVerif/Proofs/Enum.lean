/-!
Kernel-friendly exhaustive enumeration of `[lo, lo + 2^d)` by binary splitting
(recursion depth `d`, no deep recursion in the kernel), with its soundness lemma.
-/
namespace GbVerif.Enum

def allRange (p : Nat → Bool) : (d : Nat) → (lo : Nat) → Bool
  | 0, lo => p lo
  | d+1, lo => allRange p d lo && allRange p d (lo + 2^d)

theorem allRange_sound (p : Nat → Bool) : ∀ d lo, allRange p d lo = true → ∀ i, lo ≤ i → i < lo + 2^d → p i = true
  | 0, lo, h, i, h1, h2 => by
    have : i = lo := by simp at h2; omega
    subst this; exact h
  | d+1, lo, h, i, h1, h2 => by
    simp only [allRange, Bool.and_eq_true] at h
    by_cases hi : i < lo + 2^d
    · exact allRange_sound p d lo h.1 i h1 hi
    · exact allRange_sound p d (lo + 2^d) h.2 i (by omega) (by rw [Nat.pow_succ] at h2; omega)

/-- `∀ i < 2^d, p i` from one kernel evaluation -/
theorem forall_lt_of_allRange (p : Nat → Bool) (d : Nat) (h : allRange p d 0 = true) :
    ∀ i, i < 2^d → p i = true :=
  fun i hi => allRange_sound p d 0 h i (Nat.zero_le _) (by omega)

end GbVerif.Enum

namespace GbVerif.Enum

/-- Prop-valued binary splitting: `PTree P d lo` is the conjunction of `P i` for `i ∈ [lo, lo + 2^d)`.
Useful when `P i` quantifies over further (symbolic) variables and each instance closes by `rfl`/`simp`. -/
def PTree (P : Nat → Prop) : Nat → Nat → Prop
  | 0, lo => P lo
  | d+1, lo => PTree P d lo ∧ PTree P d (lo + 2^d)

theorem ptree_sound (P : Nat → Prop) : ∀ d lo, PTree P d lo → ∀ i, lo ≤ i → i < lo + 2^d → P i
  | 0, lo, h, i, h1, h2 => by
    have : i = lo := by simp at h2; omega
    subst this; exact h
  | d+1, lo, h, i, h1, h2 => by
    by_cases hi : i < lo + 2^d
    · exact ptree_sound P d lo h.1 i h1 hi
    · exact ptree_sound P d (lo + 2^d) h.2 i (by omega) (by rw [Nat.pow_succ] at h2; omega)

theorem forall_lt_of_ptree (P : Nat → Prop) (d : Nat) (h : PTree P d 0) : ∀ i, i < 2^d → P i :=
  fun i hi => ptree_sound P d 0 h i (Nat.zero_le _) (by omega)

end GbVerif.Enum
