/-!
Kernel-friendly exhaustive enumeration of `[lo, lo + 2^d)` by binary splitting
(recursion depth `d`, no deep recursion in the kernel), with its soundness lemma.
-/
namespace GbVerif.Enum

def allRange (p : Nat → Bool) : (d : Nat) → (lo : Nat) → Bool
  | 0, lo => p lo
  | d+1, lo => allRange p d lo && allRange p d (lo + 2^d)

theorem allRange_sound (p : Nat → Bool) : ∀ d lo, allRange p d lo = true → ∀ i, lo ≤ i → i < lo + 2^d → p i = true
  | 0, lo, h, i, h1, h2 => by
    have : i = lo := by simp at h2; omega
    subst this; exact h
  | d+1, lo, h, i, h1, h2 => by
    simp only [allRange, Bool.and_eq_true] at h
    by_cases hi : i < lo + 2^d
    · exact allRange_sound p d lo h.1 i h1 hi
    · exact allRange_sound p d (lo + 2^d) h.2 i (by omega) (by rw [Nat.pow_succ] at h2; omega)

/-- `∀ i < 2^d, p i` from one kernel evaluation -/
theorem forall_lt_of_allRange (p : Nat → Bool) (d : Nat) (h : allRange p d 0 = true) :
    ∀ i, i < 2^d → p i = true :=
  fun i hi => allRange_sound p d 0 h i (Nat.zero_le _) (by omega)

end GbVerif.Enum
