import GbVerif.Model.Tile
import GbVerif.Spec.Bits
import GbVerif.Proofs.Enum
/-!
C15 stage (i), the heavy enumeration: `tile::interleave` (64-bit multiply trick) equals the bit
interleave of its two arguments, for all 2^16 (low, high) pairs, evaluated by the kernel.
-/
namespace GbVerif.PpuBits
open GbVerif.Ppu GbVerif.FrameSpec GbVerif.Enum

/-- two-bit digit `k` of the interleave: bit `k` of `low` + 2 × bit `k` of `high` -/
def digit (low high k : Nat) : Nat := bit low k + 2 * bit high k

/-- bit interleave of two bytes (bit `2k` = bit `k` of `low`, bit `2k+1` = bit `k` of `high`),
written as a base-4 number -/
def interleaveBits (low high : Nat) : Nat :=
  digit low high 0 + 4 * digit low high 1 + 16 * digit low high 2 + 64 * digit low high 3 +
  256 * digit low high 4 + 1024 * digit low high 5 + 4096 * digit low high 6 + 16384 * digit low high 7

def interleaveCheck (n : Nat) : Bool := interleave (n % 256) (n / 256) == interleaveBits (n % 256) (n / 256)

theorem interleave_all : allRange interleaveCheck 16 0 = true := by decide +kernel

end GbVerif.PpuBits
