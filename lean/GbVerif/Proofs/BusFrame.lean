import GbVerif.Proofs.BusDma
/-!
Store/load and frame lemmas for the bus model: a write into one RAM region is read back at its address and is
seen at no other address of the 64 KiB space (one lemma per region; the OAM case is in `BusDma.lean`).
-/
namespace GbVerif.BusProofs
open GbVerif.Bus

/-- `rcases regions a ha`, then rewrite both sides of every goal with the ladder lemma of its region -/
syntax "frame_cases " term:max term:max term:max term:max : tactic
macro_rules
  | `(tactic| frame_cases $s' $s $a $ha) => `(tactic|
    (rcases regions $a $ha with h | ⟨h1, h2⟩ | ⟨h1, h2⟩ | ⟨h1, h2⟩ | ⟨h1, h2⟩ | ⟨h1, h2⟩ | ⟨h1, h2⟩ | ⟨h1, h2⟩ | ⟨h1, h2⟩ | ⟨h1, h2⟩ | h
     all_goals first
      | (exfalso; omega)
      | (by_cases hd : $a < 0xd000 <;> read_both $s' $s $a)
      | read_both $s' $s $a))

theorem wf_set_vram {s : State} (wf : WF s) (x : Array Nat) (hx : x.size = s.vram.size) : WF { s with vram := x } :=
  ⟨hx.trans wf.1, wf.2, wf.3, wf.4, wf.5, wf.6⟩
theorem wf_set_wram {s : State} (wf : WF s) (x : Array Nat) (hx : x.size = s.wram.size) : WF { s with wram := x } :=
  ⟨wf.1, hx.trans wf.2, wf.3, wf.4, wf.5, wf.6⟩
theorem wf_set_hram {s : State} (wf : WF s) (x : Array Nat) (hx : x.size = s.hram.size) : WF { s with hram := x } :=
  ⟨wf.1, wf.2, wf.3, hx.trans wf.4, wf.5, wf.6⟩
theorem wf_set_cram {s : State} (wf : WF s) (x : Array Nat) : WF { s with cram := x } :=
  ⟨wf.1, wf.2, wf.3, wf.4, wf.5, wf.6⟩
theorem wf_set_io {s : State} (wf : WF s) (x : Io) : WF { s with io := x } :=
  ⟨wf.1, wf.2, wf.3, wf.4, wf.5, wf.6⟩

/-! ### VRAM -/

theorem vram_write_frame {s : State} (wf : WF s) (i v : Nat) (a : Nat) (ha : a < 65536) (hne : a ≠ 0x8000 + i) :
    read { s with vram := s.vram.setIfInBounds i v } a = read s a := by
  by_cases ho : 0x8000 ≤ a ∧ a < 0xa000
  · have wf' : WF { s with vram := s.vram.setIfInBounds i v } := wf_set_vram wf _ (by simp)
    rw [read_vram_wf wf' ho.1 ho.2, read_vram_wf wf ho.1 ho.2]
    show Except.ok ((s.vram.setIfInBounds i v).getD (a - 0x8000) 0) = _
    rw [getD_sib, if_neg (by omega)]
  · frame_cases ({ s with vram := s.vram.setIfInBounds i v }) s a ha

theorem vram_write_hit {s : State} (wf : WF s) (i v : Nat) (hi : i < 0x2000) :
    read { s with vram := s.vram.setIfInBounds i v } (0x8000 + i) = .ok v := by
  have wf' : WF { s with vram := s.vram.setIfInBounds i v } := wf_set_vram wf _ (by simp)
  rw [read_vram_wf wf' (by omega) (by omega)]
  show Except.ok ((s.vram.setIfInBounds i v).getD (0x8000 + i - 0x8000) 0) = _
  rw [getD_sib, if_pos ⟨by omega, by rw [wf.vram]; omega⟩]

/-! ### WRAM -/

theorem wram_write_frame {s : State} (wf : WF s) (i v : Nat) (a : Nat) (ha : a < 65536) (hne : a ≠ 0xc000 + i) :
    read { s with wram := s.wram.setIfInBounds i v } a = read s a := by
  by_cases ho : 0xc000 ≤ a ∧ a < 0xe000
  · have wf' : WF { s with wram := s.wram.setIfInBounds i v } := wf_set_wram wf _ (by simp)
    rw [read_wram_wf wf' ho.1 ho.2, read_wram_wf wf ho.1 ho.2]
    show Except.ok ((s.wram.setIfInBounds i v).getD (a - 0xc000) 0) = _
    rw [getD_sib, if_neg (by omega)]
  · frame_cases ({ s with wram := s.wram.setIfInBounds i v }) s a ha

theorem wram_write_hit {s : State} (wf : WF s) (i v : Nat) (hi : i < 0x2000) :
    read { s with wram := s.wram.setIfInBounds i v } (0xc000 + i) = .ok v := by
  have wf' : WF { s with wram := s.wram.setIfInBounds i v } := wf_set_wram wf _ (by simp)
  rw [read_wram_wf wf' (by omega) (by omega)]
  show Except.ok ((s.wram.setIfInBounds i v).getD (0xc000 + i - 0xc000) 0) = _
  rw [getD_sib, if_pos ⟨by omega, by rw [wf.wram]; omega⟩]

/-! ### HRAM -/

theorem hram_write_frame {s : State} (wf : WF s) (i v : Nat) (a : Nat) (ha : a < 65536) (hne : a ≠ 0xff80 + i) :
    read { s with hram := s.hram.setIfInBounds i v } a = read s a := by
  by_cases ho : 0xff80 ≤ a ∧ a < 0xffff
  · have wf' : WF { s with hram := s.hram.setIfInBounds i v } := wf_set_hram wf _ (by simp)
    rw [read_hram_wf wf' ho.1 ho.2, read_hram_wf wf ho.1 ho.2]
    show Except.ok ((s.hram.setIfInBounds i v).getD (a - 0xff80) 0) = _
    rw [getD_sib, if_neg (by omega)]
  · frame_cases ({ s with hram := s.hram.setIfInBounds i v }) s a ha

theorem hram_write_hit {s : State} (wf : WF s) (i v : Nat) (hi : i < 127) :
    read { s with hram := s.hram.setIfInBounds i v } (0xff80 + i) = .ok v := by
  have wf' : WF { s with hram := s.hram.setIfInBounds i v } := wf_set_hram wf _ (by simp)
  rw [read_hram_wf wf' (by omega) (by omega)]
  show Except.ok ((s.hram.setIfInBounds i v).getD (0xff80 + i - 0xff80) 0) = _
  rw [getD_sib, if_pos ⟨by omega, by rw [wf.hram]; omega⟩]

/-! ### cartridge RAM (address → index through the current RAM bank) -/

theorem cram_write_frame {s : State} (wf : WF s) (a0 v : Nat) (h0 : 0xa000 ≤ a0 ∧ a0 < 0xc000)
    (a : Nat) (ha : a < 65536) (hne : a ≠ a0) :
    read { s with cram := s.cram.setIfInBounds (s.cramIdx a0) v } a = read s a := by
  by_cases ho : 0xa000 ≤ a ∧ a < 0xc000
  · have wf' : WF { s with cram := s.cram.setIfInBounds (s.cramIdx a0) v } := wf_set_cram wf _
    rw [read_cram_wf wf' ho.1 ho.2, read_cram_wf wf ho.1 ho.2]
    show Except.ok (if s.cramIdx a < (s.cram.setIfInBounds (s.cramIdx a0) v).size
      then (s.cram.setIfInBounds (s.cramIdx a0) v).getD (s.cramIdx a) 0 else 0xff) = _
    have hidx : ¬ (s.cramIdx a0 = s.cramIdx a ∧ s.cramIdx a0 < s.cram.size) := by
      simp only [State.cramIdx]; omega
    rw [Array.size_setIfInBounds, getD_sib, if_neg hidx]
  · frame_cases ({ s with cram := s.cram.setIfInBounds (s.cramIdx a0) v }) s a ha

theorem cram_write_hit {s : State} (wf : WF s) (a0 v : Nat) (h0 : 0xa000 ≤ a0 ∧ a0 < 0xc000)
    (hi : s.cramIdx a0 < s.cram.size) :
    read { s with cram := s.cram.setIfInBounds (s.cramIdx a0) v } a0 = .ok v := by
  have wf' : WF { s with cram := s.cram.setIfInBounds (s.cramIdx a0) v } := wf_set_cram wf _
  rw [read_cram_wf wf' h0.1 h0.2]
  show Except.ok (if s.cramIdx a0 < (s.cram.setIfInBounds (s.cramIdx a0) v).size
      then (s.cram.setIfInBounds (s.cramIdx a0) v).getD (s.cramIdx a0) 0 else 0xff) = _
  rw [Array.size_setIfInBounds, if_pos hi, getD_sib, if_pos ⟨rfl, hi⟩]

/-! ### IE -/

theorem getByte_set_ie (io : Io) (x y a : Nat) : Io.getByte { io with ie := x, ieUpper := y } a = Io.getByte io a := by
  unfold Io.getByte; split <;> rfl

theorem ie_write_frame {s : State} (x y : Nat) (a : Nat) (ha : a < 65536) (hne : a ≠ 0xffff) :
    read { s with io := { s.io with ie := x, ieUpper := y } } a = read s a := by
  by_cases ho : 0xff00 ≤ a ∧ a < 0xff80
  · rw [read_io _ _ ho.1 ho.2, read_io _ _ ho.1 ho.2]
    show (if (a == 0xff46) = true then Except.ok s.dmaReg else Except.ok (Io.getByte { s.io with ie := x, ieUpper := y } a)) = _
    rw [getByte_set_ie]
  · frame_cases ({ s with io := { s.io with ie := x, ieUpper := y } }) s a ha

theorem and_1f_or_e0 (v : Nat) (hv : v < 256) : (v &&& 0x1f) ||| (v &&& 0xe0) = v := by
  rw [← Nat.and_or_distrib_left]
  exact (Nat.and_two_pow_sub_one_eq_mod v 8).trans (Nat.mod_eq_of_lt hv)

/-! ### ROM area writes (controller registers) and ROM immutability -/

/-- a write below 0x8000 changes only the controller registers: every address outside the two banked windows
reads as before -/
theorem rom_write_frame {s : State} (c : Cart.State) (a : Nat) (ha : a < 65536)
    (hout : ¬ (0x4000 ≤ a ∧ a < 0x8000) ∧ ¬ (0xa000 ≤ a ∧ a < 0xc000)) :
    read { s with cart := c } a = read s a := by
  frame_cases ({ s with cart := c }) s a ha

/-- no write of any kind changes the ROM image or its length -/
theorem write_rom_fixed {s s' : State} {a v : Nat} (h : write s a v = .ok s') :
    s'.rom = s.rom ∧ s'.romLen = s.romLen := by
  by_cases c1 : a < 0x8000
  · rw [write_rom s a v c1] at h; injection h with h; subst h; exact ⟨rfl, rfl⟩
  by_cases c2 : a < 0xa000
  · rw [write_vram s a v (by omega) c2] at h; obtain ⟨x, _, rfl⟩ := wr_bind h; exact ⟨rfl, rfl⟩
  by_cases c3 : a < 0xc000
  · rw [write_cram s a v (by omega) c3] at h
    split at h
    · injection h with h; subst h; exact ⟨rfl, rfl⟩
    · split at h
      · obtain ⟨x, _, rfl⟩ := wr_bind h; exact ⟨rfl, rfl⟩
      · injection h with h; subst h; exact ⟨rfl, rfl⟩
  by_cases c4 : a < 0xd000
  · rw [write_wram0 s a v (by omega) c4] at h; obtain ⟨x, _, rfl⟩ := wr_bind h; exact ⟨rfl, rfl⟩
  by_cases c5 : a < 0xe000
  · rw [write_wramx s a v (by omega) c5] at h; obtain ⟨x, _, rfl⟩ := wr_bind h; exact ⟨rfl, rfl⟩
  by_cases c6 : a < 0xfe00
  · rw [write_echo s a v (by omega) c6] at h; injection h with h; subst h; exact ⟨rfl, rfl⟩
  by_cases c7 : a < 0xfea0
  · rw [write_oam s a v (by omega) c7] at h; obtain ⟨x, _, rfl⟩ := wr_bind h; exact ⟨rfl, rfl⟩
  by_cases c8 : a < 0xff00
  · rw [write_unused s a v (by omega) c8] at h; injection h with h; subst h; exact ⟨rfl, rfl⟩
  by_cases c9 : a < 0xff80
  · rw [write_io s a v (by omega) c9] at h
    split at h <;> (injection h with h; subst h; exact ⟨rfl, rfl⟩)
  by_cases c10 : a = 0xffff
  · rw [write_ie s a v c10] at h; injection h with h; subst h; exact ⟨rfl, rfl⟩
  · rw [write_hram s a v (by omega) c10] at h; obtain ⟨x, _, rfl⟩ := wr_bind h; exact ⟨rfl, rfl⟩

/-- a write at or above 0x8000 leaves the controller registers alone -/
theorem write_cart_fixed {s s' : State} (wf : WF s) {a v : Nat} (ha : a < 65536) (h8 : 0x8000 ≤ a)
    (h : write s a v = .ok s') : s'.cart = s.cart := by
  rcases regions a ha with h1 | ⟨h1, h2⟩ | ⟨h1, h2⟩ | ⟨h1, h2⟩ | ⟨h1, h2⟩ | ⟨h1, h2⟩ | ⟨h1, h2⟩ | ⟨h1, h2⟩ | ⟨h1, h2⟩ | ⟨h1, h2⟩ | h1
  · omega
  · omega
  · rw [write_vram_wf wf v h1 h2] at h; injection h with h; subst h; rfl
  · rw [write_cram_wf wf v h1 h2] at h; injection h with h; subst h; rfl
  · rw [write_wram_wf wf v h1 h2] at h; injection h with h; subst h; rfl
  · rw [write_echo s a v h1 h2] at h; injection h with h; subst h; rfl
  · rw [write_oam_wf wf v h1 h2] at h; injection h with h; subst h; rfl
  · rw [write_unused s a v h1 h2] at h; injection h with h; subst h; rfl
  · rw [write_io s a v h1 h2] at h; split at h <;> (injection h with h; subst h; rfl)
  · rw [write_hram_wf wf v h1 h2] at h; injection h with h; subst h; rfl
  · rw [write_ie s a v h1] at h; injection h with h; subst h; rfl

/-- reads below 0x8000 depend only on the ROM image and the controller registers -/
theorem read_rom_congr {s s' : State} (hc : s'.cart = s.cart) (hr : s'.rom = s.rom) (hl : s'.romLen = s.romLen)
    (a : Nat) (ha : a < 0x8000) : read s' a = read s a := by
  by_cases h : a < 0x4000
  · rw [read_rom0 s' a h, read_rom0 s a h, hr, hl]
  · rw [read_romx s' a (by omega) ha, read_romx s a (by omega) ha, hc, hr, hl]

end GbVerif.BusProofs
