import GbVerif.Proofs.Machine
/-!
The serial log of the whole machine only grows: no step of `Core::update` — any instruction, dispatch, the passage of
time through all devices — retracts or reorders what was already emitted (C18, both stepping modes).
-/
namespace GbVerif.SysProofs
open GbVerif GbVerif.Bus GbVerif.Core GbVerif.Interp GbVerif.CoreProofs

/-- the log `l` is an initial segment of the machine's serial output -/
def LogPrefix (l : List Nat) (b : Bus.State) : Prop := l <+: b.io.serialOut

theorem setByte_log (io : Bus.Io) (a v : Nat) : io.serialOut <+: (io.setByte a v).serialOut := by
  unfold Bus.Io.setByte
  split
  case h_3 =>
    show io.serialOut <+: (if v &&& 0x80 != 0 then io.serialOut ++ [io.sb] else io.serialOut)
    split
    · exact List.prefix_append _ _
    · exact List.prefix_refl _
  all_goals exact List.prefix_refl _

theorem write_log {s s' : Bus.State} {a v : Nat} {l : List Nat} (h : Bus.write s a v = .ok s') (hp : LogPrefix l s) : LogPrefix l s' := by
  unfold LogPrefix at *
  by_cases h46 : a = 0xff46
  · subst h46
    rw [BusProofs.write_io s 0xff46 v (by decide) (by decide)] at h
    simp only [beq_self_eq_true, if_true] at h
    injection h with h; subst h; exact hp
  · rcases write_io_effect h46 h with e | e | e
    · rw [e]; exact hp
    · rw [e]; exact hp
    · rw [e]; exact List.IsPrefix.trans hp (setByte_log _ _ _)

theorem ioRun_log {io io' : Bus.Io} {k : Nat} (h : Sys.ioRun io k = .ok io') : io'.serialOut = io.serialOut := by
  unfold Sys.ioRun at h
  split at h
  · cases h
  · cases hv : Sys.videoRun io.video k with
    | error e => rw [hv] at h; cases h
    | ok r =>
      rw [hv] at h
      simp only [bind, Except.bind, pure, Except.pure] at h
      injection h with h; subst h; rfl

theorem dmaLoop_log (source : Nat) {l : List Nat} : ∀ (n : Nat) (s : Bus.State) (off : Nat) (s' : Bus.State) (off' : Nat),
    Sys.dmaLoop s source off n = .ok (s', off') → LogPrefix l s → LogPrefix l s' := by
  intro n
  induction n with
  | zero => intro s off s' off' h hp; injection h with h; injection h with h1 _; subst h1; exact hp
  | succ n ih =>
    intro s off s' off' h hp
    rw [dmaLoop_succ] at h
    cases h1 : Bus.dmaCopyByte s source off with
    | error e => rw [h1] at h; cases h
    | ok s1 =>
      rw [h1] at h
      simp only [Except.bind] at h
      cases h2 : Sys.ioRun s1.io 4 with
      | error e => rw [h2] at h; cases h
      | ok io2 =>
        rw [h2] at h
        simp only [] at h
        have hp1 : LogPrefix l s1 := by
          unfold Bus.dmaCopyByte at h1
          obtain ⟨v, _, h1⟩ := bind_ok_elim h1
          exact write_log h1 hp
        refine ih _ _ _ _ h ?_
        unfold LogPrefix at *
        rw [ioRun_log h2]; exact hp1

theorem dev_log {b b' : Bus.State} {k : Nat} {l : List Nat} (h : Sys.dev b k = .ok b') (hp : LogPrefix l b) : LogPrefix l b' := by
  unfold Sys.dev at h
  split at h
  · obtain ⟨io, h1, h⟩ := bind_ok_elim h
    injection h with h; subst h
    unfold LogPrefix at *
    rw [ioRun_log h1]; exact hp
  · obtain ⟨⟨s1, off'⟩, h1, h⟩ := bind_ok_elim h
    simp only [] at h
    obtain ⟨io, h2, h⟩ := bind_ok_elim h
    injection h with h; subst h
    have hp1 := dmaLoop_log _ _ _ _ _ _ h1 hp
    unfold LogPrefix at *
    rw [ioRun_log h2]; exact hp1

theorem handleInterrupt_log {c c' : Core.State} {l : List Nat} (h : handleInterrupt c = .ok c') (hp : LogPrefix l c.bus) :
    LogPrefix l c'.bus := by
  unfold handleInterrupt at h
  split at h
  · injection h with h; subst h; exact hp
  · simp only [] at h
    split at h
    · injection h with h; subst h; exact hp
    · obtain ⟨b1, h1, h⟩ := bind_ok_elim h
      obtain ⟨b2, h2, h⟩ := bind_ok_elim h
      injection h with h; subst h
      have := write_log h2 (write_log h1 hp)
      exact this

theorem runNextOp_log {r r' : Regs} {s s' : Bus.State} {st : Nat} {e : Bool} {l : List Nat}
    (h : Cpu.runNextOp r s = .ok (r', s', st, e)) (hp : LogPrefix l s) : LogPrefix l s' := by
  unfold Cpu.runNextOp at h
  obtain ⟨⟨b0, b1, b2⟩, _, h⟩ := bind_ok_elim h
  simp only [] at h
  generalize Gen.decode b0 b1 b2 = d at h
  obtain ⟨op, len, clocks⟩ := d
  simp only [] at h
  obtain ⟨⟨r1, s1, st1⟩, h1, h⟩ := bind_ok_elim h
  injection h with h; injection h with h2 h3; injection h3 with h3 h4; subst h3
  exact runOp_inv Cpu.busOps (LogPrefix l) (fun _ _ _ _ hw hq => write_log hw hq) op r s len r1 s1 st1 h1 hp

theorem runCodeBlockAux_log (start : Nat) {l : List Nat} : ∀ (fuel : Nat) (r : Regs) (s : Bus.State) (st : Nat) (r' : Regs) (s' : Bus.State) (st' : Nat),
    Cpu.runCodeBlockAux start r s st fuel = .ok (r', s', st') → LogPrefix l s → LogPrefix l s' := by
  intro fuel
  induction fuel with
  | zero => intro r s st r' s' st' h _; cases h
  | succ n ih =>
    intro r s st r' s' st' h hp
    rw [Cpu.runCodeBlockAux] at h
    split at h
    · injection h with h; injection h with h1 h2; injection h2 with h2 h3; subst h2; exact hp
    · obtain ⟨⟨r1, s1, st1, stop⟩, h1, h⟩ := bind_ok_elim h
      have hp1 := runNextOp_log h1 hp
      simp only [] at h
      split at h
      · injection h with h; injection h with h2 h3; injection h3 with h3 h4; subst h3; exact hp1
      · exact ih _ _ _ _ _ _ h hp1

theorem catchUp_log {c c' : Core.State} {record : Bool} {l : List Nat} (h : catchUp Sys.dev c record = .ok c') (hp : LogPrefix l c.bus) :
    LogPrefix l c'.bus := by
  rw [catchUp_eq] at h
  obtain ⟨bus, h1, h⟩ := bind_ok_elim h
  exact handleInterrupt_log (c := sampled c bus record) h (dev_log h1 hp)

/-- **the serial log only grows**, instruction-stepped -/
theorem update_log {c c' : Core.State} (h : update Sys.dev c = .ok c') : c.bus.io.serialOut <+: c'.bus.io.serialOut := by
  have hp : LogPrefix c.bus.io.serialOut c.bus := List.prefix_refl _
  by_cases hr : c.run = .Run
  · rw [update_run _ _ hr, runInterp_eq] at h
    obtain ⟨⟨r, b, st, e⟩, h1, h⟩ := bind_ok_elim h
    exact catchUp_log (c := afterOp c r b st) h (runNextOp_log h1 hp)
  · rw [update_halted _ _ hr] at h
    obtain ⟨bus, h1, h⟩ := bind_ok_elim h
    exact handleInterrupt_log (c := sampledHalted c bus) h (dev_log h1 hp)

/-- … and block-stepped -/
theorem updateBlock_log {c c' : Core.State} (h : updateBlock Sys.dev c = .ok c') : c.bus.io.serialOut <+: c'.bus.io.serialOut := by
  have hp : LogPrefix c.bus.io.serialOut c.bus := List.prefix_refl _
  unfold updateBlock at h
  split at h
  · rw [runCodeBlockInterp_eq] at h
    obtain ⟨⟨r, b, st⟩, h1, h⟩ := bind_ok_elim h
    exact catchUp_log (c := afterBlock c r b st) h (runCodeBlockAux_log _ _ _ _ _ _ _ _ h1 hp)
  · exact update_log h

end GbVerif.SysProofs
