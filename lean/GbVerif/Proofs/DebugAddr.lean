import GbVerif.Model.Debug
import GbVerif.Spec.Debug
/-!
Lemmas for C20, address part: the model's `parse_address` computes the spec's `address?` of the trimmed token;
digit strings (any leading zeros, any letter case) parse to their positional value iff it is below 65536;
`Nat.toDigits` renderings are such digit strings.
-/
namespace GbVerif.DebugAddr
open GbVerif.Debug GbVerif.DebugSpec

/-! ### chars -/

theorem char_eq_ofNat (c : Char) : c = Char.ofNat c.toNat := (Char.ofNat_toNat c).symm

theorem indexIn_mem {c : Char} {l : List Char} {i : Nat} (h : indexIn c l = some i) : c ∈ l := by
  induction l generalizing i with
  | nil => simp [indexIn] at h
  | cons d ds ih =>
    simp only [indexIn] at h
    split at h
    · simp [*]
    · cases h' : indexIn c ds with
      | none => simp [h'] at h
      | some j => exact List.mem_cons_of_mem _ (ih h')

theorem indexIn_none_of_not_mem {c : Char} {l : List Char} (h : c ∉ l) : indexIn c l = none := by
  induction l with
  | nil => rfl
  | cons d ds ih =>
    simp only [List.mem_cons, not_or] at h
    simp [indexIn, h.1, ih h.2]

/-- model digit = spec digit on the 128 ASCII chars (kernel enumeration) -/
theorem digit_ascii : ∀ n, n < 128 →
    (digitVal 10 (Char.ofNat n) = digit? 10 (Char.ofNat n) ∧ digitVal 16 (Char.ofNat n) = digit? 16 (Char.ofNat n)) := by
  decide +kernel

theorem digit_mem_ascii : ∀ c ∈ digitChars ++ digitCharsUpper, c.toNat < 128 := by decide

theorem digit?_none_of_ge (radix : Nat) (c : Char) (h : 128 ≤ c.toNat) : digit? radix c = none := by
  have h1 : c ∉ digitChars := fun hm => by
    have := digit_mem_ascii c (List.mem_append_left _ hm); omega
  have h2 : c ∉ digitCharsUpper := fun hm => by
    have := digit_mem_ascii c (List.mem_append_right _ hm); omega
  simp [digit?, digitIndex, indexIn_none_of_not_mem h1, indexIn_none_of_not_mem h2]

theorem digitVal_none_of_ge (radix : Nat) (c : Char) (h : 128 ≤ c.toNat) : digitVal radix c = none := by
  unfold digitVal
  simp only
  rw [if_neg (by omega), if_neg (by omega), if_neg (by omega)]

/-- the model's `to_digit` is the spec's digit for every char (radix 10 and 16) -/
theorem digitVal_eq (c : Char) : digitVal 10 c = digit? 10 c ∧ digitVal 16 c = digit? 16 c := by
  by_cases h : c.toNat < 128
  · have := digit_ascii c.toNat h
    rwa [← char_eq_ofNat] at this
  · simp [digitVal_none_of_ge _ c (by omega), digit?_none_of_ge _ c (by omega)]

theorem digitVal_eq' {radix : Nat} (hr : radix = 10 ∨ radix = 16) (c : Char) : digitVal radix c = digit? radix c := by
  rcases hr with rfl | rfl
  · exact (digitVal_eq c).1
  · exact (digitVal_eq c).2

theorem digit?_mem {radix : Nat} {c : Char} {d : Nat} (h : digit? radix c = some d) :
    c ∈ digitChars ++ digitCharsUpper := by
  unfold digit? digitIndex at h
  cases h1 : indexIn c digitChars with
  | some i => exact List.mem_append_left _ (indexIn_mem h1)
  | none =>
    cases h2 : indexIn c digitCharsUpper with
    | some i => exact List.mem_append_right _ (indexIn_mem h2)
    | none => simp [h1, h2] at h

theorem digit?_lt {radix : Nat} {c : Char} {d : Nat} (h : digit? radix c = some d) : d < radix := by
  unfold digit? at h
  split at h
  · split at h
    · cases h; assumption
    · cases h
  · cases h

/-- a digit of radix 10 is the same digit in radix 16 -/
theorem digit?_10_16 {c : Char} {d : Nat} (h : digit? 10 c = some d) : digit? 16 c = some d := by
  have hd := digit?_lt h
  unfold digit? at h ⊢
  cases hi : digitIndex c with
  | none => simp [hi] at h
  | some d' =>
    simp only [hi] at h ⊢
    split at h
    · cases h; rw [if_pos (by omega)]
    · cases h

theorem digit_not_white_aux : ∀ c ∈ digitChars ++ digitCharsUpper ++ ['+', '-', 'x'],
    c.toNat < 128 ∧ (c.toNat == 32 || (9 ≤ c.toNat && c.toNat ≤ 13)) = false := by decide

theorem not_white_of_mem {E : Env} (hE : E.AsciiOk) {c : Char}
    (h : c ∈ digitChars ++ digitCharsUpper ++ ['+', '-', 'x']) : E.isWhite c = false := by
  have := digit_not_white_aux c h
  rw [hE.white c this.1, this.2]

theorem digit_not_white {E : Env} (hE : E.AsciiOk) {radix : Nat} {c : Char} {d : Nat}
    (h : digit? radix c = some d) : E.isWhite c = false :=
  not_white_of_mem hE (List.mem_append_left _ (digit?_mem h))

/-! ### positional value -/

theorem valueOf_append (radix : Nat) (xs ys : List Nat) :
    valueOf radix (xs ++ ys) = valueOf radix xs * radix ^ ys.length + valueOf radix ys := by
  induction xs with
  | nil => simp [valueOf]
  | cons x xs ih =>
    simp only [List.cons_append, valueOf, ih, List.length_append, Nat.pow_add, Nat.add_mul, Nat.mul_assoc]
    omega

theorem valueOf_replicate_zero (radix z : Nat) : valueOf radix (List.replicate z 0) = 0 := by
  induction z with
  | zero => rfl
  | succ z ih => simp [List.replicate_succ, valueOf, ih]

theorem digits?_append (radix : Nat) (xs ys : List Char) :
    digits? radix (xs ++ ys) =
      match digits? radix xs, digits? radix ys with
      | some a, some b => some (a ++ b)
      | _, _ => none := by
  induction xs with
  | nil => cases h : digits? radix ys <;> simp [digits?, h]
  | cons x xs ih =>
    simp only [List.cons_append, digits?, ih]
    cases digit? radix x <;> cases digits? radix xs <;> cases digits? radix ys <;> simp

theorem digits?_length {radix : Nat} {cs : List Char} {ds : List Nat} (h : digits? radix cs = some ds) :
    ds.length = cs.length := by
  induction cs generalizing ds with
  | nil => simp [digits?] at h; simp [← h]
  | cons c cs ih =>
    simp only [digits?] at h
    cases h1 : digit? radix c <;> cases h2 : digits? radix cs <;> simp [h1, h2] at h
    subst h; simp [ih h2]

theorem digits?_mem {radix : Nat} {cs : List Char} {ds : List Nat} (h : digits? radix cs = some ds) :
    ∀ c ∈ cs, ∃ d, digit? radix c = some d := by
  induction cs generalizing ds with
  | nil => simp
  | cons c cs ih =>
    simp only [digits?] at h
    cases h1 : digit? radix c <;> cases h2 : digits? radix cs <;> simp [h1, h2] at h
    intro c' hc'
    rcases List.mem_cons.mp hc' with rfl | hm
    · exact ⟨_, h1⟩
    · exact ih h2 c' hm

theorem digits?_none_of_mem {radix : Nat} {cs : List Char} {c : Char} (hc : c ∈ cs) (h : digit? radix c = none) :
    digits? radix cs = none := by
  cases h' : digits? radix cs with
  | none => rfl
  | some ds => obtain ⟨d, hd⟩ := digits?_mem h' c hc; rw [h] at hd; cases hd

/-! ### the digit loop -/

theorem acc_le_value (radix : Nat) (hr : 1 ≤ radix) (acc : Nat) (ds : List Nat) :
    acc ≤ acc * radix ^ ds.length + valueOf radix ds := by
  have : 1 ≤ radix ^ ds.length := Nat.pow_pos hr
  calc acc = acc * 1 := (Nat.mul_one _).symm
    _ ≤ acc * radix ^ ds.length := Nat.mul_le_mul_left _ this
    _ ≤ _ := Nat.le_add_right _ _

/-- `from_str_radix`'s loop on a string of digits: the positional value if it fits 16 bits -/
theorem digitsLoop_digits {radix : Nat} (hr : radix = 10 ∨ radix = 16) :
    ∀ (cs : List Char) (ds : List Nat) (acc : Nat), digits? radix cs = some ds → acc ≤ 65535 →
      digitsLoop radix cs acc =
        (if acc * radix ^ ds.length + valueOf radix ds ≤ 65535 then some (acc * radix ^ ds.length + valueOf radix ds)
         else none) := by
  have hr1 : 1 ≤ radix := by rcases hr with rfl | rfl <;> decide
  intro cs
  induction cs with
  | nil =>
    intro ds acc h hacc
    simp [digits?] at h
    subst h
    simp [digitsLoop, valueOf, hacc]
  | cons c cs ih =>
    intro ds acc h hacc
    simp only [digits?] at h
    cases h1 : digit? radix c <;> cases h2 : digits? radix cs <;> simp [h1, h2] at h
    rename_i d ds'
    subst h
    have hlen : (d :: ds').length = ds'.length + 1 := rfl
    have hval : acc * radix ^ (d :: ds').length + valueOf radix (d :: ds')
        = (acc * radix + d) * radix ^ ds'.length + valueOf radix ds' := by
      simp only [hlen, valueOf, Nat.pow_succ, Nat.add_mul]
      rw [Nat.mul_comm (radix ^ ds'.length) radix, Nat.mul_assoc]
      omega
    rw [hval]
    have hge := acc_le_value radix hr1 (acc * radix + d) ds'
    simp only [digitsLoop, digitVal_eq' hr, h1]
    by_cases ho1 : acc * radix > 65535
    · rw [if_pos ho1, if_neg (by omega)]
    · rw [if_neg ho1]
      by_cases ho2 : acc * radix + d > 65535
      · rw [if_pos ho2, if_neg (by omega)]
      · rw [if_neg ho2]
        exact ih ds' _ h2 (by omega)

theorem digitsLoop_none_of_digits {radix : Nat} (hr : radix = 10 ∨ radix = 16) :
    ∀ (cs : List Char) (acc : Nat), digits? radix cs = none → digitsLoop radix cs acc = none := by
  intro cs
  induction cs with
  | nil => intro acc h; simp [digits?] at h
  | cons c cs ih =>
    intro acc h
    simp only [digitsLoop, digitVal_eq' hr]
    cases h1 : digit? radix c with
    | none => rfl
    | some d =>
      simp only
      split
      · rfl
      · split
        · rfl
        · apply ih
          simp only [digits?, h1] at h
          cases h2 : digits? radix cs with
          | none => rfl
          | some _ => simp [h2] at h

local notation "fit" => fit16

theorem digit?_plus (radix : Nat) : digit? radix '+' = none := by
  have : digitIndex '+' = none := by decide
  simp [digit?, this]

theorem digit?_minus (radix : Nat) : digit? radix '-' = none := by
  have : digitIndex '-' = none := by decide
  simp [digit?, this]

theorem stripPlus_of_ne {c : Char} (hp : c ≠ '+') (cs : List Char) : stripPlus (c :: cs) = c :: cs := by
  unfold stripPlus
  split
  · rename_i r heq; cases heq; exact absurd rfl hp
  · rfl

/-- `from_str_radix` on a string without sign handling: digit loop from 0 = spec numeral body -/
theorem loop_eq_body {radix : Nat} (hr : radix = 10 ∨ radix = 16) (cs : List Char) :
    digitsLoop radix cs 0 = fit (match digits? radix cs with
      | some ds => some (valueOf radix ds)
      | none => none) := by
  cases h : digits? radix cs with
  | none => simp [digitsLoop_none_of_digits hr cs 0 h, fit16]
  | some ds =>
    rw [digitsLoop_digits hr cs ds 0 h (by omega)]
    simp only [Nat.zero_mul, Nat.zero_add, fit16]
    by_cases hv : valueOf radix ds ≤ 65535
    · rw [if_pos hv, if_pos (by omega)]
    · rw [if_neg hv, if_neg (by omega)]

/-- `u16::from_str_radix(s, radix).ok()` = the spec numeral, filtered to 16 bits -/
theorem parseRadix_eq {radix : Nat} (hr : radix = 10 ∨ radix = 16) (s : List Char) :
    parseRadix radix s = fit (numeral? radix s) := by
  match s with
  | [] => simp [parseRadix, numeral?, stripPlus, fit16]
  | [c] =>
    by_cases hp : c = '+'
    · subst hp; simp [parseRadix, numeral?, stripPlus, fit16]
    · by_cases hm : c = '-'
      · subst hm
        simp [parseRadix, numeral?, stripPlus, fit16, digits?, digit?_minus]
      · have : parseRadix radix [c] = digitsLoop radix [c] 0 := by simp [parseRadix, hp, hm]
        rw [this, loop_eq_body hr]
        simp only [numeral?, stripPlus_of_ne hp, List.isEmpty_cons]
        rfl
  | c :: c' :: cs =>
    by_cases hp : c = '+'
    · subst hp
      have : parseRadix radix ('+' :: c' :: cs) = digitsLoop radix (c' :: cs) 0 := by simp [parseRadix]
      rw [this, loop_eq_body hr]
      simp only [numeral?, stripPlus, List.isEmpty_cons]
      rfl
    · have : parseRadix radix (c :: c' :: cs) = digitsLoop radix (c :: c' :: cs) 0 := by simp [parseRadix, hp]
      rw [this, loop_eq_body hr]
      simp only [numeral?, stripPlus_of_ne hp, List.isEmpty_cons]
      rfl

theorem rawAddress?_eq (tok : List Char) :
    rawAddress? tok = if tok.take 2 = ['0', 'x'] then numeral? 16 (tok.drop 2) else numeral? 10 tok := by
  unfold rawAddress?
  split
  · simp
  · rename_i hne
    have : tok.take 2 ≠ ['0', 'x'] := by
      intro h
      match tok, h with
      | a :: b :: r, h =>
        simp at h
        exact hne r (by rw [h.1, h.2])
    rw [if_neg this]

theorem address?_eq (tok : List Char) :
    address? tok = if tok.take 2 = ['0', 'x'] then fit (numeral? 16 (tok.drop 2)) else fit (numeral? 10 tok) := by
  unfold address?
  rw [rawAddress?_eq]
  split <;> rfl

/-- **`parse_address` computes the spec address of the trimmed token** (every token, every `Env`) -/
theorem parseAddress_eq (E : Env) (tok : List Char) : parseAddress E tok = address? (trim E tok) := by
  rw [address?_eq]
  unfold parseAddress
  simp only
  split
  · exact parseRadix_eq (Or.inr rfl) _
  · exact parseRadix_eq (Or.inl rfl) _

/-! ### trimming -/

theorem rdrop_cons (p : Char → Bool) (c : Char) (s : List Char) :
    ((c :: s).reverse.dropWhile p).reverse =
      if ((s.reverse.dropWhile p).reverse).isEmpty ∧ p c = true then [] else c :: (s.reverse.dropWhile p).reverse := by
  rw [List.reverse_cons, List.dropWhile_append]
  by_cases h : (s.reverse.dropWhile p).isEmpty
  · have h' : s.reverse.dropWhile p = [] := List.isEmpty_iff.mp h
    rw [if_pos h]
    simp only [h', List.reverse_nil, List.isEmpty_nil, true_and]
    by_cases hp : p c = true
    · simp [hp]
    · simp [hp]
  · rw [if_neg h]
    have h' : ¬ ((s.reverse.dropWhile p).reverse).isEmpty = true := by
      simpa [List.isEmpty_iff] using h
    simp [h']

/-- a string whose chars are all non-white is its own trim -/
theorem trim_id (E : Env) (s : List Char) (h : ∀ c ∈ s, E.isWhite c = false) : trim E s = s := by
  unfold trim
  have h1 : s.dropWhile E.isWhite = s := by
    cases s with
    | nil => rfl
    | cons c cs => simp [h c (List.mem_cons_self ..)]
  rw [h1]
  have h2 : s.reverse.dropWhile E.isWhite = s.reverse := by
    cases hs : s.reverse with
    | nil => rfl
    | cons c cs =>
      have : c ∈ s := by rw [← List.mem_reverse, hs]; exact List.mem_cons_self ..
      simp [h c this]
  rw [h2, List.reverse_reverse]

/-- a string of white chars trims to nothing -/
theorem trim_white (E : Env) (s : List Char) (h : ∀ c ∈ s, E.isWhite c = true) : trim E s = [] := by
  unfold trim
  have : s.dropWhile E.isWhite = [] := by
    induction s with
    | nil => rfl
    | cons c cs ih =>
      rw [List.dropWhile_cons_of_pos (h c (List.mem_cons_self ..))]
      exact ih (fun x hx => h x (List.mem_cons_of_mem _ hx))
  simp [this]

/-- trimming keeps a non-white first char in place -/
theorem trim_cons (E : Env) (c : Char) (s : List Char) (hc : E.isWhite c = false) :
    ∃ s', trim E (c :: s) = c :: s' ∧ ∀ x ∈ s', x ∈ s := by
  unfold trim
  have h1 : (c :: s).dropWhile E.isWhite = c :: s := by simp [hc]
  rw [h1, rdrop_cons]
  refine ⟨(s.reverse.dropWhile E.isWhite).reverse, ?_, ?_⟩
  · simp [hc]
  · intro x hx
    have := List.dropWhile_sublist (p := E.isWhite) (l := s.reverse)
    have hx' : x ∈ s.reverse.dropWhile E.isWhite := List.mem_reverse.mp hx
    exact List.mem_reverse.mp (this.subset hx')

/-- trimming keeps a non-empty prefix of non-white chars in place -/
theorem trim_prefix (E : Env) (p s : List Char) (hne : p ≠ []) (hp : ∀ c ∈ p, E.isWhite c = false) :
    ∃ s', trim E (p ++ s) = p ++ s' := by
  unfold trim
  have h1 : (p ++ s).dropWhile E.isWhite = p ++ s := by
    cases p with
    | nil => exact absurd rfl hne
    | cons c p' => simp [hp c (List.mem_cons_self ..)]
  rw [h1]
  clear h1
  induction p with
  | nil => exact absurd rfl hne
  | cons c p' ih =>
    have hc := hp c (List.mem_cons_self ..)
    rw [List.cons_append, rdrop_cons]
    simp only [hc, Bool.false_eq_true, and_false, if_false]
    cases p' with
    | nil => exact ⟨_, rfl⟩
    | cons c' p'' =>
      obtain ⟨s', hs'⟩ := ih (by simp) (fun x hx => hp x (List.mem_cons_of_mem _ hx))
      exact ⟨s', by rw [hs']; rfl⟩

/-- trimming only removes chars -/
theorem trim_subset (E : Env) (s : List Char) : ∀ x ∈ trim E s, x ∈ s := by
  intro x hx
  unfold trim at hx
  have h1 := (List.dropWhile_sublist (p := E.isWhite) (l := (s.dropWhile E.isWhite).reverse)).subset
    (List.mem_reverse.mp hx)
  exact (List.dropWhile_sublist (p := E.isWhite) (l := s)).subset (List.mem_reverse.mp h1)

/-! ### digit strings -/

theorem numeral?_digits {radix : Nat} {cs : List Char} {ds : List Nat} (hne : cs ≠ [])
    (h : digits? radix cs = some ds) : numeral? radix cs = some (valueOf radix ds) := by
  match cs, hne with
  | c :: cs', _ =>
    have hp : c ≠ '+' := by
      intro hp; subst hp
      obtain ⟨d, hd⟩ := digits?_mem h '+' (List.mem_cons_self ..)
      rw [digit?_plus] at hd; cases hd
    simp [numeral?, stripPlus_of_ne hp, h]

theorem x_not_digit (radix : Nat) : digit? radix 'x' = none := by
  have : digitIndex 'x' = none := by decide
  simp [digit?, this]

/-- a decimal digit string (any leading zeros) parses to its value iff that is below 65536 -/
theorem parseAddress_dec_digits {E : Env} (hE : E.AsciiOk) {cs : List Char} {ds : List Nat} (hne : cs ≠ [])
    (h : digits? 10 cs = some ds) :
    parseAddress E cs = if valueOf 10 ds < 65536 then some (valueOf 10 ds) else none := by
  have hw : ∀ c ∈ cs, E.isWhite c = false := fun c hc => by
    obtain ⟨d, hd⟩ := digits?_mem h c hc; exact digit_not_white hE hd
  rw [parseAddress_eq, trim_id E cs hw, address?_eq]
  have : cs.take 2 ≠ ['0', 'x'] := by
    intro ht
    have : 'x' ∈ cs := List.mem_of_mem_take (by rw [ht]; simp)
    obtain ⟨d, hd⟩ := digits?_mem h 'x' this
    rw [x_not_digit] at hd; cases hd
  rw [if_neg this, numeral?_digits hne h]
  rfl

/-- a hexadecimal digit string (any leading zeros, any letter case) after `0x` parses to its value iff that is below 65536 -/
theorem parseAddress_hex_digits {E : Env} (hE : E.AsciiOk) {cs : List Char} {ds : List Nat} (hne : cs ≠ [])
    (h : digits? 16 cs = some ds) :
    parseAddress E ('0' :: 'x' :: cs) = if valueOf 16 ds < 65536 then some (valueOf 16 ds) else none := by
  have hw : ∀ c ∈ '0' :: 'x' :: cs, E.isWhite c = false := fun c hc => by
    rcases List.mem_cons.mp hc with rfl | hc
    · exact not_white_of_mem hE (by decide)
    · rcases List.mem_cons.mp hc with rfl | hc
      · exact not_white_of_mem hE (by decide)
      · obtain ⟨d, hd⟩ := digits?_mem h c hc; exact digit_not_white hE hd
  rw [parseAddress_eq, trim_id E _ hw, address?_eq]
  simp only [List.take_succ_cons, List.take_zero, if_true, List.drop_succ_cons, List.drop_zero]
  rw [numeral?_digits hne h]
  rfl

/-- a numeral containing a char that is no digit of the radix, other than as its first char `+`, denotes nothing -/
theorem numeral_none (radix : Nat) (s : List Char) (c : Char) (hcs : c ∈ s) (hdc : digit? radix c = none)
    (hp : c ≠ '+') : numeral? radix s = none := by
  unfold numeral?
  have hcs' : c ∈ stripPlus s := by
    unfold stripPlus
    split
    · rename_i r
      rcases List.mem_cons.mp hcs with h | h
      · exact absurd h hp
      · exact h
    · exact hcs
  simp only
  split
  · rfl
  · rw [digits?_none_of_mem hcs' hdc]

/-! ### `Nat.toDigits` renderings are digit strings -/

theorem digit?_digitChar : ∀ d, d < 16 →
    (digit? 16 (Nat.digitChar d) = some d ∧ digit? 16 (Nat.digitChar d).toUpper = some d ∧
     (d < 10 → digit? 10 (Nat.digitChar d) = some d)) := by decide +kernel

/-- chars of `Nat.toDigits b n` under a per-char choice of letter case: digits of value `n` -/
theorem digits?_toDigits_hex (f : Char → Char) (hf : ∀ c, f c = c ∨ f c = c.toUpper) (n : Nat) :
    ∃ ds, digits? 16 ((Nat.toDigits 16 n).map f) = some ds ∧ valueOf 16 ds = n := by
  have single : ∀ d, d < 16 → digits? 16 ([Nat.digitChar d].map f) = some [d] := by
    intro d hd
    have := digit?_digitChar d hd
    rcases hf (Nat.digitChar d) with e | e <;> simp [digits?, e, this.1, this.2.1]
  induction n using Nat.base_induction 16 (by decide) with
  | single m hm =>
    rw [Nat.toDigits_of_lt_base hm]
    exact ⟨[m], single m hm, by simp [valueOf]⟩
  | digit m k hk hm ih =>
    obtain ⟨ds, h1, h2⟩ := ih
    rw [← Nat.toDigits_append_toDigits (by decide) hm hk, Nat.toDigits_of_lt_base hk, List.map_append,
      digits?_append, h1, single k hk]
    refine ⟨ds ++ [k], rfl, ?_⟩
    rw [valueOf_append, h2]
    simp [valueOf]
    omega

theorem digits?_toDigits_dec (n : Nat) :
    ∃ ds, digits? 10 (Nat.toDigits 10 n) = some ds ∧ valueOf 10 ds = n := by
  have single : ∀ d, d < 10 → digits? 10 [Nat.digitChar d] = some [d] := by
    intro d hd
    have := digit?_digitChar d (by omega)
    simp [digits?, this.2.2 hd]
  induction n using Nat.base_induction 10 (by decide) with
  | single m hm =>
    rw [Nat.toDigits_of_lt_base hm]
    exact ⟨[m], single m hm, by simp [valueOf]⟩
  | digit m k hk hm ih =>
    obtain ⟨ds, h1, h2⟩ := ih
    rw [← Nat.toDigits_append_toDigits (by decide) hm hk, Nat.toDigits_of_lt_base hk,
      digits?_append, h1, single k hk]
    refine ⟨ds ++ [k], rfl, ?_⟩
    rw [valueOf_append, h2]
    simp [valueOf]
    omega

theorem digits?_zeros (radix : Nat) (hr : 0 < radix) (z : Nat) :
    digits? radix (List.replicate z '0') = some (List.replicate z 0) := by
  have h0 : digit? radix '0' = some 0 := by
    have : digitIndex '0' = some 0 := by decide
    simp [digit?, this, hr]
  induction z with
  | zero => rfl
  | succ z ih => simp [List.replicate_succ, digits?, h0, ih]

/-- prepend leading zeros to a digit string -/
theorem digits?_zeros_append {radix : Nat} (hr : 0 < radix) (z : Nat) {cs : List Char} {ds : List Nat}
    (h : digits? radix cs = some ds) :
    ∃ ds', digits? radix (List.replicate z '0' ++ cs) = some ds' ∧ valueOf radix ds' = valueOf radix ds := by
  refine ⟨List.replicate z 0 ++ ds, ?_, ?_⟩
  · rw [digits?_append, digits?_zeros radix hr, h]
  · rw [valueOf_append, valueOf_replicate_zero]; simp

end GbVerif.DebugAddr
