/-! Small `Nat` bitwise helper lemmas (core only). -/
namespace GbVerif.NatBits

theorem and_const_mod (v c n : Nat) (hc : c < 2^n) : v &&& c = (v % 2^n) &&& c := by
  have h1 : v &&& c ≤ c := Nat.and_le_right
  have h := @Nat.and_mod_two_pow v c n
  rw [Nat.mod_eq_of_lt (by omega), Nat.mod_eq_of_lt hc] at h
  exact h

theorem testBit_mod (v i n : Nat) (h : i < n) : v.testBit i = (v % 2^n).testBit i := by
  rw [Nat.testBit_mod_two_pow]; simp [h]

theorem and16_eq_zero (v : Nat) : (v &&& 0x10 == 0) = !v.testBit 4 := by
  rw [and_const_mod v 0x10 5 (by decide), testBit_mod v 4 5 (by decide)]
  have hv : v % 2^5 < 32 := Nat.mod_lt _ (by decide)
  generalize v % 2^5 = w at hv
  revert w; decide

theorem and32_eq_zero (v : Nat) : (v &&& 0x20 == 0) = !v.testBit 5 := by
  rw [and_const_mod v 0x20 6 (by decide), testBit_mod v 5 6 (by decide)]
  have hv : v % 2^6 < 64 := Nat.mod_lt _ (by decide)
  generalize v % 2^6 = w at hv
  revert w; decide

end GbVerif.NatBits
