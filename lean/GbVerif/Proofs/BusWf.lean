import GbVerif.Proofs.BusBasic
/-!
The bus model from well-formed states: every access is defined (no reachable panic), the result of each
access in closed form (`getD` / `setIfInBounds`, no proofs inside terms), and preservation of well-formedness.
-/
namespace GbVerif.BusProofs
open GbVerif.Bus

theorem set_eq_sib (a : Array Nat) (i v : Nat) (h : i < a.size) : a.set i v h = a.setIfInBounds i v := by
  simp [Array.setIfInBounds, h]

theorem getD_sib (a : Array Nat) (i j v : Nat) :
    (a.setIfInBounds i v).getD j 0 = if i = j ∧ i < a.size then v else a.getD j 0 := by
  simp only [Array.getD_eq_getD_getElem?, Array.getElem?_setIfInBounds]
  by_cases hij : i = j
  · subst hij
    by_cases hi : i < a.size
    · simp [hi]
    · simp [hi]
  · simp [hij]

theorem sib_oob (a : Array Nat) (i v : Nat) (h : ¬ i < a.size) : a.setIfInBounds i v = a := by
  simp [Array.setIfInBounds, h]

theorem rd_getD {w : String} {a : Array Nat} {i : Nat} (h : i < a.size) : rd w a i = .ok (a.getD i 0) := by
  rw [rd_ok h]; simp [Array.getD, h]

theorem wr_sib {w : String} {a : Array Nat} {i : Nat} (v : Nat) (h : i < a.size) :
    wr w a i v = .ok (a.setIfInBounds i v) := by
  rw [wr_ok v h, set_eq_sib]

theorem wr_bind {w : String} {a : Array Nat} {i v : Nat} {f : Array Nat → State} {s' : State}
    (h : (wr w a i v >>= fun x => pure (f x)) = .ok s') : ∃ x, x.size = a.size ∧ s' = f x := by
  unfold wr at h
  by_cases hi : i < a.size
  · rw [dif_pos hi] at h
    refine ⟨a.set i v, by simp, ?_⟩
    injection h with h; exact h.symm
  · rw [dif_neg hi] at h; cases h

/-- the 13 regions of the two ladders -/
theorem regions (a : Nat) (ha : a < 65536) :
    a < 0x4000 ∨ (0x4000 ≤ a ∧ a < 0x8000) ∨ (0x8000 ≤ a ∧ a < 0xa000) ∨ (0xa000 ≤ a ∧ a < 0xc000) ∨
    (0xc000 ≤ a ∧ a < 0xe000) ∨ (0xe000 ≤ a ∧ a < 0xfe00) ∨ (0xfe00 ≤ a ∧ a < 0xfea0) ∨
    (0xfea0 ≤ a ∧ a < 0xff00) ∨ (0xff00 ≤ a ∧ a < 0xff80) ∨ (0xff80 ≤ a ∧ a < 0xffff) ∨ a = 0xffff := by
  omega

section wf
set_option linter.unusedSectionVars false
variable {s : State} (wf : WF s) {a : Nat}
include wf

/-- index of the cartridge-RAM byte behind bus address `a` (0xA000–0xBFFF) in the current banking state -/
abbrev _root_.GbVerif.Bus.State.cramIdx (s : State) (a : Nat) : Nat := 0x2000 * Cart.getRamBank s.cart + (a - 0xa000)

theorem read_rom0_wf (h : a < 0x4000) : read s a = .ok (s.rom a) := by
  have := wf.romLen; have := wf.banks
  rw [read_rom0 s a h, if_pos (by omega)]

theorem read_romx_wf (h1 : 0x4000 ≤ a) (h2 : a < 0x8000) :
    read s a = .ok (s.rom (0x4000 * Cart.getRomBank s.cart + (a - 0x4000))) := by
  have := wf.romLen; have := getRomBank_lt s.cart wf.banks
  rw [read_romx s a h1 h2, and_3fff, show a % 0x4000 = a - 0x4000 by omega, if_pos (by omega)]

theorem read_vram_wf (h1 : 0x8000 ≤ a) (h2 : a < 0xa000) : read s a = .ok (s.vram.getD (a - 0x8000) 0) := by
  rw [read_vram s a h1 h2, and_1fff, show a % 0x2000 = a - 0x8000 by omega, rd_getD (by rw [wf.vram]; omega)]

theorem read_cram_wf (h1 : 0xa000 ≤ a) (h2 : a < 0xc000) :
    read s a = .ok (if s.cramIdx a < s.cram.size then s.cram.getD (s.cramIdx a) 0 else 0xff) := by
  rw [read_cram s a h1 h2, and_1fff, show a % 0x2000 = a - 0xa000 by omega]
  simp only [State.cramIdx]
  by_cases hz : s.cram.size = 0
  · rw [if_pos (beq_eq hz), if_neg (by omega)]
  · rw [if_neg (beq_ne hz)]
    by_cases hi : 0x2000 * Cart.getRamBank s.cart + (a - 0xa000) < s.cram.size
    · rw [if_neg (by omega), rd_getD hi, if_pos hi]
    · rw [if_pos (by omega), if_neg hi]

theorem read_wram_wf (h1 : 0xc000 ≤ a) (h2 : a < 0xe000) : read s a = .ok (s.wram.getD (a - 0xc000) 0) := by
  by_cases h : a < 0xd000
  · rw [read_wram0 s a h1 h, and_fff, show a % 0x1000 = a - 0xc000 by omega, rd_getD (by rw [wf.wram]; omega)]
  · rw [read_wramx s a (by omega) h2, and_fff, show 0x1000 + a % 0x1000 = a - 0xc000 by omega,
      rd_getD (by rw [wf.wram]; omega)]

theorem read_oam_wf (h1 : 0xfe00 ≤ a) (h2 : a < 0xfea0) : read s a = .ok (s.oam.getD (a - 0xfe00) 0) := by
  rw [read_oam s a h1 h2, and_ff, show a % 0x100 = a - 0xfe00 by omega, rd_getD (by rw [wf.oam]; omega)]

theorem read_hram_wf (h1 : 0xff80 ≤ a) (h2 : a < 0xffff) : read s a = .ok (s.hram.getD (a - 0xff80) 0) := by
  rw [read_hram s a h1 (by omega), and_7f, show a % 0x80 = a - 0xff80 by omega, rd_getD (by rw [wf.hram]; omega)]

theorem write_vram_wf (v : Nat) (h1 : 0x8000 ≤ a) (h2 : a < 0xa000) :
    write s a v = .ok { s with vram := s.vram.setIfInBounds (a - 0x8000) v } := by
  rw [write_vram s a v h1 h2, and_1fff, show a % 0x2000 = a - 0x8000 by omega, wr_sib v (by rw [wf.vram]; omega)]
  rfl

theorem write_cram_wf (v : Nat) (h1 : 0xa000 ≤ a) (h2 : a < 0xc000) :
    write s a v = .ok { s with cram := s.cram.setIfInBounds (s.cramIdx a) v } := by
  rw [write_cram s a v h1 h2, and_1fff, show a % 0x2000 = a - 0xa000 by omega]
  simp only [State.cramIdx]
  by_cases hz : s.cram.size = 0
  · rw [if_pos (beq_eq hz), sib_oob _ _ _ (by omega)]
  · rw [if_neg (beq_ne hz)]
    by_cases hi : 0x2000 * Cart.getRamBank s.cart + (a - 0xa000) < s.cram.size
    · rw [if_pos hi, wr_sib v hi]; rfl
    · rw [if_neg hi, sib_oob _ _ _ hi]

theorem write_wram_wf (v : Nat) (h1 : 0xc000 ≤ a) (h2 : a < 0xe000) :
    write s a v = .ok { s with wram := s.wram.setIfInBounds (a - 0xc000) v } := by
  by_cases h : a < 0xd000
  · rw [write_wram0 s a v h1 h, and_fff, show a % 0x1000 = a - 0xc000 by omega, wr_sib v (by rw [wf.wram]; omega)]
    rfl
  · rw [write_wramx s a v (by omega) h2, and_fff, show 0x1000 + a % 0x1000 = a - 0xc000 by omega,
      wr_sib v (by rw [wf.wram]; omega)]
    rfl

theorem write_oam_wf (v : Nat) (h1 : 0xfe00 ≤ a) (h2 : a < 0xfea0) :
    write s a v = .ok { s with oam := s.oam.setIfInBounds (a - 0xfe00) v } := by
  rw [write_oam s a v h1 h2, and_ff, show a % 0x100 = a - 0xfe00 by omega, wr_sib v (by rw [wf.oam]; omega)]
  rfl

theorem write_hram_wf (v : Nat) (h1 : 0xff80 ≤ a) (h2 : a < 0xffff) :
    write s a v = .ok { s with hram := s.hram.setIfInBounds (a - 0xff80) v } := by
  rw [write_hram s a v h1 (by omega), and_7f, show a % 0x80 = a - 0xff80 by omega, wr_sib v (by rw [wf.hram]; omega)]
  rfl

/-- no read panics from a well-formed state -/
theorem read_total (ha : a < 65536) : ∃ v, read s a = .ok v := by
  rcases regions a ha with h | ⟨h1, h2⟩ | ⟨h1, h2⟩ | ⟨h1, h2⟩ | ⟨h1, h2⟩ | ⟨h1, h2⟩ | ⟨h1, h2⟩ | ⟨h1, h2⟩ | ⟨h1, h2⟩ | ⟨h1, h2⟩ | h
  · exact ⟨_, read_rom0_wf wf h⟩
  · exact ⟨_, read_romx_wf wf h1 h2⟩
  · exact ⟨_, read_vram_wf wf h1 h2⟩
  · exact ⟨_, read_cram_wf wf h1 h2⟩
  · exact ⟨_, read_wram_wf wf h1 h2⟩
  · exact ⟨_, read_echo s a h1 h2⟩
  · exact ⟨_, read_oam_wf wf h1 h2⟩
  · exact ⟨_, read_unused s a h1 h2⟩
  · rw [read_io s a h1 h2]; split <;> exact ⟨_, rfl⟩
  · exact ⟨_, read_hram_wf wf h1 h2⟩
  · exact ⟨_, read_ie s a h⟩

/-- no write panics from a well-formed state -/
theorem write_total (v : Nat) (ha : a < 65536) : ∃ s', write s a v = .ok s' := by
  rcases regions a ha with h | ⟨h1, h2⟩ | ⟨h1, h2⟩ | ⟨h1, h2⟩ | ⟨h1, h2⟩ | ⟨h1, h2⟩ | ⟨h1, h2⟩ | ⟨h1, h2⟩ | ⟨h1, h2⟩ | ⟨h1, h2⟩ | h
  · exact ⟨_, write_rom s a v (by omega)⟩
  · exact ⟨_, write_rom s a v (by omega)⟩
  · exact ⟨_, write_vram_wf wf v h1 h2⟩
  · exact ⟨_, write_cram_wf wf v h1 h2⟩
  · exact ⟨_, write_wram_wf wf v h1 h2⟩
  · exact ⟨_, write_echo s a v h1 h2⟩
  · exact ⟨_, write_oam_wf wf v h1 h2⟩
  · exact ⟨_, write_unused s a v h1 h2⟩
  · rw [write_io s a v h1 h2]; split <;> exact ⟨_, rfl⟩
  · exact ⟨_, write_hram_wf wf v h1 h2⟩
  · exact ⟨_, write_ie s a v h⟩

end wf

/-- a write that returns keeps the state well-formed (any address, any value) -/
theorem wf_write {s s' : State} (wf : WF s) {a v : Nat} (h : write s a v = .ok s') : WF s' := by
  obtain ⟨w1, w2, w3, w4, w5, w6⟩ := wf
  by_cases c1 : a < 0x8000
  · rw [write_rom s a v c1] at h; injection h with h; subst h
    have := writeRom_fixed s.cart a v
    exact ⟨w1, w2, w3, w4, by simp only [this.2.1]; exact w5, by simp only [this.2.1]; exact w6⟩
  by_cases c2 : a < 0xa000
  · rw [write_vram s a v (by omega) c2] at h
    obtain ⟨x, hx, rfl⟩ := wr_bind h; exact ⟨hx.trans w1, w2, w3, w4, w5, w6⟩
  by_cases c3 : a < 0xc000
  · rw [write_cram s a v (by omega) c3] at h
    split at h
    · injection h with h; subst h; exact ⟨w1, w2, w3, w4, w5, w6⟩
    · split at h
      · obtain ⟨x, _, rfl⟩ := wr_bind h; exact ⟨w1, w2, w3, w4, w5, w6⟩
      · injection h with h; subst h; exact ⟨w1, w2, w3, w4, w5, w6⟩
  by_cases c4 : a < 0xd000
  · rw [write_wram0 s a v (by omega) c4] at h
    obtain ⟨x, hx, rfl⟩ := wr_bind h; exact ⟨w1, hx.trans w2, w3, w4, w5, w6⟩
  by_cases c5 : a < 0xe000
  · rw [write_wramx s a v (by omega) c5] at h
    obtain ⟨x, hx, rfl⟩ := wr_bind h; exact ⟨w1, hx.trans w2, w3, w4, w5, w6⟩
  by_cases c6 : a < 0xfe00
  · rw [write_echo s a v (by omega) c6] at h; injection h with h; subst h; exact ⟨w1, w2, w3, w4, w5, w6⟩
  by_cases c7 : a < 0xfea0
  · rw [write_oam s a v (by omega) c7] at h
    obtain ⟨x, hx, rfl⟩ := wr_bind h; exact ⟨w1, w2, hx.trans w3, w4, w5, w6⟩
  by_cases c8 : a < 0xff00
  · rw [write_unused s a v (by omega) c8] at h; injection h with h; subst h; exact ⟨w1, w2, w3, w4, w5, w6⟩
  by_cases c9 : a < 0xff80
  · rw [write_io s a v (by omega) c9] at h
    split at h <;> (injection h with h; subst h; exact ⟨w1, w2, w3, w4, w5, w6⟩)
  by_cases c10 : a = 0xffff
  · rw [write_ie s a v c10] at h; injection h with h; subst h; exact ⟨w1, w2, w3, w4, w5, w6⟩
  · rw [write_hram s a v (by omega) c10] at h
    obtain ⟨x, hx, rfl⟩ := wr_bind h; exact ⟨w1, w2, w3, hx.trans w4, w5, w6⟩

theorem wf_create (k : Cart.Kind) (romBanks ramBytes : Nat) (rom : Nat → Nat) (h : 2 ≤ romBanks) :
    WF (create k romBanks ramBytes rom) :=
  ⟨by simp [create], by simp [create], by simp [create], by simp [create], rfl, h⟩

/-! ### 16-bit accesses -/

theorem readWord_total {s : State} (wf : WF s) {a : Nat} (ha : a < 65536) : ∃ v, readWord s a = .ok v := by
  obtain ⟨lo, hlo⟩ := read_total wf ha
  obtain ⟨hi, hhi⟩ := read_total wf (a := (a + 1) % 65536) (Nat.mod_lt _ (by decide))
  exact ⟨(hi <<< 8) ||| lo, by unfold readWord; rw [hlo, hhi]; rfl⟩

theorem writeWord_total {s : State} (wf : WF s) {a : Nat} (v : Nat) (ha : a < 65536) :
    ∃ s', writeWord s a v = .ok s' ∧ WF s' := by
  obtain ⟨s1, h1⟩ := write_total wf (v &&& 0xff) ha
  have wf1 := wf_write wf h1
  obtain ⟨s2, h2⟩ := write_total wf1 (v >>> 8) (a := (a + 1) % 65536) (Nat.mod_lt _ (by decide))
  exact ⟨s2, by unfold writeWord; rw [h1]; exact h2, wf_write wf1 h2⟩

/-! ### OAM DMA -/

theorem dmaCopyByte_total {s : State} (wf : WF s) (source off : Nat) (ho : off < 0xa0) :
    ∃ s', dmaCopyByte s source off = .ok s' ∧ WF s' := by
  obtain ⟨v, hv⟩ := read_total wf (a := (source + off) % 65536) (Nat.mod_lt _ (by decide))
  obtain ⟨s', hs'⟩ := write_total wf v (a := 0xfe00 + off) (by omega)
  exact ⟨s', by unfold dmaCopyByte; rw [hv]; exact hs', wf_write wf hs'⟩

theorem dmaLoop_total (source : Nat) : ∀ (n : Nat) {s : State} (_ : WF s) (off : Nat), off + n ≤ 0xa0 →
    ∃ s', dmaLoop s source off n = .ok (s', off + n) ∧ WF s'
  | 0, s, wf, off, _ => ⟨s, rfl, wf⟩
  | n+1, s, wf, off, h => by
    obtain ⟨s1, h1, wf1⟩ := dmaCopyByte_total wf source off (by omega)
    obtain ⟨s2, h2, wf2⟩ := dmaLoop_total source n wf1 (off + 1) (by omega)
    refine ⟨s2, ?_, wf2⟩
    unfold dmaLoop; rw [h1]
    rw [show off + (n + 1) = off + 1 + n by omega]; exact h2

theorem runDma_total {s : State} (wf : WF s) (clocks : Nat) : ∃ s', runDma s clocks = .ok s' ∧ WF s' := by
  unfold runDma
  cases hd : s.dma with
  | none => exact ⟨s, rfl, wf⟩
  | some p =>
    obtain ⟨source, off⟩ := p
    by_cases ho : off ≤ 0xa0
    · obtain ⟨s1, h1, wf1⟩ := dmaLoop_total source (min (0xa0 - off) (clocks / 4)) wf off (by omega)
      simp only [h1]
      exact ⟨_, rfl, ⟨wf1.1, wf1.2, wf1.3, wf1.4, wf1.5, wf1.6⟩⟩
    · have hz : min (0xa0 - off) (clocks / 4) = 0 := by omega
      simp only [hz, dmaLoop]
      exact ⟨_, rfl, ⟨wf.1, wf.2, wf.3, wf.4, wf.5, wf.6⟩⟩

end GbVerif.BusProofs
