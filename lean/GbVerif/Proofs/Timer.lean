import GbVerif.Model.Timer
import GbVerif.Proofs.TimerBits
/-!
Timer model, part 1: the deferred `&= 0xffff`, the per-clock normal form of `run_cycles`, batching.

`run n s` (the code: fast path when disabled, unmasked loop + one final mask when enabled) is shown equal to
`n` iterations of one *normalised* clock `clock`, provided `timer_clock_mask < 2^16` (part of the
invariant).  Batching invariance `run (a+b) = run b ∘ run a` follows.
-/
namespace GbVerif.Timer
open GbVerif.TimerBits

/-- what the final `cycle_count &= 0xffff` does -/
def norm (s : State) : State := { s with cycleCount := s.cycleCount % 65536 }

/-- one clock in normal form: what `run 1` does -/
def clock (s : State) : State × Bool :=
  if s.enabledMask == 0 then ({ s with cycleCount := (s.cycleCount + 1) % 65536 }, false)
  else let r := tick s; (norm r.1, r.2)

/-- `n` clocks, flags OR-ed -/
def clocks : Nat → State → State × Bool
  | 0, s => (s, false)
  | n + 1, s => let r := clock s; let q := clocks n r.1; (q.1, r.2 || q.2)

/-- sequential composition of two flag-returning steps -/
def seq (r : State × Bool) (g : State → State × Bool) : State × Bool := ((g r.1).1, r.2 || (g r.1).2)

/-! ### frame: what `incrementCounter`, `tick`, `clock`, `run` leave alone -/

theorem incrementCounter_frame (s : State) :
    (incrementCounter s).1.cycleCount = s.cycleCount ∧ (incrementCounter s).1.modulo = s.modulo ∧
    (incrementCounter s).1.enabledMask = s.enabledMask ∧ (incrementCounter s).1.timerClockMask = s.timerClockMask ∧
    (incrementCounter s).1.controlValue = s.controlValue := by
  unfold incrementCounter; split <;> simp

theorem incrementCounter_cc (s : State) (c : Nat) :
    incrementCounter { s with cycleCount := c } =
      ({ (incrementCounter s).1 with cycleCount := c }, (incrementCounter s).2) := by
  unfold incrementCounter; split <;> rfl

theorem norm_incrementCounter (s : State) :
    norm (incrementCounter s).1 = (incrementCounter (norm s)).1 ∧ (incrementCounter s).2 = (incrementCounter (norm s)).2 := by
  unfold incrementCounter norm; split <;> simp_all

theorem tick_eq (s : State) : tick s =
    if (s.cycleCount &&& s.timerClockMask != 0 && (s.cycleCount + 1) &&& s.timerClockMask == 0) = true
    then incrementCounter { s with cycleCount := s.cycleCount + 1 }
    else ({ s with cycleCount := s.cycleCount + 1 }, false) := rfl

theorem tick_frame (s : State) :
    (tick s).1.cycleCount = s.cycleCount + 1 ∧ (tick s).1.modulo = s.modulo ∧
    (tick s).1.enabledMask = s.enabledMask ∧ (tick s).1.timerClockMask = s.timerClockMask ∧
    (tick s).1.controlValue = s.controlValue := by
  rw [tick_eq]
  split
  · have := incrementCounter_frame { s with cycleCount := s.cycleCount + 1 }
    simpa using this
  · simp

theorem clock_frame (s : State) :
    (clock s).1.cycleCount = (s.cycleCount + 1) % 65536 ∧ (clock s).1.modulo = s.modulo ∧
    (clock s).1.enabledMask = s.enabledMask ∧ (clock s).1.timerClockMask = s.timerClockMask ∧
    (clock s).1.controlValue = s.controlValue := by
  unfold clock
  split
  · simp
  · have := tick_frame s
    simp [norm, this]

theorem clocks_frame : ∀ (n : Nat) (s : State),
    (s.cycleCount < 65536 → (clocks n s).1.cycleCount = (s.cycleCount + n) % 65536) ∧
    (clocks n s).1.modulo = s.modulo ∧
    (clocks n s).1.enabledMask = s.enabledMask ∧ (clocks n s).1.timerClockMask = s.timerClockMask ∧
    (clocks n s).1.controlValue = s.controlValue
  | 0, s => by
    simp only [clocks, Nat.add_zero, and_self, and_true]
    intro h; exact (Nat.mod_eq_of_lt h).symm
  | n + 1, s => by
    have h1 := clock_frame s
    have h2 := clocks_frame n (clock s).1
    simp only [clocks]
    refine ⟨?_, by rw [h2.2.1, h1.2.1], by rw [h2.2.2.1, h1.2.2.1], by rw [h2.2.2.2.1, h1.2.2.2.1],
      by rw [h2.2.2.2.2, h1.2.2.2.2]⟩
    intro _
    rw [h2.1 (by rw [h1.1]; exact Nat.mod_lt _ (by decide)), h1.1]
    omega

/-! ### the deferred mask is unobservable -/

/-- a loop trip only looks at `cycle_count` through `& timer_clock_mask` -/
theorem tick_norm (s : State) (hm : s.timerClockMask < 65536) :
    norm (tick (norm s)).1 = norm (tick s).1 ∧ (tick (norm s)).2 = (tick s).2 := by
  have e1 : (s.cycleCount % 65536) &&& s.timerClockMask = s.cycleCount &&& s.timerClockMask :=
    and_mod16 _ _ hm
  have e2 : (s.cycleCount % 65536 + 1) &&& s.timerClockMask = (s.cycleCount + 1) &&& s.timerClockMask := by
    rw [← and_mod16 (s.cycleCount % 65536 + 1) _ hm, ← and_mod16 (s.cycleCount + 1) _ hm]
    congr 1; omega
  have e3 : (s.cycleCount % 65536 + 1) % 65536 = (s.cycleCount + 1) % 65536 := by omega
  rw [tick_eq, tick_eq]
  simp only [norm, e1, e2]
  split
  · rw [incrementCounter_cc s (s.cycleCount % 65536 + 1), incrementCounter_cc s (s.cycleCount + 1)]
    simp [e3]
  · simp [e3]

/-- the enabled clock in normal form -/
def clockE (s : State) : State × Bool := let r := tick s; (norm r.1, r.2)

def clocksE : Nat → State → State × Bool
  | 0, s => (s, false)
  | n + 1, s => let r := clockE s; let q := clocksE n r.1; (q.1, r.2 || q.2)

theorem loop_norm : ∀ (n : Nat) (s : State) (f : Bool), s.timerClockMask < 65536 →
    norm (loop n s f).1 = (clocksE n (norm s)).1 ∧ (loop n s f).2 = (f || (clocksE n (norm s)).2)
  | 0, s, f, _ => by simp [loop, clocksE]
  | n + 1, s, f, hm => by
    have ht := tick_norm s hm
    have hm' : (tick s).1.timerClockMask < 65536 := by rw [(tick_frame s).2.2.2.1]; exact hm
    have ih := loop_norm n (tick s).1 (f || (tick s).2) hm'
    simp only [loop, clocksE, clockE]
    rw [ih.1, ih.2, ht.1, ht.2, Bool.or_assoc]
    exact ⟨rfl, rfl⟩

theorem clocks_enabled : ∀ (n : Nat) (s : State), (s.enabledMask == 0) = false → clocks n s = clocksE n s
  | 0, s, _ => rfl
  | n + 1, s, h => by
    have hc : clock s = clockE s := by unfold clock clockE; rw [h]; rfl
    have h' : ((clockE s).1.enabledMask == 0) = false := by
      rw [← hc, (clock_frame s).2.2.1]; exact h
    simp only [clocks, clocksE, hc, clocks_enabled n _ h']

theorem clocks_disabled : ∀ (n : Nat) (s : State), (s.enabledMask == 0) = true → s.cycleCount < 65536 →
    clocks n s = ({ s with cycleCount := (s.cycleCount + n) % 65536 }, false)
  | 0, s, _, hc => by simp [clocks, Nat.mod_eq_of_lt hc]
  | n + 1, s, h, hc => by
    have hck : clock s = ({ s with cycleCount := (s.cycleCount + 1) % 65536 }, false) := by
      unfold clock; rw [h]; rfl
    simp only [clocks, hck]
    rw [clocks_disabled n { s with cycleCount := (s.cycleCount + 1) % 65536 } h (Nat.mod_lt _ (by decide))]
    simp only [Bool.or_false, Prod.mk.injEq, and_true]
    congr 1
    omega

/-- `run_cycles` is `cycles` normalised clocks from the normalised state -/
theorem run_eq_clocks (n : Nat) (s : State) (hm : s.timerClockMask < 65536) :
    run n s = clocks n (norm s) := by
  unfold run
  split
  · rename_i h
    rw [clocks_disabled n (norm s) h (Nat.mod_lt _ (by decide))]
    simp only [norm, and_ffff, Prod.mk.injEq, and_true]
    congr 1
    omega
  · rename_i h
    have h' : (s.enabledMask == 0) = false := by simpa using h
    rw [clocks_enabled n (norm s) h']
    have := loop_norm n s false hm
    simp only [and_ffff]
    apply Prod.ext
    · exact this.1
    · simpa using this.2

theorem norm_of_lt (s : State) (h : s.cycleCount < 65536) : norm s = s := by
  simp [norm, Nat.mod_eq_of_lt h]

theorem run_cc_lt (n : Nat) (s : State) : (run n s).1.cycleCount < 65536 := by
  unfold run
  split <;> simp only [and_ffff] <;> exact Nat.mod_lt _ (by decide)

theorem run_frame (n : Nat) (s : State) (hm : s.timerClockMask < 65536) :
    (run n s).1.cycleCount = (s.cycleCount + n) % 65536 ∧ (run n s).1.modulo = s.modulo ∧
    (run n s).1.enabledMask = s.enabledMask ∧ (run n s).1.timerClockMask = s.timerClockMask ∧
    (run n s).1.controlValue = s.controlValue := by
  rw [run_eq_clocks n s hm]
  have := clocks_frame n (norm s)
  refine ⟨?_, this.2⟩
  rw [this.1 (Nat.mod_lt _ (by decide))]
  simp only [norm]
  omega

/-! ### batching -/

theorem clocks_add : ∀ (a b : Nat) (s : State), clocks (a + b) s = seq (clocks a s) (clocks b)
  | 0, b, s => by simp [clocks, seq]
  | a + 1, b, s => by
    have : a + 1 + b = (a + b) + 1 := by omega
    rw [this]
    simp only [clocks, clocks_add a b, seq, Bool.or_assoc]

/-- Batching invariance of `run_cycles`: one batch of `a + b` clocks = a batch of `a` then a batch of `b`
(state equal, returned flags OR-ed), for every state whose clock mask fits in 16 bits, every `a`, `b`. -/
theorem run_add (a b : Nat) (s : State) (hm : s.timerClockMask < 65536) :
    run (a + b) s = seq (run a s) (run b) := by
  have hm' : (run a s).1.timerClockMask < 65536 := by rw [(run_frame a s hm).2.2.2.1]; exact hm
  unfold seq
  rw [run_eq_clocks (a + b) s hm, run_eq_clocks b _ hm', norm_of_lt _ (run_cc_lt a s), run_eq_clocks a s hm,
    clocks_add]
  rfl

end GbVerif.Timer
