import GbVerif.Proofs.Sm83Cls1
import GbVerif.Proofs.Sm83Cls2
import GbVerif.Proofs.Sm83Cls3
import GbVerif.Proofs.Enum
/-!
The per-opcode step of the refinement proof: with the first byte (and for the CB page the second byte) a literal
and the operand bytes symbolic, pick the opcode class whose decoder entry matches and close its three shape
hypotheses (`Gen.decode …`, `run_op` arm, `SM83.step …`) by `rfl`.
-/
namespace GbVerif.C05
open GbVerif.Interp GbVerif.Enum
open GbVerif.SM83 (Cpu)

/-- the statement proved for each first byte -/
def Goal {β : Type} (B : BusOps β) (b0 : Nat) : Prop :=
  ∀ b1 b2, b1 < 256 → b2 < 256 → b0 ≠ 0xCB → ¬ SM83.isUndefined b0 = true → Refines B b0 b1 b2

/-- the statement proved for each second byte of the CB page -/
def GoalCB {β : Type} (B : BusOps β) (b1 : Nat) : Prop := ∀ b2, Refines B 0xCB b1 b2

/-- same constructor (operands ignored) -/
def isC (w o : Op) : Bool := o.ctorIdx == w.ctorIdx

/-- exactly this op (for operand-free ops) -/
def isOp (w o : Op) : Bool := decide (o = w)
def isLdRHL : Op → Bool | .LoadFromIndirect _ .HL => true | _ => false
def isStHLR : Op → Bool | .LoadToIndirect .HL _ => true | _ => false
def isAlways : Op → Bool
  | .Jump .Always _ | .JumpRelative .Always _ | .Call .Always _ | .Return .Always => true | _ => false
def isCond : Op → Bool
  | .Jump c _ | .JumpRelative c _ | .Call c _ | .Return c => c != .Always | _ => false

/-- cheap class guard on the decoder entry of the first byte (makes a wrong class fail in a few ms) -/
theorem guardP {β : Type} {B : BusOps β} {b0 b1 b2 : Nat} (p : Op → Bool) (_hk : p (Gen.decode b0 0 0).1 = true)
    (h : Refines B b0 b1 b2) : Refines B b0 b1 b2 := h

/-- the same for the CB page (second byte literal) -/
theorem guardCB {β : Type} {B : BusOps β} {b0 b1 b2 : Nat} (p : Op → Bool) (_hk : p (Gen.decode b0 b1 0).1 = true)
    (h : Refines B b0 b1 b2) : Refines B b0 b1 b2 := h

macro "sm83_leaf" hB:ident hb1:ident hb2:ident : tactic => `(tactic| first
  | (refine guardP (isIdOp) (by decide) ?_; exact cls_id _ _ _ _ _ _ rfl rfl (fun _ _ => rfl) (fun _ _ => rfl) rfl rfl)
  | (refine guardP (isC (Op.Load8 .A .A)) (by decide) ?_; exact cls_ld_rr _ _ _ _ _ rfl (fun _ _ => rfl) rfl)
  | (refine guardP (isC (Op.Load8Immediate .A 0)) (by decide) ?_; exact cls_ld_rn $hb1 _ _ _ _ rfl (fun _ _ => rfl) rfl)
  | (refine guardP (isAluOp) (by decide) ?_; exact cls_alu _ _ _ _ _ _ _ rfl rfl (fun _ _ => rfl) (fun _ _ => rfl) rfl (fun c k hc => ⟨getReg_conc hc k _, getR_lt hc _⟩))
  | (refine guardP (isAluOp) (by decide) ?_; exact cls_alu _ _ _ _ _ _ _ rfl rfl (fun _ _ => rfl) (fun _ _ => rfl) rfl (fun _ _ _ => ⟨rfl, $hb1⟩))
  | (refine guardP (isAluHLOp) (by decide) ?_; exact cls_alu_hl $hB _ _ _ _ _ rfl rfl (fun _ _ => rfl) (fun _ _ => rfl) rfl)
  | (refine guardP isLdRHL (by decide) ?_; exact cls_ld_r_hl $hB _ _ _ _ rfl (fun _ _ => rfl) rfl)
  | (refine guardP isStHLR (by decide) ?_; exact cls_writeR (Op.LoadToIndirect .HL _) _ _ _ _ _ rfl (fun _ _ => rfl) (fun _ _ => rfl) rfl (fun c k hc => getReg_conc hc k _))
  | (refine guardP (isC (Op.LoadImmediateToHLIndirect 0)) (by decide) ?_; exact cls_writeR (Op.LoadImmediateToHLIndirect _) _ _ _ _ _ rfl (fun _ _ => rfl) (fun _ _ => rfl) rfl (fun _ _ _ => rfl))
  | (refine guardP (isC (Op.Increment8 .A)) (by decide) ?_; exact cls_inc8 _ _ _ _ rfl (fun _ _ => rfl) rfl)
  | (refine guardP (isC (Op.Decrement8 .A)) (by decide) ?_; exact cls_dec8 _ _ _ _ rfl (fun _ _ => rfl) rfl)
  | (refine guardP (isC (Op.IncrementHLIndirect)) (by decide) ?_; exact cls_inc_hl $hB _ _ _ rfl (fun _ _ => rfl) rfl)
  | (refine guardP (isC (Op.DecrementHLIndirect)) (by decide) ?_; exact cls_dec_hl $hB _ _ _ rfl (fun _ _ => rfl) rfl)
  | (refine guardP (isC (Op.Load16 .BC 0)) (by decide) ?_; exact cls_ld16 $hb1 $hb2 _ (by decide) _ _ _ rfl (fun _ _ => rfl) rfl)
  | (refine guardP (isC (Op.Increment16 .BC)) (by decide) ?_; exact cls_incdec16 1 (Op.Increment16 _) _ (by decide) _ _ _ rfl (fun _ _ => rfl) (fun _ _ => rfl) rfl)
  | (refine guardP (isC (Op.Decrement16 .BC)) (by decide) ?_; exact cls_incdec16 65535 (Op.Decrement16 _) _ (by decide) _ _ _ rfl (fun _ _ => rfl) (fun _ _ => rfl) rfl)
  | (refine guardP (isC (Op.AddHL .BC)) (by decide) ?_; exact cls_addhl _ (by decide) _ _ _ rfl (fun _ _ => rfl) rfl)
  | (refine guardP (isOp (Op.LoadFromIndirect .A .BC)) (by decide) ?_; exact cls_ld_a_ind $hB (Op.LoadFromIndirect .A .BC) .BC (by decide) _ _ _ rfl (fun _ _ => rfl) (fun _ _ => rfl) rfl)
  | (refine guardP (isOp (Op.LoadFromIndirect .A .DE)) (by decide) ?_; exact cls_ld_a_ind $hB (Op.LoadFromIndirect .A .DE) .DE (by decide) _ _ _ rfl (fun _ _ => rfl) (fun _ _ => rfl) rfl)
  | (refine guardP (isOp (Op.LoadFromIndirect .A .HLIncrement)) (by decide) ?_; exact cls_ld_a_hlstep $hB 1 1 (fun _ => rfl) (Op.LoadFromIndirect .A .HLIncrement) _ _ _ rfl (fun _ _ => rfl) (fun _ _ => rfl) rfl)
  | (refine guardP (isOp (Op.LoadFromIndirect .A .HLDecrement)) (by decide) ?_; exact cls_ld_a_hlstep $hB 4294967295 65535 (fun x => by omega) (Op.LoadFromIndirect .A .HLDecrement) _ _ _ rfl (fun _ _ => rfl) (fun _ _ => rfl) rfl)
  | (refine guardP (isOp (Op.LoadToIndirect .BC .A)) (by decide) ?_; exact cls_st_a_ind (Op.LoadToIndirect .BC .A) .BC (by decide) _ _ _ rfl (fun _ _ => rfl) (fun _ _ => rfl) rfl)
  | (refine guardP (isOp (Op.LoadToIndirect .DE .A)) (by decide) ?_; exact cls_st_a_ind (Op.LoadToIndirect .DE .A) .DE (by decide) _ _ _ rfl (fun _ _ => rfl) (fun _ _ => rfl) rfl)
  | (refine guardP (isOp (Op.LoadToIndirect .HLIncrement .A)) (by decide) ?_; exact cls_st_a_hlstep 1 1 (fun _ => rfl) (Op.LoadToIndirect .HLIncrement .A) _ _ _ rfl (fun _ _ => rfl) (fun _ _ => rfl) rfl)
  | (refine guardP (isOp (Op.LoadToIndirect .HLDecrement .A)) (by decide) ?_; exact cls_st_a_hlstep 4294967295 65535 (fun x => by omega) (Op.LoadToIndirect .HLDecrement .A) _ _ _ rfl (fun _ _ => rfl) (fun _ _ => rfl) rfl)
  | (refine guardP (isC Op.RotateLeftCarryA) (by decide) ?_; exact cls_rotA 0 (by decide) Op.RotateLeftCarryA _ _ _ _ _ rfl (fun _ _ => rfl) (fun _ _ => rfl) rfl (fun _ => ⟨rfl, rfl⟩))
  | (refine guardP (isC Op.RotateRightCarryA) (by decide) ?_; exact cls_rotA 1 (by decide) Op.RotateRightCarryA _ _ _ _ _ rfl (fun _ _ => rfl) (fun _ _ => rfl) rfl (fun _ => ⟨rfl, rfl⟩))
  | (refine guardP (isC Op.RotateLeftA) (by decide) ?_; exact cls_rotA 2 (by decide) Op.RotateLeftA _ _ _ _ _ rfl (fun _ _ => rfl) (fun _ _ => rfl) rfl (fun _ => ⟨rfl, rfl⟩))
  | (refine guardP (isC Op.RotateRightA) (by decide) ?_; exact cls_rotA 3 (by decide) Op.RotateRightA _ _ _ _ _ rfl (fun _ _ => rfl) (fun _ _ => rfl) rfl (fun c => ⟨rra_val c, rfl⟩))
  | (refine guardP (isC (Op.DAA)) (by decide) ?_; exact cls_daa _ _ _ rfl (fun _ _ => rfl) rfl)
  | (refine guardP (isC (Op.ComplementA)) (by decide) ?_; exact cls_cpl _ _ _ rfl (fun _ _ => rfl) rfl)
  | (refine guardP (isC (Op.SetCarryFlag)) (by decide) ?_; exact cls_scf _ _ _ rfl (fun _ _ => rfl) rfl)
  | (refine guardP (isC (Op.ComplementCarryFlag)) (by decide) ?_; exact cls_ccf _ _ _ rfl (fun _ _ => rfl) rfl)
  | (refine guardP (isC (Op.LoadStackPointerToMemory 0)) (by decide) ?_; exact cls_ld_nn_sp $hb1 $hb2 _ _ _ rfl (fun _ _ => rfl) rfl)
  | (refine guardP (isC (Op.AddSP 0)) (by decide) ?_; exact cls_addsp $hb1 _ _ _ rfl (fun _ _ => rfl) rfl)
  | (refine guardP (isC (Op.LoadStackOffset 0)) (by decide) ?_; exact cls_ldhlsp $hb1 _ _ _ rfl (fun _ _ => rfl) rfl)
  | (refine guardP (isC (Op.LoadToStackPointer)) (by decide) ?_; exact cls_ldsphl _ _ _ rfl (fun _ _ => rfl) rfl)
  | (refine guardP (isC (Op.LoadAFromMemory 0 false)) (by decide) ?_; exact cls_ld_a_abs $hB _ _ _ _ _ _ rfl (fun _ _ => rfl) (by first | rfl | omega) rfl)
  | (refine guardP (isC (Op.LoadAToMemory 0 false)) (by decide) ?_; exact cls_st_a_abs _ _ _ _ _ _ rfl (fun _ _ => rfl) (by first | rfl | omega) rfl)
  | (refine guardP (isC (Op.LoadFromHighMem)) (by decide) ?_; exact cls_ld_a_c $hB _ _ _ rfl (fun _ _ => rfl) rfl)
  | (refine guardP (isC (Op.LoadToHighMem)) (by decide) ?_; exact cls_st_a_c _ _ _ rfl (fun _ _ => rfl) rfl)
  | (refine guardP (isOp (Op.Push .BC)) (by decide) ?_; exact cls_push .BC _ _ _ _ rfl (fun _ _ => rfl) rfl (fun c k hc => getReg16_conc hc k _ (by decide)))
  | (refine guardP (isOp (Op.Push .DE)) (by decide) ?_; exact cls_push .DE _ _ _ _ rfl (fun _ _ => rfl) rfl (fun c k hc => getReg16_conc hc k _ (by decide)))
  | (refine guardP (isOp (Op.Push .HL)) (by decide) ?_; exact cls_push .HL _ _ _ _ rfl (fun _ _ => rfl) rfl (fun c k hc => getReg16_conc hc k _ (by decide)))
  | (refine guardP (isOp (Op.Push .AF)) (by decide) ?_; exact cls_push .AF _ _ _ _ rfl (fun _ _ => rfl) rfl (fun c k hc => getAF_conc hc k))
  | (refine guardP (isOp (Op.Pop .BC)) (by decide) ?_; exact cls_pop $hB .BC (fun v s => { s with b := v / 256, c := v % 256 }) _ _ _ rfl (fun _ _ => rfl) rfl pop_bc)
  | (refine guardP (isOp (Op.Pop .DE)) (by decide) ?_; exact cls_pop $hB .DE (fun v s => { s with d := v / 256, e := v % 256 }) _ _ _ rfl (fun _ _ => rfl) rfl pop_de)
  | (refine guardP (isOp (Op.Pop .HL)) (by decide) ?_; exact cls_pop $hB .HL (fun v s => { s with h := v / 256, l := v % 256 }) _ _ _ rfl (fun _ _ => rfl) rfl pop_hl)
  | (refine guardP (isOp (Op.Pop .AF)) (by decide) ?_; exact cls_pop $hB .AF (fun v s => { s with a := v / 256, f := v % 256 / 16 * 16 }) _ _ _ rfl (fun _ _ => rfl) rfl pop_af)
  | (refine guardP (fun o => isC (Op.Jump .Always 0) o && isAlways o) (by decide) ?_; exact cls_jp $hb1 $hb2 _ _ _ rfl (fun _ _ => rfl) rfl)
  | (refine guardP (fun o => isC (Op.Jump .Always 0) o && isCond o) (by decide) ?_; exact cls_jp_cc $hb1 $hb2 _ (by decide) _ _ _ _ _ rfl (fun _ _ => rfl) rfl rfl rfl rfl)
  | (refine guardP (isC (Op.JumpHL)) (by decide) ?_; exact cls_jphl _ _ _ rfl (fun _ _ => rfl) rfl)
  | (refine guardP (fun o => isC (Op.JumpRelative .Always 0) o && isAlways o) (by decide) ?_; exact cls_jr $hb1 _ _ _ rfl (fun _ _ => rfl) rfl)
  | (refine guardP (fun o => isC (Op.JumpRelative .Always 0) o && isCond o) (by decide) ?_; exact cls_jr_cc $hb1 _ (by decide) _ _ _ _ _ rfl (fun _ _ => rfl) rfl rfl rfl rfl)
  | (refine guardP (fun o => isC (Op.Call .Always 0) o && isAlways o) (by decide) ?_; exact cls_call $hb1 $hb2 _ _ _ rfl (fun _ _ => rfl) rfl)
  | (refine guardP (fun o => isC (Op.Call .Always 0) o && isCond o) (by decide) ?_; exact cls_call_cc $hb1 $hb2 _ (by decide) _ _ _ _ _ rfl (fun _ _ => rfl) rfl rfl rfl rfl)
  | (refine guardP (isC (Op.ResetVector 0)) (by decide) ?_; exact cls_rst _ _ _ _ (by decide) rfl (fun _ _ => rfl) rfl)
  | (refine guardP (fun o => isC (Op.Return .Always) o && isAlways o) (by decide) ?_; exact cls_ret $hB _ _ _ rfl (fun _ _ => rfl) rfl)
  | (refine guardP (fun o => isC (Op.Return .Always) o && isCond o) (by decide) ?_; exact cls_ret_cc $hB _ (by decide) _ _ _ _ _ rfl (fun _ _ => rfl) rfl rfl rfl rfl)
  | (refine guardP (isC (Op.ReturnFromInterrupt)) (by decide) ?_; exact cls_reti $hB _ _ _ rfl (fun _ _ => rfl) rfl))

macro "sm83_leaf_cb" hB:ident : tactic => `(tactic| first
  | (refine guardCB (isC (Op.RotateLeftCarry .A)) (by decide) ?_; exact cls_cb_rot 0 (by decide) (Op.RotateLeftCarry _) _ _ _ _ rfl (fun _ _ => rfl) (fun _ _ => rfl) rfl)
  | (refine guardCB (isC (Op.RotateRightCarry .A)) (by decide) ?_; exact cls_cb_rot 1 (by decide) (Op.RotateRightCarry _) _ _ _ _ rfl (fun _ _ => rfl) (fun _ _ => rfl) rfl)
  | (refine guardCB (isC (Op.RotateLeft .A)) (by decide) ?_; exact cls_cb_rot 2 (by decide) (Op.RotateLeft _) _ _ _ _ rfl (fun _ _ => rfl) (fun _ _ => rfl) rfl)
  | (refine guardCB (isC (Op.RotateRight .A)) (by decide) ?_; exact cls_cb_rot 3 (by decide) (Op.RotateRight _) _ _ _ _ rfl (fun _ _ => rfl) (fun _ _ => rfl) rfl)
  | (refine guardCB (isC (Op.ShiftLeft .A)) (by decide) ?_; exact cls_cb_rot 4 (by decide) (Op.ShiftLeft _) _ _ _ _ rfl (fun _ _ => rfl) (fun _ _ => rfl) rfl)
  | (refine guardCB (isC (Op.ShiftRight .A)) (by decide) ?_; exact cls_cb_rot 5 (by decide) (Op.ShiftRight _) _ _ _ _ rfl (fun _ _ => rfl) (fun _ _ => rfl) rfl)
  | (refine guardCB (isC (Op.Swap .A)) (by decide) ?_; exact cls_cb_rot 6 (by decide) (Op.Swap _) _ _ _ _ rfl (fun _ _ => rfl) (fun _ _ => rfl) rfl)
  | (refine guardCB (isC (Op.ShiftRightLogical .A)) (by decide) ?_; exact cls_cb_rot 7 (by decide) (Op.ShiftRightLogical _) _ _ _ _ rfl (fun _ _ => rfl) (fun _ _ => rfl) rfl)
  | (refine guardCB (isC Op.RotateLeftCarryIndirect) (by decide) ?_; exact cls_cb_rot_hl $hB 0 (by decide) Op.RotateLeftCarryIndirect _ _ _ rfl (fun _ _ => rfl) (fun _ _ => rfl) rfl)
  | (refine guardCB (isC Op.RotateRightCarryIndirect) (by decide) ?_; exact cls_cb_rot_hl $hB 1 (by decide) Op.RotateRightCarryIndirect _ _ _ rfl (fun _ _ => rfl) (fun _ _ => rfl) rfl)
  | (refine guardCB (isC Op.RotateLeftIndirect) (by decide) ?_; exact cls_cb_rot_hl $hB 2 (by decide) Op.RotateLeftIndirect _ _ _ rfl (fun _ _ => rfl) (fun _ _ => rfl) rfl)
  | (refine guardCB (isC Op.RotateRightIndirect) (by decide) ?_; exact cls_cb_rot_hl $hB 3 (by decide) Op.RotateRightIndirect _ _ _ rfl (fun _ _ => rfl) (fun _ _ => rfl) rfl)
  | (refine guardCB (isC Op.ShiftLeftIndirect) (by decide) ?_; exact cls_cb_rot_hl $hB 4 (by decide) Op.ShiftLeftIndirect _ _ _ rfl (fun _ _ => rfl) (fun _ _ => rfl) rfl)
  | (refine guardCB (isC Op.ShiftRightIndirect) (by decide) ?_; exact cls_cb_rot_hl $hB 5 (by decide) Op.ShiftRightIndirect _ _ _ rfl (fun _ _ => rfl) (fun _ _ => rfl) rfl)
  | (refine guardCB (isC Op.SwapIndirect) (by decide) ?_; exact cls_cb_rot_hl $hB 6 (by decide) Op.SwapIndirect _ _ _ rfl (fun _ _ => rfl) (fun _ _ => rfl) rfl)
  | (refine guardCB (isC Op.ShiftRightLogicalIndirect) (by decide) ?_; exact cls_cb_rot_hl $hB 7 (by decide) Op.ShiftRightLogicalIndirect _ _ _ rfl (fun _ _ => rfl) (fun _ _ => rfl) rfl)
  | (refine guardCB (isC (Op.BitTest .A 0)) (by decide) ?_; exact cls_cb_bit _ _ _ _ _ _ rfl (fun _ _ => rfl) rfl rfl)
  | (refine guardCB (isC (Op.BitSet .A 0)) (by decide) ?_; exact cls_cb_set _ _ _ _ _ _ (by decide) rfl (fun _ _ => rfl) rfl rfl)
  | (refine guardCB (isC (Op.BitClear .A 0)) (by decide) ?_; exact cls_cb_res _ _ _ _ _ _ (by decide) rfl (fun _ _ => rfl) rfl rfl)
  | (refine guardCB (isC (Op.BitTestIndirect 0)) (by decide) ?_; exact cls_cb_bit_hl $hB _ _ _ _ _ rfl (fun _ _ => rfl) rfl rfl)
  | (refine guardCB (isC (Op.BitSetIndirect 0)) (by decide) ?_; exact cls_cb_set_hl $hB _ _ (by decide) _ _ _ rfl (fun _ _ => rfl) rfl rfl)
  | (refine guardCB (isC (Op.BitClearIndirect 0)) (by decide) ?_; exact cls_cb_res_hl $hB _ _ (by decide) _ _ _ rfl (fun _ _ => rfl) rfl rfl))

end GbVerif.C05
