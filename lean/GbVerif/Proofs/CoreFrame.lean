import GbVerif.Spec.Lcd
/-!
C09, `Core::run_frame`: polling the LCD mode at increasing times with gaps of at most 4560 clocks (the length of the
VBlank window) finds "mode ≠ 1 … then mode = 1 … then mode ≠ 1" within a bounded time.  Pure arithmetic over the
closed-form schedule `LcdSpec.sched` (C14); `T i` is the LCD's clock count when the loop samples the mode for the i-th time.
-/
namespace GbVerif.CoreProofs
open GbVerif.LcdSpec

/-- the schedule is in VBlank (mode 1) exactly during the first 4560 clocks of each 70224-clock frame -/
theorem mode1_iff (t : Nat) : (sched t).mode = 1 ↔ t % 70224 < 4560 := by
  unfold sched
  simp only []
  split
  · simp [*]
  · rename_i h
    constructor
    · intro hm
      split at hm
      · simp at hm
      · split at hm <;> simp at hm
    · intro h'; exact absurd h' h

section poll
variable (T : Nat → Nat) (g : Nat) (hinc : ∀ i, T i < T (i + 1)) (hgap : ∀ i, T (i + 1) ≤ T i + g)
include hinc

theorem T_mono : ∀ n j, j ≤ n → T j ≤ T n := by
  intro n
  induction n with
  | zero => intro j hj; have : j = 0 := by omega
            subst this; exact Nat.le_refl _
  | succ n ih =>
    intro j hj
    by_cases h : j = n + 1
    · subst h; exact Nat.le_refl _
    · have := ih j (by omega); have := hinc n; omega

theorem T_ge : ∀ n, T 0 + n ≤ T n := by
  intro n
  induction n with
  | zero => exact Nat.le_refl _
  | succ n ih => have := hinc n; omega

theorem first_reach (L : Nat) : ∀ n, L ≤ T n → ∃ i, i ≤ n ∧ L ≤ T i ∧ ∀ j, j < i → T j < L := by
  intro n
  induction n with
  | zero => intro h; exact ⟨0, Nat.le_refl _, h, fun j hj => absurd hj (by omega)⟩
  | succ n ih =>
    intro h
    by_cases hn : L ≤ T n
    · obtain ⟨i, hi, h1, h2⟩ := ih hn; exact ⟨i, by omega, h1, h2⟩
    · refine ⟨n + 1, Nat.le_refl _, h, fun j hj => ?_⟩
      have := T_mono T hinc n j (by omega); omega

include hgap

/-- a sampling sequence with gaps ≤ g cannot step over a window of length g: the first sample at or after `L` lies in
`[L, L + g)` -/
theorem hit_window (L : Nat) (hL : T 0 ≤ L) : ∃ i, L ≤ T i ∧ T i < L + g ∧ ∀ j, j < i → T j < L := by
  have hreach : L ≤ T L := by have := T_ge T hinc L; omega
  obtain ⟨i, _, h1, h2⟩ := first_reach T hinc L L hreach
  refine ⟨i, h1, ?_, h2⟩
  cases i with
  | zero => have := hinc 0; have := hgap 0; omega
  | succ k => have := h2 k (by omega); have := hgap k; omega

/-- `run_frame`'s two polling loops terminate: with gaps of at most `g ≤ 4560` clocks between samples there are indices
`n1 ≤ n2` such that the mode is ≠ 1 before `n1`, = 1 from `n1` up to `n2` (exclusive), ≠ 1 at `n2` — and `n2` is sampled
less than one frame + one VBlank + one gap after the first sample (so within two frame periods plus one step) -/
theorem poll_frame (hg : g ≤ 4560) :
    ∃ n1 n2, n1 ≤ n2 ∧ (∀ j, j < n1 → (sched (T j)).mode ≠ 1) ∧ (∀ j, n1 ≤ j → j < n2 → (sched (T j)).mode = 1) ∧
      (sched (T n2)).mode ≠ 1 ∧ n1 < n2 ∧ T n2 < T 0 + 70224 + 4560 + g := by
  -- phase 1: first sample in a VBlank window
  have p1 : ∃ n1, (∀ j, j < n1 → ¬ T j % 70224 < 4560) ∧ T n1 % 70224 < 4560 ∧ T n1 - T n1 % 70224 ≤ T 0 + 70224 := by
    by_cases h0 : T 0 % 70224 < 4560
    · exact ⟨0, fun j hj => absurd hj (by omega), h0, by omega⟩
    · obtain ⟨i, h1, h2, h3⟩ := hit_window T g hinc hgap ((T 0 / 70224 + 1) * 70224) (by omega)
      refine ⟨i, fun j hj => ?_, by omega, by omega⟩
      have := h3 j hj
      have := T_mono T hinc j 0 (by omega)
      omega
  obtain ⟨n1, q1, q2, q3⟩ := p1
  -- phase 2: first sample after the end of that window
  obtain ⟨i, h1, h2, h3⟩ := hit_window (fun k => T (n1 + k)) g (fun k => hinc (n1 + k)) (fun k => hgap (n1 + k))
    (T n1 - T n1 % 70224 + 4560) (by show T (n1 + 0) ≤ _; simp only [Nat.add_zero]; omega)
  have hi0 : i ≠ 0 := by
    intro e; subst e
    have : T (n1 + 0) = T n1 := by simp
    simp only [Nat.add_zero] at h1
    omega
  refine ⟨n1, n1 + i, by omega, ?_, ?_, ?_, by omega, ?_⟩
  · intro j hj; rw [Ne, mode1_iff]; exact q1 j hj
  · intro j hj1 hj2
    rw [mode1_iff]
    have e : j = n1 + (j - n1) := by omega
    have := h3 (j - n1) (by omega)
    try simp only [] at this
    rw [← e] at this
    have := T_mono T hinc j n1 hj1
    omega
  · rw [Ne, mode1_iff]
    try simp only [] at h1 h2
    omega
  · try simp only [] at h2
    omega

end poll

end GbVerif.CoreProofs
