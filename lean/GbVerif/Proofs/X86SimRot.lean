import GbVerif.Proofs.X86SimSwap
import GbVerif.Proofs.X86SimBit
/-
C01, the data side: the circular rotates.  RLCA / RRCA (`rol|ror ah, 1 ; <flag conversion keeping 0xef of F, taking C> ;
and al, 0x1f`) and, on the CB page, RLC r / RRC r for the seven registers: the same, then `or r8, r8 ; sete r14b ;
ror r14b, 1 ; or al, r14b` for the Z flag.  The CB forms use r14b (the block-status byte) as scratch and leave 0 or 0x80 there.
-/
namespace GbVerif.X86
open GbVerif.JitCycles GbVerif.Interp
variable {β : Type}

/-- rewriting a guest register's host location with the value it holds -/
theorem sim_set8_same {g : Regs} {s : St β} (h : Sim g s) (r : Reg8) : Sim g (set8 s (hostR8 r) (getReg g r)) := by
  have hsz := h.size
  have hx0 := (get s 0).isLt; have hx1 := (get s 1).isLt; have hx2 := (get s 2).isLt; have hx3 := (get s 3).isLt
  have h0 := h.af; have h1 := h.hl; have h2 := h.de; have h3 := h.bc
  cases r
  all_goals
    simp only [hostR8, getReg, getHi_eq, getLo]
    constructor
  all_goals first
    | (rw [size_set8']; exact hsz)
    | (rw [toNat_set8_hi _ _ _ (by omega)]; omega)
    | (rw [toNat_set8_lo _ _ _ (by omega)]; omega)
    | (rw [get_set8_ne _ _ _ _ (by simp [r8reg])]; first | exact h.af | exact h.hl | exact h.de | exact h.bc | exact h.sp | exact h.ip | exact h.cy)

/-- `or r8, r8` on the host location of a guest register: nothing moves, ZF says whether the register is zero -/
theorem step_orself_sim' (B : BusOps β) (r : Reg8) (g : Regs) (st s1 : St β) (len : Nat)
    (hs : Sim g st) (h : step B st (.alu8 .or (hostR8 r) (hostR8 r)) len = .ok s1) :
    Sim g s1 ∧ Untouched st s1 ∧ s1.fl.zf = (getReg g r == 0) := by
  have hu : Untouched st s1 := untouched_step B st s1 _ _ h (by intro e; cases e)
    (by simp only [destReg]; intro e; injection e with e; exact hostR8_ne14 r e)
    (fun _ e => by cases e) (fun _ e => by cases e) (fun e => by cases e) (fun e => by cases e)
    (fun _ _ _ _ e => by cases e) (fun _ _ _ e => by cases e)
  have e1 : step B st (.alu8 .or (hostR8 r) (hostR8 r)) len =
      .ok { (set8 ({ st with pc := st.pc + len } : St β) (hostR8 r) (aluOp .or 8 (get8 st (hostR8 r)) (get8 st (hostR8 r)) st.fl).1) with
            fl := (aluOp .or 8 (get8 st (hostR8 r)) (get8 st (hostR8 r)) st.fl).2 } := rfl
  rw [e1] at h
  injection h with h
  rw [get8_sim hs r] at h
  have hv : (aluOp .or 8 (getReg g r) (getReg g r) st.fl).1 = getReg g r := Nat.or_self _
  have hz : (aluOp .or 8 (getReg g r) (getReg g r) st.fl).2.zf = (getReg g r == 0) := by
    show (getReg g r ||| getReg g r == 0) = (getReg g r == 0); rw [Nat.or_self]
  refine ⟨?_, hu, ?_⟩
  · rw [← h, hv]; exact sim_fl (sim_set8_same (sim_pc hs (st.pc + len)) r) _
  · rw [← h]; exact hz

/-- `sete r14b ; ror r14b, 1`: r14b becomes 0x80 if ZF was set and 0 otherwise; nothing else moves -/
theorem step_sete_ror (B : BusOps β) (s1 s2 s3 : St β) (l2 l3 : Nat) (hsz : s1.r.size = 16)
    (h2 : step B s1 (.sete (.lo 14)) l2 = .ok s2) (h3 : step B s2 (.sh8 .ror (.lo 14) 1) l3 = .ok s3) :
    (get s3 14).toNat % 256 = (if s1.fl.zf then 0x80 else 0) ∧ (∀ j, 14 ≠ j → get s3 j = get s1 j) ∧
    s3.bus = s1.bus ∧ s3.stack = s1.stack ∧ s3.r.size = 16 := by
  have e2 : step B s1 (.sete (.lo 14)) l2 =
      .ok (set8 ({ s1 with pc := s1.pc + l2 } : St β) (.lo 14) (if s1.fl.zf then 1 else 0)) := rfl
  rw [e2] at h2
  injection h2 with h2
  have r2 : ∀ j, 14 ≠ j → get s2 j = get s1 j := by
    intro j hj; rw [← h2, get_set8_ne _ _ _ _ (by simpa [r8reg] using hj)]; rfl
  have v2 : get8 s2 (.lo 14) = (if s1.fl.zf then 1 else 0) := by
    rw [← h2, get8_set8_lo _ _ _ (by show 14 < s1.r.size; omega)]
    cases s1.fl.zf <;> rfl
  have b2 : s2.bus = s1.bus := by rw [← h2, bus_set8]
  have st2 : s2.stack = s1.stack := by rw [← h2, stack_set8]
  have sz2 : s2.r.size = 16 := by rw [← h2, size_set8]; exact hsz
  have e3 : step B s2 (.sh8 .ror (.lo 14) 1) l3 =
      .ok { (set8 ({ s2 with pc := s2.pc + l3 } : St β) (.lo 14) (shOp .ror 8 (get8 s2 (.lo 14)) 1 s2.fl).1) with
            fl := (shOp .ror 8 (get8 s2 (.lo 14)) 1 s2.fl).2 } := rfl
  rw [e3, v2, ror1_val] at h3
  injection h3 with h3
  have g3 : ∀ j, get s3 j = get (set8 ({ s2 with pc := s2.pc + l3 } : St β) (.lo 14) (if s1.fl.zf then 0x80 else 0)) j := by
    intro j; rw [← h3]; rfl
  refine ⟨?_, ?_, ?_, ?_, ?_⟩
  · have := get8_set8_lo ({ s2 with pc := s2.pc + l3 } : St β) 14 (if s1.fl.zf then 0x80 else 0) (by show 14 < s2.r.size; omega)
    rw [g3 14]
    have hh : get8 (set8 ({ s2 with pc := s2.pc + l3 } : St β) (.lo 14) (if s1.fl.zf then 0x80 else 0)) (.lo 14) =
        (get (set8 ({ s2 with pc := s2.pc + l3 } : St β) (.lo 14) (if s1.fl.zf then 0x80 else 0)) 14).toNat % 256 := rfl
    rw [← hh, this]
    cases s1.fl.zf <;> rfl
  · intro j hj; rw [g3 j, get_set8_ne _ _ _ _ (by simpa [r8reg] using hj)]; exact r2 j hj
  · rw [← congrArg St.bus h3]; exact (bus_set8 _ _ _).trans b2
  · rw [← congrArg St.stack h3]; exact (stack_set8 _ _ _).trans st2
  · rw [← congrArg St.r h3]; exact (size_set8 _ _ _).trans sz2

/-- the Z tail of the CB rotates: `or r8, r8 ; sete r14b ; ror r14b, 1 ; or al, r14b` -/
def zTail (r : Reg8) (o0 o1 o2 o3 : Nat) : List (Nat × Instr) :=
  [(o0, Instr.alu8 AluOp.or (hostR8 r) (hostR8 r)), (o1, Instr.sete (R8.lo 14)), (o2, Instr.sh8 ShOp.ror (R8.lo 14) 1),
   (o3, Instr.alu8 AluOp.or (R8.lo 0) (R8.lo 14))]

theorem straight_zTail (r : Reg8) (o0 o1 o2 o3 : Nat) : straight (zTail r o0 o1 o2 o3) := by
  intro p hp
  simp only [zTail, List.mem_cons, List.not_mem_nil, or_false] at hp
  rcases hp with e | e | e | e <;> subst e <;> exact ⟨fun _ _ e => Instr.noConfusion e, fun _ e => Instr.noConfusion e⟩

theorem ztail_body (B : BusOps β) (r : Reg8) (o0 o1 o2 o3 e : Nat) (g1 : Regs) (a f : Nat) (ha : a < 256) (hf : f < 256)
    (hpk : g1.af = a * 256 + f) (st s' : St β) (hs : Sim g1 st) (hex : execList B e (zTail r o0 o1 o2 o3) st = .ok s') :
    Sim (testZero g1 (getReg g1 r)) s' ∧ s'.bus = st.bus ∧ s'.stack = st.stack ∧ (get8 s' (.lo 14) = 0 ∨ get8 s' (.lo 14) = 0x80) := by
  unfold zTail at hex
  obtain ⟨sa, h1, hex⟩ := execList_cons B _ _ _ _ _ _ hex
  obtain ⟨sb, h2, hex⟩ := execList_cons B _ _ _ _ _ _ hex
  obtain ⟨sc, h3, hex⟩ := execList_cons B _ _ _ _ _ _ hex
  obtain ⟨sd, h4, hex⟩ := execList_cons B _ _ _ _ _ _ hex
  have := execList_nil B _ _ _ hex
  subst this
  obtain ⟨hsa, hua, hz⟩ := step_orself_sim' B r g1 st sa _ hs h1
  obtain ⟨v3, r3, b3, st3, sz3⟩ := step_sete_ror B sa sb sc _ _ hsa.size h2 h3
  obtain ⟨x4, r4, b4, st4, sz4⟩ := step_or_al_r14 B sc s' _ sz3 h4
  have haf : (get sc 0).toNat % 65536 = a * 256 + f := by
    rw [r3 0 (by decide), hsa.af, hpk]; omega
  have hlo : (get sc 0).toNat % 256 = f := by omega
  have hhi : (get sc 0).toNat / 256 % 256 = a := by omega
  rw [hlo, hhi, v3, hz] at x4
  have i2 := testZero_pack g1 a f (getReg g1 r) hf hpk
  have hlt : (f ||| (if getReg g1 r == 0 then 0x80 else 0)) < 256 := by
    apply Nat.or_lt_two_pow (n := 8) hf
    split <;> decide
  have rr : ∀ j, 0 ≠ j → 14 ≠ j → get s' j = get sa j := by
    intro j h0' h14
    rw [r4 j h0', r3 j h14]
  obtain ⟨q1, q2, q3, q4, q5, q6⟩ := sameButAf_testZero g1 (getReg g1 r)
  refine ⟨⟨?_, ?_, ?_, ?_, ?_, ?_, ?_, sz4⟩, by rw [b4, b3, hua.bus], by rw [st4, st3, hua.stack], ?_⟩
  · rw [x4, i2]; omega
  · rw [rr 1 (by decide) (by decide), q3]; exact hsa.hl
  · rw [rr 2 (by decide) (by decide), q2]; exact hsa.de
  · rw [rr 3 (by decide) (by decide), q1]; exact hsa.bc
  · rw [rr 12 (by decide) (by decide), q4]; exact hsa.sp
  · rw [rr 13 (by decide) (by decide), q5]; exact hsa.ip
  · rw [rr 15 (by decide) (by decide), q6]; exact hsa.cy
  · show (get s' 14).toNat % 256 = 0 ∨ (get s' 14).toNat % 256 = 0x80
    rw [r4 14 (by decide), v3]
    cases sa.fl.zf
    · left; rfl
    · right; rfl

/-! ### the circular rotates -/

inductive Rc2 where | rlc | rrc
deriving DecidableEq, Repr

def Rc2.host : Rc2 → ShOp
  | .rlc => .rol | .rrc => .ror
def Rc2.res : Rc2 → Nat → Nat × Bool
  | .rlc, v => rlCircular v | .rrc, v => rrCircular v

def fl0 : Flags := ⟨false, false, false, false, false, false⟩

theorem rot1_res (k : Rc2) (v : Nat) (hv : v < 256) (fl : Flags) :
    (shOp k.host 8 v 1 fl).1 = (k.res v).1 ∧ (shOp k.host 8 v 1 fl).2.cf = (k.res v).2 ∧ (k.res v).1 < 256 := by
  cases k
  · have e1 : (shOp ShOp.rol 8 v 1 fl).1 = (shOp ShOp.rol 8 v 1 fl0).1 := rfl
    have e3 : (shOp ShOp.rol 8 v 1 fl).2.cf = (shOp ShOp.rol 8 v 1 fl0).2.cf := rfl
    have := Enum.forall_lt_of_allRange (fun v => (shOp ShOp.rol 8 v 1 fl0).1 == (rlCircular v).1 &&
      ((shOp ShOp.rol 8 v 1 fl0).2.cf == (rlCircular v).2) && decide ((rlCircular v).1 < 256)) 8 (by decide +kernel) v hv
    simp only [Bool.and_eq_true, beq_iff_eq, decide_eq_true_eq] at this
    obtain ⟨⟨h1, h2⟩, h3⟩ := this
    exact ⟨by show (shOp ShOp.rol 8 v 1 fl).1 = (rlCircular v).1; rw [e1, h1],
           by show (shOp ShOp.rol 8 v 1 fl).2.cf = (rlCircular v).2; rw [e3, h2], h3⟩
  · have e1 : (shOp ShOp.ror 8 v 1 fl).1 = (shOp ShOp.ror 8 v 1 fl0).1 := rfl
    have e3 : (shOp ShOp.ror 8 v 1 fl).2.cf = (shOp ShOp.ror 8 v 1 fl0).2.cf := rfl
    have := Enum.forall_lt_of_allRange (fun v => (shOp ShOp.ror 8 v 1 fl0).1 == (rrCircular v).1 &&
      ((shOp ShOp.ror 8 v 1 fl0).2.cf == (rrCircular v).2) && decide ((rrCircular v).1 < 256)) 8 (by decide +kernel) v hv
    simp only [Bool.and_eq_true, beq_iff_eq, decide_eq_true_eq] at this
    obtain ⟨⟨h1, h2⟩, h3⟩ := this
    exact ⟨by show (shOp ShOp.ror 8 v 1 fl).1 = (rrCircular v).1; rw [e1, h1],
           by show (shOp ShOp.ror 8 v 1 fl).2.cf = (rrCircular v).2; rw [e3, h2], h3⟩

/-- `rol|ror r8, 1` on the host location of a guest register: the register write and the host carry -/
theorem step_rot1_sim (B : BusOps β) (k : Rc2) (r : Reg8) (g : Regs) (st s1 : St β) (len : Nat) (hs : Sim g st)
    (h : step B st (.sh8 k.host (hostR8 r) 1) len = .ok s1) :
    Sim (setReg g r (k.res (getReg g r)).1) s1 ∧ Untouched st s1 ∧ s1.fl.cf = (k.res (getReg g r)).2 := by
  have hu : Untouched st s1 := untouched_step B st s1 _ _ h (by intro e; cases e)
    (by simp only [destReg]; intro e; injection e with e; exact hostR8_ne14 r e)
    (fun _ e => by cases e) (fun _ e => by cases e) (fun e => by cases e) (fun e => by cases e)
    (fun _ _ _ _ e => by cases e) (fun _ _ _ e => by cases e)
  have e1 : step B st (.sh8 k.host (hostR8 r) 1) len =
      .ok { (set8 ({ st with pc := st.pc + len } : St β) (hostR8 r) (shOp k.host 8 (get8 st (hostR8 r)) 1 st.fl).1) with
            fl := (shOp k.host 8 (get8 st (hostR8 r)) 1 st.fl).2 } := rfl
  rw [e1] at h
  injection h with h
  rw [get8_sim hs r] at h
  obtain ⟨hv, hc, hlt⟩ := rot1_res k (getReg g r) (getReg_lt g r) st.fl
  refine ⟨?_, hu, ?_⟩
  · rw [← h, hv]; exact sim_fl (set8_sim (sim_pc hs _) r _ hlt) _
  · rw [← h]; exact hc

theorem conv_10 (fl : Flags) : conv fl &&& 0x10 = (if fl.cf then 0x10 else 0) := by
  obtain ⟨cf, pf, af, zf, sf, of⟩ := fl
  cases cf <;> cases af <;> cases zf <;> simp [conv]

theorem fRotC_eq (f : Nat) (hf : f < 256) (c : Bool) :
    bitop .and ((f &&& 0xef) ||| (if c then 0x10 else 0)) 0x1f = ((f &&& 0x0f) ||| (if c then 0x10 else 0)) := by
  have := Enum.forall_lt_of_allRange (fun f =>
    (bitop .and ((f &&& 0xef) ||| 0x10) 0x1f == ((f &&& 0x0f) ||| 0x10)) &&
    (bitop .and ((f &&& 0xef) ||| 0) 0x1f == ((f &&& 0x0f) ||| 0))) 8 (by decide +kernel) f hf
  simp only [Bool.and_eq_true, beq_iff_eq] at this
  cases c
  · simpa using this.2
  · simpa using this.1

/-- `flagsRot … false` on (A, F) -/
theorem rotFlagsC_pack (g1 : Regs) (res : Nat × Bool) :
    (flagsRot g1 res false).af = getReg g1 .A * 256 + ((g1.af % 256 &&& 0x0f) ||| (if res.2 then 0x10 else 0)) := by
  have hA := getReg_lt g1 .A
  have hg : g1.af % 65536 = getReg g1 .A * 256 + g1.af % 256 := by
    show g1.af % 65536 = getHi g1.af * 256 + g1.af % 256
    rw [getHi_eq]; omega
  have i0 := applyMask_pack' g1 _ _ 0xf0 hA (Nat.mod_lt _ (by decide)) hg
  rw [show ((0xf0 ^^^ 0xff) % 256 : Nat) = 0x0f from rfl] at i0
  have c0 : g1.af % 256 &&& 0x0f < 256 := Nat.lt_of_le_of_lt Nat.and_le_right (by decide)
  show (testCarry (applyMask g1 0xf0) res.2).af = _
  exact testCarry_pack _ _ _ res.2 c0 i0

theorem sameButAf_flagsRotC (g1 : Regs) (res : Nat × Bool) : SameButAf g1 (flagsRot g1 res false) := by
  show SameButAf g1 (testCarry (applyMask g1 0xf0) res.2)
  exact (sameButAf_applyMask g1 _).trans (sameButAf_testCarry _ _)

def rotcBody (k : Rc2) (r : Reg8) (o : Nat → Nat) : List (Nat × Instr) :=
  ((o 0, Instr.sh8 k.host (hostR8 r) 1) :: pipeAt o 0xef 0x10) ++ [(o 10, Instr.alu8i AluOp.and (R8.lo 0) 0x1f)]

theorem straight_rotcBody (k : Rc2) (r : Reg8) (o : Nat → Nat) : straight (rotcBody k r o) :=
  straight_app (straight_cons _ _ _ (fun _ _ e => Instr.noConfusion e) (fun _ e => Instr.noConfusion e) (straight_pipe _ _ _)) (straight_al _ _ _)

/-- rotate and carry: the common part of RLCA / RRCA / RLC r / RRC r -/
theorem rotc_body (B : BusOps β) (k : Rc2) (r : Reg8) (o : Nat → Nat) (e : Nat) (g : Regs) (st s3 : St β) (hs : Sim g st)
    (hex : execList B e (rotcBody k r o) st = .ok s3) :
    Sim (flagsRot (setReg g r (k.res (getReg g r)).1) (k.res (getReg g r)) false) s3 ∧ Untouched st s3 := by
  obtain ⟨s2, hex1, hexp⟩ := execList_append B e _ _ st s3 hex
  obtain ⟨s1, h1, hex2⟩ := execList_cons B _ _ _ _ _ _ hex1
  obtain ⟨hs1, hu1, hc⟩ := step_rot1_sim B k r g st s1 _ hs h1
  obtain ⟨hx, hfr⟩ := pipe_sim B 0xef 0x10 (by decide) (by decide) o _ _ s1 s2 hs1 hex2
  obtain ⟨s4, hp, hex4⟩ := execList_cons B _ _ _ _ _ _ hexp
  have := execList_nil B _ _ _ hex4
  subst this
  obtain ⟨hx3, hr3, hb3, hst3, hsz3⟩ := step_al B .and (Or.inl rfl) 0x1f (by decide) s2 s3 _ hfr.size hp
  have hfr3 := frame06_al hfr hr3 hb3 hst3 hsz3
  rw [conv_10, hc] at hx
  generalize hg1 : setReg g r (k.res (getReg g r)).1 = g1 at hs1 hx ⊢
  generalize hres : k.res (getReg g r) = res at hx ⊢
  have hA := getReg_lt g1 .A
  have hF : g1.af % 256 < 256 := Nat.mod_lt _ (by decide)
  have hFlt : (g1.af % 256 &&& 0xef ||| (if res.2 = true then 0x10 else 0)) < 256 := by
    apply Nat.or_lt_two_pow (n := 8)
    · exact Nat.lt_of_le_of_lt Nat.and_le_right (by decide)
    · split <;> decide
  have hlo : (get s2 0).toNat % 256 = (g1.af % 256 &&& 0xef ||| (if res.2 = true then 0x10 else 0)) := by
    have : (get s2 0).toNat % 256 = (get s2 0).toNat % 65536 % 256 := by omega
    rw [this, hx]; omega
  have hhi : (get s2 0).toNat / 256 % 256 = getReg g1 .A := by
    have : (get s2 0).toNat / 256 % 256 = (get s2 0).toNat % 65536 / 256 := by omega
    rw [this, hx]; omega
  rw [hlo, hhi, fRotC_eq _ hF] at hx3
  obtain ⟨q1, q2⟩ := sim_af (g' := flagsRot g1 res false) hs1 hfr3 (sameButAf_flagsRotC g1 res) (by
    rw [hx3, rotFlagsC_pack]
    have hlt : ((g1.af % 256 &&& 0x0f) ||| (if res.2 then 0x10 else 0)) < 256 := by
      apply Nat.or_lt_two_pow (n := 8)
      · exact Nat.lt_of_le_of_lt Nat.and_le_right (by decide)
      · split <;> decide
    omega)
  exact ⟨q1, hu1.trans q2⟩

/-! ### RLCA, RRCA -/

def Rc2.opA : Rc2 → Op
  | .rlc => .RotateLeftCarryA | .rrc => .RotateRightCarryA
def opcodeRcA : Rc2 → Nat
  | .rlc => 0x07 | .rrc => 0x0f

theorem table_rca (k : Rc2) (b1 b2 : Nat) :
    decodeCode (Gen.emitOp (opcodeRcA k)) = some (rotcBody k .A (aluOff' 2) ++ [(33, addIp 1), (37, addCy 1)]) ∧
    bytesOf (Gen.emitOp (opcodeRcA k)) = 41 ∧ Gen.decode (opcodeRcA k) b1 b2 = (k.opA, 1, 4) := by
  cases k <;> exact ⟨by decide +kernel, by decide +kernel, rfl⟩

/-- **RLCA, RRCA**: all states -/
theorem sim_rca (k : Rc2) (b1 b2 : Nat) : Simulates (opcodeRcA k) b1 b2 := by
  obtain ⟨hdec, hbytes, hop⟩ := table_rca k b1 b2
  refine ⟨_, hdec, ?_⟩
  intro β B g m fuel st st' hsim hpc _ _ hrun
  rw [hbytes] at hrun
  rw [hop]
  show ∃ g', runOp B k.opA g m 1 = .ok (g', m, STATUS_NORMAL) ∧ Sim { g' with cycles := g'.cycles + 4 / 4 } st' ∧ Untouched st st'
  rw [show (4 : Nat) / 4 = 1 from rfl]
  refine ⟨advance (flagsRot (setReg g .A (k.res (getReg g .A)).1) (k.res (getReg g .A)) false) 1, by cases k <;> rfl, ?_⟩
  obtain ⟨h1, h2⟩ := sim_body B (rotcBody k .A (aluOff' 2)) 33 37 41 1 1 g
    (flagsRot (setReg g .A (k.res (getReg g .A)).1) (k.res (getReg g .A)) false) (by cases k <;> rfl)
    (straight_rotcBody k .A _) (by decide) (by decide)
    (fun st0 s1 hs hex => rotc_body B k .A (aluOff' 2) 33 g st0 s1 hs hex)
    fuel st st' hsim (by rw [hpc]; rfl) hrun
  exact ⟨⟨h1.af, h1.hl, h1.de, h1.bc, h1.sp, h1.ip, h1.cy, h1.size⟩, h2⟩

/-! ### RLC r, RRC r -/

/-- `SimulatesCb` for templates that use r14b as scratch: the status byte is left at 0 or 0x80 (class normal) -/
def SimulatesCbS (b1 b2 : Nat) : Prop :=
  ∃ code, decodeCode (Gen.emitCb b1) = some code ∧
  ∀ (β : Type) (B : BusOps β) (g : Regs) (m : β) (fuel : Nat) (st st' : St β), Sim g st → st.pc = 0 →
    run B code (bytesOf (Gen.emitCb b1)) fuel st = .ok st' →
    ∃ g', runOp B (Gen.decode 0xcb b1 b2).1 g m (Gen.decode 0xcb b1 b2).2.1 = .ok (g', m, STATUS_NORMAL) ∧
      Sim { g' with cycles := g'.cycles + (Gen.decode 0xcb b1 b2).2.2 / 4 } st' ∧
      st'.bus = st.bus ∧ st'.stack = st.stack ∧ (get8 st' (.lo 14) = 0 ∨ get8 st' (.lo 14) = 0x80)

def Rc2.op : Rc2 → Reg8 → Op
  | .rlc, r => .RotateLeftCarry r | .rrc, r => .RotateRightCarry r
def Rc2.base : Rc2 → Nat
  | .rlc => 0x00 | .rrc => 0x08
def opcodeRc (k : Rc2) (r : Reg8) : Nat := k.base + r8code r

theorem table_rc (k : Rc2) (r : Reg8) (b2 : Nat) :
    decodeCode (Gen.emitCb (opcodeRc k r)) = some ((rotcBody k r (aluOff' 2) ++ zTail r 33 35 39 42) ++ [(45, addIp 2), (49, addCy 2)]) ∧
    bytesOf (Gen.emitCb (opcodeRc k r)) = 53 ∧ Gen.decode 0xcb (opcodeRc k r) b2 = (k.op r, 2, 8) := by
  cases k <;> cases r <;> exact ⟨by decide +kernel, by decide +kernel, rfl⟩

theorem getReg_flagsRotC (g1 : Regs) (res : Nat × Bool) (r : Reg8) : getReg (flagsRot g1 res false) r = getReg g1 r := by
  have hp := rotFlagsC_pack g1 res
  obtain ⟨q1, q2, q3, _, _, _⟩ := sameButAf_flagsRotC g1 res
  have hlt : ((g1.af % 256 &&& 0x0f) ||| (if res.2 then 0x10 else 0)) < 256 := by
    apply Nat.or_lt_two_pow (n := 8)
    · exact Nat.lt_of_le_of_lt Nat.and_le_right (by decide)
    · split <;> decide
  have hA := getReg_lt g1 .A
  cases r
  · show getHi (flagsRot g1 res false).af = getReg g1 .A
    rw [getHi_eq, hp]; omega
  all_goals simp only [getReg]
  · rw [← q1]
  · rw [← q1]
  · rw [← q2]
  · rw [← q2]
  · rw [← q3]
  · rw [← q3]

/-- **RLC r, RRC r** (2 x 7 registers): all states -/
theorem sim_rc (k : Rc2) (r : Reg8) (b2 : Nat) : SimulatesCbS (opcodeRc k r) b2 := by
  obtain ⟨hdec, hbytes, hop⟩ := table_rc k r b2
  refine ⟨_, hdec, ?_⟩
  intro β B g m fuel st st' hsim hpc hrun
  rw [hbytes] at hrun
  rw [hop]
  show ∃ g', runOp B (k.op r) g m 2 = .ok (g', m, STATUS_NORMAL) ∧ Sim { g' with cycles := g'.cycles + 8 / 4 } st' ∧ _
  rw [show (8 : Nat) / 4 = 2 from rfl]
  refine ⟨advance (flagsRot (setReg g r (k.res (getReg g r)).1) (k.res (getReg g r)) true) 2, by cases k <;> rfl, ?_⟩
  have hst : straight ((rotcBody k r (aluOff' 2) ++ zTail r 33 35 39 42) ++ [(45, addIp 2), (49, addCy 2)]) :=
    straight_app (straight_app (straight_rotcBody k r _) (straight_zTail r _ _ _ _)) (by
      intro p hp
      simp only [List.mem_cons, List.not_mem_nil, or_false] at hp
      rcases hp with e | e <;> subst e <;> exact ⟨fun _ _ e => Instr.noConfusion e, fun _ e => Instr.noConfusion e⟩)
  have hex := run_execList B _ 53 (by cases k <;> cases r <;> rfl) hst 17 0 rfl fuel st st' (by rw [hpc]; rfl) hrun
  rw [List.drop_zero] at hex
  obtain ⟨s6, hb, ht⟩ := execList_append B 53 _ (rotcBody k r (aluOff' 2) ++ zTail r 33 35 39 42) st st' hex
  obtain ⟨s3, hb1, hb2⟩ := execList_append B 45 _ (rotcBody k r (aluOff' 2)) st s6 hb
  obtain ⟨hs3, hu3⟩ := rotc_body B k r (aluOff' 2) 33 g st s3 hsim hb1
  generalize hg1 : setReg g r (k.res (getReg g r)).1 = g1 at hs3 ⊢
  have hxlt := (rot1_res k (getReg g r) (getReg_lt g r) fl0).2.2
  have hx : getReg g1 r = (k.res (getReg g r)).1 := by rw [← hg1]; exact getReg_setReg_self g r _ hxlt
  generalize hres : k.res (getReg g r) = res at hs3 hx ⊢
  have hlt : ((g1.af % 256 &&& 0x0f) ||| (if res.2 then 0x10 else 0)) < 256 := by
    apply Nat.or_lt_two_pow (n := 8)
    · exact Nat.lt_of_le_of_lt Nat.and_le_right (by decide)
    · split <;> decide
  obtain ⟨hs6, hbus, hstk, h14⟩ := ztail_body B r 33 35 39 42 45 (flagsRot g1 res false) (getReg g1 .A) _ (getReg_lt g1 .A) hlt
    (rotFlagsC_pack g1 res) s3 s6 hs3 hb2
  rw [getReg_flagsRotC, hx] at hs6
  have hs6' : Sim (flagsRot g1 res true) s6 := hs6
  obtain ⟨hs7, hu⟩ := sim_tail B hs6' 45 49 53 2 2 (by decide) (by decide) ht
  refine ⟨⟨hs7.af, hs7.hl, hs7.de, hs7.bc, hs7.sp, hs7.ip, hs7.cy, hs7.size⟩, by rw [hu.bus, hbus, hu3.bus], by rw [hu.stack, hstk, hu3.stack], ?_⟩
  have : get8 st' (.lo 14) = get8 s6 (.lo 14) := by
    show (get st' 14).toNat % 256 = (get s6 14).toNat % 256
    rw [hu.r14]
  rw [this]; exact h14

end GbVerif.X86
