import GbVerif.Proofs.X86Host
/-
"Templates cannot go wrong": the generic path walk also bounds the FAULTS of a run.  If the transfer function refuses
every instruction whose step could fault for a reason other than a bus panic (`Safe`), then every run of the code with
enough fuel either completes or stops with the panic of a bus access — it never pops below its frame, reads or writes
outside its own stack slots, calls through an unknown pointer, lands between instructions, leaves the code, or runs
out of fuel.
-/
namespace GbVerif.X86
open GbVerif.JitCycles GbVerif.JitPaths GbVerif.X86Wf
variable {β : Type} {A : Type}

def isBus : Fault → Prop
  | .bus _ => True
  | _ => False

structure Safe (B : Interp.BusOps β) (tr : Instr → A → Option A) (R : A → St β → Prop) : Prop where
  step : ∀ ins a a' s len e, (∀ c rel, ins ≠ .jcc c rel) → (∀ rel, ins ≠ .jmp rel) → tr ins a = some a' →
    R a s → s.r.size = 16 → step B s ins len = .error e → isBus e

/-- one iteration of `run` at instruction `i`, whatever the outcome -/
theorem run_unfold' (B : Interp.BusOps β) {code : List (Nat × Instr)} {endOff : Nat} (hok : codeOk code endOff = true)
    {i off : Nat} {ins : Instr} (hget : code[i]? = some (off, ins)) {s : St β} (hpc : s.pc = off) {fr : Nat} :
    run B code endOff (fr + 1) s =
      match step B s ins (offAt code endOff (i + 1) - off) with
      | .ok s' => run B code endOff fr s'
      | .error e => .error e := by
  have hi : i < code.length := by
    rcases Nat.lt_or_ge i code.length with h' | h'
    · exact h'
    · rw [List.getElem?_eq_none h'] at hget; cases hget
  obtain ⟨h1, h2, _⟩ := codeOk_at hok hi
  have ho := offAt_of_get (endOff := endOff) hget
  rw [ho] at h1 h2
  rw [run]
  have hne : (s.pc == endOff) = false := by rw [hpc]; simpa using h2
  rw [hne]
  simp only [Bool.false_eq_true, if_false]
  rw [hpc, h1]
  simp only [hget]
  rfl

theorem paths_safe (B : Interp.BusOps β) (tr : Instr → A → Option A) (R : A → St β → Prop) (hC : Carries B tr R)
    (hS : Safe B tr R) (code : List (Nat × Instr)) (endOff : Nat) (hok : codeOk code endOff = true) :
    ∀ (fa i : Nat) (a : A) (L : List A), paths tr code endOff i fa a = some L →
    ∀ (fr : Nat) (s : St β) (e : Fault), s.r.size = 16 → s.pc = offAt code endOff i → R a s → code.length < i + fr →
      run B code endOff fr s = .error e → isBus e := by
  intro fa
  induction fa with
  | zero => intro i a L h; simp [paths] at h
  | succ fa ih =>
    intro i a L h fr s e hsz hpc hR hfuel hrun
    cases fr with
    | zero =>
      -- no fuel left means i > code.length, which the walk excludes
      rw [paths] at h
      have : code[i]? = none := List.getElem?_eq_none (by omega)
      rw [this] at h; simp only [] at h
      split at h
      · rename_i hi; have : i = code.length := by simpa using hi
        omega
      · cases h
    | succ fr =>
    rw [paths] at h
    cases hget : code[i]? with
    | none =>
      rw [hget] at h; simp only [] at h
      split at h
      · have hoe : offAt code endOff i = endOff := by unfold offAt; rw [hget]
        rw [run] at hrun
        have hpe : (s.pc == endOff) = true := by rw [hpc, hoe]; simp
        rw [hpe] at hrun; simp only [if_true] at hrun
        cases hrun
      · cases h
    | some p =>
      obtain ⟨off, ins⟩ := p
      rw [hget] at h; simp only [] at h
      have hoff := offAt_of_get (endOff := endOff) hget
      have hspc : s.pc = off := hpc.trans hoff
      rw [run_unfold' B hok hget hspc] at hrun
      have hi : i < code.length := by
        rcases Nat.lt_or_ge i code.length with h' | h'
        · exact h'
        · rw [List.getElem?_eq_none h'] at hget; cases hget
      obtain ⟨_, _, hmono⟩ := codeOk_at hok hi
      rw [hoff] at hmono
      have hlen : off + (offAt code endOff (i + 1) - off) = offAt code endOff (i + 1) := by omega
      cases hstep : step B s ins (offAt code endOff (i + 1) - off) with
      | error e' =>
        rw [hstep] at hrun
        simp only [] at hrun
        injection hrun with hrun; subst hrun
        split at h
        · simp only [step] at hstep; cases hstep
        · simp only [step] at hstep; cases hstep
        · rename_i hj1 hj2
          split at h
          · rename_i a' htr
            exact hS.step ins a a' s _ e' hj1 hj2 htr hR hsz hstep
          · cases h
      | ok s1 =>
        rw [hstep] at hrun
        simp only [] at hrun
        obtain ⟨hsz1, hpcn⟩ := step_size_pc B s s1 ins _ hstep
        rw [hsz] at hsz1
        split at h
        · -- jcc
          rename_i c rel
          split at h
          · cases h
          · rename_i hrel
            have hrel' : rel < 128 := by omega
            split at h
            · rename_i j hidx
              have hidx' : JitCycles.indexOf code endOff (offAt code endOff (i + 1) + rel) = some j := hidx
              split at h
              · cases h
              · rename_i hji
                split at h
                · rename_i x y hx hy
                  simp only [step] at hstep
                  injection hstep with hstep
                  by_cases hcond : condHolds s.fl c = true
                  · have hpc1 : s1.pc = offAt code endOff j := by
                      rw [indexOf_offAt hidx', ← hstep]
                      simp only [hcond, if_true]
                      show s.pc + _ + tokVal _ rel = _
                      rw [tokVal_lit _ _ hrel', hspc, hlen]
                    have hR1 : R a s1 := by
                      rw [← hstep]; simp only [hcond, if_true]
                      exact hC.pc _ _ _ (hC.pc _ _ _ hR)
                    exact ih j a y hy fr s1 e hsz1 hpc1 hR1 (by omega) hrun
                  · have hpc1 : s1.pc = offAt code endOff (i + 1) := by
                      rw [← hstep]
                      simp only [hcond, Bool.false_eq_true, if_false]
                      show s.pc + _ = _
                      rw [hspc, hlen]
                    have hR1 : R a s1 := by
                      rw [← hstep]; simp only [hcond, Bool.false_eq_true, if_false]
                      exact hC.pc _ _ _ hR
                    exact ih (i + 1) a x hx fr s1 e hsz1 hpc1 hR1 (by omega) hrun
                · cases h
            · cases h
        · -- jmp
          rename_i rel
          split at h
          · cases h
          · rename_i hrel
            have hrel' : rel < 128 := by omega
            split at h
            · rename_i j hidx
              have hidx' : JitCycles.indexOf code endOff (offAt code endOff (i + 1) + rel) = some j := hidx
              split at h
              · cases h
              · rename_i hji
                simp only [step] at hstep
                injection hstep with hstep
                have hpc1 : s1.pc = offAt code endOff j := by
                  rw [indexOf_offAt hidx', ← hstep]
                  show s.pc + _ + tokVal _ rel = _
                  rw [tokVal_lit _ _ hrel', hspc, hlen]
                have hR1 : R a s1 := by
                  rw [← hstep]
                  exact hC.pc _ _ _ (hC.pc _ _ _ hR)
                exact ih j a L h fr s1 e hsz1 hpc1 hR1 (by omega) hrun
            · cases h
        · rename_i hj1 hj2
          split at h
          · rename_i a' htr
            have hpc1 : s1.pc = offAt code endOff (i + 1) := by rw [hpcn hj1 hj2, hspc, hlen]
            have hR1 : R a' s1 := hC.step ins a a' s s1 _ hj1 hj2 htr hR hsz hstep
            exact ih (i + 1) a' L h fr s1 e hsz1 hpc1 hR1 (by omega) hrun
          · cases h

end GbVerif.X86

namespace GbVerif.X86
open GbVerif.JitCycles GbVerif.JitPaths GbVerif.X86Wf
variable {β : Type}

/-- a fault of the helper call is a bus panic, once rdi holds the memory base and rax one of the five helper pointers -/
theorem callBus_error (B : Interp.BusOps β) (s : St β) (e : Fault) (p : Nat) (hp1 : 513 ≤ p) (hp2 : p ≤ 517)
    (hrax : get s 0 = ptrVal p) (hrdi : get s 7 = ptrVal 512) (h : callBus B s = .error e) : isBus e := by
  unfold callBus at h
  simp only [bind, Except.bind, pure, Except.pure] at h
  split at h
  · rename_i hne
    rw [hrdi] at hne
    simp at hne
  · split at h
    · rename_i e' he
      injection h with h; subst h
      rw [hrax] at he
      unfold helperCall at he
      simp only [bind, Except.bind, pure, Except.pure] at he
      have hp : p = 513 ∨ p = 514 ∨ p = 515 ∨ p = 516 ∨ p = 517 := by omega
      rcases hp with q | q | q | q | q <;> subst q
      · rw [if_pos (by decide)] at he
        split at he
        · rename_i e2 h2
          injection he with he; subst he
          split at h2
          · cases h2
          · injection h2 with h2; subst h2; trivial
        · cases he
      · rw [if_neg (by decide), if_pos (by decide)] at he
        split at he
        · rename_i e2 h2
          injection he with he; subst he
          split at h2
          · cases h2
          · injection h2 with h2; subst h2; trivial
        · cases he
      · rw [if_neg (by decide), if_neg (by decide), if_pos (by decide)] at he
        split at he
        · rename_i e2 h2
          injection he with he; subst he
          split at h2
          · cases h2
          · injection h2 with h2; subst h2; trivial
        · split at he
          · rename_i e2 h2
            injection he with he; subst he
            split at h2
            · cases h2
            · injection h2 with h2; subst h2; trivial
          · cases he
      · rw [if_neg (by decide), if_neg (by decide), if_neg (by decide), if_pos (by decide)] at he
        split at he
        · rename_i e2 h2
          injection he with he; subst he
          split at h2
          · cases h2
          · injection h2 with h2; subst h2; trivial
        · split at he
          · rename_i e2 h2
            injection he with he; subst he
            split at h2
            · cases h2
            · injection h2 with h2; subst h2; trivial
          · cases he
      · rw [if_neg (by decide), if_neg (by decide), if_neg (by decide), if_neg (by decide), if_pos (by decide)] at he
        split at he
        · rename_i e2 h2
          injection he with he; subst he
          split at h2
          · cases h2
          · injection h2 with h2; subst h2; trivial
        · split at he
          · rename_i e2 h2
            injection he with he; subst he
            split at h2
            · cases h2
            · injection h2 with h2; subst h2; trivial
          · cases he
    · split at h
      · rename_i e' he
        exfalso
        -- the clobber loop cannot fail
        have : ∀ (l : List Nat) (s0 : St β) (e : Fault),
            forIn l s0 (fun i s => (Except.ok (ForInStep.yield (set (nextJunk s).2 i (nextJunk s).1)) : Except Fault _)) ≠ Except.error e := by
          intro l
          induction l with
          | nil => intro s0 e h; simp only [List.forIn_nil, pure, Except.pure] at h; cases h
          | cons i l ih => intro s0 e h; simp only [List.forIn_cons, bind, Except.bind] at h; exact ih _ _ h
        exact this _ _ _ he
      · cases h

end GbVerif.X86

namespace GbVerif.X86
open GbVerif.JitCycles GbVerif.JitPaths GbVerif.X86Wf
variable {β : Type}

theorem stackRead_error {s : St β} {off n : Nat} {e : Fault} (h : stackRead s off n = .error e) :
    off % 8 + n > 8 ∨ s.stack.length ≤ off / 8 := by
  unfold stackRead at h
  simp only [] at h
  split at h
  · rename_i hs; exact Or.inl hs
  · split at h
    · cases h
    · rename_i hn
      right
      rcases Nat.lt_or_ge (off / 8) s.stack.length with h' | h'
      · rw [List.getElem?_eq_getElem h'] at hn; cases hn
      · exact h'

theorem stackWrite_error {s : St β} {off n v : Nat} {e : Fault} (h : stackWrite s off n v = .error e) :
    off % 8 + n > 8 ∨ s.stack.length ≤ off / 8 := by
  unfold stackWrite at h
  simp only [] at h
  split at h
  · rename_i hs; exact Or.inl hs
  · split at h
    · cases h
    · rename_i hn
      right
      rcases Nat.lt_or_ge (off / 8) s.stack.length with h' | h'
      · rw [List.getElem?_eq_getElem h'] at hn; cases hn
      · exact h'

theorem host_safe (B : Interp.BusOps β) (stack0 : List W) (rbp0 : W) :
    Safe B JitHost.trHost (HostRel (β := β) stack0 rbp0) where
  step := by
    intro ins a a' s len e hj1 hj2 htr hR hsz hstep
    obtain ⟨hlen, hdrop, hrbp, hrax, hrdi⟩ := hR
    cases ins
    all_goals simp only [step] at hstep
    all_goals try (cases hstep; done)
    case load sz d base disp =>
      exfalso
      unfold JitHost.trHost at htr
      simp only [] at htr
      split at htr
      · cases htr
      · rename_i hal
        have hb : (base == 4 && decide (disp / 8 < a.depth)) = true := by
          unfold absStep at htr
          simp only [] at htr
          split at htr
          · cases htr
          · split at htr
            · cases htr
            · split at htr
              · rename_i hb; exact hb
              · cases htr
        simp only [Bool.and_eq_true, beq_iff_eq, decide_eq_true_eq] at hb
        obtain ⟨hb1, hb2⟩ := hb
        subst hb1
        simp only [beq_self_eq_true, if_true] at hstep
        cases hr : stackRead { s with pc := s.pc + len } disp (bitsOf sz / 8) with
        | ok v => rw [hr] at hstep; simp only [bind, Except.bind, pure, Except.pure] at hstep; cases hstep
        | error e' =>
          rcases stackRead_error hr with h1 | h1
          · omega
          · have : ({ s with pc := s.pc + len } : St β).stack.length = s.stack.length := rfl
            omega
    case store sz base disp src =>
      exfalso
      unfold JitHost.trHost at htr
      simp only [] at htr
      split at htr
      · cases htr
      · rename_i hal
        have hb : (base == 4 && decide (disp / 8 < a.depth)) = true := by
          unfold absStep at htr
          simp only [] at htr
          split at htr
          · cases htr
          · split at htr
            · cases htr
            · split at htr
              · rename_i hb; exact hb
              · cases htr
        simp only [Bool.and_eq_true, beq_iff_eq, decide_eq_true_eq] at hb
        obtain ⟨hb1, hb2⟩ := hb
        subst hb1
        simp only [beq_self_eq_true, if_true] at hstep
        rcases stackWrite_error hstep with h1 | h1
        · omega
        · have : ({ s with pc := s.pc + len } : St β).stack.length = s.stack.length := rfl
          omega
    case store8 base disp src =>
      exfalso
      have htr' := trHost_abs htr
      have hb : (base == 4 && decide (disp / 8 < a.depth)) = true := by
        unfold absStep at htr'
        simp only [] at htr'
        split at htr'
        · cases htr'
        · split at htr'
          · cases htr'
          · split at htr'
            · rename_i hb; exact hb
            · cases htr'
      simp only [Bool.and_eq_true, beq_iff_eq, decide_eq_true_eq] at hb
      obtain ⟨hb1, hb2⟩ := hb
      subst hb1
      simp only [beq_self_eq_true, if_true] at hstep
      rcases stackWrite_error hstep with h1 | h1
      · omega
      · have : ({ s with pc := s.pc + len } : St β).stack.length = s.stack.length := rfl
        omega
    case pop r =>
      exfalso
      have htr' := trHost_abs htr
      have hd : a.depth ≠ 0 := by
        unfold absStep at htr'
        simp only [] at htr'
        split at htr'
        · cases htr'
        · split at htr'
          · cases htr'
          · split at htr'
            · cases htr'
            · rename_i hd; simpa using hd
      split at hstep
      · cases hstep
      · rename_i hs
        have : s.stack = [] := hs
        rw [this] at hlen; simp only [List.length_nil] at hlen; omega
    case popf =>
      exfalso
      have htr' := trHost_abs htr
      have hd : a.depth ≠ 0 := by
        unfold absStep at htr'
        simp only [] at htr'
        split at htr'
        · cases htr'
        · split at htr'
          · cases htr'
          · split at htr'
            · cases htr'
            · rename_i hd; simpa using hd
      split at hstep
      · cases hstep
      · rename_i hs
        have : s.stack = [] := hs
        rw [this] at hlen; simp only [List.length_nil] at hlen; omega
    case callRax =>
      have htr' := trHost_abs htr
      have e1 : absStep .callRax a =
          (if (a.raxPtr && a.rdiMem) = true then some { a with raxPtr := false, rdiMem := false } else none) := rfl
      rw [e1] at htr'
      split at htr'
      · rename_i hc
        simp only [Bool.and_eq_true] at hc
        obtain ⟨p, hp1, hp2, hp3⟩ := hrax hc.1
        have h' : callBus B ({ s with pc := s.pc + len } : St β) = .error e := hstep
        have hp3' : get ({ s with pc := s.pc + len } : St β) 0 = ptrVal p := hp3
        have hrdi' : get ({ s with pc := s.pc + len } : St β) 7 = ptrVal 512 := hrdi hc.2
        exact callBus_error B ({ s with pc := s.pc + len } : St β) e p hp1 hp2 hp3' hrdi' h'
      · cases htr'
    case jmpReg r =>
      exfalso
      have htr' := trHost_abs htr
      unfold absStep at htr'
      simp only [] at htr'
      split at htr'
      · cases htr'
      · split at htr'
        · cases htr'
        · cases htr'
    case ret =>
      exfalso
      have htr' := trHost_abs htr
      unfold absStep at htr'
      simp only [] at htr'
      split at htr'
      · cases htr'
      · split at htr'
        · cases htr'
        · cases htr'

end GbVerif.X86

namespace GbVerif.X86
open GbVerif.JitCycles GbVerif.JitPaths GbVerif.X86Wf
variable {β : Type} {A : Type}

theorem analyse_safe (B : Interp.BusOps β) (tr : Instr → A → Option A) (init : A) (fin : A → Option Nat)
    (R : A → St β → Prop) (hC : Carries B tr R) (hS : Safe B tr R)
    (tokens : List Nat) (code : List (Nat × Instr)) (C : List Nat)
    (hdec : decodeCode tokens = some code) (hok : codeOk code (bytesOf tokens) = true) (hA : analyse tr init fin tokens = some C)
    (fr : Nat) (s : St β) (e : Fault) (hsz : s.r.size = 16) (hpc : s.pc = offAt code (bytesOf tokens) 0) (hR : R init s)
    (hfuel : code.length < fr) (hrun : run B code (bytesOf tokens) fr s = .error e) : isBus e := by
  unfold analyse at hA
  rw [hdec] at hA
  simp only [] at hA
  cases hL : paths tr code (bytesOf tokens) 0 (code.length + 2) init with
  | none => rw [hL] at hA; cases hA
  | some L =>
    exact paths_safe B tr R hC hS code (bytesOf tokens) hok _ 0 init L hL fr s e hsz hpc hR (by omega) hrun

/-- **templates cannot go wrong**: a run of a template with more fuel than it has instructions either completes or stops
with the panic of a bus access -/
theorem hostOk_safe (B : Interp.BusOps β) (tokens : List Nat) (code : List (Nat × Instr)) (C : List Nat)
    (hdec : decodeCode tokens = some code) (hok : codeOk code (bytesOf tokens) = true) (hC : JitHost.hostOk tokens = some C)
    (fr : Nat) (s : St β) (e : Fault) (hsz : s.r.size = 16) (hpc : s.pc = offAt code (bytesOf tokens) 0)
    (hfuel : code.length < fr) (hrun : run B code (bytesOf tokens) fr s = .error e) : isBus e := by
  have hR : HostRel (β := β) s.stack (get s 5) {} s :=
    ⟨rfl, rfl, rfl, fun h => Bool.noConfusion h, fun h => Bool.noConfusion h⟩
  exact analyse_safe B JitHost.trHost {} (fun a => if a.depth == 0 then some 0 else none) _
    (host_carries' B s.stack (get s 5)) (host_safe B s.stack (get s 5)) tokens code C hdec hok hC fr s e hsz hpc hR hfuel hrun

end GbVerif.X86
