import GbVerif.Proofs.X86Frame
/-!
More about one step of the x86 model: the register file keeps its 16 entries, and every instruction except the two jumps
leaves the program counter at the next instruction.
-/
namespace GbVerif.X86
open GbVerif.JitCycles
variable {β : Type}

theorem size_set (s : St β) (i : Nat) (v : W) : (set s i v).r.size = s.r.size := by unfold set; simp
theorem size_set8 (s : St β) (r : R8) (v : Nat) : (set8 s r v).r.size = s.r.size := by cases r <;> simp only [set8] <;> exact size_set _ _ _
theorem size_setSz (s : St β) (sz : Size) (i v : Nat) : (setSz s sz i v).r.size = s.r.size := by
  cases sz <;> simp only [setSz] <;> exact size_set _ _ _
theorem pc_set (s : St β) (i : Nat) (v : W) : (set s i v).pc = s.pc := rfl
theorem pc_set8 (s : St β) (r : R8) (v : Nat) : (set8 s r v).pc = s.pc := by cases r <;> rfl
theorem pc_setSz (s : St β) (sz : Size) (i v : Nat) : (setSz s sz i v).pc = s.pc := by cases sz <;> rfl

theorem stackWrite_size_pc {s s' : St β} {off n v : Nat} (h : stackWrite s off n v = .ok s') : s'.r.size = s.r.size ∧ s'.pc = s.pc := by
  unfold stackWrite at h
  simp only [] at h
  split at h
  · cases h
  · split at h
    · injection h with h; subst h; exact ⟨rfl, rfl⟩
    · cases h

theorem clobber_size_pc : ∀ (l : List Nat) (s0 v : St β),
    forIn l s0 (fun i s => (Except.ok (ForInStep.yield (set (nextJunk s).2 i (nextJunk s).1)) : Except Fault _)) = Except.ok v →
    v.r.size = s0.r.size ∧ v.pc = s0.pc := by
  intro l
  induction l with
  | nil => intro s0 v h; simp only [List.forIn_nil, pure, Except.pure] at h; injection h with h; subst h; exact ⟨rfl, rfl⟩
  | cons i l ih =>
    intro s0 v h
    simp only [List.forIn_cons, bind, Except.bind] at h
    obtain ⟨h1, h2⟩ := ih _ v h
    exact ⟨by rw [h1, size_set]; rfl, by rw [h2, pc_set]; rfl⟩

theorem tail_size (v : St β) (w : W) : (nextJunk (set (nextJunk v).2 0 w)).2.r.size = v.r.size := by
  have : (nextJunk (set (nextJunk v).2 0 w)).2.r = (set (nextJunk v).2 0 w).r := rfl
  rw [this, size_set]; rfl
theorem tail_pc (v : St β) (w : W) : (nextJunk (set (nextJunk v).2 0 w)).2.pc = v.pc := rfl

theorem callBus_size_pc (B : Interp.BusOps β) (s s' : St β) (h : callBus B s = .ok s') : s'.r.size = s.r.size ∧ s'.pc = s.pc := by
  unfold callBus at h
  simp only [bind, Except.bind, pure, Except.pure] at h
  split at h
  · cases h
  · split at h
    · cases h
    · split at h
      · cases h
      · rename_i v hv
        injection h with h
        obtain ⟨e1, e2⟩ := clobber_size_pc _ _ v hv
        have hr := congrArg St.r h
        have hp := congrArg St.pc h
        simp only [] at hr hp
        constructor
        · rw [← hr]; exact (tail_size v _).trans e1
        · rw [← hp]; exact (tail_pc v _).trans e2


/-- one step keeps the size of the register file, and leaves the program counter at the next instruction unless it is a jump -/
theorem step_size_pc (B : Interp.BusOps β) (s s' : St β) (ins : Instr) (len : Nat) (h : step B s ins len = .ok s') :
    s'.r.size = s.r.size ∧ ((∀ c rel, ins ≠ .jcc c rel) → (∀ rel, ins ≠ .jmp rel) → s'.pc = s.pc + len) := by
  cases ins
  all_goals simp only [step] at h
  case callRax =>
    obtain ⟨e1, e2⟩ := callBus_size_pc B _ s' h
    exact ⟨e1, fun _ _ => e2⟩
  case alu8 op d src =>
    injection h with h; subst h
    by_cases ho : op = .cmp
    · subst ho; exact ⟨rfl, fun _ _ => rfl⟩
    · simp only [ho, beq_iff_eq, if_false]; exact ⟨size_set8 _ _ _, fun _ _ => pc_set8 _ _ _⟩
  case alu8i op d imm =>
    injection h with h; subst h
    by_cases ho : op = .cmp
    · subst ho; exact ⟨rfl, fun _ _ => rfl⟩
    · simp only [ho, beq_iff_eq, if_false]; exact ⟨size_set8 _ _ _, fun _ _ => pc_set8 _ _ _⟩
  case aluI op sz d imm sx =>
    injection h with h; subst h
    by_cases ho : op = .cmp
    · subst ho; exact ⟨rfl, fun _ _ => rfl⟩
    · simp only [ho, beq_iff_eq, if_false]; exact ⟨size_setSz _ _ _ _, fun _ _ => pc_setSz _ _ _ _⟩
  case alu op sz d src =>
    injection h with h; subst h
    by_cases ho : op = .cmp
    · subst ho; exact ⟨rfl, fun _ _ => rfl⟩
    · simp only [ho, beq_iff_eq, if_false]; exact ⟨size_setSz _ _ _ _, fun _ _ => pc_setSz _ _ _ _⟩
  case test8i r imm => injection h with h; subst h; exact ⟨rfl, fun _ _ => rfl⟩
  case not8 r => injection h with h; subst h; exact ⟨size_set8 _ _ _, fun _ _ => pc_set8 _ _ _⟩
  case incdec8 dec r => injection h with h; subst h; exact ⟨size_set8 _ _ _, fun _ _ => pc_set8 _ _ _⟩
  case incdec16 dec r => injection h with h; subst h; exact ⟨size_setSz _ _ _ _, fun _ _ => pc_setSz _ _ _ _⟩
  case sh8 op r c => injection h with h; subst h; exact ⟨size_set8 _ _ _, fun _ _ => pc_set8 _ _ _⟩
  case sh32 op r c => injection h with h; subst h; exact ⟨size_setSz _ _ _ _, fun _ _ => pc_setSz _ _ _ _⟩
  case mov8 d src => injection h with h; subst h; exact ⟨size_set8 _ _ _, fun _ _ => pc_set8 _ _ _⟩
  case mov8i d imm => injection h with h; subst h; exact ⟨size_set8 _ _ _, fun _ _ => pc_set8 _ _ _⟩
  case mov sz d src => injection h with h; subst h; exact ⟨size_setSz _ _ _ _, fun _ _ => pc_setSz _ _ _ _⟩
  case movi16 d imm => injection h with h; subst h; exact ⟨size_setSz _ _ _ _, fun _ _ => pc_setSz _ _ _ _⟩
  case movabs d ptr => injection h with h; subst h; exact ⟨size_set _ _ _, fun _ _ => pc_set _ _ _⟩
  case load sz d base disp =>
    split at h
    · cases hr : stackRead { s with pc := s.pc + len } disp (bitsOf sz / 8) with
      | error e => rw [hr] at h; cases h
      | ok v =>
        rw [hr] at h
        simp only [bind, Except.bind, pure, Except.pure] at h
        injection h with h; subst h
        exact ⟨size_setSz _ _ _ _, fun _ _ => pc_setSz _ _ _ _⟩
    · cases h
  case store sz base disp src =>
    split at h
    · obtain ⟨e1, e2⟩ := stackWrite_size_pc h; exact ⟨e1, fun _ _ => e2⟩
    · cases h
  case store8 base disp src =>
    split at h
    · obtain ⟨e1, e2⟩ := stackWrite_size_pc h; exact ⟨e1, fun _ _ => e2⟩
    · cases h
  case sete r => injection h with h; subst h; exact ⟨size_set8 _ _ _, fun _ _ => pc_set8 _ _ _⟩
  case bt r bit => injection h with h; subst h; exact ⟨rfl, fun _ _ => rfl⟩
  case push r => injection h with h; subst h; exact ⟨rfl, fun _ _ => rfl⟩
  case pop r =>
    split at h
    · injection h with h; subst h; exact ⟨size_set _ _ _, fun _ _ => pc_set _ _ _⟩
    · cases h
  case pushf => injection h with h; subst h; exact ⟨rfl, fun _ _ => rfl⟩
  case popf =>
    split at h
    · injection h with h; subst h; exact ⟨rfl, fun _ _ => rfl⟩
    · cases h
  case jcc c rel => injection h with h; subst h; exact ⟨by split <;> rfl, fun hc _ => absurd rfl (hc c rel)⟩
  case jmp rel => injection h with h; subst h; exact ⟨rfl, fun _ hj => absurd rfl (hj rel)⟩
  case nop => injection h with h; subst h; exact ⟨rfl, fun _ _ => rfl⟩
  case jmpReg r => cases h
  case ret => cases h

end GbVerif.X86

namespace GbVerif.X86
variable {β : Type}

theorem get_set_eq (s : St β) (i : Nat) (v : W) (h : i < s.r.size) : get (set s i v) i = v := by
  unfold get set
  simp only [Array.getD_eq_getD_getElem?]
  rw [Array.getElem?_setIfInBounds_self_of_lt h]
  rfl

theorem add_ne_cmp : (AluOp.add == AluOp.cmp) = false := by decide

set_option maxRecDepth 4000 in
/-- `add r15, n` with a literal `n < 128` adds `n` to r15 (mod 2^64) -/
theorem step_add_r15 (B : Interp.BusOps β) (s s' : St β) (n len : Nat) (hn : n < 128) (hs : s.r.size = 16)
    (h : step B s (.aluI .add .q 15 [n] true) len = .ok s') : (get s' 15).toNat = ((get s 15).toNat + n) % 2 ^ 64 := by
  have htok : ∀ t : St β, tokVal t n = n := by
    intro t
    unfold tokVal
    have h1 : (n == 256) = false := by simp; omega
    have h2 : (n == 257) = false := by simp; omega
    simp only [h1, h2, Bool.false_eq_true, if_false]
    omega
  have himm : ∀ t : St β, immLE t [n] = n := by
    intro t; unfold immLE; simp only [List.foldr, htok, Nat.mul_zero, Nat.add_zero]
  have hlt : ¬ n ≥ 128 := by omega
  simp only [step, himm, hlt, if_false, if_true, bitsOf, add_ne_cmp, Bool.false_eq_true] at h
  injection h with h
  have hr := congrArg St.r h
  simp only [] at hr
  unfold get
  rw [← hr]
  show (get (setSz ({ s with pc := s.pc + len } : St β) .q 15 _) 15).toNat = _
  simp only [setSz]
  rw [get_set_eq _ _ _ (by show 15 < s.r.size; omega)]
  rw [BitVec.toNat_ofNat]
  have ha : (get s 15).toNat < 2 ^ 64 := (get s 15).isLt
  have e1 : getSz ({ s with pc := s.pc + len } : St β) .q 15 = (get s 15).toNat := by
    show (get s 15).toNat % 2 ^ 64 = _
    exact Nat.mod_eq_of_lt ha
  simp only [aluOp, e1, Nat.add_zero]
  rw [Nat.mod_mod, Nat.mod_eq_of_lt (show n < 2 ^ 64 by omega)]
  rfl

set_option maxRecDepth 4000 in
/-- `add r, n` (64-bit) with a literal `n < 128` adds `n` to the register (mod 2^64) -/
theorem step_add_q (B : Interp.BusOps β) (s s' : St β) (r n len : Nat) (hr16 : r < 16) (hn : n < 128) (hs : s.r.size = 16)
    (h : step B s (.aluI .add   .q r [n] true) len = .ok s') : (get s' r).toNat = ((get s r).toNat + n) % 2 ^ 64 := by
  have htok : ∀ t : St β, tokVal t n = n := by
    intro t
    unfold tokVal
    have h1 : (n == 256) = false := by simp; omega
    have h2 : (n == 257) = false := by simp; omega
    simp only [h1, h2, Bool.false_eq_true, if_false]
    omega
  have himm : ∀ t : St β, immLE t [n] = n := by
    intro t; unfold immLE; simp only [List.foldr, htok, Nat.mul_zero, Nat.add_zero]
  have hlt : ¬ n ≥ 128 := by omega
  simp only [step, himm, hlt, if_false, if_true, bitsOf, add_ne_cmp, Bool.false_eq_true] at h
  injection h with h
  have hr := congrArg St.r h
  simp only [] at hr
  unfold get
  rw [← hr]
  show (get (setSz ({ s with pc := s.pc + len } : St β) .q r _) r).toNat = _
  simp only [setSz]
  rw [get_set_eq _ _ _ (by show r < s.r.size; omega)]
  rw [BitVec.toNat_ofNat]
  have ha : (get s r).toNat < 2 ^ 64 := (get s r).isLt
  have e1 : getSz ({ s with pc := s.pc + len } : St β) .q r = (get s r).toNat := by
    show (get s r).toNat % 2 ^ 64 = _
    exact Nat.mod_eq_of_lt ha
  simp only [aluOp, e1, Nat.add_zero]
  rw [Nat.mod_mod, Nat.mod_eq_of_lt (show n < 2 ^ 64 by omega)]
  rfl


end GbVerif.X86
