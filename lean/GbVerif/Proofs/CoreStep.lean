import GbVerif.Proofs.CoreIrq
import GbVerif.Proofs.CoreCycles
/-!
The control skeleton of `Core::update` / `run_interp` / `run_code_block` taken apart, for any device function `dev`:
  execute (`Cpu.runNextOp` / `Cpu.runCodeBlock`)  →  apply the status to IME / run state (`afterOp`, `afterBlock`)
  →  catch the devices up (`dev`)  →  sample IF ∧ IE and dispatch (`handleInterrupt` on `sampled`).
Used by C08 (EI delay, DI/RETI, HALT/STOP) and C09 (time conservation, progress).
-/
namespace GbVerif.CoreProofs
open GbVerif.Core GbVerif.Interp

/-! ### the pieces -/

/-- IME after an instruction of `run_interp` completed: a pending EI becomes effective first, then the status acts -/
def imeAfter (ime : Ime) (status : Nat) : Ime :=
  let ime := if ime == .EnableNext then .Enabled else ime
  if status == STATUS_STOP then ime
  else if status == STATUS_HALT then ime
  else if status == STATUS_INTERRUPT_DISABLE then .Disabled
  else if status == STATUS_INTERRUPT_ENABLE then (if ime == .Disabled then .EnableNext else ime)
  else if status == STATUS_INTERRUPT_ENABLE_IMMEDIATE then .Enabled
  else ime

def runAfter (run : RunState) (status : Nat) : RunState :=
  if status == STATUS_STOP then .Stop else if status == STATUS_HALT then .Halt else run

/-- the core state `run_interp` hands to the catch-up, given what `run_next_op` returned -/
def afterOp (c : State) (r : Regs) (b : Bus.State) (status : Nat) : State :=
  { c with regs := r, bus := b, ime := imeAfter c.ime status, run := runAfter c.run status,
           charged := c.charged + (r.cycles - c.regs.cycles) }

/-- IME after a block of `run_code_block`: EI and RETI both enable at once (no delay under block stepping) -/
def imeAfterBlock (ime : Ime) (status : Nat) : Ime :=
  if status == STATUS_STOP then ime
  else if status == STATUS_HALT then ime
  else if status == STATUS_INTERRUPT_DISABLE then .Disabled
  else if status == STATUS_INTERRUPT_ENABLE || status == STATUS_INTERRUPT_ENABLE_IMMEDIATE then .Enabled
  else ime

def afterBlock (c : State) (r : Regs) (b : Bus.State) (status : Nat) : State :=
  { c with regs := r, bus := b, ime := imeAfterBlock c.ime status, run := runAfter c.run status,
           charged := c.charged + (r.cycles - c.regs.cycles) }

/-- the state whose IF ∧ IE `handle_interrupt` samples: cycle counter consumed, devices caught up to `bus` -/
def sampled (c : State) (bus : Bus.State) (record : Bool) : State :=
  { c with regs := { c.regs with cycles := 0 }, lastBlockCycles := if record then c.regs.cycles else c.lastBlockCycles,
           bus := bus, delivered := c.delivered + c.regs.cycles * 4 }

/-- the state `handle_interrupt` samples in a suspended (HALT / STOP) step -/
def sampledHalted (c : State) (bus : Bus.State) : State :=
  { c with bus := bus, delivered := c.delivered + 4, charged := c.charged + 1 }

theorem catchUp_eq (dev : Dev) (c : State) (record : Bool) :
    catchUp dev c record = dev c.bus (c.regs.cycles * 4) >>= fun bus => handleInterrupt (sampled c bus record) := rfl

theorem afterOp_eq (c : State) (r : Regs) (b : Bus.State) (status : Nat) :
    afterOp c r b status =
      (let charged := c.charged + (r.cycles - c.regs.cycles)
       let ime := if c.ime == .EnableNext then .Enabled else c.ime
       let c : State := { c with regs := r, bus := b, ime := ime, charged := charged }
       if status == STATUS_STOP then { c with run := .Stop }
       else if status == STATUS_HALT then { c with run := .Halt }
       else if status == STATUS_INTERRUPT_DISABLE then { c with ime := .Disabled }
       else if status == STATUS_INTERRUPT_ENABLE then (if c.ime == .Disabled then { c with ime := .EnableNext } else c)
       else if status == STATUS_INTERRUPT_ENABLE_IMMEDIATE then { c with ime := .Enabled }
       else c) := by
  simp only [afterOp, imeAfter, runAfter]
  repeat' split
  all_goals first | rfl | (exfalso; simp_all; done) | simp_all

theorem runInterp_eq (dev : Dev) (c : State) :
    runInterp dev c = Cpu.runNextOp c.regs c.bus >>= fun x => catchUp dev (afterOp c x.1 x.2.1 x.2.2.1) false := by
  unfold runInterp
  congr 1
  funext x
  obtain ⟨r, b, status, e⟩ := x
  simp only [afterOp_eq]

theorem afterBlock_eq (c : State) (r : Regs) (b : Bus.State) (status : Nat) :
    afterBlock c r b status =
      (let charged := c.charged + (r.cycles - c.regs.cycles)
       let c : State := { c with regs := r, bus := b, charged := charged }
       if status == STATUS_STOP then { c with run := .Stop }
       else if status == STATUS_HALT then { c with run := .Halt }
       else if status == STATUS_INTERRUPT_DISABLE then { c with ime := .Disabled }
       else if status == STATUS_INTERRUPT_ENABLE || status == STATUS_INTERRUPT_ENABLE_IMMEDIATE then { c with ime := .Enabled }
       else c) := by
  simp only [afterBlock, imeAfterBlock, runAfter]
  repeat' split
  all_goals first | rfl | (exfalso; simp_all; done) | simp_all

theorem runCodeBlockInterp_eq (dev : Dev) (c : State) :
    runCodeBlockInterp dev c =
      Cpu.runCodeBlock c.regs c.bus 65536 >>= fun x => catchUp dev (afterBlock c x.1 x.2.1 x.2.2) true := by
  unfold runCodeBlockInterp
  congr 1
  funext x
  obtain ⟨r, b, status⟩ := x
  simp only [afterBlock_eq]

theorem update_run (dev : Dev) (c : State) (h : c.run = .Run) : update dev c = runInterp dev c := by
  unfold update; rw [h]

theorem update_halted (dev : Dev) (c : State) (h : c.run ≠ .Run) :
    update dev c = dev c.bus 4 >>= fun bus => handleInterrupt (sampledHalted c bus) := by
  unfold update
  split
  · rename_i hr; exact absurd hr h
  · rfl

/-! ### what `handle_interrupt` does to the counters and the control state, with no assumption on the state -/

/-- the three outcomes -/
theorem handleInterrupt_outcomes {c c' : State} (h : handleInterrupt c = .ok c') :
    (activeInterrupts c.bus = 0 ∧ c' = c) ∨
    (activeInterrupts c.bus ≠ 0 ∧ c.ime ≠ .Enabled ∧ c' = { c with run := .Run }) ∨
    (activeInterrupts c.bus ≠ 0 ∧ c.ime = .Enabled ∧ ∃ b1 b2 sp2, c' = dispatched c b1 b2 sp2) := by
  rw [handleInterrupt_unfold] at h
  split at h
  · rename_i h0; injection h with h; exact Or.inl ⟨by simpa using h0, h.symm⟩
  · rename_i h0
    have h0' : activeInterrupts c.bus ≠ 0 := by simpa using h0
    split at h
    · rename_i hi; injection h with h
      exact Or.inr (Or.inl ⟨h0', by intro e; rw [e] at hi; exact absurd hi (by decide), h.symm⟩)
    · rename_i hi
      have hi' : c.ime = .Enabled := by cases hc : c.ime <;> simp_all
      obtain ⟨b1, _, h⟩ := bind_ok_elim h
      obtain ⟨b2, _, h⟩ := bind_ok_elim h
      injection h with h
      exact Or.inr (Or.inr ⟨h0', hi', b1, b2, _, h.symm⟩)

/-- the time invariant of C09: clocks delivered + 4 × (cycles charged but not yet delivered) = 4 × cycles charged -/
def TimeInv (c : State) : Prop := c.delivered + 4 * c.regs.cycles = 4 * c.charged

theorem handleInterrupt_timeInv {c c' : State} (h : handleInterrupt c = .ok c') (hi : TimeInv c) :
    TimeInv c' ∧ c'.delivered = c.delivered := by
  rcases handleInterrupt_outcomes h with ⟨_, rfl⟩ | ⟨_, _, rfl⟩ | ⟨_, _, b1, b2, sp2, rfl⟩
  · exact ⟨hi, rfl⟩
  · exact ⟨hi, rfl⟩
  · refine ⟨?_, rfl⟩
    unfold TimeInv at *
    show c.delivered + 4 * (c.regs.cycles + 5) = 4 * (c.charged + 5)
    omega

/-- no dispatch without IME = Enabled: registers, bus and IME come through unchanged -/
theorem handleInterrupt_no_dispatch {c c' : State} (h : handleInterrupt c = .ok c') (hi : c.ime ≠ .Enabled) :
    c'.regs = c.regs ∧ c'.bus = c.bus ∧ c'.ime = c.ime ∧ c'.charged = c.charged ∧ c'.delivered = c.delivered ∧
    c'.run = (if activeInterrupts c.bus ≠ 0 then .Run else c.run) := by
  rcases handleInterrupt_outcomes h with ⟨h0, rfl⟩ | ⟨h0, _, rfl⟩ | ⟨_, he, _⟩
  · exact ⟨rfl, rfl, rfl, rfl, rfl, by simp [h0]⟩
  · exact ⟨rfl, rfl, rfl, rfl, rfl, by simp [h0]⟩
  · exact absurd he hi

/-- nothing pending: identity -/
theorem handleInterrupt_quiet {c c' : State} (h : handleInterrupt c = .ok c') (h0 : activeInterrupts c.bus = 0) : c' = c := by
  rcases handleInterrupt_outcomes h with ⟨_, rfl⟩ | ⟨h1, _⟩ | ⟨h1, _⟩
  · rfl
  · exact absurd h0 h1
  · exact absurd h0 h1

/-- pending and IME = Enabled: a dispatch — run state Run, IME off, +5 cycles, PC at a vector (or 0 when cancelled) -/
theorem handleInterrupt_dispatch {c c' : State} (h : handleInterrupt c = .ok c') (h0 : activeInterrupts c.bus ≠ 0)
    (hi : c.ime = .Enabled) :
    c'.run = .Run ∧ c'.ime = .Disabled ∧ c'.regs.cycles = c.regs.cycles + 5 ∧ c'.charged = c.charged + 5 ∧
    c'.regs.ip ∈ [0x00, 0x40, 0x48, 0x50, 0x58, 0x60] := by
  rcases handleInterrupt_outcomes h with ⟨h1, _⟩ | ⟨_, h1, _⟩ | ⟨_, _, b1, b2, sp2, rfl⟩
  · exact absurd h1 h0
  · exact absurd hi h1
  · refine ⟨rfl, rfl, rfl, rfl, ?_⟩
    show (chain (activeInterrupts b1)).1 ∈ _
    unfold chain
    repeat' split
    all_goals simp

/-! ### the shape of a step: execute, catch up (`dev`), then sample and dispatch -/

theorem runInterp_shape {dev : Dev} {c c' : State} (h : runInterp dev c = .ok c') :
    ∃ r b st e bus, Cpu.runNextOp c.regs c.bus = .ok (r, b, st, e) ∧ dev b (r.cycles * 4) = .ok bus ∧
      handleInterrupt (sampled (afterOp c r b st) bus false) = .ok c' := by
  rw [runInterp_eq] at h
  obtain ⟨⟨r, b, st, e⟩, h1, h⟩ := bind_ok_elim h
  rw [catchUp_eq] at h
  obtain ⟨bus, h2, h⟩ := bind_ok_elim h
  exact ⟨r, b, st, e, bus, h1, h2, h⟩

theorem runCodeBlockInterp_shape {dev : Dev} {c c' : State} (h : runCodeBlockInterp dev c = .ok c') :
    ∃ r b st bus, Cpu.runCodeBlock c.regs c.bus 65536 = .ok (r, b, st) ∧ dev b (r.cycles * 4) = .ok bus ∧
      handleInterrupt (sampled (afterBlock c r b st) bus true) = .ok c' := by
  rw [runCodeBlockInterp_eq] at h
  obtain ⟨⟨r, b, st⟩, h1, h⟩ := bind_ok_elim h
  rw [catchUp_eq] at h
  obtain ⟨bus, h2, h⟩ := bind_ok_elim h
  exact ⟨r, b, st, bus, h1, h2, h⟩

theorem update_halted_shape {dev : Dev} {c c' : State} (hr : c.run ≠ .Run) (h : update dev c = .ok c') :
    ∃ bus, dev c.bus 4 = .ok bus ∧ handleInterrupt (sampledHalted c bus) = .ok c' := by
  rw [update_halted dev c hr] at h
  obtain ⟨bus, h2, h⟩ := bind_ok_elim h
  exact ⟨bus, h2, h⟩

/-- a `run_interp` step, given what the instruction did and what the devices did -/
theorem runInterp_of {dev : Dev} {c : State} {r : Regs} {b bus : Bus.State} {st : Nat} {e : Bool}
    (hx : Cpu.runNextOp c.regs c.bus = .ok (r, b, st, e)) (hd : dev b (r.cycles * 4) = .ok bus) :
    runInterp dev c = handleInterrupt (sampled (afterOp c r b st) bus false) := by
  rw [runInterp_eq]
  refine (bind_ok hx _).trans ?_
  rw [catchUp_eq]
  exact bind_ok hd _

theorem update_halted_of {dev : Dev} {c : State} {bus : Bus.State} (hr : c.run ≠ .Run) (hd : dev c.bus 4 = .ok bus) :
    update dev c = handleInterrupt (sampledHalted c bus) := by
  rw [update_halted dev c hr]; exact bind_ok hd _

/-! ### the master enable after an instruction -/

theorem imeAfter_di (ime : Ime) : imeAfter ime STATUS_INTERRUPT_DISABLE = .Disabled := by cases ime <;> rfl
theorem imeAfter_reti (ime : Ime) : imeAfter ime STATUS_INTERRUPT_ENABLE_IMMEDIATE = .Enabled := by cases ime <;> rfl
theorem imeAfter_ei_disabled : imeAfter .Disabled STATUS_INTERRUPT_ENABLE = .EnableNext := rfl
theorem imeAfter_ei_enabled : imeAfter .Enabled STATUS_INTERRUPT_ENABLE = .Enabled := rfl
theorem imeAfter_ei_pending : imeAfter .EnableNext STATUS_INTERRUPT_ENABLE = .Enabled := rfl
/-- a pending EI takes effect when the next instruction completes, unless that instruction is DI -/
theorem imeAfter_pending (st : Nat) (h : st ≠ STATUS_INTERRUPT_DISABLE) : imeAfter .EnableNext st = .Enabled := by
  unfold imeAfter
  simp only []
  repeat' split
  all_goals first | rfl | (exfalso; simp_all; done)
/-- an instruction other than EI / DI / RETI leaves Enabled and Disabled alone -/
theorem imeAfter_other (ime : Ime) (st : Nat) (h3 : st ≠ STATUS_INTERRUPT_DISABLE) (h4 : st ≠ STATUS_INTERRUPT_ENABLE)
    (h5 : st ≠ STATUS_INTERRUPT_ENABLE_IMMEDIATE) (hp : ime ≠ .EnableNext) : imeAfter ime st = ime := by
  unfold imeAfter
  cases ime
  all_goals simp only []
  all_goals repeat' split
  all_goals first | rfl | (exfalso; simp_all; done)
/-- the only way IME becomes Enabled without having been Enabled or pending is RETI -/
theorem imeAfter_enabled_iff (st : Nat) : imeAfter .Disabled st = .Enabled ↔ st = STATUS_INTERRUPT_ENABLE_IMMEDIATE := by
  unfold imeAfter
  simp only []
  constructor
  · intro h
    repeat' split at h
    all_goals first | (exfalso; simp_all; done) | simp_all
  · intro h; subst h; rfl

/-! ### time -/

theorem sampled_afterOp_timeInv {c : State} (hi : TimeInv c) (r : Regs) (b bus : Bus.State) (st : Nat) (rec : Bool)
    (hle : c.regs.cycles ≤ r.cycles) : TimeInv (sampled (afterOp c r b st) bus rec) := by
  unfold TimeInv at *
  show c.delivered + r.cycles * 4 + 4 * 0 = 4 * (c.charged + (r.cycles - c.regs.cycles))
  omega

theorem sampled_afterBlock_timeInv {c : State} (hi : TimeInv c) (r : Regs) (b bus : Bus.State) (st : Nat) (rec : Bool)
    (hle : c.regs.cycles ≤ r.cycles) : TimeInv (sampled (afterBlock c r b st) bus rec) := by
  unfold TimeInv at *
  show c.delivered + r.cycles * 4 + 4 * 0 = 4 * (c.charged + (r.cycles - c.regs.cycles))
  omega

theorem sampledHalted_timeInv {c : State} (hi : TimeInv c) (bus : Bus.State) : TimeInv (sampledHalted c bus) := by
  unfold TimeInv at *
  show c.delivered + 4 + 4 * c.regs.cycles = 4 * (c.charged + 1)
  omega

theorem runInterp_timeInv {dev : Dev} {c c' : State} (hi : TimeInv c) (h : runInterp dev c = .ok c') : TimeInv c' := by
  obtain ⟨r, b, st, e, bus, h1, _, h3⟩ := runInterp_shape h
  exact (handleInterrupt_timeInv h3 (sampled_afterOp_timeInv hi r b bus st false (by have := runNextOp_cycles h1; omega))).1

theorem runCodeBlockInterp_timeInv {dev : Dev} {c c' : State} (hi : TimeInv c) (h : runCodeBlockInterp dev c = .ok c') :
    TimeInv c' := by
  obtain ⟨r, b, st, bus, h1, _, h3⟩ := runCodeBlockInterp_shape h
  exact (handleInterrupt_timeInv h3 (sampled_afterBlock_timeInv hi r b bus st true (by have := runCodeBlock_cycles h1; omega))).1

theorem update_timeInv {dev : Dev} {c c' : State} (hi : TimeInv c) (h : update dev c = .ok c') : TimeInv c' := by
  by_cases hr : c.run = .Run
  · rw [update_run dev c hr] at h; exact runInterp_timeInv hi h
  · obtain ⟨bus, _, h3⟩ := update_halted_shape hr h
    exact (handleInterrupt_timeInv h3 (sampledHalted_timeInv hi bus)).1

/-- clocks handed to the devices by one `run_interp` step: 4 × the cycle counter after the instruction -/
theorem runInterp_delivered {dev : Dev} {c c' : State} (h : runInterp dev c = .ok c') :
    c.delivered + 4 * (c.regs.cycles + 1) ≤ c'.delivered ∧ c'.delivered ≤ c.delivered + 4 * (c.regs.cycles + 9) := by
  obtain ⟨r, b, st, e, bus, h1, _, h3⟩ := runInterp_shape h
  have hc := runNextOp_cycles h1
  rcases handleInterrupt_outcomes h3 with ⟨_, rfl⟩ | ⟨_, _, rfl⟩ | ⟨_, _, b1, b2, sp2, rfl⟩
  all_goals
    show c.delivered + 4 * (c.regs.cycles + 1) ≤ c.delivered + r.cycles * 4 ∧
      c.delivered + r.cycles * 4 ≤ c.delivered + 4 * (c.regs.cycles + 9)
    omega

theorem runCodeBlockInterp_delivered {dev : Dev} {c c' : State} (h : runCodeBlockInterp dev c = .ok c') :
    c.delivered + 4 * (c.regs.cycles + 1) ≤ c'.delivered := by
  obtain ⟨r, b, st, bus, h1, _, h3⟩ := runCodeBlockInterp_shape h
  have hc := runCodeBlock_cycles h1
  rcases handleInterrupt_outcomes h3 with ⟨_, rfl⟩ | ⟨_, _, rfl⟩ | ⟨_, _, b1, b2, sp2, rfl⟩
  all_goals
    show c.delivered + 4 * (c.regs.cycles + 1) ≤ c.delivered + r.cycles * 4
    omega

theorem update_halted_delivered {dev : Dev} {c c' : State} (hr : c.run ≠ .Run) (h : update dev c = .ok c') :
    c'.delivered = c.delivered + 4 := by
  obtain ⟨bus, _, h3⟩ := update_halted_shape hr h
  rcases handleInterrupt_outcomes h3 with ⟨_, rfl⟩ | ⟨_, _, rfl⟩ | ⟨_, _, b1, b2, sp2, rfl⟩ <;> rfl

/-- `Core::update` with the `jit` feature (block stepping; the interpreter as the block engine): a whole block per step
while running, the same suspended step otherwise -/
def updateBlock (dev : Dev) (c : State) : Except Bus.Panic State :=
  if c.run = .Run then runCodeBlockInterp dev c else update dev c

theorem updateBlock_timeInv {dev : Dev} {c c' : State} (hi : TimeInv c) (h : updateBlock dev c = .ok c') : TimeInv c' := by
  unfold updateBlock at h
  split at h
  · exact runCodeBlockInterp_timeInv hi h
  · exact update_timeInv hi h

/-- between steps the cycle counter holds only the five cycles of a dispatch, and nothing while suspended -/
def Small (c : State) : Prop := c.regs.cycles ≤ 5 ∧ (c.run ≠ .Run → c.regs.cycles = 0)

theorem handleInterrupt_small {c c' : State} (h : handleInterrupt c = .ok c') (h0 : c.regs.cycles = 0) : Small c' := by
  rcases handleInterrupt_outcomes h with ⟨_, rfl⟩ | ⟨_, _, rfl⟩ | ⟨_, _, b1, b2, sp2, rfl⟩
  · exact ⟨by omega, fun _ => h0⟩
  · exact ⟨by show c.regs.cycles ≤ 5; omega, fun _ => h0⟩
  · exact ⟨by show c.regs.cycles + 5 ≤ 5; omega, fun hr => absurd rfl hr⟩

theorem update_small {dev : Dev} {c c' : State} (hs : Small c) (h : update dev c = .ok c') : Small c' := by
  by_cases hr : c.run = .Run
  · rw [update_run dev c hr] at h
    obtain ⟨r, b, st, e, bus, _, _, h3⟩ := runInterp_shape h
    exact handleInterrupt_small h3 rfl
  · obtain ⟨bus, _, h3⟩ := update_halted_shape hr h
    exact handleInterrupt_small h3 (hs.2 hr)

theorem updateBlock_small {dev : Dev} {c c' : State} (hs : Small c) (h : updateBlock dev c = .ok c') : Small c' := by
  unfold updateBlock at h
  split at h
  · obtain ⟨r, b, st, bus, _, _, h3⟩ := runCodeBlockInterp_shape h
    exact handleInterrupt_small h3 rfl
  · exact update_small hs h

/-- every step hands the devices at least 4 clocks -/
theorem update_progress {dev : Dev} {c c' : State} (h : update dev c = .ok c') : c.delivered + 4 ≤ c'.delivered := by
  by_cases hr : c.run = .Run
  · rw [update_run dev c hr] at h; have := runInterp_delivered h; omega
  · have := update_halted_delivered hr h; omega

theorem updateBlock_progress {dev : Dev} {c c' : State} (h : updateBlock dev c = .ok c') : c.delivered + 4 ≤ c'.delivered := by
  unfold updateBlock at h
  split at h
  · have := runCodeBlockInterp_delivered h; omega
  · exact update_progress h

/-- an instruction-stepped step hands the devices at most 56 clocks (5 dispatch cycles + 6 + 3) -/
theorem update_step_le {dev : Dev} {c c' : State} (hs : Small c) (h : update dev c = .ok c') : c'.delivered ≤ c.delivered + 56 := by
  by_cases hr : c.run = .Run
  · rw [update_run dev c hr] at h; have := runInterp_delivered h; have := hs.1; omega
  · have := update_halted_delivered hr h; omega

/-! ### step sequences -/

/-- `n` successive steps of `f` (any of `update dev`, `runInterp dev`, `runCodeBlockInterp dev`); a panic ends the run -/
def iter (f : State → Except Bus.Panic State) : Nat → State → Except Bus.Panic State
  | 0, c => .ok c
  | n+1, c => f c >>= iter f n

theorem iter_invariant {f : State → Except Bus.Panic State} {P : State → Prop}
    (hstep : ∀ c c', P c → f c = .ok c' → P c') : ∀ (n : Nat) (c c' : State), P c → iter f n c = .ok c' → P c' := by
  intro n
  induction n with
  | zero => intro c c' hp h; injection h with h; subst h; exact hp
  | succ n ih =>
    intro c c' hp h
    obtain ⟨c1, h1, h2⟩ := bind_ok_elim h
    exact ih c1 c' (hstep c c1 hp h1) h2

end GbVerif.CoreProofs
