import GbVerif.Proofs.X86SimAlu3
/-
C01, the data side: ADC / SBC on A (register and immediate operand).  The guest carry is moved into the host's CF by
`and al, 0x10 ; add al, 0xf0` (which destroys al: the conversion then rebuilds F from scratch, so F's low nibble ends
clear — as it is in every register file the machine reaches).
-/
namespace GbVerif.X86
open GbVerif.JitCycles GbVerif.Interp
variable {β : Type}

/-- the operand of an A-operation does not depend on al -/
def RdStable (rd : St β → Nat) : Prop :=
  ∀ s s' : St β, (∀ j, 0 ≠ j → get s' j = get s j) → (get s' 0).toNat / 256 % 256 = (get s 0).toNat / 256 % 256 →
    s'.op1 = s.op1 → rd s' = rd s

theorem rdStable_reg (r : Reg8) : RdStable (β := β) (fun s => get8 s (hostR8 r)) := by
  intro s s' hj h0 _
  cases r <;> simp only [hostR8, get8]
  · exact h0
  · rw [hj 3 (by decide)]
  · rw [hj 3 (by decide)]
  · rw [hj 2 (by decide)]
  · rw [hj 2 (by decide)]
  · rw [hj 1 (by decide)]
  · rw [hj 1 (by decide)]

theorem rdStable_imm : RdStable (β := β) (fun s => s.op1) := fun _ _ _ _ h => h

set_option maxRecDepth 4000 in
/-- `and al, 0x10 ; add al, 0xf0`: CF := guest carry; A and everything but al untouched; al's low nibble clear -/
theorem pre_carry (B : BusOps β) (oa ob e : Nat) (s s2 : St β) (hsz : s.r.size = 16)
    (hex : execList B e [(oa, .alu8i .and (.lo 0) 16), (ob, .alu8i .add (.lo 0) 240)] s = .ok s2) :
    s2.fl.cf = decide (((get s 0).toNat % 256 &&& 16) + 240 + 0 ≥ 256) ∧
    (get s2 0).toNat / 256 % 256 = (get s 0).toNat / 256 % 256 ∧ (get s2 0).toNat % 256 &&& 15 = 0 ∧
    (∀ j, 0 ≠ j → get s2 j = get s j) ∧ s2.bus = s.bus ∧ s2.stack = s.stack ∧ s2.r.size = 16 ∧ s2.op1 = s.op1 := by
  obtain ⟨s1, h1, hex⟩ := execList_cons B _ _ _ _ _ _ hex
  obtain ⟨s3, h2, hex⟩ := execList_cons B _ _ _ _ _ _ hex
  have := execList_nil B _ _ _ hex
  subst this
  obtain ⟨x1, r1, b1, st1, sz1⟩ := step_al B .and (Or.inl rfl) 16 (by decide) s s1 _ hsz h1
  have o1 : s1.op1 = s.op1 := by
    have e0 : ∀ len, step B s (.alu8i .and (.lo 0) 16) len =
        .ok { (set8 ({ s with pc := s.pc + len } : St β) (.lo 0) (aluOp .and 8 ((get s 0).toNat % 256) 16 s.fl).1) with
              fl := (aluOp .and 8 ((get s 0).toNat % 256) 16 s.fl).2 } := fun _ => rfl
    rw [e0] at h1; injection h1 with h1
    rw [← congrArg St.op1 h1]; rfl
  have e2 : ∀ len, step B s1 (.alu8i .add (.lo 0) 240) len =
      .ok { (set8 ({ s1 with pc := s1.pc + len } : St β) (.lo 0) (aluOp .add 8 ((get s1 0).toNat % 256) 240 s1.fl).1) with
            fl := (aluOp .add 8 ((get s1 0).toNat % 256) 240 s1.fl).2 } := by
    intro len
    simp only [step, show (AluOp.add == AluOp.cmp) = false from rfl, Bool.false_eq_true, if_false]
    rw [tokVal_lt _ 240 (by decide)]
    rfl
  rw [e2] at h2
  injection h2 with h2
  have hl1 : (get s1 0).toNat % 256 = (get s 0).toNat % 256 &&& 16 := by
    have hb := bitop_lt .and ((get s 0).toNat % 256) 16 (Nat.mod_lt _ (by decide)) (by decide)
    have : (get s1 0).toNat % 256 = (get s1 0).toNat % 65536 % 256 := by omega
    rw [this, x1]
    show (_ + ((get s 0).toNat % 256 &&& 16)) % 256 = _
    have hb' : (get s 0).toNat % 256 &&& 16 < 256 := hb
    omega
  have hh1 : (get s1 0).toNat / 256 % 256 = (get s 0).toNat / 256 % 256 := by
    have hb : (get s 0).toNat % 256 &&& 16 < 256 := bitop_lt .and ((get s 0).toNat % 256) 16 (Nat.mod_lt _ (by decide)) (by decide)
    have : (get s1 0).toNat / 256 % 256 = (get s1 0).toNat % 65536 / 256 := by omega
    rw [this, x1]
    show (_ + ((get s 0).toNat % 256 &&& 16)) / 256 = _
    omega
  have hval : (aluOp .add 8 ((get s1 0).toNat % 256) 240 s1.fl).1 = ((get s 0).toNat % 256 &&& 16) + 240 + 0 - (if ((get s 0).toNat % 256 &&& 16) + 240 + 0 ≥ 256 then 256 else 0) := by
    rw [hl1]
    show (((get s 0).toNat % 256 &&& 16) + 240 + 0) % 2 ^ 8 = _
    have hb : (get s 0).toNat % 256 &&& 16 ≤ 16 := Nat.and_le_right
    split <;> omega
  have hcf : (aluOp .add 8 ((get s1 0).toNat % 256) 240 s1.fl).2.cf = decide (((get s 0).toNat % 256 &&& 16) + 240 + 0 ≥ 256) := by
    rw [hl1]; rfl
  have hg : ∀ j, get s2 j = get (set8 ({ s1 with pc := s1.pc + (headOff e [] - ob) } : St β) (.lo 0) (aluOp .add 8 ((get s1 0).toNat % 256) 240 s1.fl).1) j := by
    intro j; rw [← h2]; rfl
  have h16 : ∀ x, x < 256 → (x &&& 16 = 0 ∨ x &&& 16 = 16) := by
    intro x hx
    have := Enum.forall_lt_of_allRange (fun x => (x &&& 16 == 0) || (x &&& 16 == 16)) 8 (by decide +kernel) x hx
    simpa using this
  have hx2 : (get s2 0).toNat = ((get s1 0).toNat - (get s1 0).toNat % 256 + (aluOp .add 8 ((get s1 0).toNat % 256) 240 s1.fl).1 % 256) % 2 ^ 64 := by
    rw [hg 0]; exact toNat_set8_lo ({ s1 with pc := s1.pc + (headOff e [] - ob) } : St β) 0 _ (by show 0 < s1.r.size; omega)
  have hlt1 := (get s1 0).isLt
  refine ⟨by rw [← congrArg St.fl h2]; exact hcf, ?_, ?_, ?_, ?_, ?_, ?_, ?_⟩
  · rw [hx2, ← hh1]
    have : (aluOp .add 8 ((get s1 0).toNat % 256) 240 s1.fl).1 % 256 < 256 := Nat.mod_lt _ (by decide)
    omega
  · rw [hx2, hval]
    rcases h16 _ (Nat.mod_lt ((get s 0).toNat) (by decide : 0 < 256)) with h | h <;> rw [h]
    · have : ((get s1 0).toNat - (get s1 0).toNat % 256 + (0 + 240 + 0 - if 0 + 240 + 0 ≥ 256 then 256 else 0) % 256) % 2 ^ 64 % 256 = 240 := by
        simp only [show ¬ (0 + 240 + 0 ≥ 256) by decide, if_false]; omega
      rw [this]; decide
    · have : ((get s1 0).toNat - (get s1 0).toNat % 256 + (16 + 240 + 0 - if 16 + 240 + 0 ≥ 256 then 256 else 0) % 256) % 2 ^ 64 % 256 = 0 := by
        simp only [show (16 + 240 + 0 ≥ 256) by decide, if_true]; omega
      rw [this]; decide
  · intro j hj
    rw [hg j, get_set8_ne _ _ _ _ (by simpa [r8reg] using hj)]; exact r1 j hj
  · rw [← congrArg St.bus h2]; exact (bus_set8 _ _ _).trans b1
  · rw [← congrArg St.stack h2]; exact (stack_set8 _ _ _).trans st1
  · rw [← congrArg St.r h2]; exact (size_set8 _ _ _).trans sz1
  · rw [← congrArg St.op1 h2]; exact o1

theorem carryIn_eq (af : Nat) : carryIn af = if decide ((af % 256 &&& 16) + 240 + 0 ≥ 256) then 1 else 0 := by
  unfold carryIn
  have h1 : af &&& 0x10 = (af % 256) &&& 16 := by
    have hlt : af &&& 0x10 < 2 ^ 8 := Nat.lt_of_le_of_lt Nat.and_le_right (by decide)
    rw [← Nat.mod_eq_of_lt hlt, Nat.and_mod_two_pow]
  rw [h1]
  have h16 : (af % 256 &&& 16 = 0 ∨ af % 256 &&& 16 = 16) := by
    have := Enum.forall_lt_of_allRange (fun x => (x &&& 16 == 0) || (x &&& 16 == 16)) 8 (by decide +kernel) (af % 256) (Nat.mod_lt _ (by decide))
    simpa using this
  rcases h16 with h | h <;> rw [h] <;> decide

theorem conv_adc (a v : Nat) (fl : Flags) :
    conv (aluOp .adc 8 a v fl).2 =
      (if (a + v + (if fl.cf then 1 else 0)) % 256 == 0 then 0x80 else 0) +
      (if decide (a % 16 + v % 16 + (if fl.cf then 1 else 0) ≥ 16) then 0x20 else 0) +
      (if decide (a + v + (if fl.cf then 1 else 0) ≥ 256) then 0x10 else 0) := rfl

theorem conv_sbb (a v : Nat) (fl : Flags) :
    conv (aluOp .sbb 8 a v fl).2 =
      (if (a + 256 + 256 - v - (if fl.cf then 1 else 0)) % 256 == 0 then 0x80 else 0) +
      (if decide (a % 16 < v % 16 + (if fl.cf then 1 else 0)) then 0x20 else 0) +
      (if decide (a < v + (if fl.cf then 1 else 0)) then 0x10 else 0) := rfl

/-- the body of ADC A,v -/
theorem adc_body (B : BusOps β) (ins : Instr) (rd : St β → Nat) (hins : IsAOp B .adc ins rd) (hrd : RdStable rd) (v : Nat) (hvlt : v < 256)
    (oa ob : Nat) (o : Nat → Nat) (e : Nat) (g : Regs) (st s3 : St β) (hs : Sim g st) (h0 : g.af % 16 = 0) (hv : rd st = v)
    (hex : execList B e ([(oa, .alu8i .and (.lo 0) 16), (ob, .alu8i .add (.lo 0) 240)] ++ ((o 0, ins) :: pipeAt o 15 240)) st = .ok s3) :
    Sim (opAdc g v) s3 ∧ Untouched st s3 := by
  obtain ⟨s2, hpre, hex2⟩ := execList_append B e _ _ st s3 hex
  obtain ⟨hcf, hhi, hlo, hr, hb, hstk, hsz, hop1⟩ := pre_carry B oa ob _ st s2 hs.size hpre
  obtain ⟨hx, hfr⟩ := alu_then_pipe B .adc ins rd hins 15 240 (by decide) (by decide) o e s2 s3 hsz hex2
  have hA := getReg_lt g .A
  have ha : get8 s2 (.hi 0) = getReg g .A := by
    show (get s2 0).toNat / 256 % 256 = getHi g.af
    rw [hhi, getHi_eq]; have := hs.af; omega
  have hv2 : rd s2 = v := by rw [hrd st s2 hr hhi hop1]; exact hv
  have hf : (get st 0).toNat % 256 = g.af % 256 := by have := hs.af; omega
  have hc : (if s2.fl.cf then 1 else 0) = carryIn g.af := by rw [hcf, hf, carryIn_eq]
  rw [ha, hv2, hlo, conv_adc, hc] at hx
  simp only [show (AluOp.adc == AluOp.cmp) = false from rfl, Bool.false_eq_true, if_false] at hx
  have hce : carryIn g.af ≤ 1 := by unfold carryIn; split <;> omega
  -- interpreter
  have hi : (opAdc g v).af = u8 (getReg g .A + v + carryIn g.af) * 256 +
      ((((g.af % 256 &&& 0x0f) ||| (if (decide (getReg g .A + v > 255) || decide (u8 (getReg g .A + v) + carryIn g.af > 255)) then 0x10 else 0)) |||
        (if (((getReg g .A &&& 0x0f) + (v &&& 0x0f) + carryIn g.af) &&& 0x10 != 0) then 0x20 else 0)) |||
        (if u8 (getReg g .A + v + carryIn g.af) == 0 then 0x80 else 0)) := by
    have hset : (setReg g .A (u8 (getReg g .A + v + carryIn g.af))).af = u8 (getReg g .A + v + carryIn g.af) * 256 + g.af % 256 := setHi_eq _ _
    exact flagsAdd_pack _ _ _ _ _ _ (Nat.mod_lt _ (by decide)) (Nat.mod_lt _ (by decide)) hset
  have hfz : g.af % 256 &&& 0x0f = 0 := by rw [and_0f]; omega
  have hfrm : Frame06 st s3 :=
    ⟨fun j h0' h6 => by rw [hfr.regs j h0' h6, hr j h0'], by rw [hfr.bus, hb], by rw [hfr.stack, hstk], hfr.size⟩
  refine sim_af hs hfrm ((sameButAf_setA g _).trans (sameButAf_flagsAdd _ _)) ?_
  rw [hx, hi, hfz]
  have f0 := fAdd_eq 0 (((getReg g .A + v + carryIn g.af) % 256) == 0) (decide (getReg g .A % 16 + v % 16 + carryIn g.af ≥ 16))
    (decide (getReg g .A + v + carryIn g.af ≥ 256))
  simp only [Nat.zero_and] at f0
  rw [f0]
  have h1 : (aluOp .adc 8 (getReg g .A) v s2.fl).1 % 256 = u8 (getReg g .A + v + carryIn g.af) := by
    show (getReg g .A + v + (if s2.fl.cf then 1 else 0)) % 2 ^ 8 % 256 = (getReg g .A + v + carryIn g.af) % 256
    rw [hc]; omega
  have h2 := halfAdd_eq (getReg g .A) v (carryIn g.af) hce
  have h3 : decide (getReg g .A + v + carryIn g.af ≥ 256) = (decide (getReg g .A + v > 255) || decide (u8 (getReg g .A + v) + carryIn g.af > 255)) := by
    rw [Bool.eq_iff_iff]
    simp only [decide_eq_true_eq, Bool.or_eq_true]
    unfold u8
    omega
  have h4 : ((getReg g .A + v + carryIn g.af) % 256 == 0) = (u8 (getReg g .A + v + carryIn g.af) == 0) := rfl
  rw [h1, h2, h3, h4]
  have hu : u8 (getReg g .A + v + carryIn g.af) < 256 := Nat.mod_lt _ (by decide)
  have hlt : ((((0 : Nat) ||| (if (decide (getReg g .A + v > 255) || decide (u8 (getReg g .A + v) + carryIn g.af > 255)) then 0x10 else 0)) |||
        (if decide (getReg g .A % 16 + v % 16 + carryIn g.af ≥ 16) then 0x20 else 0)) ||| (if u8 (getReg g .A + v + carryIn g.af) == 0 then 0x80 else 0)) < 256 := by
    apply Nat.or_lt_two_pow (n := 8)
    · apply Nat.or_lt_two_pow (n := 8)
      · apply Nat.or_lt_two_pow (n := 8)
        · decide
        · split <;> decide
      · split <;> decide
    · split <;> decide
  omega

/-- the body of SBC A,v -/
theorem sbc_body (B : BusOps β) (ins : Instr) (rd : St β → Nat) (hins : IsAOp B .sbb ins rd) (hrd : RdStable rd) (v : Nat) (hvlt : v < 256)
    (oa ob : Nat) (o : Nat → Nat) (e : Nat) (g : Regs) (st s4 : St β) (hs : Sim g st) (h0 : g.af % 16 = 0) (hv : rd st = v)
    (hex : execList B e (([(oa, .alu8i .and (.lo 0) 16), (ob, .alu8i .add (.lo 0) 240)] ++ ((o 0, ins) :: pipeAt o 15 240)) ++
      [(o 10, .alu8i .or (.lo 0) 64)]) st = .ok s4) :
    Sim (opSbc g v) s4 ∧ Untouched st s4 := by
  obtain ⟨s3, hex12, hexp⟩ := execList_append B e _ _ st s4 hex
  obtain ⟨s2, hpre, hex2⟩ := execList_append B _ _ _ st s3 hex12
  obtain ⟨hcf, hhi, hlo, hr, hb, hstk, hsz, hop1⟩ := pre_carry B oa ob _ st s2 hs.size hpre
  obtain ⟨hx, hfr⟩ := alu_then_pipe B .sbb ins rd hins 15 240 (by decide) (by decide) o _ s2 s3 hsz hex2
  obtain ⟨s5, hp, hex5⟩ := execList_cons B _ _ _ _ _ _ hexp
  have := execList_nil B _ _ _ hex5
  subst this
  obtain ⟨hx2, hr2, hb2, hst2, hsz2⟩ := step_al B .or (Or.inr (Or.inl rfl)) 64 (by decide) s3 s4 _ hfr.size hp
  have hA := getReg_lt g .A
  have ha : get8 s2 (.hi 0) = getReg g .A := by
    show (get s2 0).toNat / 256 % 256 = getHi g.af
    rw [hhi, getHi_eq]; have := hs.af; omega
  have hv2 : rd s2 = v := by rw [hrd st s2 hr hhi hop1]; exact hv
  have hf : (get st 0).toNat % 256 = g.af % 256 := by have := hs.af; omega
  have hc : (if s2.fl.cf then 1 else 0) = carryIn g.af := by rw [hcf, hf, carryIn_eq]
  rw [ha, hv2, hlo, conv_sbb, hc] at hx
  simp only [show (AluOp.sbb == AluOp.cmp) = false from rfl, Bool.false_eq_true, if_false] at hx
  have hce : carryIn g.af ≤ 1 := by unfold carryIn; split <;> omega
  have hres : (aluOp .sbb 8 (getReg g .A) v s2.fl).1 % 256 = u8 (u8 (getReg g .A + 256 - v) + 256 - carryIn g.af) := by
    show (getReg g .A + 2 ^ 8 + 2 ^ 8 - v - (if s2.fl.cf then 1 else 0)) % 2 ^ 8 % 256 = _
    rw [hc]; unfold u8; omega
  have hres2 : (getReg g .A + 256 + 256 - v - carryIn g.af) % 256 = u8 (u8 (getReg g .A + 256 - v) + 256 - carryIn g.af) := by
    unfold u8; omega
  rw [hres, hres2] at hx
  have hFlt : ((0 : Nat) ||| ((if (u8 (u8 (getReg g .A + 256 - v) + 256 - carryIn g.af) == 0) = true then 128 else 0) +
      (if decide (getReg g .A % 16 < v % 16 + carryIn g.af) = true then 32 else 0) +
      if decide (getReg g .A < v + carryIn g.af) = true then 16 else 0) &&& 240) < 256 :=
    Nat.or_lt_two_pow (n := 8) (by decide) (Nat.lt_of_le_of_lt Nat.and_le_right (by decide))
  have hu : u8 (u8 (getReg g .A + 256 - v) + 256 - carryIn g.af) < 256 := Nat.mod_lt _ (by decide)
  have hlo3 : (get s3 0).toNat % 256 = ((0 : Nat) ||| ((if (u8 (u8 (getReg g .A + 256 - v) + 256 - carryIn g.af) == 0) = true then 128 else 0) +
      (if decide (getReg g .A % 16 < v % 16 + carryIn g.af) = true then 32 else 0) +
      if decide (getReg g .A < v + carryIn g.af) = true then 16 else 0) &&& 240) := by
    have : (get s3 0).toNat % 256 = (get s3 0).toNat % 65536 % 256 := by omega
    rw [this, hx]; omega
  have hhi3 : (get s3 0).toNat / 256 % 256 = u8 (u8 (getReg g .A + 256 - v) + 256 - carryIn g.af) := by
    have : (get s3 0).toNat / 256 % 256 = (get s3 0).toNat % 65536 / 256 := by omega
    rw [this, hx]; omega
  rw [hlo3, hhi3] at hx2
  have f0 := fSub_eq 0 (u8 (u8 (getReg g .A + 256 - v) + 256 - carryIn g.af) == 0) (decide (getReg g .A % 16 < v % 16 + carryIn g.af))
    (decide (getReg g .A < v + carryIn g.af))
  simp only [Nat.zero_and] at f0
  rw [f0] at hx2
  -- interpreter
  have hi : (opSbc g v).af = u8 (u8 (getReg g .A + 256 - v) + 256 - carryIn g.af) * 256 +
      (((((g.af % 256 &&& 0x0f) ||| (if (decide (getReg g .A < v) || decide (u8 (getReg g .A + 256 - v) < carryIn g.af)) then 0x10 else 0)) |||
        (if (u8 (u8 ((getReg g .A &&& 0x0f) + 256 - (v &&& 0x0f)) + 256 - carryIn g.af) &&& 0x10 != 0) then 0x20 else 0)) ||| 0x40) |||
        (if u8 (u8 (getReg g .A + 256 - v) + 256 - carryIn g.af) == 0 then 0x80 else 0)) := by
    have hset : (setReg g .A (u8 (u8 (getReg g .A + 256 - v) + 256 - carryIn g.af))).af =
        u8 (u8 (getReg g .A + 256 - v) + 256 - carryIn g.af) * 256 + g.af % 256 := setHi_eq _ _
    exact flagsSub_pack _ _ _ _ _ _ (Nat.mod_lt _ (by decide)) (Nat.mod_lt _ (by decide)) hset
  have hfz : g.af % 256 &&& 0x0f = 0 := by rw [and_0f]; omega
  have hfrm : Frame06 st s4 :=
    ⟨fun j h0' h6 => by rw [hr2 j h0', hfr.regs j h0' h6, hr j h0'], by rw [hb2, hfr.bus, hb], by rw [hst2, hfr.stack, hstk], hsz2⟩
  refine sim_af hs hfrm ((sameButAf_setA g _).trans (sameButAf_flagsSub _ _)) ?_
  rw [hx2, hi, hfz]
  have h2 := halfSub_eq (getReg g .A) v (carryIn g.af) hce
  have h3 : decide (getReg g .A < v + carryIn g.af) = (decide (getReg g .A < v) || decide (u8 (getReg g .A + 256 - v) < carryIn g.af)) := by
    rw [Bool.eq_iff_iff]
    simp only [decide_eq_true_eq, Bool.or_eq_true]
    unfold u8
    omega
  rw [h2, h3]
  have hlt : ((((((0 : Nat) ||| (if (decide (getReg g .A < v) || decide (u8 (getReg g .A + 256 - v) < carryIn g.af)) then 0x10 else 0)) |||
        (if decide (getReg g .A % 16 < v % 16 + carryIn g.af) then 0x20 else 0)) ||| 0x40) |||
        (if u8 (u8 (getReg g .A + 256 - v) + 256 - carryIn g.af) == 0 then 0x80 else 0))) < 256 := by
    apply Nat.or_lt_two_pow (n := 8)
    · apply Nat.or_lt_two_pow (n := 8)
      · apply Nat.or_lt_two_pow (n := 8)
        · apply Nat.or_lt_two_pow (n := 8)
          · decide
          · split <;> decide
        · split <;> decide
      · decide
    · split <;> decide
  omega

/-- `Simulates` from register files whose F has a clear low nibble (kept clear) -/
def SimulatesF (b0 b1 b2 : Nat) : Prop :=
  ∃ code, decodeCode (Gen.emitOp b0) = some code ∧
  ∀ (β : Type) (B : BusOps β) (g : Regs) (m : β) (fuel : Nat) (st st' : St β), Sim g st → g.af % 16 = 0 → st.pc = 0 → st.op1 = b1 → st.op2 = b2 →
    run B code (bytesOf (Gen.emitOp b0)) fuel st = .ok st' →
    ∃ g', runOp B (Gen.decode b0 b1 b2).1 g m (Gen.decode b0 b1 b2).2.1 = .ok (g', m, STATUS_NORMAL) ∧
      Sim { g' with cycles := g'.cycles + (Gen.decode b0 b1 b2).2.2 / 4 } st' ∧ Untouched st st'

/-- offsets of the conversion after the two carry instructions and a first instruction of `n0` bytes -/
def adcOff (n0 : Nat) (k : Nat) : Nat :=
  [4, 4 + n0, 4 + n0 + 1, 4 + n0 + 2, 4 + n0 + 5, 4 + n0 + 7, 4 + n0 + 10, 4 + n0 + 16, 4 + n0 + 21, 4 + n0 + 27, 4 + n0 + 29].getD k 0

def opcodeAdc (r : Reg8) : Nat := 0x88 + r8code r
def opcodeSbc (r : Reg8) : Nat := 0x98 + r8code r

def carryPre : List (Nat × Instr) := [(0, Instr.alu8i AluOp.and (R8.lo 0) 16), (2, Instr.alu8i AluOp.add (R8.lo 0) 240)]

theorem table_adc (r : Reg8) (b1 b2 : Nat) :
    decodeCode (Gen.emitOp (opcodeAdc r)) =
      some ((carryPre ++ ((4, Instr.alu8 AluOp.adc (R8.hi 0) (hostR8 r)) :: pipeAt (adcOff 2) 15 240)) ++ [(35, addIp 1), (39, addCy 1)]) ∧
    bytesOf (Gen.emitOp (opcodeAdc r)) = 43 ∧ Gen.decode (opcodeAdc r) b1 b2 = (.AddWithCarry8 .A r, 1, 4) ∧
    decodeCode (Gen.emitOp (opcodeSbc r)) =
      some (((carryPre ++ ((4, Instr.alu8 AluOp.sbb (R8.hi 0) (hostR8 r)) :: pipeAt (adcOff 2) 15 240)) ++ [(35, Instr.alu8i AluOp.or (R8.lo 0) 64)]) ++ [(37, addIp 1), (41, addCy 1)]) ∧
    bytesOf (Gen.emitOp (opcodeSbc r)) = 45 ∧ Gen.decode (opcodeSbc r) b1 b2 = (.SubWithCarry8 .A r, 1, 4) := by
  cases r <;> exact ⟨by decide +kernel, by decide +kernel, rfl, by decide +kernel, by decide +kernel, rfl⟩

theorem table_adc_imm (b1 b2 : Nat) :
    decodeCode (Gen.emitOp 0xce) =
      some ((carryPre ++ ((4, Instr.alu8i AluOp.adc (R8.hi 0) 256) :: pipeAt (adcOff 3) 15 240)) ++ [(36, addIp 2), (40, addCy 2)]) ∧
    bytesOf (Gen.emitOp 0xce) = 44 ∧ Gen.decode 0xce b1 b2 = (.AddAbsoluteWithCarry8 b1, 2, 8) ∧
    decodeCode (Gen.emitOp 0xde) =
      some (((carryPre ++ ((4, Instr.alu8i AluOp.sbb (R8.hi 0) 256) :: pipeAt (adcOff 3) 15 240)) ++ [(36, Instr.alu8i AluOp.or (R8.lo 0) 64)]) ++ [(38, addIp 2), (42, addCy 2)]) ∧
    bytesOf (Gen.emitOp 0xde) = 46 ∧ Gen.decode 0xde b1 b2 = (.SubAbsoluteWithCarry8 b1, 2, 8) :=
  ⟨by decide +kernel, by decide +kernel, rfl, by decide +kernel, by decide +kernel, rfl⟩

theorem straight_carryPre : straight carryPre := by
  intro p hp
  simp only [carryPre, List.mem_cons, List.not_mem_nil, or_false] at hp
  rcases hp with e | e <;> subst e <;> exact ⟨fun _ _ e => Instr.noConfusion e, fun _ e => Instr.noConfusion e⟩

/-- **ADC A,r** (7 registers): all states whose F has a clear low nibble -/
theorem sim_adc (r : Reg8) (b1 b2 : Nat) : SimulatesF (opcodeAdc r) b1 b2 := by
  obtain ⟨hdec, hbytes, hop, _⟩ := table_adc r b1 b2
  refine ⟨_, hdec, ?_⟩
  intro β B g m fuel st st' hsim h0 hpc _ _ hrun
  rw [hbytes] at hrun
  rw [hop]
  show ∃ g', runOp B (.AddWithCarry8 .A r) g m 1 = .ok (g', m, STATUS_NORMAL) ∧ Sim { g' with cycles := g'.cycles + 4 / 4 } st' ∧ Untouched st st'
  rw [show (4 : Nat) / 4 = 1 from rfl]
  refine ⟨advance (opAdc g (getReg g r)) 1, rfl, ?_⟩
  obtain ⟨h1, h2⟩ := sim_body B (carryPre ++ ((4, Instr.alu8 AluOp.adc (R8.hi 0) (hostR8 r)) :: pipeAt (adcOff 2) 15 240))
    35 39 43 1 1 g (opAdc g (getReg g r)) rfl
    (straight_app straight_carryPre (straight_cons _ _ _ (fun _ _ e => Instr.noConfusion e) (fun _ e => Instr.noConfusion e) (straight_pipe _ _ _))) (by decide) (by decide)
    (fun st0 s1 hs hex => adc_body B _ _ (isAOp_reg B .adc (hostR8 r)) (rdStable_reg r) (getReg g r) (getReg_lt g r) 0 2 (adcOff 2) 35 g st0 s1 hs h0 (get8_sim hs r) hex)
    fuel st st' hsim (by rw [hpc]; rfl) hrun
  exact ⟨⟨h1.af, h1.hl, h1.de, h1.bc, h1.sp, h1.ip, h1.cy, h1.size⟩, h2⟩

/-- **SBC A,r** (7 registers): all states whose F has a clear low nibble -/
theorem sim_sbc (r : Reg8) (b1 b2 : Nat) : SimulatesF (opcodeSbc r) b1 b2 := by
  obtain ⟨_, _, _, hdec, hbytes, hop⟩ := table_adc r b1 b2
  refine ⟨_, hdec, ?_⟩
  intro β B g m fuel st st' hsim h0 hpc _ _ hrun
  rw [hbytes] at hrun
  rw [hop]
  show ∃ g', runOp B (.SubWithCarry8 .A r) g m 1 = .ok (g', m, STATUS_NORMAL) ∧ Sim { g' with cycles := g'.cycles + 4 / 4 } st' ∧ Untouched st st'
  rw [show (4 : Nat) / 4 = 1 from rfl]
  refine ⟨advance (opSbc g (getReg g r)) 1, rfl, ?_⟩
  obtain ⟨h1, h2⟩ := sim_body B ((carryPre ++ ((4, Instr.alu8 AluOp.sbb (R8.hi 0) (hostR8 r)) :: pipeAt (adcOff 2) 15 240)) ++ [(35, Instr.alu8i AluOp.or (R8.lo 0) 64)])
    37 41 45 1 1 g (opSbc g (getReg g r)) rfl
    (straight_app (straight_app straight_carryPre (straight_cons _ _ _ (fun _ _ e => Instr.noConfusion e) (fun _ e => Instr.noConfusion e) (straight_pipe _ _ _))) (straight_al _ _ _)) (by decide) (by decide)
    (fun st0 s1 hs hex => sbc_body B _ _ (isAOp_reg B .sbb (hostR8 r)) (rdStable_reg r) (getReg g r) (getReg_lt g r) 0 2 (adcOff 2) 37 g st0 s1 hs h0 (get8_sim hs r) hex)
    fuel st st' hsim (by rw [hpc]; rfl) hrun
  exact ⟨⟨h1.af, h1.hl, h1.de, h1.bc, h1.sp, h1.ip, h1.cy, h1.size⟩, h2⟩

/-- **ADC A,n** (every operand byte): all states whose F has a clear low nibble -/
theorem sim_ce (b1 b2 : Nat) (hb : b1 < 256) : SimulatesF 0xce b1 b2 := by
  obtain ⟨hdec, hbytes, hop, _⟩ := table_adc_imm b1 b2
  refine ⟨_, hdec, ?_⟩
  intro β B g m fuel st st' hsim h0 hpc hop1 _ hrun
  rw [hbytes] at hrun
  rw [hop]
  show ∃ g', runOp B (.AddAbsoluteWithCarry8 b1) g m 2 = .ok (g', m, STATUS_NORMAL) ∧ Sim { g' with cycles := g'.cycles + 8 / 4 } st' ∧ Untouched st st'
  rw [show (8 : Nat) / 4 = 2 from rfl]
  refine ⟨advance (opAdc g b1) 2, rfl, ?_⟩
  obtain ⟨h1, h2⟩ := sim_bodyP B (fun s => s.op1 = b1) (carryPre ++ ((4, Instr.alu8i AluOp.adc (R8.hi 0) 256) :: pipeAt (adcOff 3) 15 240))
    36 40 44 2 2 g (opAdc g b1) rfl
    (straight_app straight_carryPre (straight_cons _ _ _ (fun _ _ e => Instr.noConfusion e) (fun _ e => Instr.noConfusion e) (straight_pipe _ _ _))) (by decide) (by decide)
    (fun st0 s1 hs hp hex => adc_body B _ _ (isAOp_imm B .adc) rdStable_imm b1 hb 0 2 (adcOff 3) 36 g st0 s1 hs h0 hp hex)
    fuel st st' hsim hop1 (by rw [hpc]; rfl) hrun
  exact ⟨⟨h1.af, h1.hl, h1.de, h1.bc, h1.sp, h1.ip, h1.cy, h1.size⟩, h2⟩

/-- **SBC A,n** (every operand byte): all states whose F has a clear low nibble -/
theorem sim_de (b1 b2 : Nat) (hb : b1 < 256) : SimulatesF 0xde b1 b2 := by
  obtain ⟨_, _, _, hdec, hbytes, hop⟩ := table_adc_imm b1 b2
  refine ⟨_, hdec, ?_⟩
  intro β B g m fuel st st' hsim h0 hpc hop1 _ hrun
  rw [hbytes] at hrun
  rw [hop]
  show ∃ g', runOp B (.SubAbsoluteWithCarry8 b1) g m 2 = .ok (g', m, STATUS_NORMAL) ∧ Sim { g' with cycles := g'.cycles + 8 / 4 } st' ∧ Untouched st st'
  rw [show (8 : Nat) / 4 = 2 from rfl]
  refine ⟨advance (opSbc g b1) 2, rfl, ?_⟩
  obtain ⟨h1, h2⟩ := sim_bodyP B (fun s => s.op1 = b1) ((carryPre ++ ((4, Instr.alu8i AluOp.sbb (R8.hi 0) 256) :: pipeAt (adcOff 3) 15 240)) ++ [(36, Instr.alu8i AluOp.or (R8.lo 0) 64)])
    38 42 46 2 2 g (opSbc g b1) rfl
    (straight_app (straight_app straight_carryPre (straight_cons _ _ _ (fun _ _ e => Instr.noConfusion e) (fun _ e => Instr.noConfusion e) (straight_pipe _ _ _))) (straight_al _ _ _)) (by decide) (by decide)
    (fun st0 s1 hs hp hex => sbc_body B _ _ (isAOp_imm B .sbb) rdStable_imm b1 hb 0 2 (adcOff 3) 38 g st0 s1 hs h0 hp hex)
    fuel st st' hsim hop1 (by rw [hpc]; rfl) hrun
  exact ⟨⟨h1.af, h1.hl, h1.de, h1.bc, h1.sp, h1.ip, h1.cy, h1.size⟩, h2⟩

end GbVerif.X86
