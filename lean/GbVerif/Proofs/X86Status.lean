import GbVerif.Model.JitStatus
import GbVerif.Proofs.X86Paths
import GbVerif.Proofs.X86Stack
/-
Soundness of the status analysis (`JitStatus.trSt`) for executions of the x86 model: the class of r14b.
-/
namespace GbVerif.X86
open GbVerif.JitCycles GbVerif.JitPaths GbVerif.JitStatus
variable {β : Type}

def r14b (s : St β) : Nat := get8 s (.lo 14)

def StRel (cur : Nat) (s : St β) : Prop :=
  if cur = pending then r14b s ≤ 1 else statusClass (r14b s) = cur

theorem get8_set8_lo (s : St β) (r v : Nat) (h : r < s.r.size) : get8 (set8 s (.lo r) v) (.lo r) = v % 256 := by
  simp only [get8, set8]
  rw [get_set_eq _ _ _ h, BitVec.toNat_ofNat]
  have := (get s r).isLt
  omega

theorem r14b_of_get {s s1 : St β} (h : get s1 14 = get s 14) : r14b s1 = r14b s := by
  unfold r14b; simp only [get8]; rw [h]

theorem ror_idiom (v : Nat) (fl : Flags) (h : v ≤ 1) : statusClass ((shOp .ror 8 v 1 fl).1 % 256) = 0 := by
  have : v = 0 ∨ v = 1 := by omega
  have hs : (shOp .ror 8 v 1 fl).1 = (v / 2 ^ 1) ||| (v * 2 ^ 7 % 2 ^ 8) := rfl
  rw [hs]
  rcases this with e | e <;> subst e <;> decide

theorem st_carries (B : Interp.BusOps β) : Carries B trSt (StRel (β := β)) where
  pc := by intro a s pc' h; exact h
  step := by
    intro ins a a' s s1 len hj1 hj2 htr hR hsz hstep
    unfold trSt at htr
    split at htr
    · -- mov r14b, v
      rename_i v
      split at htr
      · cases htr
      · rename_i hc
        injection htr with htr; subst htr
        simp only [Bool.or_eq_true, beq_iff_eq, decide_eq_true_eq, not_or] at hc
        simp only [step] at hstep
        injection hstep with hstep
        have hv : tokVal ({ s with pc := s.pc + len } : St β) v = v := by
          unfold tokVal
          have h1 : (v == 256) = false := by simp; omega
          have h2 : (v == 257) = false := by simp; omega
          simp only [h1, h2, Bool.false_eq_true, if_false]; omega
        have : r14b s1 = v := by
          rw [← hstep]; unfold r14b
          rw [get8_set8_lo _ _ _ (by show 14 < s.r.size; omega), hv]; omega
        unfold StRel
        have hne : statusClass v ≠ pending := by
          unfold statusClass pending
          split; · decide
          split; · decide
          split; · decide
          split <;> decide
        rw [if_neg hne, this]
    · -- sete r14b
      split at htr
      · cases htr
      · injection htr with htr; subst htr
        simp only [step] at hstep
        injection hstep with hstep
        unfold StRel
        rw [if_pos rfl, ← hstep]; unfold r14b
        rw [get8_set8_lo _ _ _ (by show 14 < s.r.size; omega)]
        split <;> decide
    · -- ror r14b, 1
      split at htr
      · rename_i hc
        have hc' : a = pending := by simpa using hc
        subst hc'
        injection htr with htr; subst htr
        unfold StRel at hR
        rw [if_pos rfl] at hR
        simp only [step] at hstep
        injection hstep with hstep
        unfold StRel
        rw [if_neg (by decide), ← hstep]; unfold r14b
        show statusClass (get8 (set8 _ (.lo 14) _) (.lo 14)) = 0
        rw [get8_set8_lo _ _ _ (by show 14 < s.r.size; omega)]
        have ht : tokVal ({ s with pc := s.pc + len } : St β) 1 = 1 := rfl
        rw [ht]
        exact ror_idiom _ _ hR
      · cases htr
    · -- everything else
      rename_i h1 h2 h3
      split at htr
      · cases htr
      · rename_i hc
        injection htr with htr; subst htr
        simp only [Bool.or_eq_true, beq_iff_eq, not_or] at hc
        have hfr : get s1 14 = get s 14 := by
          by_cases hcall : ins = .callRax
          · subst hcall
            have h' : callBus B ({ s with pc := s.pc + len } : St β) = .ok s1 := hstep
            exact callBus_frame B ({ s with pc := s.pc + len } : St β) s1 14 h' (by decide)
          · exact step_frame B s s1 ins _ 14 hstep hcall hc.2
        unfold StRel at hR ⊢
        rw [r14b_of_get hfr]; exact hR

/-- **what `jitStatus` means**: from a state whose r14b is of class normal, every complete run of the template leaves in
r14b a status of one of the classes of the analysis -/
theorem jitStatus_sound (B : Interp.BusOps β) (tokens : List Nat) (code : List (Nat × Instr)) (C : List Nat)
    (hdec : decodeCode tokens = some code) (hok : codeOk code (bytesOf tokens) = true) (hC : jitStatus tokens = some C)
    (fr : Nat) (s s' : St β) (hsz : s.r.size = 16) (hpc : s.pc = offAt code (bytesOf tokens) 0)
    (h0 : statusClass (r14b s) = 0) (hrun : run B code (bytesOf tokens) fr s = .ok s') :
    statusClass (r14b s') ∈ C := by
  have hR : StRel (β := β) 0 s := by unfold StRel; rw [if_neg (by decide)]; exact h0
  obtain ⟨a', n, hR', hf, hn⟩ := analyse_sound B trSt 0 (fun cur => if cur == pending then none else some cur) _ (st_carries B)
    tokens code C hdec hok hC fr s s' hsz hpc hR hrun
  split at hf
  · cases hf
  · rename_i hp
    injection hf with hf; subst hf
    unfold StRel at hR'
    rw [if_neg (by simpa using hp)] at hR'
    rw [hR']; exact hn

end GbVerif.X86
