import GbVerif.Proofs.X86SimRot
/-
C01, the data side: the rotates through carry.  RLA / RRA (`and al, 0x10 ; add al, 0xf0` moves the guest's C into the host's
CF and destroys F; `rcl|rcr ah, 1 ; <flag conversion taking C> ; and al, 0x1f`) and, on the CB page, RL r / RR r: the same,
then the Z tail of the circular rotates.  The template clears F's low nibble (the interpreter keeps it), hence the
hypothesis `g.af % 16 = 0` as for ADC / SBC / BIT.
-/
namespace GbVerif.X86
open GbVerif.JitCycles GbVerif.Interp
variable {β : Type}

theorem regs_eq (a b : Regs) (h0 : a.af = b.af) (h1 : a.bc = b.bc) (h2 : a.de = b.de) (h3 : a.hl = b.hl) (h4 : a.sp = b.sp)
    (h5 : a.ip = b.ip) (h6 : a.cycles = b.cycles) : a = b := by
  cases a; cases b; simp_all

inductive Rt2 where | rl | rr
deriving DecidableEq, Repr

def Rt2.host : Rt2 → ShOp
  | .rl => .rcl | .rr => .rcr
def Rt2.res : Rt2 → Nat → Nat → Nat × Bool
  | .rl, v, af => rlThrough v af | .rr, v, af => rrThrough v af

theorem and16_cases (x : Nat) : x % 256 &&& 16 = 0 ∨ x % 256 &&& 16 = 16 := by
  have := Enum.forall_lt_of_allRange (fun x => (x &&& 16 == 0) || (x &&& 16 == 16)) 8 (by decide +kernel) (x % 256) (Nat.mod_lt _ (by decide))
  simpa using this

theorem and10_mod (af : Nat) : af &&& 0x10 = (af % 256) &&& 16 := by
  have hlt : af &&& 0x10 < 2 ^ 8 := Nat.lt_of_le_of_lt Nat.and_le_right (by decide)
  rw [← Nat.mod_eq_of_lt hlt, Nat.and_mod_two_pow]

def mkFl (c : Bool) : Flags := ⟨c, false, false, false, false, false⟩

theorem rcl_tab (c : Bool) (v : Nat) (hv : v < 256) :
    (shOp ShOp.rcl 8 v 1 (mkFl c)).1 = (rlThrough v (if c then 16 else 0)).1 ∧
    (shOp ShOp.rcl 8 v 1 (mkFl c)).2.cf = (rlThrough v (if c then 16 else 0)).2 ∧ (rlThrough v (if c then 16 else 0)).1 < 256 := by
  cases c
  · have := Enum.forall_lt_of_allRange (fun v => (shOp ShOp.rcl 8 v 1 (mkFl false)).1 == (rlThrough v 0).1 &&
      ((shOp ShOp.rcl 8 v 1 (mkFl false)).2.cf == (rlThrough v 0).2) && decide ((rlThrough v 0).1 < 256)) 8 (by decide +kernel) v hv
    simp only [Bool.and_eq_true, beq_iff_eq, decide_eq_true_eq] at this
    exact ⟨this.1.1, this.1.2, this.2⟩
  · have := Enum.forall_lt_of_allRange (fun v => (shOp ShOp.rcl 8 v 1 (mkFl true)).1 == (rlThrough v 16).1 &&
      ((shOp ShOp.rcl 8 v 1 (mkFl true)).2.cf == (rlThrough v 16).2) && decide ((rlThrough v 16).1 < 256)) 8 (by decide +kernel) v hv
    simp only [Bool.and_eq_true, beq_iff_eq, decide_eq_true_eq] at this
    exact ⟨this.1.1, this.1.2, this.2⟩

theorem rcr_tab (c : Bool) (v : Nat) (hv : v < 256) :
    (shOp ShOp.rcr 8 v 1 (mkFl c)).1 = (rrThrough v (if c then 16 else 0)).1 ∧
    (shOp ShOp.rcr 8 v 1 (mkFl c)).2.cf = (rrThrough v (if c then 16 else 0)).2 ∧ (rrThrough v (if c then 16 else 0)).1 < 256 := by
  cases c
  · have := Enum.forall_lt_of_allRange (fun v => (shOp ShOp.rcr 8 v 1 (mkFl false)).1 == (rrThrough v 0).1 &&
      ((shOp ShOp.rcr 8 v 1 (mkFl false)).2.cf == (rrThrough v 0).2) && decide ((rrThrough v 0).1 < 256)) 8 (by decide +kernel) v hv
    simp only [Bool.and_eq_true, beq_iff_eq, decide_eq_true_eq] at this
    exact ⟨this.1.1, this.1.2, this.2⟩
  · have := Enum.forall_lt_of_allRange (fun v => (shOp ShOp.rcr 8 v 1 (mkFl true)).1 == (rrThrough v 16).1 &&
      ((shOp ShOp.rcr 8 v 1 (mkFl true)).2.cf == (rrThrough v 16).2) && decide ((rrThrough v 16).1 < 256)) 8 (by decide +kernel) v hv
    simp only [Bool.and_eq_true, beq_iff_eq, decide_eq_true_eq] at this
    exact ⟨this.1.1, this.1.2, this.2⟩

/-- the interpreter's through-carry rotates read only bit 4 of AF -/
theorem through_bit (af : Nat) (c : Bool) (hc : c = decide ((af % 256 &&& 16) + 240 + 0 ≥ 256)) (v : Nat) :
    rlThrough v af = rlThrough v (if c then 16 else 0) ∧ rrThrough v af = rrThrough v (if c then 16 else 0) := by
  have hm := and10_mod af
  rcases and16_cases af with h | h
  · have hc' : c = false := by rw [hc, h]; rfl
    have ha : af &&& 0x10 = (0 : Nat) &&& 0x10 := by rw [hm, h]; rfl
    subst hc'
    exact ⟨by show (u8 (v <<< 1) ||| ((af &&& 0x10) >>> 4), _) = (u8 (v <<< 1) ||| (((0 : Nat) &&& 0x10) >>> 4), _); rw [ha],
           by show ((v >>> 1) ||| u8 ((af &&& 0x10) <<< 3), _) = ((v >>> 1) ||| u8 (((0 : Nat) &&& 0x10) <<< 3), _); rw [ha]⟩
  · have hc' : c = true := by rw [hc, h]; rfl
    have ha : af &&& 0x10 = (16 : Nat) &&& 0x10 := by rw [hm, h]; rfl
    subst hc'
    exact ⟨by show (u8 (v <<< 1) ||| ((af &&& 0x10) >>> 4), _) = (u8 (v <<< 1) ||| (((16 : Nat) &&& 0x10) >>> 4), _); rw [ha],
           by show ((v >>> 1) ||| u8 ((af &&& 0x10) <<< 3), _) = ((v >>> 1) ||| u8 (((16 : Nat) &&& 0x10) <<< 3), _); rw [ha]⟩

theorem rotT_res (k : Rt2) (v : Nat) (hv : v < 256) (af : Nat) (fl : Flags)
    (hcf : fl.cf = decide ((af % 256 &&& 16) + 240 + 0 ≥ 256)) :
    (shOp k.host 8 v 1 fl).1 = (k.res v af).1 ∧ (shOp k.host 8 v 1 fl).2.cf = (k.res v af).2 ∧ (k.res v af).1 < 256 := by
  obtain ⟨t1, t2⟩ := through_bit af fl.cf hcf v
  cases k
  · show (shOp ShOp.rcl 8 v 1 fl).1 = (rlThrough v af).1 ∧ (shOp ShOp.rcl 8 v 1 fl).2.cf = (rlThrough v af).2 ∧ (rlThrough v af).1 < 256
    have e1 : (shOp ShOp.rcl 8 v 1 fl).1 = (shOp ShOp.rcl 8 v 1 (mkFl fl.cf)).1 := rfl
    have e3 : (shOp ShOp.rcl 8 v 1 fl).2.cf = (shOp ShOp.rcl 8 v 1 (mkFl fl.cf)).2.cf := rfl
    rw [e1, e3, t1]
    exact rcl_tab fl.cf v hv
  · show (shOp ShOp.rcr 8 v 1 fl).1 = (rrThrough v af).1 ∧ (shOp ShOp.rcr 8 v 1 fl).2.cf = (rrThrough v af).2 ∧ (rrThrough v af).1 < 256
    have e1 : (shOp ShOp.rcr 8 v 1 fl).1 = (shOp ShOp.rcr 8 v 1 (mkFl fl.cf)).1 := rfl
    have e3 : (shOp ShOp.rcr 8 v 1 fl).2.cf = (shOp ShOp.rcr 8 v 1 (mkFl fl.cf)).2.cf := rfl
    rw [e1, e3, t2]
    exact rcr_tab fl.cf v hv

/-- `rcl|rcr r8, 1` on the host location of a guest register, the host carry holding the guest's C of `af` -/
theorem step_rotT_sim (B : BusOps β) (k : Rt2) (r : Reg8) (g : Regs) (af : Nat) (st s1 : St β) (len : Nat) (hs : Sim g st)
    (hcf : st.fl.cf = decide ((af % 256 &&& 16) + 240 + 0 ≥ 256))
    (h : step B st (.sh8 k.host (hostR8 r) 1) len = .ok s1) :
    Sim (setReg g r (k.res (getReg g r) af).1) s1 ∧ Untouched st s1 ∧ s1.fl.cf = (k.res (getReg g r) af).2 := by
  have hu : Untouched st s1 := untouched_step B st s1 _ _ h (by intro e; cases e)
    (by simp only [destReg]; intro e; injection e with e; exact hostR8_ne14 r e)
    (fun _ e => by cases e) (fun _ e => by cases e) (fun e => by cases e) (fun e => by cases e)
    (fun _ _ _ _ e => by cases e) (fun _ _ _ e => by cases e)
  have e1 : step B st (.sh8 k.host (hostR8 r) 1) len =
      .ok { (set8 ({ st with pc := st.pc + len } : St β) (hostR8 r) (shOp k.host 8 (get8 st (hostR8 r)) 1 st.fl).1) with
            fl := (shOp k.host 8 (get8 st (hostR8 r)) 1 st.fl).2 } := rfl
  rw [e1] at h
  injection h with h
  rw [get8_sim hs r] at h
  obtain ⟨hv, hc, hlt⟩ := rotT_res k (getReg g r) (getReg_lt g r) af st.fl hcf
  refine ⟨?_, hu, ?_⟩
  · rw [← h, hv]; exact sim_fl (set8_sim (sim_pc hs _) r _ hlt) _
  · rw [← h]; exact hc

/-- the flag conversion of the rotates from a state related to `g1` whose host carry is `c` -/
theorem rot_tail (B : BusOps β) (o : Nat → Nat) (e : Nat) (g1 : Regs) (x : Nat) (c : Bool) (s1 s3 : St β) (hs1 : Sim g1 s1)
    (hc : s1.fl.cf = c) (hex : execList B e (pipeAt o 0xef 0x10 ++ [(o 10, Instr.alu8i AluOp.and (R8.lo 0) 0x1f)]) s1 = .ok s3) :
    Sim (flagsRot g1 (x, c) false) s3 ∧ Untouched s1 s3 := by
  obtain ⟨s2, hex2, hexp⟩ := execList_append B e _ _ s1 s3 hex
  obtain ⟨hx, hfr⟩ := pipe_sim B 0xef 0x10 (by decide) (by decide) o _ _ s1 s2 hs1 hex2
  obtain ⟨s4, hp, hex4⟩ := execList_cons B _ _ _ _ _ _ hexp
  have := execList_nil B _ _ _ hex4
  subst this
  obtain ⟨hx3, hr3, hb3, hst3, hsz3⟩ := step_al B .and (Or.inl rfl) 0x1f (by decide) s2 s3 _ hfr.size hp
  have hfr3 := frame06_al hfr hr3 hb3 hst3 hsz3
  rw [conv_10, hc] at hx
  have hA := getReg_lt g1 .A
  have hF : g1.af % 256 < 256 := Nat.mod_lt _ (by decide)
  have hFlt : (g1.af % 256 &&& 0xef ||| (if c = true then 0x10 else 0)) < 256 := by
    apply Nat.or_lt_two_pow (n := 8)
    · exact Nat.lt_of_le_of_lt Nat.and_le_right (by decide)
    · split <;> decide
  have hlo : (get s2 0).toNat % 256 = (g1.af % 256 &&& 0xef ||| (if c = true then 0x10 else 0)) := by
    have : (get s2 0).toNat % 256 = (get s2 0).toNat % 65536 % 256 := by omega
    rw [this, hx]; omega
  have hhi : (get s2 0).toNat / 256 % 256 = getReg g1 .A := by
    have : (get s2 0).toNat / 256 % 256 = (get s2 0).toNat % 65536 / 256 := by omega
    rw [this, hx]; omega
  rw [hlo, hhi, fRotC_eq _ hF] at hx3
  have hp : (flagsRot g1 (x, c) false).af = getReg g1 .A * 256 + ((g1.af % 256 &&& 0x0f) ||| (if c then 0x10 else 0)) :=
    rotFlagsC_pack g1 (x, c)
  have hlt : ((g1.af % 256 &&& 0x0f) ||| (if c then 0x10 else 0)) < 256 := by
    apply Nat.or_lt_two_pow (n := 8)
    · exact Nat.lt_of_le_of_lt Nat.and_le_right (by decide)
    · split <;> decide
  exact sim_af (g' := flagsRot g1 (x, c) false) hs1 hfr3 (sameButAf_flagsRotC g1 (x, c)) (by rw [hx3, hp]; omega)

theorem af_setReg_lo (g : Regs) (r : Reg8) (x : Nat) : (setReg g r x).af % 256 = g.af % 256 := by
  cases r
  · show setHi g.af x % 256 = _; rw [setHi_eq]; omega
  all_goals rfl

theorem getA_setReg_af (g : Regs) (af' : Nat) (r : Reg8) (x : Nat) (hx : x < 256) (hA : af' / 256 % 256 = g.af / 256 % 256) :
    getReg (setReg { g with af := af' } r x) .A = getReg (setReg g r x) .A := by
  cases r
  · rw [getReg_setReg_self _ _ _ hx, getReg_setReg_self _ _ _ hx]
  all_goals (show getHi af' = getHi g.af; rw [getHi_eq, getHi_eq, hA])

/-- the carry preamble changes F only: what the rest computes from the changed register file is what the interpreter
computes from the original one, when both F bytes have a clear low nibble -/
theorem flagsRot_af_irrel (g : Regs) (af' : Nat) (r : Reg8) (x : Nat) (hx : x < 256) (res : Nat × Bool) (b : Bool)
    (hA : af' / 256 % 256 = g.af / 256 % 256) (h1 : af' % 16 = 0) (h2 : g.af % 16 = 0) :
    flagsRot (setReg { g with af := af' } r x) res b = flagsRot (setReg g r x) res b := by
  have hAA := getA_setReg_af g af' r x hx hA
  have l1 : (setReg { g with af := af' } r x).af % 256 &&& 0x0f = 0 := by
    rw [af_setReg_lo, and_0f]; show af' % 256 % 16 = 0; omega
  have l2 : (setReg g r x).af % 256 &&& 0x0f = 0 := by
    rw [af_setReg_lo, and_0f]; omega
  have hc : (flagsRot (setReg { g with af := af' } r x) res false).af = (flagsRot (setReg g r x) res false).af := by
    rw [rotFlagsC_pack, rotFlagsC_pack, hAA, l1, l2]
  have hsame : ∀ bb, SameButAf (setReg g r x) (flagsRot (setReg g r x) res bb) := by
    intro bb; cases bb
    · exact sameButAf_flagsRotC _ _
    · exact sameButAf_flagsRot _ _
  have hsame' : ∀ bb, SameButAf (setReg { g with af := af' } r x) (flagsRot (setReg { g with af := af' } r x) res bb) := by
    intro bb; cases bb
    · exact sameButAf_flagsRotC _ _
    · exact sameButAf_flagsRot _ _
  obtain ⟨p1, p2, p3, p4, p5, p6⟩ := hsame b
  obtain ⟨q1, q2, q3, q4, q5, q6⟩ := hsame' b
  have base : (setReg { g with af := af' } r x).bc = (setReg g r x).bc ∧ (setReg { g with af := af' } r x).de = (setReg g r x).de ∧
      (setReg { g with af := af' } r x).hl = (setReg g r x).hl ∧ (setReg { g with af := af' } r x).sp = (setReg g r x).sp ∧
      (setReg { g with af := af' } r x).ip = (setReg g r x).ip ∧ (setReg { g with af := af' } r x).cycles = (setReg g r x).cycles := by
    cases r <;> exact ⟨rfl, rfl, rfl, rfl, rfl, rfl⟩
  obtain ⟨b1, b2, b3, b4, b5, b6⟩ := base
  apply regs_eq
  · cases b
    · exact hc
    · show (testZero (flagsRot (setReg { g with af := af' } r x) res false) res.1).af = (testZero (flagsRot (setReg g r x) res false) res.1).af
      unfold testZero
      split
      · show (flagsRot (setReg { g with af := af' } r x) res false).af ||| 0x80 = (flagsRot (setReg g r x) res false).af ||| 0x80
        rw [hc]
      · exact hc
  · rw [q1, p1, b1]
  · rw [q2, p2, b2]
  · rw [q3, p3, b3]
  · rw [q4, p4, b4]
  · rw [q5, p5, b5]
  · rw [q6, p6, b6]

def rottBodyAt (k : Rt2) (r : Reg8) (oa ob oc : Nat) (o : Nat → Nat) : List (Nat × Instr) :=
  [(oa, Instr.alu8i AluOp.and (R8.lo 0) 16), (ob, Instr.alu8i AluOp.add (R8.lo 0) 240)] ++
    (((oc, Instr.sh8 k.host (hostR8 r) 1) :: pipeAt o 0xef 0x10) ++ [(o 10, Instr.alu8i AluOp.and (R8.lo 0) 0x1f)])

def rottBody (k : Rt2) (r : Reg8) : List (Nat × Instr) :=
  carryPre ++ (((4, Instr.sh8 k.host (hostR8 r) 1) :: pipeAt (aluOff' 6) 0xef 0x10) ++ [(35, Instr.alu8i AluOp.and (R8.lo 0) 0x1f)])

theorem rottBody_eq (k : Rt2) (r : Reg8) : rottBody k r = rottBodyAt k r 0 2 4 (aluOff' 6) := rfl

theorem straight_rottBodyAt (k : Rt2) (r : Reg8) (oa ob oc : Nat) (o : Nat → Nat) : straight (rottBodyAt k r oa ob oc o) :=
  straight_app (straight_cons _ _ _ (fun _ _ e => Instr.noConfusion e) (fun _ e => Instr.noConfusion e) (straight_one _ _ (fun _ _ e => Instr.noConfusion e) (fun _ e => Instr.noConfusion e)))
    (straight_app (straight_cons _ _ _ (fun _ _ e => Instr.noConfusion e) (fun _ e => Instr.noConfusion e) (straight_pipe _ _ _)) (straight_al _ _ _))

theorem straight_rottBody (k : Rt2) (r : Reg8) : straight (rottBody k r) :=
  straight_app straight_carryPre
    (straight_app (straight_cons _ _ _ (fun _ _ e => Instr.noConfusion e) (fun _ e => Instr.noConfusion e) (straight_pipe _ _ _)) (straight_al _ _ _))

/-- carry in, rotate, carry out: the common part of RLA / RRA / RL r / RR r -/
theorem rott_body_at (B : BusOps β) (k : Rt2) (r : Reg8) (oa ob oc : Nat) (o : Nat → Nat) (e : Nat) (g : Regs) (st s3 : St β) (hs : Sim g st) (h0 : g.af % 16 = 0)
    (hex : execList B e (rottBodyAt k r oa ob oc o) st = .ok s3) :
    ∃ af', af' / 256 % 256 = g.af / 256 % 256 ∧ af' % 16 = 0 ∧
      Sim (flagsRot (setReg { g with af := af' } r (k.res (getReg g r) g.af).1) (k.res (getReg g r) g.af) false) s3 ∧ Untouched st s3 := by
  obtain ⟨s2, hpre, hex2⟩ := execList_append B e _ _ st s3 hex
  obtain ⟨hcf, hhi, hlo, hr, hb, hstk, hsz, _⟩ := pre_carry B oa ob _ st s2 hs.size hpre
  have hA := getReg_lt g .A
  have hgA : getReg g .A = g.af / 256 % 256 := by show getHi g.af = _; rw [getHi_eq]
  have hst0 : (get st 0).toNat / 256 % 256 = g.af / 256 % 256 := by have := hs.af; omega
  have hstlo : (get st 0).toNat % 256 = g.af % 256 := by have := hs.af; omega
  rw [hstlo] at hcf
  refine ⟨(get s2 0).toNat % 65536, by omega, ?_, ?_⟩
  · have : (get s2 0).toNat % 256 &&& 15 = (get s2 0).toNat % 256 % 16 := and_0f _
    omega
  have hs2 : Sim ({ g with af := (get s2 0).toNat % 65536 } : Regs) s2 :=
    ⟨by show _ = (get s2 0).toNat % 65536 % 65536; omega, by rw [hr 1 (by decide)]; exact hs.hl, by rw [hr 2 (by decide)]; exact hs.de,
     by rw [hr 3 (by decide)]; exact hs.bc, by rw [hr 12 (by decide)]; exact hs.sp, by rw [hr 13 (by decide)]; exact hs.ip,
     by rw [hr 15 (by decide)]; exact hs.cy, hsz⟩
  have hget : getReg ({ g with af := (get s2 0).toNat % 65536 } : Regs) r = getReg g r := by
    cases r
    · show getHi ((get s2 0).toNat % 65536) = getHi g.af; rw [getHi_eq, getHi_eq]; omega
    all_goals rfl
  have hex2' : execList B e ((oc, Instr.sh8 k.host (hostR8 r) 1) :: (pipeAt o 0xef 0x10 ++ [(o 10, Instr.alu8i AluOp.and (R8.lo 0) 0x1f)])) s2 = .ok s3 := hex2
  obtain ⟨s1, h1, hex4⟩ := execList_cons B _ _ _ _ _ _ hex2'
  obtain ⟨hs1, hu1, hc⟩ := step_rotT_sim B k r _ g.af s2 s1 _ hs2 hcf h1
  rw [hget] at hs1 hc
  have hu0 : Untouched st s2 := ⟨hb, hstk, hr 14 (by decide)⟩
  obtain ⟨q1, q2⟩ := rot_tail B o e _ (k.res (getReg g r) g.af).1 _ s1 s3 hs1 hc hex4
  exact ⟨q1, (hu0.trans hu1).trans q2⟩

theorem rott_body (B : BusOps β) (k : Rt2) (r : Reg8) (e : Nat) (g : Regs) (st s3 : St β) (hs : Sim g st) (h0 : g.af % 16 = 0)
    (hex : execList B e (rottBody k r) st = .ok s3) :
    ∃ af', af' / 256 % 256 = g.af / 256 % 256 ∧ af' % 16 = 0 ∧
      Sim (flagsRot (setReg { g with af := af' } r (k.res (getReg g r) g.af).1) (k.res (getReg g r) g.af) false) s3 ∧ Untouched st s3 :=
  rott_body_at B k r 0 2 4 (aluOff' 6) e g st s3 hs h0 hex

/-- carry in, rotate, carry out, zero: the register form of RL / RR at any offsets -/
theorem rt_body_at (B : BusOps β) (k : Rt2) (r : Reg8) (oa ob oc : Nat) (o : Nat → Nat) (z0 z1 z2 z3 e : Nat) (g : Regs) (st s6 : St β)
    (hs : Sim g st) (h0 : g.af % 16 = 0) (hex : execList B e (rottBodyAt k r oa ob oc o ++ zTail r z0 z1 z2 z3) st = .ok s6) :
    Sim (flagsRot (setReg g r (k.res (getReg g r) g.af).1) (k.res (getReg g r) g.af) true) s6 ∧ s6.bus = st.bus ∧ s6.stack = st.stack ∧
    (get8 s6 (.lo 14) = 0 ∨ get8 s6 (.lo 14) = 0x80) := by
  obtain ⟨s3, hb1, hb2⟩ := execList_append B e _ (rottBodyAt k r oa ob oc o) st s6 hex
  obtain ⟨af', hA, hz, hs3, hu3⟩ := rott_body_at B k r oa ob oc o _ g st s3 hs h0 hb1
  have hxlt : (k.res (getReg g r) g.af).1 < 256 :=
    (rotT_res k _ (getReg_lt g r) g.af (mkFl (decide ((g.af % 256 &&& 16) + 240 + 0 ≥ 256))) rfl).2.2
  rw [flagsRot_af_irrel g af' r _ hxlt _ false hA hz h0] at hs3
  generalize hg1 : setReg g r (k.res (getReg g r) g.af).1 = g1 at hs3 ⊢
  have hx : getReg g1 r = (k.res (getReg g r) g.af).1 := by rw [← hg1]; exact getReg_setReg_self g r _ hxlt
  generalize hres : k.res (getReg g r) g.af = res at hs3 hx ⊢
  have hlt : ((g1.af % 256 &&& 0x0f) ||| (if res.2 then 0x10 else 0)) < 256 := by
    apply Nat.or_lt_two_pow (n := 8)
    · exact Nat.lt_of_le_of_lt Nat.and_le_right (by decide)
    · split <;> decide
  obtain ⟨hs6, hbus, hstk, h14⟩ := ztail_body B r z0 z1 z2 z3 e (flagsRot g1 res false) (getReg g1 .A) _ (getReg_lt g1 .A) hlt
    (rotFlagsC_pack g1 res) s3 s6 hs3 hb2
  rw [getReg_flagsRotC, hx] at hs6
  exact ⟨hs6, by rw [hbus, hu3.bus], by rw [hstk, hu3.stack], h14⟩

/-! ### RLA, RRA -/

def Rt2.opA : Rt2 → Op
  | .rl => .RotateLeftA | .rr => .RotateRightA
def opcodeRtA : Rt2 → Nat
  | .rl => 0x17 | .rr => 0x1f

theorem table_rta (k : Rt2) (b1 b2 : Nat) :
    decodeCode (Gen.emitOp (opcodeRtA k)) = some (rottBody k .A ++ [(37, addIp 1), (41, addCy 1)]) ∧
    bytesOf (Gen.emitOp (opcodeRtA k)) = 45 ∧ Gen.decode (opcodeRtA k) b1 b2 = (k.opA, 1, 4) := by
  cases k <;> exact ⟨by decide +kernel, by decide +kernel, rfl⟩

theorem rotT_lt (k : Rt2) (v : Nat) (hv : v < 256) (af : Nat) : (k.res v af).1 < 256 :=
  (rotT_res k v hv af (mkFl (decide ((af % 256 &&& 16) + 240 + 0 ≥ 256))) rfl).2.2

/-- **RLA, RRA**: all states whose F has a clear low nibble -/
theorem sim_rta (k : Rt2) (b1 b2 : Nat) : SimulatesF (opcodeRtA k) b1 b2 := by
  obtain ⟨hdec, hbytes, hop⟩ := table_rta k b1 b2
  refine ⟨_, hdec, ?_⟩
  intro β B g m fuel st st' hsim h0 hpc _ _ hrun
  rw [hbytes] at hrun
  rw [hop]
  show ∃ g', runOp B k.opA g m 1 = .ok (g', m, STATUS_NORMAL) ∧ Sim { g' with cycles := g'.cycles + 4 / 4 } st' ∧ Untouched st st'
  rw [show (4 : Nat) / 4 = 1 from rfl]
  refine ⟨advance (flagsRot (setReg g .A (k.res (getReg g .A) g.af).1) (k.res (getReg g .A) g.af) false) 1, by cases k <;> rfl, ?_⟩
  obtain ⟨h1, h2⟩ := sim_body B (rottBody k .A) 37 41 45 1 1 g
    (flagsRot (setReg g .A (k.res (getReg g .A) g.af).1) (k.res (getReg g .A) g.af) false) (by cases k <;> rfl)
    (straight_rottBody k .A) (by decide) (by decide)
    (fun st0 s1 hs hex => by
      obtain ⟨af', hA, hz, q1, q2⟩ := rott_body B k .A 37 g st0 s1 hs h0 hex
      rw [flagsRot_af_irrel g af' .A _ (rotT_lt k _ (getReg_lt g .A) g.af) _ false hA hz h0] at q1
      exact ⟨q1, q2⟩)
    fuel st st' hsim (by rw [hpc]; rfl) hrun
  exact ⟨⟨h1.af, h1.hl, h1.de, h1.bc, h1.sp, h1.ip, h1.cy, h1.size⟩, h2⟩

/-! ### RL r, RR r -/

def Rt2.op : Rt2 → Reg8 → Op
  | .rl, r => .RotateLeft r | .rr, r => .RotateRight r
def Rt2.base : Rt2 → Nat
  | .rl => 0x10 | .rr => 0x18
def opcodeRt (k : Rt2) (r : Reg8) : Nat := k.base + r8code r

theorem table_rt (k : Rt2) (r : Reg8) (b2 : Nat) :
    decodeCode (Gen.emitCb (opcodeRt k r)) = some ((rottBody k r ++ zTail r 37 39 43 46) ++ [(49, addIp 2), (53, addCy 2)]) ∧
    bytesOf (Gen.emitCb (opcodeRt k r)) = 57 ∧ Gen.decode 0xcb (opcodeRt k r) b2 = (k.op r, 2, 8) := by
  cases k <;> cases r <;> exact ⟨by decide +kernel, by decide +kernel, rfl⟩

/-- **RL r, RR r** (2 x 7 registers): all states whose F has a clear low nibble -/
theorem sim_rt (k : Rt2) (r : Reg8) (b2 : Nat) : SimulatesCbF (opcodeRt k r) b2 := by
  obtain ⟨hdec, hbytes, hop⟩ := table_rt k r b2
  refine ⟨_, hdec, ?_⟩
  intro β B g m fuel st st' hsim h0 hpc hrun
  rw [hbytes] at hrun
  rw [hop]
  show ∃ g', runOp B (k.op r) g m 2 = .ok (g', m, STATUS_NORMAL) ∧ Sim { g' with cycles := g'.cycles + 8 / 4 } st' ∧ _
  rw [show (8 : Nat) / 4 = 2 from rfl]
  refine ⟨advance (flagsRot (setReg g r (k.res (getReg g r) g.af).1) (k.res (getReg g r) g.af) true) 2, by cases k <;> rfl, ?_⟩
  have hst : straight ((rottBody k r ++ zTail r 37 39 43 46) ++ [(49, addIp 2), (53, addCy 2)]) :=
    straight_app (straight_app (straight_rottBody k r) (straight_zTail r _ _ _ _)) (by
      intro p hp
      simp only [List.mem_cons, List.not_mem_nil, or_false] at hp
      rcases hp with e | e <;> subst e <;> exact ⟨fun _ _ e => Instr.noConfusion e, fun _ e => Instr.noConfusion e⟩)
  have hex := run_execList B _ 57 (by cases k <;> cases r <;> rfl) hst 19 0 rfl fuel st st' (by rw [hpc]; rfl) hrun
  rw [List.drop_zero] at hex
  obtain ⟨s6, hb, ht⟩ := execList_append B 57 _ (rottBody k r ++ zTail r 37 39 43 46) st st' hex
  obtain ⟨s3, hb1, hb2⟩ := execList_append B 49 _ (rottBody k r) st s6 hb
  obtain ⟨af', hA, hz, hs3, hu3⟩ := rott_body B k r 37 g st s3 hsim h0 hb1
  have hxlt := rotT_lt k _ (getReg_lt g r) g.af
  rw [flagsRot_af_irrel g af' r _ hxlt _ false hA hz h0] at hs3
  generalize hg1 : setReg g r (k.res (getReg g r) g.af).1 = g1 at hs3 ⊢
  have hx : getReg g1 r = (k.res (getReg g r) g.af).1 := by rw [← hg1]; exact getReg_setReg_self g r _ hxlt
  have hlo1 : g1.af % 256 % 16 = 0 := by rw [← hg1, af_setReg_lo]; omega
  generalize hres : k.res (getReg g r) g.af = res at hs3 hx ⊢
  have hlt : ((g1.af % 256 &&& 0x0f) ||| (if res.2 then 0x10 else 0)) < 256 := by
    apply Nat.or_lt_two_pow (n := 8)
    · exact Nat.lt_of_le_of_lt Nat.and_le_right (by decide)
    · split <;> decide
  obtain ⟨hs6, hbus, hstk, h14⟩ := ztail_body B r 37 39 43 46 49 (flagsRot g1 res false) (getReg g1 .A) _ (getReg_lt g1 .A) hlt
    (rotFlagsC_pack g1 res) s3 s6 hs3 hb2
  rw [getReg_flagsRotC, hx] at hs6
  have hs6' : Sim (flagsRot g1 res true) s6 := hs6
  obtain ⟨hs7, hu⟩ := sim_tail B hs6' 49 53 57 2 2 (by decide) (by decide) ht
  refine ⟨⟨hs7.af, hs7.hl, hs7.de, hs7.bc, hs7.sp, hs7.ip, hs7.cy, hs7.size⟩, ?_, by rw [hu.bus, hbus, hu3.bus], by rw [hu.stack, hstk, hu3.stack], ?_⟩
  · -- the interpreter leaves F's low nibble clear
    show (flagsRot g1 res true).af % 16 = 0
    have hp := rotFlags_pack g1 res
    rw [hp]
    have e16 : ∀ f, f < 256 → f % 16 = 0 → ∀ cb zb, (cb = 0 ∨ cb = 0x10) → (zb = 0 ∨ zb = 0x80) → (((f &&& 0x0f) ||| cb) ||| zb) % 16 = 0 := by
      intro f hf hz' cb zb hcb hzb
      have := Enum.forall_lt_of_allRange (fun f => f % 16 != 0 || ((((f &&& 0x0f) ||| 0) ||| 0) % 16 == 0 && (((f &&& 0x0f) ||| 0) ||| 0x80) % 16 == 0 &&
        (((f &&& 0x0f) ||| 0x10) ||| 0) % 16 == 0 && (((f &&& 0x0f) ||| 0x10) ||| 0x80) % 16 == 0)) 8 (by decide +kernel) f hf
      simp only [Bool.or_eq_true, bne_iff_ne, ne_eq, Bool.and_eq_true, beq_iff_eq] at this
      rcases this with h | h
      · exact absurd hz' h
      · rcases hcb with e | e <;> rcases hzb with e' | e' <;> subst e <;> subst e'
        · exact h.1.1.1
        · exact h.1.1.2
        · exact h.1.2
        · exact h.2
    have := e16 (g1.af % 256) (Nat.mod_lt _ (by decide)) hlo1 (if res.2 then 0x10 else 0) (if res.1 == 0 then 0x80 else 0)
      (by split <;> simp) (by split <;> simp)
    omega
  · have : get8 st' (.lo 14) = get8 s6 (.lo 14) := by
      show (get st' 14).toNat % 256 = (get s6 14).toNat % 256
      rw [hu.r14]
    rw [this]; exact h14

end GbVerif.X86
