import GbVerif.Proofs.X86SimInc
/-
C01, the data side: SCF, CCF, CPL.
-/
namespace GbVerif.X86
open GbVerif.JitCycles GbVerif.Interp
variable {β : Type}

/-- two byte operations on al in a row: AF afterwards, and the frame -/
theorem two_al (B : BusOps β) (op1 op2 : AluOp) (h1 : op1 = .and ∨ op1 = .or ∨ op1 = .xor) (h2 : op2 = .and ∨ op2 = .or ∨ op2 = .xor)
    (k1 k2 : Nat) (hk1 : k1 < 256) (hk2 : k2 < 256) (oa ob e : Nat) (g : Regs) (st s2 : St β) (hs : Sim g st)
    (hex : execList B e [(oa, .alu8i op1 (.lo 0) k1), (ob, .alu8i op2 (.lo 0) k2)] st = .ok s2) :
    (get s2 0).toNat % 65536 = getReg g .A * 256 + bitop op2 (bitop op1 (g.af % 256) k1) k2 ∧
    (∀ j, 0 ≠ j → get s2 j = get st j) ∧ s2.bus = st.bus ∧ s2.stack = st.stack ∧ s2.r.size = 16 := by
  obtain ⟨s1, ha, hex⟩ := execList_cons B _ _ _ _ _ _ hex
  obtain ⟨s3, hb, hex⟩ := execList_cons B _ _ _ _ _ _ hex
  have := execList_nil B _ _ _ hex
  subst this
  obtain ⟨x1, r1, b1, st1, sz1⟩ := step_al B op1 h1 k1 hk1 st s1 _ hs.size ha
  obtain ⟨x2, r2, b2, st2, sz2⟩ := step_al B op2 h2 k2 hk2 s1 s2 _ sz1 hb
  have hf : (get st 0).toNat % 256 = g.af % 256 := by have := hs.af; omega
  have hhi : (get st 0).toNat / 256 % 256 = getReg g .A := by
    show _ = getHi g.af; rw [getHi_eq]; have := hs.af; omega
  rw [hf, hhi] at x1
  have hA := getReg_lt g .A
  have hb1 := bitop_lt op1 (g.af % 256) k1 (Nat.mod_lt _ (by decide)) hk1
  have l1 : (get s1 0).toNat % 256 = bitop op1 (g.af % 256) k1 := by
    have : (get s1 0).toNat % 256 = (get s1 0).toNat % 65536 % 256 := by omega
    rw [this, x1]; omega
  have hi1 : (get s1 0).toNat / 256 % 256 = getReg g .A := by
    have : (get s1 0).toNat / 256 % 256 = (get s1 0).toNat % 65536 / 256 := by omega
    rw [this, x1]; omega
  rw [l1, hi1] at x2
  exact ⟨x2, fun j hj => by rw [r2 j hj, r1 j hj], by rw [b2, b1], by rw [st2, st1], sz2⟩

theorem untouched_of_frame {st s : St β} (hr : ∀ j, 0 ≠ j → get s j = get st j) (hb : s.bus = st.bus) (hst : s.stack = st.stack) :
    Untouched st s := ⟨hb, hst, hr 14 (by decide)⟩

/-- `Sim` after a body that changes only rax on the host and AF on the guest -/
theorem sim_af0 {g g' : Regs} {s s' : St β} (h : Sim g s) (hr : ∀ j, 0 ≠ j → get s' j = get s j) (hsz : s'.r.size = 16)
    (hg : SameButAf g g') (haf : (get s' 0).toNat % 65536 = g'.af % 65536) : Sim g' s' := by
  obtain ⟨e1, e2, e3, e4, e5, e6⟩ := hg
  refine ⟨haf, ?_, ?_, ?_, ?_, ?_, ?_, hsz⟩
  · rw [hr 1 (by decide), e3]; exact h.hl
  · rw [hr 2 (by decide), e2]; exact h.de
  · rw [hr 3 (by decide), e1]; exact h.bc
  · rw [hr 12 (by decide), e4]; exact h.sp
  · rw [hr 13 (by decide), e5]; exact h.ip
  · rw [hr 15 (by decide), e6]; exact h.cy

theorem fScf_eq (f : Nat) (hf : f < 256) : bitop .or (bitop .and f 159) 16 = ((f &&& ((0x70 ^^^ 0xff) % 256)) ||| 0x10) := by
  have := Enum.forall_lt_of_allRange (fun f => bitop .or (bitop .and f 159) 16 == ((f &&& ((0x70 ^^^ 0xff) % 256)) ||| 0x10)) 8 (by decide +kernel) f hf
  simpa using this

theorem fCcf_eq (f : Nat) (hf : f < 256) : bitop .xor (bitop .and f 159) 16 = ((f &&& ((0x60 ^^^ 0xff) % 256)) ^^^ 0x10) := by
  have := Enum.forall_lt_of_allRange (fun f => bitop .xor (bitop .and f 159) 16 == ((f &&& ((0x60 ^^^ 0xff) % 256)) ^^^ 0x10)) 8 (by decide +kernel) f hf
  simpa using this

theorem table_flagops (b1 b2 : Nat) :
    (decodeCode (Gen.emitOp 0x37) = some ([(0, Instr.alu8i AluOp.and (R8.lo 0) 159), (2, Instr.alu8i AluOp.or (R8.lo 0) 16)] ++ [(4, addIp 1), (8, addCy 1)]) ∧
      bytesOf (Gen.emitOp 0x37) = 12 ∧ Gen.decode 0x37 b1 b2 = (.SetCarryFlag, 1, 4)) ∧
    (decodeCode (Gen.emitOp 0x3f) = some ([(0, Instr.alu8i AluOp.and (R8.lo 0) 159), (2, Instr.alu8i AluOp.xor (R8.lo 0) 16)] ++ [(4, addIp 1), (8, addCy 1)]) ∧
      bytesOf (Gen.emitOp 0x3f) = 12 ∧ Gen.decode 0x3f b1 b2 = (.ComplementCarryFlag, 1, 4)) :=
  ⟨⟨by decide +kernel, by decide +kernel, rfl⟩, ⟨by decide +kernel, by decide +kernel, rfl⟩⟩

theorem straight_two (oa ob : Nat) (i1 i2 : Instr) (h1 : (∀ c rel, i1 ≠ .jcc c rel) ∧ (∀ rel, i1 ≠ .jmp rel))
    (h2 : (∀ c rel, i2 ≠ .jcc c rel) ∧ (∀ rel, i2 ≠ .jmp rel)) : straight [(oa, i1), (ob, i2)] := by
  intro p hp
  simp only [List.mem_cons, List.not_mem_nil, or_false] at hp
  rcases hp with e | e <;> subst e
  · exact h1
  · exact h2

/-- **SCF**: all states -/
theorem sim_scf (b1 b2 : Nat) : Simulates 0x37 b1 b2 := by
  obtain ⟨⟨hdec, hbytes, hop⟩, _⟩ := table_flagops b1 b2
  refine ⟨_, hdec, ?_⟩
  intro β B g m fuel st st' hsim hpc _ _ hrun
  rw [hbytes] at hrun
  rw [hop]
  show ∃ g', runOp B .SetCarryFlag g m 1 = .ok (g', m, STATUS_NORMAL) ∧ Sim { g' with cycles := g'.cycles + 4 / 4 } st' ∧ Untouched st st'
  rw [show (4 : Nat) / 4 = 1 from rfl]
  refine ⟨advance (orF (applyMask g 0x70) 0x10) 1, rfl, ?_⟩
  obtain ⟨h1, h2⟩ := sim_body B [(0, Instr.alu8i AluOp.and (R8.lo 0) 159), (2, Instr.alu8i AluOp.or (R8.lo 0) 16)] 4 8 12 1 1 g
    (orF (applyMask g 0x70) 0x10) rfl
    (straight_two _ _ _ _ ⟨fun _ _ e => Instr.noConfusion e, fun _ e => Instr.noConfusion e⟩ ⟨fun _ _ e => Instr.noConfusion e, fun _ e => Instr.noConfusion e⟩)
    (by decide) (by decide)
    (fun st0 s1 hs hex => by
      obtain ⟨hx, hr, hb, hst, hsz⟩ := two_al B .and .or (Or.inl rfl) (Or.inr (Or.inl rfl)) 159 16 (by decide) (by decide) 0 2 4 g st0 s1 hs hex
      refine ⟨sim_af0 hs hr hsz ((sameButAf_applyMask g _).trans (sameButAf_orF _ _)) ?_, untouched_of_frame hr hb hst⟩
      have hA := getReg_lt g .A
      have hg : g.af % 65536 = getReg g .A * 256 + g.af % 256 := by
        show g.af % 65536 = getHi g.af * 256 + g.af % 256
        rw [getHi_eq]; omega
      have i0 := applyMask_pack' g _ _ 0x70 hA (Nat.mod_lt _ (by decide)) hg
      have c0 : g.af % 256 &&& ((0x70 ^^^ 0xff) % 256) < 256 := Nat.lt_of_le_of_lt Nat.and_le_left (Nat.mod_lt _ (by decide))
      have i1 := orF_pack _ _ _ 0x10 c0 (by decide) i0
      rw [hx, i1, fScf_eq _ (Nat.mod_lt _ (by decide))]
      have : (g.af % 256 &&& ((0x70 ^^^ 0xff) % 256)) ||| 0x10 < 256 := Nat.or_lt_two_pow (n := 8) c0 (by decide)
      omega)
    fuel st st' hsim (by rw [hpc]; rfl) hrun
  exact ⟨⟨h1.af, h1.hl, h1.de, h1.bc, h1.sp, h1.ip, h1.cy, h1.size⟩, h2⟩

/-- **CCF**: all states -/
theorem sim_ccf (b1 b2 : Nat) : Simulates 0x3f b1 b2 := by
  obtain ⟨_, ⟨hdec, hbytes, hop⟩⟩ := table_flagops b1 b2
  refine ⟨_, hdec, ?_⟩
  intro β B g m fuel st st' hsim hpc _ _ hrun
  rw [hbytes] at hrun
  rw [hop]
  show ∃ g', runOp B .ComplementCarryFlag g m 1 = .ok (g', m, STATUS_NORMAL) ∧ Sim { g' with cycles := g'.cycles + 4 / 4 } st' ∧ Untouched st st'
  rw [show (4 : Nat) / 4 = 1 from rfl]
  refine ⟨advance { (applyMask g 0x60) with af := (applyMask g 0x60).af ^^^ 0x10 } 1, rfl, ?_⟩
  obtain ⟨h1, h2⟩ := sim_body B [(0, Instr.alu8i AluOp.and (R8.lo 0) 159), (2, Instr.alu8i AluOp.xor (R8.lo 0) 16)] 4 8 12 1 1 g
    { (applyMask g 0x60) with af := (applyMask g 0x60).af ^^^ 0x10 } rfl
    (straight_two _ _ _ _ ⟨fun _ _ e => Instr.noConfusion e, fun _ e => Instr.noConfusion e⟩ ⟨fun _ _ e => Instr.noConfusion e, fun _ e => Instr.noConfusion e⟩)
    (by decide) (by decide)
    (fun st0 s1 hs hex => by
      obtain ⟨hx, hr, hb, hst, hsz⟩ := two_al B .and .xor (Or.inl rfl) (Or.inr (Or.inr rfl)) 159 16 (by decide) (by decide) 0 2 4 g st0 s1 hs hex
      refine ⟨sim_af0 hs hr hsz ⟨rfl, rfl, rfl, rfl, rfl, rfl⟩ ?_, untouched_of_frame hr hb hst⟩
      have hA := getReg_lt g .A
      have hg : g.af % 65536 = getReg g .A * 256 + g.af % 256 := by
        show g.af % 65536 = getHi g.af * 256 + g.af % 256
        rw [getHi_eq]; omega
      have i0 := applyMask_pack' g _ _ 0x60 hA (Nat.mod_lt _ (by decide)) hg
      have c0 : g.af % 256 &&& ((0x60 ^^^ 0xff) % 256) < 256 := Nat.lt_of_le_of_lt Nat.and_le_left (Nat.mod_lt _ (by decide))
      have i1 : (applyMask g 0x60).af ^^^ 0x10 = getReg g .A * 256 + ((g.af % 256 &&& ((0x60 ^^^ 0xff) % 256)) ^^^ 0x10) := by
        have e := pack_xor (getReg g .A) (g.af % 256 &&& ((0x60 ^^^ 0xff) % 256)) 0 0x10 c0 (by decide)
        simp only [Nat.zero_mul, Nat.zero_add, Nat.xor_zero] at e
        rw [i0]; exact e
      show (get s1 0).toNat % 65536 = ((applyMask g 0x60).af ^^^ 0x10) % 65536
      rw [hx, i1, fCcf_eq _ (Nat.mod_lt _ (by decide))]
      have : (g.af % 256 &&& ((0x60 ^^^ 0xff) % 256)) ^^^ 0x10 < 256 := Nat.xor_lt_two_pow (n := 8) c0 (by decide)
      omega)
    fuel st st' hsim (by rw [hpc]; rfl) hrun
  exact ⟨⟨h1.af, h1.hl, h1.de, h1.bc, h1.sp, h1.ip, h1.cy, h1.size⟩, h2⟩

/-! ### CPL -/

theorem xor_ff (a : Nat) (ha : a < 256) : u8 (a ^^^ 0xff) = 255 - a := by
  have := Enum.forall_lt_of_allRange (fun a => u8 (a ^^^ 0xff) == 255 - a) 8 (by decide +kernel) a ha
  simpa using this

theorem table_cpl (b1 b2 : Nat) :
    decodeCode (Gen.emitOp 0x2f) = some ([(0, Instr.not8 (R8.hi 0)), (2, Instr.alu8i AluOp.or (R8.lo 0) 96)] ++ [(4, addIp 1), (8, addCy 1)]) ∧
    bytesOf (Gen.emitOp 0x2f) = 12 ∧ Gen.decode 0x2f b1 b2 = (.ComplementA, 1, 4) := ⟨by decide +kernel, by decide +kernel, rfl⟩

/-- **CPL**: all states -/
theorem sim_cpl (b1 b2 : Nat) : Simulates 0x2f b1 b2 := by
  obtain ⟨hdec, hbytes, hop⟩ := table_cpl b1 b2
  refine ⟨_, hdec, ?_⟩
  intro β B g m fuel st st' hsim hpc _ _ hrun
  rw [hbytes] at hrun
  rw [hop]
  show ∃ g', runOp B .ComplementA g m 1 = .ok (g', m, STATUS_NORMAL) ∧ Sim { g' with cycles := g'.cycles + 4 / 4 } st' ∧ Untouched st st'
  rw [show (4 : Nat) / 4 = 1 from rfl]
  refine ⟨advance (orF (orF (setReg g .A (u8 (getReg g .A ^^^ 0xff))) 0x40) 0x20) 1, rfl, ?_⟩
  obtain ⟨h1, h2⟩ := sim_body B [(0, Instr.not8 (R8.hi 0)), (2, Instr.alu8i AluOp.or (R8.lo 0) 96)] 4 8 12 1 1 g
    (orF (orF (setReg g .A (u8 (getReg g .A ^^^ 0xff))) 0x40) 0x20) rfl
    (straight_two _ _ _ _ ⟨fun _ _ e => Instr.noConfusion e, fun _ e => Instr.noConfusion e⟩ ⟨fun _ _ e => Instr.noConfusion e, fun _ e => Instr.noConfusion e⟩)
    (by decide) (by decide)
    (fun st0 s2 hs hex => by
      obtain ⟨s1, ha, hex⟩ := execList_cons B _ _ _ _ _ _ hex
      obtain ⟨s3, hb, hex⟩ := execList_cons B _ _ _ _ _ _ hex
      have := execList_nil B _ _ _ hex
      subst this
      have hA := getReg_lt g .A
      -- not ah
      have e1 : ∀ len, step B st0 (.not8 (.hi 0)) len =
          .ok (set8 ({ st0 with pc := st0.pc + len } : St β) (.hi 0) (255 - get8 st0 (.hi 0))) := fun _ => rfl
      have hgA : get8 st0 (.hi 0) = getReg g .A := get8_sim hs .A
      rw [e1, hgA] at ha
      injection ha with ha
      have hs1 : Sim (setReg g .A (255 - getReg g .A)) s1 := by
        rw [← ha]; exact set8_sim (sim_pc hs _) .A _ (by omega)
      have r1 : ∀ j, 0 ≠ j → get s1 j = get st0 j := by
        intro j hj; rw [← ha, get_set8_ne _ _ _ _ (by simpa [r8reg] using hj)]; rfl
      have b1' : s1.bus = st0.bus := by rw [← ha, bus_set8]
      have k1 : s1.stack = st0.stack := by rw [← ha, stack_set8]
      obtain ⟨x2, r2, b2', k2, z2⟩ := step_al B .or (Or.inr (Or.inl rfl)) 96 (by decide) s1 s2 _ hs1.size hb
      have hf1 : (get s1 0).toNat % 256 = g.af % 256 := by
        have := hs1.af
        have e : (setReg g .A (255 - getReg g .A)).af = (255 - getReg g .A) * 256 + g.af % 256 := setHi_eq _ _
        rw [e] at this; omega
      have hh1 : (get s1 0).toNat / 256 % 256 = 255 - getReg g .A := by
        have := hs1.af
        have e : (setReg g .A (255 - getReg g .A)).af = (255 - getReg g .A) * 256 + g.af % 256 := setHi_eq _ _
        rw [e] at this; omega
      rw [hf1, hh1] at x2
      refine ⟨sim_af0 hs (fun j hj => by rw [r2 j hj, r1 j hj]) z2 ((sameButAf_setA g _).trans ((sameButAf_orF _ _).trans (sameButAf_orF _ _))) ?_,
        untouched_of_frame (fun j hj => by rw [r2 j hj, r1 j hj]) (by rw [b2', b1']) (by rw [k2, k1])⟩
      have hset : (setReg g .A (u8 (getReg g .A ^^^ 0xff))).af = u8 (getReg g .A ^^^ 0xff) * 256 + g.af % 256 := setHi_eq _ _
      have i1 := orF_pack _ _ _ 0x40 (Nat.mod_lt _ (by decide)) (by decide) hset
      have i2 := orF_pack _ _ _ 0x20 (Nat.or_lt_two_pow (n := 8) (Nat.mod_lt _ (by decide)) (by decide)) (by decide) i1
      have hi : (orF (orF (setReg g .A (u8 (getReg g .A ^^^ 0xff))) 0x40) 0x20).af =
          (255 - getReg g .A) * 256 + ((g.af % 256 ||| 0x40) ||| 0x20) := by rw [i2, xor_ff _ hA]
      have e96 : bitop .or (g.af % 256) 96 = (g.af % 256 ||| 0x40) ||| 0x20 := by
        show g.af % 256 ||| 96 = _
        rw [Nat.or_assoc]; rfl
      have hlt : (g.af % 256 ||| 0x40) ||| 0x20 < 256 :=
        Nat.or_lt_two_pow (n := 8) (Nat.or_lt_two_pow (n := 8) (Nat.mod_lt _ (by decide)) (by decide)) (by decide)
      rw [x2, hi, e96]
      omega)
    fuel st st' hsim (by rw [hpc]; rfl) hrun
  exact ⟨⟨h1.af, h1.hl, h1.de, h1.bc, h1.sp, h1.ip, h1.cy, h1.size⟩, h2⟩

end GbVerif.X86
