import GbVerif.Proofs.X86SimShift
/-
C01, the data side, CB page: SWAP r for the seven registers.  Template: `rol r8, 4 ; or r8, r8 ; <flag conversion keeping
0x7f of F, taking Z> ; and al, 0x8f`.
-/
namespace GbVerif.X86
open GbVerif.JitCycles GbVerif.Interp
variable {β : Type}

theorem getReg_setReg_self (g : Regs) (r : Reg8) (x : Nat) (hx : x < 256) : getReg (setReg g r x) r = x := by
  cases r <;> simp only [getReg, setReg, getHi_eq, getLo, setHi_eq, setLo_eq _ _ hx] <;> omega

theorem setHi_idem (p x : Nat) : setHi (setHi p x) x = setHi p x := by
  rw [setHi_eq, setHi_eq]; omega
theorem setLo_idem (p x : Nat) (hx : x < 256) : setLo (setLo p x) x = setLo p x := by
  rw [setLo_eq _ _ hx, setLo_eq _ _ hx]; omega

theorem setReg_idem (g : Regs) (r : Reg8) (x : Nat) (hx : x < 256) : setReg (setReg g r x) r x = setReg g r x := by
  cases r
  · show ({ g with af := setHi (setHi g.af x) x } : Regs) = { g with af := setHi g.af x }; rw [setHi_idem]
  · show ({ g with bc := setHi (setHi g.bc x) x } : Regs) = { g with bc := setHi g.bc x }; rw [setHi_idem]
  · show ({ g with bc := setLo (setLo g.bc x) x } : Regs) = { g with bc := setLo g.bc x }; rw [setLo_idem _ _ hx]
  · show ({ g with de := setHi (setHi g.de x) x } : Regs) = { g with de := setHi g.de x }; rw [setHi_idem]
  · show ({ g with de := setLo (setLo g.de x) x } : Regs) = { g with de := setLo g.de x }; rw [setLo_idem _ _ hx]
  · show ({ g with hl := setHi (setHi g.hl x) x } : Regs) = { g with hl := setHi g.hl x }; rw [setHi_idem]
  · show ({ g with hl := setLo (setLo g.hl x) x } : Regs) = { g with hl := setLo g.hl x }; rw [setLo_idem _ _ hx]

/-- `or r8, r8` on the host location of a guest register holding `x`: nothing moves, ZF says whether `x` is zero -/
theorem step_orself_sim (B : BusOps β) (r : Reg8) (x : Nat) (hx : x < 256) (g : Regs) (st s1 : St β) (len : Nat)
    (hs : Sim (setReg g r x) st) (h : step B st (.alu8 .or (hostR8 r) (hostR8 r)) len = .ok s1) :
    Sim (setReg g r x) s1 ∧ Untouched st s1 ∧ s1.fl.zf = (x == 0) := by
  have hu : Untouched st s1 := untouched_step B st s1 _ _ h (by intro e; cases e)
    (by simp only [destReg]; intro e; injection e with e; exact hostR8_ne14 r e)
    (fun _ e => by cases e) (fun _ e => by cases e) (fun e => by cases e) (fun e => by cases e)
    (fun _ _ _ _ e => by cases e) (fun _ _ _ e => by cases e)
  have e1 : step B st (.alu8 .or (hostR8 r) (hostR8 r)) len =
      .ok { (set8 ({ st with pc := st.pc + len } : St β) (hostR8 r) (aluOp .or 8 (get8 st (hostR8 r)) (get8 st (hostR8 r)) st.fl).1) with
            fl := (aluOp .or 8 (get8 st (hostR8 r)) (get8 st (hostR8 r)) st.fl).2 } := rfl
  rw [e1] at h
  injection h with h
  rw [get8_sim hs r, getReg_setReg_self g r x hx] at h
  have hv : (aluOp .or 8 x x st.fl).1 = x := Nat.or_self x
  have hz : (aluOp .or 8 x x st.fl).2.zf = (x == 0) := by
    show (x ||| x == 0) = (x == 0); rw [Nat.or_self]
  refine ⟨?_, hu, ?_⟩
  · rw [← h, hv]
    have := sim_fl (set8_sim (sim_pc hs (st.pc + len)) r x hx) (aluOp .or 8 x x st.fl).2
    rw [setReg_idem g r x hx] at this
    exact this
  · rw [← h]; exact hz

theorem rol4_swap (v : Nat) (hv : v < 256) (fl : Flags) : (shOp .rol 8 v 4 fl).1 = swapN v ∧ swapN v < 256 := by
  have e1 : (shOp .rol 8 v 4 fl).1 = (v * 2 ^ (4 % 8) % 2 ^ 8) ||| (v / 2 ^ (8 - 4 % 8)) := rfl
  have := Enum.forall_lt_of_allRange (fun v => ((v * 2 ^ (4 % 8) % 2 ^ 8) ||| (v / 2 ^ (8 - 4 % 8))) == swapN v && decide (swapN v < 256)) 8 (by decide +kernel) v hv
  simp only [Bool.and_eq_true, beq_iff_eq, decide_eq_true_eq] at this
  exact ⟨by rw [e1, this.1], this.2⟩

/-- `rol r8, 4` on the host location of a guest register: the nibbles swapped -/
theorem step_rol4_sim (B : BusOps β) (r : Reg8) (g : Regs) (st s1 : St β) (len : Nat) (hs : Sim g st)
    (h : step B st (.sh8 .rol (hostR8 r) 4) len = .ok s1) :
    Sim (setReg g r (swapN (getReg g r))) s1 ∧ Untouched st s1 := by
  have hu : Untouched st s1 := untouched_step B st s1 _ _ h (by intro e; cases e)
    (by simp only [destReg]; intro e; injection e with e; exact hostR8_ne14 r e)
    (fun _ e => by cases e) (fun _ e => by cases e) (fun e => by cases e) (fun e => by cases e)
    (fun _ _ _ _ e => by cases e) (fun _ _ _ e => by cases e)
  have e1 : step B st (.sh8 .rol (hostR8 r) 4) len =
      .ok { (set8 ({ st with pc := st.pc + len } : St β) (hostR8 r) (shOp .rol 8 (get8 st (hostR8 r)) 4 st.fl).1) with
            fl := (shOp .rol 8 (get8 st (hostR8 r)) 4 st.fl).2 } := rfl
  rw [e1] at h
  injection h with h
  rw [get8_sim hs r] at h
  obtain ⟨hv, hlt⟩ := rol4_swap (getReg g r) (getReg_lt g r) st.fl
  refine ⟨?_, hu⟩
  rw [← h, hv]; exact sim_fl (set8_sim (sim_pc hs _) r _ hlt) _

theorem conv_80 (fl : Flags) : conv fl &&& 0x80 = (if fl.zf then 0x80 else 0) := by
  obtain ⟨cf, pf, af, zf, sf, of⟩ := fl
  cases cf <;> cases af <;> cases zf <;> simp [conv]

theorem fSwap_eq (f : Nat) (hf : f < 256) (z : Bool) :
    bitop .and ((f &&& 0x7f) ||| (if z then 0x80 else 0)) 0x8f = ((f &&& 0x0f) ||| (if z then 0x80 else 0)) := by
  have := Enum.forall_lt_of_allRange (fun f =>
    (bitop .and ((f &&& 0x7f) ||| 0x80) 0x8f == ((f &&& 0x0f) ||| 0x80)) &&
    (bitop .and ((f &&& 0x7f) ||| 0) 0x8f == ((f &&& 0x0f) ||| 0))) 8 (by decide +kernel) f hf
  simp only [Bool.and_eq_true, beq_iff_eq] at this
  cases z
  · simpa using this.2
  · simpa using this.1

theorem swapFlags_pack (g1 : Regs) (x : Nat) :
    (testZero (applyMask g1 0xf0) x).af = getReg g1 .A * 256 + ((g1.af % 256 &&& 0x0f) ||| (if x == 0 then 0x80 else 0)) := by
  have hA := getReg_lt g1 .A
  have hg : g1.af % 65536 = getReg g1 .A * 256 + g1.af % 256 := by
    show g1.af % 65536 = getHi g1.af * 256 + g1.af % 256
    rw [getHi_eq]; omega
  have i0 := applyMask_pack' g1 _ _ 0xf0 hA (Nat.mod_lt _ (by decide)) hg
  rw [show ((0xf0 ^^^ 0xff) % 256 : Nat) = 0x0f from rfl] at i0
  have c0 : g1.af % 256 &&& 0x0f < 256 := Nat.lt_of_le_of_lt Nat.and_le_right (by decide)
  exact testZero_pack _ _ _ x c0 i0

def opcodeSwap (r : Reg8) : Nat := 0x30 + r8code r

def swapBodyAt (r : Reg8) (o0 o1 : Nat) (o : Nat → Nat) : List (Nat × Instr) :=
  ((o0, Instr.sh8 ShOp.rol (hostR8 r) 4) :: (o1, Instr.alu8 AluOp.or (hostR8 r) (hostR8 r)) :: pipeAt o 0x7f 0x80) ++
    [(o 10, Instr.alu8i AluOp.and (R8.lo 0) 0x8f)]

def swapBody (r : Reg8) : List (Nat × Instr) := swapBodyAt r 0 3 (aluOff' 5)

theorem table_swap (r : Reg8) (b2 : Nat) :
    decodeCode (Gen.emitCb (opcodeSwap r)) = some (swapBody r ++ [(36, addIp 2), (40, addCy 2)]) ∧
    bytesOf (Gen.emitCb (opcodeSwap r)) = 44 ∧ Gen.decode 0xcb (opcodeSwap r) b2 = (.Swap r, 2, 8) := by
  cases r <;> exact ⟨by decide +kernel, by decide +kernel, rfl⟩

/-- the body of SWAP r -/
theorem swap_body_at (B : BusOps β) (r : Reg8) (o0 o1 : Nat) (o : Nat → Nat) (e : Nat) (g : Regs) (st s3 : St β) (hs : Sim g st)
    (hex : execList B e (swapBodyAt r o0 o1 o) st = .ok s3) :
    Sim (testZero (applyMask (setReg g r (swapN (getReg g r))) 0xf0) (swapN (getReg g r))) s3 ∧ Untouched st s3 := by
  obtain ⟨s2, hex1, hexp⟩ := execList_append B e _ _ st s3 hex
  obtain ⟨sa, ha, hex1⟩ := execList_cons B _ _ _ _ _ _ hex1
  obtain ⟨sb, hb, hex2⟩ := execList_cons B _ _ _ _ _ _ hex1
  obtain ⟨hsa, hua⟩ := step_rol4_sim B r g st sa _ hs ha
  have hxlt := (rol4_swap (getReg g r) (getReg_lt g r) st.fl).2
  generalize hxdef : swapN (getReg g r) = x at hsa hxlt ⊢
  obtain ⟨hs1, hub, hz⟩ := step_orself_sim B r x hxlt g sa sb _ hsa hb
  obtain ⟨hx, hfr⟩ := pipe_sim B 0x7f 0x80 (by decide) (by decide) o _ _ sb s2 hs1 hex2
  obtain ⟨s4, hp, hex4⟩ := execList_cons B _ _ _ _ _ _ hexp
  have := execList_nil B _ _ _ hex4
  subst this
  obtain ⟨hx3, hr3, hb3, hst3, hsz3⟩ := step_al B .and (Or.inl rfl) 0x8f (by decide) s2 s3 _ hfr.size hp
  have hfr3 := frame06_al hfr hr3 hb3 hst3 hsz3
  rw [conv_80, hz] at hx
  generalize hg1 : setReg g r x = g1 at hs1 hx ⊢
  have hA := getReg_lt g1 .A
  have hF : g1.af % 256 < 256 := Nat.mod_lt _ (by decide)
  have hFlt : (g1.af % 256 &&& 0x7f ||| (if (x == 0) = true then 0x80 else 0)) < 256 := by
    apply Nat.or_lt_two_pow (n := 8)
    · exact Nat.lt_of_le_of_lt Nat.and_le_right (by decide)
    · split <;> decide
  have hlo : (get s2 0).toNat % 256 = (g1.af % 256 &&& 0x7f ||| (if (x == 0) = true then 0x80 else 0)) := by
    have : (get s2 0).toNat % 256 = (get s2 0).toNat % 65536 % 256 := by omega
    rw [this, hx]; omega
  have hhi : (get s2 0).toNat / 256 % 256 = getReg g1 .A := by
    have : (get s2 0).toNat / 256 % 256 = (get s2 0).toNat % 65536 / 256 := by omega
    rw [this, hx]; omega
  rw [hlo, hhi, fSwap_eq _ hF] at hx3
  obtain ⟨q1, q2⟩ := sim_af (g' := testZero (applyMask g1 0xf0) x) hs1 hfr3
    ((sameButAf_applyMask g1 _).trans (sameButAf_testZero _ _)) (by
    rw [hx3, swapFlags_pack]
    have hlt : ((g1.af % 256 &&& 0x0f) ||| (if x == 0 then 0x80 else 0)) < 256 := by
      apply Nat.or_lt_two_pow (n := 8)
      · exact Nat.lt_of_le_of_lt Nat.and_le_right (by decide)
      · split <;> decide
    omega)
  exact ⟨q1, (hua.trans hub).trans q2⟩

theorem swap_body (B : BusOps β) (r : Reg8) (g : Regs) (st s3 : St β) (hs : Sim g st)
    (hex : execList B 36 (swapBody r) st = .ok s3) :
    Sim (testZero (applyMask (setReg g r (swapN (getReg g r))) 0xf0) (swapN (getReg g r))) s3 ∧ Untouched st s3 :=
  swap_body_at B r 0 3 (aluOff' 5) 36 g st s3 hs hex

theorem straight_swapBodyAt (r : Reg8) (o0 o1 : Nat) (o : Nat → Nat) : straight (swapBodyAt r o0 o1 o) :=
  straight_app (straight_cons _ _ _ (fun _ _ e => Instr.noConfusion e) (fun _ e => Instr.noConfusion e)
    (straight_cons _ _ _ (fun _ _ e => Instr.noConfusion e) (fun _ e => Instr.noConfusion e) (straight_pipe _ _ _))) (straight_al _ _ _)

theorem straight_swapBody (r : Reg8) : straight (swapBody r) :=
  straight_app (straight_cons _ _ _ (fun _ _ e => Instr.noConfusion e) (fun _ e => Instr.noConfusion e)
    (straight_cons _ _ _ (fun _ _ e => Instr.noConfusion e) (fun _ e => Instr.noConfusion e) (straight_pipe _ _ _))) (straight_al _ _ _)

/-- **SWAP r** (7 registers): all states -/
theorem sim_swap (r : Reg8) (b2 : Nat) : SimulatesCb (opcodeSwap r) b2 := by
  obtain ⟨hdec, hbytes, hop⟩ := table_swap r b2
  refine ⟨_, hdec, ?_⟩
  intro β B g m fuel st st' hsim hpc hrun
  rw [hbytes] at hrun
  rw [hop]
  show ∃ g', runOp B (.Swap r) g m 2 = .ok (g', m, STATUS_NORMAL) ∧ Sim { g' with cycles := g'.cycles + 8 / 4 } st' ∧ Untouched st st'
  rw [show (8 : Nat) / 4 = 2 from rfl]
  refine ⟨advance (testZero (applyMask (setReg g r (swapN (getReg g r))) 0xf0) (swapN (getReg g r))) 2, rfl, ?_⟩
  obtain ⟨h1, h2⟩ := sim_body B (swapBody r) 36 40 44 2 2 g
    (testZero (applyMask (setReg g r (swapN (getReg g r))) 0xf0) (swapN (getReg g r))) (by cases r <;> rfl)
    (straight_swapBody r) (by decide) (by decide)
    (fun st0 s1 hs hex => swap_body B r g st0 s1 hs hex)
    fuel st st' hsim (by rw [hpc]; rfl) hrun
  exact ⟨⟨h1.af, h1.hl, h1.de, h1.bc, h1.sp, h1.ip, h1.cy, h1.size⟩, h2⟩

end GbVerif.X86
