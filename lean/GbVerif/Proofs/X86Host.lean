import GbVerif.Model.JitHost
import GbVerif.Proofs.X86Paths
import GbVerif.Proofs.X86Stack
/-
Soundness of the host-discipline walk (`X86Wf.absStep` through `JitPaths.paths`) for executions of the x86 model:
the host stack below the template's own pushes is never touched, rbp is never written, and at a `call rax` rax holds one
of the five helper pointers and rdi the memory base.
-/
namespace GbVerif.X86
open GbVerif.JitCycles GbVerif.JitPaths GbVerif.X86Wf
variable {β : Type}

def HostRel (stack0 : List W) (rbp0 : W) (a : Abs) (s : St β) : Prop :=
  s.stack.length = stack0.length + a.depth ∧ s.stack.drop a.depth = stack0 ∧ get s 5 = rbp0 ∧
  (a.raxPtr = true → ∃ p, 513 ≤ p ∧ p ≤ 517 ∧ get s 0 = ptrVal p) ∧ (a.rdiMem = true → get s 7 = ptrVal 512)

/-- the write set of `X86Wf` and the destination register of `JitCycles` agree off the helper call -/
theorem writes_eq (ins : Instr) (hc : ins ≠ .callRax) : writes ins = (destReg ins).toList := by
  cases ins <;> simp only [writes, destReg, r8reg, Option.toList] <;> try rfl
  all_goals first
    | (split <;> rfl)
    | (rename_i r; cases r <;> rfl)
    | (rename_i op d x; split <;> (try rfl) <;> cases d <;> rfl)
    | exact absurd rfl hc
    | skip

/-- what the first two guards of `absStep` give for an instruction that is not the helper call -/
theorem guards_frame (B : Interp.BusOps β) (s s1 : St β) (ins : Instr) (len : Nat) (hstep : step B s ins len = .ok s1)
    (hc : ins ≠ .callRax)
    (hg : (ins != .callRax && (writes ins).any (fun r => r == 4 || r == 5 || (8 ≤ r && r ≤ 11))) = false) :
    get s1 5 = get s 5 ∧ ((writes ins).contains 0 = false → get s1 0 = get s 0) ∧
    ((writes ins).contains 7 = false → get s1 7 = get s 7) := by
  rw [writes_eq ins hc] at hg ⊢
  have hne : (ins != .callRax) = true := by simpa using hc
  rw [hne, Bool.true_and] at hg
  cases hd : destReg ins with
  | none =>
    have hfr : ∀ j, get s1 j = get s j := fun j => step_frame B s s1 ins _ j hstep hc (by rw [hd]; intro e; cases e)
    exact ⟨hfr 5, fun _ => hfr 0, fun _ => hfr 7⟩
  | some r =>
    rw [hd] at hg
    simp only [Option.toList, List.any_cons, List.any_nil, Bool.or_false] at hg
    have hfr : ∀ j, r ≠ j → get s1 j = get s j := fun j hj =>
      step_frame B s s1 ins _ j hstep hc (by rw [hd]; intro e; injection e with e; exact hj e)
    refine ⟨hfr 5 ?_, fun h0 => hfr 0 ?_, fun h7 => hfr 7 ?_⟩
    · intro e; subst e; simp at hg
    · intro e; subst e; simp [Option.toList] at h0
    · intro e; subst e; simp [Option.toList] at h7

theorem host_carries (B : Interp.BusOps β) (stack0 : List W) (rbp0 : W) :
    Carries B absStep (HostRel (β := β) stack0 rbp0) where
  pc := by
    intro a s pc' h
    obtain ⟨h1, h2, h3, h4, h5⟩ := h
    exact ⟨h1, h2, h3, h4, h5⟩
  step := by
    intro ins a a' s s1 len hj1 hj2 htr hR hsz hstep
    obtain ⟨hlen, hdrop, hrbp, hrax, hrdi⟩ := hR
    by_cases hc : ins = .callRax
    · -- the helper call
      subst hc
      have e : absStep .callRax a =
          (if (a.raxPtr && a.rdiMem) = true then some { a with raxPtr := false, rdiMem := false } else none) := rfl
      rw [e] at htr
      · split at htr
        · injection htr with htr; subst htr
          have h' : callBus B ({ s with pc := s.pc + len } : St β) = .ok s1 := hstep
          have hst := callBus_stack B _ s1 h'
          have h5 := callBus_frame B ({ s with pc := s.pc + len } : St β) s1 5 h' (by decide)
          exact ⟨by rw [hst]; exact hlen, by rw [hst]; exact hdrop, by rw [h5]; exact hrbp, fun h => Bool.noConfusion h, fun h => Bool.noConfusion h⟩
        · cases htr
    · unfold absStep at htr
      simp only [] at htr
      split at htr
      · cases htr
      · rename_i hg1
        split at htr
        · cases htr
        · rename_i hg2
          obtain ⟨f5, f0, f7⟩ := guards_frame B s s1 ins len hstep hc (by simpa using hg1)
          have hrax' : (if (writes ins).contains 0 then false else a.raxPtr) = true → ∃ p, 513 ≤ p ∧ p ≤ 517 ∧ get s1 0 = ptrVal p := by
            intro h
            by_cases hw : (writes ins).contains 0 = true
            · rw [if_pos hw] at h; cases h
            · rw [if_neg hw] at h
              obtain ⟨p, h1, h2, h3⟩ := hrax h
              exact ⟨p, h1, h2, by rw [f0 (by simpa using hw)]; exact h3⟩
          have hrdi' : (if (writes ins).contains 7 then false else a.rdiMem) = true → get s1 7 = ptrVal 512 := by
            intro h
            by_cases hw : (writes ins).contains 7 = true
            · rw [if_pos hw] at h; cases h
            · rw [if_neg hw] at h
              rw [f7 (by simpa using hw)]; exact hrdi h
          have h5 : get s1 5 = rbp0 := by rw [f5]; exact hrbp
          split at htr
          · -- push
            rename_i r
            injection htr with htr; subst htr
            simp only [step] at hstep
            injection hstep with hstep
            have hst : s1.stack = get s r :: s.stack := by rw [← hstep]; rfl
            refine ⟨by rw [hst]; simp only [List.length_cons]; omega, by rw [hst]; exact hdrop, h5, hrax', hrdi'⟩
          · -- pushf
            injection htr with htr; subst htr
            simp only [step] at hstep
            injection hstep with hstep
            have hst : s1.stack = BitVec.ofNat 64 (flagsWord s.fl) :: s.stack := by rw [← hstep]
            refine ⟨by rw [hst]; simp only [List.length_cons]; omega, by rw [hst]; exact hdrop, h5, hrax', hrdi'⟩
          · -- pop
            rename_i r
            split at htr
            · cases htr
            · rename_i hd
              have hd' : a.depth ≠ 0 := by simpa using hd
              injection htr with htr; subst htr
              simp only [step] at hstep
              split at hstep
              · rename_i w rest hs
                injection hstep with hstep
                have hs' : s.stack = w :: rest := hs
                have hst : s1.stack = rest := by rw [← hstep]; rfl
                refine ⟨?_, ?_, h5, hrax', hrdi'⟩
                · rw [hst]; rw [hs'] at hlen; simp only [List.length_cons] at hlen; show rest.length = stack0.length + (a.depth - 1); omega
                · rw [hst]; show rest.drop (a.depth - 1) = stack0
                  rw [hs'] at hdrop
                  obtain ⟨d, hd2⟩ : ∃ d, a.depth = d + 1 := ⟨a.depth - 1, by omega⟩
                  rw [hd2] at hdrop ⊢
                  simpa using hdrop
              · cases hstep
          · -- popf
            split at htr
            · cases htr
            · rename_i hd
              have hd' : a.depth ≠ 0 := by simpa using hd
              injection htr with htr; subst htr
              simp only [step] at hstep
              split at hstep
              · rename_i w rest hs
                injection hstep with hstep
                have hs' : s.stack = w :: rest := hs
                have hst : s1.stack = rest := by rw [← hstep]
                refine ⟨?_, ?_, h5, hrax', hrdi'⟩
                · rw [hst]; rw [hs'] at hlen; simp only [List.length_cons] at hlen; show rest.length = stack0.length + (a.depth - 1); omega
                · rw [hst]; show rest.drop (a.depth - 1) = stack0
                  rw [hs'] at hdrop
                  obtain ⟨d, hd2⟩ : ∃ d, a.depth = d + 1 := ⟨a.depth - 1, by omega⟩
                  rw [hd2] at hdrop ⊢
                  simpa using hdrop
              · cases hstep
          · -- load
            split at htr
            · injection htr with htr; subst htr
              have hst := step_stack B s s1 _ _ hstep (fun _ e => by cases e) (fun _ e => by cases e)
                (fun e => by cases e) (fun e => by cases e) (fun _ _ _ _ e => by cases e) (fun _ _ _ e => by cases e)
              exact ⟨by rw [hst]; exact hlen, by rw [hst]; exact hdrop, h5, hrax', hrdi'⟩
            · cases htr
          · -- store
            rename_i sz base disp src
            split at htr
            · rename_i hb
              simp only [Bool.and_eq_true, beq_iff_eq, decide_eq_true_eq] at hb
              obtain ⟨hb1, hb2⟩ := hb
              subst hb1
              injection htr with htr; subst htr
              simp only [step, beq_self_eq_true, if_true] at hstep
              obtain ⟨w, hk, hst, _⟩ := stackWrite_stack hstep
              refine ⟨by rw [hst, List.length_set]; exact hlen, ?_, h5, hrax', hrdi'⟩
              rw [hst]
              show (s.stack.set (disp / 8) w).drop a.depth = stack0
              rw [List.drop_set_of_lt hb2]; exact hdrop
            · cases htr
          · -- store8
            rename_i base disp src
            split at htr
            · rename_i hb
              simp only [Bool.and_eq_true, beq_iff_eq, decide_eq_true_eq] at hb
              obtain ⟨hb1, hb2⟩ := hb
              subst hb1
              injection htr with htr; subst htr
              simp only [step, beq_self_eq_true, if_true] at hstep
              obtain ⟨w, hk, hst, _⟩ := stackWrite_stack hstep
              refine ⟨by rw [hst, List.length_set]; exact hlen, ?_, h5, hrax', hrdi'⟩
              rw [hst]
              show (s.stack.set (disp / 8) w).drop a.depth = stack0
              rw [List.drop_set_of_lt hb2]; exact hdrop
            · cases htr
          · -- movabs rax, p
            rename_i p
            split at htr
            · rename_i hp
              simp only [Bool.and_eq_true, decide_eq_true_eq] at hp
              injection htr with htr; subst htr
              have hst := step_stack B s s1 _ _ hstep (fun _ e => by cases e) (fun _ e => by cases e)
                (fun e => by cases e) (fun e => by cases e) (fun _ _ _ _ e => by cases e) (fun _ _ _ e => by cases e)
              simp only [step] at hstep
              injection hstep with hstep
              refine ⟨by rw [hst]; exact hlen, by rw [hst]; exact hdrop, h5, fun _ => ⟨p, hp.1, hp.2, ?_⟩, hrdi'⟩
              rw [← hstep]
              exact get_set_eq _ _ _ (by show 0 < s.r.size; omega)
            · cases htr
          · -- movabs rdi, membase
            injection htr with htr; subst htr
            have hst := step_stack B s s1 _ _ hstep (fun _ e => by cases e) (fun _ e => by cases e)
              (fun e => by cases e) (fun e => by cases e) (fun _ _ _ _ e => by cases e) (fun _ _ _ e => by cases e)
            simp only [step] at hstep
            injection hstep with hstep
            refine ⟨by rw [hst]; exact hlen, by rw [hst]; exact hdrop, h5, hrax', fun _ => ?_⟩
            rw [← hstep]
            exact get_set_eq _ _ _ (by show 7 < s.r.size; omega)
          · cases htr
          · exact absurd rfl hc
          · cases htr
          · cases htr
          · -- everything else
            rename_i h1 h2 h3 h4 h5' h6 h7 h8 h9 h10 h11 h12 h13
            injection htr with htr; subst htr
            have hst := step_stack B s s1 _ _ hstep h1 h3 h2 h4 h6 h7
            exact ⟨by rw [hst]; exact hlen, by rw [hst]; exact hdrop, h5, hrax', hrdi'⟩

theorem trHost_abs {ins : Instr} {a a' : Abs} (h : JitHost.trHost ins a = some a') : absStep ins a = some a' := by
  unfold JitHost.trHost at h
  split at h
  · split at h
    · cases h
    · exact h
  · split at h
    · cases h
    · exact h
  · exact h

theorem host_carries' (B : Interp.BusOps β) (stack0 : List W) (rbp0 : W) :
    Carries B JitHost.trHost (HostRel (β := β) stack0 rbp0) where
  pc := (host_carries B stack0 rbp0).pc
  step := fun ins a a' s s1 len hj1 hj2 htr hR hsz hstep =>
    (host_carries B stack0 rbp0).step ins a a' s s1 len hj1 hj2 (trHost_abs htr) hR hsz hstep

/-- **what `hostOk` means**: every complete run of the template leaves the host stack exactly as it found it — same
slots, same contents — and rbp untouched -/
theorem hostOk_sound (B : Interp.BusOps β) (tokens : List Nat) (code : List (Nat × Instr)) (C : List Nat)
    (hdec : decodeCode tokens = some code) (hok : codeOk code (bytesOf tokens) = true) (hC : JitHost.hostOk tokens = some C)
    (fr : Nat) (s s' : St β) (hsz : s.r.size = 16) (hpc : s.pc = offAt code (bytesOf tokens) 0)
    (hrun : run B code (bytesOf tokens) fr s = .ok s') :
    s'.stack = s.stack ∧ get s' 5 = get s 5 := by
  have hR : HostRel (β := β) s.stack (get s 5) {} s :=
    ⟨rfl, rfl, rfl, fun h => Bool.noConfusion h, fun h => Bool.noConfusion h⟩
  obtain ⟨a', n, hR', hf, _⟩ := analyse_sound B JitHost.trHost {} (fun a => if a.depth == 0 then some 0 else none) _
    (host_carries' B s.stack (get s 5)) tokens code C hdec hok hC fr s s' hsz hpc hR hrun
  split at hf
  · rename_i hz
    have hz' : a'.depth = 0 := by simpa using hz
    obtain ⟨_, h2, h3, _, _⟩ := hR'
    rw [hz'] at h2
    exact ⟨h2, h3⟩
  · cases hf

end GbVerif.X86
