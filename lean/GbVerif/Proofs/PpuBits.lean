import GbVerif.Proofs.PpuInterleave
import GbVerif.Model.Ppu
import GbVerif.Spec.Frame
/-!
C15 stage (i): consequences of the interleave enumeration, the flip multiply trick (all 256
bytes) and tile addressing (all 256 indices × all 256 LCDC values), kernel-checked.
-/
namespace GbVerif.PpuBits
open GbVerif.Ppu GbVerif.FrameSpec GbVerif.Enum

theorem interleave_eq (l h : Nat) (hl : l < 256) (hh : h < 256) : interleave l h = interleaveBits l h := by
  have := forall_lt_of_allRange interleaveCheck 16 interleave_all (l + 256 * h) (by omega)
  simp only [interleaveCheck, beq_iff_eq] at this
  rw [show (l + 256 * h) % 256 = l by omega, show (l + 256 * h) / 256 = h by omega] at this
  exact this

theorem bit_lt (v k : Nat) : bit v k < 2 := Nat.mod_lt _ (by decide)

theorem digit_lt (l h k : Nat) : digit l h k < 4 := by
  have := bit_lt l k; have := bit_lt h k; unfold digit; omega

theorem interleave_lt (l h : Nat) (hl : l < 256) (hh : h < 256) : interleave l h < 65536 := by
  rw [interleave_eq l h hl hh, interleaveBits]
  have := digit_lt l h 0; have := digit_lt l h 1; have := digit_lt l h 2; have := digit_lt l h 3
  have := digit_lt l h 4; have := digit_lt l h 5; have := digit_lt l h 6; have := digit_lt l h 7
  omega

/-- colour index of column `c` (0 = leftmost, i.e. bit 7) of a tile row given its two bit planes -/
def rowColour (low high c : Nat) : Nat := bit low (7 - c) + 2 * bit high (7 - c)

/-- what the pipeline finds in the top two bits of its 16-bit register after `c` two-bit shifts -/
def shiftedOut (row c : Nat) : Nat := ((row <<< (2 * c)) % 65536) / 16384

theorem base4_digit (d0 d1 d2 d3 d4 d5 d6 d7 : Nat) (h0 : d0 < 4) (h1 : d1 < 4) (h2 : d2 < 4) (h3 : d3 < 4)
    (h4 : d4 < 4) (h5 : d5 < 4) (h6 : d6 < 4) (h7 : d7 < 4) :
    let v := d0 + 4 * d1 + 16 * d2 + 64 * d3 + 256 * d4 + 1024 * d5 + 4096 * d6 + 16384 * d7
    (v * 1 % 65536) / 16384 = d7 ∧ (v * 4 % 65536) / 16384 = d6 ∧ (v * 16 % 65536) / 16384 = d5 ∧
    (v * 64 % 65536) / 16384 = d4 ∧ (v * 256 % 65536) / 16384 = d3 ∧ (v * 1024 % 65536) / 16384 = d2 ∧
    (v * 4096 % 65536) / 16384 = d1 ∧ (v * 16384 % 65536) / 16384 = d0 := by
  intro v
  refine ⟨?_, ?_, ?_, ?_, ?_, ?_, ?_, ?_⟩ <;> omega

/-- `interleave_spec`, in the form the pipeline uses it: after `c` shifts the top two bits of
the interleaved row are the colour index of column `c` -/
theorem shiftedOut_interleave (l h c : Nat) (hl : l < 256) (hh : h < 256) (hc : c < 8) :
    shiftedOut (interleave l h) c = rowColour l h c := by
  rw [interleave_eq l h hl hh, interleaveBits, shiftedOut, Nat.shiftLeft_eq]
  have B := base4_digit (digit l h 0) (digit l h 1) (digit l h 2) (digit l h 3) (digit l h 4) (digit l h 5)
    (digit l h 6) (digit l h 7) (digit_lt ..) (digit_lt ..) (digit_lt ..) (digit_lt ..) (digit_lt ..)
    (digit_lt ..) (digit_lt ..) (digit_lt ..)
  simp only at B
  match c, hc with
  | 0, _ => exact B.1
  | 1, _ => exact B.2.1
  | 2, _ => exact B.2.2.1
  | 3, _ => exact B.2.2.2.1
  | 4, _ => exact B.2.2.2.2.1
  | 5, _ => exact B.2.2.2.2.2.1
  | 6, _ => exact B.2.2.2.2.2.2.1
  | 7, _ => exact B.2.2.2.2.2.2.2

/-! ### flip -/

/-- bit reversal of a byte -/
def reverseBits (b : Nat) : Nat :=
  128 * bit b 0 + 64 * bit b 1 + 32 * bit b 2 + 16 * bit b 3 + 8 * bit b 4 + 4 * bit b 5 + 2 * bit b 6 + bit b 7

def flipCheck (b : Nat) : Bool :=
  flipByte b == reverseBits b && flipByte b < 256 &&
  (List.range 8).all fun k => bit (flipByte b) k == bit b (7 - k)

theorem flip_all : allRange flipCheck 8 0 = true := by decide +kernel

theorem flip_eq (b : Nat) (hb : b < 256) :
    flipByte b = reverseBits b ∧ flipByte b < 256 ∧ ∀ k, k < 8 → bit (flipByte b) k = bit b (7 - k) := by
  have := forall_lt_of_allRange flipCheck 8 flip_all b hb
  simp only [flipCheck, Bool.and_eq_true, beq_iff_eq, decide_eq_true_eq, List.all_eq_true, List.mem_range] at this
  exact ⟨this.1.1, this.1.2, this.2⟩

/-- a row fetched with X flip shows column `7 - c` where the unflipped row shows column `c` -/
theorem rowColour_flip (l h c : Nat) (hl : l < 256) (hh : h < 256) (hc : c < 8) :
    rowColour (flipByte l) (flipByte h) c = rowColour l h (7 - c) := by
  unfold rowColour
  rw [(flip_eq l hl).2.2 (7 - c) (by omega), (flip_eq h hh).2.2 (7 - c) (by omega)]

/-! ### tile addressing -/

def regsOfLcdc (v : Nat) : FrameSpec.Regs := ⟨v, 0, 0, 0, 0, 0, 0, 0⟩

def tileAddrCheck (n : Nat) : Bool :=
  getTileAddress (Cfg.new.setLcdControl (n / 256)) (n % 256) == bgTileData (regsOfLcdc (n / 256)) (n % 256)

theorem tileAddr_all : allRange tileAddrCheck 16 0 = true := by decide +kernel

/-- the registers of the model as the spec's registers -/
def toSpec (r : Ppu.Regs) : FrameSpec.Regs := ⟨r.lcdc, r.scx, r.scy, r.wx, r.wy, r.bgp, r.obp0, r.obp1⟩

theorem tileAddr_eq (r : Ppu.Regs) (idx : Nat) (hl : r.lcdc < 256) (hi : idx < 256) :
    getTileAddress (Cfg.ofRegs r) idx = bgTileData (toSpec r) idx := by
  have := forall_lt_of_allRange tileAddrCheck 16 tileAddr_all (idx + 256 * r.lcdc) (by omega)
  simp only [tileAddrCheck, beq_iff_eq] at this
  rw [show (idx + 256 * r.lcdc) % 256 = idx by omega, show (idx + 256 * r.lcdc) / 256 = r.lcdc by omega] at this
  exact this

end GbVerif.PpuBits
