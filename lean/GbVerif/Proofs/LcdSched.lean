import GbVerif.Proofs.LcdEnum
/-!
C14 lemmas that follow from the frame enumeration: the closed form for ticks, runs and operation
lists, and which ticks / batches return the VBlank and STAT flags.
-/
namespace GbVerif.LcdProofs
open GbVerif.Lcd GbVerif.LcdSpec

theorem forMode_ne3 (e : Enables) (m : Nat) : (m != 3 && e.forMode m) = e.forMode m := by
  by_cases h : m = 3
  · subst h; rfl
  · simp [h]

/-! ### one tick from a scheduled position -/

theorem tick_closed (s : State) (k : Nat) (h : pos s = sched (4 * k)) :
    pos (tick4 s).1 = sched (4 * (k + 1)) := by
  rw [tick4_pos, h, (stepOf_sched k).1, Nat.mul_succ]

theorem tick_vblank (s : State) (k : Nat) (h : pos s = sched (4 * k)) :
    hasVblank (tick4 s).2 = vblankEv (4 * k) (4 * k + 4) := by
  rw [tick4_vbl, h, (stepOf_sched k).2.2.2.1]; rfl

theorem tick_vblank_iff (s : State) (k : Nat) (h : pos s = sched (4 * k)) :
    hasVblank (tick4 s).2 = (k % 17556 == 17555) := by
  rw [tick4_vbl, h, (stepOf_sched k).2.2.2.2.2]

theorem vblankEv_iff (k : Nat) : vblankEv (4 * k) (4 * k + 4) = (k % 17556 == 17555) := by
  have h := stepOf_sched k
  rw [← h.2.2.2.2.2, h.2.2.2.1]; rfl

theorem vblankEv_143 (k : Nat) :
    vblankEv (4 * k) (4 * k + 4) = ((sched (4 * k)).line == 143 && (sched (4 * k + 4)).line == 144) := by
  have h := stepOf_sched k
  rw [← h.2.2.2.2.1, h.2.2.2.1]; rfl

theorem tick_stat (s : State) (k : Nat) (h : pos s = sched (4 * k)) :
    hasStat (tick4 s).2 = statEv (enOf s) s.lyc (4 * k) (4 * k + 4) := by
  have e := stepOf_sched k
  rw [tick4_stat, h, e.1, e.2.1, e.2.2.1]
  simp only [statEv, statEvP, modeEnteredP, lyChangedP, Bool.and_assoc, forMode_ne3]
  cases s; rfl

/-! ### runs -/

theorem run_closed (n : Nat) : ∀ (s : State) (k : Nat), pos s = sched (4 * k) →
    pos (run n s).1 = sched (4 * (k + n)) := by
  induction n with
  | zero => intro s k h; simpa [run_zero] using h
  | succ n ih =>
    intro s k h
    rw [run_succ]
    have := ih (tick4 s).1 (k + 1) (tick_closed s k h)
    rw [this]; congr 2; omega

theorem run_vblank (n : Nat) : ∀ (s : State) (k : Nat), pos s = sched (4 * k) →
    hasVblank (run n s).2 = anyTick vblankEv k n := by
  induction n with
  | zero => intro s k _; simp [run_zero, anyTick, hasVblank_zero]
  | succ n ih =>
    intro s k h
    rw [run_succ]
    simp only [hasVblank_or, anyTick]
    rw [tick_vblank s k h, ih (tick4 s).1 (k + 1) (tick_closed s k h)]

theorem run_stat (n : Nat) : ∀ (s : State) (k : Nat), pos s = sched (4 * k) →
    hasStat (run n s).2 = anyTick (statEv (enOf s) s.lyc) k n := by
  induction n with
  | zero => intro s k _; simp [run_zero, anyTick, hasStat_zero]
  | succ n ih =>
    intro s k h
    rw [run_succ]
    simp only [hasStat_or, anyTick]
    rw [tick_stat s k h, ih (tick4 s).1 (k + 1) (tick_closed s k h), tick4_enOf, (tick4_regs s).1]

/-- the one-pass scan of the spec is `anyTick` for both event kinds -/
theorem evScan_eq (e : Enables) (lyc : Nat) (n : Nat) : ∀ (k : Nat) (vb st : Bool),
    evScan e lyc (sched (4 * k)) k n vb st =
      (sched (4 * (k + n)), vb || anyTick vblankEv k n, st || anyTick (statEv e lyc) k n) := by
  induction n with
  | zero => intro k vb st; simp [evScan, anyTick]
  | succ n ih =>
    intro k vb st
    have h4 : 4 * k + 4 = 4 * (k + 1) := by omega
    simp only [evScan, anyTick]
    rw [h4, ih (k + 1)]
    simp only [vblankEv, statEv, Bool.or_assoc]
    congr 3; omega

/-! ### register writes leave the position alone -/

theorem setStat_pos (v : Nat) (s : State) : pos (setStat v s).1 = pos s := rfl
theorem setLyc_pos (v : Nat) (s : State) : pos (setLyc v s).1 = pos s := rfl

theorem exec_closed (ops : List Op) : ∀ (s : State) (k : Nat), pos s = sched (4 * k) →
    pos (exec s ops) = sched (4 * (k + ticksOf ops)) := by
  induction ops with
  | nil => intro s k h; simpa [exec, ticksOf] using h
  | cons o ops ih =>
    intro s k h
    cases o with
    | run n =>
      have := ih (run n s).1 (k + n) (run_closed n s k h)
      simp only [exec, List.foldl_cons, step, ticksOf] at this ⊢
      rw [this]; congr 2; omega
    | stat v =>
      have := ih (setStat v s).1 k (by rw [setStat_pos]; exact h)
      simpa only [exec, List.foldl_cons, step, ticksOf] using this
    | lyc v =>
      have := ih (setLyc v s).1 k (by rw [setLyc_pos]; exact h)
      simpa only [exec, List.foldl_cons, step, ticksOf] using this

theorem exec_append_run (s : State) (ops : List Op) (n : Nat) :
    exec s (ops ++ [.run n]) = (run n (exec s ops)).1 := by
  simp only [exec, List.foldl_append, List.foldl_cons, List.foldl_nil, step]

theorem pos_powerOn : pos powerOn = sched (4 * 0) := by decide

/-! ### state equality from position + registers -/

theorem Mode.toNat_inj (a b : Mode) (h : a.toNat = b.toNat) : a = b := by
  cases a <;> cases b <;> first | rfl | cases h

theorem state_ext (a b : State) (hp : pos a = pos b) (hl : a.lyc = b.lyc) (he : enOf a = enOf b) : a = b := by
  obtain ⟨m, d, l, c, e1, e2, e3, e4⟩ := a
  obtain ⟨m', d', l', c', e1', e2', e3', e4'⟩ := b
  simp only [pos, Pos.mk.injEq, enOf, Enables.mk.injEq] at hp he
  simp only at hl
  obtain ⟨h1, h2, h3⟩ := hp
  obtain ⟨g1, g2, g3, g4⟩ := he
  have := Mode.toNat_inj _ _ h2
  subst this h1 h3 hl g1 g2 g3 g4
  rfl

theorem run_frame_fixed (s : State) (k : Nat) (h : pos s = sched (4 * k)) : (run 17556 s).1 = s := by
  apply state_ext
  · rw [run_closed 17556 s k h, h, show 4 * (k + 17556) = 4 * k + 70224 by omega, sched_period]
  · exact (run_regs 17556 s).1
  · exact (run_regs 17556 s).2

end GbVerif.LcdProofs
