import GbVerif.Proofs.Sm83Abs
import GbVerif.Gen.DecoderOps
/-!
The refinement statement between one interpreter step (`decode` + `run_op` + the PC mask and base-clock charge of
`run_next_op`) and one SM83 instruction (`SM83.step`), and the proof schemas (one per bus-access shape) from which
every opcode class is obtained.
-/
namespace GbVerif.C05
open GbVerif.Interp GbVerif.Sm83Bits
open GbVerif.SM83 (Cpu mkF flagZ flagN flagH flagC Outcome)

variable {β : Type}

/-- the SM83 memory interface given by the interpreter's bus -/
def memOf (B : BusOps β) : SM83.Mem β := ⟨B.read, B.write⟩

/-- bus reads return bytes (the Rust bus returns `u8`) -/
def ByteBus (B : BusOps β) : Prop := ∀ m a v, B.read m a = .ok v → v < 256

/-- the interpreter status word for an SM83 control outcome -/
def statusOf : Outcome → Nat
  | .normal => STATUS_NORMAL | .stop => STATUS_STOP | .halt => STATUS_HALT
  | .di => STATUS_INTERRUPT_DISABLE | .ei => STATUS_INTERRUPT_ENABLE | .reti => STATUS_INTERRUPT_ENABLE_IMMEDIATE
  | .undefined => 255

/-- `run_next_op` minus the fetch: decode, `run_op`, mask the PC to 16 bits, charge the decoder's base clocks -/
def stepModel (B : BusOps β) (b0 b1 b2 : Nat) (r : Regs) (m : β) : Except Bus.Panic (Regs × β × Nat) :=
  let (op, len, clk) := Gen.decode b0 b1 b2
  (runOp B op r m len).map fun (r', m', st) => ({ r' with ip := r'.ip &&& 0xffff, cycles := r'.cycles + clk / 4 }, m', st)

/-- the final step of `run_next_op` on a result of `run_op` -/
def finish (clk : Nat) (x : Regs × β × Nat) : Regs × β × Nat :=
  ({ x.1 with ip := x.1.ip &&& 0xffff, cycles := x.1.cycles + clk / 4 }, x.2.1, x.2.2)

theorem stepModel_eq (B : BusOps β) (b0 b1 b2 : Nat) (r : Regs) (m : β) (op : Op) (len clk : Nat)
    (hd : Gen.decode b0 b1 b2 = (op, len, clk)) :
    stepModel B b0 b1 b2 r m = (runOp B op r m len).map (finish clk) := by
  simp only [stepModel, hd]; rfl

/-- model result `x` against spec result `y`, from a state with cycle counter `k` -/
def Rel (k : Nat) (x : Except Bus.Panic (Regs × β × Nat)) (y : Except Bus.Panic (Cpu × β × Nat × Outcome)) : Prop :=
  match y with
  | .ok (c', m', cyc, out) => CWF c' ∧ x = .ok (conc c' (k + cyc), m', statusOf out)
  | .error e => x = .error e

/-- the interpreter step for bytes `b0 b1 b2` refines the SM83 instruction, from every well-formed state -/
def Refines (B : BusOps β) (b0 b1 b2 : Nat) : Prop :=
  ∀ c k m, CWF c → Rel k (stepModel B b0 b1 b2 (conc c k) m) (SM83.step (memOf B) c m b0 b1 b2)

theorem finish_advance (c : Cpu) (k len clk : Nat) (m : β) (st : Nat) :
    finish clk (advance (conc c k) len, m, st) = (conc (SM83.next c len) (k + clk / 4), m, st) := by
  simp only [finish, advance, conc, SM83.next, and_ffff]

theorem finish_ip (c : Cpu) (k ip dk clk : Nat) (m : β) (st : Nat) :
    finish clk ({ conc c k with ip := ip, cycles := k + dk }, m, st) =
      (conc { c with pc := ip % 65536 } (k + (dk + clk / 4)), m, st) := by
  simp only [finish, conc, and_ffff, Nat.add_assoc]

/-! ### schemas -/

/-- no bus access: registers ↦ registers, PC advanced by the instruction length -/
theorem cls_pure {B : BusOps β} {b0 b1 b2 : Nat} (op : Op) (len clk cyc : Nat) (out : Outcome) (st : Nat)
    (f : Regs → Regs) (g : Cpu → Cpu)
    (hd : Gen.decode b0 b1 b2 = (op, len, clk))
    (hs : ∀ c m, SM83.step (memOf B) c m b0 b1 b2 = .ok (SM83.next (g c) len, m, cyc, out))
    (hrun : ∀ r m, runOp B op r m len = .ok (advance (f r) len, m, st))
    (hclk : clk / 4 = cyc) (hst : statusOf out = st)
    (hfg : ∀ c k, CWF c → f (conc c k) = conc (g c) k ∧ CWF (g c)) : Refines B b0 b1 b2 := by
  intro c k m hc
  obtain ⟨e, w⟩ := hfg c k hc
  rw [hs, stepModel_eq B b0 b1 b2 _ m op len clk hd, hrun, e]
  subst hclk hst
  exact ⟨cwf_next w len, by simp only [Except.map, finish_advance]⟩

/-- one bus read at an address computed from the registers, then a register update -/
theorem cls_read {B : BusOps β} (hB : ByteBus B) {b0 b1 b2 : Nat} (op : Op) (len clk cyc : Nat)
    (am : Regs → Nat) (as : Cpu → Nat) (f : Nat → Regs → Regs) (g : Nat → Cpu → Cpu)
    (hd : Gen.decode b0 b1 b2 = (op, len, clk))
    (hs : ∀ c m, SM83.step (memOf B) c m b0 b1 b2 =
      (B.read m (as c)).bind fun v => .ok (SM83.next (g v c) len, m, cyc, .normal))
    (hrun : ∀ r m, runOp B op r m len = (B.read m (am r)).bind fun v => .ok (advance (f v r) len, m, STATUS_NORMAL))
    (hclk : clk / 4 = cyc)
    (ha : ∀ c k, CWF c → am (conc c k) = as c)
    (hfg : ∀ v c k, v < 256 → CWF c → f v (conc c k) = conc (g v c) k ∧ CWF (g v c)) : Refines B b0 b1 b2 := by
  intro c k m hc
  rw [hs, stepModel_eq B b0 b1 b2 _ m op len clk hd, hrun, ha c k hc]
  subst hclk
  cases hr : B.read m (as c) with
  | error e => simp only [Except.bind, Except.map, Rel]
  | ok v =>
    obtain ⟨e, w⟩ := hfg v c k (hB _ _ _ hr) hc
    simp only [Except.bind, Except.map, Rel, e, finish_advance]
    exact ⟨cwf_next w len, rfl⟩

/-- one bus write of a register-derived byte at a register-derived address, then a register update -/
theorem cls_write {B : BusOps β} {b0 b1 b2 : Nat} (op : Op) (len clk cyc : Nat)
    (am : Regs → Nat) (as : Cpu → Nat) (vm : Regs → Nat) (vs : Cpu → Nat) (f : Regs → Regs) (g : Cpu → Cpu)
    (hd : Gen.decode b0 b1 b2 = (op, len, clk))
    (hs : ∀ c m, SM83.step (memOf B) c m b0 b1 b2 =
      (B.write m (as c) (vs c)).bind fun m' => .ok (SM83.next (g c) len, m', cyc, .normal))
    (hrun : ∀ r m, runOp B op r m len = (B.write m (am r) (vm r)).bind fun m' => .ok (advance (f r) len, m', STATUS_NORMAL))
    (hclk : clk / 4 = cyc)
    (ha : ∀ c k, CWF c → am (conc c k) = as c ∧ vm (conc c k) = vs c)
    (hfg : ∀ c k, CWF c → f (conc c k) = conc (g c) k ∧ CWF (g c)) : Refines B b0 b1 b2 := by
  intro c k m hc
  rw [hs, stepModel_eq B b0 b1 b2 _ m op len clk hd, hrun, (ha c k hc).1, (ha c k hc).2]
  subst hclk
  obtain ⟨e, w⟩ := hfg c k hc
  cases hr : B.write m (as c) (vs c) with
  | error e => simp only [Except.bind, Except.map, Rel]
  | ok m' =>
    simp only [Except.bind, Except.map, Rel, e, finish_advance]
    exact ⟨cwf_next w len, rfl⟩

end GbVerif.C05
