import GbVerif.Proofs.CoreStep
import GbVerif.Proofs.Sm83Rel
import GbVerif.Spec.CoreSpec
/-!
C08: one step of the model of `Core::update` (instruction-stepped, devices that only let time pass) is one step of the
step spec `CoreSpec.step`, under the abstraction `absS`, *given* the instruction-level refinement `InstrRefines`
(an explicit premise — see its docstring for where it comes from).  What is proved here: the control skeleton — fetch,
undefined-opcode check, the EI / DI / RETI rule, HALT / STOP, cycle charging, and the interrupt check (through C07's
`dispatch_spec`) — agrees with the spec.
-/
namespace GbVerif.CoreProofs
open GbVerif.Core GbVerif.Interp
open GbVerif.SM83 (Outcome)

/-- devices that only let time pass -/
def noTime : Dev := fun b _ => .ok b

/-- the abstraction: registers through `C05.abs`; IME, run state, bus, charged cycles as they are; "the last step ended with
a dispatch" = the cycle counter still holds the five dispatch cycles -/
def absS (c : State) : CoreSpec.S :=
  { cpu := C05.abs c.regs, bus := c.bus, ime := c.ime, run := c.run, charged := c.charged, dispatched := c.regs.cycles != 0 }

/-- well-formed core state for the refinement: 16-bit register pairs (`C05.WF`), bus buffers and five-bit IF/IE as for C07,
and no pending dispatch cycles while suspended -/
structure WFs (c : State) : Prop where
  regs : C05.WF c.regs
  bus : BusProofs.WF c.bus
  io : IoInv c.bus.io
  idle : c.run ≠ .Run → c.regs.cycles = 0

/-- **The premise of `update_refines`** (instruction-level refinement, model ⟶ spec): whenever `run_next_op` returns from a
well-formed state, the three bytes at PC read through the bus, and `SM83.step` on the abstracted registers yields the
abstracted result registers, the same bus, `cyc` = the growth of the cycle counter, and an outcome (never `undefined`) whose
status word is the one returned; well-formedness is kept.
It is the composition of (a) `C05.step_refines_impl` (`stepModel` ⟶ `SM83.step` for byte-valued buses, proved in
Proofs/Sm83Main.lean), (b) `C05.run_next_op_is_step` (`runNextOp` = `fetch3` then `stepModel`), (c) the fetch view equals the
data read in ROM / WRAM / HRAM (`C10.fetch_eq_read`) and (d) byte-valuedness of every memory of the bus model and
preservation of `BusProofs.WF` / `IoInv` by the writes of an instruction.  (c)–(d) are not composed here. -/
def InstrRefines : Prop :=
  ∀ (r : Regs) (b : Bus.State) (r' : Regs) (b' : Bus.State) (st : Nat) (e : Bool),
    C05.WF r → BusProofs.WF b → IoInv b.io → Cpu.runNextOp r b = .ok (r', b', st, e) →
    ∃ b0 b1 b2 cyc out,
      Bus.read b r.ip = .ok b0 ∧ Bus.read b ((r.ip + 1) % 65536) = .ok b1 ∧ Bus.read b ((r.ip + 2) % 65536) = .ok b2 ∧
      SM83.step CoreSpec.mem (C05.abs r) b b0 b1 b2 = .ok (C05.abs r', b', cyc, out) ∧
      out ≠ .undefined ∧ st = C05.statusOf out ∧ C05.WF r' ∧ r'.cycles = r.cycles + cyc ∧ BusProofs.WF b' ∧ IoInv b'.io

/-- the IME rule of the step spec -/
def specIme (ime : Ime) (out : Outcome) : Ime :=
  let ime := if ime == .EnableNext then .Enabled else ime
  match out with
  | .di => .Disabled
  | .reti => .Enabled
  | .ei => if ime == .Disabled then .EnableNext else ime
  | _ => ime

def specRun (out : Outcome) : RunState := match out with | .halt => .Halt | .stop => .Stop | _ => .Run

theorem imeAfter_spec (ime : Ime) (out : Outcome) (h : out ≠ .undefined) : imeAfter ime (C05.statusOf out) = specIme ime out := by
  cases out <;> cases ime <;> first | rfl | exact absurd rfl h

theorem runAfter_spec (out : Outcome) (h : out ≠ .undefined) : runAfter .Run (C05.statusOf out) = specRun out := by
  cases out <;> first | rfl | exact absurd rfl h

/-- the spec state handed to `irq` after an instruction -/
def specMid (s : CoreSpec.S) (cpu : SM83.Cpu) (bus : Bus.State) (ime : Ime) (run : RunState) (charged : Nat) : CoreSpec.S :=
  { s with cpu := cpu, bus := bus, ime := ime, run := run, charged := charged }

/-- the abstraction of a model state with a given `dispatched` flag -/
def absD (p : State) (d : Bool) : CoreSpec.S :=
  { cpu := C05.abs p.regs, bus := p.bus, ime := p.ime, run := p.run, charged := p.charged, dispatched := d }

theorem abs_upd (r : Regs) (sp ip k : Nat) :
    C05.abs { r with sp := sp, cycles := k, ip := ip } = { C05.abs r with sp := sp, pc := ip } := rfl

theorem abs_cycles (r : Regs) (k : Nat) : C05.abs { r with cycles := k } = C05.abs r := rfl

theorem S_ext (x y : CoreSpec.S) (h1 : x.cpu = y.cpu) (h2 : x.bus = y.bus) (h3 : x.ime = y.ime) (h4 : x.run = y.run)
    (h5 : x.charged = y.charged) (h6 : x.dispatched = y.dispatched) : x = y := by
  cases x; cases y; simp only [CoreSpec.S.mk.injEq]; exact ⟨h1, h2, h3, h4, h5, h6⟩

/-- the interrupt check of the spec on the abstraction of `p` is the abstraction of the model's interrupt check -/
theorem irq_abs (p p' : State) (d : Bool) (hp : WFc p) (hcyc : p.regs.cycles = 0) (h : handleInterrupt p = .ok p') :
    CoreSpec.irq (absD p d) = .ok (absS p') := by
  unfold CoreSpec.irq absD
  simp only []
  -- the spec runs the dispatch spec on a fresh core state with the same SP, PC, bus, IME, run state
  generalize hq : ({ regs := { sp := (C05.abs p.regs).sp, ip := (C05.abs p.regs).pc }, bus := p.bus, ime := p.ime, run := p.run } : State) = q
  have hqb : q.bus = p.bus := by rw [← hq]
  have hqi : q.ime = p.ime := by rw [← hq]
  have hqr : q.run = p.run := by rw [← hq]
  have hqs : q.regs.sp = p.regs.sp := by rw [← hq]; rfl
  have hqp : q.regs.ip = p.regs.ip := by rw [← hq]; rfl
  have hqc : q.regs.cycles = 0 := by rw [← hq]
  have hqw : WFc q := ⟨by rw [hqb]; exact hp.io, by rw [hqb]; exact hp.bus, by rw [hqs]; exact hp.sp, by rw [hqp]; exact hp.ip⟩
  rw [← CoreProofs.dispatch_spec q hqw]
  by_cases h0 : activeInterrupts p.bus = 0
  · have e1 := ok_inj (handleInterrupt_idle p h0) h
    subst e1
    rw [handleInterrupt_idle q (by rw [hqb]; exact h0)]
    refine congrArg Except.ok (S_ext _ _ ?_ ?_ ?_ ?_ ?_ ?_)
    · show ({ C05.abs p.regs with sp := q.regs.sp, pc := q.regs.ip } : SM83.Cpu) = C05.abs p.regs
      rw [hqs, hqp]; rfl
    · exact hqb
    · exact hqi
    · exact hqr
    · show p.charged + q.regs.cycles = p.charged
      rw [hqc]; rfl
    · show (q.regs.cycles != 0) = (p.regs.cycles != 0)
      rw [hqc, hcyc]
  by_cases hi : p.ime = .Enabled
  · obtain ⟨b1, b2, w1, w2, _, _, _, e⟩ := handleInterrupt_taken p hp h0 hi
    have e1 := ok_inj e h
    subst e1
    have eq := handleInterrupt_closed q hqw (by rw [hqb]; exact h0) (by rw [hqi]; exact hi)
      (b1 := b1) (b2 := b2) (by rw [hqb, hqs, hqp]; exact w1) (by rw [hqs, hqp]; exact w2)
    rw [eq]
    refine congrArg Except.ok (S_ext _ _ ?_ ?_ ?_ ?_ ?_ ?_)
    all_goals simp only [absS, dispatched, hqc, hcyc, hqs]
    all_goals first | rfl | skip
  · have e1 := ok_inj (handleInterrupt_masked p h0 hi) h
    subst e1
    rw [handleInterrupt_masked q (by rw [hqb]; exact h0) (by rw [hqi]; exact hi)]
    refine congrArg Except.ok (S_ext _ _ ?_ ?_ ?_ ?_ ?_ ?_)
    · show ({ C05.abs p.regs with sp := q.regs.sp, pc := q.regs.ip } : SM83.Cpu) = C05.abs p.regs
      rw [hqs, hqp]; rfl
    · exact hqb
    · exact hqi
    · rfl
    · show p.charged + q.regs.cycles = p.charged
      rw [hqc]; rfl
    · show (q.regs.cycles != 0) = (p.regs.cycles != 0)
      rw [hqc, hcyc]

/-- well-formedness after the interrupt check -/
theorem wfs_handleInterrupt (p p' : State) (hr : C05.WF p.regs) (hp : WFc p) (hcyc : p.regs.cycles = 0)
    (h : handleInterrupt p = .ok p') : WFs p' := by
  by_cases h0 : activeInterrupts p.bus = 0
  · have e1 := ok_inj (handleInterrupt_idle p h0) h; subst e1
    exact ⟨hr, hp.bus, hp.io, fun _ => hcyc⟩
  by_cases hi : p.ime = .Enabled
  · obtain ⟨b1, b2, _, _, i1, i2, w2, e⟩ := handleInterrupt_taken p hp h0 hi
    have e1 := ok_inj e h; subst e1
    have hw := wfc_dispatched p b1 b2 i2 w2 ((p.regs.sp + 65534) % 65536) (Nat.mod_lt _ (by omega)) (and_lt32 i1.ifl)
    refine ⟨?_, hw.bus, hw.io, fun hn => absurd rfl hn⟩
    obtain ⟨a1, a2, a3, a4, a5, _, _⟩ := hr
    have hsp := hw.sp
    have hip := hw.ip
    simp only [dispatched] at hsp hip
    simp only [C05.WF, dispatched]
    exact ⟨a1, a2, a3, a4, a5, hsp, hip⟩
  · have e1 := ok_inj (handleInterrupt_masked p h0 hi) h; subst e1
    exact ⟨hr, hp.bus, hp.io, fun _ => hcyc⟩

/-- **model step ⟶ spec step**, given the instruction-level refinement -/
theorem update_refines (hI : InstrRefines) (c c' : State) (hw : WFs c) (h : update noTime c = .ok c') :
    CoreSpec.step (absS c) = .ok (some (absS c')) ∧ WFs c' := by
  by_cases hr : c.run = .Run
  · -- running: one instruction
    rw [update_run noTime c hr] at h
    obtain ⟨r, b, st, e, bus, hx, hd, h3⟩ := runInterp_shape h
    have hb : bus = b := by injection hd with hd; exact hd.symm
    subst hb
    obtain ⟨b0, b1, b2, cyc, out, r0, r1, r2, hs, hu, hst, wr, hcy, wb, wi⟩ := hI c.regs c.bus r bus st e hw.regs hw.bus hw.io hx
    subst hst
    have wp : WFc (sampled (afterOp c r bus (C05.statusOf out)) bus false) := ⟨wi, wb, wr.2.2.2.2.2.1, wr.2.2.2.2.2.2⟩
    have wr0 : C05.WF (sampled (afterOp c r bus (C05.statusOf out)) bus false).regs := by
      obtain ⟨a1, a2, a3, a4, a5, a6, a7⟩ := wr; exact ⟨a1, a2, a3, a4, a5, a6, a7⟩
    refine ⟨?_, wfs_handleInterrupt _ _ wr0 wp rfl h3⟩
    have hirq := irq_abs _ c' (c.regs.cycles != 0) wp rfl h3
    unfold CoreSpec.step
    show (match (absS c).run with | .Run => _ | _ => _) = _
    have hrun : (absS c).run = .Run := hr
    rw [hrun]
    simp only []
    refine (bind_ok (show Bus.read (absS c).bus (absS c).cpu.pc = .ok b0 from r0) _).trans ?_
    refine (bind_ok (show Bus.read (absS c).bus (((absS c).cpu.pc + 1) % 65536) = .ok b1 from r1) _).trans ?_
    refine (bind_ok (show Bus.read (absS c).bus (((absS c).cpu.pc + 2) % 65536) = .ok b2 from r2) _).trans ?_
    refine (bind_ok (show SM83.step CoreSpec.mem (absS c).cpu (absS c).bus b0 b1 b2 = .ok (C05.abs r, bus, cyc, out) from hs) _).trans ?_
    simp only []
    have hne : (out == Outcome.undefined) = false := by cases out <;> first | rfl | exact absurd rfl hu
    rw [hne]
    simp only [Bool.false_eq_true, if_false]
    -- the state handed to `irq` is the abstraction of the state handed to `handle_interrupt`
    have key : specMid (absS c) (C05.abs r) bus (specIme c.ime out) (specRun out) (c.charged + cyc) =
        absD (sampled (afterOp c r bus (C05.statusOf out)) bus false) (c.regs.cycles != 0) := by
      show CoreSpec.S.mk .. = CoreSpec.S.mk ..
      congr 1
      · exact (imeAfter_spec c.ime out hu).symm
      · show specRun out = runAfter c.run (C05.statusOf out)
        rw [hr]; exact (runAfter_spec out hu).symm
      · show c.charged + cyc = c.charged + (r.cycles - c.regs.cycles)
        omega
    have hstep : (CoreSpec.irq (specMid (absS c) (C05.abs r) bus (specIme c.ime out) (specRun out) (c.charged + cyc)) >>=
        fun s' => (pure (some s') : Except Bus.Panic (Option CoreSpec.S))) = .ok (some (absS c')) := by
      rw [key, hirq]; rfl
    exact hstep
  · -- suspended: time passes, the interrupt check runs
    obtain ⟨bus, hd, h3⟩ := update_halted_shape hr h
    have hb : bus = c.bus := by injection hd with hd; exact hd.symm
    subst hb
    have wp : WFc (sampledHalted c c.bus) := ⟨hw.io, hw.bus, hw.regs.2.2.2.2.2.1, hw.regs.2.2.2.2.2.2⟩
    have hc0 : (sampledHalted c c.bus).regs.cycles = 0 := hw.idle hr
    refine ⟨?_, wfs_handleInterrupt (sampledHalted c c.bus) _ hw.regs wp hc0 h3⟩
    have hirq := irq_abs _ c' (c.regs.cycles != 0) wp hc0 h3
    unfold CoreSpec.step
    show (match (absS c).run with | .Run => _ | _ => _) = _
    have hrun : (absS c).run = c.run := rfl
    rw [hrun]
    split
    · rename_i e; exact absurd e hr
    · show (CoreSpec.irq { absS c with charged := c.charged + 1 } >>= fun s' => (pure (some s') : Except Bus.Panic (Option CoreSpec.S))) = _
      have key : ({ absS c with charged := c.charged + 1 } : CoreSpec.S) = absD (sampledHalted c c.bus) (c.regs.cycles != 0) := rfl
      rw [key, hirq]; rfl

end GbVerif.CoreProofs
