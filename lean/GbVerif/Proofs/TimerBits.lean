import GbVerif.Proofs.NatBits
/-! Bit/arith lemmas used by the timer proofs (core only). -/
namespace GbVerif.TimerBits

/-- `c & 2^k` is `2^k` or `0` according to bit `k` -/
theorem and_two_pow (c k : Nat) : c &&& 2 ^ k = if c.testBit k then 2 ^ k else 0 := by
  apply Nat.eq_of_testBit_eq
  intro i
  rw [Nat.testBit_and, Nat.testBit_two_pow]
  by_cases h : k = i
  · subst h; cases hc : c.testBit k <;> simp [Nat.testBit_two_pow_self]
  · cases hc : c.testBit k <;> simp [h, Nat.testBit_two_pow_of_ne h]

theorem and_two_pow_ne_zero (c k : Nat) : (c &&& 2 ^ k != 0) = c.testBit k := by
  rw [and_two_pow]
  have : 2 ^ k ≠ 0 := Nat.ne_of_gt (Nat.two_pow_pos k)
  cases c.testBit k <;> simp

theorem and_two_pow_eq_zero (c k : Nat) : (c &&& 2 ^ k == 0) = !c.testBit k := by
  rw [and_two_pow]
  have : 2 ^ k ≠ 0 := Nat.ne_of_gt (Nat.two_pow_pos k)
  cases c.testBit k <;> simp

/-- bit `k` as arithmetic -/
theorem testBit_arith (c k : Nat) : c.testBit k = decide (c / 2 ^ k % 2 = 1) :=
  Nat.testBit_eq_decide_div_mod_eq

/-- masking with a constant below `2^16` only sees the value mod `2^16` -/
theorem and_mod16 (c m : Nat) (hm : m < 65536) : (c % 65536) &&& m = c &&& m :=
  (NatBits.and_const_mod c m 16 hm).symm

theorem and_ffff (c : Nat) : c &&& 0xffff = c % 65536 := Nat.and_two_pow_sub_one_eq_mod c 16

theorem and_3 (c : Nat) : c &&& 3 = c % 4 := Nat.and_two_pow_sub_one_eq_mod c 2

theorem and_4_ne_zero (c : Nat) : (c &&& 4 != 0) = c.testBit 2 := and_two_pow_ne_zero c 2

/-- bit `k` of a counter falls between `c` and `c+1` exactly when `c+1` is a multiple of `2^(k+1)`
(the four divider bits the timer can select) -/
theorem fall_iff (c k : Nat) (hk : k = 3 ∨ k = 5 ∨ k = 7 ∨ k = 9) :
    (c.testBit k && !(c + 1).testBit k) = decide ((c + 1) % 2 ^ (k + 1) = 0) := by
  rw [testBit_arith, testBit_arith]
  rcases hk with rfl | rfl | rfl | rfl <;>
  · rw [Bool.eq_iff_iff]
    simp only [Nat.reducePow, Nat.reduceAdd, Bool.and_eq_true, Bool.not_eq_true',
      decide_eq_true_eq, decide_eq_false_iff_not]
    omega

/-- … equivalently, when the quotient by the period goes up -/
theorem fall_iff_div (c k : Nat) (hk : k = 3 ∨ k = 5 ∨ k = 7 ∨ k = 9) :
    (c.testBit k && !(c + 1).testBit k) = decide ((c + 1) / 2 ^ (k + 1) = c / 2 ^ (k + 1) + 1) := by
  rw [fall_iff c k hk]
  rcases hk with rfl | rfl | rfl | rfl <;>
  · simp only [Nat.reducePow, Nat.reduceAdd, decide_eq_decide]
    omega

/-- in any window of `2^(k+1)` consecutive increments of a counter, bit `k` falls exactly once -/
theorem window_once (c k : Nat) (hk : k = 3 ∨ k = 5 ∨ k = 7 ∨ k = 9) :
    (c + 2 ^ (k + 1)) / 2 ^ (k + 1) - c / 2 ^ (k + 1) = 1 := by
  rcases hk with rfl | rfl | rfl | rfl <;> simp only [Nat.reducePow, Nat.reduceAdd] <;> omega

end GbVerif.TimerBits
