import GbVerif.Model.Cpu
import GbVerif.Spec.SM83
import GbVerif.Proofs.Sm83Bits
/-!
Abstraction between the interpreter's register file (`Interp.Regs`: AF/BC/DE/HL/SP/IP as u32 fields) and the
SM83 architectural state (`SM83.Cpu`: A F B C D E H L SP PC), and the register-file / flag-helper lemmas:
every accessor and flag helper of the interpreter, run on the concretisation of an SM83 state, is the
concretisation of the corresponding SM83 update.
-/
namespace GbVerif.C05
open GbVerif.Interp GbVerif.Sm83Bits
open GbVerif.SM83 (Cpu mkF flagZ flagN flagH flagC)

/-- well-formed register file: every pair is a 16-bit value and the low nibble of F is zero -/
def WF (r : Regs) : Prop :=
  r.af < 65536 ∧ r.af % 16 = 0 ∧ r.bc < 65536 ∧ r.de < 65536 ∧ r.hl < 65536 ∧ r.sp < 65536 ∧ r.ip < 65536

/-- the SM83 view of the interpreter's registers -/
def abs (r : Regs) : Cpu :=
  { a := r.af / 256 % 256, f := r.af % 256, b := r.bc / 256 % 256, c := r.bc % 256, d := r.de / 256 % 256, e := r.de % 256,
    h := r.hl / 256 % 256, l := r.hl % 256, sp := r.sp, pc := r.ip }

/-- the interpreter register file holding an SM83 state (and a cycle counter) -/
def conc (c : Cpu) (k : Nat) : Regs :=
  { af := c.a * 256 + c.f, bc := c.b * 256 + c.c, de := c.d * 256 + c.e, hl := c.h * 256 + c.l, sp := c.sp, ip := c.pc, cycles := k }

/-- well-formed SM83 state: byte registers are bytes, F has a zero low nibble, SP and PC are 16-bit -/
structure CWF (c : Cpu) : Prop where
  ha : c.a < 256
  hf : c.f < 256
  hf0 : c.f % 16 = 0
  hb : c.b < 256
  hc : c.c < 256
  hd : c.d < 256
  he : c.e < 256
  hh : c.h < 256
  hl : c.l < 256
  hsp : c.sp < 65536
  hpc : c.pc < 65536

theorem abs_conc {c : Cpu} (hc : CWF c) (k : Nat) : abs (conc c k) = c := by
  obtain ⟨ha, hf, _, hb, hc', hd, he, hh, hl, _, _⟩ := hc
  cases c
  simp only [abs, conc, Cpu.mk.injEq] at *
  repeat' apply And.intro
  all_goals first | trivial | omega

theorem wf_conc {c : Cpu} (hc : CWF c) (k : Nat) : WF (conc c k) := by
  obtain ⟨ha, hf, hf0, hb, hc', hd, he, hh, hl, hsp, hpc⟩ := hc
  simp only [WF, conc]
  refine ⟨?_, ?_, ?_, ?_, ?_, hsp, hpc⟩ <;> omega

theorem cwf_abs {r : Regs} (hr : WF r) : CWF (abs r) := by
  obtain ⟨h1, h2, h3, h4, h5, h6, h7⟩ := hr
  constructor <;> simp only [abs] <;> omega

theorem conc_abs {r : Regs} (hr : WF r) : conc (abs r) r.cycles = r := by
  obtain ⟨h1, h2, h3, h4, h5, h6, h7⟩ := hr
  cases r
  simp only [abs, conc, Regs.mk.injEq] at *
  repeat' apply And.intro
  all_goals first | trivial | omega

@[simp] theorem conc_cycles (c : Cpu) (k : Nat) : (conc c k).cycles = k := rfl
@[simp] theorem conc_ip (c : Cpu) (k : Nat) : (conc c k).ip = c.pc := rfl
@[simp] theorem conc_af (c : Cpu) (k : Nat) : (conc c k).af = c.a * 256 + c.f := rfl

/-! ### 8-bit register access -/

/-- the SM83 register index `r[z]` of the interpreter's `Register8` -/
def idx : Reg8 → Nat
  | .B => 0 | .C => 1 | .D => 2 | .E => 3 | .H => 4 | .L => 5 | .A => 7

theorem getHi_pair (hi lo : Nat) (h1 : hi < 256) (h2 : lo < 256) : getHi (hi * 256 + lo) = hi := by
  simp only [getHi, shr8]; omega
theorem getLo_pair (hi lo : Nat) (h2 : lo < 256) : getLo (hi * 256 + lo) = lo := by
  simp only [getLo]; omega
theorem setHi_pair (hi lo v : Nat) (h2 : lo < 256) : setHi (hi * 256 + lo) v = v * 256 + lo := by
  simp only [setHi, and_ff, shl8]
  rw [lo_or _ _ (Nat.mod_lt _ (by decide))]; omega
theorem setLo_pair (hi lo v : Nat) (h1 : hi < 256) (h2 : lo < 256) (hv : v < 256) : setLo (hi * 256 + lo) v = hi * 256 + v := by
  simp only [setLo, and_ff00]
  rw [or_lo _ _ hv]; omega

theorem getReg_conc {c : Cpu} (hc : CWF c) (k : Nat) (reg : Reg8) : getReg (conc c k) reg = SM83.getR c (idx reg) := by
  obtain ⟨ha, hf, hf0, hb, hc', hd, he, hh, hl, hsp, hpc⟩ := hc
  cases reg <;> simp only [getReg, conc, idx, SM83.getR]
  · exact getHi_pair _ _ ha hf
  · exact getHi_pair _ _ hb hc'
  · exact getLo_pair _ _ hc'
  · exact getHi_pair _ _ hd he
  · exact getLo_pair _ _ he
  · exact getHi_pair _ _ hh hl
  · exact getLo_pair _ _ hl

theorem getR_lt {c : Cpu} (hc : CWF c) (i : Nat) : SM83.getR c i < 256 := by
  obtain ⟨ha, hf, hf0, hb, hc', hd, he, hh, hl, hsp, hpc⟩ := hc
  unfold SM83.getR; split <;> assumption

theorem setReg_conc {c : Cpu} (hc : CWF c) (k : Nat) (reg : Reg8) (v : Nat) (hv : v < 256) :
    setReg (conc c k) reg v = conc (SM83.setR c (idx reg) v) k := by
  obtain ⟨ha, hf, hf0, hb, hc', hd, he, hh, hl, hsp, hpc⟩ := hc
  cases reg <;> simp only [setReg, conc, idx, SM83.setR, Regs.mk.injEq, true_and, and_true]
  · exact setHi_pair _ _ _ hf
  · exact setHi_pair _ _ _ hc'
  · exact setLo_pair _ _ _ hb hc' hv
  · exact setHi_pair _ _ _ he
  · exact setLo_pair _ _ _ hd he hv
  · exact setHi_pair _ _ _ hl
  · exact setLo_pair _ _ _ hh hl hv

theorem cwf_setR {c : Cpu} (hc : CWF c) (i v : Nat) (hv : v < 256) : CWF (SM83.setR c i v) := by
  obtain ⟨ha, hf, hf0, hb, hc', hd, he, hh, hl, hsp, hpc⟩ := hc
  unfold SM83.setR; split <;> constructor <;> assumption

/-! ### flags -/

theorem mkF_lt (z n h c : Bool) : mkF z n h c < 256 := by
  cases z <;> cases n <;> cases h <;> cases c <;> decide
theorem mkF_mod (z n h c : Bool) : mkF z n h c % 16 = 0 := by
  cases z <;> cases n <;> cases h <;> cases c <;> decide

theorem cwf_setF {c : Cpu} (hc : CWF c) (f : Nat) (h1 : f < 256) (h2 : f % 16 = 0) : CWF { c with f := f } := by
  obtain ⟨ha, hf, hf0, hb, hc', hd, he, hh, hl, hsp, hpc⟩ := hc
  constructor <;> assumption

theorem cwf_mkF {c : Cpu} (hc : CWF c) (z n h cy : Bool) : CWF { c with f := mkF z n h cy } :=
  cwf_setF hc _ (mkF_lt ..) (mkF_mod ..)

/-- every well-formed F is `mkF` of its four flags -/
theorem f_eq_mkF (f : Nat) (h1 : f < 256) (h2 : f % 16 = 0) : f = mkF (flagZ f) (flagN f) (flagH f) (flagC f) := by
  simp only [mkF, flagZ, flagN, flagH, flagC]
  have e1 : f / 128 % 2 = 0 ∨ f / 128 % 2 = 1 := by omega
  have e2 : f / 64 % 2 = 0 ∨ f / 64 % 2 = 1 := by omega
  have e3 : f / 32 % 2 = 0 ∨ f / 32 % 2 = 1 := by omega
  have e4 : f / 16 % 2 = 0 ∨ f / 16 % 2 = 1 := by omega
  rcases e1 with e1 | e1 <;> rcases e2 with e2 | e2 <;> rcases e3 with e3 | e3 <;> rcases e4 with e4 | e4 <;>
    simp only [e1, e2, e3, e4] <;> simp <;> omega

@[simp] theorem flagZ_mkF (z n h c : Bool) : flagZ (mkF z n h c) = z := by
  cases z <;> cases n <;> cases h <;> cases c <;> decide
@[simp] theorem flagN_mkF (z n h c : Bool) : flagN (mkF z n h c) = n := by
  cases z <;> cases n <;> cases h <;> cases c <;> decide
@[simp] theorem flagH_mkF (z n h c : Bool) : flagH (mkF z n h c) = h := by
  cases z <;> cases n <;> cases h <;> cases c <;> decide
@[simp] theorem flagC_mkF (z n h c : Bool) : flagC (mkF z n h c) = c := by
  cases z <;> cases n <;> cases h <;> cases c <;> decide

/-- replacing AF's flag byte -/
theorem conc_setF (c : Cpu) (k f : Nat) : { conc c k with af := c.a * 256 + f } = conc { c with f := f } k := rfl

theorem applyMask_conc {c : Cpu} (hc : CWF c) (k mask : Nat) (hm : mask < 256) :
    applyMask (conc c k) mask = conc { c with f := c.f &&& (255 - mask) } k := by
  obtain ⟨ha, hf, hf0, hb, hc', hd, he, hh, hl, hsp, hpc⟩ := hc
  have hK : (0xff00 ||| (mask ^^^ 0xff) % 256) = 65280 + (255 - mask) := by
    rw [xor_ff _ hm, Nat.mod_eq_of_lt (by omega)]; exact or_lo 255 _ (by omega)
  simp only [applyMask, conc, Regs.mk.injEq, and_true]
  generalize hm' : 255 - mask = m' at hK
  have hm'' : m' < 256 := by omega
  rw [hK, and_mask16 _ _ (by omega)]
  have e1 : (c.a * 256 + c.f) / 256 % 256 = c.a := by omega
  have e2 : (c.a * 256 + c.f) % 256 = c.f := by omega
  have e3 : (65280 + m') % 256 = m' := by omega
  rw [e1, e2, e3]

theorem orF_conc {c : Cpu} (hc : CWF c) (k bits : Nat) (hb : bits < 256) :
    orF (conc c k) bits = conc { c with f := c.f ||| bits } k := by
  obtain ⟨ha, hf, hf0, hb', hc', hd, he, hh, hl, hsp, hpc⟩ := hc
  simp only [orF, conc, Regs.mk.injEq, and_true]
  rw [or_low _ _ hb]
  have e1 : (c.a * 256 + c.f) / 256 = c.a := by omega
  have e2 : (c.a * 256 + c.f) % 256 = c.f := by omega
  rw [e1, e2]

/-- flag-byte algebra: the interpreter's masks and ORs on `mkF` -/
theorem mkF_and_0f (z n h c : Bool) : mkF z n h c &&& (255 - 0xf0) = mkF false false false false := by
  cases z <;> cases n <;> cases h <;> cases c <;> decide
theorem mkF_and_1f (z n h c : Bool) : mkF z n h c &&& (255 - 0xe0) = mkF false false false c := by
  cases z <;> cases n <;> cases h <;> cases c <;> decide
theorem mkF_and_8f (z n h c : Bool) : mkF z n h c &&& (255 - 0x70) = mkF z false false false := by
  cases z <;> cases n <;> cases h <;> cases c <;> decide
theorem mkF_and_9f (z n h c : Bool) : mkF z n h c &&& (255 - 0x60) = mkF z false false c := by
  cases z <;> cases n <;> cases h <;> cases c <;> decide
theorem mkF_or_80 (z n h c : Bool) : mkF z n h c ||| 0x80 = mkF true n h c := by
  cases z <;> cases n <;> cases h <;> cases c <;> decide
theorem mkF_or_40 (z n h c : Bool) : mkF z n h c ||| 0x40 = mkF z true h c := by
  cases z <;> cases n <;> cases h <;> cases c <;> decide
theorem mkF_or_20 (z n h c : Bool) : mkF z n h c ||| 0x20 = mkF z n true c := by
  cases z <;> cases n <;> cases h <;> cases c <;> decide
theorem mkF_or_10 (z n h c : Bool) : mkF z n h c ||| 0x10 = mkF z n h true := by
  cases z <;> cases n <;> cases h <;> cases c <;> decide
theorem mkF_xor_10 (z n h c : Bool) : mkF z n h c ^^^ 0x10 = mkF z n h (!c) := by
  cases z <;> cases n <;> cases h <;> cases c <;> decide

/-- an SM83 state with its flags spelled out -/
theorem cpu_f_eq {c : Cpu} (hc : CWF c) : c = { c with f := mkF (flagZ c.f) (flagN c.f) (flagH c.f) (flagC c.f) } := by
  have := f_eq_mkF c.f hc.hf hc.hf0
  cases c; simp only [Cpu.mk.injEq, true_and, and_true] at *; exact this

/-- state with explicit flags: the form all flag helper lemmas work on -/
theorem mask_f0 {c : Cpu} (hc : CWF c) (k : Nat) :
    applyMask (conc c k) 0xf0 = conc { c with f := mkF false false false false } k := by
  rw [applyMask_conc hc k _ (by decide)]
  conv => lhs; rw [f_eq_mkF c.f hc.hf hc.hf0, mkF_and_0f]
theorem mask_e0 {c : Cpu} (hc : CWF c) (k : Nat) :
    applyMask (conc c k) 0xe0 = conc { c with f := mkF false false false (flagC c.f) } k := by
  rw [applyMask_conc hc k _ (by decide)]
  conv => lhs; rw [f_eq_mkF c.f hc.hf hc.hf0, mkF_and_1f]
theorem mask_70 {c : Cpu} (hc : CWF c) (k : Nat) :
    applyMask (conc c k) 0x70 = conc { c with f := mkF (flagZ c.f) false false false } k := by
  rw [applyMask_conc hc k _ (by decide)]
  conv => lhs; rw [f_eq_mkF c.f hc.hf hc.hf0, mkF_and_8f]
theorem mask_60 {c : Cpu} (hc : CWF c) (k : Nat) :
    applyMask (conc c k) 0x60 = conc { c with f := mkF (flagZ c.f) false false (flagC c.f) } k := by
  rw [applyMask_conc hc k _ (by decide)]
  conv => lhs; rw [f_eq_mkF c.f hc.hf hc.hf0, mkF_and_9f]

/-- the conditional flag setters on a state whose flags are an explicit `mkF` -/
theorem testCarry_mkF {c : Cpu} (hc : CWF c) (k : Nat) (z n h cy b : Bool) :
    testCarry (conc { c with f := mkF z n h cy } k) b = conc { c with f := mkF z n h (cy || b) } k := by
  cases b
  · simp [testCarry]
  · simp only [testCarry, if_true, Bool.or_true]
    rw [orF_conc (cwf_mkF hc ..) _ _ (by decide)]; simp only [mkF_or_10]
theorem testHalf_mkF {c : Cpu} (hc : CWF c) (k : Nat) (z n h cy b : Bool) :
    testHalf (conc { c with f := mkF z n h cy } k) b = conc { c with f := mkF z n (h || b) cy } k := by
  cases b
  · simp [testHalf]
  · simp only [testHalf, if_true, Bool.or_true]
    rw [orF_conc (cwf_mkF hc ..) _ _ (by decide)]; simp only [mkF_or_20]
theorem setNeg_mkF {c : Cpu} (hc : CWF c) (k : Nat) (z n h cy : Bool) :
    setNeg (conc { c with f := mkF z n h cy } k) = conc { c with f := mkF z true h cy } k := by
  simp only [setNeg]
  rw [orF_conc (cwf_mkF hc ..) _ _ (by decide)]; simp only [mkF_or_40]
theorem testZero_mkF {c : Cpu} (hc : CWF c) (k : Nat) (z n h cy : Bool) (v : Nat) :
    testZero (conc { c with f := mkF z n h cy } k) v = conc { c with f := mkF (z || decide (v = 0)) n h cy } k := by
  by_cases hv : v = 0
  · subst hv
    simp only [testZero, beq_self_eq_true, if_true, decide_true, Bool.or_true]
    rw [orF_conc (cwf_mkF hc ..) _ _ (by decide)]; simp only [mkF_or_80]
  · have : (v == 0) = false := by simp [hv]
    simp [testZero, this, hv]
theorem orF20_mkF {c : Cpu} (hc : CWF c) (k : Nat) (z n h cy : Bool) :
    orF (conc { c with f := mkF z n h cy } k) 0x20 = conc { c with f := mkF z n true cy } k := by
  rw [orF_conc (cwf_mkF hc ..) _ _ (by decide)]; simp only [mkF_or_20]
theorem orF40_mkF {c : Cpu} (hc : CWF c) (k : Nat) (z n h cy : Bool) :
    orF (conc { c with f := mkF z n h cy } k) 0x40 = conc { c with f := mkF z true h cy } k := by
  rw [orF_conc (cwf_mkF hc ..) _ _ (by decide)]; simp only [mkF_or_40]
theorem orF10_mkF {c : Cpu} (hc : CWF c) (k : Nat) (z n h cy : Bool) :
    orF (conc { c with f := mkF z n h cy } k) 0x10 = conc { c with f := mkF z n h true } k := by
  rw [orF_conc (cwf_mkF hc ..) _ _ (by decide)]; simp only [mkF_or_10]

theorem carryIn_conc {c : Cpu} (hc : CWF c) (k : Nat) : carryIn (conc c k).af = if flagC c.f then 1 else 0 := by
  obtain ⟨ha, hf, hf0, hb', hc', hd, he, hh, hl, hsp, hpc⟩ := hc
  simp only [carryIn, conc, and_10_ne, flagC]
  have : (c.a * 256 + c.f) / 16 % 2 = c.f / 16 % 2 := by omega
  rw [this]; rfl

/-! ### 16-bit register access -/

theorem hl_lt {c : Cpu} (hc : CWF c) : SM83.hl c < 65536 := by
  have := hc.hh; have := hc.hl; simp only [SM83.hl]; omega
theorem bc_lt {c : Cpu} (hc : CWF c) : SM83.bc c < 65536 := by
  have := hc.hb; have := hc.hc; simp only [SM83.bc]; omega
theorem de_lt {c : Cpu} (hc : CWF c) : SM83.de c < 65536 := by
  have := hc.hd; have := hc.he; simp only [SM83.de]; omega

/-- the SM83 pair index `rp[p]` of BC DE HL SP -/
def idx16 : Reg16 → Nat
  | .BC => 0 | .DE => 1 | .HL => 2 | .SP => 3 | .AF => 4

theorem getRP_lt {c : Cpu} (hc : CWF c) (p : Nat) : SM83.getRP c p < 65536 := by
  unfold SM83.getRP; split
  · exact bc_lt hc
  · exact de_lt hc
  · exact hl_lt hc
  · exact hc.hsp

theorem getReg16_conc {c : Cpu} (hc : CWF c) (k : Nat) (reg : Reg16) (h : reg ≠ .AF) :
    getReg16 (conc c k) reg = SM83.getRP c (idx16 reg) := by
  cases reg
  · exact absurd rfl h
  · have := bc_lt hc; simp only [getReg16, conc, u16, idx16, SM83.getRP, SM83.bc] at *; omega
  · have := de_lt hc; simp only [getReg16, conc, u16, idx16, SM83.getRP, SM83.de] at *; omega
  · have := hl_lt hc; simp only [getReg16, conc, u16, idx16, SM83.getRP, SM83.hl] at *; omega
  · have := hc.hsp; simp only [getReg16, conc, u16, idx16, SM83.getRP] at *; omega

theorem getHL_conc {c : Cpu} (hc : CWF c) (k : Nat) : getReg16 (conc c k) .HL = SM83.hl c :=
  getReg16_conc hc k .HL (by decide)
theorem getSP_conc {c : Cpu} (hc : CWF c) (k : Nat) : getReg16 (conc c k) .SP = c.sp :=
  getReg16_conc hc k .SP (by decide)
theorem getAF_conc {c : Cpu} (hc : CWF c) (k : Nat) : getReg16 (conc c k) .AF = c.a * 256 + c.f := by
  have := hc.ha; have := hc.hf; simp only [getReg16, conc, u16]; omega

theorem setReg16_conc {c : Cpu} (k : Nat) (reg : Reg16) (h : reg ≠ .AF) (v : Nat) (hv : v < 65536) :
    setReg16 (conc c k) reg v = conc (SM83.setRP c (idx16 reg) v) k := by
  cases reg
  · exact absurd rfl h
  all_goals simp only [setReg16, conc, idx16, SM83.setRP, SM83.setHL, Regs.mk.injEq, true_and, and_true]
  all_goals first | trivial | omega

theorem setHL_conc {c : Cpu} (k : Nat) (v : Nat) (hv : v < 65536) :
    setReg16 (conc c k) .HL v = conc (SM83.setHL c v) k :=
  setReg16_conc k .HL (by decide) v hv

theorem cwf_setRP {c : Cpu} (hc : CWF c) (p v : Nat) : CWF (SM83.setRP c p v) := by
  obtain ⟨ha, hf, hf0, hb, hc', hd, he, hh, hl, hsp, hpc⟩ := hc
  unfold SM83.setRP; split
  all_goals (constructor <;> simp only [SM83.setHL] <;> first | assumption | omega)

theorem cwf_setHL {c : Cpu} (hc : CWF c) (v : Nat) : CWF (SM83.setHL c v) := cwf_setRP hc 2 v

theorem cwf_next {c : Cpu} (hc : CWF c) (n : Nat) : CWF (SM83.next c n) := by
  obtain ⟨ha, hf, hf0, hb, hc', hd, he, hh, hl, hsp, hpc⟩ := hc
  constructor <;> simp only [SM83.next] <;> first | assumption | omega

theorem cwf_setPC {c : Cpu} (hc : CWF c) (v : Nat) (hv : v < 65536) : CWF { c with pc := v } := by
  obtain ⟨ha, hf, hf0, hb, hc', hd, he, hh, hl, hsp, hpc⟩ := hc
  constructor <;> assumption

theorem cwf_setSP {c : Cpu} (hc : CWF c) (v : Nat) (hv : v < 65536) : CWF { c with sp := v } := by
  obtain ⟨ha, hf, hf0, hb, hc', hd, he, hh, hl, hsp, hpc⟩ := hc
  constructor <;> assumption

theorem cwf_setA {c : Cpu} (hc : CWF c) (v : Nat) (hv : v < 256) : CWF { c with a := v } := by
  obtain ⟨ha, hf, hf0, hb, hc', hd, he, hh, hl, hsp, hpc⟩ := hc
  constructor <;> assumption

end GbVerif.C05
