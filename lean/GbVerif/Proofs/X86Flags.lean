import GbVerif.Proofs.X86Sim
/-
The flag conversion every ALU template ends with: the host flags of the x86 operation are moved into the guest F
register (low byte of rax, guest layout Z=0x80 N=0x40 H=0x20 C=0x10) by

    pushf ; pop rsi ; and esi,0x51 ; shl esi,1 ; add esi,14 ; and esi,0xf0 ; and eax,(0xff00|keep) ; and esi,take ; or eax,esi

(ZF, AF, CF of RFLAGS are bits 6, 4, 0; the shift moves them to 7, 5, 1; adding 14 carries bit 1 into bit 4).
`flag_pipe` says what the nine instructions do to rax, for any masks `keep` / `take`, and that they touch nothing else
but rsi and the flags.
-/
namespace GbVerif.X86
open GbVerif.JitCycles GbVerif.Interp
variable {β : Type}

/-- ZF, AF, CF in the guest's flag layout -/
def conv (fl : Flags) : Nat := (if fl.zf then 0x80 else 0) + (if fl.af then 0x20 else 0) + (if fl.cf then 0x10 else 0)

theorem conv_eq (fl : Flags) : ((((flagsWord fl &&& 81) % 2 ^ 32 * 2 ^ 1 % 2 ^ 32 + 14 + 0) % 2 ^ 32) &&& 240) = conv fl := by
  obtain ⟨cf, pf, af, zf, sf, of⟩ := fl
  cases cf <;> cases pf <;> cases af <;> cases zf <;> cases sf <;> cases of <;> decide

theorem conv_lt (fl : Flags) : conv fl < 256 := by
  unfold conv; split <;> split <;> split <;> omega

theorem tokVal_lt (t : St β) (n : Nat) (h : n < 256) : tokVal t n = n := by
  unfold tokVal
  have h1 : (n == 256) = false := by simp; omega
  have h2 : (n == 257) = false := by simp; omega
  simp only [h1, h2, Bool.false_eq_true, if_false]
  omega

theorem toNat_setSz_d (s : St β) (j v : Nat) (hj : j < s.r.size) : (get (setSz s .d j v) j).toNat = v % 2 ^ 32 := by
  simp only [setSz]
  rw [get_set_eq _ _ _ hj, BitVec.toNat_ofNat]
  omega

set_option maxRecDepth 4000 in
/-- value written by a 32-bit `op r, imm` (not `cmp`) -/
theorem step_aluI_d (B : BusOps β) (s s1 : St β) (op : AluOp) (d : Nat) (imm : List Nat) (sx8 : Bool) (len : Nat)
    (hop : (op == .cmp) = false) (hd : d < s.r.size) (h : step B s (.aluI op .d d imm sx8) len = .ok s1) :
    (get s1 d).toNat = (aluOp op 32 ((get s d).toNat % 2 ^ 32)
      ((if sx8 then (if immLE s imm ≥ 128 then 2 ^ 32 - 256 + immLE s imm else immLE s imm) else immLE s imm) % 2 ^ 32) s.fl).1 % 2 ^ 32 := by
  simp only [step, hop, bitsOf, Bool.false_eq_true, if_false] at h
  injection h with h
  have hr := congrArg St.r h
  simp only [] at hr
  unfold get
  rw [← hr]
  show (get (setSz ({ s with pc := s.pc + len } : St β) .d d _) d).toNat = _
  rw [toNat_setSz_d ({ s with pc := s.pc + len } : St β) _ _ hd]
  have e1 : getSz ({ s with pc := s.pc + len } : St β) .d d = (get s d).toNat % 2 ^ 32 := rfl
  have e2 : immLE ({ s with pc := s.pc + len } : St β) imm = immLE s imm := rfl
  have e3 : (Size.d == Size.q) = false := rfl
  simp only [e1, e2, e3, Bool.false_and, Bool.false_eq_true, if_false]
  rfl

/-- value written by a 32-bit shift / rotate with a literal count -/
theorem step_sh32_lit (B : BusOps β) (s s1 : St β) (op : ShOp) (r c len : Nat) (hc : c < 256) (hr : r < s.r.size)
    (h : step B s (.sh32 op r c) len = .ok s1) :
    (get s1 r).toNat = (shOp op 32 ((get s r).toNat % 2 ^ 32) c s.fl).1 % 2 ^ 32 := by
  simp only [step] at h
  injection h with h
  have hr' := congrArg St.r h
  simp only [] at hr'
  unfold get
  rw [← hr']
  show (get (setSz ({ s with pc := s.pc + len } : St β) .d r _) r).toNat = _
  rw [toNat_setSz_d ({ s with pc := s.pc + len } : St β) _ _ hr]
  have e1 : getSz ({ s with pc := s.pc + len } : St β) .d r = (get s r).toNat % 2 ^ 32 := rfl
  have e2 : tokVal ({ s with pc := s.pc + len } : St β) c = c := tokVal_lt _ c hc
  rw [e1, e2]
  rfl

set_option maxRecDepth 4000 in
/-- value written by a 32-bit `op r, r'` (not `cmp`) -/
theorem step_alu_d (B : BusOps β) (s s1 : St β) (op : AluOp) (d src len : Nat)
    (hop : (op == .cmp) = false) (hd : d < s.r.size) (h : step B s (.alu op .d d src) len = .ok s1) :
    (get s1 d).toNat = (aluOp op 32 ((get s d).toNat % 2 ^ 32) ((get s src).toNat % 2 ^ 32) s.fl).1 % 2 ^ 32 := by
  simp only [step, hop, bitsOf, Bool.false_eq_true, if_false] at h
  injection h with h
  have hr := congrArg St.r h
  simp only [] at hr
  unfold get
  rw [← hr]
  show (get (setSz ({ s with pc := s.pc + len } : St β) .d d _) d).toNat = _
  rw [toNat_setSz_d ({ s with pc := s.pc + len } : St β) _ _ hd]
  rfl

/-- literal immediates -/
theorem immLE_1 (t : St β) (a : Nat) (ha : a < 256) : immLE t [a] = a := by
  unfold immLE; simp only [List.foldr, tokVal_lt t a ha, Nat.mul_zero, Nat.add_zero]
theorem immLE_4 (t : St β) (a b c d : Nat) (ha : a < 256) (hb : b < 256) (hc : c < 256) (hd : d < 256) :
    immLE t [a, b, c, d] = a + 256 * (b + 256 * (c + 256 * (d + 256 * 0))) := by
  unfold immLE; simp only [List.foldr, tokVal_lt t a ha, tokVal_lt t b hb, tokVal_lt t c hc, tokVal_lt t d hd]

/-- the frame of one step of the conversion: everything but the destination register, and never the bus, the stack (for
the seven ALU steps) or a register outside {rax, rsi} -/
structure Keeps (s s1 : St β) (d : Nat) : Prop where
  regs : ∀ j, d ≠ j → get s1 j = get s j
  bus : s1.bus = s.bus
  stack : s1.stack = s.stack
  size : s1.r.size = s.r.size

theorem keeps_step (B : BusOps β) (s s1 : St β) (ins : Instr) (len d : Nat) (h : step B s ins len = .ok s1)
    (hd : destReg ins = some d) (hc : ins ≠ .callRax)
    (h1 : ∀ r, ins ≠ .push r) (h2 : ∀ r, ins ≠ .pop r) (h3 : ins ≠ .pushf) (h4 : ins ≠ .popf)
    (h5 : ∀ sz b d src, ins ≠ .store sz b d src) (h6 : ∀ b d src, ins ≠ .store8 b d src) : Keeps s s1 d :=
  ⟨fun j hj => step_frame B s s1 ins len j h hc (by rw [hd]; intro e; injection e with e; exact hj e),
   step_bus B s s1 ins len h hc, step_stack B s s1 ins len h h1 h2 h3 h4 h5 h6, (step_size_pc B s s1 ins len h).1⟩

theorem and_mod_lt (a m : Nat) (hm : m < 2 ^ 32) : (a &&& m) % 2 ^ 32 = a &&& m :=
  Nat.mod_eq_of_lt (Nat.lt_of_le_of_lt Nat.and_le_right hm)

/-- **the flag conversion** -/
theorem flag_pipe (B : BusOps β) (keep take : Nat) (hk : keep < 256) (ht : take < 256)
    (o1 o2 o3 o4 o5 o6 o7 o8 o9 e : Nat) (s s' : St β) (hsz : s.r.size = 16)
    (hex : execList B e [(o1, .pushf), (o2, .pop 6), (o3, .aluI .and .d 6 [81] true), (o4, .sh32 .shl 6 1),
      (o5, .aluI .add .d 6 [14] true), (o6, .aluI .and .d 6 [240, 0, 0, 0] false), (o7, .aluI .and .d 0 [keep, 255, 0, 0] false),
      (o8, .aluI .and .d 6 [take, 0, 0, 0] false), (o9, .alu .or .d 0 6)] s = .ok s') :
    (get s' 0).toNat = (((get s 0).toNat % 2 ^ 32) &&& (keep + 0xff00)) ||| (conv s.fl &&& take) ∧
    (∀ j, 0 ≠ j → 6 ≠ j → get s' j = get s j) ∧ s'.bus = s.bus ∧ s'.stack = s.stack ∧ s'.r.size = 16 := by
  obtain ⟨s1, h1, hex⟩ := execList_cons B _ _ _ _ _ _ hex
  obtain ⟨s2, h2, hex⟩ := execList_cons B _ _ _ _ _ _ hex
  obtain ⟨s3, h3, hex⟩ := execList_cons B _ _ _ _ _ _ hex
  obtain ⟨s4, h4, hex⟩ := execList_cons B _ _ _ _ _ _ hex
  obtain ⟨s5, h5, hex⟩ := execList_cons B _ _ _ _ _ _ hex
  obtain ⟨s6, h6, hex⟩ := execList_cons B _ _ _ _ _ _ hex
  obtain ⟨s7, h7, hex⟩ := execList_cons B _ _ _ _ _ _ hex
  obtain ⟨s8, h8, hex⟩ := execList_cons B _ _ _ _ _ _ hex
  obtain ⟨s9, h9, hex⟩ := execList_cons B _ _ _ _ _ _ hex
  have := execList_nil B _ _ _ hex
  subst this
  -- pushf ; pop rsi
  simp only [step] at h1
  injection h1 with h1
  have e2 : step B s1 (.pop 6) (headOff e
      [(o3, .aluI .and .d 6 [81] true), (o4, .sh32 .shl 6 1), (o5, .aluI .add .d 6 [14] true), (o6, .aluI .and .d 6 [240, 0, 0, 0] false),
       (o7, .aluI .and .d 0 [keep, 255, 0, 0] false), (o8, .aluI .and .d 6 [take, 0, 0, 0] false), (o9, .alu .or .d 0 6)] - o2) =
      .ok (set ({ s with pc := s1.pc + (headOff e
      [(o3, .aluI .and .d 6 [81] true), (o4, .sh32 .shl 6 1), (o5, .aluI .add .d 6 [14] true), (o6, .aluI .and .d 6 [240, 0, 0, 0] false),
       (o7, .aluI .and .d 0 [keep, 255, 0, 0] false), (o8, .aluI .and .d 6 [take, 0, 0, 0] false), (o9, .alu .or .d 0 6)] - o2) } : St β) 6
        (BitVec.ofNat 64 (flagsWord s.fl))) := by
    rw [← h1]; rfl
  rw [e2] at h2
  injection h2 with h2
  have k2r : ∀ j, 6 ≠ j → get s2 j = get s j := by
    intro j hj; rw [← h2]; exact get_set_ne _ _ _ _ hj
  have x62 : (get s2 6).toNat = flagsWord s.fl := by
    rw [← h2, get_set_eq _ _ _ (by show 6 < s.r.size; omega), BitVec.toNat_ofNat]
    obtain ⟨cf, pf, af, zf, sf, of⟩ := s.fl
    cases cf <;> cases pf <;> cases af <;> cases zf <;> cases sf <;> cases of <;> decide
  have b2 : s2.bus = s.bus := by rw [← h2]; rfl
  have st2 : s2.stack = s.stack := by rw [← h2]; rfl
  have z2 : s2.r.size = 16 := by rw [← h2, size_set]; exact hsz
  have fl2 : s2.fl = s.fl := by rw [← h2]; rfl
  -- the seven ALU steps
  have nc : ∀ {ins : Instr} {d : Nat}, destReg ins = some d → True := fun _ => trivial
  have k3 := keeps_step B s2 s3 _ _ 6 h3 rfl (by intro e; cases e) (fun _ e => by cases e) (fun _ e => by cases e)
    (fun e => by cases e) (fun e => by cases e) (fun _ _ _ _ e => by cases e) (fun _ _ _ e => by cases e)
  have k4 := keeps_step B s3 s4 _ _ 6 h4 rfl (by intro e; cases e) (fun _ e => by cases e) (fun _ e => by cases e)
    (fun e => by cases e) (fun e => by cases e) (fun _ _ _ _ e => by cases e) (fun _ _ _ e => by cases e)
  have k5 := keeps_step B s4 s5 _ _ 6 h5 rfl (by intro e; cases e) (fun _ e => by cases e) (fun _ e => by cases e)
    (fun e => by cases e) (fun e => by cases e) (fun _ _ _ _ e => by cases e) (fun _ _ _ e => by cases e)
  have k6 := keeps_step B s5 s6 _ _ 6 h6 rfl (by intro e; cases e) (fun _ e => by cases e) (fun _ e => by cases e)
    (fun e => by cases e) (fun e => by cases e) (fun _ _ _ _ e => by cases e) (fun _ _ _ e => by cases e)
  have k7 := keeps_step B s6 s7 _ _ 0 h7 rfl (by intro e; cases e) (fun _ e => by cases e) (fun _ e => by cases e)
    (fun e => by cases e) (fun e => by cases e) (fun _ _ _ _ e => by cases e) (fun _ _ _ e => by cases e)
  have k8 := keeps_step B s7 s8 _ _ 6 h8 rfl (by intro e; cases e) (fun _ e => by cases e) (fun _ e => by cases e)
    (fun e => by cases e) (fun e => by cases e) (fun _ _ _ _ e => by cases e) (fun _ _ _ e => by cases e)
  have k9 := keeps_step B s8 s' _ _ 0 h9 rfl (by intro e; cases e) (fun _ e => by cases e) (fun _ e => by cases e)
    (fun e => by cases e) (fun e => by cases e) (fun _ _ _ _ e => by cases e) (fun _ _ _ e => by cases e)
  have z3 : s3.r.size = 16 := by rw [k3.size]; exact z2
  have z4 : s4.r.size = 16 := by rw [k4.size]; exact z3
  have z5 : s5.r.size = 16 := by rw [k5.size]; exact z4
  have z6 : s6.r.size = 16 := by rw [k6.size]; exact z5
  have z7 : s7.r.size = 16 := by rw [k7.size]; exact z6
  have z8 : s8.r.size = 16 := by rw [k8.size]; exact z7
  have v3 := step_aluI_d B s2 s3 .and 6 [81] true _ rfl (by omega) h3
  have v4 := step_sh32_lit B s3 s4 .shl 6 1 _ (by decide) (by omega) h4
  have v5 := step_aluI_d B s4 s5 .add 6 [14] true _ rfl (by omega) h5
  have v6 := step_aluI_d B s5 s6 .and 6 [240, 0, 0, 0] false _ rfl (by omega) h6
  have v7 := step_aluI_d B s6 s7 .and 0 [keep, 255, 0, 0] false _ rfl (by omega) h7
  have v8 := step_aluI_d B s7 s8 .and 6 [take, 0, 0, 0] false _ rfl (by omega) h8
  have v9 := step_alu_d B s8 s' .or 0 6 _ rfl (by omega) h9
  have a_and : ∀ (a b : Nat) (fl : Flags), (aluOp .and 32 a b fl).1 = a &&& b := fun _ _ _ => rfl
  have a_add : ∀ (a b : Nat) (fl : Flags), (aluOp .add 32 a b fl).1 = (a + b + 0) % 2 ^ 32 := fun _ _ _ => rfl
  have a_or : ∀ (a b : Nat) (fl : Flags), (aluOp .or 32 a b fl).1 = a ||| b := fun _ _ _ => rfl
  have a_shl : ∀ (v : Nat) (fl : Flags), (shOp .shl 32 v 1 fl).1 = v * 2 ^ 1 % 2 ^ 32 := fun _ _ => rfl
  rw [immLE_1 _ _ (by decide), a_and] at v3
  rw [a_shl] at v4
  rw [immLE_1 _ _ (by decide), a_add] at v5
  rw [immLE_4 _ _ _ _ _ (by decide) (by decide) (by decide) (by decide), a_and] at v6
  rw [immLE_4 _ _ _ _ _ hk (by decide) (by decide) (by decide), a_and] at v7
  rw [immLE_4 _ _ _ _ _ ht (by decide) (by decide) (by decide), a_and] at v8
  rw [a_or] at v9
  have c81 : (if true = true then if 81 ≥ 128 then 2 ^ 32 - 256 + 81 else 81 else 81) % 2 ^ 32 = 81 := by decide
  have c14 : (if true = true then if 14 ≥ 128 then 2 ^ 32 - 256 + 14 else 14 else 14) % 2 ^ 32 = 14 := by decide
  have c240 : (if false = true then if 240 + 256 * (0 + 256 * (0 + 256 * (0 + 256 * 0))) ≥ 128 then 2 ^ 32 - 256 + (240 + 256 * (0 + 256 * (0 + 256 * (0 + 256 * 0)))) else 240 + 256 * (0 + 256 * (0 + 256 * (0 + 256 * 0))) else 240 + 256 * (0 + 256 * (0 + 256 * (0 + 256 * 0)))) % 2 ^ 32 = 240 := by decide
  have ckeep : (if false = true then if keep + 256 * (255 + 256 * (0 + 256 * (0 + 256 * 0))) ≥ 128 then 2 ^ 32 - 256 + (keep + 256 * (255 + 256 * (0 + 256 * (0 + 256 * 0)))) else keep + 256 * (255 + 256 * (0 + 256 * (0 + 256 * 0))) else keep + 256 * (255 + 256 * (0 + 256 * (0 + 256 * 0)))) % 2 ^ 32 = keep + 0xff00 := by
    rw [if_neg (by decide)]; omega
  have ctake : (if false = true then if take + 256 * (0 + 256 * (0 + 256 * (0 + 256 * 0))) ≥ 128 then 2 ^ 32 - 256 + (take + 256 * (0 + 256 * (0 + 256 * (0 + 256 * 0)))) else take + 256 * (0 + 256 * (0 + 256 * (0 + 256 * 0))) else take + 256 * (0 + 256 * (0 + 256 * (0 + 256 * 0)))) % 2 ^ 32 = take := by
    rw [if_neg (by decide)]; omega
  rw [c81] at v3
  rw [c14] at v5
  rw [c240] at v6
  rw [ckeep] at v7
  rw [ctake] at v8
  -- rsi through the conversion
  have r3 : get s3 0 = get s 0 := by rw [k3.regs 0 (by decide), k2r 0 (by decide)]
  have x66 : (get s6 6).toNat = conv s.fl := by
    rw [v6, v5, v4, v3, x62]
    generalize s.fl = fl
    obtain ⟨cf, pf, af, zf, sf, of⟩ := fl
    cases cf <;> cases pf <;> cases af <;> cases zf <;> cases sf <;> cases of <;> decide
  have x68 : (get s8 6).toNat = conv s.fl &&& take := by
    rw [v8, k7.regs 6 (by decide), x66, and_mod_lt _ take (by omega)]
    rw [Nat.mod_eq_of_lt (Nat.lt_trans (conv_lt s.fl) (by decide))]
  have x07 : (get s7 0).toNat = (get s 0).toNat % 2 ^ 32 &&& (keep + 0xff00) := by
    rw [v7, k6.regs 0 (by decide), k5.regs 0 (by decide), k4.regs 0 (by decide), r3, and_mod_lt _ _ (by omega)]
  have x09 : (get s' 0).toNat = (((get s 0).toNat % 2 ^ 32) &&& (keep + 0xff00)) ||| (conv s.fl &&& take) := by
    rw [v9, k8.regs 0 (by decide), x07, x68]
    have b1 : (get s 0).toNat % 2 ^ 32 &&& (keep + 0xff00) < 2 ^ 32 := Nat.lt_of_le_of_lt Nat.and_le_right (by omega)
    have b2 : conv s.fl &&& take < 2 ^ 32 := Nat.lt_of_le_of_lt Nat.and_le_right (by omega)
    rw [Nat.mod_eq_of_lt b1, Nat.mod_eq_of_lt b2, Nat.mod_eq_of_lt (Nat.or_lt_two_pow b1 b2)]
  refine ⟨x09, ?_, ?_, ?_, ?_⟩
  · intro j h0 h6'
    rw [k9.regs j h0, k8.regs j h6', k7.regs j h0, k6.regs j h6', k5.regs j h6', k4.regs j h6', k3.regs j h6', k2r j h6']
  · rw [k9.bus, k8.bus, k7.bus, k6.bus, k5.bus, k4.bus, k3.bus, b2]
  · rw [k9.stack, k8.stack, k7.stack, k6.stack, k5.stack, k4.stack, k3.stack, st2]
  · rw [k9.size]; exact z8

/-! ### 16-bit values as (high byte, low byte): the bit operations act bytewise -/

theorem pack_and (a f m k : Nat) (hf : f < 256) (hk : k < 256) :
    (a * 256 + f) &&& (m * 256 + k) = (a &&& m) * 256 + (f &&& k) := by
  have hfk : f &&& k < 256 := Nat.lt_of_le_of_lt Nat.and_le_left hf
  apply Nat.eq_of_testBit_eq
  intro j
  rw [Nat.testBit_and]
  have e1 : a * 256 + f = 2 ^ 8 * a + f := by rw [Nat.mul_comm]
  have e2 : m * 256 + k = 2 ^ 8 * m + k := by rw [Nat.mul_comm]
  have e3 : (a &&& m) * 256 + (f &&& k) = 2 ^ 8 * (a &&& m) + (f &&& k) := by rw [Nat.mul_comm]
  rw [e1, e2, e3, Nat.testBit_two_pow_mul_add _ hf, Nat.testBit_two_pow_mul_add _ hk, Nat.testBit_two_pow_mul_add _ hfk]
  by_cases h : j < 8
  · simp only [h, if_true, Nat.testBit_and]
  · simp only [h, if_false, Nat.testBit_and]

theorem pack_or (a f m k : Nat) (hf : f < 256) (hk : k < 256) :
    (a * 256 + f) ||| (m * 256 + k) = (a ||| m) * 256 + (f ||| k) := by
  have hfk : f ||| k < 256 := Nat.or_lt_two_pow (n := 8) hf hk
  apply Nat.eq_of_testBit_eq
  intro j
  rw [Nat.testBit_or]
  have e1 : a * 256 + f = 2 ^ 8 * a + f := by rw [Nat.mul_comm]
  have e2 : m * 256 + k = 2 ^ 8 * m + k := by rw [Nat.mul_comm]
  have e3 : (a ||| m) * 256 + (f ||| k) = 2 ^ 8 * (a ||| m) + (f ||| k) := by rw [Nat.mul_comm]
  rw [e1, e2, e3, Nat.testBit_two_pow_mul_add _ hf, Nat.testBit_two_pow_mul_add _ hk, Nat.testBit_two_pow_mul_add _ hfk]
  by_cases h : j < 8
  · simp only [h, if_true, Nat.testBit_or]
  · simp only [h, if_false, Nat.testBit_or]

theorem pack_xor (a f m k : Nat) (hf : f < 256) (hk : k < 256) :
    (a * 256 + f) ^^^ (m * 256 + k) = (a ^^^ m) * 256 + (f ^^^ k) := by
  have hfk : f ^^^ k < 256 := Nat.xor_lt_two_pow (n := 8) hf hk
  apply Nat.eq_of_testBit_eq
  intro j
  rw [Nat.testBit_xor]
  have e1 : a * 256 + f = 2 ^ 8 * a + f := by rw [Nat.mul_comm]
  have e2 : m * 256 + k = 2 ^ 8 * m + k := by rw [Nat.mul_comm]
  have e3 : (a ^^^ m) * 256 + (f ^^^ k) = 2 ^ 8 * (a ^^^ m) + (f ^^^ k) := by rw [Nat.mul_comm]
  rw [e1, e2, e3, Nat.testBit_two_pow_mul_add _ hf, Nat.testBit_two_pow_mul_add _ hk, Nat.testBit_two_pow_mul_add _ hfk]
  by_cases h : j < 8
  · simp only [h, if_true, Nat.testBit_xor]
  · simp only [h, if_false, Nat.testBit_xor]

/-- low 16 bits of `(x &&& m) ||| y` for a 32-bit mask `m` = `0xff00 + keep` and a byte `y`, with `x` seen as (hi, lo) -/
theorem pipe_low16 (x keep y hi lo : Nat) (hk : keep < 256) (hy : y < 256) (hlo : lo < 256) (hhi : hi < 256)
    (hx : x % 65536 = hi * 256 + lo) : ((x % 2 ^ 32 &&& (keep + 0xff00)) ||| y) % 65536 = hi * 256 + ((lo &&& keep) ||| y) := by
  have e1 : (65536 : Nat) = 2 ^ 16 := rfl
  rw [e1, Nat.or_mod_two_pow, Nat.and_mod_two_pow]
  have h1 : x % 2 ^ 32 % 2 ^ 16 = hi * 256 + lo := by rw [← hx]; omega
  have h2 : (keep + 0xff00) % 2 ^ 16 = 255 * 256 + keep := by omega
  have h3 : y % 2 ^ 16 = 0 * 256 + y := by omega
  rw [h1, h2, pack_and _ _ _ _ hlo hk, h3, pack_or _ _ _ _ (Nat.lt_of_le_of_lt Nat.and_le_left hlo) hy]
  have h4 : hi &&& 255 = hi := by
    have := Nat.and_two_pow_sub_one_eq_mod hi 8
    rw [show (2 ^ 8 - 1 : Nat) = 255 from rfl] at this
    rw [this]; exact Nat.mod_eq_of_lt hhi
  rw [h4, Nat.or_zero]

end GbVerif.X86
