import GbVerif.Model.Sys
import GbVerif.Proofs.CoreStep
import GbVerif.Proofs.InterpFrame
import GbVerif.Proofs.LcdSched
/-!
The LCD inside the whole machine (`Sys.dev`): its line/mode machine and its count of completed frames are driven by
nothing but the clocks the core hands to the devices.  Whatever the program does — any instruction, any register write,
OAM DMA, interrupt dispatch, HALT — after `t` delivered clocks the LCD sits at `sched t` and has completed `t / 70224`
frames.  This discharges the assumption of `C09.run_frame_terminates_partial` for the real device function.
-/
namespace GbVerif.SysProofs
open GbVerif GbVerif.Core GbVerif.Interp GbVerif.CoreProofs GbVerif.LcdSpec GbVerif.LcdProofs

/-- the timing side of the LCD registers: nothing but `VideoState::run_clock_cycles` assigns these -/
def vtV (v : Bus.VideoRegs) : Nat × Nat × Nat × Nat := (v.mode, v.dots, v.line, v.frames)
def vt (b : Bus.State) : Nat × Nat × Nat × Nat := vtV b.io.video

/-- the LCD is on schedule after `t` clocks and has counted the frames completed in them -/
def LcdInv (b : Bus.State) (t : Nat) : Prop :=
  t % 4 = 0 ∧ pos (Sys.lcdOf b.io.video) = sched t ∧ b.io.video.frames = t / 70224

theorem LcdInv_of_vt {b b' : Bus.State} {t : Nat} (h : vt b' = vt b) (hi : LcdInv b t) : LcdInv b' t := by
  unfold vt vtV at h
  simp only [Prod.mk.injEq] at h
  obtain ⟨h1, h2, h3, h4⟩ := h
  obtain ⟨i1, i2, i3⟩ := hi
  refine ⟨i1, ?_, by rw [h4]; exact i3⟩
  rw [← i2]
  simp only [pos, Sys.lcdOf, h1, h2, h3]

/-! ### register writes and the CPU leave the timing side alone -/

theorem setByte_vt (io : Bus.Io) (a v : Nat) : vtV (io.setByte a v).video = vtV io.video := by
  unfold Bus.Io.setByte
  split <;> rfl

/-- a successful array write followed by a field update that leaves `io` alone -/
macro "wrb" h:ident : tactic => `(tactic| (
  obtain ⟨x, _, $h:ident⟩ := bind_ok_elim $h:ident
  injection $h:ident with $h:ident; subst $h:ident; rfl))

theorem write_vt {s s' : Bus.State} {a v : Nat} (h : Bus.write s a v = .ok s') : vt s' = vt s := by
  unfold Bus.write at h
  by_cases h1 : a < 0x8000
  · rw [if_pos h1] at h; injection h with h; subst h; rfl
  rw [if_neg h1] at h
  by_cases h2 : a < 0xa000
  · rw [if_pos h2] at h; wrb h
  rw [if_neg h2] at h
  by_cases h3 : a < 0xc000
  · rw [if_pos h3] at h
    simp only [] at h
    split at h
    · injection h with h; subst h; rfl
    · split at h
      · wrb h
      · injection h with h; subst h; rfl
  rw [if_neg h3] at h
  by_cases h4 : a < 0xd000
  · rw [if_pos h4] at h; wrb h
  rw [if_neg h4] at h
  by_cases h5 : a < 0xe000
  · rw [if_pos h5] at h; wrb h
  rw [if_neg h5] at h
  by_cases h6 : a < 0xfe00
  · rw [if_pos h6] at h; injection h with h; subst h; rfl
  rw [if_neg h6] at h
  by_cases h7 : a < 0xfea0
  · rw [if_pos h7] at h; wrb h
  rw [if_neg h7] at h
  by_cases h8 : a < 0xff00
  · rw [if_pos h8] at h; injection h with h; subst h; rfl
  rw [if_neg h8] at h
  by_cases h9 : a < 0xff80
  · rw [if_pos h9] at h
    split at h
    · injection h with h; subst h; rfl
    · injection h with h; subst h; exact setByte_vt _ _ _
  rw [if_neg h9] at h
  split at h
  · injection h with h; subst h; rfl
  · wrb h

theorem runOp_vt {op : Op} {r r' : Regs} {s s' : Bus.State} {len st : Nat}
    (h : runOp Cpu.busOps op r s len = .ok (r', s', st)) : vt s' = vt s :=
  runOp_inv Cpu.busOps (fun m => vt m = vt s) (fun _ _ _ _ hw hp => (write_vt hw).trans hp) op r s len r' s' st h rfl

theorem runNextOp_vt {r r' : Regs} {s s' : Bus.State} {st : Nat} {e : Bool}
    (h : Cpu.runNextOp r s = .ok (r', s', st, e)) : vt s' = vt s := by
  unfold Cpu.runNextOp at h
  obtain ⟨⟨b0, b1, b2⟩, _, h⟩ := bind_ok_elim h
  simp only [] at h
  generalize Gen.decode b0 b1 b2 = d at h
  obtain ⟨op, len, clocks⟩ := d
  simp only [] at h
  obtain ⟨⟨r1, s1, st1⟩, h1, h⟩ := bind_ok_elim h
  injection h with h; injection h with h2 h3; injection h3 with h3 h4; subst h3
  exact runOp_vt h1

theorem runCodeBlockAux_vt (start : Nat) : ∀ (fuel : Nat) (r : Regs) (s : Bus.State) (st : Nat) (r' : Regs) (s' : Bus.State) (st' : Nat),
    Cpu.runCodeBlockAux start r s st fuel = .ok (r', s', st') → vt s' = vt s := by
  intro fuel
  induction fuel with
  | zero => intro r s st r' s' st' h; cases h
  | succ n ih =>
    intro r s st r' s' st' h
    rw [Cpu.runCodeBlockAux] at h
    split at h
    · injection h with h; injection h with h1 h2; injection h2 with h2 h3; subst h2; rfl
    · obtain ⟨⟨r1, s1, st1, stop⟩, h1, h⟩ := bind_ok_elim h
      have hv := runNextOp_vt h1
      simp only [] at h
      split at h
      · injection h with h; injection h with h2 h3; injection h3 with h3 h4; subst h3; exact hv
      · exact (ih _ _ _ _ _ _ h).trans hv

theorem runCodeBlock_vt {r r' : Regs} {s s' : Bus.State} {st fuel : Nat}
    (h : Cpu.runCodeBlock r s fuel = .ok (r', s', st)) : vt s' = vt s :=
  runCodeBlockAux_vt _ _ _ _ _ _ _ _ h

/-- interrupt dispatch: two stack writes and the IF acknowledge -/
theorem handleInterrupt_vt {c c' : State} (h : handleInterrupt c = .ok c') : vt c'.bus = vt c.bus ∧ c'.delivered = c.delivered := by
  unfold handleInterrupt at h
  split at h
  · injection h with h; subst h; exact ⟨rfl, rfl⟩
  · simp only [] at h
    split at h
    · injection h with h; subst h; exact ⟨rfl, rfl⟩
    · obtain ⟨b1, h1, h⟩ := bind_ok_elim h
      obtain ⟨b2, h2, h⟩ := bind_ok_elim h
      injection h with h; subst h
      exact ⟨(write_vt h2).trans (write_vt h1), rfl⟩

/-! ### the devices advance it by exactly the clocks they are given -/

theorem modeOfNat_toNat (m : Lcd.Mode) : Sys.modeOfNat m.toNat = m := by cases m <;> rfl

/-- the frame counter in closed form: VBlank is entered by the tick that completes a multiple of 17556 ticks -/
theorem vblanks_closed (n : Nat) : ∀ (s : Lcd.State) (k : Nat), pos s = sched (4 * k) →
    Sys.vblanks n s = (k + n) / 17556 - k / 17556 := by
  induction n with
  | zero => intro s k _; simp [Sys.vblanks]
  | succ n ih =>
    intro s k h
    rw [Sys.vblanks, ih _ (k + 1) (tick_closed s k h), tick_vblank_iff s k h]
    by_cases hk : k % 17556 = 17555
    · simp only [hk, beq_self_eq_true, if_true]; omega
    · have : (k % 17556 == 17555) = false := by simpa using hk
      simp only [this, Bool.false_eq_true, if_false]; omega

theorem videoRun_inv {v v' : Bus.VideoRegs} {k t f : Nat} (hk : k % 4 = 0) (h : Sys.videoRun v k = .ok (v', f))
    (ht : t % 4 = 0) (hp : pos (Sys.lcdOf v) = sched t) (hf : v.frames = t / 70224) :
    pos (Sys.lcdOf v') = sched (t + k) ∧ v'.frames = (t + k) / 70224 := by
  unfold Sys.videoRun at h
  rw [Lcd.runClocks, if_pos hk] at h
  simp only [Except.ok.injEq, Prod.mk.injEq] at h
  obtain ⟨h1, _⟩ := h
  subst h1
  have hp' : pos (Sys.lcdOf v) = sched (4 * (t / 4)) := by rw [hp]; congr 1; omega
  have hc := run_closed (k / 4) (Sys.lcdOf v) (t / 4) hp'
  constructor
  · have : pos (Sys.lcdOf { v with mode := (Lcd.run (k / 4) (Sys.lcdOf v)).1.mode.toNat, dots := (Lcd.run (k / 4) (Sys.lcdOf v)).1.dots,
                                    line := (Lcd.run (k / 4) (Sys.lcdOf v)).1.line,
                                    frames := v.frames + Sys.vblanks (k / 4) (Sys.lcdOf v) }) = pos (Lcd.run (k / 4) (Sys.lcdOf v)).1 := by
      simp only [pos, Sys.lcdOf, modeOfNat_toNat]
    rw [this, hc]; congr 1; omega
  · show v.frames + Sys.vblanks (k / 4) (Sys.lcdOf v) = (t + k) / 70224
    rw [vblanks_closed _ _ _ hp', hf]; omega

theorem ioRun_inv {b : Bus.State} {io' : Bus.Io} {k t : Nat} (hk : k % 4 = 0) (h : Sys.ioRun b.io k = .ok io') (hi : LcdInv b t) :
    LcdInv { b with io := io' } (t + k) := by
  unfold Sys.ioRun at h
  split at h
  · cases h
  · obtain ⟨⟨v, vf⟩, hv, h⟩ := bind_ok_elim h
    simp only [] at h
    injection h with h; subst h
    obtain ⟨i1, i2, i3⟩ := hi
    have := videoRun_inv hk hv i1 i2 i3
    exact ⟨by omega, this.1, this.2⟩

theorem dmaCopyByte_vt {s s' : Bus.State} {source off : Nat} (h : Bus.dmaCopyByte s source off = .ok s') : vt s' = vt s := by
  unfold Bus.dmaCopyByte at h
  obtain ⟨v, _, h⟩ := bind_ok_elim h
  exact write_vt h

theorem dmaLoop_inv (source : Nat) : ∀ (n : Nat) (s : Bus.State) (off : Nat) (s' : Bus.State) (off' t : Nat),
    Sys.dmaLoop s source off n = .ok (s', off') → LcdInv s t → LcdInv s' (t + 4 * n) := by
  intro n
  induction n with
  | zero => intro s off s' off' t h hi; injection h with h; injection h with h1 h2; subst h1; exact hi
  | succ n ih =>
    intro s off s' off' t h hi
    rw [Sys.dmaLoop] at h
    obtain ⟨s1, h1, h⟩ := bind_ok_elim h
    obtain ⟨io, h2, h⟩ := bind_ok_elim h
    have hi1 : LcdInv s1 t := LcdInv_of_vt (dmaCopyByte_vt h1) hi
    have hi2 := ioRun_inv (k := 4) (by decide) h2 hi1
    have := ih _ _ _ _ _ h hi2
    have e : t + 4 + 4 * n = t + 4 * (n + 1) := by omega
    rw [← e]; exact this

/-- **the device function keeps the LCD on schedule**: `k` clocks (a whole number of machine cycles) later the LCD is
`k` clocks further and has counted the frames completed in them, with or without an OAM DMA in progress -/
theorem dev_inv {b b' : Bus.State} {k t : Nat} (hk : k % 4 = 0) (h : Sys.dev b k = .ok b') (hi : LcdInv b t) :
    LcdInv b' (t + k) := by
  unfold Sys.dev at h
  split at h
  · obtain ⟨io, h1, h⟩ := bind_ok_elim h
    injection h with h; subst h
    exact ioRun_inv hk h1 hi
  · rename_i source off hd
    obtain ⟨⟨s1, off'⟩, h1, h⟩ := bind_ok_elim h
    simp only [] at h
    obtain ⟨io, h2, h⟩ := bind_ok_elim h
    injection h with h; subst h
    have hn : 4 * min (0xa0 - off) (k / 4) ≤ k := by
      have : min (0xa0 - off) (k / 4) ≤ k / 4 := Nat.min_le_right _ _
      omega
    have hi1 := dmaLoop_inv source _ _ _ _ _ t h1 hi
    have hi1' : LcdInv { s1 with dma := if off' < 0xa0 then some (source, off') else none } (t + 4 * min (0xa0 - off) (k / 4)) :=
      LcdInv_of_vt rfl hi1
    have := ioRun_inv (k := k - 4 * min (0xa0 - off) (k / 4)) (by omega) h2 hi1'
    have e : t + 4 * min (0xa0 - off) (k / 4) + (k - 4 * min (0xa0 - off) (k / 4)) = t + k := by omega
    rw [e] at this
    exact LcdInv_of_vt rfl this

/-! ### every step of the machine -/

/-- the machine invariant: the LCD has received exactly the clocks the core delivered -/
def SysInv (c : State) : Prop := LcdInv c.bus c.delivered

theorem catchUp_inv {c c' : State} {record : Bool} (h : catchUp Sys.dev c record = .ok c') (hi : SysInv c) : SysInv c' := by
  rw [catchUp_eq] at h
  obtain ⟨bus, h1, h⟩ := bind_ok_elim h
  have hd := dev_inv (by omega) h1 hi
  obtain ⟨hv, hdel⟩ := handleInterrupt_vt h
  unfold SysInv
  rw [hdel]
  exact LcdInv_of_vt hv hd

theorem update_inv {c c' : State} (h : update Sys.dev c = .ok c') (hi : SysInv c) : SysInv c' := by
  by_cases hr : c.run = .Run
  · rw [update_run _ _ hr, runInterp_eq] at h
    obtain ⟨⟨r, b, st, e⟩, h1, h⟩ := bind_ok_elim h
    exact catchUp_inv h (LcdInv_of_vt (runNextOp_vt h1) hi)
  · rw [update_halted _ _ hr] at h
    obtain ⟨bus, h1, h⟩ := bind_ok_elim h
    have hd := dev_inv (k := 4) (by decide) h1 hi
    obtain ⟨hv, hdel⟩ := handleInterrupt_vt h
    unfold SysInv
    rw [hdel]
    exact LcdInv_of_vt hv hd

theorem updateBlock_inv {c c' : State} (h : updateBlock Sys.dev c = .ok c') (hi : SysInv c) : SysInv c' := by
  unfold updateBlock at h
  split at h
  · rw [runCodeBlockInterp_eq] at h
    obtain ⟨⟨r, b, st⟩, h1, h⟩ := bind_ok_elim h
    exact catchUp_inv h (LcdInv_of_vt (runCodeBlock_vt h1) hi)
  · exact update_inv h hi

/-- a freshly created machine (`MemoryAreas::with_rom_file`, `VideoState::new`) satisfies the invariant -/
theorem sysInv_create (kind : Cart.Kind) (romBanks ramBytes : Nat) (rom : Nat → Nat) (regs : Regs) :
    SysInv { regs := regs, bus := Bus.create kind romBanks ramBytes rom } := by
  refine ⟨rfl, ?_, ?_⟩
  · show pos (Sys.lcdOf {}) = sched 0
    decide
  · show (0 : Nat) = 0 / 70224
    rfl

end GbVerif.SysProofs
