import GbVerif.Proofs.PpuLine
/-!
C15: the mode machine around the pixel pipeline — one line (114 ticks) and the frame (144 lines,
buffer swap at VBlank entry).
-/
namespace GbVerif.PpuFrame
open GbVerif.Ppu GbVerif.FrameSpec GbVerif.PpuBits GbVerif.PpuObj GbVerif.PpuSel GbVerif.PpuLine

variable (vram oam : Array Nat)

theorem runTicks_add (a b : Nat) (s : State) :
    runTicks vram oam (a + b) s = (runTicks vram oam a s >>= runTicks vram oam b) := by
  induction a generalizing s with
  | zero => simp [runTicks, pure, Except.pure, bind, Except.bind]
  | succ a ih =>
    have : a + 1 + b = (a + b) + 1 := by omega
    rw [this]
    simp only [runTicks, bind, Except.bind]
    cases tick s vram oam with
    | error e => rfl
    | ok s1 => simp only [ih s1, bind, Except.bind]

/-! ### the arms of `tick` -/

theorem tick_m2_idle (s : State) (hm : s.mode = .m2) (hd : s.dots + 4 < 80) :
    tick s vram oam = .ok { s with dots := s.dots + 4 } := by
  have : ¬ (s.dots + 4 ≥ 80) := by omega
  simp only [tick, hm, this, if_false, pure, Except.pure]

theorem tick_m2_last (s : State) (hm : s.mode = .m2) (hd : s.dots + 4 ≥ 80) :
    tick s vram oam = enterMode3 { s with dots := s.dots + 4 - 80, mode := .m3 } vram := by
  simp only [tick, hm, hd, if_true]

theorem tick_m3_draw (s : State) (hm : s.mode = .m3) (hd : s.dots + 4 ≤ 160) (hl : s.line < 144) :
    tick s vram oam = drawStep { s with dots := s.dots + 4 } vram s.dots := by
  have h1 : ¬ (s.dots + 4 ≥ 188) := by omega
  have h2 : s.dots + 4 ≤ 160 ∧ s.line < 144 := ⟨hd, hl⟩
  simp only [tick, hm, h1, h2, and_self, if_true, if_false]

theorem tick_m3_idle (s : State) (hm : s.mode = .m3) (h1 : 160 < s.dots + 4) (h2 : s.dots + 4 < 188) :
    tick s vram oam = .ok { s with dots := s.dots + 4 } := by
  have h1' : ¬ (s.dots + 4 ≥ 188) := by omega
  have h2' : ¬ (s.dots + 4 ≤ 160 ∧ s.line < 144) := by omega
  simp only [tick, hm, h1', h2', if_false, pure, Except.pure]

theorem tick_m3_last (s : State) (hm : s.mode = .m3) (h1 : s.dots + 4 ≥ 188) :
    tick s vram oam = .ok { s with dots := s.dots + 4 - 188, mode := .m0 } := by
  simp only [tick, hm, h1, if_true, pure, Except.pure]

theorem tick_m0_idle (s : State) (hm : s.mode = .m0) (h1 : s.dots + 4 < 188) :
    tick s vram oam = .ok { s with dots := s.dots + 4 } := by
  have h1' : ¬ (s.dots + 4 ≥ 188) := by omega
  simp only [tick, hm, h1', if_false, pure, Except.pure]

theorem tick_m1_idle (s : State) (hm : s.mode = .m1) (h1 : s.dots + 4 < 456) :
    tick s vram oam = .ok { s with dots := s.dots + 4 } := by
  have h1' : ¬ (s.dots + 4 ≥ 456) := by omega
  simp only [tick, hm, h1', if_false, pure, Except.pure]

/-- ticks that only advance the dot counter -/
def Idle (m : Mode) (d : Nat) : Prop :=
  (m = .m2 ∧ d + 4 < 80) ∨ (m = .m3 ∧ 160 < d + 4 ∧ d + 4 < 188) ∨ (m = .m0 ∧ d + 4 < 188) ∨ (m = .m1 ∧ d + 4 < 456)

theorem tick_idle (s : State) (h : Idle s.mode s.dots) : tick s vram oam = .ok { s with dots := s.dots + 4 } := by
  rcases h with ⟨hm, h⟩ | ⟨hm, h1, h2⟩ | ⟨hm, h⟩ | ⟨hm, h⟩
  · exact tick_m2_idle vram oam s hm h
  · exact tick_m3_idle vram oam s hm h1 h2
  · exact tick_m0_idle vram oam s hm h
  · exact tick_m1_idle vram oam s hm h

theorem runTicks_idle (n : Nat) : ∀ (s : State), (∀ k, k < n → Idle s.mode (s.dots + 4 * k)) →
    runTicks vram oam n s = .ok { s with dots := s.dots + 4 * n } := by
  induction n with
  | zero => intro s _; rfl
  | succ n ih =>
    intro s h
    have h0 := h 0 (by omega)
    simp only [Nat.mul_zero, Nat.add_zero] at h0
    simp only [runTicks, tick_idle vram oam s h0, bind, Except.bind]
    rw [ih]
    · have : s.dots + 4 + 4 * n = s.dots + 4 * (n + 1) := by omega
      simp only [this]
    · intro k hk
      have := h (k + 1) (by omega)
      have e : s.dots + 4 + 4 * k = s.dots + 4 * (k + 1) := by omega
      simp only [e]; exact this

/-! ### mode 2 → 3 set-up -/

/-- window branch of `enterMode3` (first tile drawn is the window's) -/
def enterWin (s : State) : Except Panic State := do
  let firstWindowPixel := 7 - s.cfg.windowX
  let s := { s with nextTileX := 0 }
  let s ← cacheNextWindowTileRow s vram
  pure { s with tileCache := (s.tileCache <<< (firstWindowPixel * 2)) % 65536 }

/-- BG branch of `enterMode3` -/
def enterBg (s : State) : Except Panic State := do
  let s := { s with nextTileX := (s.cfg.scrollX >>> 3) % 32 }
  let s ← cacheNextTileRow s vram
  let fineScrollX := s.cfg.scrollX &&& 7
  pure { s with tileCache := (s.tileCache <<< (fineScrollX * 2)) % 65536 }

theorem enterMode3_eq (s : State) :
    enterMode3 s vram =
      (let useWindow := !(!s.cfg.windowEnabled || decide (s.line < s.cfg.windowY))
       let s1 : State := { s with windowLine := if useWindow then some (s.line - s.cfg.windowY) else none }
       if useWindow && decide (s.cfg.windowX ≤ 7) then enterWin vram s1 else enterBg vram s1) := rfl

theorem enterWin_inv (r : Ppu.Regs) (hr : RegsOk r) (hv : vram.size = 8192) (hvb : IsBytes vram) (ly : Nat)
    (s1 : State) (hc : s1.cfg = Cfg.ofRegs r) (hl : s1.line = ly) (hs : srcWin r ly 0 = true) :
    enterWin vram s1 = .ok { s1 with nextTileX := (tcol r ly 0 + 1) % 32,
                                     tileCache := (trow r vram ly 0 <<< (2 * tpos r ly 0)) % 65536 } := by
  have hle : r.wx ≤ 7 := by
    simp only [srcWin, Bool.and_eq_true, decide_eq_true_eq] at hs; omega
  have hwx : s1.cfg.windowX = r.wx := by rw [hc]; rfl
  have e1 : tpos r ly 0 = 7 - r.wx := by unfold tpos; rw [hs]; simp only [if_true]; omega
  have e2 : tcol r ly 0 = 0 := by unfold tcol; rw [hs]; simp only [if_true]; omega
  have e3 : trow r vram ly 0 = winRowM r vram ly 0 := by unfold trow; rw [hs, e2]; simp only [if_true]
  simp only [enterWin]
  rw [cacheNextWindowTileRow_ok r hr vram hv hvb ({ s1 with nextTileX := 0 } : State) ly hc hl (by show (0:Nat) < 32; omega)]
  rw [e1, e2, e3, hwx, Nat.mul_comm 2]
  simp only [bind, Except.bind, pure, Except.pure]

theorem enterBg_inv (r : Ppu.Regs) (hr : RegsOk r) (hv : vram.size = 8192) (hvb : IsBytes vram) (ly : Nat)
    (s1 : State) (hc : s1.cfg = Cfg.ofRegs r) (hl : s1.line = ly) (hs : srcWin r ly 0 = false) :
    enterBg vram s1 = .ok { s1 with nextTileX := (tcol r ly 0 + 1) % 32,
                                    tileCache := (trow r vram ly 0 <<< (2 * tpos r ly 0)) % 65536 } := by
  have hscx : s1.cfg.scrollX = r.scx := by rw [hc]; rfl
  have e1 : tpos r ly 0 = r.scx &&& 7 := by unfold tpos; rw [hs, and7]; simp
  have e2 : tcol r ly 0 = (r.scx >>> 3) % 32 := by unfold tcol; rw [hs, shr3]; simp
  have e3 : trow r vram ly 0 = bgRowM r vram ly ((r.scx >>> 3) % 32) := by
    unfold trow; rw [hs, e2]; simp only [Bool.false_eq_true, if_false]
  simp only [enterBg]
  rw [cacheNextTileRow_ok r hr vram hv hvb ({ s1 with nextTileX := (s1.cfg.scrollX >>> 3) % 32 } : State) ly hc hl
    (by show (s1.cfg.scrollX >>> 3) % 32 < 32; exact Nat.mod_lt _ (by decide))]
  rw [e1, e2, e3, Nat.mul_comm 2]
  simp only [hscx, bind, Except.bind, pure, Except.pure]

/-- the set-up at the end of mode 2 establishes the loop invariant at pixel 0 -/
theorem enterMode3_inv (r : Ppu.Regs) (hr : RegsOk r) (hv : vram.size = 8192) (hvb : IsBytes vram) (ly : Nat)
    (s0 : State) (hc : s0.cfg = Cfg.ofRegs r) (hl : s0.line = ly) (hw : s0.writing.size = 23040) (hp : s0.objPix = 8) :
    ∃ s', enterMode3 s0 vram = .ok s' ∧ LineInv r vram oam ly s0 0 s' ∧ Pipe r vram ly 0 s' (tpos r ly 0) := by
  have hwe : s0.cfg.windowEnabled = (Cfg.ofRegs r).windowEnabled := by rw [hc]
  have hwy : s0.cfg.windowY = r.wy := by rw [hc]; rfl
  have hwx : s0.cfg.windowX = r.wx := by rw [hc]; rfl
  have huse : (!(!s0.cfg.windowEnabled || decide (s0.line < s0.cfg.windowY))) = active r ly := by
    rw [hwe, hwy, hl]; unfold active
    cases (Cfg.ofRegs r).windowEnabled
    · rfl
    · simp only [Bool.not_true, Bool.false_or, Bool.true_and]
      by_cases h : ly < r.wy
      · have : ¬ r.wy ≤ ly := by omega
        simp [h, this]
      · have : r.wy ≤ ly := by omega
        simp [h, this]
  have hcond : (active r ly && decide (r.wx ≤ 7)) = srcWin r ly 0 := rfl
  rw [enterMode3_eq]
  simp only [huse, hwx, hcond]
  have hwl : (if active r ly = true then some (s0.line - s0.cfg.windowY) else none).isSome = active r ly := by
    cases active r ly <;> rfl
  generalize (if active r ly = true then some (s0.line - s0.cfg.windowY) else none) = wl at hwl
  cases hs : srcWin r ly 0
  · simp only [Bool.false_eq_true, if_false]
    rw [enterBg_inv vram r hr hv hvb ly ({ s0 with windowLine := wl } : State) hc hl hs]
    exact ⟨_, rfl, ⟨hc, hl, hw, rfl, (by show s0.objPix = 8 + 0; rw [hp]), hwl, rfl, rfl, rfl, fun j hj => by omega, fun _ _ => rfl,
      Nat.mod_lt _ (by decide)⟩, ⟨rfl, rfl, rfl⟩⟩
  · simp only [if_true]
    rw [enterWin_inv vram r hr hv hvb ly ({ s0 with windowLine := wl } : State) hc hl hs]
    exact ⟨_, rfl, ⟨hc, hl, hw, rfl, (by show s0.objPix = 8 + 0; rw [hp]), hwl, rfl, rfl, rfl, fun j hj => by omega, fun _ _ => rfl,
      Nat.mod_lt _ (by decide)⟩, ⟨rfl, rfl, rfl⟩⟩

/-! ### the forty drawing steps of a line -/

/-- the mode-3 drawing steps `k, k+1, …` (`n` of them): `previous_dot_count = 4k` -/
def drawSteps : (n k : Nat) → State → Except Panic State
  | 0, _, s => pure s
  | n + 1, k, s => do
    let s ← drawStep s vram (4 * k)
    drawSteps n (k + 1) s

theorem drawSteps_inv (r : Ppu.Regs) (hr : RegsOk r) (hv : vram.size = 8192) (hvb : IsBytes vram) (ly : Nat)
    (hly : ly < 144) (base : State) (hco : CacheOk r vram oam ly base.objCache) :
    ∀ (n k : Nat) (s : State), k + n = 40 → LineInv r vram oam ly base (4 * k) s →
      (4 * k < 160 → ∃ t, Pipe r vram ly (4 * k) s t) →
      ∃ s', drawSteps vram n k s = .ok s' ∧ LineInv r vram oam ly base 160 s' := by
  intro n
  induction n with
  | zero =>
    intro k s hk inv _
    have : 4 * k = 160 := by omega
    rw [this] at inv
    exact ⟨s, rfl, inv⟩
  | succ n ih =>
    intro k s hk inv hp
    obtain ⟨t, pipe⟩ := hp (by omega)
    obtain ⟨s1, h1, inv1, hp1⟩ := drawStep_inv r hr vram oam hv hvb ly hly base hco (4 * k) t s (by omega) inv pipe
    have e : 4 * k + 4 = 4 * (k + 1) := by omega
    rw [e] at inv1 hp1
    obtain ⟨s', h2, inv2⟩ := ih (k + 1) s1 (by omega) inv1 hp1
    exact ⟨s', by simp only [drawSteps, h1, bind, Except.bind]; exact h2, inv2⟩

/-- the same through the machine: forty mode-3 ticks starting with `current_mode_dots = 0` -/
theorem drawTicks_inv (r : Ppu.Regs) (hr : RegsOk r) (hv : vram.size = 8192) (hvb : IsBytes vram) (ly : Nat)
    (hly : ly < 144) :
    ∀ (n k : Nat) (s base : State), k + n = 40 → CacheOk r vram oam ly base.objCache → s.mode = .m3 → s.dots = 4 * k →
      LineInv r vram oam ly base (4 * k) s → (4 * k < 160 → ∃ t, Pipe r vram ly (4 * k) s t) →
      ∃ s', runTicks vram oam n s = .ok s' ∧ LineInv r vram oam ly { base with dots := 160 } 160 s' := by
  intro n
  induction n with
  | zero =>
    intro k s base hk _ _ hd inv _
    have e : 4 * k = 160 := by omega
    rw [e] at inv
    refine ⟨s, rfl, inv.rebase rfl rfl rfl ?_ rfl⟩
    show 160 = base.dots
    rw [← inv.dots, hd, e]
  | succ n ih =>
    intro k s base hk hco hm hd inv hp
    obtain ⟨t, pipe⟩ := hp (by omega)
    have hline : s.line < 144 := by rw [inv.line]; exact hly
    have ht := tick_m3_draw vram oam s hm (by omega) hline
    obtain ⟨s1, h1, inv1, hp1⟩ := drawStep_inv r hr vram oam hv hvb ly hly { base with dots := s.dots + 4 } hco
      (4 * k) t { s with dots := s.dots + 4 } (by omega) (inv.setDots _) (pipe.setDots _)
    have e : 4 * k + 4 = 4 * (k + 1) := by omega
    rw [e] at inv1 hp1
    rw [hd] at ht h1
    have hm1 : s1.mode = .m3 := by rw [inv1.mode]; show base.mode = _; rw [← inv.mode]; exact hm
    have hd1 : s1.dots = 4 * (k + 1) := by rw [inv1.dots]; show s.dots + 4 = _; omega
    obtain ⟨s', h2, inv2⟩ := ih (k + 1) s1 { base with dots := s.dots + 4 } (by omega) hco hm1 hd1 inv1 hp1
    exact ⟨s', by simp only [runTicks, ht, h1, bind, Except.bind]; exact h2, inv2⟩

/-! ### the remaining arms of `tick` -/

theorem tick_m0_next (s : State) (hm : s.mode = .m0) (hd : s.dots + 4 ≥ 188) (hl : s.line < 143) (cache : Array Nat)
    (hf : findCurrentLineSprites s.cfg vram oam (s.line + 1) = .ok cache) :
    tick s vram oam = .ok { s with dots := s.dots + 4 - 188, line := s.line + 1, mode := .m2, objCache := cache, objPix := 8 } := by
  simp only [tick, hm, hd, hl, if_true, hf, bind, Except.bind, pure, Except.pure]

theorem tick_m0_vblank (s : State) (hm : s.mode = .m0) (hd : s.dots + 4 ≥ 188) (hl : ¬ s.line < 143) :
    tick s vram oam = .ok { s with dots := s.dots + 4 - 188, line := 144, mode := .m1,
                                   visible := s.writing, writing := s.visible } := by
  simp only [tick, hm, hd, hl, if_true, if_false, pure, Except.pure]

theorem tick_m1_wrap (s : State) (hm : s.mode = .m1) (hd : s.dots + 4 ≥ 456) (hl : s.line < 153) :
    tick s vram oam = .ok { s with dots := s.dots + 4 - 456, line := s.line + 1 } := by
  simp only [tick, hm, hd, hl, if_true, pure, Except.pure]

theorem tick_m1_last (s : State) (hm : s.mode = .m1) (hd : s.dots + 4 ≥ 456) (hl : ¬ s.line < 153) (cache : Array Nat)
    (hf : findCurrentLineSprites s.cfg vram oam 0 = .ok cache) :
    tick s vram oam = .ok { s with dots := s.dots + 4 - 456, line := 0, mode := .m2, objCache := cache, objPix := 8 } := by
  simp only [tick, hm, hd, hl, if_true, if_false, hf, bind, Except.bind, pure, Except.pure]

theorem runTicks_then (a b : Nat) (s s1 : State) (h : runTicks vram oam a s = .ok s1) :
    runTicks vram oam (a + b) s = runTicks vram oam b s1 := by
  rw [runTicks_add, h]; rfl

theorem runTicks_one (s : State) : runTicks vram oam 1 s = tick s vram oam := by
  simp only [runTicks, bind, Except.bind, pure, Except.pure]
  cases tick s vram oam <;> rfl

end GbVerif.PpuFrame
