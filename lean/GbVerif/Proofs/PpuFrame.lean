import GbVerif.Proofs.PpuLine
/-!
C15: the mode machine around the pixel pipeline — one line (114 ticks) and the frame (144 lines,
buffer swap at VBlank entry).
-/
namespace GbVerif.PpuFrame
open GbVerif.Ppu GbVerif.FrameSpec GbVerif.PpuBits GbVerif.PpuObj GbVerif.PpuSel GbVerif.PpuLine

variable (vram oam : Array Nat)

theorem runTicks_add (a b : Nat) (s : State) :
    runTicks vram oam (a + b) s = (runTicks vram oam a s >>= runTicks vram oam b) := by
  induction a generalizing s with
  | zero => simp [runTicks, pure, Except.pure, bind, Except.bind]
  | succ a ih =>
    have : a + 1 + b = (a + b) + 1 := by omega
    rw [this]
    simp only [runTicks, bind, Except.bind]
    cases tick s vram oam with
    | error e => rfl
    | ok s1 => simp only [ih s1, bind, Except.bind]

/-! ### the arms of `tick` -/

theorem tick_m2_idle (s : State) (hm : s.mode = .m2) (hd : s.dots + 4 < 80) :
    tick s vram oam = .ok { s with dots := s.dots + 4 } := by
  have : ¬ (s.dots + 4 ≥ 80) := by omega
  simp only [tick, hm, this, if_false, pure, Except.pure]

theorem tick_m2_last (s : State) (hm : s.mode = .m2) (hd : s.dots + 4 ≥ 80) :
    tick s vram oam = enterMode3 { s with dots := s.dots + 4 - 80, mode := .m3 } vram := by
  simp only [tick, hm, hd, if_true]

theorem tick_m3_draw (s : State) (hm : s.mode = .m3) (hd : s.dots + 4 ≤ 160) (hl : s.line < 144) :
    tick s vram oam = drawStep { s with dots := s.dots + 4 } vram s.dots := by
  have h1 : ¬ (s.dots + 4 ≥ 188) := by omega
  have h2 : s.dots + 4 ≤ 160 ∧ s.line < 144 := ⟨hd, hl⟩
  simp only [tick, hm, h1, h2, and_self, if_true, if_false]

theorem tick_m3_idle (s : State) (hm : s.mode = .m3) (h1 : 160 < s.dots + 4) (h2 : s.dots + 4 < 188) :
    tick s vram oam = .ok { s with dots := s.dots + 4 } := by
  have h1' : ¬ (s.dots + 4 ≥ 188) := by omega
  have h2' : ¬ (s.dots + 4 ≤ 160 ∧ s.line < 144) := by omega
  simp only [tick, hm, h1', h2', if_false, pure, Except.pure]

theorem tick_m3_last (s : State) (hm : s.mode = .m3) (h1 : s.dots + 4 ≥ 188) :
    tick s vram oam = .ok { s with dots := s.dots + 4 - 188, mode := .m0 } := by
  simp only [tick, hm, h1, if_true, pure, Except.pure]

theorem tick_m0_idle (s : State) (hm : s.mode = .m0) (h1 : s.dots + 4 < 188) :
    tick s vram oam = .ok { s with dots := s.dots + 4 } := by
  have h1' : ¬ (s.dots + 4 ≥ 188) := by omega
  simp only [tick, hm, h1', if_false, pure, Except.pure]

theorem tick_m1_idle (s : State) (hm : s.mode = .m1) (h1 : s.dots + 4 < 456) :
    tick s vram oam = .ok { s with dots := s.dots + 4 } := by
  have h1' : ¬ (s.dots + 4 ≥ 456) := by omega
  simp only [tick, hm, h1', if_false, pure, Except.pure]

/-- ticks that only advance the dot counter -/
def Idle (m : Mode) (d : Nat) : Prop :=
  (m = .m2 ∧ d + 4 < 80) ∨ (m = .m3 ∧ 160 < d + 4 ∧ d + 4 < 188) ∨ (m = .m0 ∧ d + 4 < 188) ∨ (m = .m1 ∧ d + 4 < 456)

theorem tick_idle (s : State) (h : Idle s.mode s.dots) : tick s vram oam = .ok { s with dots := s.dots + 4 } := by
  rcases h with ⟨hm, h⟩ | ⟨hm, h1, h2⟩ | ⟨hm, h⟩ | ⟨hm, h⟩
  · exact tick_m2_idle vram oam s hm h
  · exact tick_m3_idle vram oam s hm h1 h2
  · exact tick_m0_idle vram oam s hm h
  · exact tick_m1_idle vram oam s hm h

theorem runTicks_idle (n : Nat) : ∀ (s : State), (∀ k, k < n → Idle s.mode (s.dots + 4 * k)) →
    runTicks vram oam n s = .ok { s with dots := s.dots + 4 * n } := by
  induction n with
  | zero => intro s _; rfl
  | succ n ih =>
    intro s h
    have h0 := h 0 (by omega)
    simp only [Nat.mul_zero, Nat.add_zero] at h0
    simp only [runTicks, tick_idle vram oam s h0, bind, Except.bind]
    rw [ih]
    · have : s.dots + 4 + 4 * n = s.dots + 4 * (n + 1) := by omega
      simp only [this]
    · intro k hk
      have := h (k + 1) (by omega)
      have e : s.dots + 4 + 4 * k = s.dots + 4 * (k + 1) := by omega
      simp only [e]; exact this

/-! ### the forty drawing steps of a line -/

/-- the mode-3 drawing steps `k, k+1, …` (`n` of them): `previous_dot_count = 4k` -/
def drawSteps : (n k : Nat) → State → Except Panic State
  | 0, _, s => pure s
  | n + 1, k, s => do
    let s ← drawStep s vram (4 * k)
    drawSteps n (k + 1) s

theorem drawSteps_inv (r : Ppu.Regs) (hr : RegsOk r) (hv : vram.size = 8192) (hvb : IsBytes vram) (ly : Nat)
    (hly : ly < 144) (base : State) (hco : CacheOk r vram oam ly base.objCache) :
    ∀ (n k : Nat) (s : State), k + n = 40 → LineInv r vram oam ly base (4 * k) s →
      (4 * k < 160 → ∃ t, Pipe r vram ly (4 * k) s t) →
      ∃ s', drawSteps vram n k s = .ok s' ∧ LineInv r vram oam ly base 160 s' := by
  intro n
  induction n with
  | zero =>
    intro k s hk inv _
    have : 4 * k = 160 := by omega
    rw [this] at inv
    exact ⟨s, rfl, inv⟩
  | succ n ih =>
    intro k s hk inv hp
    obtain ⟨t, pipe⟩ := hp (by omega)
    obtain ⟨s1, h1, inv1, hp1⟩ := drawStep_inv r hr vram oam hv hvb ly hly base hco (4 * k) t s (by omega) inv pipe
    have e : 4 * k + 4 = 4 * (k + 1) := by omega
    rw [e] at inv1 hp1
    obtain ⟨s', h2, inv2⟩ := ih (k + 1) s1 (by omega) inv1 hp1
    exact ⟨s', by simp only [drawSteps, h1, bind, Except.bind]; exact h2, inv2⟩

/-- the same through the machine: forty mode-3 ticks starting with `current_mode_dots = 0` -/
theorem drawTicks_inv (r : Ppu.Regs) (hr : RegsOk r) (hv : vram.size = 8192) (hvb : IsBytes vram) (ly : Nat)
    (hly : ly < 144) :
    ∀ (n k : Nat) (s base : State), k + n = 40 → CacheOk r vram oam ly base.objCache → s.mode = .m3 → s.dots = 4 * k →
      LineInv r vram oam ly base (4 * k) s → (4 * k < 160 → ∃ t, Pipe r vram ly (4 * k) s t) →
      ∃ s', runTicks vram oam n s = .ok s' ∧ LineInv r vram oam ly { base with dots := 160 } 160 s' := by
  intro n
  induction n with
  | zero =>
    intro k s base hk _ _ hd inv _
    have e : 4 * k = 160 := by omega
    rw [e] at inv
    refine ⟨s, rfl, inv.rebase rfl rfl rfl ?_ rfl⟩
    show 160 = base.dots
    rw [← inv.dots, hd, e]
  | succ n ih =>
    intro k s base hk hco hm hd inv hp
    obtain ⟨t, pipe⟩ := hp (by omega)
    have hline : s.line < 144 := by rw [inv.line]; exact hly
    have ht := tick_m3_draw vram oam s hm (by omega) hline
    obtain ⟨s1, h1, inv1, hp1⟩ := drawStep_inv r hr vram oam hv hvb ly hly { base with dots := s.dots + 4 } hco
      (4 * k) t { s with dots := s.dots + 4 } (by omega) (inv.setDots _) (pipe.setDots _)
    have e : 4 * k + 4 = 4 * (k + 1) := by omega
    rw [e] at inv1 hp1
    rw [hd] at ht h1
    have hm1 : s1.mode = .m3 := by rw [inv1.mode]; show base.mode = _; rw [← inv.mode]; exact hm
    have hd1 : s1.dots = 4 * (k + 1) := by rw [inv1.dots]; show s.dots + 4 = _; omega
    obtain ⟨s', h2, inv2⟩ := ih (k + 1) s1 { base with dots := s.dots + 4 } (by omega) hco hm1 hd1 inv1 hp1
    exact ⟨s', by simp only [runTicks, ht, h1, bind, Except.bind]; exact h2, inv2⟩

end GbVerif.PpuFrame
