import GbVerif.Proofs.X86Step
/-
The host stack and the bus under one step of the x86 model: only push / pop / pushf / popf / stores to [rsp+d] touch
the stack, only `call rax` touches the bus.
-/
namespace GbVerif.X86
open GbVerif.JitCycles
variable {β : Type}

theorem stack_set (s : St β) (i : Nat) (v : W) : (set s i v).stack = s.stack := rfl
theorem stack_set8 (s : St β) (r : R8) (v : Nat) : (set8 s r v).stack = s.stack := by cases r <;> rfl
theorem stack_setSz (s : St β) (sz : Size) (i v : Nat) : (setSz s sz i v).stack = s.stack := by cases sz <;> rfl
theorem bus_set (s : St β) (i : Nat) (v : W) : (set s i v).bus = s.bus := rfl
theorem bus_set8 (s : St β) (r : R8) (v : Nat) : (set8 s r v).bus = s.bus := by cases r <;> rfl
theorem bus_setSz (s : St β) (sz : Size) (i v : Nat) : (setSz s sz i v).bus = s.bus := by cases sz <;> rfl

/-- a store to `[rsp+off]` replaces slot `off / 8` and nothing else -/
theorem stackWrite_stack {s s' : St β} {off n v : Nat} (h : stackWrite s off n v = .ok s') :
    ∃ w, off / 8 < s.stack.length ∧ s'.stack = s.stack.set (off / 8) w ∧ s'.bus = s.bus := by
  unfold stackWrite at h
  simp only [] at h
  split at h
  · cases h
  · split at h
    · rename_i w hw
      injection h with h; subst h
      refine ⟨_, ?_, rfl, rfl⟩
      rcases Nat.lt_or_ge (off / 8) s.stack.length with h' | h'
      · exact h'
      · rw [List.getElem?_eq_none h'] at hw; cases hw
    · cases h

theorem clobber_stack_bus : ∀ (l : List Nat) (s0 v : St β),
    forIn l s0 (fun i s => (Except.ok (ForInStep.yield (set (nextJunk s).2 i (nextJunk s).1)) : Except Fault _)) = Except.ok v →
    v.stack = s0.stack ∧ v.bus = s0.bus := by
  intro l
  induction l with
  | nil => intro s0 v h; simp only [List.forIn_nil, pure, Except.pure] at h; injection h with h; subst h; exact ⟨rfl, rfl⟩
  | cons i l ih =>
    intro s0 v h
    simp only [List.forIn_cons, bind, Except.bind] at h
    obtain ⟨h1, h2⟩ := ih _ v h
    exact ⟨by rw [h1]; rfl, by rw [h2]; rfl⟩

theorem tail_stack (v : St β) (w : W) : (nextJunk (set (nextJunk v).2 0 w)).2.stack = v.stack := rfl

/-- the helper call leaves the host stack alone -/
theorem callBus_stack (B : Interp.BusOps β) (s s' : St β) (h : callBus B s = .ok s') : s'.stack = s.stack := by
  unfold callBus at h
  simp only [bind, Except.bind, pure, Except.pure] at h
  split at h
  · cases h
  · split at h
    · cases h
    · split at h
      · cases h
      · rename_i v hv
        injection h with h
        obtain ⟨e1, _⟩ := clobber_stack_bus _ _ v hv
        have hr := congrArg St.stack h
        simp only [] at hr
        rw [← hr]
        exact (tail_stack v _).trans e1

/-- instructions that are not push / pop / pushf / popf / store leave the host stack alone -/
theorem step_stack (B : Interp.BusOps β) (s s' : St β) (ins : Instr) (len : Nat) (h : step B s ins len = .ok s')
    (h1 : ∀ r, ins ≠ .push r) (h2 : ∀ r, ins ≠ .pop r) (h3 : ins ≠ .pushf) (h4 : ins ≠ .popf)
    (h5 : ∀ sz b d src, ins ≠ .store sz b d src) (h6 : ∀ b d src, ins ≠ .store8 b d src) : s'.stack = s.stack := by
  cases ins
  all_goals simp only [step] at h
  case callRax =>
    have h' : callBus B ({ s with pc := s.pc + len } : St β) = .ok s' := h
    have := callBus_stack B ({ s with pc := s.pc + len } : St β) s' h'
    exact this
  case alu8 op d src =>
    injection h with h; subst h
    by_cases ho : op = .cmp
    · subst ho; rfl
    · simp only [ho, beq_iff_eq, if_false]; exact stack_set8 _ _ _
  case alu8i op d imm =>
    injection h with h; subst h
    by_cases ho : op = .cmp
    · subst ho; rfl
    · simp only [ho, beq_iff_eq, if_false]; exact stack_set8 _ _ _
  case aluI op sz d imm sx =>
    injection h with h; subst h
    by_cases ho : op = .cmp
    · subst ho; rfl
    · simp only [ho, beq_iff_eq, if_false]; exact stack_setSz _ _ _ _
  case alu op sz d src =>
    injection h with h; subst h
    by_cases ho : op = .cmp
    · subst ho; rfl
    · simp only [ho, beq_iff_eq, if_false]; exact stack_setSz _ _ _ _
  case test8i r imm => injection h with h; subst h; rfl
  case not8 r => injection h with h; subst h; exact stack_set8 _ _ _
  case incdec8 dec r => injection h with h; subst h; exact stack_set8 _ _ _
  case incdec16 dec r => injection h with h; subst h; exact stack_setSz _ _ _ _
  case sh8 op r c => injection h with h; subst h; exact stack_set8 _ _ _
  case sh32 op r c => injection h with h; subst h; exact stack_setSz _ _ _ _
  case mov8 d src => injection h with h; subst h; exact stack_set8 _ _ _
  case mov8i d imm => injection h with h; subst h; exact stack_set8 _ _ _
  case mov sz d src => injection h with h; subst h; exact stack_setSz _ _ _ _
  case movi16 d imm => injection h with h; subst h; exact stack_setSz _ _ _ _
  case movabs d ptr => injection h with h; subst h; exact stack_set _ _ _
  case load sz d base disp =>
    split at h
    · cases hr : stackRead { s with pc := s.pc + len } disp (bitsOf sz / 8) with
      | error e => rw [hr] at h; cases h
      | ok v =>
        rw [hr] at h
        simp only [bind, Except.bind, pure, Except.pure] at h
        injection h with h; subst h
        exact stack_setSz _ _ _ _
    · cases h
  case store sz base disp src => exact absurd rfl (h5 _ _ _ _)
  case store8 base disp src => exact absurd rfl (h6 _ _ _)
  case sete r => injection h with h; subst h; exact stack_set8 _ _ _
  case bt r bit => injection h with h; subst h; rfl
  case push r => exact absurd rfl (h1 _)
  case pop r => exact absurd rfl (h2 _)
  case pushf => exact absurd rfl h3
  case popf => exact absurd rfl h4
  case jcc c rel => injection h with h; subst h; split <;> rfl
  case jmp rel => injection h with h; subst h; rfl
  case nop => injection h with h; subst h; rfl
  case jmpReg r => cases h
  case ret => cases h

/-- instructions other than `call rax` leave the bus alone -/
theorem step_bus (B : Interp.BusOps β) (s s' : St β) (ins : Instr) (len : Nat) (h : step B s ins len = .ok s')
    (hc : ins ≠ .callRax) : s'.bus = s.bus := by
  cases ins
  all_goals simp only [step] at h
  case callRax => exact absurd rfl hc
  case alu8 op d src =>
    injection h with h; subst h
    by_cases ho : op = .cmp
    · subst ho; rfl
    · simp only [ho, beq_iff_eq, if_false]; exact bus_set8 _ _ _
  case alu8i op d imm =>
    injection h with h; subst h
    by_cases ho : op = .cmp
    · subst ho; rfl
    · simp only [ho, beq_iff_eq, if_false]; exact bus_set8 _ _ _
  case aluI op sz d imm sx =>
    injection h with h; subst h
    by_cases ho : op = .cmp
    · subst ho; rfl
    · simp only [ho, beq_iff_eq, if_false]; exact bus_setSz _ _ _ _
  case alu op sz d src =>
    injection h with h; subst h
    by_cases ho : op = .cmp
    · subst ho; rfl
    · simp only [ho, beq_iff_eq, if_false]; exact bus_setSz _ _ _ _
  case test8i r imm => injection h with h; subst h; rfl
  case not8 r => injection h with h; subst h; exact bus_set8 _ _ _
  case incdec8 dec r => injection h with h; subst h; exact bus_set8 _ _ _
  case incdec16 dec r => injection h with h; subst h; exact bus_setSz _ _ _ _
  case sh8 op r c => injection h with h; subst h; exact bus_set8 _ _ _
  case sh32 op r c => injection h with h; subst h; exact bus_setSz _ _ _ _
  case mov8 d src => injection h with h; subst h; exact bus_set8 _ _ _
  case mov8i d imm => injection h with h; subst h; exact bus_set8 _ _ _
  case mov sz d src => injection h with h; subst h; exact bus_setSz _ _ _ _
  case movi16 d imm => injection h with h; subst h; exact bus_setSz _ _ _ _
  case movabs d ptr => injection h with h; subst h; exact bus_set _ _ _
  case load sz d base disp =>
    split at h
    · cases hr : stackRead { s with pc := s.pc + len } disp (bitsOf sz / 8) with
      | error e => rw [hr] at h; cases h
      | ok v =>
        rw [hr] at h
        simp only [bind, Except.bind, pure, Except.pure] at h
        injection h with h; subst h
        exact bus_setSz _ _ _ _
    · cases h
  case store sz base disp src =>
    split at h
    · obtain ⟨_, _, _, e⟩ := stackWrite_stack h; exact e
    · cases h
  case store8 base disp src =>
    split at h
    · obtain ⟨_, _, _, e⟩ := stackWrite_stack h; exact e
    · cases h
  case sete r => injection h with h; subst h; exact bus_set8 _ _ _
  case bt r bit => injection h with h; subst h; rfl
  case push r => injection h with h; subst h; rfl
  case pop r =>
    split at h
    · injection h with h; subst h; exact bus_set _ _ _
    · cases h
  case pushf => injection h with h; subst h; rfl
  case popf =>
    split at h
    · injection h with h; subst h; rfl
    · cases h
  case jcc c rel => injection h with h; subst h; split <;> rfl
  case jmp rel => injection h with h; subst h; rfl
  case nop => injection h with h; subst h; rfl
  case jmpReg r => cases h
  case ret => cases h

end GbVerif.X86
