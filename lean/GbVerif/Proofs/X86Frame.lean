import GbVerif.Model.X86Sem
import GbVerif.Model.JitCycles
/-!
Frame lemmas for the executable x86-64 subset semantics (`Model/X86Sem.lean`): an instruction changes a register only if
it is its destination (`JitCycles.destReg`), `call rax` changes only caller-saved registers.  They make the path analysis
of `JitCycles` a statement about executions of the model (`Proofs/X86Cycles.lean`).
-/
namespace GbVerif.X86
open GbVerif.JitCycles

variable {β : Type}

theorem get_set_ne (s : St β) (i j : Nat) (v : W) (h : i ≠ j) : get (set s i v) j = get s j := by
  unfold get set
  simp only [Array.getD_eq_getD_getElem?]
  rw [Array.getElem?_setIfInBounds_ne h]

theorem get_set8_ne (s : St β) (r : R8) (v j : Nat) (h : r8reg r ≠ j) : get (set8 s r v) j = get s j := by
  cases r <;> simp only [set8] <;> exact get_set_ne _ _ _ _ h

theorem get_setSz_ne (s : St β) (sz : Size) (i v j : Nat) (h : i ≠ j) : get (setSz s sz i v) j = get s j := by
  cases sz <;> simp only [setSz] <;> exact get_set_ne _ _ _ _ h

theorem stackWrite_get {s s' : St β} {off n v : Nat} (h : stackWrite s off n v = .ok s') (j : Nat) : get s' j = get s j := by
  unfold stackWrite at h
  simp only [] at h
  split at h
  · cases h
  · split at h
    · injection h with h; subst h; rfl
    · cases h

/-- **frame**: an instruction other than `call rax` that completes leaves every register except its destination alone -/
theorem step_frame (B : Interp.BusOps β) (s s' : St β) (ins : Instr) (len j : Nat) (h : step B s ins len = .ok s')
    (hc : ins ≠ .callRax) (hd : destReg ins ≠ some j) : get s' j = get s j := by
  cases ins
  case callRax => exact absurd rfl hc
  all_goals simp only [step] at h
  case alu8 op d src =>
    injection h with h; subst h
    by_cases ho : op = .cmp
    · subst ho; rfl
    · have : r8reg d ≠ j := by simpa [destReg, ho] using hd
      simp only [ho, beq_iff_eq, if_false]
      exact get_set8_ne _ _ _ _ this
  case alu8i op d imm =>
    injection h with h; subst h
    by_cases ho : op = .cmp
    · subst ho; rfl
    · have : r8reg d ≠ j := by simpa [destReg, ho] using hd
      simp only [ho, beq_iff_eq, if_false]
      exact get_set8_ne _ _ _ _ this
  case aluI op sz d imm sx =>
    injection h with h; subst h
    by_cases ho : op = .cmp
    · subst ho; rfl
    · have : d ≠ j := by simpa [destReg, ho] using hd
      simp only [ho, beq_iff_eq, if_false]
      exact get_setSz_ne _ _ _ _ _ this
  case alu op sz d src =>
    injection h with h; subst h
    by_cases ho : op = .cmp
    · subst ho; rfl
    · have : d ≠ j := by simpa [destReg, ho] using hd
      simp only [ho, beq_iff_eq, if_false]
      exact get_setSz_ne _ _ _ _ _ this
  case test8i r imm => injection h with h; subst h; rfl
  case not8 r =>
    injection h with h; subst h
    exact get_set8_ne _ _ _ _ (by simpa [destReg] using hd)
  case incdec8 dec r =>
    injection h with h; subst h
    exact get_set8_ne _ _ _ _ (by simpa [destReg] using hd)
  case incdec16 dec r =>
    injection h with h; subst h
    exact get_setSz_ne _ _ _ _ _ (by simpa [destReg] using hd)
  case sh8 op r c =>
    injection h with h; subst h
    exact get_set8_ne _ _ _ _ (by simpa [destReg] using hd)
  case sh32 op r c =>
    injection h with h; subst h
    exact get_setSz_ne _ _ _ _ _ (by simpa [destReg] using hd)
  case mov8 d src =>
    injection h with h; subst h
    exact get_set8_ne _ _ _ _ (by simpa [destReg] using hd)
  case mov8i d imm =>
    injection h with h; subst h
    exact get_set8_ne _ _ _ _ (by simpa [destReg] using hd)
  case mov sz d src =>
    injection h with h; subst h
    exact get_setSz_ne _ _ _ _ _ (by simpa [destReg] using hd)
  case movi16 d imm =>
    injection h with h; subst h
    exact get_setSz_ne _ _ _ _ _ (by simpa [destReg] using hd)
  case movabs d ptr =>
    injection h with h; subst h
    exact get_set_ne _ _ _ _ (by simpa [destReg] using hd)
  case load sz d base disp =>
    split at h
    · cases hr : stackRead { s with pc := s.pc + len } disp (bitsOf sz / 8) with
      | error e => rw [hr] at h; cases h
      | ok v =>
        rw [hr] at h
        simp only [bind, Except.bind, pure, Except.pure] at h
        injection h with h; subst h
        exact get_setSz_ne _ _ _ _ _ (by simpa [destReg] using hd)
    · cases h
  case store sz base disp src =>
    split at h
    · exact stackWrite_get h j
    · cases h
  case store8 base disp src =>
    split at h
    · exact stackWrite_get h j
    · cases h
  case sete r =>
    injection h with h; subst h
    exact get_set8_ne _ _ _ _ (by simpa [destReg] using hd)
  case bt r bit => injection h with h; subst h; rfl
  case push r => injection h with h; subst h; rfl
  case pop r =>
    split at h
    · injection h with h; subst h
      exact get_set_ne _ _ _ _ (by simpa [destReg] using hd)
    · cases h
  case pushf => injection h with h; subst h; rfl
  case popf =>
    split at h
    · injection h with h; subst h; rfl
    · cases h
  case jcc c rel => injection h with h; subst h; split <;> rfl
  case jmp rel => injection h with h; subst h; rfl
  case nop => injection h with h; subst h; rfl
  case jmpReg r => cases h
  case ret => cases h

end GbVerif.X86

namespace GbVerif.X86
variable {β : Type}

theorem get_junk (s : St β) (j : Nat) : get (nextJunk s).2 j = get s j := rfl

theorem get_of_r {s1 s2 : St β} (h : s1.r = s2.r) (j : Nat) : get s1 j = get s2 j := by unfold get; rw [h]

/-- the clobber loop of `call rax` leaves every register outside its list alone -/
theorem clobber_frame (j : Nat) : ∀ (l : List Nat) (s0 v : St β), j ∉ l →
    forIn l s0 (fun i s => (Except.ok (ForInStep.yield (set (nextJunk s).2 i (nextJunk s).1)) : Except Fault _)) = Except.ok v →
    get v j = get s0 j := by
  intro l
  induction l with
  | nil => intro s0 v _ h; simp only [List.forIn_nil, pure, Except.pure] at h; injection h with h; subst h; rfl
  | cons i l ih =>
    intro s0 v hj h
    simp only [List.forIn_cons, bind, Except.bind] at h
    have hi : i ≠ j := fun e => hj (by rw [e]; exact List.mem_cons_self)
    have := ih _ v (fun hm => hj (List.mem_cons_of_mem _ hm)) h
    rw [this, get_set_ne _ _ _ _ hi, get_junk]

theorem tail_frame (v : St β) (w : W) (j : Nat) (h0 : (0 : Nat) ≠ j) :
    ((nextJunk (set (nextJunk v).2 0 w)).2.r).getD j 0 = v.r.getD j 0 := by
  have h1 := get_junk (set (nextJunk v).2 0 w) j
  have h2 := get_set_ne (nextJunk v).2 0 j w h0
  have h3 := get_junk v j
  unfold get at h1 h2 h3
  rw [h1, h2, h3]

theorem callBus_frame (B : Interp.BusOps β) (s s' : St β) (j : Nat) (h : callBus B s = .ok s')
    (hj : j ∉ [0, 1, 2, 6, 7, 8, 9, 10, 11]) : get s' j = get s j := by
  unfold callBus at h
  simp only [bind, Except.bind, pure, Except.pure] at h
  split at h
  · cases h
  · split at h
    · cases h
    · rename_i x hx
      split at h
      · cases h
      · rename_i v hv
        injection h with h
        have h0 : (0 : Nat) ≠ j := fun e => hj (by rw [← e]; exact List.mem_cons_self)
        have hl : j ∉ [1, 2, 6, 7, 8, 9, 10, 11] := fun hm => hj (List.mem_cons_of_mem _ hm)
        have hv' := clobber_frame j _ _ v hl hv
        have hr := congrArg St.r h
        simp only [] at hr
        unfold get at hv' ⊢
        rw [← hr]
        exact (tail_frame v _ j h0).trans hv'

end GbVerif.X86
