import GbVerif.Proofs.BusWf
/-!
OAM-DMA lemmas over the bus model: one copy step in closed form, the copy loop (what is copied, what is left
alone), and batch additivity of `runDma`.
-/
namespace GbVerif.BusProofs
open GbVerif.Bus

/-- rewrite `read s' a` and `read s a` with the ladder lemma of the region `a` is known (by `omega`) to lie in -/
syntax "read_both " term:max term:max term:max : tactic
macro_rules
  | `(tactic| read_both $s' $s $a) => `(tactic| first
    | rw [read_rom0 $s' $a (by omega), read_rom0 $s $a (by omega)]
    | rw [read_romx $s' $a (by omega) (by omega), read_romx $s $a (by omega) (by omega)]
    | rw [read_vram $s' $a (by omega) (by omega), read_vram $s $a (by omega) (by omega)]
    | rw [read_cram $s' $a (by omega) (by omega), read_cram $s $a (by omega) (by omega)]
    | rw [read_wram0 $s' $a (by omega) (by omega), read_wram0 $s $a (by omega) (by omega)]
    | rw [read_wramx $s' $a (by omega) (by omega), read_wramx $s $a (by omega) (by omega)]
    | rw [read_echo $s' $a (by omega) (by omega), read_echo $s $a (by omega) (by omega)]
    | rw [read_oam $s' $a (by omega) (by omega), read_oam $s $a (by omega) (by omega)]
    | rw [read_unused $s' $a (by omega) (by omega), read_unused $s $a (by omega) (by omega)]
    | rw [read_io $s' $a (by omega) (by omega), read_io $s $a (by omega) (by omega)]
    | rw [read_hram $s' $a (by omega) (by omega), read_hram $s $a (by omega) (by omega)]
    | rw [read_ie $s' $a (by omega), read_ie $s $a (by omega)])

theorem read_set_dma (s : State) (d : Option (Nat × Nat)) (a : Nat) : read { s with dma := d } a = read s a := rfl

theorem wf_set_oam {s : State} (wf : WF s) (x : Array Nat) (hx : x.size = s.oam.size) : WF { s with oam := x } :=
  ⟨wf.1, wf.2, hx.trans wf.3, wf.4, wf.5, wf.6⟩

/-- a write into OAM is seen at no other address (I/O window included) -/
theorem oam_write_frame {s : State} (wf : WF s) (off v : Nat) (a : Nat) (ha : a < 65536) (hne : a ≠ 0xfe00 + off) :
    read { s with oam := s.oam.setIfInBounds off v } a = read s a := by
  by_cases ho : 0xfe00 ≤ a ∧ a < 0xfea0
  · have wf' : WF { s with oam := s.oam.setIfInBounds off v } := wf_set_oam wf _ (by simp)
    rw [read_oam_wf wf' ho.1 ho.2, read_oam_wf wf ho.1 ho.2]
    show Except.ok ((s.oam.setIfInBounds off v).getD (a - 0xfe00) 0) = _
    rw [getD_sib, if_neg (by omega)]
  · rcases regions a ha with h | ⟨h1, h2⟩ | ⟨h1, h2⟩ | ⟨h1, h2⟩ | ⟨h1, h2⟩ | ⟨h1, h2⟩ | ⟨h1, h2⟩ | ⟨h1, h2⟩ | ⟨h1, h2⟩ | ⟨h1, h2⟩ | h
    all_goals first
      | (exfalso; omega)
      | (by_cases hd : a < 0xd000 <;> read_both ({ s with oam := s.oam.setIfInBounds off v }) s a)
      | read_both ({ s with oam := s.oam.setIfInBounds off v }) s a

/-- …and at its own address it reads back -/
theorem oam_write_hit {s : State} (wf : WF s) (off v : Nat) (ho : off < 0xa0) :
    read { s with oam := s.oam.setIfInBounds off v } (0xfe00 + off) = .ok v := by
  have wf' : WF { s with oam := s.oam.setIfInBounds off v } := wf_set_oam wf _ (by simp)
  rw [read_oam_wf wf' (by omega) (by omega)]
  show Except.ok ((s.oam.setIfInBounds off v).getD (0xfe00 + off - 0xfe00) 0) = _
  rw [getD_sib, if_pos ⟨by omega, by rw [wf.oam]; omega⟩]

/-- one DMA step in closed form -/
theorem dmaCopyByte_eq {s : State} (wf : WF s) (source off : Nat) (ho : off < 0xa0) :
    ∃ v, read s ((source + off) % 65536) = .ok v ∧
      dmaCopyByte s source off = .ok { s with oam := s.oam.setIfInBounds off v } := by
  obtain ⟨v, hv⟩ := read_total wf (a := (source + off) % 65536) (Nat.mod_lt _ (by decide))
  refine ⟨v, hv, ?_⟩
  unfold dmaCopyByte
  rw [hv]
  show write s (0xfe00 + off) v = _
  rw [write_oam_wf wf v (by omega) (by omega), show 0xfe00 + off - 0xfe00 = off by omega]

/-- What a run of `n` copy steps does: it ends at offset `off + n`; OAM bytes `off … off+n-1` hold what the
source addresses read in the state *before* the run; every other address (all of memory, the I/O registers, the
rest of OAM) reads as before; every component of the state other than `oam` is untouched. -/
theorem dmaLoop_spec (page : Nat) (hp : page < 256) : ∀ (n : Nat) {s : State} (_ : WF s) (off : Nat), off + n ≤ 0xa0 →
    ∃ o, o.size = s.oam.size ∧ dmaLoop s (page * 256) off n = .ok ({ s with oam := o }, off + n) ∧
      (∀ a, a < 65536 → ¬ (0xfe00 + off ≤ a ∧ a < 0xfe00 + off + n) → read { s with oam := o } a = read s a) ∧
      (∀ i, off ≤ i → i < off + n → read { s with oam := o } (0xfe00 + i) = read s (page * 256 + i))
  | 0, s, _, off, _ => ⟨s.oam, rfl, rfl, fun _ _ _ => rfl, fun i h1 h2 => by omega⟩
  | n+1, s, wf, off, h => by
    obtain ⟨v, hv, hstep⟩ := dmaCopyByte_eq wf (page * 256) off (by omega)
    have wf1 : WF { s with oam := s.oam.setIfInBounds off v } := wf_set_oam wf _ (by simp)
    obtain ⟨o, hsz, hloop, hframe, hcopy⟩ := dmaLoop_spec page hp n wf1 (off + 1) (by omega)
    refine ⟨o, by rw [hsz]; simp, ?_, ?_, ?_⟩
    · unfold dmaLoop; rw [hstep]
      show dmaLoop _ _ (off + 1) n = _
      rw [hloop, show off + 1 + n = off + (n + 1) by omega]
    · intro a ha hout
      have := hframe a ha (by omega)
      exact this.trans (oam_write_frame wf off v a ha (by omega))
    · intro i h1 h2
      by_cases hi : i = off
      · subst hi
        have := hframe (0xfe00 + i) (by omega) (by omega)
        rw [show ({ s with oam := o } : State) = { ({ s with oam := s.oam.setIfInBounds i v } : State) with oam := o } from rfl,
          this, oam_write_hit wf i v (by omega), ← hv, Nat.mod_eq_of_lt (by omega)]
      · have := hcopy i (by omega) (by omega)
        exact this.trans (oam_write_frame wf off v (page * 256 + i) (by omega) (by omega))

/-! ### batch additivity (no well-formedness needed: panics propagate identically) -/

theorem dmaLoop_add (s : State) (source off n1 n2 : Nat) :
    dmaLoop s source off (n1 + n2) = (dmaLoop s source off n1 >>= fun p => dmaLoop p.1 source p.2 n2) := by
  induction n1 generalizing s off with
  | zero => simp only [Nat.zero_add, dmaLoop]; rfl
  | succ n ih =>
    rw [show n + 1 + n2 = (n + n2) + 1 by omega, dmaLoop.eq_2, dmaLoop.eq_2]
    cases h : dmaCopyByte s source off with
    | error e => rfl
    | ok s1 => exact ih s1 (off + 1)

theorem dmaLoop_off (source : Nat) : ∀ (n : Nat) (s : State) (off : Nat) (s' : State) (o : Nat),
    dmaLoop s source off n = .ok (s', o) → o = off + n
  | 0, s, off, s', o, h => by simp only [dmaLoop] at h; injection h with h; injection h with _ h; omega
  | n+1, s, off, s', o, h => by
    unfold dmaLoop at h
    cases h1 : dmaCopyByte s source off with
    | error e => rw [h1] at h; cases h
    | ok s1 =>
      rw [h1] at h
      have := dmaLoop_off source n s1 (off + 1) s' o h
      omega

/-- the copy loop neither reads nor (below offset 160) writes the DMA state -/
theorem dmaCopyByte_set_dma (s : State) (d : Option (Nat × Nat)) (source off : Nat) (ho : off < 0xa0) :
    dmaCopyByte { s with dma := d } source off = (dmaCopyByte s source off >>= fun s' => pure { s' with dma := d }) := by
  unfold dmaCopyByte
  rw [read_set_dma]
  cases read s ((source + off) % 65536) with
  | error e => rfl
  | ok v =>
    show write { s with dma := d } (0xfe00 + off) v = (write s (0xfe00 + off) v >>= fun s' => pure { s' with dma := d })
    rw [write_oam _ _ _ (by omega) (by omega), write_oam _ _ _ (by omega) (by omega)]
    show (wr "oam" s.oam _ v >>= _) = _
    cases wr "oam" s.oam ((0xfe00 + off) &&& 0xff) v with
    | error e => rfl
    | ok x => rfl

theorem dmaLoop_set_dma (d : Option (Nat × Nat)) (source : Nat) : ∀ (n : Nat) (s : State) (off : Nat), off + n ≤ 0xa0 →
    dmaLoop { s with dma := d } source off n =
      (dmaLoop s source off n >>= fun p => pure ({ p.1 with dma := d }, p.2))
  | 0, s, off, _ => rfl
  | n+1, s, off, h => by
    unfold dmaLoop
    rw [dmaCopyByte_set_dma s d source off (by omega)]
    cases dmaCopyByte s source off with
    | error e => rfl
    | ok s1 => exact dmaLoop_set_dma d source n s1 (off + 1) (by omega)

theorem runDma_none {s : State} (h : s.dma = none) (c : Nat) : runDma s c = .ok s := by
  unfold runDma; rw [h]

theorem runDma_some {s : State} {source off : Nat} (h : s.dma = some (source, off)) (c : Nat) :
    runDma s c = (dmaLoop s source off (min (0xa0 - off) (c / 4)) >>= fun p =>
      pure { p.1 with dma := if p.2 < 0xa0 then some (source, p.2) else none }) := by
  unfold runDma; rw [h]

/-- **batch additivity**: two consecutive catch-up batches are one batch of the summed length, when the first is a
whole number of machine cycles (as a relation between results, panics included) -/
theorem runDma_add (s : State) (a b : Nat) (ha : a % 4 = 0) :
    (runDma s a >>= fun s1 => runDma s1 b) = runDma s (a + b) := by
  cases hd : s.dma with
  | none => rw [runDma_none hd, runDma_none hd]; exact runDma_none hd b
  | some p =>
    obtain ⟨source, off⟩ := p
    have hq : (a + b) / 4 = a / 4 + b / 4 := by omega
    rw [runDma_some hd a, runDma_some hd (a + b), hq]
    by_cases ho : 0xa0 ≤ off
    · rw [show min (0xa0 - off) (a / 4) = 0 by omega, show min (0xa0 - off) (a / 4 + b / 4) = 0 by omega]
      simp only [dmaLoop]
      show runDma { s with dma := if off < 0xa0 then some (source, off) else none } b =
        Except.ok { s with dma := if off < 0xa0 then some (source, off) else none }
      rw [if_neg (by omega)]
      exact runDma_none (s := { s with dma := none }) rfl b
    · by_cases hfin : 0xa0 - off ≤ a / 4
      · rw [show min (0xa0 - off) (a / 4) = 0xa0 - off by omega, show min (0xa0 - off) (a / 4 + b / 4) = 0xa0 - off by omega]
        cases hl : dmaLoop s source off (0xa0 - off) with
        | error e => rfl
        | ok q =>
          obtain ⟨s1, o⟩ := q
          have := dmaLoop_off source _ s off s1 o hl
          show runDma { s1 with dma := if o < 0xa0 then some (source, o) else none } b =
            Except.ok { s1 with dma := if o < 0xa0 then some (source, o) else none }
          rw [if_neg (by omega)]
          exact runDma_none (s := { s1 with dma := none }) rfl b
      · rw [show min (0xa0 - off) (a / 4) = a / 4 by omega,
          show min (0xa0 - off) (a / 4 + b / 4) = a / 4 + min (0xa0 - (off + a / 4)) (b / 4) by omega, dmaLoop_add]
        cases hl : dmaLoop s source off (a / 4) with
        | error e => rfl
        | ok q =>
          obtain ⟨s1, o⟩ := q
          have ho' := dmaLoop_off source _ s off s1 o hl
          subst ho'
          show runDma { s1 with dma := if off + a / 4 < 0xa0 then some (source, off + a / 4) else none } b = _
          rw [if_pos (by omega), runDma_some rfl b, dmaLoop_set_dma _ _ _ _ _ (by omega)]
          show _ = (dmaLoop s1 source (off + a / 4) _ >>= _)
          cases dmaLoop s1 source (off + a / 4) (min (0xa0 - (off + a / 4)) (b / 4)) with
          | error e => rfl
          | ok r => rfl

/-- closed form of a batch from a well-formed state: progress, what OAM holds afterwards, what is left alone -/
theorem runDma_spec {s : State} (wf : WF s) (page off : Nat) (hp : page < 256) (hd : s.dma = some (page * 256, off))
    (ho : off ≤ 0xa0) (c : Nat) :
    ∃ o, o.size = s.oam.size ∧
      runDma s c = .ok { s with oam := o, dma := if off + c / 4 < 0xa0 then some (page * 256, off + c / 4) else none } ∧
      (∀ a, a < 65536 → ¬ (0xfe00 + off ≤ a ∧ a < 0xfe00 + min (off + c / 4) 0xa0) → read { s with oam := o } a = read s a) ∧
      (∀ i, off ≤ i → i < min (off + c / 4) 0xa0 → read { s with oam := o } (0xfe00 + i) = read s (page * 256 + i)) := by
  obtain ⟨o, hsz, hloop, hframe, hcopy⟩ := dmaLoop_spec page hp (min (0xa0 - off) (c / 4)) wf off (by omega)
  refine ⟨o, hsz, ?_, ?_, ?_⟩
  · rw [runDma_some hd c, hloop]
    show Except.ok _ = _
    by_cases h : off + c / 4 < 0xa0
    · rw [if_pos h, show off + min (0xa0 - off) (c / 4) = off + c / 4 by omega, if_pos h]
    · rw [if_neg h, if_neg (by omega)]
  · intro a ha hout; exact hframe a ha (by omega)
  · intro i h1 h2; exact hcopy i h1 (by omega)

/-- only a write to 0xFF46 touches the DMA state -/
theorem write_keeps_dma {s s' : State} (wf : WF s) {a v : Nat} (ha : a < 65536) (hne : a ≠ 0xff46)
    (h : write s a v = .ok s') : s'.dma = s.dma := by
  rcases regions a ha with h1 | ⟨h1, h2⟩ | ⟨h1, h2⟩ | ⟨h1, h2⟩ | ⟨h1, h2⟩ | ⟨h1, h2⟩ | ⟨h1, h2⟩ | ⟨h1, h2⟩ | ⟨h1, h2⟩ | ⟨h1, h2⟩ | h1
  · rw [write_rom s a v (by omega)] at h; injection h with h; subst h; rfl
  · rw [write_rom s a v (by omega)] at h; injection h with h; subst h; rfl
  · rw [write_vram_wf wf v h1 h2] at h; injection h with h; subst h; rfl
  · rw [write_cram_wf wf v h1 h2] at h; injection h with h; subst h; rfl
  · rw [write_wram_wf wf v h1 h2] at h; injection h with h; subst h; rfl
  · rw [write_echo s a v h1 h2] at h; injection h with h; subst h; rfl
  · rw [write_oam_wf wf v h1 h2] at h; injection h with h; subst h; rfl
  · rw [write_unused s a v h1 h2] at h; injection h with h; subst h; rfl
  · rw [write_io s a v h1 h2, if_neg (beq_ne hne)] at h; injection h with h; subst h; rfl
  · rw [write_hram_wf wf v h1 h2] at h; injection h with h; subst h; rfl
  · rw [write_ie s a v h1] at h; injection h with h; subst h; rfl

end GbVerif.BusProofs
