import GbVerif.Model.JitWrites
import GbVerif.Proofs.X86Paths
import GbVerif.Proofs.X86Stack
/-
Soundness of the write-count analysis (`JitWrites.trWr`) for executions of the x86 model over a bus that counts its
byte writes (`counted B`, for any bus `B`).
-/
namespace GbVerif.X86
open GbVerif.JitCycles GbVerif.JitPaths GbVerif.JitWrites
variable {β : Type}

/-- any bus, with a counter of its successful byte writes -/
def counted (B : Interp.BusOps β) : Interp.BusOps (β × Nat) :=
  ⟨fun m a => B.read m.1 a, fun m a v => match B.write m.1 a v with | .ok b => .ok (b, m.2 + 1) | .error e => .error e⟩

/-- the bus a helper call leaves behind -/
theorem callBus_bus (B : Interp.BusOps β) (s s' : St β) (h : callBus B s = .ok s') :
    ∃ x, helperCall B s.bus (get s 0).toNat ((get s 6).toNat % 65536) (get s 2).toNat = .ok x ∧ s'.bus = x.2 := by
  unfold callBus at h
  simp only [bind, Except.bind, pure, Except.pure] at h
  split at h
  · cases h
  · split at h
    · cases h
    · rename_i x hx
      split at h
      · cases h
      · rename_i v hv
        injection h with h
        obtain ⟨_, e2⟩ := clobber_stack_bus _ _ v hv
        have hb := congrArg St.bus h
        simp only [] at hb
        refine ⟨x, hx, ?_⟩
        rw [← hb]
        exact e2

theorem counted_write {B : Interp.BusOps β} {m m' : β × Nat} {a v : Nat} (h : (counted B).write m a v = .ok m') : m'.2 = m.2 + 1 := by
  simp only [counted] at h
  cases hw : B.write m.1 a v with
  | error e => rw [hw] at h; cases h
  | ok b => rw [hw] at h; injection h with h; subst h; rfl

/-- number of byte writes of the helper behind pointer token `p` -/
theorem helperCall_count (B : Interp.BusOps β) (m : β × Nat) (p n addr val : Nat) (x : Nat × (β × Nat))
    (hn : helperWrites p = some n) (h : helperCall (counted B) m (ptrVal p).toNat addr val = .ok x) : x.2.2 = m.2 + n := by
  unfold helperWrites at hn
  have hp : p = 513 ∨ p = 514 ∨ p = 515 ∨ p = 516 ∨ p = 517 := by
    by_cases h1 : p = 513; · exact Or.inl h1
    by_cases h2 : p = 514; · exact Or.inr (Or.inl h2)
    by_cases h3 : p = 515; · exact Or.inr (Or.inr (Or.inl h3))
    by_cases h4 : p = 516; · exact Or.inr (Or.inr (Or.inr (Or.inl h4)))
    by_cases h5 : p = 517; · exact Or.inr (Or.inr (Or.inr (Or.inr h5)))
    simp [h1, h2, h3, h4, h5] at hn
  unfold helperCall at h
  simp only [bind, Except.bind, pure, Except.pure] at h
  rcases hp with e | e | e | e | e <;> subst e
  · have : n = 0 := by simpa using hn.symm
    subst this
    rw [if_pos (by decide)] at h
    split at h
    · cases h
    · injection h with h; subst h; rfl
  · have : n = 1 := by simpa using hn.symm
    subst this
    rw [if_neg (by decide), if_pos (by decide)] at h
    split at h
    · cases h
    · rename_i b hb
      injection h with h; subst h
      split at hb
      · rename_i v hw; injection hb with hb; subst hb; exact counted_write hw
      · cases hb
  · have : n = 0 := by simpa using hn.symm
    subst this
    rw [if_neg (by decide), if_neg (by decide), if_pos (by decide)] at h
    split at h
    · cases h
    · split at h
      · cases h
      · injection h with h; subst h; rfl
  · have : n = 2 := by simpa using hn.symm
    subst this
    rw [if_neg (by decide), if_neg (by decide), if_neg (by decide), if_pos (by decide)] at h
    split at h
    · cases h
    · rename_i b hb
      split at h
      · cases h
      · rename_i b2 hb2
        injection h with h; subst h
        have e1 : b.2 = m.2 + 1 := by
          split at hb
          · rename_i v hw; injection hb with hb; subst hb; exact counted_write hw
          · cases hb
        have e2 : b2.2 = b.2 + 1 := by
          split at hb2
          · rename_i v hw; injection hb2 with hb2; subst hb2; exact counted_write hw
          · cases hb2
        show b2.2 = _
        omega
  · have : n = 2 := by simpa using hn.symm
    subst this
    rw [if_neg (by decide), if_neg (by decide), if_neg (by decide), if_neg (by decide), if_pos (by decide)] at h
    split at h
    · cases h
    · rename_i b hb
      split at h
      · cases h
      · rename_i b2 hb2
        injection h with h; subst h
        have e1 : b.2 = m.2 + 1 := by
          split at hb
          · rename_i v hw; injection hb with hb; subst hb; exact counted_write hw
          · cases hb
        have e2 : b2.2 = b.2 + 1 := by
          split at hb2
          · rename_i v hw; injection hb2 with hb2; subst hb2; exact counted_write hw
          · cases hb2
        show b2.2 = _
        omega

/-- the relation carried along a run; `base` = the counter at the start of the template -/
def WrRel (base : Nat) (a : WrSt) (s : St (β × Nat)) : Prop :=
  s.bus.2 = base + a.1 ∧ ∀ p, a.2 = some p → get s 0 = ptrVal p

theorem wr_carries (B : Interp.BusOps β) (base : Nat) : Carries (counted B) trWr (WrRel (β := β) base) where
  pc := by
    intro a s pc' h
    obtain ⟨h1, h2⟩ := h
    exact ⟨h1, h2⟩
  step := by
    intro ins a a' s s1 len hj1 hj2 htr hR hsz hstep
    obtain ⟨hcnt, hrax⟩ := hR
    unfold trWr at htr
    split at htr
    · -- movabs rax, p
      rename_i p
      injection htr with htr; subst htr
      have hb := step_bus (counted B) s s1 _ _ hstep (by intro e; cases e)
      simp only [step] at hstep
      injection hstep with hstep
      refine ⟨by rw [hb]; exact hcnt, ?_⟩
      intro q hq
      injection hq with hq; subst hq
      rw [← hstep]
      exact get_set_eq _ _ _ (by show 0 < s.r.size; omega)
    · -- call rax
      split at htr
      · rename_i p hp
        split at htr
        · rename_i n hn
          injection htr with htr; subst htr
          have h' : callBus (counted B) ({ s with pc := s.pc + len } : St (β × Nat)) = .ok s1 := hstep
          obtain ⟨x, hx, hb⟩ := callBus_bus (counted B) _ s1 h'
          have hr0 : get ({ s with pc := s.pc + len } : St (β × Nat)) 0 = ptrVal p := hrax p hp
          rw [hr0] at hx
          have := helperCall_count B _ p n _ _ x hn hx
          refine ⟨?_, fun q hq => by cases hq⟩
          rw [hb, this]
          show s.bus.2 + n = base + (a.1 + n)
          omega
        · cases htr
      · cases htr
    · -- everything else
      rename_i hmov hcall
      have hb := step_bus (counted B) s s1 _ _ hstep hcall
      split at htr
      · injection htr with htr; subst htr
        exact ⟨by rw [hb]; exact hcnt, fun q hq => by cases hq⟩
      · rename_i hd
        injection htr with htr; subst htr
        have hd' : destReg ins ≠ some 0 := by simpa using hd
        have hfr := step_frame (counted B) s s1 ins _ 0 hstep hcall hd'
        exact ⟨by rw [hb]; exact hcnt, fun q hq => by rw [hfr]; exact hrax q hq⟩

/-- **what `jitWrites` means**: every complete run of the template over a counting bus performs one of the numbers of byte
writes of the analysis -/
theorem jitWrites_sound (B : Interp.BusOps β) (tokens : List Nat) (code : List (Nat × Instr)) (C : List Nat)
    (hdec : decodeCode tokens = some code) (hok : codeOk code (bytesOf tokens) = true) (hC : jitWrites tokens = some C)
    (fr : Nat) (s s' : St (β × Nat)) (hsz : s.r.size = 16) (hpc : s.pc = offAt code (bytesOf tokens) 0)
    (hrun : run (counted B) code (bytesOf tokens) fr s = .ok s') :
    ∃ l ∈ C, s'.bus.2 = s.bus.2 + l := by
  have hR : WrRel (β := β) s.bus.2 (0, none) s := ⟨rfl, fun p hp => by cases hp⟩
  obtain ⟨a', n, hR', hf, hn⟩ := analyse_sound (counted B) trWr (0, none) (fun a => some a.1) _ (wr_carries B s.bus.2)
    tokens code C hdec hok hC fr s s' hsz hpc hR hrun
  injection hf with hf; subst hf
  exact ⟨a'.1, hn, hR'.1⟩

end GbVerif.X86
