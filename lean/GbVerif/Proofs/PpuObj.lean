import GbVerif.Proofs.PpuBits
import GbVerif.Proofs.NatBits
/-!
C15 stage (ii), model side: what `find_current_line_sprites` leaves in the object line cache.
`drawObj` (8-pixel copy) → `sweepObjs` (one `line_x`) → `sweep` (all `line_x`, with the early
exit) → cell-wise "first writer wins" → the first writer is the (X, position)-least object with
an opaque pixel at the cell.
-/
namespace GbVerif.PpuObj
open GbVerif.Ppu GbVerif.FrameSpec GbVerif.PpuBits

/-! ### memories -/

/-- an array seen as the spec's memory function -/
def mem (a : Array Nat) : Mem := fun i => a.getD i 0

theorem rd_ok (a : Array Nat) (i : Nat) (h : i < a.size) : rd a i = .ok (mem a i) := by
  simp [rd, mem, Array.getD, h]

theorem wr_ok (a : Array Nat) (i v : Nat) (h : i < a.size) : wr a i v = .ok (a.set! i v) := by
  simp [wr, h]

theorem mem_set! (a : Array Nat) (i v j : Nat) (h : i < a.size) :
    mem (a.set! i v) j = if j = i then v else mem a j := by
  unfold mem
  rw [Array.set!_eq_setIfInBounds, Array.getD_eq_getD_getElem?, Array.getD_eq_getD_getElem?,
    Array.getElem?_setIfInBounds]
  by_cases hji : j = i
  · subst hji; simp [h]
  · have : ¬ i = j := fun e => hji e.symm
    simp [this, hji]

theorem size_set! (a : Array Nat) (i v : Nat) : (a.set! i v).size = a.size := by
  rw [Array.set!_eq_setIfInBounds, Array.size_setIfInBounds]

theorem mem_replicate (n c : Nat) : mem (Array.replicate n 0) c = 0 := by
  unfold mem
  rw [Array.getD_eq_getD_getElem?, Array.getElem?_replicate]
  split <;> rfl

/-! ### one object, one cell -/

/-- colour index object `o` has at cache index `c` (0: not covering, or transparent) -/
def pixAt (o : Obj) (c : Nat) : Nat :=
  if o.xCoord ≤ c ∧ c < o.xCoord + 8 then shiftedOut o.rowData (c - o.xCoord) else 0

/-- the byte the sweep writes for object `o` at cell `c` -/
def objByte (o : Obj) (c : Nat) : Nat :=
  0x80 ||| (if o.hasPriority then 0x40 else 0) ||| ((o.palette <<< 2) % 256) ||| pixAt o c

/-- effect of drawing `o` on the value `v` of cell `c`: written only if not yet `present` -/
def cellStep (c : Nat) (v : Nat) (o : Obj) : Nat :=
  if (v &&& 0x80 == 0) && (pixAt o c != 0) then objByte o c else v

theorem and128_eq_zero (v : Nat) : (v &&& 0x80 == 0) = !v.testBit 7 := by
  rw [NatBits.and_const_mod v 0x80 8 (by decide), NatBits.testBit_mod v 7 8 (by decide)]
  have hv : v % 2^8 < 256 := Nat.mod_lt _ (by decide)
  have all : ∀ w, w < 256 → (w &&& 0x80 == 0) = !w.testBit 7 := by decide +kernel
  exact all _ hv

theorem objByte_present (o : Obj) (c : Nat) : (objByte o c &&& 0x80 == 0) = false := by
  rw [and128_eq_zero]
  simp only [objByte, Nat.testBit_or]
  have : (0x80 : Nat).testBit 7 = true := by decide
  simp [this]

theorem colorIndex_eq (pd : Nat) (h : pd < 65536) : ((pd >>> 14) &&& 3) % 256 = pd / 16384 := by
  rw [Nat.shiftRight_eq_div_pow]
  have h1 : pd / 2 ^ 14 < 4 := by
    have : (2:Nat) ^ 14 = 16384 := by decide
    rw [this]; omega
  have := Nat.and_two_pow_sub_one_eq_mod (pd / 2 ^ 14) 2
  have e : (2:Nat) ^ 2 - 1 = 3 := by decide
  rw [e] at this
  rw [this]
  have : (2:Nat) ^ 14 = 16384 := by decide
  rw [this] at h1 ⊢
  omega

theorem shl_step (row k : Nat) : (((row <<< (2 * k)) % 65536) <<< 2) % 65536 = (row <<< (2 * (k + 1))) % 65536 := by
  rw [Nat.shiftLeft_eq, Nat.shiftLeft_eq, Nat.shiftLeft_eq, Nat.mod_mul_mod]
  have : 2 * (k + 1) = 2 * k + 2 := by omega
  rw [this, Nat.pow_add, Nat.mul_assoc]

/-! ### `drawObj` -/

theorem drawObj_spec (o : Obj) (L : Nat) (hX : o.xCoord = L) (hL : L + 8 ≤ 176) :
    ∀ (n k : Nat) (cache : Array Nat), k + n = 8 → cache.size = 176 →
      ∃ cache', drawObj o L n ((o.rowData <<< (2 * k)) % 65536) cache = .ok cache' ∧ cache'.size = 176 ∧
        ∀ c, mem cache' c = if L + k ≤ c ∧ c < L + 8 then cellStep c (mem cache c) o else mem cache c := by
  intro n
  induction n with
  | zero =>
    intro k cache hk hs
    refine ⟨cache, rfl, hs, ?_⟩
    intro c
    have : ¬ (L + k ≤ c ∧ c < L + 8) := by omega
    simp [this]
  | succ n ih =>
    intro k cache hk hs
    have hoff : L + (7 - n) = L + k := by omega
    have hlt : L + k < cache.size := by omega
    -- the pixel written at this step
    have hpix : ((((o.rowData <<< (2 * k)) % 65536) >>> 14) &&& 3) % 256 = pixAt o (L + k) := by
      rw [colorIndex_eq _ (Nat.mod_lt _ (by decide))]
      unfold pixAt
      have : o.xCoord ≤ L + k ∧ L + k < o.xCoord + 8 := by omega
      rw [if_pos this, hX]
      have : L + k - L = k := by omega
      rw [this]; rfl
    -- the intermediate cache
    let cache1 : Array Nat :=
      if (mem cache (L + k) &&& 0x80 == 0) && (pixAt o (L + k) != 0) then cache.set! (L + k) (objByte o (L + k)) else cache
    have hs1 : cache1.size = 176 := by
      simp only [cache1]; split
      · rw [size_set!]; exact hs
      · exact hs
    have hm1 : ∀ c, mem cache1 c = if c = L + k then cellStep c (mem cache c) o else mem cache c := by
      intro c
      simp only [cache1]
      by_cases hc : c = L + k
      · subst hc
        simp only [if_true, cellStep]
        split
        · rw [mem_set! _ _ _ _ hlt]; simp
        · rfl
      · simp only [hc, if_false]
        split
        · rw [mem_set! _ _ _ _ hlt]; simp [hc]
        · rfl
    obtain ⟨cache', h1, h2, h3⟩ := ih (k + 1) cache1 (by omega) hs1
    refine ⟨cache', ?_, h2, ?_⟩
    · rw [drawObj, hoff, rd_ok _ _ hlt]
      simp only [bind, Except.bind, hpix, shl_step]
      rw [← h1]
      simp only [cache1]
      by_cases hp : (mem cache (L + k) &&& 0x80 == 0) = true
      · simp only [hp, Bool.true_and, if_true]
        by_cases hq : (pixAt o (L + k) != 0) = true
        · simp only [hq, if_true]
          rw [wr_ok _ _ _ hlt]
          rfl
        · simp only [hq]
          rfl
      · simp only [hp, Bool.false_and]
        rfl
    · intro c
      rw [h3 c, hm1 c]
      by_cases hc : c = L + k
      · subst hc
        have h0 : ¬ (L + (k + 1) ≤ L + k ∧ L + k < L + 8) := by omega
        have h' : (L + k ≤ L + k ∧ L + k < L + 8) := by omega
        rw [if_neg h0, if_pos rfl, if_pos h']
      · by_cases hr : L + (k + 1) ≤ c ∧ c < L + 8
        · have h' : L + k ≤ c ∧ c < L + 8 := by omega
          rw [if_pos hr, if_neg hc, if_pos h']
        · have h' : ¬ (L + k ≤ c ∧ c < L + 8) := by omega
          rw [if_neg hr, if_neg hc, if_neg h']

/-- drawing object `o` at its own X: every cell takes one `cellStep` -/
theorem drawObj_cells (o : Obj) (hrow : o.rowData < 65536) (hL : o.xCoord + 8 ≤ 176) (cache : Array Nat)
    (hs : cache.size = 176) :
    ∃ cache', drawObj o o.xCoord 8 o.rowData cache = .ok cache' ∧ cache'.size = 176 ∧
      ∀ c, mem cache' c = cellStep c (mem cache c) o := by
  obtain ⟨cache', h1, h2, h3⟩ := drawObj_spec o o.xCoord rfl hL 8 0 cache rfl hs
  have e : (o.rowData <<< (2 * 0)) % 65536 = o.rowData := by
    simp [Nat.mod_eq_of_lt hrow]
  rw [e] at h1
  refine ⟨cache', h1, h2, ?_⟩
  intro c
  rw [h3 c]
  by_cases hc : o.xCoord + 0 ≤ c ∧ c < o.xCoord + 8
  · rw [if_pos hc]
  · rw [if_neg hc]
    have : pixAt o c = 0 := by
      unfold pixAt
      have : ¬ (o.xCoord ≤ c ∧ c < o.xCoord + 8) := by omega
      simp [this]
    simp [cellStep, this]

/-! ### `sweepObjs`: one `line_x` -/

/-- the objects of the working set that start at `L`, in order -/
def drawnAt (L : Nat) : List (Option Obj) → List Obj
  | [] => []
  | none :: r => drawnAt L r
  | some o :: r => if o.xCoord != L then drawnAt L r else o :: drawnAt L r

/-- the working set after `line_x = L`: the objects drawn there are taken out -/
def restAt (L : Nat) : List (Option Obj) → List (Option Obj)
  | [] => []
  | none :: r => none :: restAt L r
  | some o :: r => if o.xCoord != L then some o :: restAt L r else none :: restAt L r

def RowsOk (cur : List (Option Obj)) : Prop := ∀ o, some o ∈ cur → o.rowData < 65536

theorem sweepObjs_spec (L : Nat) (hL : L + 8 ≤ 176) :
    ∀ (cur : List (Option Obj)) (cache : Array Nat) (d : Nat), RowsOk cur → cache.size = 176 →
      ∃ cache', sweepObjs L cur cache d = .ok (restAt L cur, cache', d + (drawnAt L cur).length) ∧
        cache'.size = 176 ∧ ∀ c, mem cache' c = (drawnAt L cur).foldl (cellStep c) (mem cache c) := by
  intro cur
  induction cur with
  | nil => intro cache d _ hs; exact ⟨cache, rfl, hs, fun _ => rfl⟩
  | cons h r ih =>
    intro cache d hrow hs
    have hrow' : RowsOk r := fun o ho => hrow o (List.mem_cons_of_mem _ ho)
    cases h with
    | none =>
      obtain ⟨cache', h1, h2, h3⟩ := ih cache d hrow' hs
      refine ⟨cache', ?_, h2, h3⟩
      simp only [sweepObjs, h1, bind, Except.bind, pure, Except.pure, restAt, drawnAt]
    | some o =>
      by_cases hx : (o.xCoord != L) = true
      · obtain ⟨cache', h1, h2, h3⟩ := ih cache d hrow' hs
        refine ⟨cache', ?_, h2, ?_⟩
        · simp only [sweepObjs, hx, if_true, h1, bind, Except.bind, pure, Except.pure, restAt, drawnAt]
        · simp only [drawnAt, hx, if_true]; exact h3
      · have hxe : o.xCoord = L := by simpa using hx
        have hro : o.rowData < 65536 := hrow o (List.mem_cons_self ..)
        obtain ⟨cache1, g1, g2, g3⟩ := drawObj_cells o hro (by omega) cache hs
        obtain ⟨cache', h1, h2, h3⟩ := ih cache1 (d + 1) hrow' g2
        refine ⟨cache', ?_, h2, ?_⟩
        · rw [hxe] at g1
          simp only [sweepObjs, hx, g1, h1, bind, Except.bind, pure, Except.pure, restAt, drawnAt]
          simp only [Bool.false_eq_true, if_false, List.length_cons]
          congr 3; omega
        · intro c
          simp only [drawnAt, hx, Bool.false_eq_true, if_false, List.foldl_cons]
          rw [h3 c, g3 c]

/-! ### `sweep`: all `line_x`, early exit when every object has been drawn -/

/-- working set when `line_x = L` is reached -/
def curAt (objs : List Obj) (L : Nat) : List (Option Obj) :=
  objs.map fun o => if o.xCoord < L then none else some o

def startsAt (L : Nat) (o : Obj) : Bool := o.xCoord == L

theorem drawnAt_curAt (objs : List Obj) (L : Nat) : drawnAt L (curAt objs L) = objs.filter (startsAt L) := by
  induction objs with
  | nil => rfl
  | cons o r ih =>
    simp only [curAt, List.map_cons] at ih ⊢
    by_cases h1 : o.xCoord < L
    · have : startsAt L o = false := by simp [startsAt]; omega
      simp only [h1, if_true, drawnAt, List.filter_cons, this]
      exact ih
    · by_cases h2 : o.xCoord = L
      · have : startsAt L o = true := by simp [startsAt, h2]
        simp only [h1, if_false, drawnAt, List.filter_cons, this, if_true]
        have : (o.xCoord != L) = false := by simp [h2]
        simp only [this, Bool.false_eq_true, if_false, ih]
      · have : startsAt L o = false := by simp [startsAt, h2]
        simp only [h1, if_false, drawnAt, List.filter_cons, this]
        have : (o.xCoord != L) = true := by simp [h2]
        simp only [this, if_true, Bool.false_eq_true, if_false, ih]

theorem restAt_curAt (objs : List Obj) (L : Nat) : restAt L (curAt objs L) = curAt objs (L + 1) := by
  induction objs with
  | nil => rfl
  | cons o r ih =>
    simp only [curAt, List.map_cons] at ih ⊢
    by_cases h1 : o.xCoord < L
    · have h1' : o.xCoord < L + 1 := by omega
      simp only [h1, h1', if_true, restAt, ih]
    · by_cases h2 : o.xCoord = L
      · have h1' : o.xCoord < L + 1 := by omega
        have : (o.xCoord != L) = false := by simp [h2]
        simp only [h1, h1', if_false, if_true, restAt, this, Bool.false_eq_true, ih]
      · have h1' : ¬ o.xCoord < L + 1 := by omega
        have : (o.xCoord != L) = true := by simp [h2]
        simp only [h1, h1', if_false, if_true, restAt, this, ih]

/-- number of objects drawn before `line_x = L` -/
def cntAt (objs : List Obj) (L : Nat) : Nat := (objs.filter fun o => decide (o.xCoord < L)).length

theorem cntAt_succ (objs : List Obj) (L : Nat) :
    cntAt objs (L + 1) = cntAt objs L + (objs.filter (startsAt L)).length := by
  induction objs with
  | nil => rfl
  | cons o r ih =>
    simp only [cntAt, List.filter_cons] at ih ⊢
    by_cases h1 : o.xCoord < L
    · have h1' : o.xCoord < L + 1 := by omega
      have : startsAt L o = false := by simp [startsAt]; omega
      simp only [h1, h1', decide_true, if_true, this, Bool.false_eq_true, if_false, List.length_cons, ih]; omega
    · by_cases h2 : o.xCoord = L
      · have h1' : o.xCoord < L + 1 := by omega
        have : startsAt L o = true := by simp [startsAt, h2]
        simp only [h1, h1', decide_true, decide_false, if_true, this, Bool.false_eq_true, if_false, List.length_cons, ih]; omega
      · have h1' : ¬ o.xCoord < L + 1 := by omega
        have : startsAt L o = false := by simp [startsAt, h2]
        simp only [h1, h1', decide_false, this, Bool.false_eq_true, if_false, ih]

theorem rowsOk_curAt (objs : List Obj) (h : ∀ o ∈ objs, o.rowData < 65536) (L : Nat) : RowsOk (curAt objs L) := by
  intro o ho
  simp only [curAt, List.mem_map] at ho
  obtain ⟨o', ho', e⟩ := ho
  split at e
  · cases e
  · cases e; exact h _ ho'

/-- the order in which the sweep draws: by `line_x`, within one `line_x` in list order -/
def order (objs : List Obj) (L n : Nat) : List Obj :=
  (List.range' L n).flatMap fun L' => objs.filter (startsAt L')

theorem sweep_spec (objs : List Obj) (hrow : ∀ o ∈ objs, o.rowData < 65536) :
    ∀ (fuel L : Nat) (cache : Array Nat), L + fuel = 168 → cache.size = 176 →
      ∃ cache', sweep objs.length fuel L (curAt objs L) cache (cntAt objs L) = .ok cache' ∧ cache'.size = 176 ∧
        ∀ c, mem cache' c = (order objs L fuel).foldl (cellStep c) (mem cache c) := by
  intro fuel
  induction fuel with
  | zero => intro L cache _ hs; exact ⟨cache, rfl, hs, fun _ => rfl⟩
  | succ fuel ih =>
    intro L cache hL hs
    by_cases hd : cntAt objs L < objs.length
    · obtain ⟨cache1, g1, g2, g3⟩ := sweepObjs_spec L (by omega) (curAt objs L) cache (cntAt objs L)
        (rowsOk_curAt objs hrow L) hs
      rw [restAt_curAt, drawnAt_curAt, ← cntAt_succ] at g1
      rw [drawnAt_curAt] at g3
      obtain ⟨cache', h1, h2, h3⟩ := ih (L + 1) cache1 (by omega) g2
      refine ⟨cache', ?_, h2, ?_⟩
      · have hc : L < 168 ∧ cntAt objs L < objs.length := ⟨by omega, hd⟩
        simp only [sweep, hc, and_self, if_true, g1, bind, Except.bind, h1]
      · intro c
        rw [h3 c, g3 c]
        simp only [order, List.range'_succ, List.flatMap_cons, List.foldl_append]
    · refine ⟨cache, ?_, hs, ?_⟩
      · have hc : ¬ (L < 168 ∧ cntAt objs L < objs.length) := fun h => hd h.2
        simp only [sweep, hc, if_false]; rfl
      · intro c
        -- every object starts before `L`: nothing is left to draw
        have hall : ∀ o ∈ objs, decide (o.xCoord < L) = true := by
          have hle : (objs.filter fun o => decide (o.xCoord < L)).length ≤ objs.length := List.length_filter_le _ _
          have : (objs.filter fun o => decide (o.xCoord < L)).length = objs.length := by
            unfold cntAt at hd; omega
          exact List.length_filter_eq_length_iff.mp this
        have : order objs L (fuel + 1) = [] := by
          unfold order
          rw [List.flatMap_eq_nil_iff]
          intro L' hL'
          rw [List.filter_eq_nil_iff]
          intro o ho
          have := hall o ho
          have h2 := (List.mem_range'_1.mp hL').1
          simp only [decide_eq_true_eq] at this
          simp [startsAt]; omega
        rw [this]; rfl

/-! ### one cell: the first writer wins -/

def opaqueAt (c : Nat) (o : Obj) : Bool := pixAt o c != 0

theorem cellFold_present (c : Nat) (P : List Obj) (v : Nat) (hv : (v &&& 0x80 == 0) = false) :
    P.foldl (cellStep c) v = v := by
  induction P with
  | nil => rfl
  | cons o r ih => simp only [List.foldl_cons, cellStep, hv, Bool.false_and, Bool.false_eq_true, if_false, ih]

theorem cellFold_spec (c : Nat) (P : List Obj) (v : Nat) (hv : (v &&& 0x80 == 0) = true) :
    P.foldl (cellStep c) v = match P.find? (opaqueAt c) with
      | none => v
      | some o => objByte o c := by
  induction P with
  | nil => rfl
  | cons o r ih =>
    by_cases ho : opaqueAt c o = true
    · have : cellStep c v o = objByte o c := by
        have ho' : (pixAt o c != 0) = true := ho
        simp only [cellStep, hv, ho', Bool.and_self, if_true]
      simp only [List.foldl_cons, this, List.find?_cons, ho]
      exact cellFold_present c r _ (objByte_present o c)
    · have ho' : (pixAt o c != 0) = false := by simpa [opaqueAt] using ho
      have : cellStep c v o = v := by
        simp only [cellStep, hv, ho', Bool.and_false, Bool.false_eq_true, if_false]
      have ho2 : opaqueAt c o = false := by simpa using ho
      simp only [List.foldl_cons, this, List.find?_cons, ho2]
      exact ih

/-! ### the first writer is the (X, position)-least opaque object -/

/-- position `p` holds the object that wins cell `c`: opaque there, and every other object that is
opaque there has a larger X, or the same X and a later (or the same) position -/
def IsBest (objs : List Obj) (c p : Nat) : Prop :=
  ∃ hp : p < objs.length, opaqueAt c objs[p] = true ∧
    ∀ q (hq : q < objs.length), opaqueAt c objs[q] = true →
      objs[p].xCoord < objs[q].xCoord ∨ (objs[p].xCoord = objs[q].xCoord ∧ p ≤ q)

/-- state of the search after the rows `0 .. L-1` -/
def FoundUpTo (objs : List Obj) (c L : Nat) : Option Obj → Prop
  | none => ∀ q (hq : q < objs.length), objs[q].xCoord < L → opaqueAt c objs[q] = false
  | some o => ∃ p, ∃ hp : p < objs.length, objs[p] = o ∧ opaqueAt c o = true ∧ o.xCoord < L ∧
      ∀ q (hq : q < objs.length), objs[q].xCoord < L → opaqueAt c objs[q] = true →
        o.xCoord < objs[q].xCoord ∨ (o.xCoord = objs[q].xCoord ∧ p ≤ q)

theorem order_find (objs : List Obj) (c : Nat) :
    ∀ L, FoundUpTo objs c L ((order objs 0 L).find? (opaqueAt c)) := by
  intro L
  induction L with
  | zero =>
    simp only [order, List.range'_zero, List.flatMap_nil, List.find?_nil, FoundUpTo]
    intro q hq h; omega
  | succ L ih =>
    have e : order objs 0 (L + 1) = order objs 0 L ++ objs.filter (startsAt L) := by
      simp only [order, List.range'_concat, List.flatMap_append, List.flatMap_singleton]
      simp
    rw [e, List.find?_append]
    cases hf : (order objs 0 L).find? (opaqueAt c) with
    | some o =>
      rw [hf] at ih
      obtain ⟨p, hp, h1, h2, h3, h4⟩ := ih
      simp only [Option.some_or]
      refine ⟨p, hp, h1, h2, by omega, ?_⟩
      intro q hq hx hop
      by_cases hx' : objs[q].xCoord < L
      · exact h4 q hq hx' hop
      · left; omega
    | none =>
      rw [hf] at ih
      simp only [FoundUpTo] at ih
      rw [Option.none_or, List.find?_filter]
      cases hg : objs.find? (fun a => decide (startsAt L a = true ∧ opaqueAt c a = true)) with
      | none =>
        rw [List.find?_eq_none] at hg
        intro q hq hx
        by_cases hx' : objs[q].xCoord < L
        · exact ih q hq hx'
        · have := hg objs[q] (List.getElem_mem hq)
          have hs : startsAt L objs[q] = true := by simp [startsAt]; omega
          simp only [hs, true_and, decide_eq_true_eq] at this
          simpa using this
      | some o =>
        rw [List.find?_eq_some_iff_getElem] at hg
        obtain ⟨hpo, p, hp, hpe, hbefore⟩ := hg
        simp only [decide_eq_true_eq] at hpo
        have hoX : o.xCoord = L := by have := hpo.1; simpa [startsAt] using this
        refine ⟨p, hp, hpe, hpo.2, by omega, ?_⟩
        intro q hq hx hop
        by_cases hx' : objs[q].xCoord < L
        · have := ih q hq hx'
          rw [this] at hop; cases hop
        · right
          refine ⟨by omega, ?_⟩
          by_cases hqp : q < p
          · have := hbefore q hqp
            have hs : startsAt L objs[q] = true := by simp [startsAt]; omega
            simp [hs, hop] at this
          · omega

/-- what `sweep` leaves in cell `c < 168` of a clean cache: 0 if no object has an opaque pixel
there, otherwise the byte of the (X, position)-least object that has one -/
theorem sweep_winner (objs : List Obj) (hrow : ∀ o ∈ objs, o.rowData < 65536) :
    ∃ cache', sweep objs.length 168 0 (objs.map some) (Array.replicate 176 0) 0 = .ok cache' ∧ cache'.size = 176 ∧
      ∀ c, c < 168 →
        (mem cache' c = 0 ∧ ∀ q (hq : q < objs.length), opaqueAt c objs[q] = false) ∨
        (∃ p, IsBest objs c p ∧ ∃ hp : p < objs.length, mem cache' c = objByte objs[p] c) := by
  obtain ⟨cache', h1, h2, h3⟩ := sweep_spec objs hrow 168 0 (Array.replicate 176 0) rfl (by simp)
  have e1 : curAt objs 0 = objs.map some := by simp [curAt]
  have e2 : cntAt objs 0 = 0 := by simp [cntAt]
  rw [e1, e2] at h1
  refine ⟨cache', h1, h2, ?_⟩
  intro c hc
  rw [h3 c, mem_replicate, cellFold_spec c _ 0 (by decide)]
  have hF := order_find objs c 168
  -- an opaque pixel at `c < 168` belongs to an object with X ≤ c
  have hX : ∀ q (hq : q < objs.length), opaqueAt c objs[q] = true → objs[q].xCoord < 168 := by
    intro q hq hop
    simp only [opaqueAt, pixAt, bne_iff_ne, ne_eq] at hop
    by_cases hcov : objs[q].xCoord ≤ c ∧ c < objs[q].xCoord + 8
    · omega
    · rw [if_neg hcov] at hop; exact absurd rfl hop
  cases hf : (order objs 0 168).find? (opaqueAt c) with
  | none =>
    rw [hf] at hF
    left
    refine ⟨rfl, ?_⟩
    intro q hq
    cases hop : opaqueAt c objs[q] with
    | false => rfl
    | true => have := hF q hq (hX q hq hop); rw [this] at hop; cases hop
  | some o =>
    rw [hf] at hF
    obtain ⟨p, hp, hpe, hop, _, hmin⟩ := hF
    right
    refine ⟨p, ⟨hp, by rw [hpe]; exact hop, ?_⟩, hp, by rw [hpe]⟩
    intro q hq hopq
    rw [hpe]
    exact hmin q hq (hX q hq hopq) hopq

end GbVerif.PpuObj
