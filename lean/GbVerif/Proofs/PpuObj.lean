import GbVerif.Proofs.PpuBits
import GbVerif.Proofs.NatBits
/-!
C15 stage (ii), model side: what `find_current_line_sprites` leaves in the object line cache.
`drawObj` (8-pixel copy) → `sweepObjs` (one `line_x`) → `sweep` (all `line_x`, with the early
exit) → cell-wise "first writer wins" → the first writer is the (X, position)-least object with
an opaque pixel at the cell.
-/
namespace GbVerif.PpuObj
open GbVerif.Ppu GbVerif.FrameSpec GbVerif.PpuBits

/-! ### memories -/

/-- an array seen as the spec's memory function -/
def mem (a : Array Nat) : Mem := fun i => a.getD i 0

theorem rd_ok (a : Array Nat) (i : Nat) (h : i < a.size) : rd a i = .ok (mem a i) := by
  simp [rd, mem, Array.getD, h]

theorem wr_ok (a : Array Nat) (i v : Nat) (h : i < a.size) : wr a i v = .ok (a.set! i v) := by
  simp [wr, h]

theorem mem_set! (a : Array Nat) (i v j : Nat) (h : i < a.size) :
    mem (a.set! i v) j = if j = i then v else mem a j := by
  unfold mem
  rw [Array.set!_eq_setIfInBounds, Array.getD_eq_getD_getElem?, Array.getD_eq_getD_getElem?,
    Array.getElem?_setIfInBounds]
  by_cases hji : j = i
  · subst hji; simp [h]
  · have : ¬ i = j := fun e => hji e.symm
    simp [this, hji]

theorem size_set! (a : Array Nat) (i v : Nat) : (a.set! i v).size = a.size := by
  rw [Array.set!_eq_setIfInBounds, Array.size_setIfInBounds]

theorem mem_replicate (n c : Nat) : mem (Array.replicate n 0) c = 0 := by
  unfold mem
  rw [Array.getD_eq_getD_getElem?, Array.getElem?_replicate]
  split <;> rfl

/-! ### one object, one cell -/

/-- colour index object `o` has at cache index `c` (0: not covering, or transparent) -/
def pixAt (o : Obj) (c : Nat) : Nat :=
  if o.xCoord ≤ c ∧ c < o.xCoord + 8 then shiftedOut o.rowData (c - o.xCoord) else 0

/-- the byte the sweep writes for object `o` at cell `c` -/
def objByte (o : Obj) (c : Nat) : Nat :=
  0x80 ||| (if o.hasPriority then 0x40 else 0) ||| ((o.palette <<< 2) % 256) ||| pixAt o c

/-- effect of drawing `o` on the value `v` of cell `c`: written only if not yet `present` -/
def cellStep (c : Nat) (v : Nat) (o : Obj) : Nat :=
  if (v &&& 0x80 == 0) && (pixAt o c != 0) then objByte o c else v

theorem and128_eq_zero (v : Nat) : (v &&& 0x80 == 0) = !v.testBit 7 := by
  rw [NatBits.and_const_mod v 0x80 8 (by decide), NatBits.testBit_mod v 7 8 (by decide)]
  have hv : v % 2^8 < 256 := Nat.mod_lt _ (by decide)
  generalize v % 2^8 = w at hv
  revert w; decide

theorem objByte_present (o : Obj) (c : Nat) : (objByte o c &&& 0x80 == 0) = false := by
  rw [and128_eq_zero]
  simp only [objByte, Nat.testBit_or]
  have : (0x80 : Nat).testBit 7 = true := by decide
  simp [this]

theorem colorIndex_eq (pd : Nat) (h : pd < 65536) : ((pd >>> 14) &&& 3) % 256 = pd / 16384 := by
  rw [Nat.shiftRight_eq_div_pow]
  have h1 : pd / 2 ^ 14 < 4 := by
    have : (2:Nat) ^ 14 = 16384 := by decide
    rw [this]; omega
  have := Nat.and_two_pow_sub_one_eq_mod (pd / 2 ^ 14) 2
  have e : (2:Nat) ^ 2 - 1 = 3 := by decide
  rw [e] at this
  rw [this]
  have : (2:Nat) ^ 14 = 16384 := by decide
  rw [this] at h1 ⊢
  omega

theorem shl_step (row k : Nat) : (((row <<< (2 * k)) % 65536) <<< 2) % 65536 = (row <<< (2 * (k + 1))) % 65536 := by
  rw [Nat.shiftLeft_eq, Nat.shiftLeft_eq, Nat.shiftLeft_eq, Nat.mod_mul_mod]
  have : 2 * (k + 1) = 2 * k + 2 := by omega
  rw [this, Nat.pow_add, Nat.mul_assoc]

/-! ### `drawObj` -/

theorem drawObj_spec (o : Obj) (L : Nat) (hX : o.xCoord = L) (hL : L + 8 ≤ 176) :
    ∀ (n k : Nat) (cache : Array Nat), k + n = 8 → cache.size = 176 →
      ∃ cache', drawObj o L n ((o.rowData <<< (2 * k)) % 65536) cache = .ok cache' ∧ cache'.size = 176 ∧
        ∀ c, mem cache' c = if L + k ≤ c ∧ c < L + 8 then cellStep c (mem cache c) o else mem cache c := by
  intro n
  induction n with
  | zero =>
    intro k cache hk hs
    refine ⟨cache, rfl, hs, ?_⟩
    intro c
    have : ¬ (L + k ≤ c ∧ c < L + 8) := by omega
    simp [this]
  | succ n ih =>
    intro k cache hk hs
    have hoff : L + (7 - n) = L + k := by omega
    have hlt : L + k < cache.size := by omega
    -- the pixel written at this step
    have hpix : (((o.rowData <<< (2 * k)) % 65536 >>> 14) &&& 3) % 256 = pixAt o (L + k) := by
      rw [colorIndex_eq _ (Nat.mod_lt _ (by decide))]
      unfold pixAt
      have : o.xCoord ≤ L + k ∧ L + k < o.xCoord + 8 := by omega
      rw [if_pos this, hX]
      have : L + k - L = k := by omega
      rw [this]; rfl
    -- the intermediate cache
    let cache1 : Array Nat :=
      if (mem cache (L + k) &&& 0x80 == 0) && (pixAt o (L + k) != 0) then cache.set! (L + k) (objByte o (L + k)) else cache
    have hs1 : cache1.size = 176 := by
      simp only [cache1]; split
      · rw [size_set!]; exact hs
      · exact hs
    have hm1 : ∀ c, mem cache1 c = if c = L + k then cellStep c (mem cache c) o else mem cache c := by
      intro c
      simp only [cache1]
      by_cases hc : c = L + k
      · subst hc
        simp only [if_true, cellStep]
        split
        · rw [mem_set! _ _ _ _ hlt]; simp
        · rfl
      · simp only [hc, if_false]
        split
        · rw [mem_set! _ _ _ _ hlt]; simp [hc]
        · rfl
    obtain ⟨cache', h1, h2, h3⟩ := ih (k + 1) cache1 (by omega) hs1
    refine ⟨cache', ?_, h2, ?_⟩
    · rw [drawObj, hoff, rd_ok _ _ hlt]
      simp only [bind, Except.bind, hpix, shl_step]
      rw [← h1]
      simp only [cache1]
      by_cases hp : (mem cache (L + k) &&& 0x80 == 0) = true
      · simp only [hp, Bool.true_and, if_true]
        by_cases hq : (pixAt o (L + k) != 0) = true
        · simp only [hq, if_true]
          rw [wr_ok _ _ _ hlt]
          rfl
        · simp only [hq]
          rfl
      · simp only [hp, Bool.false_and]
        rfl
    · intro c
      rw [h3 c, hm1 c]
      by_cases hc : c = L + k
      · subst hc
        have : ¬ (L + k + 1 ≤ L + k ∧ L + k < L + 8) := by omega
        have h' : (L + k ≤ L + k ∧ L + k < L + 8) := by omega
        simp [this, h']
      · by_cases hr : L + (k + 1) ≤ c ∧ c < L + 8
        · have h' : L + k ≤ c ∧ c < L + 8 := by omega
          simp [hr, h', hc]
        · have h' : ¬ (L + k ≤ c ∧ c < L + 8) := by omega
          simp [hr, h', hc]

/-- drawing object `o` at its own X: every cell takes one `cellStep` -/
theorem drawObj_cells (o : Obj) (hrow : o.rowData < 65536) (hL : o.xCoord + 8 ≤ 176) (cache : Array Nat)
    (hs : cache.size = 176) :
    ∃ cache', drawObj o o.xCoord 8 o.rowData cache = .ok cache' ∧ cache'.size = 176 ∧
      ∀ c, mem cache' c = cellStep c (mem cache c) o := by
  obtain ⟨cache', h1, h2, h3⟩ := drawObj_spec o o.xCoord rfl hL 8 0 cache rfl hs
  have e : (o.rowData <<< (2 * 0)) % 65536 = o.rowData := by
    simp [Nat.mod_eq_of_lt hrow]
  rw [e] at h1
  refine ⟨cache', h1, h2, ?_⟩
  intro c
  rw [h3 c]
  by_cases hc : o.xCoord + 0 ≤ c ∧ c < o.xCoord + 8
  · simp [hc]
  · rw [if_neg hc]
    have : pixAt o c = 0 := by
      unfold pixAt
      have : ¬ (o.xCoord ≤ c ∧ c < o.xCoord + 8) := by omega
      simp [this]
    simp [cellStep, this]

end GbVerif.PpuObj
