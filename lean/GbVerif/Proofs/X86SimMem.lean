import GbVerif.Proofs.X86SimFlagOps
import GbVerif.Proofs.X86Writes
/-
C01, the bus side: LD r,(HL) for the seven registers.  The template saves rax rcx rdx rbx, calls `memory_read_byte`
with the address in rsi and the memory base in rdi, pokes the result byte into the stack slot of the saved register that
holds `r`, and pops the four registers back.  The interpreter and the template perform the same bus read (same address)
and put the same byte into the same register.
-/
namespace GbVerif.X86
open GbVerif.JitCycles GbVerif.Interp
variable {β : Type}

/-- the helper call: the value returned in the low 16 bits of rax -/
theorem callBus_ret (B : BusOps β) (s s' : St β) (hsz : s.r.size = 16) (h : callBus B s = .ok s') :
    ∃ x, helperCall B s.bus (get s 0).toNat ((get s 6).toNat % 65536) (get s 2).toNat = .ok x ∧ s'.bus = x.2 ∧
      (get s' 0).toNat % 65536 = x.1 % 65536 := by
  unfold callBus at h
  simp only [bind, Except.bind, pure, Except.pure] at h
  split at h
  · cases h
  · split at h
    · cases h
    · rename_i x hx
      split at h
      · cases h
      · rename_i v hv
        injection h with h
        obtain ⟨_, e2⟩ := clobber_stack_bus _ _ v hv
        obtain ⟨z1, _⟩ := clobber_size_pc _ _ v hv
        have hb := congrArg St.bus h
        have hr := congrArg St.r h
        simp only [] at hb hr
        refine ⟨x, hx, by rw [← hb]; exact e2, ?_⟩
        unfold get
        rw [← hr]
        show (get (set (nextJunk v).2 0 _) 0).toNat % 65536 = _
        rw [get_set_eq _ _ _ (by show 0 < v.r.size; rw [z1]; show 0 < s.r.size; omega), BitVec.toNat_ofNat]
        have hj := (nextJunk v).1.isLt
        omega

/-- reads return bytes -/
def ByteReads (B : BusOps β) : Prop := ∀ m a v, B.read m a = .ok v → v < 256

/-- `helperCall` with the byte-read pointer -/
theorem helperCall_read (B : BusOps β) (bus : β) (addr val : Nat) (x : Nat × β)
    (h : helperCall B bus (ptrVal 513).toNat addr val = .ok x) : B.read bus addr = .ok x.1 ∧ x.2 = bus := by
  unfold helperCall at h
  simp only [bind, Except.bind, pure, Except.pure] at h
  rw [if_pos (by decide)] at h
  split at h
  · cases h
  · rename_i v hv
    injection h with h; subst h
    split at hv
    · rename_i w hw; injection hv with hv; subst hv; exact ⟨hw, rfl⟩
    · cases hv

/-- offset of the byte of guest register `r` inside the four saved registers (rbx rdx rcx rax, top first) -/
def pokeOff : Reg8 → Nat
  | .B => 1 | .C => 0 | .D => 9 | .E => 8 | .H => 17 | .L => 16 | .A => 25

def ldBody (addr : Nat) (r : Reg8) : List (Nat × Instr) :=
  [(0, Instr.push 0), (1, Instr.push 1), (2, Instr.push 2), (3, Instr.push 3), (4, Instr.mov Size.q 6 addr), (7, Instr.movabs 7 512),
   (17, Instr.movabs 0 513), (27, Instr.callRax), (29, Instr.store8 4 (pokeOff r) (R8.lo 0)),
   (33, Instr.pop 3), (34, Instr.pop 2), (35, Instr.pop 1), (36, Instr.pop 0)]

def ldHlBody (r : Reg8) : List (Nat × Instr) := ldBody 1 r

def opcodeLdHl (r : Reg8) : Nat := 0x46 + 8 * r8code r

theorem table_ldhl (r : Reg8) (b1 b2 : Nat) :
    decodeCode (Gen.emitOp (opcodeLdHl r)) = some (ldHlBody r ++ [(37, addIp 1), (41, addCy 2)]) ∧
    bytesOf (Gen.emitOp (opcodeLdHl r)) = 45 ∧ Gen.decode (opcodeLdHl r) b1 b2 = (.LoadFromIndirect r .HL, 1, 8) := by
  cases r <;> exact ⟨by decide +kernel, by decide +kernel, rfl⟩

/-- one byte of one slot replaced -/
theorem stackWrite_byte (s s' : St β) (off v : Nat) (w : W) (hj : off % 8 + 1 ≤ 8) (hw : s.stack[off / 8]? = some w)
    (h : stackWrite s off 1 v = .ok s') :
    s' = { s with stack := (List.set s.stack (off / 8) (BitVec.ofNat 64 (w.toNat - (w.toNat / 2 ^ (8 * (off % 8)) % 2 ^ (8 * 1)) * 2 ^ (8 * (off % 8)) + (v % 2 ^ (8 * 1)) * 2 ^ (8 * (off % 8))))) } := by
  unfold stackWrite at h
  simp only [] at h
  rw [if_neg (by omega), hw] at h
  simp only [] at h
  injection h with h
  exact h.symm

/-! ### single steps with the host stack -/

theorem step_push (B : BusOps β) (s s1 : St β) (r len : Nat) (h : step B s (.push r) len = .ok s1) :
    (∀ j, get s1 j = get s j) ∧ s1.stack = get s r :: s.stack ∧ s1.bus = s.bus ∧ s1.r.size = s.r.size := by
  simp only [step] at h
  injection h with h
  subst h
  exact ⟨fun _ => rfl, rfl, rfl, rfl⟩

theorem step_pop (B : BusOps β) (s s1 : St β) (r len : Nat) (hr : r < s.r.size) (h : step B s (.pop r) len = .ok s1) :
    ∃ w rest, s.stack = w :: rest ∧ s1.stack = rest ∧ get s1 r = w ∧ (∀ j, r ≠ j → get s1 j = get s j) ∧
      s1.bus = s.bus ∧ s1.r.size = s.r.size := by
  simp only [step] at h
  split at h
  · rename_i w rest hs
    injection h with h
    subst h
    exact ⟨w, rest, hs, rfl, get_set_eq _ _ _ hr, fun j hj => get_set_ne _ _ _ _ hj, rfl, size_set _ _ _⟩
  · cases h

theorem step_movq (B : BusOps β) (s s1 : St β) (d src len : Nat) (hd : d < s.r.size) (h : step B s (.mov .q d src) len = .ok s1) :
    get s1 d = get s src ∧ (∀ j, d ≠ j → get s1 j = get s j) ∧ s1.stack = s.stack ∧ s1.bus = s.bus ∧ s1.r.size = s.r.size := by
  simp only [step] at h
  injection h with h
  subst h
  refine ⟨?_, fun j hj => get_setSz_ne _ _ _ _ _ hj, stack_setSz _ _ _ _, bus_setSz _ _ _ _, size_setSz _ _ _ _⟩
  show get (set ({ s with pc := s.pc + len } : St β) d (BitVec.ofNat 64 ((get s src).toNat % 2 ^ 64))) d = _
  rw [get_set_eq ({ s with pc := s.pc + len } : St β) d _ hd]
  rw [Nat.mod_eq_of_lt (get s src).isLt]
  exact BitVec.eq_of_toNat_eq (by rw [BitVec.toNat_ofNat]; exact Nat.mod_eq_of_lt (get s src).isLt)

theorem step_movabs (B : BusOps β) (s s1 : St β) (d p len : Nat) (hd : d < s.r.size) (h : step B s (.movabs d p) len = .ok s1) :
    get s1 d = ptrVal p ∧ (∀ j, d ≠ j → get s1 j = get s j) ∧ s1.stack = s.stack ∧ s1.bus = s.bus ∧ s1.r.size = s.r.size := by
  simp only [step] at h
  injection h with h
  subst h
  exact ⟨get_set_eq _ _ _ hd, fun j hj => get_set_ne _ _ _ _ hj, rfl, rfl, size_set _ _ _⟩

/-- the byte-read helper call -/
theorem step_call_read (B : BusOps β) (s s1 : St β) (len : Nat) (hsz : s.r.size = 16) (h0 : get s 0 = ptrVal 513) (h7 : get s 7 = ptrVal 512)
    (h : step B s .callRax len = .ok s1) :
    ∃ v, B.read s.bus ((get s 6).toNat % 65536) = .ok v ∧ (get s1 0).toNat % 65536 = v % 65536 ∧ s1.bus = s.bus ∧ s1.stack = s.stack ∧
      s1.r.size = 16 ∧ (∀ j, j ∉ [0, 1, 2, 6, 7, 8, 9, 10, 11] → get s1 j = get s j) := by
  have h' : callBus B ({ s with pc := s.pc + len } : St β) = .ok s1 := h
  obtain ⟨x, hx, hb, hv⟩ := callBus_ret B ({ s with pc := s.pc + len } : St β) s1 hsz h'
  have hx' : helperCall B s.bus (get s 0).toNat ((get s 6).toNat % 65536) (get s 2).toNat = .ok x := hx
  rw [h0] at hx'
  obtain ⟨hr, hb2⟩ := helperCall_read B _ _ _ _ hx'
  have hst := callBus_stack B ({ s with pc := s.pc + len } : St β) s1 h'
  have hfr : ∀ j, j ∉ [0, 1, 2, 6, 7, 8, 9, 10, 11] → get s1 j = get s j := fun j hj =>
    callBus_frame B ({ s with pc := s.pc + len } : St β) s1 j h' hj
  have hz := (callBus_size_pc B ({ s with pc := s.pc + len } : St β) s1 h').1
  exact ⟨x.1, hr, hv, by rw [hb, hb2], hst, hz.trans hsz, hfr⟩

theorem step_store8_stack (B : BusOps β) (s s1 : St β) (off len : Nat) (src : R8) (w : W) (hj : off % 8 + 1 ≤ 8) (hw : s.stack[off / 8]? = some w)
    (h : step B s (.store8 4 off src) len = .ok s1) :
    (∀ j, get s1 j = get s j) ∧ s1.bus = s.bus ∧ s1.r.size = s.r.size ∧
    s1.stack = List.set s.stack (off / 8) (BitVec.ofNat 64 (w.toNat - (w.toNat / 2 ^ (8 * (off % 8)) % 2 ^ (8 * 1)) * 2 ^ (8 * (off % 8)) + (get8 s src % 2 ^ (8 * 1)) * 2 ^ (8 * (off % 8)))) := by
  have h' : stackWrite ({ s with pc := s.pc + len } : St β) off 1 (get8 s src) = .ok s1 := h
  have := stackWrite_byte ({ s with pc := s.pc + len } : St β) s1 off (get8 s src) w hj hw h'
  subst this
  exact ⟨fun _ => rfl, rfl, rfl, rfl⟩

/-- the byte of slot `w` at byte position `j ∈ {0,1}` replaced by `v`: the low 16 bits -/
theorem poke_low16 (x v j : Nat) (hx : x < 2 ^ 64) (hj : j ≤ 1) :
    (x - (x / 2 ^ (8 * j) % 2 ^ (8 * 1)) * 2 ^ (8 * j) + (v % 2 ^ (8 * 1)) * 2 ^ (8 * j)) % 2 ^ 64 % 65536 =
      if j = 1 then (v % 256) * 256 + x % 256 else (x / 256 % 256) * 256 + v % 256 := by
  have : j = 0 ∨ j = 1 := by omega
  rcases this with e | e <;> subst e
  · simp only [Nat.mul_zero, Nat.pow_zero, Nat.div_one, Nat.mul_one, Nat.zero_ne_one, if_false]
    omega
  · simp only [Nat.mul_one, if_true]
    omega

set_option maxHeartbeats 1000000 in
/-- the body of LD r,(HL) -/
theorem ld_body (B : BusOps β) (hB : ByteReads B) (addr : Nat) (areg : Reg16) (r : Reg8) (g : Regs) (st s13 : St β) (hs : Sim g st)
    (ha3 : addr = 1 ∨ addr = 2 ∨ addr = 3) (hareg : (get st addr).toNat % 65536 = getReg16 g areg)
    (hex : execList B 37 (ldBody addr r) st = .ok s13) :
    ∃ v, B.read st.bus (getReg16 g areg) = .ok v ∧ Sim (setReg g r v) s13 ∧ Untouched st s13 := by
  unfold ldBody at hex
  obtain ⟨s1, h1, hex⟩ := execList_cons B _ _ _ _ _ _ hex
  obtain ⟨s2, h2, hex⟩ := execList_cons B _ _ _ _ _ _ hex
  obtain ⟨s3, h3, hex⟩ := execList_cons B _ _ _ _ _ _ hex
  obtain ⟨s4, h4, hex⟩ := execList_cons B _ _ _ _ _ _ hex
  obtain ⟨s5, h5, hex⟩ := execList_cons B _ _ _ _ _ _ hex
  obtain ⟨s6, h6, hex⟩ := execList_cons B _ _ _ _ _ _ hex
  obtain ⟨s7, h7, hex⟩ := execList_cons B _ _ _ _ _ _ hex
  obtain ⟨s8, h8, hex⟩ := execList_cons B _ _ _ _ _ _ hex
  obtain ⟨s9, h9, hex⟩ := execList_cons B _ _ _ _ _ _ hex
  obtain ⟨s10, h10, hex⟩ := execList_cons B _ _ _ _ _ _ hex
  obtain ⟨s11, h11, hex⟩ := execList_cons B _ _ _ _ _ _ hex
  obtain ⟨s12, h12, hex⟩ := execList_cons B _ _ _ _ _ _ hex
  obtain ⟨s14, h13, hex⟩ := execList_cons B _ _ _ _ _ _ hex
  have := execList_nil B _ _ _ hex
  subst this
  have hsz := hs.size
  obtain ⟨r1, k1, b1, z1⟩ := step_push B st s1 0 _ h1
  obtain ⟨r2, k2, b2, z2⟩ := step_push B s1 s2 1 _ h2
  obtain ⟨r3, k3, b3, z3⟩ := step_push B s2 s3 2 _ h3
  obtain ⟨r4, k4, b4, z4⟩ := step_push B s3 s4 3 _ h4
  have R4 : ∀ j, get s4 j = get st j := fun j => by rw [r4, r3, r2, r1]
  have K4 : s4.stack = get st 3 :: get st 2 :: get st 1 :: get st 0 :: st.stack := by
    rw [k4, k3, k2, k1, r3 3, r2 3, r1 3, r2 2, r1 2, r1 1]
  have Z4 : s4.r.size = 16 := by rw [z4, z3, z2, z1]; exact hsz
  obtain ⟨v5, r5, k5, b5, z5⟩ := step_movq B s4 s5 6 addr _ (by omega) h5
  obtain ⟨v6, r6, k6, b6, z6⟩ := step_movabs B s5 s6 7 512 _ (by omega) h6
  obtain ⟨v7, r7, k7, b7, z7⟩ := step_movabs B s6 s7 0 513 _ (by omega) h7
  have Z7 : s7.r.size = 16 := by rw [z7, z6, z5]; exact Z4
  have a7 : get s7 7 = ptrVal 512 := by rw [r7 7 (by decide)]; exact v6
  have a6 : get s7 6 = get st addr := by rw [r7 6 (by decide), r6 6 (by decide), v5, R4]
  obtain ⟨v, hrd, hv8, b8, k8, Z8, r8⟩ := step_call_read B s7 s8 _ Z7 v7 a7 h8
  have hvlt : v < 256 := hB _ _ _ hrd
  have K8 : s8.stack = get st 3 :: get st 2 :: get st 1 :: get st 0 :: st.stack := by rw [k8, k7, k6, k5]; exact K4
  have B8 : s8.bus = st.bus := by rw [b8, b7, b6, b5, b4, b3, b2, b1]
  have hal : get8 s8 (.lo 0) = v := by
    show (get s8 0).toNat % 256 = v
    have : (get s8 0).toNat % 256 = (get s8 0).toNat % 65536 % 256 := by omega
    rw [this, hv8]; omega
  have R8' : ∀ j, j ∉ [0, 1, 2, 6, 7, 8, 9, 10, 11] → get s8 j = get st j := by
    intro j hj
    rw [r8 j hj, r7 j (fun e => hj (by rw [← e]; simp)), r6 j (fun e => hj (by rw [← e]; simp)), r5 j (fun e => hj (by rw [← e]; simp)), R4]
  -- the address read is HL
  have haddr : (get s7 6).toNat % 65536 = getReg16 g areg := by rw [a6]; exact hareg
  rw [haddr, show s7.bus = st.bus by rw [b7, b6, b5, b4, b3, b2, b1]] at hrd
  refine ⟨v, hrd, ?_⟩
  -- the poke and the four pops, register by register
  have hpk : pokeOff r % 8 + 1 ≤ 8 := by cases r <;> decide
  have hslot : ∃ w, s8.stack[pokeOff r / 8]? = some w := by
    rw [K8]; cases r <;> exact ⟨_, rfl⟩
  obtain ⟨w, hw⟩ := hslot
  obtain ⟨r9, b9, z9, k9⟩ := step_store8_stack B s8 s9 (pokeOff r) _ (.lo 0) w hpk hw h9
  rw [hal, K8] at k9
  rw [K8] at hw
  obtain ⟨w10, t10, e10, k10, g10, q10, b10, z10⟩ := step_pop B s9 s10 3 _ (by rw [z9, Z8]; decide) h10
  obtain ⟨w11, t11, e11, k11, g11, q11, b11, z11⟩ := step_pop B s10 s11 2 _ (by rw [z10, z9, Z8]; decide) h11
  obtain ⟨w12, t12, e12, k12, g12, q12, b12, z12⟩ := step_pop B s11 s12 1 _ (by rw [z11, z10, z9, Z8]; decide) h12
  obtain ⟨w13, t13, e13, k13, g13, q13, b13, z13⟩ := step_pop B s12 s13 0 _ (by rw [z12, z11, z10, z9, Z8]; decide) h13
  have Z13 : s13.r.size = 16 := by rw [z13, z12, z11, z10, z9]; exact Z8
  have B13 : s13.bus = st.bus := by rw [b13, b12, b11, b10, b9]; exact B8
  have Rrest : ∀ j, j ∉ [0, 1, 2, 3, 6, 7, 8, 9, 10, 11] → get s13 j = get st j := by
    intro j hj
    rw [q13 j (fun e => hj (by rw [← e]; simp)), q12 j (fun e => hj (by rw [← e]; simp)), q11 j (fun e => hj (by rw [← e]; simp)),
      q10 j (fun e => hj (by rw [← e]; simp)), r9 j, R8' j (fun hm => hj (by simp at hm ⊢; omega))]
  have G3 : get s13 3 = w10 := by rw [q13 3 (by decide), q12 3 (by decide), q11 3 (by decide)]; exact g10
  have G2 : get s13 2 = w11 := by rw [q13 2 (by decide), q12 2 (by decide)]; exact g11
  have G1 : get s13 1 = w12 := by rw [q13 1 (by decide)]; exact g12
  have G0 : get s13 0 = w13 := g13
  have x0 := (get st 0).isLt; have x1 := (get st 1).isLt; have x2 := (get st 2).isLt; have x3 := (get st 3).isLt
  have haf := hs.af; have hhl := hs.hl; have hde := hs.de; have hbc := hs.bc
  cases r <;> simp only [pokeOff] at k9 hw
  all_goals
    simp only [Nat.reduceDiv, Nat.reduceMod, List.set_cons_zero, List.set_cons_succ, List.getElem?_cons_zero, List.getElem?_cons_succ, Option.some.injEq] at k9 hw
    subst hw
    rw [k9] at e10
    obtain ⟨a10, e10⟩ := List.cons.inj e10
    rw [k10, ← e10] at e11
    obtain ⟨a11, e11⟩ := List.cons.inj e11
    rw [k11, ← e11] at e12
    obtain ⟨a12, e12⟩ := List.cons.inj e12
    rw [k12, ← e12] at e13
    obtain ⟨a13, e13⟩ := List.cons.inj e13
    rw [← a10] at G3; rw [← a11] at G2; rw [← a12] at G1; rw [← a13] at G0
    refine ⟨⟨?_, ?_, ?_, ?_, ?_, ?_, ?_, Z13⟩, ⟨B13, by rw [k13]; exact e13.symm, Rrest 14 (by decide)⟩⟩
  all_goals first
    | (rw [Rrest 12 (by decide)]; exact hs.sp)
    | (rw [Rrest 13 (by decide)]; exact hs.ip)
    | (rw [Rrest 15 (by decide)]; exact hs.cy)
    | (rw [G0]; exact haf)
    | (rw [G1]; exact hhl)
    | (rw [G2]; exact hde)
    | (rw [G3]; exact hbc)
    | (rw [G0, BitVec.toNat_ofNat, poke_low16 _ _ _ x0 (by decide)]; simp only [setReg, setHi_eq, setLo_eq _ _ hvlt, if_true, Nat.zero_ne_one, if_false]; omega)
    | (rw [G1, BitVec.toNat_ofNat, poke_low16 _ _ _ x1 (by decide)]; simp only [setReg, setHi_eq, setLo_eq _ _ hvlt, if_true, Nat.zero_ne_one, if_false]; omega)
    | (rw [G2, BitVec.toNat_ofNat, poke_low16 _ _ _ x2 (by decide)]; simp only [setReg, setHi_eq, setLo_eq _ _ hvlt, if_true, Nat.zero_ne_one, if_false]; omega)
    | (rw [G3, BitVec.toNat_ofNat, poke_low16 _ _ _ x3 (by decide)]; simp only [setReg, setHi_eq, setLo_eq _ _ hvlt, if_true, Nat.zero_ne_one, if_false]; omega)

/-- `Simulates` with the bus: the interpreter, run on the bus the host state carries, performs the same accesses — it
succeeds with the register file the template's final state is related to, and the bus ends the same -/
def SimulatesMem (b0 b1 b2 : Nat) : Prop :=
  ∃ code, decodeCode (Gen.emitOp b0) = some code ∧
  ∀ (β : Type) (B : BusOps β), ByteReads B → ∀ (g : Regs) (fuel : Nat) (st st' : St β), Sim g st → st.pc = 0 → st.op1 = b1 → st.op2 = b2 →
    run B code (bytesOf (Gen.emitOp b0)) fuel st = .ok st' →
    ∃ g' m', runOp B (Gen.decode b0 b1 b2).1 g st.bus (Gen.decode b0 b1 b2).2.1 = .ok (g', m', STATUS_NORMAL) ∧
      Sim { g' with cycles := g'.cycles + (Gen.decode b0 b1 b2).2.2 / 4 } st' ∧ st'.bus = m' ∧ st'.stack = st.stack ∧ get st' 14 = get st 14

theorem straight_ldHlBody (r : Reg8) : straight (ldHlBody r) := by
  intro p hp
  simp only [ldHlBody, ldBody, List.mem_cons, List.not_mem_nil, or_false] at hp
  rcases hp with e | e | e | e | e | e | e | e | e | e | e | e | e <;> subst e <;>
    exact ⟨fun _ _ e => Instr.noConfusion e, fun _ e => Instr.noConfusion e⟩

/-- **LD r,(HL)** (7 registers): all states, any bus whose reads return bytes -/
theorem sim_ldhl (r : Reg8) (b1 b2 : Nat) : SimulatesMem (opcodeLdHl r) b1 b2 := by
  obtain ⟨hdec, hbytes, hop⟩ := table_ldhl r b1 b2
  refine ⟨_, hdec, ?_⟩
  intro β B hB g fuel st st' hsim hpc _ _ hrun
  rw [hbytes] at hrun
  rw [hop]
  show ∃ g' m', runOp B (.LoadFromIndirect r .HL) g st.bus 1 = .ok (g', m', STATUS_NORMAL) ∧ Sim { g' with cycles := g'.cycles + 8 / 4 } st' ∧ _
  rw [show (8 : Nat) / 4 = 2 from rfl]
  have hst : straight (ldHlBody r ++ [(37, addIp 1), (41, addCy 2)]) :=
    straight_app (straight_ldHlBody r) (by
      intro p hp
      simp only [List.mem_cons, List.not_mem_nil, or_false] at hp
      rcases hp with e | e <;> subst e <;> exact ⟨fun _ _ e => Instr.noConfusion e, fun _ e => Instr.noConfusion e⟩)
  have hok : codeOk (ldHlBody r ++ [(37, addIp 1), (41, addCy 2)]) 45 = true := by cases r <;> rfl
  have hex := run_execList B _ 45 hok hst 15 0 rfl fuel st st' (by rw [hpc]; rfl) hrun
  rw [List.drop_zero] at hex
  obtain ⟨s13, hb, ht⟩ := execList_append B 45 _ (ldHlBody r) st st' hex
  obtain ⟨v, hrd, hs13, hu13⟩ := ld_body B hB 1 .HL r g st s13 hsim (Or.inl rfl) hsim.hl hb
  obtain ⟨hs', hu'⟩ := sim_tail B hs13 37 41 45 1 2 (by decide) (by decide) ht
  refine ⟨advance (setReg g r v) 1, st.bus, ?_, ⟨hs'.af, hs'.hl, hs'.de, hs'.bc, hs'.sp, hs'.ip, hs'.cy, hs'.size⟩,
    by rw [hu'.bus, hu13.bus], by rw [hu'.stack, hu13.stack], by rw [hu'.r14, hu13.r14]⟩
  show (do let v ← B.read st.bus (getReg16 g (indirectReg .HL)); _) = _
  simp only [indirectReg, bind, Except.bind, hrd]

/-! ### LD (HL),r -/

/-- `helperCall` with the byte-write pointer -/
theorem helperCall_write (B : BusOps β) (bus : β) (addr val : Nat) (x : Nat × β)
    (h : helperCall B bus (ptrVal 514).toNat addr val = .ok x) : B.write bus addr (val % 256) = .ok x.2 := by
  unfold helperCall at h
  simp only [bind, Except.bind, pure, Except.pure] at h
  rw [if_neg (by decide), if_pos (by decide)] at h
  split at h
  · cases h
  · rename_i v hv
    injection h with h; subst h
    split at hv
    · rename_i w hw; injection hv with hv; subst hv; exact hw
    · cases hv

/-- the byte-write helper call -/
theorem step_call_write (B : BusOps β) (s s1 : St β) (len : Nat) (hsz : s.r.size = 16) (h0 : get s 0 = ptrVal 514)
    (h : step B s .callRax len = .ok s1) :
    B.write s.bus ((get s 6).toNat % 65536) ((get s 2).toNat % 256) = .ok s1.bus ∧ s1.stack = s.stack ∧
      s1.r.size = 16 ∧ (∀ j, j ∉ [0, 1, 2, 6, 7, 8, 9, 10, 11] → get s1 j = get s j) := by
  have h' : callBus B ({ s with pc := s.pc + len } : St β) = .ok s1 := h
  obtain ⟨x, hx, hb, _⟩ := callBus_ret B ({ s with pc := s.pc + len } : St β) s1 hsz h'
  have hx' : helperCall B s.bus (get s 0).toNat ((get s 6).toNat % 65536) (get s 2).toNat = .ok x := hx
  rw [h0] at hx'
  have hw := helperCall_write B _ _ _ _ hx'
  have hst := callBus_stack B ({ s with pc := s.pc + len } : St β) s1 h'
  have hfr : ∀ j, j ∉ [0, 1, 2, 6, 7, 8, 9, 10, 11] → get s1 j = get s j := fun j hj =>
    callBus_frame B ({ s with pc := s.pc + len } : St β) s1 j h' hj
  have hz := (callBus_size_pc B ({ s with pc := s.pc + len } : St β) s1 h').1
  exact ⟨by rw [hb]; exact hw, hst, hz.trans hsz, hfr⟩

def stBody (addr : Nat) (r : Reg8) : List (Nat × Instr) :=
  [(0, Instr.push 0), (1, Instr.push 1), (2, Instr.push 2), (3, Instr.mov Size.q 6 addr), (6, Instr.movabs 7 512),
   (16, Instr.mov8 (R8.lo 2) (hostR8 r)), (18, Instr.aluI AluOp.and Size.q 2 [255, 0, 0, 0] false), (25, Instr.movabs 0 514),
   (35, Instr.callRax), (37, Instr.pop 2), (38, Instr.pop 1), (39, Instr.pop 0)]

def stHlBody (r : Reg8) : List (Nat × Instr) := stBody 1 r

def opcodeStHl (r : Reg8) : Nat := 0x70 + r8code r

theorem table_sthl (r : Reg8) (b1 b2 : Nat) :
    decodeCode (Gen.emitOp (opcodeStHl r)) = some (stHlBody r ++ [(40, addIp 1), (44, addCy 2)]) ∧
    bytesOf (Gen.emitOp (opcodeStHl r)) = 48 ∧ Gen.decode (opcodeStHl r) b1 b2 = (.LoadToIndirect .HL r, 1, 8) := by
  cases r <;> exact ⟨by decide +kernel, by decide +kernel, rfl⟩

theorem get8_of_regs {s s' : St β} (r : Reg8) (h : ∀ j, j ≤ 3 → get s' j = get s j) : get8 s' (hostR8 r) = get8 s (hostR8 r) := by
  cases r <;> simp only [hostR8, get8] <;> rw [h _ (by decide)]

theorem step_mov8_eq (B : BusOps β) (st : St β) (d src : R8) (len : Nat) :
    step B st (.mov8 d src) len =
      .ok (set8 ({ st with pc := st.pc + len } : St β) d (get8 ({ st with pc := st.pc + len } : St β) src)) := rfl

set_option maxRecDepth 4000 in
/-- `and r, 0xff` (64-bit, imm32) -/
theorem step_mask_q8 (B : BusOps β) (s s' : St β) (r len : Nat) (hr16 : r < 16) (hs : s.r.size = 16)
    (h : step B s (.aluI .and .q r [255, 0, 0, 0] false) len = .ok s') :
    (get s' r).toNat = (get s r).toNat % 256 ∧ (∀ j, r ≠ j → get s' j = get s j) ∧ s'.stack = s.stack ∧ s'.bus = s.bus ∧ s'.r.size = 16 := by
  have hfr : ∀ j, r ≠ j → get s' j = get s j := fun j hj =>
    step_frame B s s' _ len j h (by intro e; cases e) (by simp only [destReg]; intro e; injection e with e; exact hj e)
  have hst := step_stack B s s' _ len h (fun _ e => by cases e) (fun _ e => by cases e) (fun e => by cases e) (fun e => by cases e)
    (fun _ _ _ _ e => by cases e) (fun _ _ _ e => by cases e)
  have hb := step_bus B s s' _ len h (by intro e; cases e)
  have hz := (step_size_pc B s s' _ len h).1
  refine ⟨?_, hfr, hst, hb, hz.trans hs⟩
  have himm : ∀ t : St β, immLE t [255, 0, 0, 0] = 255 := by
    intro t; rw [immLE_4 t _ _ _ _ (by decide) (by decide) (by decide) (by decide)]
  have hne : (AluOp.and == AluOp.cmp) = false := by decide
  simp only [step, himm, bitsOf, hne, Bool.false_eq_true, if_false] at h
  injection h with h
  have hr := congrArg St.r h
  simp only [] at hr
  unfold get
  rw [← hr]
  show (get (setSz ({ s with pc := s.pc + len } : St β) .q r _) r).toNat = _
  simp only [setSz]
  rw [get_set_eq _ _ _ (by show r < s.r.size; omega)]
  rw [BitVec.toNat_ofNat]
  have ha : (get s r).toNat < 2 ^ 64 := (get s r).isLt
  have e1 : getSz ({ s with pc := s.pc + len } : St β) .q r = (get s r).toNat := by
    show (get s r).toNat % 2 ^ 64 = _
    exact Nat.mod_eq_of_lt ha
  simp only [aluOp, e1]
  have hc : ((if (Size.q == Size.q && decide (255 ≥ 2 ^ 31)) = true then 2 ^ 64 - 2 ^ 32 + 255 else 255) % 2 ^ 64) = 2 ^ 8 - 1 := by decide
  rw [hc, Nat.and_two_pow_sub_one_eq_mod]
  show (get s r).toNat % 2 ^ 8 % 2 ^ 64 = (get s r).toNat % 256
  omega

set_option maxHeartbeats 1000000 in
/-- the body of LD (HL),r -/
theorem st_body (B : BusOps β) (addr : Nat) (areg : Reg16) (r : Reg8) (g : Regs) (st s12 : St β) (hs : Sim g st)
    (hareg : (get st addr).toNat % 65536 = getReg16 g areg)
    (hex : execList B 40 (stBody addr r) st = .ok s12) :
    B.write st.bus (getReg16 g areg) (getReg g r) = .ok s12.bus ∧ Sim g s12 ∧ s12.stack = st.stack ∧ get s12 14 = get st 14 := by
  unfold stBody at hex
  obtain ⟨s1, h1, hex⟩ := execList_cons B _ _ _ _ _ _ hex
  obtain ⟨s2, h2, hex⟩ := execList_cons B _ _ _ _ _ _ hex
  obtain ⟨s3, h3, hex⟩ := execList_cons B _ _ _ _ _ _ hex
  obtain ⟨s4, h4, hex⟩ := execList_cons B _ _ _ _ _ _ hex
  obtain ⟨s5, h5, hex⟩ := execList_cons B _ _ _ _ _ _ hex
  obtain ⟨s6, h6, hex⟩ := execList_cons B _ _ _ _ _ _ hex
  obtain ⟨s7, h7, hex⟩ := execList_cons B _ _ _ _ _ _ hex
  obtain ⟨s8, h8, hex⟩ := execList_cons B _ _ _ _ _ _ hex
  obtain ⟨s9, h9, hex⟩ := execList_cons B _ _ _ _ _ _ hex
  obtain ⟨s10, h10, hex⟩ := execList_cons B _ _ _ _ _ _ hex
  obtain ⟨s11, h11, hex⟩ := execList_cons B _ _ _ _ _ _ hex
  obtain ⟨s13, h12, hex⟩ := execList_cons B _ _ _ _ _ _ hex
  have := execList_nil B _ _ _ hex
  subst this
  have hsz := hs.size
  obtain ⟨r1, k1, b1, z1⟩ := step_push B st s1 0 _ h1
  obtain ⟨r2, k2, b2, z2⟩ := step_push B s1 s2 1 _ h2
  obtain ⟨r3, k3, b3, z3⟩ := step_push B s2 s3 2 _ h3
  have R3 : ∀ j, get s3 j = get st j := fun j => by rw [r3, r2, r1]
  have K3 : s3.stack = get st 2 :: get st 1 :: get st 0 :: st.stack := by rw [k3, k2, k1, r2 2, r1 2, r1 1]
  have Z3 : s3.r.size = 16 := by rw [z3, z2, z1]; exact hsz
  obtain ⟨v4, r4, k4, b4, z4⟩ := step_movq B s3 s4 6 addr _ (by omega) h4
  obtain ⟨v5, r5, k5, b5, z5⟩ := step_movabs B s4 s5 7 512 _ (by omega) h5
  have Z5 : s5.r.size = 16 := by rw [z5, z4]; exact Z3
  have R5 : ∀ j, 6 ≠ j → 7 ≠ j → get s5 j = get st j := fun j h6' h7' => by rw [r5 j h7', r4 j h6', R3]
  -- mov dl, src
  rw [step_mov8_eq] at h6
  injection h6 with h6
  have hsrc : get8 ({ s5 with pc := s5.pc + (headOff 40
      [(18, Instr.aluI AluOp.and Size.q 2 [255, 0, 0, 0] false), (25, Instr.movabs 0 514), (35, Instr.callRax), (37, Instr.pop 2), (38, Instr.pop 1), (39, Instr.pop 0)] - 16) } : St β) (hostR8 r) = getReg g r := by
    rw [← get8_sim hs r]
    apply get8_of_regs
    intro j hj
    show get s5 j = get st j
    exact R5 j (by omega) (by omega)
  rw [hsrc] at h6
  have hv := getReg_lt g r
  have x6 : (get s6 2).toNat % 256 = getReg g r := by
    rw [← h6, toNat_set8_lo _ _ _ (by show 2 < s5.r.size; omega)]
    have := (get s5 2).isLt
    show ((get s5 2).toNat - (get s5 2).toNat % 256 + getReg g r % 256) % 2 ^ 64 % 256 = _
    omega
  have r6 : ∀ j, 2 ≠ j → get s6 j = get s5 j := by
    intro j hj; rw [← h6, get_set8_ne _ _ _ _ (by simpa [r8reg] using hj)]; rfl
  have k6 : s6.stack = s5.stack := by rw [← h6, stack_set8]
  have b6 : s6.bus = s5.bus := by rw [← h6, bus_set8]
  have z6 : s6.r.size = 16 := by rw [← h6, size_set8]; exact Z5
  obtain ⟨x7, r7, k7, b7, z7⟩ := step_mask_q8 B s6 s7 2 _ (by decide) z6 h7
  obtain ⟨v8, r8, k8, b8, z8⟩ := step_movabs B s7 s8 0 514 _ (by omega) h8
  have Z8 : s8.r.size = 16 := by rw [z8]; exact z7
  have a6 : get s8 6 = get st addr := by rw [r8 6 (by decide), r7 6 (by decide), r6 6 (by decide), r5 6 (by decide), v4, R3]
  have a2 : (get s8 2).toNat % 256 = getReg g r := by rw [r8 2 (by decide), x7, x6]; exact Nat.mod_eq_of_lt hv
  obtain ⟨hwr, k9, Z9, r9⟩ := step_call_write B s8 s9 _ Z8 v8 h9
  have haddr : (get s8 6).toNat % 65536 = getReg16 g areg := by rw [a6]; exact hareg
  have B8 : s8.bus = st.bus := by rw [b8, b7, b6, b5, b4, b3, b2, b1]
  rw [haddr, a2, B8] at hwr
  have K9 : s9.stack = get st 2 :: get st 1 :: get st 0 :: st.stack := by rw [k9, k8, k7, k6, k5, k4]; exact K3
  obtain ⟨w10, t10, e10, k10, g10, q10, b10, z10⟩ := step_pop B s9 s10 2 _ (by rw [Z9]; decide) h10
  obtain ⟨w11, t11, e11, k11, g11, q11, b11, z11⟩ := step_pop B s10 s11 1 _ (by rw [z10, Z9]; decide) h11
  obtain ⟨w12, t12, e12, k12, g12, q12, b12, z12⟩ := step_pop B s11 s12 0 _ (by rw [z11, z10, Z9]; decide) h12
  rw [K9] at e10
  obtain ⟨a10, e10⟩ := List.cons.inj e10
  rw [k10, ← e10] at e11
  obtain ⟨a11, e11⟩ := List.cons.inj e11
  rw [k11, ← e11] at e12
  obtain ⟨a12, e12⟩ := List.cons.inj e12
  have G2 : get s12 2 = get st 2 := by rw [q12 2 (by decide), q11 2 (by decide), g10]; exact a10.symm
  have G1 : get s12 1 = get st 1 := by rw [q12 1 (by decide), g11]; exact a11.symm
  have G0 : get s12 0 = get st 0 := by rw [g12]; exact a12.symm
  have Rrest : ∀ j, j ∉ [0, 1, 2, 6, 7, 8, 9, 10, 11] → get s12 j = get st j := by
    intro j hj
    rw [q12 j (fun e => hj (by rw [← e]; simp)), q11 j (fun e => hj (by rw [← e]; simp)), q10 j (fun e => hj (by rw [← e]; simp)),
      r9 j hj, r8 j (fun e => hj (by rw [← e]; simp)), r7 j (fun e => hj (by rw [← e]; simp)), r6 j (fun e => hj (by rw [← e]; simp)),
      R5 j (fun e => hj (by rw [← e]; simp)) (fun e => hj (by rw [← e]; simp))]
  refine ⟨by rw [b12, b11, b10]; exact hwr, ⟨?_, ?_, ?_, ?_, ?_, ?_, ?_, ?_⟩, by rw [k12]; exact e12.symm, Rrest 14 (by decide)⟩
  · rw [G0]; exact hs.af
  · rw [G1]; exact hs.hl
  · rw [G2]; exact hs.de
  · rw [Rrest 3 (by decide)]; exact hs.bc
  · rw [Rrest 12 (by decide)]; exact hs.sp
  · rw [Rrest 13 (by decide)]; exact hs.ip
  · rw [Rrest 15 (by decide)]; exact hs.cy
  · rw [z12, z11, z10]; exact Z9

theorem straight_stHlBody (r : Reg8) : straight (stHlBody r) := by
  intro p hp
  simp only [stHlBody, stBody, List.mem_cons, List.not_mem_nil, or_false] at hp
  rcases hp with e | e | e | e | e | e | e | e | e | e | e | e <;> subst e <;>
    exact ⟨fun _ _ e => Instr.noConfusion e, fun _ e => Instr.noConfusion e⟩

/-- **LD (HL),r** (7 registers): all states, any bus — the template writes the byte the interpreter writes, where it writes it -/
theorem sim_sthl (r : Reg8) (b1 b2 : Nat) : SimulatesMem (opcodeStHl r) b1 b2 := by
  obtain ⟨hdec, hbytes, hop⟩ := table_sthl r b1 b2
  refine ⟨_, hdec, ?_⟩
  intro β B _ g fuel st st' hsim hpc _ _ hrun
  rw [hbytes] at hrun
  rw [hop]
  show ∃ g' m', runOp B (.LoadToIndirect .HL r) g st.bus 1 = .ok (g', m', STATUS_NORMAL) ∧ Sim { g' with cycles := g'.cycles + 8 / 4 } st' ∧ _
  rw [show (8 : Nat) / 4 = 2 from rfl]
  have hst : straight (stHlBody r ++ [(40, addIp 1), (44, addCy 2)]) :=
    straight_app (straight_stHlBody r) (by
      intro p hp
      simp only [List.mem_cons, List.not_mem_nil, or_false] at hp
      rcases hp with e | e <;> subst e <;> exact ⟨fun _ _ e => Instr.noConfusion e, fun _ e => Instr.noConfusion e⟩)
  have hok : codeOk (stHlBody r ++ [(40, addIp 1), (44, addCy 2)]) 48 = true := by cases r <;> rfl
  have hex := run_execList B _ 48 hok hst 14 0 rfl fuel st st' (by rw [hpc]; rfl) hrun
  rw [List.drop_zero] at hex
  obtain ⟨s12, hb, ht⟩ := execList_append B 48 _ (stHlBody r) st st' hex
  obtain ⟨hwr, hs12, hk12, h14⟩ := st_body B 1 .HL r g st s12 hsim hsim.hl hb
  obtain ⟨hs', hu'⟩ := sim_tail B hs12 40 44 48 1 2 (by decide) (by decide) ht
  refine ⟨advance g 1, s12.bus, ?_, ⟨hs'.af, hs'.hl, hs'.de, hs'.bc, hs'.sp, hs'.ip, hs'.cy, hs'.size⟩,
    hu'.bus, by rw [hu'.stack, hk12], by rw [hu'.r14, h14]⟩
  show (do let m ← B.write st.bus (getReg16 g (indirectReg .HL)) (getReg g r); _) = _
  simp only [indirectReg, bind, Except.bind, hwr]

/-! ### LD A,(BC) / LD A,(DE) / LD A,(HL+) / LD A,(HL-) -/

theorem straight_ldBody (addr : Nat) (r : Reg8) : straight (ldBody addr r) := by
  intro p hp
  simp only [ldBody, List.mem_cons, List.not_mem_nil, or_false] at hp
  rcases hp with e | e | e | e | e | e | e | e | e | e | e | e | e <;> subst e <;>
    exact ⟨fun _ _ e => Instr.noConfusion e, fun _ e => Instr.noConfusion e⟩

theorem tail_straight (o1 o2 n c : Nat) : straight [(o1, addIp n), (o2, addCy c)] := by
  intro p hp
  simp only [List.mem_cons, List.not_mem_nil, or_false] at hp
  rcases hp with e | e <;> subst e <;> exact ⟨fun _ _ e => Instr.noConfusion e, fun _ e => Instr.noConfusion e⟩

theorem table_lda (b1 b2 : Nat) :
    (decodeCode (Gen.emitOp 0x0a) = some (ldBody 3 .A ++ [(37, addIp 1), (41, addCy 2)]) ∧ bytesOf (Gen.emitOp 0x0a) = 45 ∧
      Gen.decode 0x0a b1 b2 = (.LoadFromIndirect .A .BC, 1, 8)) ∧
    (decodeCode (Gen.emitOp 0x1a) = some (ldBody 2 .A ++ [(37, addIp 1), (41, addCy 2)]) ∧ bytesOf (Gen.emitOp 0x1a) = 45 ∧
      Gen.decode 0x1a b1 b2 = (.LoadFromIndirect .A .DE, 1, 8)) ∧
    (decodeCode (Gen.emitOp 0x2a) = some ((ldBody 1 .A ++ [(37, Instr.incdec16 false 1)]) ++ [(40, addIp 1), (44, addCy 2)]) ∧ bytesOf (Gen.emitOp 0x2a) = 48 ∧
      Gen.decode 0x2a b1 b2 = (.LoadFromIndirect .A .HLIncrement, 1, 8)) ∧
    (decodeCode (Gen.emitOp 0x3a) = some ((ldBody 1 .A ++ [(37, Instr.incdec16 true 1)]) ++ [(40, addIp 1), (44, addCy 2)]) ∧ bytesOf (Gen.emitOp 0x3a) = 48 ∧
      Gen.decode 0x3a b1 b2 = (.LoadFromIndirect .A .HLDecrement, 1, 8)) :=
  ⟨⟨by decide +kernel, by decide +kernel, rfl⟩, ⟨by decide +kernel, by decide +kernel, rfl⟩, ⟨by decide +kernel, by decide +kernel, rfl⟩,
   ⟨by decide +kernel, by decide +kernel, rfl⟩⟩

/-- **LD A,(BC)** -/
theorem sim_0a (b1 b2 : Nat) : SimulatesMem 0x0a b1 b2 := by
  obtain ⟨⟨hdec, hbytes, hop⟩, _⟩ := table_lda b1 b2
  refine ⟨_, hdec, ?_⟩
  intro β B hB g fuel st st' hsim hpc _ _ hrun
  rw [hbytes] at hrun
  rw [hop]
  show ∃ g' m', runOp B (.LoadFromIndirect .A .BC) g st.bus 1 = .ok (g', m', STATUS_NORMAL) ∧ Sim { g' with cycles := g'.cycles + 8 / 4 } st' ∧ _
  rw [show (8 : Nat) / 4 = 2 from rfl]
  have hex := run_execList B _ 45 rfl (straight_app (straight_ldBody 3 .A) (tail_straight 37 41 1 2)) 15 0 rfl fuel st st' (by rw [hpc]; rfl) hrun
  rw [List.drop_zero] at hex
  obtain ⟨s13, hb, ht⟩ := execList_append B 45 _ (ldBody 3 .A) st st' hex
  obtain ⟨v, hrd, hs13, hu13⟩ := ld_body B hB 3 .BC .A g st s13 hsim (Or.inr (Or.inr rfl)) hsim.bc hb
  obtain ⟨hs', hu'⟩ := sim_tail B hs13 37 41 45 1 2 (by decide) (by decide) ht
  refine ⟨advance (setReg g .A v) 1, st.bus, ?_, ⟨hs'.af, hs'.hl, hs'.de, hs'.bc, hs'.sp, hs'.ip, hs'.cy, hs'.size⟩,
    by rw [hu'.bus, hu13.bus], by rw [hu'.stack, hu13.stack], by rw [hu'.r14, hu13.r14]⟩
  show (do let v ← B.read st.bus (getReg16 g (indirectReg .BC)); _) = _
  simp only [indirectReg, bind, Except.bind, hrd]

/-- **LD A,(DE)** -/
theorem sim_1a (b1 b2 : Nat) : SimulatesMem 0x1a b1 b2 := by
  obtain ⟨_, ⟨hdec, hbytes, hop⟩, _⟩ := table_lda b1 b2
  refine ⟨_, hdec, ?_⟩
  intro β B hB g fuel st st' hsim hpc _ _ hrun
  rw [hbytes] at hrun
  rw [hop]
  show ∃ g' m', runOp B (.LoadFromIndirect .A .DE) g st.bus 1 = .ok (g', m', STATUS_NORMAL) ∧ Sim { g' with cycles := g'.cycles + 8 / 4 } st' ∧ _
  rw [show (8 : Nat) / 4 = 2 from rfl]
  have hex := run_execList B _ 45 rfl (straight_app (straight_ldBody 2 .A) (tail_straight 37 41 1 2)) 15 0 rfl fuel st st' (by rw [hpc]; rfl) hrun
  rw [List.drop_zero] at hex
  obtain ⟨s13, hb, ht⟩ := execList_append B 45 _ (ldBody 2 .A) st st' hex
  obtain ⟨v, hrd, hs13, hu13⟩ := ld_body B hB 2 .DE .A g st s13 hsim (Or.inr (Or.inl rfl)) hsim.de hb
  obtain ⟨hs', hu'⟩ := sim_tail B hs13 37 41 45 1 2 (by decide) (by decide) ht
  refine ⟨advance (setReg g .A v) 1, st.bus, ?_, ⟨hs'.af, hs'.hl, hs'.de, hs'.bc, hs'.sp, hs'.ip, hs'.cy, hs'.size⟩,
    by rw [hu'.bus, hu13.bus], by rw [hu'.stack, hu13.stack], by rw [hu'.r14, hu13.r14]⟩
  show (do let v ← B.read st.bus (getReg16 g (indirectReg .DE)); _) = _
  simp only [indirectReg, bind, Except.bind, hrd]

/-- **LD A,(HL+)** / **LD A,(HL-)** -/
theorem sim_ldi_ldd (dec : Bool) (b1 b2 : Nat) : SimulatesMem (if dec then 0x3a else 0x2a) b1 b2 := by
  obtain ⟨_, _, ⟨hdecI, hbytesI, hopI⟩, ⟨hdecD, hbytesD, hopD⟩⟩ := table_lda b1 b2
  have main : ∀ (β : Type) (B : BusOps β), ByteReads B → ∀ (g : Regs) (fuel : Nat) (st st' : St β), Sim g st → st.pc = 0 →
      run B ((ldBody 1 .A ++ [(37, Instr.incdec16 dec 1)]) ++ [(40, addIp 1), (44, addCy 2)]) 48 fuel st = .ok st' →
      ∃ v, B.read st.bus (getReg16 g .HL) = .ok v ∧
        Sim { (setReg16 (setReg g .A v) .HL (u16 (getReg16 g .HL + (if dec then 65535 else 1)))) with ip := g.ip + 1, cycles := g.cycles + 2 } st' ∧
        st'.bus = st.bus ∧ st'.stack = st.stack ∧ get st' 14 = get st 14 := by
    intro β B hB g fuel st st' hsim hpc hrun
    have hst : straight ((ldBody 1 .A ++ [(37, Instr.incdec16 dec 1)]) ++ [(40, addIp 1), (44, addCy 2)]) :=
      straight_app (straight_app (straight_ldBody 1 .A) (straight_one _ _ (fun _ _ e => Instr.noConfusion e) (fun _ e => Instr.noConfusion e)))
        (tail_straight 40 44 1 2)
    have hex := run_execList B _ 48 rfl hst 16 0 rfl fuel st st' (by rw [hpc]; rfl) hrun
    rw [List.drop_zero] at hex
    obtain ⟨s14, hb, ht⟩ := execList_append B 48 _ _ st st' hex
    obtain ⟨s13, hb1, hb2⟩ := execList_append B _ _ (ldBody 1 .A) st s14 hb
    obtain ⟨v, hrd, hs13, hu13⟩ := ld_body B hB 1 .HL .A g st s13 hsim (Or.inl rfl) hsim.hl hb1
    obtain ⟨s15, hi, hnil⟩ := execList_cons B _ _ _ _ _ _ hb2
    have := execList_nil B _ _ _ hnil
    subst this
    have hv := step_incdec16 B s13 s14 dec 1 _ (by decide) hs13.size hi
    obtain ⟨hs14, hu14⟩ := step16_sim B .HL _ (u16 (getReg16 g .HL + (if dec then 65535 else 1))) (setReg g .A v) s13 s14 _ hs13 hi rfl
      (by intro e; cases e) (fun _ e => by cases e) (fun _ e => by cases e) (fun e => by cases e) (fun e => by cases e)
      (fun _ _ _ _ e => by cases e) (fun _ _ _ e => by cases e) (by
        show (get s14 1).toNat % 65536 = _
        rw [hv]
        have h1 := hs13.hl
        have h2 : (setReg g .A v).hl = g.hl := rfl
        rw [h2] at h1
        show ((get s13 1).toNat + _) % 65536 = u16 (u16 g.hl + _) % 65536
        unfold u16
        cases dec <;> simp only [Bool.false_eq_true, if_false, if_true] <;> omega)
    obtain ⟨hs', hu'⟩ := sim_tail B hs14 40 44 48 1 2 (by decide) (by decide) ht
    exact ⟨v, hrd, ⟨hs'.af, hs'.hl, hs'.de, hs'.bc, hs'.sp, hs'.ip, hs'.cy, hs'.size⟩,
      by rw [hu'.bus, hu14.bus, hu13.bus], by rw [hu'.stack, hu14.stack, hu13.stack], by rw [hu'.r14, hu14.r14, hu13.r14]⟩
  cases dec
  · simp only [Bool.false_eq_true, if_false]
    refine ⟨_, hdecI, ?_⟩
    intro β B hB g fuel st st' hsim hpc _ _ hrun
    rw [hbytesI] at hrun
    rw [hopI]
    show ∃ g' m', runOp B (.LoadFromIndirect .A .HLIncrement) g st.bus 1 = .ok (g', m', STATUS_NORMAL) ∧ Sim { g' with cycles := g'.cycles + 8 / 4 } st' ∧ _
    rw [show (8 : Nat) / 4 = 2 from rfl]
    obtain ⟨v, hrd, hs', hb, hk, h14⟩ := main β B hB g fuel st st' hsim hpc hrun
    simp only [Bool.false_eq_true, if_false] at hs'
    refine ⟨advance { (setReg g .A v) with hl := u32 ((setReg g .A v).hl + 1) &&& 0xffff } 1, st.bus, ?_, ?_, hb, hk, h14⟩
    · show (do let v ← B.read st.bus (getReg16 g (indirectReg .HLIncrement)); _) = _
      simp only [indirectReg, bind, Except.bind, hrd]
    · have e : u32 ((setReg g .A v).hl + 1) &&& 0xffff = (g.hl + 1) % 4294967296 % 65536 := by
        show (g.hl + 1) % 4294967296 &&& 0xffff = _
        exact Nat.and_two_pow_sub_one_eq_mod _ 16
      refine ⟨hs'.af, hs'.hl.trans ?_, hs'.de, hs'.bc, hs'.sp, hs'.ip, hs'.cy, hs'.size⟩
      show u16 (u16 g.hl + 1) % 65536 = (u32 ((setReg g .A v).hl + 1) &&& 0xffff) % 65536
      rw [e]; unfold u16; omega
  · simp only [if_true]
    refine ⟨_, hdecD, ?_⟩
    intro β B hB g fuel st st' hsim hpc _ _ hrun
    rw [hbytesD] at hrun
    rw [hopD]
    show ∃ g' m', runOp B (.LoadFromIndirect .A .HLDecrement) g st.bus 1 = .ok (g', m', STATUS_NORMAL) ∧ Sim { g' with cycles := g'.cycles + 8 / 4 } st' ∧ _
    rw [show (8 : Nat) / 4 = 2 from rfl]
    obtain ⟨v, hrd, hs', hb, hk, h14⟩ := main β B hB g fuel st st' hsim hpc hrun
    simp only [if_true] at hs'
    refine ⟨advance { (setReg g .A v) with hl := u32 ((setReg g .A v).hl + 4294967295) &&& 0xffff } 1, st.bus, ?_, ?_, hb, hk, h14⟩
    · show (do let v ← B.read st.bus (getReg16 g (indirectReg .HLDecrement)); _) = _
      simp only [indirectReg, bind, Except.bind, hrd]
    · have e : u32 ((setReg g .A v).hl + 4294967295) &&& 0xffff = (g.hl + 4294967295) % 4294967296 % 65536 := by
        show (g.hl + 4294967295) % 4294967296 &&& 0xffff = _
        exact Nat.and_two_pow_sub_one_eq_mod _ 16
      refine ⟨hs'.af, hs'.hl.trans ?_, hs'.de, hs'.bc, hs'.sp, hs'.ip, hs'.cy, hs'.size⟩
      show u16 (u16 g.hl + 65535) % 65536 = (u32 ((setReg g .A v).hl + 4294967295) &&& 0xffff) % 65536
      rw [e]; unfold u16; omega

/-! ### LD (BC),A / LD (DE),A / LD (HL+),A / LD (HL-),A -/

theorem straight_stBody (addr : Nat) (r : Reg8) : straight (stBody addr r) := by
  intro p hp
  simp only [stBody, List.mem_cons, List.not_mem_nil, or_false] at hp
  rcases hp with e | e | e | e | e | e | e | e | e | e | e | e <;> subst e <;>
    exact ⟨fun _ _ e => Instr.noConfusion e, fun _ e => Instr.noConfusion e⟩

theorem table_sta (b1 b2 : Nat) :
    (decodeCode (Gen.emitOp 0x02) = some (stBody 3 .A ++ [(40, addIp 1), (44, addCy 2)]) ∧ bytesOf (Gen.emitOp 0x02) = 48 ∧
      Gen.decode 0x02 b1 b2 = (.LoadToIndirect .BC .A, 1, 8)) ∧
    (decodeCode (Gen.emitOp 0x12) = some (stBody 2 .A ++ [(40, addIp 1), (44, addCy 2)]) ∧ bytesOf (Gen.emitOp 0x12) = 48 ∧
      Gen.decode 0x12 b1 b2 = (.LoadToIndirect .DE .A, 1, 8)) ∧
    (decodeCode (Gen.emitOp 0x22) = some ((stBody 1 .A ++ [(40, Instr.incdec16 false 1)]) ++ [(43, addIp 1), (47, addCy 2)]) ∧ bytesOf (Gen.emitOp 0x22) = 51 ∧
      Gen.decode 0x22 b1 b2 = (.LoadToIndirect .HLIncrement .A, 1, 8)) ∧
    (decodeCode (Gen.emitOp 0x32) = some ((stBody 1 .A ++ [(40, Instr.incdec16 true 1)]) ++ [(43, addIp 1), (47, addCy 2)]) ∧ bytesOf (Gen.emitOp 0x32) = 51 ∧
      Gen.decode 0x32 b1 b2 = (.LoadToIndirect .HLDecrement .A, 1, 8)) :=
  ⟨⟨by decide +kernel, by decide +kernel, rfl⟩, ⟨by decide +kernel, by decide +kernel, rfl⟩, ⟨by decide +kernel, by decide +kernel, rfl⟩,
   ⟨by decide +kernel, by decide +kernel, rfl⟩⟩

/-- **LD (BC),A** / **LD (DE),A** -/
theorem sim_st_a (de : Bool) (b1 b2 : Nat) : SimulatesMem (if de then 0x12 else 0x02) b1 b2 := by
  obtain ⟨⟨hdecB, hbytesB, hopB⟩, ⟨hdecD, hbytesD, hopD⟩, _⟩ := table_sta b1 b2
  cases de
  · simp only [Bool.false_eq_true, if_false]
    refine ⟨_, hdecB, ?_⟩
    intro β B _ g fuel st st' hsim hpc _ _ hrun
    rw [hbytesB] at hrun
    rw [hopB]
    show ∃ g' m', runOp B (.LoadToIndirect .BC .A) g st.bus 1 = .ok (g', m', STATUS_NORMAL) ∧ Sim { g' with cycles := g'.cycles + 8 / 4 } st' ∧ _
    rw [show (8 : Nat) / 4 = 2 from rfl]
    have hex := run_execList B _ 48 rfl (straight_app (straight_stBody 3 .A) (tail_straight 40 44 1 2)) 14 0 rfl fuel st st' (by rw [hpc]; rfl) hrun
    rw [List.drop_zero] at hex
    obtain ⟨s12, hb, ht⟩ := execList_append B 48 _ (stBody 3 .A) st st' hex
    obtain ⟨hwr, hs12, hk12, h14⟩ := st_body B 3 .BC .A g st s12 hsim hsim.bc hb
    obtain ⟨hs', hu'⟩ := sim_tail B hs12 40 44 48 1 2 (by decide) (by decide) ht
    refine ⟨advance g 1, s12.bus, ?_, ⟨hs'.af, hs'.hl, hs'.de, hs'.bc, hs'.sp, hs'.ip, hs'.cy, hs'.size⟩,
      hu'.bus, by rw [hu'.stack, hk12], by rw [hu'.r14, h14]⟩
    show (do let m ← B.write st.bus (getReg16 g (indirectReg .BC)) (getReg g .A); _) = _
    simp only [indirectReg, bind, Except.bind, hwr]
  · simp only [if_true]
    refine ⟨_, hdecD, ?_⟩
    intro β B _ g fuel st st' hsim hpc _ _ hrun
    rw [hbytesD] at hrun
    rw [hopD]
    show ∃ g' m', runOp B (.LoadToIndirect .DE .A) g st.bus 1 = .ok (g', m', STATUS_NORMAL) ∧ Sim { g' with cycles := g'.cycles + 8 / 4 } st' ∧ _
    rw [show (8 : Nat) / 4 = 2 from rfl]
    have hex := run_execList B _ 48 rfl (straight_app (straight_stBody 2 .A) (tail_straight 40 44 1 2)) 14 0 rfl fuel st st' (by rw [hpc]; rfl) hrun
    rw [List.drop_zero] at hex
    obtain ⟨s12, hb, ht⟩ := execList_append B 48 _ (stBody 2 .A) st st' hex
    obtain ⟨hwr, hs12, hk12, h14⟩ := st_body B 2 .DE .A g st s12 hsim hsim.de hb
    obtain ⟨hs', hu'⟩ := sim_tail B hs12 40 44 48 1 2 (by decide) (by decide) ht
    refine ⟨advance g 1, s12.bus, ?_, ⟨hs'.af, hs'.hl, hs'.de, hs'.bc, hs'.sp, hs'.ip, hs'.cy, hs'.size⟩,
      hu'.bus, by rw [hu'.stack, hk12], by rw [hu'.r14, h14]⟩
    show (do let m ← B.write st.bus (getReg16 g (indirectReg .DE)) (getReg g .A); _) = _
    simp only [indirectReg, bind, Except.bind, hwr]

/-- **LD (HL+),A** (the decrementing twin LD (HL-),A is left to the differential: the kernel runs into its recursion limit on the\ninterpreter's `+ 4294967295` in this shape of proof) -/
theorem sim_sti (b1 b2 : Nat) : SimulatesMem 0x22 b1 b2 := by
  obtain ⟨_, _, ⟨hdecI, hbytesI, hopI⟩, _⟩ := table_sta b1 b2
  have main : ∀ (β : Type) (B : BusOps β) (g : Regs) (fuel : Nat) (st st' : St β), Sim g st → st.pc = 0 →
      run B ((stBody 1 .A ++ [(40, Instr.incdec16 false 1)]) ++ [(43, addIp 1), (47, addCy 2)]) 51 fuel st = .ok st' →
      B.write st.bus (getReg16 g .HL) (getReg g .A) = .ok st'.bus ∧
        Sim { (setReg16 g .HL (u16 (getReg16 g .HL + 1))) with ip := g.ip + 1, cycles := g.cycles + 2 } st' ∧
        st'.stack = st.stack ∧ get st' 14 = get st 14 := by
    intro β B g fuel st st' hsim hpc hrun
    have hst : straight ((stBody 1 .A ++ [(40, Instr.incdec16 false 1)]) ++ [(43, addIp 1), (47, addCy 2)]) :=
      straight_app (straight_app (straight_stBody 1 .A) (straight_one _ _ (fun _ _ e => Instr.noConfusion e) (fun _ e => Instr.noConfusion e)))
        (tail_straight 43 47 1 2)
    have hex := run_execList B _ 51 rfl hst 15 0 rfl fuel st st' (by rw [hpc]; rfl) hrun
    rw [List.drop_zero] at hex
    obtain ⟨s13, hb, ht⟩ := execList_append B 51 _ _ st st' hex
    obtain ⟨s12, hb1, hb2⟩ := execList_append B _ _ (stBody 1 .A) st s13 hb
    obtain ⟨hwr, hs12, hk12, h14⟩ := st_body B 1 .HL .A g st s12 hsim hsim.hl hb1
    obtain ⟨s15, hi, hnil⟩ := execList_cons B _ _ _ _ _ _ hb2
    have := execList_nil B _ _ _ hnil
    subst this
    have hv := step_incdec16 B s12 s13 false 1 _ (by decide) hs12.size hi
    obtain ⟨hs13, hu13⟩ := step16_sim B .HL _ (u16 (getReg16 g .HL + 1)) g s12 s13 _ hs12 hi rfl
      (by intro e; cases e) (fun _ e => by cases e) (fun _ e => by cases e) (fun e => by cases e) (fun e => by cases e)
      (fun _ _ _ _ e => by cases e) (fun _ _ _ e => by cases e) (by
        show (get s13 1).toNat % 65536 = _
        rw [hv]
        have h1 := hs12.hl
        show ((get s12 1).toNat + _) % 65536 = u16 (u16 g.hl + _) % 65536
        unfold u16
        simp only [Bool.false_eq_true, if_false]; omega)
    obtain ⟨hs', hu'⟩ := sim_tail B hs13 43 47 51 1 2 (by decide) (by decide) ht
    exact ⟨by rw [hu'.bus, hu13.bus]; exact hwr, ⟨hs'.af, hs'.hl, hs'.de, hs'.bc, hs'.sp, hs'.ip, hs'.cy, hs'.size⟩,
      by rw [hu'.stack, hu13.stack, hk12], by rw [hu'.r14, hu13.r14, h14]⟩
  refine ⟨_, hdecI, ?_⟩
  intro β B _ g fuel st st' hsim hpc _ _ hrun
  rw [hbytesI] at hrun
  rw [hopI]
  show ∃ g' m', runOp B (.LoadToIndirect .HLIncrement .A) g st.bus 1 = .ok (g', m', STATUS_NORMAL) ∧ Sim { g' with cycles := g'.cycles + 8 / 4 } st' ∧ _
  rw [show (8 : Nat) / 4 = 2 from rfl]
  obtain ⟨hwr, hs', hk, h14⟩ := main β B g fuel st st' hsim hpc hrun
  refine ⟨advance { g with hl := u32 (g.hl + 1) &&& 0xffff } 1, st'.bus, ?_, ?_, rfl, hk, h14⟩
  · show (do let m ← B.write st.bus (getReg16 g (indirectReg .HLIncrement)) (getReg g .A); _) = _
    simp only [indirectReg, bind, Except.bind, hwr]
  · have e : u32 (g.hl + 1) &&& 0xffff = (g.hl + 1) % 4294967296 % 65536 := by
      show (g.hl + 1) % 4294967296 &&& 0xffff = _
      exact Nat.and_two_pow_sub_one_eq_mod _ 16
    refine ⟨hs'.af, hs'.hl.trans ?_, hs'.de, hs'.bc, hs'.sp, hs'.ip, hs'.cy, hs'.size⟩
    show u16 (u16 g.hl + 1) % 65536 = (u32 (g.hl + 1) &&& 0xffff) % 65536
    rw [e]; unfold u16; omega

end GbVerif.X86
