import GbVerif.Proofs.Sm83Abs
/-!
DAA / CPL / SCF / CCF, the 16-bit arithmetic (ADD HL,rp; SP + signed e8; INC/DEC rp), HL post-increment /
post-decrement and the stack primitives `push` / `pop`, on concretised SM83 states.
-/
namespace GbVerif.C05
open GbVerif.Interp GbVerif.Sm83Bits GbVerif.Enum
open GbVerif.SM83 (Cpu mkF flagZ flagN flagH flagC)

/-! ### DAA -/

/-- DAA: for every accumulator value and every flag nibble the interpreter's `interp_daa` produces the SM83
decimal-adjust result and flags (4096 cases enumerated by the kernel) -/
theorem daa_enum : ∀ n, n < 2^12 →
    let af := (n / 16) * 256 + (n % 16) * 16
    (daa { af := af }).af = (SM83.daa (af / 256) (af % 256)).1 * 256 + (SM83.daa (af / 256) (af % 256)).2 := by
  intro n hn
  have := forall_lt_of_allRange (fun n =>
    let af := (n / 16) * 256 + (n % 16) * 16
    (daa { af := af }).af == (SM83.daa (af / 256) (af % 256)).1 * 256 + (SM83.daa (af / 256) (af % 256)).2) 12 (by decide +kernel) n hn
  simpa using this

theorem daa_wf (a f : Nat) : (SM83.daa a f).1 < 256 ∧ (SM83.daa a f).2 < 256 ∧ (SM83.daa a f).2 % 16 = 0 := by
  unfold SM83.daa
  simp only []
  split
  · exact ⟨Nat.mod_lt _ (by decide), mkF_lt .., mkF_mod ..⟩
  · exact ⟨Nat.mod_lt _ (by decide), mkF_lt .., mkF_mod ..⟩

theorem daa_conc {c : Cpu} (hc : CWF c) (k : Nat) :
    daa (conc c k) = conc { c with a := (SM83.daa c.a c.f).1, f := (SM83.daa c.a c.f).2 } k ∧
    CWF { c with a := (SM83.daa c.a c.f).1, f := (SM83.daa c.a c.f).2 } := by
  obtain ⟨ha, hf, hf0, hb, hc', hd, he, hh, hl, hsp, hpc⟩ := hc
  obtain ⟨w1, w2, w3⟩ := daa_wf c.a c.f
  have h0 : daa (conc c k) = { conc c k with af := (daa { af := (conc c k).af }).af } := rfl
  have h := daa_enum (c.a * 16 + c.f / 16) (by omega)
  simp only [] at h
  have e0 : (c.a * 16 + c.f / 16) / 16 * 256 + (c.a * 16 + c.f / 16) % 16 * 16 = c.a * 256 + c.f := by omega
  have e1 : (c.a * 256 + c.f) / 256 = c.a := by omega
  have e2 : (c.a * 256 + c.f) % 256 = c.f := by omega
  rw [e0, e1, e2] at h
  refine ⟨?_, ?_⟩
  · rw [h0, conc_af, h]; rfl
  · constructor <;> assumption

/-! ### CPL / SCF / CCF -/

theorem cpl_conc {c : Cpu} (hc : CWF c) (k : Nat) :
    orF (orF (setReg (conc c k) .A (u8 (getReg (conc c k) .A ^^^ 0xff))) 0x40) 0x20 =
      conc { c with a := 255 - c.a, f := mkF (flagZ c.f) true true (flagC c.f) } k ∧
    CWF { c with a := 255 - c.a, f := mkF (flagZ c.f) true true (flagC c.f) } := by
  have ha := hc.ha
  have hx : u8 (SM83.getR c (idx .A) ^^^ 0xff) = 255 - c.a := by
    simp only [idx, SM83.getR, u8]; rw [xor_ff _ ha]; omega
  have hl : 255 - c.a < 256 := by omega
  have hc2 := cwf_setA hc _ hl
  rw [getReg_conc hc, hx, setReg_conc hc k .A _ hl]
  simp only [idx, SM83.setR]
  have e : ({ c with a := 255 - c.a } : Cpu) = { ({ c with a := 255 - c.a } : Cpu) with
      f := mkF (flagZ c.f) (flagN c.f) (flagH c.f) (flagC c.f) } := cpu_f_eq hc2
  rw [e, orF40_mkF hc2, orF20_mkF hc2]
  exact ⟨rfl, cwf_mkF hc2 ..⟩

theorem scf_conc {c : Cpu} (hc : CWF c) (k : Nat) :
    orF (applyMask (conc c k) 0x70) 0x10 = conc { c with f := mkF (flagZ c.f) false false true } k ∧
    CWF { c with f := mkF (flagZ c.f) false false true } := by
  rw [mask_70 hc, orF10_mkF hc]
  exact ⟨rfl, cwf_mkF hc ..⟩

theorem ccf_conc {c : Cpu} (hc : CWF c) (k : Nat) :
    { applyMask (conc c k) 0x60 with af := (applyMask (conc c k) 0x60).af ^^^ 0x10 } =
      conc { c with f := mkF (flagZ c.f) false false (!flagC c.f) } k ∧
    CWF { c with f := mkF (flagZ c.f) false false (!flagC c.f) } := by
  have ha := hc.ha
  have hm := mkF_lt (flagZ c.f) false false (flagC c.f)
  rw [mask_60 hc]
  refine ⟨?_, cwf_mkF hc ..⟩
  simp only [conc, Regs.mk.injEq, and_true]
  rw [xor_low _ _ (by decide)]
  have e1 : (c.a * 256 + mkF (flagZ c.f) false false (flagC c.f)) / 256 = c.a := by omega
  have e2 : (c.a * 256 + mkF (flagZ c.f) false false (flagC c.f)) % 256 = mkF (flagZ c.f) false false (flagC c.f) := by omega
  rw [e1, e2, mkF_xor_10]

/-! ### 16-bit arithmetic -/

theorem carryAdd16_eq (a b : Nat) :
    carryAdd16 a b = ((a + b) % 65536, decide (a + b ≥ 65536), decide (a % 4096 + b % 4096 ≥ 4096)) := by
  simp only [carryAdd16, u16, and_fff, and_1000_ne, Prod.mk.injEq, decide_eq_decide, true_and]; omega

/-- ADD HL,rp -/
theorem addHL_conc {c : Cpu} (hc : CWF c) (k : Nat) (src : Reg16) (hs : src ≠ .AF) :
    testHalf (testCarry (applyMask (setReg16 (conc c k) .HL
        (carryAdd16 (getReg16 (conc c k) .HL) (getReg16 (conc c k) src)).1) 0x70)
        (carryAdd16 (getReg16 (conc c k) .HL) (getReg16 (conc c k) src)).2.1)
        (carryAdd16 (getReg16 (conc c k) .HL) (getReg16 (conc c k) src)).2.2 =
      conc { SM83.setHL c ((SM83.hl c + SM83.getRP c (idx16 src)) % 65536) with
        f := mkF (flagZ c.f) false (decide (SM83.hl c % 4096 + SM83.getRP c (idx16 src) % 4096 ≥ 4096))
          (decide (SM83.hl c + SM83.getRP c (idx16 src) ≥ 65536)) } k ∧
    CWF { SM83.setHL c ((SM83.hl c + SM83.getRP c (idx16 src)) % 65536) with
        f := mkF (flagZ c.f) false (decide (SM83.hl c % 4096 + SM83.getRP c (idx16 src) % 4096 ≥ 4096))
          (decide (SM83.hl c + SM83.getRP c (idx16 src) ≥ 65536)) } := by
  have hl := Nat.mod_lt (SM83.hl c + SM83.getRP c (idx16 src)) (show 0 < 65536 by decide)
  have hc2 := cwf_setHL hc ((SM83.hl c + SM83.getRP c (idx16 src)) % 65536)
  rw [getHL_conc hc, getReg16_conc hc k src hs, carryAdd16_eq, setHL_conc k _ hl, mask_70 hc2,
    testCarry_mkF hc2, testHalf_mkF hc2]
  simp only [Bool.false_or]
  exact ⟨rfl, cwf_mkF hc2 ..⟩

/-- SP + signed 8-bit offset: 16-bit result and the two carries from the unsigned low-byte addition -/
theorem addSigned_eq (sp e : Nat) (he : e < 256) :
    addSigned sp e = ((SM83.spPlus sp e).1, decide (sp % 256 + e ≥ 256), decide (sp % 16 + e % 16 ≥ 16)) := by
  have hx := xor_ff e he
  simp only [addSigned, u16, and_ff, and_0f, and_100_ne, and_10_ne, and_80_eq, SM83.spPlus, Prod.mk.injEq,
    decide_eq_decide, hx]
  refine ⟨?_, by omega, by omega⟩
  by_cases h : e < 128
  · have h1 : e / 128 % 2 = 0 := by omega
    simp only [h1, decide_true, if_true, h]
  · have h1 : ¬ (e / 128 % 2 = 0) := by omega
    simp only [h1, decide_false, h, if_false]
    have : (255 - e + 1) % 65536 = 256 - e := by omega
    rw [this]; simp only [Bool.false_eq_true, if_false]; omega

theorem spPlus_flags (sp e : Nat) :
    (SM83.spPlus sp e).2 = mkF false false (decide (sp % 16 + e % 16 ≥ 16)) (decide (sp % 256 + e ≥ 256)) := rfl

theorem spPlus_lt (sp e : Nat) : (SM83.spPlus sp e).1 < 65536 := by
  simp only [SM83.spPlus]; exact Nat.mod_lt _ (by decide)

theorem setSP_conc (c : Cpu) (k v : Nat) : setReg16 (conc c k) .SP v = conc { c with sp := v } k := rfl

/-- ADD SP,e -/
theorem addSP_conc {c : Cpu} (hc : CWF c) (k e : Nat) (he : e < 256) :
    testHalf (testCarry (applyMask (setReg16 (conc c k) .SP (addSigned (getReg16 (conc c k) .SP) e).1) 0xf0)
        (addSigned (getReg16 (conc c k) .SP) e).2.1) (addSigned (getReg16 (conc c k) .SP) e).2.2 =
      conc { c with sp := (SM83.spPlus c.sp e).1, f := (SM83.spPlus c.sp e).2 } k ∧
    CWF { c with sp := (SM83.spPlus c.sp e).1, f := (SM83.spPlus c.sp e).2 } := by
  have hc2 := cwf_setSP hc _ (spPlus_lt c.sp e)
  rw [getSP_conc hc, addSigned_eq _ _ he, setSP_conc, mask_f0 hc2, testCarry_mkF hc2, testHalf_mkF hc2, spPlus_flags]
  simp only [Bool.false_or]
  exact ⟨trivial, cwf_mkF hc2 ..⟩

/-- LD HL,SP+e -/
theorem ldHLSP_conc {c : Cpu} (hc : CWF c) (k e : Nat) (he : e < 256) :
    testHalf (testCarry (applyMask (setReg16 (conc c k) .HL (addSigned (getReg16 (conc c k) .SP) e).1) 0xf0)
        (addSigned (getReg16 (conc c k) .SP) e).2.1) (addSigned (getReg16 (conc c k) .SP) e).2.2 =
      conc { SM83.setHL c (SM83.spPlus c.sp e).1 with f := (SM83.spPlus c.sp e).2 } k ∧
    CWF { SM83.setHL c (SM83.spPlus c.sp e).1 with f := (SM83.spPlus c.sp e).2 } := by
  have hc2 := cwf_setHL hc (SM83.spPlus c.sp e).1
  rw [getSP_conc hc, addSigned_eq _ _ he, setHL_conc k _ (spPlus_lt c.sp e), mask_f0 hc2, testCarry_mkF hc2,
    testHalf_mkF hc2, spPlus_flags]
  simp only [Bool.false_or]
  exact ⟨trivial, cwf_mkF hc2 ..⟩

/-- INC rp / DEC rp (`d` = 1 or 65535) -/
theorem incdec16_conc {c : Cpu} (hc : CWF c) (k d : Nat) (reg : Reg16) (hr : reg ≠ .AF) :
    setReg16 (conc c k) reg (u16 (getReg16 (conc c k) reg + d)) =
      conc (SM83.setRP c (idx16 reg) ((SM83.getRP c (idx16 reg) + d) % 65536)) k := by
  rw [getReg16_conc hc k reg hr, u16, setReg16_conc k reg hr _ (Nat.mod_lt _ (by decide))]

/-- HL post-increment / post-decrement of LDI / LDD (`d` = 1 or 4294967295) -/
theorem hlStep_conc {c : Cpu} (hc : CWF c) (k d : Nat) :
    { conc c k with hl := u32 ((conc c k).hl + d) &&& 0xffff } = conc (SM83.setHL c ((SM83.hl c + d) % 65536)) k := by
  have h1 := hc.hh; have h2 := hc.hl
  simp only [conc, SM83.setHL, SM83.hl, u32, and_ffff, Regs.mk.injEq, true_and, and_true]
  omega

/-! ### stack -/

variable {β : Type}

theorem push_conc (B : BusOps β) {c : Cpu} (hc : CWF c) (k v : Nat) (m : β) :
    push B v (conc c k) m =
      (B.write m ((c.sp + 65535) % 65536) (v / 256 % 256)).bind fun m1 =>
        (B.write m1 ((c.sp + 65534) % 65536) (v % 256)).bind fun m2 =>
          .ok (conc { c with sp := (c.sp + 65534) % 65536 } k, m2) := by
  have e : u16 (u16 (c.sp + 65535) + 65535) = (c.sp + 65534) % 65536 := by simp only [u16]; omega
  simp only [push, getSP_conc hc, shr8, and_ff, setSP_conc, e]
  rfl

theorem pop_conc (B : BusOps β) {c : Cpu} (hc : CWF c) (k : Nat) (m : β) :
    pop B (conc c k) m =
      (B.read m c.sp).bind fun lo => (B.read m ((c.sp + 1) % 65536)).bind fun hi =>
        .ok ((hi <<< 8) ||| lo, conc { c with sp := (c.sp + 2) % 65536 } k) := by
  have e : u16 (u16 (c.sp + 1) + 1) = (c.sp + 2) % 65536 := by simp only [u16]; omega
  simp only [pop, getSP_conc hc, setSP_conc, e]
  rfl

theorem pair_val (hi lo : Nat) (h : lo < 256) : (hi <<< 8) ||| lo = hi * 256 + lo := by
  rw [shl8, or_lo _ _ h]

end GbVerif.C05
