import GbVerif.Proofs.SysFrame
import GbVerif.Proofs.SysBatch
/-!
One invariant for the whole machine (`Core.update Sys.dev` / `updateBlock Sys.dev`): buffer sizes, timer and DMA
bookkeeping in range, the LCD on the schedule of the delivered clocks with its frame count, time conservation, and the
pending-cycle bound — everything the whole-machine theorems (no panic in the passage of time, batch independence,
`run_frame` termination) assume holds in every state a program can reach.
-/
namespace GbVerif.SysProofs
open GbVerif GbVerif.Bus GbVerif.BusProofs GbVerif.Core GbVerif.Interp GbVerif.CoreProofs

macro "wri" h:ident : tactic => `(tactic| (
  obtain ⟨x, _, $h:ident⟩ := GbVerif.CoreProofs.bind_ok_elim $h:ident
  injection $h:ident with $h:ident; subst $h:ident; exact Or.inl rfl))

/-- what a completed write does to the I/O block, for any address value: nothing, IE, or one register write -/
theorem write_io_effect {s s' : Bus.State} {a v : Nat} (h46 : a ≠ 0xff46) (h : Bus.write s a v = .ok s') :
    s'.io = s.io ∨ s'.io = { s.io with ie := v &&& 0x1f, ieUpper := v &&& 0xe0 } ∨ s'.io = s.io.setByte a v := by
  unfold Bus.write at h
  by_cases h1 : a < 0x8000
  · rw [if_pos h1] at h; injection h with h; subst h; exact Or.inl rfl
  rw [if_neg h1] at h
  by_cases h2 : a < 0xa000
  · rw [if_pos h2] at h; wri h
  rw [if_neg h2] at h
  by_cases h3 : a < 0xc000
  · rw [if_pos h3] at h
    simp only [] at h
    split at h
    · injection h with h; subst h; exact Or.inl rfl
    · split at h
      · wri h
      · injection h with h; subst h; exact Or.inl rfl
  rw [if_neg h3] at h
  by_cases h4 : a < 0xd000
  · rw [if_pos h4] at h; wri h
  rw [if_neg h4] at h
  by_cases h5 : a < 0xe000
  · rw [if_pos h5] at h; wri h
  rw [if_neg h5] at h
  by_cases h6 : a < 0xfe00
  · rw [if_pos h6] at h; injection h with h; subst h; exact Or.inl rfl
  rw [if_neg h6] at h
  by_cases h7 : a < 0xfea0
  · rw [if_pos h7] at h; wri h
  rw [if_neg h7] at h
  by_cases h8 : a < 0xff00
  · rw [if_pos h8] at h; injection h with h; subst h; exact Or.inl rfl
  rw [if_neg h8] at h
  by_cases h9 : a < 0xff80
  · rw [if_pos h9] at h
    have : (a == 0xff46) = false := by simpa using h46
    rw [this] at h
    simp only [Bool.false_eq_true, if_false] at h
    injection h with h; subst h; exact Or.inr (Or.inr rfl)
  rw [if_neg h9] at h
  split at h
  · injection h with h; subst h; exact Or.inr (Or.inl rfl)
  · wri h

/-- the bus side of the machine invariant -/
def BusOk (b : Bus.State) : Prop := WF b ∧ IoOk b.io ∧ DmaOk b

theorem write_busOk {s s' : Bus.State} {a v : Nat} (ok : BusOk s) (h : Bus.write s a v = .ok s') : BusOk s' := by
  obtain ⟨wf, io, hd⟩ := ok
  refine ⟨wf_write wf h, ?_, ?_⟩
  · by_cases h46 : a = 0xff46
    · subst h46
      rw [write_io s 0xff46 v (by decide) (by decide)] at h
      simp only [beq_self_eq_true, if_true] at h
      injection h with h; subst h; exact io
    · rcases write_io_effect h46 h with e | e | e
      · rw [e]; exact io
      · rw [e]; exact io
      · rw [e]; exact setByte_ioOk _ _ _ io
  · intro src off he
    by_cases h46 : a = 0xff46
    · subst h46
      rw [write_io s 0xff46 v (by decide) (by decide)] at h
      simp only [beq_self_eq_true, if_true] at h
      injection h with h; subst h
      simp only [Option.some.injEq, Prod.mk.injEq] at he
      omega
    · rw [write_dma h46 h] at he
      exact hd src off he

theorem runOp_busOk {op : Op} {r r' : Regs} {s s' : Bus.State} {len st : Nat} (ok : BusOk s)
    (h : runOp Cpu.busOps op r s len = .ok (r', s', st)) : BusOk s' :=
  runOp_inv Cpu.busOps BusOk (fun _ _ _ _ hw hp => write_busOk hp hw) op r s len r' s' st h ok

theorem runNextOp_busOk {r r' : Regs} {s s' : Bus.State} {st : Nat} {e : Bool} (ok : BusOk s)
    (h : Cpu.runNextOp r s = .ok (r', s', st, e)) : BusOk s' := by
  unfold Cpu.runNextOp at h
  obtain ⟨⟨b0, b1, b2⟩, _, h⟩ := bind_ok_elim h
  simp only [] at h
  generalize Gen.decode b0 b1 b2 = d at h
  obtain ⟨op, len, clocks⟩ := d
  simp only [] at h
  obtain ⟨⟨r1, s1, st1⟩, h1, h⟩ := bind_ok_elim h
  injection h with h; injection h with h2 h3; injection h3 with h3 h4; subst h3
  exact runOp_busOk ok h1

/-- the block loop: bus invariant kept, and at most nine machine cycles charged per unit of fuel -/
theorem runCodeBlockAux_busOk (start : Nat) : ∀ (fuel : Nat) (r : Regs) (s : Bus.State) (st : Nat) (r' : Regs) (s' : Bus.State) (st' : Nat),
    BusOk s → Cpu.runCodeBlockAux start r s st fuel = .ok (r', s', st') → BusOk s' ∧ r'.cycles ≤ r.cycles + 9 * fuel := by
  intro fuel
  induction fuel with
  | zero => intro r s st r' s' st' _ h; cases h
  | succ n ih =>
    intro r s st r' s' st' ok h
    rw [Cpu.runCodeBlockAux] at h
    split at h
    · injection h with h; injection h with h1 h2; injection h2 with h2 h3; subst h1 h2; exact ⟨ok, by omega⟩
    · obtain ⟨⟨r1, s1, st1, stop⟩, h1, h⟩ := bind_ok_elim h
      have ok1 := runNextOp_busOk ok h1
      have hc := runNextOp_cycles h1
      simp only [] at h
      split at h
      · injection h with h; injection h with h2 h3; injection h3 with h3 h4; subst h2 h3; exact ⟨ok1, by omega⟩
      · obtain ⟨i1, i2⟩ := ih _ _ _ _ _ _ ok1 h
        exact ⟨i1, by omega⟩

theorem handleInterrupt_busOk {c c' : Core.State} (ok : BusOk c.bus) (h : handleInterrupt c = .ok c') : BusOk c'.bus := by
  unfold handleInterrupt at h
  split at h
  · injection h with h; subst h; exact ok
  · simp only [] at h
    split at h
    · injection h with h; subst h; exact ok
    · obtain ⟨b1, h1, h⟩ := bind_ok_elim h
      obtain ⟨b2, h2, h⟩ := bind_ok_elim h
      injection h with h; subst h
      obtain ⟨wf2, io2, hd2⟩ := write_busOk (write_busOk ok h1) h2
      exact ⟨⟨wf2.1, wf2.2, wf2.3, wf2.4, wf2.5, wf2.6⟩, io2, hd2⟩

/-- **the machine invariant** -/
def MachineOk (c : Core.State) : Prop := BusOk c.bus ∧ SysInv c ∧ TimeInv c ∧ Small c

theorem catchUp_busOk {c c' : Core.State} {record : Bool} (ok : BusOk c.bus) (hb : c.regs.cycles * 4 < 2 ^ 32 - 65536)
    (h : catchUp Sys.dev c record = .ok c') : BusOk c'.bus := by
  rw [catchUp_eq] at h
  obtain ⟨bus, h1, h⟩ := bind_ok_elim h
  obtain ⟨wf1, io1, hd1⟩ := dev_keeps ok.1 ok.2.1 ok.2.2 (by omega) hb h1
  exact handleInterrupt_busOk (c := sampled c bus record) ⟨wf1, io1, hd1⟩ h

/-- one step of `Core::update` (instruction stepping) keeps the machine invariant -/
theorem update_machineOk {c c' : Core.State} (ok : MachineOk c) (h : update Sys.dev c = .ok c') : MachineOk c' := by
  obtain ⟨bo, si, ti, sm⟩ := ok
  refine ⟨?_, update_inv h si, update_timeInv ti h, update_small sm h⟩
  by_cases hr : c.run = .Run
  · rw [update_run _ _ hr, runInterp_eq] at h
    obtain ⟨⟨r, b, st, e⟩, h1, h⟩ := bind_ok_elim h
    have hc := runNextOp_cycles h1
    have := sm.1
    refine catchUp_busOk (c := afterOp c r b st) (runNextOp_busOk bo h1) ?_ h
    show r.cycles * 4 < _
    omega
  · rw [update_halted _ _ hr] at h
    obtain ⟨bus, h1, h⟩ := bind_ok_elim h
    obtain ⟨wf1, io1, hd1⟩ := dev_keeps bo.1 bo.2.1 bo.2.2 (k := 4) (by decide) (by decide) h1
    exact handleInterrupt_busOk (c := sampledHalted c bus) ⟨wf1, io1, hd1⟩ h

/-- … and so does one step with block stepping (`jit` feature), whatever the block length -/
theorem updateBlock_machineOk {c c' : Core.State} (ok : MachineOk c) (h : updateBlock Sys.dev c = .ok c') : MachineOk c' := by
  obtain ⟨bo, si, ti, sm⟩ := ok
  refine ⟨?_, updateBlock_inv h si, updateBlock_timeInv ti h, updateBlock_small sm h⟩
  unfold updateBlock at h
  split at h
  · rw [runCodeBlockInterp_eq] at h
    obtain ⟨⟨r, b, st⟩, h1, h⟩ := bind_ok_elim h
    obtain ⟨ok1, hc⟩ := runCodeBlockAux_busOk _ _ _ _ _ _ _ _ bo h1
    have := sm.1
    refine catchUp_busOk (c := afterBlock c r b st) ok1 ?_ h
    show r.cycles * 4 < _
    omega
  · exact (update_machineOk ⟨bo, si, ti, sm⟩ h).1

/-- a freshly created machine satisfies it -/
theorem machineOk_create (kind : Cart.Kind) (romBanks ramBytes : Nat) (rom : Nat → Nat) (regs : Regs) (h : 2 ≤ romBanks)
    (hc : regs.cycles = 0) :
    MachineOk { regs := regs, bus := Bus.create kind romBanks ramBytes rom } := by
  refine ⟨⟨wf_create kind romBanks ramBytes rom h, ⟨by show (0 : Nat) < 65536; decide, by show (0 : Nat) < 65536; decide⟩,
    fun _ _ he => by cases he⟩, sysInv_create kind romBanks ramBytes rom regs, ?_, ?_⟩
  · show 0 + 4 * regs.cycles = 4 * 0
    omega
  · exact ⟨by show regs.cycles ≤ 5; omega, fun _ => hc⟩

end GbVerif.SysProofs
