import GbVerif.Proofs.BusFrame
import GbVerif.Spec.BusSpec
import GbVerif.Model.Fetch
/-!
I/O-window lemmas for C10: unassigned addresses, register read-back on the defined bits, and the fetch view.
-/
namespace GbVerif.BusProofs
open GbVerif.Bus

/-- 0xFF00 | low has low byte `low` -/
theorem io_low (low : Nat) (h : low < 128) : (0xff00 + low) &&& 0xff = low := by
  rw [and_ff]; omega

/-- an I/O address no register is assigned to reads 0xff … -/
theorem getByte_unassigned (io : Io) (low : Nat) (h : low < 128) (hu : BusSpec.ioUnassigned low = true) :
    io.getByte (0xff00 + low) = 0xff := by
  unfold Io.getByte
  rw [io_low low h]
  split <;> first | rfl | (exfalso; revert hu; decide)

/-- … and ignores writes -/
theorem setByte_unassigned (io : Io) (low v : Nat) (h : low < 128) (hu : BusSpec.ioUnassigned low = true) :
    io.setByte (0xff00 + low) v = io := by
  unfold Io.setByte
  rw [io_low low h]
  split <;> first | rfl | (exfalso; revert hu; decide)

/-! ### bit facts (kernel enumeration over the byte) -/

theorem if_readback : ∀ v, v < 256 → ((v &&& 0x1f) ||| 0xe0) &&& 0x1f = v &&& 0x1f := by decide +kernel

theorem stat_readback : ∀ v, v < 256 → ∀ mode, mode < 4 → ∀ c : Bool,
    ((if v &&& 0x40 != 0 then 0x40 else 0) ||| (if v &&& 0x20 != 0 then 0x20 else 0) |||
     (if v &&& 0x10 != 0 then 0x10 else 0) ||| (if v &&& 0x08 != 0 then 0x08 else 0) |||
     (if c then 4 else 0) ||| mode) &&& 0x78 = v &&& 0x78 := by decide +kernel

theorem p1_select_bits : ∀ v, v < 256 →
    v &&& 0x30 = (if v &&& 0x10 == 0 then 0 else 0x10) ||| (if v &&& 0x20 == 0 then 0 else 0x20) := by decide +kernel

theorem p1_value_bits : ∀ sd sa : Bool, ∀ d, d < 16 → ∀ a, a < 16 →
    (((if sa then (if sd then 0xc0 ||| 0x10 ||| d else 0xc0) ||| 0x20 ||| a else (if sd then 0xc0 ||| 0x10 ||| d else 0xc0))
      ^^^ 0xff) % 256) &&& 0x30 = (if sd then 0 else 0x10) ||| (if sa then 0 else 0x20) := by decide +kernel

theorem getValue_stepSel (j : Joypad.State) (sd sa : Bool) :
    Joypad.getValue (Joypad.stepSel j sd sa) = Joypad.getValue { j with selDirection := sd, selAction := sa } := by
  unfold Joypad.stepSel
  simp only []
  split <;> rfl

/-- P1 read-back of the two select bits (button state below 16, as the joypad model keeps it) -/
theorem p1_readback (j : Joypad.State) (v : Nat) (hv : v < 256) (hd : j.direction < 16) (ha : j.action < 16) :
    Joypad.getValue (Joypad.step j (.select v)) &&& 0x30 = v &&& 0x30 := by
  show Joypad.getValue (Joypad.stepSel j (v &&& 0x10 == 0) (v &&& 0x20 == 0)) &&& 0x30 = _
  rw [getValue_stepSel, p1_select_bits v hv]
  exact p1_value_bits (v &&& 0x10 == 0) (v &&& 0x20 == 0) j.direction hd j.action ha

theorem stepSel_buttons (j : Joypad.State) (sd sa : Bool) :
    (Joypad.stepSel j sd sa).action = j.action ∧ (Joypad.stepSel j sd sa).direction = j.direction := by
  unfold Joypad.stepSel
  simp only []
  split <;> exact ⟨rfl, rfl⟩

/-- no register write changes the button state or the LCD mode -/
theorem setByte_buttons_mode (io : Io) (a v : Nat) :
    (io.setByte a v).joy.action = io.joy.action ∧ (io.setByte a v).joy.direction = io.joy.direction ∧
    (io.setByte a v).video.mode = io.video.mode := by
  unfold Io.setByte
  split
  · exact ⟨(stepSel_buttons io.joy _ _).1, (stepSel_buttons io.joy _ _).2, rfl⟩
  all_goals exact ⟨rfl, rfl, rfl⟩

/-- what a completed write can do to the I/O block: nothing, IE, or one register write -/
theorem write_io_cases {s s' : State} (wf : WF s) {a v : Nat} (ha : a < 65536) (h : write s a v = .ok s') :
    s'.io = s.io ∨ s'.io = { s.io with ie := v &&& 0x1f, ieUpper := v &&& 0xe0 } ∨ s'.io = s.io.setByte a v := by
  rcases regions a ha with h1 | ⟨h1, h2⟩ | ⟨h1, h2⟩ | ⟨h1, h2⟩ | ⟨h1, h2⟩ | ⟨h1, h2⟩ | ⟨h1, h2⟩ | ⟨h1, h2⟩ | ⟨h1, h2⟩ | ⟨h1, h2⟩ | h1
  · rw [write_rom s a v (by omega)] at h; injection h with h; subst h; exact Or.inl rfl
  · rw [write_rom s a v (by omega)] at h; injection h with h; subst h; exact Or.inl rfl
  · rw [write_vram_wf wf v h1 h2] at h; injection h with h; subst h; exact Or.inl rfl
  · rw [write_cram_wf wf v h1 h2] at h; injection h with h; subst h; exact Or.inl rfl
  · rw [write_wram_wf wf v h1 h2] at h; injection h with h; subst h; exact Or.inl rfl
  · rw [write_echo s a v h1 h2] at h; injection h with h; subst h; exact Or.inl rfl
  · rw [write_oam_wf wf v h1 h2] at h; injection h with h; subst h; exact Or.inl rfl
  · rw [write_unused s a v h1 h2] at h; injection h with h; subst h; exact Or.inl rfl
  · rw [write_io s a v h1 h2] at h
    split at h
    · injection h with h; subst h; exact Or.inl rfl
    · injection h with h; subst h; exact Or.inr (Or.inr rfl)
  · rw [write_hram_wf wf v h1 h2] at h; injection h with h; subst h; exact Or.inl rfl
  · rw [write_ie s a v h1] at h; injection h with h; subst h; exact Or.inr (Or.inl rfl)

/-! ### instruction fetch -/

theorem fetch_rom {s : State} (wf : WF s) {a : Nat} (h : a < 0x8000) : fetchByte s a = read s a := by
  have := wf.romLen; have := wf.banks; have := getRomBank_lt s.cart wf.banks
  unfold fetchByte
  by_cases h0 : a < 0x4000
  · rw [if_pos h0, if_pos (by omega), read_rom0_wf wf h0]
  · rw [if_neg h0, if_pos h, read_romx_wf wf (by omega) h]
    show (if Cart.getRomBank s.cart * 0x4000 + 0x4000 ≤ s.romLen
      then Except.ok (s.rom ((a &&& 0x3fff) + Cart.getRomBank s.cart * 0x4000)) else _) = _
    rw [if_pos (by omega), and_3fff,
      show a % 0x4000 + Cart.getRomBank s.cart * 0x4000 = 0x4000 * Cart.getRomBank s.cart + (a - 0x4000) by omega]

theorem fetch_wram {s : State} (wf : WF s) {a : Nat} (h1 : 0xc000 ≤ a) (h2 : a < 0xe000) : fetchByte s a = read s a := by
  have := wf.wram
  unfold fetchByte
  rw [if_neg (by omega), if_neg (by omega)]
  by_cases h : a < 0xd000
  · rw [if_pos (Or.inl ⟨h1, h⟩), if_pos (by omega), read_wram0 s a h1 h]
  · rw [if_neg (by omega), if_pos (Or.inl ⟨by omega, h2⟩), read_wramx s a (by omega) h2]
    show (if 1 * 0x1000 + 0x1000 ≤ s.wram.size then rd "wramx" s.wram ((a &&& 0xfff) + 1 * 0x1000) else _) = _
    rw [if_pos (by omega), show (a &&& 0xfff) + 1 * 0x1000 = 0x1000 + (a &&& 0xfff) by omega]

theorem fetch_hram {s : State} {a : Nat} (h1 : 0xff80 ≤ a) (h2 : a < 0xffff) : fetchByte s a = read s a := by
  unfold fetchByte
  rw [if_neg (by omega), if_neg (by omega), if_neg (by omega), if_neg (by omega), if_pos ⟨h1, h2⟩,
    read_hram s a h1 (by omega)]

end GbVerif.BusProofs
