import GbVerif.Proofs.X86SimCb
import GbVerif.Proofs.X86Status
/-
C01, the data side, CB page: BIT b,r for the seven registers and the eight bits (56 encodings).  The template uses r14b
(the block's status byte) as scratch through the zero-flag idiom and leaves 0 or 0x80 there: a status of class normal.
The host code clears the low nibble of F, the interpreter keeps it: the two agree on the register files the machine can
reach (F's low nibble is always 0: every instruction that writes F clears it or copies it, POP AF masks it).
-/
namespace GbVerif.X86
open GbVerif.JitCycles GbVerif.Interp
variable {β : Type}

def opcodeBit (b : Fin 8) (r : Reg8) : Nat := 0x40 + 8 * b.val + r8code r

def bitBody (b : Fin 8) (r : Reg8) : List (Nat × Instr) :=
  [(0, Instr.test8i (hostR8 r) (bitMask b)), (3, Instr.sete (R8.lo 14)), (7, Instr.sh8 ShOp.ror (R8.lo 14) 1),
   (10, Instr.alu8i AluOp.and (R8.lo 0) 16), (12, Instr.alu8i AluOp.or (R8.lo 0) 32), (14, Instr.alu8 AluOp.or (R8.lo 0) (R8.lo 14))]

theorem table_bit (b : Fin 8) (r : Reg8) (b2 : Nat) :
    decodeCode (Gen.emitCb (opcodeBit b r)) = some (bitBody b r ++ [(17, addIp 2), (21, addCy 2)]) ∧
    bytesOf (Gen.emitCb (opcodeBit b r)) = 25 ∧ Gen.decode 0xcb (opcodeBit b r) b2 = (.BitTest r (bitMask b), 2, 8) := by
  have hb : b = 0 ∨ b = 1 ∨ b = 2 ∨ b = 3 ∨ b = 4 ∨ b = 5 ∨ b = 6 ∨ b = 7 := by
    obtain ⟨v, hv⟩ := b
    have : v = 0 ∨ v = 1 ∨ v = 2 ∨ v = 3 ∨ v = 4 ∨ v = 5 ∨ v = 6 ∨ v = 7 := by omega
    rcases this with e | e | e | e | e | e | e | e <;> subst e <;> simp
  rcases hb with e | e | e | e | e | e | e | e <;> subst e <;> cases r <;>
    exact ⟨by decide +kernel, by decide +kernel, rfl⟩

/-- `or al, r14b` -/
theorem step_or_al_r14 (B : BusOps β) (s s1 : St β) (len : Nat) (hsz : s.r.size = 16)
    (h : step B s (.alu8 .or (.lo 0) (.lo 14)) len = .ok s1) :
    (get s1 0).toNat % 65536 = ((get s 0).toNat / 256 % 256) * 256 + ((get s 0).toNat % 256 ||| (get s 14).toNat % 256) ∧
    (∀ j, 0 ≠ j → get s1 j = get s j) ∧ s1.bus = s.bus ∧ s1.stack = s.stack ∧ s1.r.size = 16 := by
  have e1 : step B s (.alu8 .or (.lo 0) (.lo 14)) len =
      .ok { (set8 ({ s with pc := s.pc + len } : St β) (.lo 0) ((get s 0).toNat % 256 ||| (get s 14).toNat % 256)) with
            fl := (aluOp .or 8 ((get s 0).toNat % 256) ((get s 14).toNat % 256) s.fl).2 } := rfl
  rw [e1] at h
  injection h with h
  have hg : ∀ j, get s1 j = get (set8 ({ s with pc := s.pc + len } : St β) (.lo 0) ((get s 0).toNat % 256 ||| (get s 14).toNat % 256)) j := by
    intro j; rw [← h]; rfl
  have hb : (get s 0).toNat % 256 ||| (get s 14).toNat % 256 < 256 :=
    Nat.or_lt_two_pow (n := 8) (Nat.mod_lt _ (by decide)) (Nat.mod_lt _ (by decide))
  refine ⟨?_, ?_, ?_, ?_, ?_⟩
  · rw [hg 0, toNat_set8_lo ({ s with pc := s.pc + len } : St β) 0 ((get s 0).toNat % 256 ||| (get s 14).toNat % 256) (by show 0 < s.r.size; omega)]
    have hlt := (get s 0).isLt
    show ((get s 0).toNat - (get s 0).toNat % 256 + ((get s 0).toNat % 256 ||| (get s 14).toNat % 256) % 256) % 2 ^ 64 % 65536 = _
    omega
  · intro j hj
    rw [hg j, get_set8_ne _ _ _ _ (by simpa [r8reg] using hj)]; rfl
  · rw [← h]; exact bus_set8 ({ s with pc := s.pc + len } : St β) (.lo 0) ((get s 0).toNat % 256 ||| (get s 14).toNat % 256)
  · rw [← h]; exact stack_set8 ({ s with pc := s.pc + len } : St β) (.lo 0) ((get s 0).toNat % 256 ||| (get s 14).toNat % 256)
  · rw [← h]; exact (size_set8 ({ s with pc := s.pc + len } : St β) (.lo 0) ((get s 0).toNat % 256 ||| (get s 14).toNat % 256)).trans hsz

/-- the F byte: host `((f & 0x10) | 0x20) | z` = interpreter `((f & 0x1f) | 0x20) | z` when F's low nibble is clear -/
theorem fBit_eq (f : Nat) (hf : f < 256) (h0 : f % 16 = 0) (zb : Nat) :
    (bitop .or (bitop .and f 16) 32 ||| zb) = (((f &&& 0x1f) ||| 0x20) ||| zb) := by
  have := Enum.forall_lt_of_allRange (fun f => f % 16 != 0 || (f &&& 16) == (f &&& 0x1f)) 8 (by decide +kernel) f hf
  have e : (f &&& 16) = (f &&& 0x1f) := by
    simp only [Bool.or_eq_true, bne_iff_ne, ne_eq, beq_iff_eq] at this
    rcases this with h | h
    · exact absurd h0 h
    · exact h
  show ((f &&& 16) ||| 32) ||| zb = _
  rw [e]

/-- `SimulatesCb` for templates that use r14b as scratch and clear F's low nibble: from register files with that nibble
clear (all the machine reaches), the status byte is left at 0 or 0x80 (class normal) -/
def SimulatesCbF (b1 b2 : Nat) : Prop :=
  ∃ code, decodeCode (Gen.emitCb b1) = some code ∧
  ∀ (β : Type) (B : BusOps β) (g : Regs) (m : β) (fuel : Nat) (st st' : St β), Sim g st → g.af % 16 = 0 → st.pc = 0 →
    run B code (bytesOf (Gen.emitCb b1)) fuel st = .ok st' →
    ∃ g', runOp B (Gen.decode 0xcb b1 b2).1 g m (Gen.decode 0xcb b1 b2).2.1 = .ok (g', m, STATUS_NORMAL) ∧
      Sim { g' with cycles := g'.cycles + (Gen.decode 0xcb b1 b2).2.2 / 4 } st' ∧ g'.af % 16 = 0 ∧
      st'.bus = st.bus ∧ st'.stack = st.stack ∧ (get8 st' (.lo 14) = 0 ∨ get8 st' (.lo 14) = 0x80)

theorem ror1_val (zf : Bool) (fl : Flags) : (shOp .ror 8 (if zf then 1 else 0) 1 fl).1 = if zf then 0x80 else 0 := by
  have hs : ∀ v, (shOp .ror 8 v 1 fl).1 = (v / 2 ^ 1) ||| (v * 2 ^ 7 % 2 ^ 8) := fun _ => rfl
  rw [hs]; cases zf <;> decide

set_option maxRecDepth 4000 in
/-- the body of BIT b,r -/
theorem bit_body (B : BusOps β) (b : Fin 8) (r : Reg8) (g : Regs) (st s6 : St β) (hs : Sim g st) (h0 : g.af % 16 = 0)
    (hex : execList B 17 (bitBody b r) st = .ok s6) :
    Sim (testZero (orF (applyMask g 0xe0) 0x20) (getReg g r &&& bitMask b)) s6 ∧
    s6.bus = st.bus ∧ s6.stack = st.stack ∧ (get8 s6 (.lo 14) = 0 ∨ get8 s6 (.lo 14) = 0x80) := by
  unfold bitBody at hex
  obtain ⟨s1, h1, hex⟩ := execList_cons B _ _ _ _ _ _ hex
  obtain ⟨s2, h2, hex⟩ := execList_cons B _ _ _ _ _ _ hex
  obtain ⟨s3, h3, hex⟩ := execList_cons B _ _ _ _ _ _ hex
  obtain ⟨s4, h4, hex⟩ := execList_cons B _ _ _ _ _ _ hex
  obtain ⟨s5, h5, hex⟩ := execList_cons B _ _ _ _ _ _ hex
  obtain ⟨s7, h6, hex⟩ := execList_cons B _ _ _ _ _ _ hex
  have := execList_nil B _ _ _ hex
  subst this
  have hsz := hs.size
  -- test r8, mask
  have hm := bitMask_lt b
  have e1 : ∀ len, step B st (.test8i (hostR8 r) (bitMask b)) len =
      .ok { ({ st with pc := st.pc + len } : St β) with fl := (aluOp .and 8 (get8 st (hostR8 r)) (bitMask b) st.fl).2 } := by
    intro len
    simp only [step]
    rw [tokVal_lt _ _ hm]
    rfl
  rw [e1] at h1
  injection h1 with h1
  have z1 : s1.fl.zf = ((getReg g r &&& bitMask b) == 0) := by
    rw [← h1, ← get8_sim hs r]; rfl
  have r1 : ∀ j, get s1 j = get st j := by intro j; rw [← h1]; rfl
  have b1 : s1.bus = st.bus := by rw [← h1]
  have st1 : s1.stack = st.stack := by rw [← h1]
  have sz1 : s1.r.size = 16 := by rw [← h1]; exact hsz
  -- sete r14b
  have e2 : ∀ len, step B s1 (.sete (.lo 14)) len =
      .ok (set8 ({ s1 with pc := s1.pc + len } : St β) (.lo 14) (if s1.fl.zf then 1 else 0)) := fun _ => rfl
  rw [e2] at h2
  injection h2 with h2
  have r2 : ∀ j, 14 ≠ j → get s2 j = get st j := by
    intro j hj; rw [← h2, get_set8_ne _ _ _ _ (by simpa [r8reg] using hj)]; exact r1 j
  have v2 : get8 s2 (.lo 14) = (if s1.fl.zf then 1 else 0) := by
    rw [← h2, get8_set8_lo _ _ _ (by show 14 < s1.r.size; omega)]
    cases s1.fl.zf <;> rfl
  have b2 : s2.bus = st.bus := by rw [← h2, bus_set8]; exact b1
  have st2 : s2.stack = st.stack := by rw [← h2, stack_set8]; exact st1
  have sz2 : s2.r.size = 16 := by rw [← h2, size_set8]; exact sz1
  -- ror r14b, 1
  have e3 : ∀ len, step B s2 (.sh8 .ror (.lo 14) 1) len =
      .ok { (set8 ({ s2 with pc := s2.pc + len } : St β) (.lo 14) (shOp .ror 8 (get8 s2 (.lo 14)) 1 s2.fl).1) with
            fl := (shOp .ror 8 (get8 s2 (.lo 14)) 1 s2.fl).2 } := fun _ => rfl
  rw [e3, v2, ror1_val] at h3
  injection h3 with h3
  have g3 : ∀ j, get s3 j = get (set8 ({ s2 with pc := s2.pc + (headOff 17
      [(10, Instr.alu8i AluOp.and (R8.lo 0) 16), (12, Instr.alu8i AluOp.or (R8.lo 0) 32), (14, Instr.alu8 AluOp.or (R8.lo 0) (R8.lo 14))] - 7) } : St β)
        (.lo 14) (if s1.fl.zf then 0x80 else 0)) j := by intro j; rw [← h3]; rfl
  have r3 : ∀ j, 14 ≠ j → get s3 j = get st j := by
    intro j hj; rw [g3 j, get_set8_ne _ _ _ _ (by simpa [r8reg] using hj)]; exact r2 j hj
  have v3 : (get s3 14).toNat % 256 = (if s1.fl.zf then 0x80 else 0) := by
    have := get8_set8_lo ({ s2 with pc := s2.pc + (headOff 17
      [(10, Instr.alu8i AluOp.and (R8.lo 0) 16), (12, Instr.alu8i AluOp.or (R8.lo 0) 32), (14, Instr.alu8 AluOp.or (R8.lo 0) (R8.lo 14))] - 7) } : St β)
      14 (if s1.fl.zf then 0x80 else 0) (by show 14 < s2.r.size; omega)
    rw [g3 14]
    have hh : get8 (set8 ({ s2 with pc := s2.pc + (headOff 17
      [(10, Instr.alu8i AluOp.and (R8.lo 0) 16), (12, Instr.alu8i AluOp.or (R8.lo 0) 32), (14, Instr.alu8 AluOp.or (R8.lo 0) (R8.lo 14))] - 7) } : St β)
        (.lo 14) (if s1.fl.zf then 0x80 else 0)) (.lo 14) = (get (set8 ({ s2 with pc := s2.pc + (headOff 17
      [(10, Instr.alu8i AluOp.and (R8.lo 0) 16), (12, Instr.alu8i AluOp.or (R8.lo 0) 32), (14, Instr.alu8 AluOp.or (R8.lo 0) (R8.lo 14))] - 7) } : St β)
        (.lo 14) (if s1.fl.zf then 0x80 else 0)) 14).toNat % 256 := rfl
    rw [← hh, this]
    cases s1.fl.zf <;> rfl
  have b3 : s3.bus = st.bus := by rw [← congrArg St.bus h3]; exact (bus_set8 _ _ _).trans b2
  have st3 : s3.stack = st.stack := by rw [← congrArg St.stack h3]; exact (stack_set8 _ _ _).trans st2
  have sz3 : s3.r.size = 16 := by rw [← congrArg St.r h3]; exact (size_set8 _ _ _).trans sz2
  -- and al,16 ; or al,32 ; or al,r14b
  obtain ⟨x4, r4, b4, st4, sz4⟩ := step_al B .and (Or.inl rfl) 16 (by decide) s3 s4 _ sz3 h4
  obtain ⟨x5, r5, b5, st5, sz5⟩ := step_al B .or (Or.inr (Or.inl rfl)) 32 (by decide) s4 s5 _ sz4 h5
  obtain ⟨x6, r6, b6, st6, sz6⟩ := step_or_al_r14 B s5 s6 _ sz5 h6
  have hf : (get st 0).toNat % 256 = g.af % 256 := by have := hs.af; omega
  have hhi : (get st 0).toNat / 256 % 256 = getReg g .A := by
    show _ = getHi g.af; rw [getHi_eq]; have := hs.af; omega
  rw [r3 0 (by decide), hf, hhi] at x4
  have hA := getReg_lt g .A
  have l4 : (get s4 0).toNat % 256 = bitop .and (g.af % 256) 16 := by
    have hb := bitop_lt .and (g.af % 256) 16 (Nat.mod_lt _ (by decide)) (by decide)
    have : (get s4 0).toNat % 256 = (get s4 0).toNat % 65536 % 256 := by omega
    rw [this, x4]; omega
  have hi4 : (get s4 0).toNat / 256 % 256 = getReg g .A := by
    have hb := bitop_lt .and (g.af % 256) 16 (Nat.mod_lt _ (by decide)) (by decide)
    have : (get s4 0).toNat / 256 % 256 = (get s4 0).toNat % 65536 / 256 := by omega
    rw [this, x4]; omega
  rw [l4, hi4] at x5
  have hb5 := bitop_lt .or (bitop .and (g.af % 256) 16) 32 (bitop_lt .and (g.af % 256) 16 (Nat.mod_lt _ (by decide)) (by decide)) (by decide)
  have l5 : (get s5 0).toNat % 256 = bitop .or (bitop .and (g.af % 256) 16) 32 := by
    have : (get s5 0).toNat % 256 = (get s5 0).toNat % 65536 % 256 := by omega
    rw [this, x5]; omega
  have hi5 : (get s5 0).toNat / 256 % 256 = getReg g .A := by
    have : (get s5 0).toNat / 256 % 256 = (get s5 0).toNat % 65536 / 256 := by omega
    rw [this, x5]; omega
  have v5 : (get s5 14).toNat % 256 = (if s1.fl.zf then 0x80 else 0) := by
    rw [r5 14 (by decide), r4 14 (by decide)]; exact v3
  rw [l5, hi5, v5, z1, fBit_eq _ (Nat.mod_lt _ (by decide)) (by omega)] at x6
  -- the interpreter's AF
  have hg : g.af % 65536 = getReg g .A * 256 + g.af % 256 := by
    show g.af % 65536 = getHi g.af * 256 + g.af % 256
    rw [getHi_eq]; omega
  have i0 := applyMask_pack' g _ _ 0xe0 hA (Nat.mod_lt _ (by decide)) hg
  rw [show ((0xe0 ^^^ 0xff) % 256 : Nat) = 0x1f from rfl] at i0
  have c0 : g.af % 256 &&& 0x1f < 256 := Nat.lt_of_le_of_lt Nat.and_le_right (by decide)
  have i1 := orF_pack _ _ _ 0x20 c0 (by decide) i0
  have i2 := testZero_pack _ _ _ (getReg g r &&& bitMask b) (Nat.or_lt_two_pow (n := 8) c0 (by decide)) i1
  have hlt : (((g.af % 256 &&& 0x1f) ||| 0x20) ||| (if (getReg g r &&& bitMask b) == 0 then 0x80 else 0)) < 256 := by
    apply Nat.or_lt_two_pow (n := 8)
    · exact Nat.or_lt_two_pow (n := 8) c0 (by decide)
    · split <;> decide
  have rr : ∀ j, 0 ≠ j → 14 ≠ j → get s6 j = get st j := by
    intro j h0' h14
    rw [r6 j h0', r5 j h0', r4 j h0', r3 j h14]
  obtain ⟨q1, q2, q3, q4, q5, q6⟩ := ((sameButAf_applyMask g 0xe0).trans (sameButAf_orF _ 0x20)).trans
    (sameButAf_testZero _ (getReg g r &&& bitMask b))
  refine ⟨⟨?_, ?_, ?_, ?_, ?_, ?_, ?_, sz6⟩, by rw [b6, b5, b4, b3], by rw [st6, st5, st4, st3], ?_⟩
  · rw [x6, i2]; omega
  · rw [rr 1 (by decide) (by decide), q3]; exact hs.hl
  · rw [rr 2 (by decide) (by decide), q2]; exact hs.de
  · rw [rr 3 (by decide) (by decide), q1]; exact hs.bc
  · rw [rr 12 (by decide) (by decide), q4]; exact hs.sp
  · rw [rr 13 (by decide) (by decide), q5]; exact hs.ip
  · rw [rr 15 (by decide) (by decide), q6]; exact hs.cy
  · show (get s6 14).toNat % 256 = 0 ∨ (get s6 14).toNat % 256 = 0x80
    rw [r6 14 (by decide), v5]
    cases s1.fl.zf
    · left; rfl
    · right; rfl

theorem straight_bitBody (b : Fin 8) (r : Reg8) : straight (bitBody b r) := by
  intro p hp
  simp only [bitBody, List.mem_cons, List.not_mem_nil, or_false] at hp
  rcases hp with e | e | e | e | e | e <;> subst e <;> exact ⟨fun _ _ e => Instr.noConfusion e, fun _ e => Instr.noConfusion e⟩

/-- **BIT b,r** (8 bits x 7 registers): all states whose F has a clear low nibble -/
theorem sim_bit (b : Fin 8) (r : Reg8) (b2 : Nat) : SimulatesCbF (opcodeBit b r) b2 := by
  obtain ⟨hdec, hbytes, hop⟩ := table_bit b r b2
  refine ⟨_, hdec, ?_⟩
  intro β B g m fuel st st' hsim h0 hpc hrun
  rw [hbytes] at hrun
  rw [hop]
  show ∃ g', runOp B (.BitTest r (bitMask b)) g m 2 = .ok (g', m, STATUS_NORMAL) ∧ Sim { g' with cycles := g'.cycles + 8 / 4 } st' ∧ _
  rw [show (8 : Nat) / 4 = 2 from rfl]
  refine ⟨advance (testZero (orF (applyMask g 0xe0) 0x20) (getReg g r &&& bitMask b)) 2, rfl, ?_⟩
  have hst : straight (bitBody b r ++ [(17, addIp 2), (21, addCy 2)]) :=
    straight_app (straight_bitBody b r) (by
      intro p hp
      simp only [List.mem_cons, List.not_mem_nil, or_false] at hp
      rcases hp with e | e <;> subst e <;> exact ⟨fun _ _ e => Instr.noConfusion e, fun _ e => Instr.noConfusion e⟩)
  have hex := run_execList B _ 25 rfl hst 8 0 rfl fuel st st' (by rw [hpc]; rfl) hrun
  rw [List.drop_zero] at hex
  obtain ⟨s6, hb, ht⟩ := execList_append B 25 _ (bitBody b r) st st' hex
  obtain ⟨hs6, hbus, hstk, h14⟩ := bit_body B b r g st s6 hsim h0 hb
  obtain ⟨hs7, hu⟩ := sim_tail B hs6 17 21 25 2 2 (by decide) (by decide) ht
  refine ⟨⟨hs7.af, hs7.hl, hs7.de, hs7.bc, hs7.sp, hs7.ip, hs7.cy, hs7.size⟩, ?_, by rw [hu.bus, hbus], by rw [hu.stack, hstk], ?_⟩
  · -- the interpreter leaves F's low nibble clear
    have hA := getReg_lt g .A
    have hg : g.af % 65536 = getReg g .A * 256 + g.af % 256 := by
      show g.af % 65536 = getHi g.af * 256 + g.af % 256
      rw [getHi_eq]; omega
    have i0 := applyMask_pack' g _ _ 0xe0 hA (Nat.mod_lt _ (by decide)) hg
    rw [show ((0xe0 ^^^ 0xff) % 256 : Nat) = 0x1f from rfl] at i0
    have c0 : g.af % 256 &&& 0x1f < 256 := Nat.lt_of_le_of_lt Nat.and_le_right (by decide)
    have i1 := orF_pack _ _ _ 0x20 c0 (by decide) i0
    have i2 := testZero_pack _ _ _ (getReg g r &&& bitMask b) (Nat.or_lt_two_pow (n := 8) c0 (by decide)) i1
    show (testZero (orF (applyMask g 0xe0) 0x20) (getReg g r &&& bitMask b)).af % 16 = 0
    rw [i2]
    have e16 : ∀ f, f < 256 → f % 16 = 0 → ∀ zb, (zb = 0 ∨ zb = 0x80) → (((f &&& 0x1f) ||| 0x20) ||| zb) % 16 = 0 := by
      intro f hf hz zb hzb
      have := Enum.forall_lt_of_allRange (fun f => f % 16 != 0 || ((((f &&& 0x1f) ||| 0x20) ||| 0) % 16 == 0 && (((f &&& 0x1f) ||| 0x20) ||| 0x80) % 16 == 0)) 8 (by decide +kernel) f hf
      simp only [Bool.or_eq_true, bne_iff_ne, ne_eq, Bool.and_eq_true, beq_iff_eq] at this
      rcases this with h | h
      · exact absurd hz h
      · rcases hzb with e | e <;> subst e
        · exact h.1
        · exact h.2
    have := e16 (g.af % 256) (Nat.mod_lt _ (by decide)) (by omega) (if (getReg g r &&& bitMask b) == 0 then 0x80 else 0)
      (by split <;> simp)
    omega
  · have : get8 st' (.lo 14) = get8 s6 (.lo 14) := by
      show (get st' 14).toNat % 256 = (get s6 14).toNat % 256
      rw [hu.r14]
    rw [this]; exact h14

end GbVerif.X86
