import GbVerif.Proofs.Lcd
import GbVerif.Proofs.Enum
/-!
The one kernel enumeration of C14: on each of the 17 556 four-clock ticks of a frame, the
position step of the code (`stepOf`) applied to the scheduled position gives the next scheduled
position, consults `check_mode_interrupt` exactly when a mode with an enable bit is entered,
consults `check_current_line` exactly when LY changes, raises VBlank exactly when LY becomes 144,
and that happens only on the last tick of the frame.  Lifted to all ticks by periodicity.
-/
namespace GbVerif.LcdProofs
open GbVerif.Lcd GbVerif.LcdSpec

def tickOk (k : Nat) : Bool :=
  decide (k ≥ 17556) ||
    (let p := sched (4 * k)
     let q := sched (4 * k + 4)
     let st := stepOf p
     st.next == q &&
     st.chkMode == (p.mode != q.mode && q.mode != 3) &&
     st.chkLine == (p.line != q.line) &&
     st.vbl == (p.line != 144 && q.line == 144) &&
     st.vbl == (p.line == 143 && q.line == 144) &&
     st.vbl == (k == 17555))

theorem tickOk_all : Enum.allRange tickOk 15 0 = true := by decide +kernel

theorem tickOk_lt (r : Nat) (h : r < 17556) : tickOk r = true :=
  Enum.forall_lt_of_allRange tickOk 15 tickOk_all r (Nat.lt_trans h (by decide))

/-- the enumerated facts, for every tick `k` -/
theorem stepOf_sched (k : Nat) :
    (stepOf (sched (4 * k))).next = sched (4 * k + 4) ∧
    (stepOf (sched (4 * k))).chkMode =
      ((sched (4 * k)).mode != (sched (4 * k + 4)).mode && (sched (4 * k + 4)).mode != 3) ∧
    (stepOf (sched (4 * k))).chkLine = ((sched (4 * k)).line != (sched (4 * k + 4)).line) ∧
    (stepOf (sched (4 * k))).vbl = ((sched (4 * k)).line != 144 && (sched (4 * k + 4)).line == 144) ∧
    (stepOf (sched (4 * k))).vbl = ((sched (4 * k)).line == 143 && (sched (4 * k + 4)).line == 144) ∧
    (stepOf (sched (4 * k))).vbl = (k % 17556 == 17555) := by
  have hr : k % 17556 < 17556 := Nat.mod_lt _ (by decide)
  have h := tickOk_lt (k % 17556) hr
  rw [sched_tick_mod k, sched_tick_succ_mod k]
  simp only [tickOk, Bool.or_eq_true, Bool.and_eq_true, decide_eq_true_eq, beq_iff_eq] at h
  rcases h with h | ⟨⟨⟨⟨⟨h1, h2⟩, h3⟩, h4⟩, h5⟩, h6⟩
  · omega
  · exact ⟨h1, h2, h3, h4, h5, h6⟩

end GbVerif.LcdProofs
