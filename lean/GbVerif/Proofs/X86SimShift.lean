import GbVerif.Proofs.X86SimInc
/-
C01, the data side, CB page: SLA r / SRA r / SRL r for the seven registers (21 encodings).  The template is
`shl|sar|shr r8, 1 ; <flag conversion keeping 0x6f of F, taking Z and C> ; and al, 0x9f`; as for INC / DEC the
register write and the flag conversion are separated.
-/
namespace GbVerif.X86
open GbVerif.JitCycles GbVerif.Interp
variable {β : Type}

/-- the three one-bit shifts of the CB page -/
inductive Sh3 where | sla | sra | srl
deriving DecidableEq, Repr

def Sh3.host : Sh3 → ShOp
  | .sla => .shl | .sra => .sar | .srl => .shr
/-- the interpreter's primitive: (value, carry out) -/
def Sh3.res : Sh3 → Nat → Nat × Bool
  | .sla, v => Interp.sla v | .sra, v => Interp.sra v | .srl, v => Interp.srl v
def Sh3.op : Sh3 → Reg8 → Op
  | .sla, r => .ShiftLeft r | .sra, r => .ShiftRight r | .srl, r => .ShiftRightLogical r
def Sh3.base : Sh3 → Nat
  | .sla => 0x20 | .sra => 0x28 | .srl => 0x38
def opcodeSh (k : Sh3) (r : Reg8) : Nat := k.base + r8code r

/-- host shift by one on a byte = the interpreter's primitive: value, ZF, CF (256-case kernel enumerations) -/
theorem shOp_res (k : Sh3) (v : Nat) (hv : v < 256) (fl : Flags) :
    (shOp k.host 8 v 1 fl).1 = (k.res v).1 ∧ (shOp k.host 8 v 1 fl).2.zf = ((k.res v).1 == 0) ∧
    (shOp k.host 8 v 1 fl).2.cf = (k.res v).2 ∧ (k.res v).1 < 256 := by
  cases k
  · have e1 : (shOp ShOp.shl 8 v 1 fl).1 = v * 2 ^ 1 % 2 ^ 8 := rfl
    have e2 : (shOp ShOp.shl 8 v 1 fl).2.zf = (v * 2 ^ 1 % 2 ^ 8 == 0) := rfl
    have e3 : (shOp ShOp.shl 8 v 1 fl).2.cf = (v / 2 ^ (8 - 1) % 2 == 1) := rfl
    have := Enum.forall_lt_of_allRange (fun v => v * 2 ^ 1 % 2 ^ 8 == (Interp.sla v).1 && ((v / 2 ^ (8 - 1) % 2 == 1) == (Interp.sla v).2)
      && decide ((Interp.sla v).1 < 256)) 8 (by decide +kernel) v hv
    simp only [Bool.and_eq_true, beq_iff_eq, decide_eq_true_eq] at this
    obtain ⟨⟨h1, h2⟩, h3⟩ := this
    refine ⟨?_, ?_, ?_, h3⟩
    · show (shOp ShOp.shl 8 v 1 fl).1 = (Interp.sla v).1; rw [e1, h1]
    · show (shOp ShOp.shl 8 v 1 fl).2.zf = ((Interp.sla v).1 == 0); rw [e2, h1]
    · show (shOp ShOp.shl 8 v 1 fl).2.cf = (Interp.sla v).2; rw [e3, h2]
  · have e1 : (shOp ShOp.sar 8 v 1 fl).1 = v / 2 ^ 1 + (if signBit 8 v then 2 ^ 8 - 2 ^ (8 - 1) else 0) := rfl
    have e2 : (shOp ShOp.sar 8 v 1 fl).2.zf = (v / 2 ^ 1 + (if signBit 8 v then 2 ^ 8 - 2 ^ (8 - 1) else 0) == 0) := rfl
    have e3 : (shOp ShOp.sar 8 v 1 fl).2.cf = (v / 2 ^ (1 - 1) % 2 == 1) := rfl
    have := Enum.forall_lt_of_allRange (fun v => v / 2 ^ 1 + (if signBit 8 v then 2 ^ 8 - 2 ^ (8 - 1) else 0) == (Interp.sra v).1
      && ((v / 2 ^ (1 - 1) % 2 == 1) == (Interp.sra v).2) && decide ((Interp.sra v).1 < 256)) 8 (by decide +kernel) v hv
    simp only [Bool.and_eq_true, beq_iff_eq, decide_eq_true_eq] at this
    obtain ⟨⟨h1, h2⟩, h3⟩ := this
    refine ⟨?_, ?_, ?_, h3⟩
    · show (shOp ShOp.sar 8 v 1 fl).1 = (Interp.sra v).1; rw [e1, h1]
    · show (shOp ShOp.sar 8 v 1 fl).2.zf = ((Interp.sra v).1 == 0); rw [e2, h1]
    · show (shOp ShOp.sar 8 v 1 fl).2.cf = (Interp.sra v).2; rw [e3, h2]
  · have e1 : (shOp ShOp.shr 8 v 1 fl).1 = v / 2 ^ 1 := rfl
    have e2 : (shOp ShOp.shr 8 v 1 fl).2.zf = (v / 2 ^ 1 == 0) := rfl
    have e3 : (shOp ShOp.shr 8 v 1 fl).2.cf = (v / 2 ^ (1 - 1) % 2 == 1) := rfl
    have := Enum.forall_lt_of_allRange (fun v => v / 2 ^ 1 == (Interp.srl v).1
      && ((v / 2 ^ (1 - 1) % 2 == 1) == (Interp.srl v).2) && decide ((Interp.srl v).1 < 256)) 8 (by decide +kernel) v hv
    simp only [Bool.and_eq_true, beq_iff_eq, decide_eq_true_eq] at this
    obtain ⟨⟨h1, h2⟩, h3⟩ := this
    refine ⟨?_, ?_, ?_, h3⟩
    · show (shOp ShOp.shr 8 v 1 fl).1 = (Interp.srl v).1; rw [e1, h1]
    · show (shOp ShOp.shr 8 v 1 fl).2.zf = ((Interp.srl v).1 == 0); rw [e2, h1]
    · show (shOp ShOp.shr 8 v 1 fl).2.cf = (Interp.srl v).2; rw [e3, h2]

/-- `shl|sar|shr r8, 1` on the host location of a guest register: the register write, and the host flags Z and C -/
theorem step_sh8_sim (B : BusOps β) (k : Sh3) (r : Reg8) (g : Regs) (st s1 : St β) (len : Nat) (hs : Sim g st)
    (h : step B st (.sh8 k.host (hostR8 r) 1) len = .ok s1) :
    Sim (setReg g r (k.res (getReg g r)).1) s1 ∧ Untouched st s1 ∧
    s1.fl.zf = ((k.res (getReg g r)).1 == 0) ∧ s1.fl.cf = (k.res (getReg g r)).2 := by
  have hu : Untouched st s1 := untouched_step B st s1 _ _ h (by intro e; cases e)
    (by simp only [destReg]; intro e; injection e with e; exact hostR8_ne14 r e)
    (fun _ e => by cases e) (fun _ e => by cases e) (fun e => by cases e) (fun e => by cases e)
    (fun _ _ _ _ e => by cases e) (fun _ _ _ e => by cases e)
  have e1 : step B st (.sh8 k.host (hostR8 r) 1) len =
      .ok { (set8 ({ st with pc := st.pc + len } : St β) (hostR8 r) (shOp k.host 8 (get8 st (hostR8 r)) 1 st.fl).1) with
            fl := (shOp k.host 8 (get8 st (hostR8 r)) 1 st.fl).2 } := rfl
  rw [e1] at h
  injection h with h
  rw [get8_sim hs r] at h
  obtain ⟨hv, hz, hc, hlt⟩ := shOp_res k (getReg g r) (getReg_lt g r) st.fl
  refine ⟨?_, hu, ?_, ?_⟩
  · rw [← h, hv]; exact sim_fl (set8_sim (sim_pc hs _) r _ hlt) _
  · rw [← h]; exact hz
  · rw [← h]; exact hc

/-- ZF and CF of the host as Z and C of the guest (`take = 0x90`) -/
theorem conv_90 (fl : Flags) : conv fl &&& 0x90 = (if fl.zf then 0x80 else 0) + (if fl.cf then 0x10 else 0) := by
  obtain ⟨cf, pf, af, zf, sf, of⟩ := fl
  cases cf <;> cases af <;> cases zf <;> simp [conv]

/-- the F byte after the conversion and `and al, 0x9f` = the interpreter's `flagsRot` byte -/
theorem fRot_eq (f : Nat) (hf : f < 256) (z c : Bool) :
    bitop .and ((f &&& 0x6f) ||| ((if z then 0x80 else 0) + (if c then 0x10 else 0))) 0x9f =
      (((f &&& 0x0f) ||| (if c then 0x10 else 0)) ||| (if z then 0x80 else 0)) := by
  have := Enum.forall_lt_of_allRange (fun f =>
    (bitop .and ((f &&& 0x6f) ||| (0x80 + 0x10)) 0x9f == (((f &&& 0x0f) ||| 0x10) ||| 0x80)) &&
    (bitop .and ((f &&& 0x6f) ||| (0x80 + 0)) 0x9f == (((f &&& 0x0f) ||| 0) ||| 0x80)) &&
    (bitop .and ((f &&& 0x6f) ||| (0 + 0x10)) 0x9f == (((f &&& 0x0f) ||| 0x10) ||| 0)) &&
    (bitop .and ((f &&& 0x6f) ||| (0 + 0)) 0x9f == (((f &&& 0x0f) ||| 0) ||| 0))) 8 (by decide +kernel) f hf
  simp only [Bool.and_eq_true, beq_iff_eq] at this
  obtain ⟨⟨⟨h1, h2⟩, h3⟩, h4⟩ := this
  cases z <;> cases c
  · simpa using h4
  · simpa using h3
  · simpa using h2
  · simpa using h1

/-- the flag part of the interpreter's CB shifts on a register file `g1` (after the register write) -/
theorem rotFlags_pack (g1 : Regs) (res : Nat × Bool) :
    (flagsRot g1 res true).af =
      getReg g1 .A * 256 + ((((g1.af % 256 &&& 0x0f) ||| (if res.2 then 0x10 else 0))) ||| (if res.1 == 0 then 0x80 else 0)) := by
  have hA := getReg_lt g1 .A
  have hg : g1.af % 65536 = getReg g1 .A * 256 + g1.af % 256 := by
    show g1.af % 65536 = getHi g1.af * 256 + g1.af % 256
    rw [getHi_eq]; omega
  have i0 := applyMask_pack' g1 _ _ 0xf0 hA (Nat.mod_lt _ (by decide)) hg
  rw [show ((0xf0 ^^^ 0xff) % 256 : Nat) = 0x0f from rfl] at i0
  have c0 : g1.af % 256 &&& 0x0f < 256 := Nat.lt_of_le_of_lt Nat.and_le_right (by decide)
  have i1 := testCarry_pack _ _ _ res.2 c0 i0
  have c1 := or_bit_lt _ res.2 0x10 c0 (by decide)
  show (testZero (testCarry (applyMask g1 0xf0) res.2) res.1).af = _
  exact testZero_pack _ _ _ res.1 c1 i1

theorem sameButAf_flagsRot (g1 : Regs) (res : Nat × Bool) : SameButAf g1 (flagsRot g1 res true) := by
  show SameButAf g1 (testZero (testCarry (applyMask g1 0xf0) res.2) res.1)
  exact ((sameButAf_applyMask g1 _).trans (sameButAf_testCarry _ _)).trans (sameButAf_testZero _ _)

theorem table_sh (k : Sh3) (r : Reg8) (b2 : Nat) :
    decodeCode (Gen.emitCb (opcodeSh k r)) = some ((((0, Instr.sh8 k.host (hostR8 r) 1) :: pipeAt (aluOff' 2) 0x6f 0x90) ++ [(31, Instr.alu8i AluOp.and (R8.lo 0) 0x9f)]) ++ [(33, addIp 2), (37, addCy 2)]) ∧
    bytesOf (Gen.emitCb (opcodeSh k r)) = 41 ∧ Gen.decode 0xcb (opcodeSh k r) b2 = (k.op r, 2, 8) := by
  cases k <;> cases r <;> exact ⟨by decide +kernel, by decide +kernel, rfl⟩

/-- the body of SLA / SRA / SRL r -/
theorem sh_body (B : BusOps β) (k : Sh3) (r : Reg8) (o : Nat → Nat) (e : Nat) (g : Regs) (st s3 : St β) (hs : Sim g st)
    (hex : execList B e (((o 0, .sh8 k.host (hostR8 r) 1) :: pipeAt o 0x6f 0x90) ++ [(o 10, .alu8i .and (.lo 0) 0x9f)]) st = .ok s3) :
    Sim (flagsRot (setReg g r (k.res (getReg g r)).1) (k.res (getReg g r)) true) s3 ∧ Untouched st s3 := by
  obtain ⟨s2, hex1, hexp⟩ := execList_append B e _ _ st s3 hex
  obtain ⟨s1, h1, hex2⟩ := execList_cons B _ _ _ _ _ _ hex1
  obtain ⟨hs1, hu1, hz, hc⟩ := step_sh8_sim B k r g st s1 _ hs h1
  obtain ⟨hx, hfr⟩ := pipe_sim B 0x6f 0x90 (by decide) (by decide) o _ _ s1 s2 hs1 hex2
  obtain ⟨s4, hp, hex4⟩ := execList_cons B _ _ _ _ _ _ hexp
  have := execList_nil B _ _ _ hex4
  subst this
  obtain ⟨hx3, hr3, hb3, hst3, hsz3⟩ := step_al B .and (Or.inl rfl) 0x9f (by decide) s2 s3 _ hfr.size hp
  have hfr3 := frame06_al hfr hr3 hb3 hst3 hsz3
  rw [conv_90, hz, hc] at hx
  generalize hg1 : setReg g r (k.res (getReg g r)).1 = g1 at hs1 hx ⊢
  generalize hres : k.res (getReg g r) = res at hx ⊢
  have hA := getReg_lt g1 .A
  have hF : g1.af % 256 < 256 := Nat.mod_lt _ (by decide)
  have hFlt : (g1.af % 256 &&& 0x6f ||| ((if (res.1 == 0) = true then 0x80 else 0) + if res.2 = true then 0x10 else 0)) < 256 := by
    apply Nat.or_lt_two_pow (n := 8)
    · exact Nat.lt_of_le_of_lt Nat.and_le_right (by decide)
    · split <;> split <;> decide
  have hlo : (get s2 0).toNat % 256 = (g1.af % 256 &&& 0x6f ||| ((if (res.1 == 0) = true then 0x80 else 0) + if res.2 = true then 0x10 else 0)) := by
    have : (get s2 0).toNat % 256 = (get s2 0).toNat % 65536 % 256 := by omega
    rw [this, hx]; omega
  have hhi : (get s2 0).toNat / 256 % 256 = getReg g1 .A := by
    have : (get s2 0).toNat / 256 % 256 = (get s2 0).toNat % 65536 / 256 := by omega
    rw [this, hx]; omega
  rw [hlo, hhi, fRot_eq _ hF] at hx3
  obtain ⟨q1, q2⟩ := sim_af (g' := flagsRot g1 res true) hs1 hfr3 (sameButAf_flagsRot g1 res) (by
    rw [hx3, rotFlags_pack]
    have hlt : (((g1.af % 256 &&& 0x0f) ||| (if res.2 then 0x10 else 0)) ||| (if res.1 == 0 then 0x80 else 0)) < 256 := by
      apply Nat.or_lt_two_pow (n := 8)
      · apply Nat.or_lt_two_pow (n := 8)
        · exact Nat.lt_of_le_of_lt Nat.and_le_right (by decide)
        · split <;> decide
      · split <;> decide
    omega)
  exact ⟨q1, hu1.trans q2⟩

/-- **SLA r, SRA r, SRL r** (3 x 7 registers): all states -/
theorem sim_sh (k : Sh3) (r : Reg8) (b2 : Nat) : SimulatesCb (opcodeSh k r) b2 := by
  obtain ⟨hdec, hbytes, hop⟩ := table_sh k r b2
  refine ⟨_, hdec, ?_⟩
  intro β B g m fuel st st' hsim hpc hrun
  rw [hbytes] at hrun
  rw [hop]
  show ∃ g', runOp B (k.op r) g m 2 = .ok (g', m, STATUS_NORMAL) ∧ Sim { g' with cycles := g'.cycles + 8 / 4 } st' ∧ Untouched st st'
  rw [show (8 : Nat) / 4 = 2 from rfl]
  refine ⟨advance (flagsRot (setReg g r (k.res (getReg g r)).1) (k.res (getReg g r)) true) 2, by cases k <;> rfl, ?_⟩
  obtain ⟨h1, h2⟩ := sim_body B (((0, Instr.sh8 k.host (hostR8 r) 1) :: pipeAt (aluOff' 2) 0x6f 0x90) ++ [(31, Instr.alu8i AluOp.and (R8.lo 0) 0x9f)]) 33 37 41 2 2 g
    (flagsRot (setReg g r (k.res (getReg g r)).1) (k.res (getReg g r)) true) (by cases k <;> cases r <;> rfl)
    (straight_app (straight_cons _ _ _ (fun _ _ e => Instr.noConfusion e) (fun _ e => Instr.noConfusion e) (straight_pipe _ _ _)) (straight_al _ _ _)) (by decide) (by decide)
    (fun st0 s1 hs hex => sh_body B k r (aluOff' 2) 33 g st0 s1 hs hex)
    fuel st st' hsim (by rw [hpc]; rfl) hrun
  exact ⟨⟨h1.af, h1.hl, h1.de, h1.bc, h1.sp, h1.ip, h1.cy, h1.size⟩, h2⟩

end GbVerif.X86
