import GbVerif.Model.Cpu
/-!
Every `run_op` arm that is not a block terminator leaves IP at `ip + length` (model-level; the 16-bit mask is applied
by `run_next_op`).  Proved by cases on the `Op` constructor with IP-preservation lemmas for every helper.
-/
namespace GbVerif.Interp

@[simp] theorem setReg_ip (r : Regs) (reg : Reg8) (v : Nat) : (setReg r reg v).ip = r.ip := by cases reg <;> rfl
@[simp] theorem setReg16_ip (r : Regs) (reg : Reg16) (v : Nat) : (setReg16 r reg v).ip = r.ip := by cases reg <;> rfl
@[simp] theorem applyMask_ip (r : Regs) (k : Nat) : (applyMask r k).ip = r.ip := rfl
@[simp] theorem orF_ip (r : Regs) (k : Nat) : (orF r k).ip = r.ip := rfl
@[simp] theorem testZero_ip (r : Regs) (v : Nat) : (testZero r v).ip = r.ip := by unfold testZero; split <;> rfl
@[simp] theorem testHalf_ip (r : Regs) (b : Bool) : (testHalf r b).ip = r.ip := by unfold testHalf; split <;> rfl
@[simp] theorem testCarry_ip (r : Regs) (b : Bool) : (testCarry r b).ip = r.ip := by unfold testCarry; split <;> rfl
@[simp] theorem setNeg_ip (r : Regs) : (setNeg r).ip = r.ip := rfl
@[simp] theorem flagsAdd_ip (r : Regs) (x : Nat × Bool × Bool) : (flagsAdd r x).ip = r.ip := by simp [flagsAdd]
@[simp] theorem flagsSub_ip (r : Regs) (x : Nat × Bool × Bool) : (flagsSub r x).ip = r.ip := by simp [flagsSub]
@[simp] theorem flagsRot_ip (r : Regs) (x : Nat × Bool) (z : Bool) : (flagsRot r x z).ip = r.ip := by
  unfold flagsRot; simp only []; split <;> simp
@[simp] theorem opAdd_ip (r : Regs) (v : Nat) (d : Reg8) : (opAdd r v d).ip = r.ip := by simp [opAdd]
@[simp] theorem opAdc_ip (r : Regs) (v : Nat) (d : Reg8) : (opAdc r v d).ip = r.ip := by simp [opAdc]
@[simp] theorem opSub_ip (r : Regs) (v : Nat) (d : Reg8) : (opSub r v d).ip = r.ip := by simp [opSub]
@[simp] theorem opSbc_ip (r : Regs) (v : Nat) (d : Reg8) : (opSbc r v d).ip = r.ip := by simp [opSbc]
@[simp] theorem opAnd_ip (r : Regs) (v : Nat) (d : Reg8) : (opAnd r v d).ip = r.ip := by simp [opAnd]
@[simp] theorem opXor_ip (r : Regs) (v : Nat) (d : Reg8) : (opXor r v d).ip = r.ip := by simp [opXor]
@[simp] theorem opOr_ip (r : Regs) (v : Nat) (d : Reg8) : (opOr r v d).ip = r.ip := by simp [opOr]
@[simp] theorem opCp_ip (r : Regs) (v : Nat) : (opCp r v).ip = r.ip := by simp [opCp]
@[simp] theorem daa_ip (r : Regs) : (daa r).ip = r.ip := rfl
@[simp] theorem advance_ip (r : Regs) (n : Nat) : (advance r n).ip = r.ip + n := rfl

variable {β : Type} (B : BusOps β)

theorem push_ip' (v : Nat) (r : Regs) (m : β) (r' : Regs) (m' : β) (h : push B v r m = .ok (r', m')) : r'.ip = r.ip := by
  unfold push at h
  simp only [bind, Except.bind, pure, Except.pure] at h
  split at h
  · cases h
  · split at h
    · cases h
    · cases h; simp

theorem pop_ip' (r : Regs) (m : β) (v : Nat) (r' : Regs) (h : pop B r m = .ok (v, r')) : r'.ip = r.ip := by
  unfold pop at h
  simp only [bind, Except.bind, pure, Except.pure] at h
  split at h
  · cases h
  · split at h
    · cases h
    · cases h; simp

theorem rmwHL_ip (r : Regs) (m : β) (f : Nat → Regs → Nat × Regs) (hf : ∀ v r, (f v r).2.ip = r.ip)
    (r' : Regs) (m' : β) (h : rmwHL B r m f = .ok (r', m')) : r'.ip = r.ip := by
  unfold rmwHL at h
  simp only [bind, Except.bind, pure, Except.pure] at h
  split at h
  · cases h
  · rename_i v _
    split at h
    · cases h
    · cases h; exact hf v r

end GbVerif.Interp

namespace GbVerif.Interp
variable {β : Type} (B : BusOps β)

/-- every non-terminating `run_op` arm advances IP by exactly the instruction length handed to it -/
theorem runOp_ip (op : Op) (r : Regs) (m : β) (len : Nat) (r' : Regs) (m' : β) (st : Nat)
    (hb : Gen.isBlockEnd op = false) (h : runOp B op r m len = .ok (r', m', st)) : r'.ip = r.ip + len := by
  cases op <;> simp only [Gen.isBlockEnd] at hb <;> try (exact absurd hb (by decide))
  all_goals (simp only [runOp] at h)
  all_goals first
    | (simp only [Except.ok.injEq, Prod.mk.injEq] at h; obtain ⟨rfl, _, _⟩ := h; simp; done)
    | (cases h; done)
    | (simp only [bind, Except.bind, pure, Except.pure] at h
       split at h
       · cases h
       · simp only [Except.ok.injEq, Prod.mk.injEq] at h; obtain ⟨rfl, _, _⟩ := h; simp)
    | (simp only [bind, Except.bind, pure, Except.pure] at h
       split at h
       · cases h
       · rename_i x hx
         obtain ⟨r1, m1⟩ := x
         simp only [Except.ok.injEq, Prod.mk.injEq] at h; obtain ⟨rfl, _, _⟩ := h
         have := rmwHL_ip B r m _ (by intro v r; simp) r1 m1 hx
         simp [this])
    | skip
  case LoadToIndirect loc reg =>
    simp only [bind, Except.bind, pure, Except.pure] at h
    split at h
    · cases h
    · cases loc <;> (simp only [Except.ok.injEq, Prod.mk.injEq] at h; obtain ⟨rfl, _, _⟩ := h; simp)
  case LoadFromIndirect reg loc =>
    simp only [bind, Except.bind, pure, Except.pure] at h
    split at h
    · cases h
    · cases loc <;> (simp only [Except.ok.injEq, Prod.mk.injEq] at h; obtain ⟨rfl, _, _⟩ := h; simp)
  case LoadStackPointerToMemory addr =>
    simp only [bind, Except.bind, pure, Except.pure] at h
    split at h
    · cases h
    · split at h
      · cases h
      · simp only [Except.ok.injEq, Prod.mk.injEq] at h; obtain ⟨rfl, _, _⟩ := h; simp
  case Push reg =>
    simp only [bind, Except.bind, pure, Except.pure] at h
    split at h
    · cases h
    · rename_i x hx
      obtain ⟨r1, m1⟩ := x
      simp only [Except.ok.injEq, Prod.mk.injEq] at h; obtain ⟨rfl, _, _⟩ := h
      have := push_ip' B _ r m r1 m1 hx
      simp [this]
  case Pop reg =>
    simp only [bind, Except.bind, pure, Except.pure] at h
    split at h
    · cases h
    · rename_i x hx
      obtain ⟨v1, r1⟩ := x
      simp only [Except.ok.injEq, Prod.mk.injEq] at h; obtain ⟨rfl, _, _⟩ := h
      have := pop_ip' B r m v1 r1 hx
      simp [this]

end GbVerif.Interp
