import GbVerif.Proofs.X86SimMem
/-
C01, the bus side: ADD / ADC / SUB / SBC / AND / XOR / OR / CP with the operand (HL).  The template reads the byte into dl
(DE saved on the host stack), runs the register form of the operation with source dl, and pops DE back.
-/
namespace GbVerif.X86
open GbVerif.JitCycles GbVerif.Interp
variable {β : Type}

/-- `push rdx rax rcx ; mov rsi,rcx ; movabs rdi ; movabs rax,RD8 ; call ; mov rdx,rax ; pop rcx ; pop rax` -/
def readHlPre : List (Nat × Instr) :=
  [(0, Instr.push 2), (1, Instr.push 0), (2, Instr.push 1), (3, Instr.mov Size.q 6 1), (6, Instr.movabs 7 512), (16, Instr.movabs 0 513),
   (26, Instr.callRax), (28, Instr.mov Size.q 2 0), (31, Instr.pop 1), (32, Instr.pop 0)]

set_option maxHeartbeats 1000000 in
/-- after the read prefix: the byte at (HL) is in dl, DE is on the host stack, everything else as before -/
theorem readHl_pre (B : BusOps β) (hB : ByteReads B) (e : Nat) (g : Regs) (st s10 : St β) (hs : Sim g st)
    (hex : execList B e readHlPre st = .ok s10) :
    ∃ v, B.read st.bus (getReg16 g .HL) = .ok v ∧ v < 256 ∧ (get s10 2).toNat % 256 = v ∧
      get s10 0 = get st 0 ∧ get s10 1 = get st 1 ∧ (∀ j, j ∉ [0, 1, 2, 6, 7, 8, 9, 10, 11] → get s10 j = get st j) ∧
      s10.stack = get st 2 :: st.stack ∧ s10.bus = st.bus ∧ s10.r.size = 16 := by
  unfold readHlPre at hex
  obtain ⟨s1, h1, hex⟩ := execList_cons B _ _ _ _ _ _ hex
  obtain ⟨s2, h2, hex⟩ := execList_cons B _ _ _ _ _ _ hex
  obtain ⟨s3, h3, hex⟩ := execList_cons B _ _ _ _ _ _ hex
  obtain ⟨s4, h4, hex⟩ := execList_cons B _ _ _ _ _ _ hex
  obtain ⟨s5, h5, hex⟩ := execList_cons B _ _ _ _ _ _ hex
  obtain ⟨s6, h6, hex⟩ := execList_cons B _ _ _ _ _ _ hex
  obtain ⟨s7, h7, hex⟩ := execList_cons B _ _ _ _ _ _ hex
  obtain ⟨s8, h8, hex⟩ := execList_cons B _ _ _ _ _ _ hex
  obtain ⟨s9, h9, hex⟩ := execList_cons B _ _ _ _ _ _ hex
  obtain ⟨s11, h10, hex⟩ := execList_cons B _ _ _ _ _ _ hex
  have := execList_nil B _ _ _ hex
  subst this
  have hsz := hs.size
  obtain ⟨r1, k1, b1, z1⟩ := step_push B st s1 2 _ h1
  obtain ⟨r2, k2, b2, z2⟩ := step_push B s1 s2 0 _ h2
  obtain ⟨r3, k3, b3, z3⟩ := step_push B s2 s3 1 _ h3
  have R3 : ∀ j, get s3 j = get st j := fun j => by rw [r3, r2, r1]
  have K3 : s3.stack = get st 1 :: get st 0 :: get st 2 :: st.stack := by rw [k3, k2, k1, r2 1, r1 1, r1 0]
  have Z3 : s3.r.size = 16 := by rw [z3, z2, z1]; exact hsz
  obtain ⟨v4, r4, k4, b4, z4⟩ := step_movq B s3 s4 6 1 _ (by omega) h4
  obtain ⟨v5, r5, k5, b5, z5⟩ := step_movabs B s4 s5 7 512 _ (by omega) h5
  obtain ⟨v6, r6, k6, b6, z6⟩ := step_movabs B s5 s6 0 513 _ (by omega) h6
  have Z6 : s6.r.size = 16 := by rw [z6, z5, z4]; exact Z3
  have a7 : get s6 7 = ptrVal 512 := by rw [r6 7 (by decide)]; exact v5
  have a6 : get s6 6 = get st 1 := by rw [r6 6 (by decide), r5 6 (by decide), v4, R3]
  obtain ⟨v, hrd, hv7, b7, k7, Z7, r7⟩ := step_call_read B s6 s7 _ Z6 v6 a7 h7
  have hvlt : v < 256 := hB _ _ _ hrd
  have haddr : (get s6 6).toNat % 65536 = getReg16 g .HL := by rw [a6]; exact hs.hl
  rw [haddr, show s6.bus = st.bus by rw [b6, b5, b4, b3, b2, b1]] at hrd
  obtain ⟨v8, r8, k8, b8, z8⟩ := step_movq B s7 s8 2 0 _ (by omega) h8
  have K8 : s8.stack = get st 1 :: get st 0 :: get st 2 :: st.stack := by rw [k8, k7, k6, k5, k4]; exact K3
  obtain ⟨w9, t9, e9, k9, g9, q9, b9, z9⟩ := step_pop B s8 s9 1 _ (by rw [z8, Z7]; decide) h9
  obtain ⟨w10, t10, e10, k10, g10, q10, b10, z10⟩ := step_pop B s9 s10 0 _ (by rw [z9, z8, Z7]; decide) h10
  rw [K8] at e9
  obtain ⟨a9, e9⟩ := List.cons.inj e9
  rw [k9, ← e9] at e10
  obtain ⟨a10, e10⟩ := List.cons.inj e10
  refine ⟨v, hrd, hvlt, ?_, by rw [g10]; exact a10.symm, by rw [q10 1 (by decide), g9]; exact a9.symm, ?_, by rw [k10]; exact e10.symm,
    by rw [b10, b9, b8, b7, b6, b5, b4, b3, b2, b1], by rw [z10, z9, z8]; exact Z7⟩
  · rw [q10 2 (by decide), q9 2 (by decide), v8]
    have : (get s7 0).toNat % 256 = (get s7 0).toNat % 65536 % 256 := by omega
    rw [this, hv7]; omega
  · intro j hj
    rw [q10 j (fun e => hj (by rw [← e]; simp)), q9 j (fun e => hj (by rw [← e]; simp)), r8 j (fun e => hj (by rw [← e]; simp)), r7 j hj,
      r6 j (fun e => hj (by rw [← e]; simp)), r5 j (fun e => hj (by rw [← e]; simp)), r4 j (fun e => hj (by rw [← e]; simp)), R3]

/-! ### the ALU operations read and write AF only -/

def AfOnly (f : Regs → Nat → Regs) : Prop := ∀ g1 g2 v, g1.af = g2.af → (f g1 v).af = (f g2 v).af

theorem af_testZero (r1 r2 : Regs) (x : Nat) (h : r1.af = r2.af) : (testZero r1 x).af = (testZero r2 x).af := by
  unfold testZero; split
  · show r1.af ||| _ = r2.af ||| _; rw [h]
  · exact h
theorem af_testHalf (r1 r2 : Regs) (c : Bool) (h : r1.af = r2.af) : (testHalf r1 c).af = (testHalf r2 c).af := by
  cases c
  · exact h
  · show r1.af ||| _ = r2.af ||| _; rw [h]
theorem af_testCarry (r1 r2 : Regs) (c : Bool) (h : r1.af = r2.af) : (testCarry r1 c).af = (testCarry r2 c).af := by
  cases c
  · exact h
  · show r1.af ||| _ = r2.af ||| _; rw [h]
theorem af_orF (r1 r2 : Regs) (b : Nat) (h : r1.af = r2.af) : (orF r1 b).af = (orF r2 b).af := by
  show r1.af ||| _ = r2.af ||| _; rw [h]
theorem af_applyMask (r1 r2 : Regs) (b : Nat) (h : r1.af = r2.af) : (applyMask r1 b).af = (applyMask r2 b).af := by
  show r1.af &&& _ = r2.af &&& _; rw [h]
theorem af_setA (r1 r2 : Regs) (x : Nat) (h : r1.af = r2.af) : (setReg r1 .A x).af = (setReg r2 .A x).af := by
  show setHi r1.af x = setHi r2.af x; rw [h]
theorem getA_congr (r1 r2 : Regs) (h : r1.af = r2.af) : getReg r1 .A = getReg r2 .A := by
  show getHi r1.af = getHi r2.af; rw [h]
theorem af_flagsAdd (r1 r2 : Regs) (res : Nat × Bool × Bool) (h : r1.af = r2.af) : (flagsAdd r1 res).af = (flagsAdd r2 res).af :=
  af_testZero _ _ _ (af_testHalf _ _ _ (af_testCarry _ _ _ (af_applyMask _ _ _ h)))
theorem af_flagsSub (r1 r2 : Regs) (res : Nat × Bool × Bool) (h : r1.af = r2.af) : (flagsSub r1 res).af = (flagsSub r2 res).af :=
  af_testZero _ _ _ (af_orF _ _ _ (af_testHalf _ _ _ (af_testCarry _ _ _ (af_applyMask _ _ _ h))))

theorem afOnly_add : AfOnly (fun g v => opAdd g v) := by
  intro g1 g2 v h
  show (flagsAdd (setReg g1 .A (carryAdd (getReg g1 .A) v).1) (carryAdd (getReg g1 .A) v)).af = (flagsAdd (setReg g2 .A (carryAdd (getReg g2 .A) v).1) (carryAdd (getReg g2 .A) v)).af
  rw [getA_congr g1 g2 h]; exact af_flagsAdd _ _ _ (af_setA _ _ _ h)
theorem afOnly_adc : AfOnly (fun g v => opAdc g v) := by
  intro g1 g2 v h
  show (flagsAdd (setReg g1 .A (carryAdc (getReg g1 .A) v g1.af).1) (carryAdc (getReg g1 .A) v g1.af)).af = (flagsAdd (setReg g2 .A (carryAdc (getReg g2 .A) v g2.af).1) (carryAdc (getReg g2 .A) v g2.af)).af
  rw [getA_congr g1 g2 h, h]; exact af_flagsAdd _ _ _ (af_setA _ _ _ h)
theorem afOnly_sub : AfOnly (fun g v => opSub g v) := by
  intro g1 g2 v h
  show (flagsSub (setReg g1 .A (carrySub (getReg g1 .A) v).1) (carrySub (getReg g1 .A) v)).af = (flagsSub (setReg g2 .A (carrySub (getReg g2 .A) v).1) (carrySub (getReg g2 .A) v)).af
  rw [getA_congr g1 g2 h]; exact af_flagsSub _ _ _ (af_setA _ _ _ h)
theorem afOnly_sbc : AfOnly (fun g v => opSbc g v) := by
  intro g1 g2 v h
  show (flagsSub (setReg g1 .A (carrySbc (getReg g1 .A) v g1.af).1) (carrySbc (getReg g1 .A) v g1.af)).af = (flagsSub (setReg g2 .A (carrySbc (getReg g2 .A) v g2.af).1) (carrySbc (getReg g2 .A) v g2.af)).af
  rw [getA_congr g1 g2 h, h]; exact af_flagsSub _ _ _ (af_setA _ _ _ h)
theorem afOnly_cp : AfOnly (fun g v => opCp g v) := by
  intro g1 g2 v h
  show (flagsSub g1 (carrySub (getReg g1 .A) v)).af = (flagsSub g2 (carrySub (getReg g2 .A) v)).af
  rw [getA_congr g1 g2 h]; exact af_flagsSub _ _ _ h
theorem afOnly_and : AfOnly (fun g v => opAnd g v) := by
  intro g1 g2 v h
  show (testZero (orF (applyMask (setReg g1 .A (getReg g1 .A &&& v)) 0xf0) 0x20) (getReg g1 .A &&& v)).af = (testZero (orF (applyMask (setReg g2 .A (getReg g2 .A &&& v)) 0xf0) 0x20) (getReg g2 .A &&& v)).af
  rw [getA_congr g1 g2 h]; exact af_testZero _ _ _ (af_orF _ _ _ (af_applyMask _ _ _ (af_setA _ _ _ h)))
theorem afOnly_xor : AfOnly (fun g v => opXor g v) := by
  intro g1 g2 v h
  show (testZero (applyMask (setReg g1 .A (getReg g1 .A ^^^ v)) 0xf0) (getReg g1 .A ^^^ v)).af = (testZero (applyMask (setReg g2 .A (getReg g2 .A ^^^ v)) 0xf0) (getReg g2 .A ^^^ v)).af
  rw [getA_congr g1 g2 h]; exact af_testZero _ _ _ (af_applyMask _ _ _ (af_setA _ _ _ h))
theorem afOnly_or : AfOnly (fun g v => opOr g v) := by
  intro g1 g2 v h
  show (testZero (applyMask (setReg g1 .A (getReg g1 .A ||| v)) 0xf0) (getReg g1 .A ||| v)).af = (testZero (applyMask (setReg g2 .A (getReg g2 .A ||| v)) 0xf0) (getReg g2 .A ||| v)).af
  rw [getA_congr g1 g2 h]; exact af_testZero _ _ _ (af_applyMask _ _ _ (af_setA _ _ _ h))

theorem sameButAf_add (g : Regs) (v : Nat) : SameButAf g (opAdd g v) := (sameButAf_setA g _).trans (sameButAf_flagsAdd _ _)
theorem sameButAf_adc (g : Regs) (v : Nat) : SameButAf g (opAdc g v) := (sameButAf_setA g _).trans (sameButAf_flagsAdd _ _)
theorem sameButAf_sub (g : Regs) (v : Nat) : SameButAf g (opSub g v) := (sameButAf_setA g _).trans (sameButAf_flagsSub _ _)
theorem sameButAf_sbc (g : Regs) (v : Nat) : SameButAf g (opSbc g v) := (sameButAf_setA g _).trans (sameButAf_flagsSub _ _)
theorem sameButAf_cp (g : Regs) (v : Nat) : SameButAf g (opCp g v) := sameButAf_flagsSub _ _
theorem sameButAf_and (g : Regs) (v : Nat) : SameButAf g (opAnd g v) := sameButAf_logic g _ true
theorem sameButAf_xor (g : Regs) (v : Nat) : SameButAf g (opXor g v) := sameButAf_logic g _ false
theorem sameButAf_or (g : Regs) (v : Nat) : SameButAf g (opOr g v) := sameButAf_logic g _ false

/-- read (HL) into dl, run the register form of an operation on A with source dl, restore DE -/
theorem alu_hl_wrap (B : BusOps β) (hB : ByteReads B) (aluBody : List (Nat × Instr)) (o e' : Nat) (f : Regs → Nat → Regs)
    (hfaf : AfOnly f) (hfs : ∀ g v, SameButAf g (f g v)) (P : Regs → Prop) (hP : ∀ g1 g2 : Regs, g1.af = g2.af → P g1 → P g2)
    (hbody : ∀ (g' : Regs) (v : Nat) (st0 s1 : St β), Sim g' st0 → P g' → get8 st0 (.lo 2) = v → v < 256 →
      execList B (headOff e' [(o, Instr.pop 2)]) aluBody st0 = .ok s1 → Sim (f g' v) s1 ∧ Untouched st0 s1)
    (g : Regs) (st s' : St β) (hs : Sim g st) (hPg : P g)
    (hex : execList B e' ((readHlPre ++ aluBody) ++ [(o, Instr.pop 2)]) st = .ok s') :
    ∃ v, B.read st.bus (getReg16 g .HL) = .ok v ∧ Sim (f g v) s' ∧ Untouched st s' := by
  obtain ⟨sb, hex1, hexp⟩ := execList_append B e' _ _ st s' hex
  obtain ⟨sa, hpre, hbd⟩ := execList_append B _ _ readHlPre st sb hex1
  obtain ⟨v, hrd, hvlt, hdl, h0, h1, hrest, hk, hb, hsz⟩ := readHl_pre B hB _ g st sa hs hpre
  have hsa : Sim { g with de := (get sa 2).toNat } sa :=
    ⟨by rw [h0]; exact hs.af, by rw [h1]; exact hs.hl, rfl, by rw [hrest 3 (by decide)]; exact hs.bc,
     by rw [hrest 12 (by decide)]; exact hs.sp, by rw [hrest 13 (by decide)]; exact hs.ip, by rw [hrest 15 (by decide)]; exact hs.cy, hsz⟩
  obtain ⟨hsb, hub⟩ := hbody { g with de := (get sa 2).toNat } v sa sb hsa (hP g _ rfl hPg) hdl hvlt hbd
  obtain ⟨sc, hp, hnil⟩ := execList_cons B _ _ _ _ _ _ hexp
  have := execList_nil B _ _ _ hnil
  subst this
  obtain ⟨w, rest, ew, kw, gw, qw, bw, zw⟩ := step_pop B sb s' 2 _ (by rw [hsb.size]; decide) hp
  rw [hub.stack, hk] at ew
  obtain ⟨aw, ew⟩ := List.cons.inj ew
  obtain ⟨p1, p2, p3, p4, p5, p6⟩ := hfs { g with de := (get sa 2).toNat } v
  obtain ⟨q1, q2, q3, q4, q5, q6⟩ := hfs g v
  have haf : (f { g with de := (get sa 2).toNat } v).af = (f g v).af := hfaf _ _ v rfl
  refine ⟨v, hrd, ⟨?_, ?_, ?_, ?_, ?_, ?_, ?_, by rw [zw]; exact hsb.size⟩, ⟨by rw [bw, hub.bus, hb], by rw [kw]; exact ew.symm, ?_⟩⟩
  · rw [qw 0 (by decide), ← haf]; exact hsb.af
  · rw [qw 1 (by decide), q3]; have := hsb.hl; rw [p3] at this; exact this
  · rw [gw, ← aw, q2]; exact hs.de
  · rw [qw 3 (by decide), q1]; have := hsb.bc; rw [p1] at this; exact this
  · rw [qw 12 (by decide), q4]; have := hsb.sp; rw [p4] at this; exact this
  · rw [qw 13 (by decide), q5]; have := hsb.ip; rw [p5] at this; exact this
  · rw [qw 15 (by decide), q6]; have := hsb.cy; rw [p6] at this; exact this
  · rw [qw 14 (by decide), hub.r14, hrest 14 (by decide)]

/-- `SimulatesMem` from register files whose F has a clear low nibble -/
def SimulatesMemF (b0 b1 b2 : Nat) : Prop :=
  ∃ code, decodeCode (Gen.emitOp b0) = some code ∧
  ∀ (β : Type) (B : BusOps β), ByteReads B → ∀ (g : Regs) (fuel : Nat) (st st' : St β), Sim g st → g.af % 16 = 0 → st.pc = 0 → st.op1 = b1 → st.op2 = b2 →
    run B code (bytesOf (Gen.emitOp b0)) fuel st = .ok st' →
    ∃ g' m', runOp B (Gen.decode b0 b1 b2).1 g st.bus (Gen.decode b0 b1 b2).2.1 = .ok (g', m', STATUS_NORMAL) ∧
      Sim { g' with cycles := g'.cycles + (Gen.decode b0 b1 b2).2.2 / 4 } st' ∧ st'.bus = m' ∧ st'.stack = st.stack ∧ get st' 14 = get st 14

theorem straight_readHlPre : straight readHlPre := by
  intro p hp
  simp only [readHlPre, List.mem_cons, List.not_mem_nil, or_false] at hp
  rcases hp with e | e | e | e | e | e | e | e | e | e <;> subst e <;> exact ⟨fun _ _ e => Instr.noConfusion e, fun _ e => Instr.noConfusion e⟩

def hlOff (k : Nat) : Nat := 33 + aluOff' 2 k
def hlOffC (k : Nat) : Nat := 33 + adcOff 2 k

theorem rd_dl (B : BusOps β) (op : AluOp) : IsAOp B op (Instr.alu8 op (R8.hi 0) (R8.lo 2)) (fun s => get8 s (.lo 2)) := isAOp_reg B op (.lo 2)

theorem rdStable_dl : RdStable (β := β) (fun s => get8 s (.lo 2)) := by
  intro s s' hj _ _
  show (get s' 2).toNat % 256 = (get s 2).toNat % 256
  rw [hj 2 (by decide)]

theorem table_86 (b1 b2 : Nat) :
    decodeCode (Gen.emitOp 0x86) = some (((readHlPre ++ ((33, Instr.alu8 AluOp.add (R8.hi 0) (R8.lo 2)) :: pipeAt hlOff 15 240)) ++ [(64, Instr.pop 2)]) ++ [(65, addIp 1), (69, addCy 2)]) ∧
    bytesOf (Gen.emitOp 0x86) = 73 ∧ Gen.decode 0x86 b1 b2 = (.AddIndirect, 1, 8) := ⟨by decide +kernel, by decide +kernel, rfl⟩

theorem sim_86 (b1 b2 : Nat) : SimulatesMem 0x86 b1 b2 := by
  obtain ⟨hdec, hbytes, hop⟩ := table_86 b1 b2
  refine ⟨_, hdec, ?_⟩
  intro β B hB g fuel st st' hsim hpc _ _ hrun
  rw [hbytes] at hrun
  rw [hop]
  show ∃ g' m', runOp B .AddIndirect g st.bus 1 = .ok (g', m', STATUS_NORMAL) ∧ Sim { g' with cycles := g'.cycles + 8 / 4 } st' ∧ _
  rw [show (8 : Nat) / 4 = 2 from rfl]
  have hst : straight (((readHlPre ++ ((33, Instr.alu8 AluOp.add (R8.hi 0) (R8.lo 2)) :: pipeAt hlOff 15 240)) ++ [(64, Instr.pop 2)]) ++ [(65, addIp 1), (69, addCy 2)]) :=
    straight_app (straight_app (straight_app straight_readHlPre (straight_cons _ _ _ (fun _ _ e => Instr.noConfusion e) (fun _ e => Instr.noConfusion e) (straight_pipe _ _ _)))
      (straight_one _ _ (fun _ _ e => Instr.noConfusion e) (fun _ e => Instr.noConfusion e))) (tail_straight 65 69 1 2)
  have hex := run_execList B _ 73 rfl hst _ 0 (Nat.zero_add _) fuel st st' (by rw [hpc]; rfl) hrun
  rw [List.drop_zero] at hex
  obtain ⟨sc, hb, ht⟩ := execList_append B 73 _ _ st st' hex
  obtain ⟨v, hrd, hsc, huc⟩ := alu_hl_wrap B hB ((33, Instr.alu8 AluOp.add (R8.hi 0) (R8.lo 2)) :: pipeAt hlOff 15 240) 64 65 (fun g v => opAdd g v) afOnly_add sameButAf_add (fun _ => True) (fun _ _ _ h => h)
    (fun g' v st0 s1 hs0 hp0 hv0 hvlt hex0 => add_body B _ _ (rd_dl B .add) v hlOff 64 g' st0 s1 hs0 hv0 hex0) g st sc hsim trivial hb
  obtain ⟨hs', hu'⟩ := sim_tail B hsc 65 69 73 1 2 (by decide) (by decide) ht
  refine ⟨advance (opAdd g v) 1, st.bus, ?_, ⟨hs'.af, hs'.hl, hs'.de, hs'.bc, hs'.sp, hs'.ip, hs'.cy, hs'.size⟩,
    by rw [hu'.bus, huc.bus], by rw [hu'.stack, huc.stack], by rw [hu'.r14, huc.r14]⟩
  show (do let v ← B.read st.bus (getReg16 g .HL); _) = _
  simp only [bind, Except.bind, hrd]

theorem table_96 (b1 b2 : Nat) :
    decodeCode (Gen.emitOp 0x96) = some (((readHlPre ++ (((33, Instr.alu8 AluOp.sub (R8.hi 0) (R8.lo 2)) :: pipeAt hlOff 15 240) ++ [(64, Instr.alu8i AluOp.or (R8.lo 0) 64)])) ++ [(66, Instr.pop 2)]) ++ [(67, addIp 1), (71, addCy 2)]) ∧
    bytesOf (Gen.emitOp 0x96) = 75 ∧ Gen.decode 0x96 b1 b2 = (.SubIndirect, 1, 8) := ⟨by decide +kernel, by decide +kernel, rfl⟩

theorem sim_96 (b1 b2 : Nat) : SimulatesMem 0x96 b1 b2 := by
  obtain ⟨hdec, hbytes, hop⟩ := table_96 b1 b2
  refine ⟨_, hdec, ?_⟩
  intro β B hB g fuel st st' hsim hpc _ _ hrun
  rw [hbytes] at hrun
  rw [hop]
  show ∃ g' m', runOp B .SubIndirect g st.bus 1 = .ok (g', m', STATUS_NORMAL) ∧ Sim { g' with cycles := g'.cycles + 8 / 4 } st' ∧ _
  rw [show (8 : Nat) / 4 = 2 from rfl]
  have hst : straight (((readHlPre ++ (((33, Instr.alu8 AluOp.sub (R8.hi 0) (R8.lo 2)) :: pipeAt hlOff 15 240) ++ [(64, Instr.alu8i AluOp.or (R8.lo 0) 64)])) ++ [(66, Instr.pop 2)]) ++ [(67, addIp 1), (71, addCy 2)]) :=
    straight_app (straight_app (straight_app straight_readHlPre (straight_app (straight_cons _ _ _ (fun _ _ e => Instr.noConfusion e) (fun _ e => Instr.noConfusion e) (straight_pipe _ _ _)) (straight_al _ _ _)))
      (straight_one _ _ (fun _ _ e => Instr.noConfusion e) (fun _ e => Instr.noConfusion e))) (tail_straight 67 71 1 2)
  have hex := run_execList B _ 75 rfl hst _ 0 (Nat.zero_add _) fuel st st' (by rw [hpc]; rfl) hrun
  rw [List.drop_zero] at hex
  obtain ⟨sc, hb, ht⟩ := execList_append B 75 _ _ st st' hex
  obtain ⟨v, hrd, hsc, huc⟩ := alu_hl_wrap B hB (((33, Instr.alu8 AluOp.sub (R8.hi 0) (R8.lo 2)) :: pipeAt hlOff 15 240) ++ [(64, Instr.alu8i AluOp.or (R8.lo 0) 64)]) 66 67 (fun g v => opSub g v) afOnly_sub sameButAf_sub (fun _ => True) (fun _ _ _ h => h)
    (fun g' v st0 s1 hs0 hp0 hv0 hvlt hex0 => sub_body B .sub (Or.inl rfl) _ _ (rd_dl B .sub) v hlOff 66 g' st0 s1 hs0 hv0 hvlt hex0) g st sc hsim trivial hb
  obtain ⟨hs', hu'⟩ := sim_tail B hsc 67 71 75 1 2 (by decide) (by decide) ht
  refine ⟨advance (opSub g v) 1, st.bus, ?_, ⟨hs'.af, hs'.hl, hs'.de, hs'.bc, hs'.sp, hs'.ip, hs'.cy, hs'.size⟩,
    by rw [hu'.bus, huc.bus], by rw [hu'.stack, huc.stack], by rw [hu'.r14, huc.r14]⟩
  show (do let v ← B.read st.bus (getReg16 g .HL); _) = _
  simp only [bind, Except.bind, hrd]

theorem table_be (b1 b2 : Nat) :
    decodeCode (Gen.emitOp 0xbe) = some (((readHlPre ++ (((33, Instr.alu8 AluOp.cmp (R8.hi 0) (R8.lo 2)) :: pipeAt hlOff 15 240) ++ [(64, Instr.alu8i AluOp.or (R8.lo 0) 64)])) ++ [(66, Instr.pop 2)]) ++ [(67, addIp 1), (71, addCy 2)]) ∧
    bytesOf (Gen.emitOp 0xbe) = 75 ∧ Gen.decode 0xbe b1 b2 = (.CompareIndirect, 1, 8) := ⟨by decide +kernel, by decide +kernel, rfl⟩

theorem sim_be (b1 b2 : Nat) : SimulatesMem 0xbe b1 b2 := by
  obtain ⟨hdec, hbytes, hop⟩ := table_be b1 b2
  refine ⟨_, hdec, ?_⟩
  intro β B hB g fuel st st' hsim hpc _ _ hrun
  rw [hbytes] at hrun
  rw [hop]
  show ∃ g' m', runOp B .CompareIndirect g st.bus 1 = .ok (g', m', STATUS_NORMAL) ∧ Sim { g' with cycles := g'.cycles + 8 / 4 } st' ∧ _
  rw [show (8 : Nat) / 4 = 2 from rfl]
  have hst : straight (((readHlPre ++ (((33, Instr.alu8 AluOp.cmp (R8.hi 0) (R8.lo 2)) :: pipeAt hlOff 15 240) ++ [(64, Instr.alu8i AluOp.or (R8.lo 0) 64)])) ++ [(66, Instr.pop 2)]) ++ [(67, addIp 1), (71, addCy 2)]) :=
    straight_app (straight_app (straight_app straight_readHlPre (straight_app (straight_cons _ _ _ (fun _ _ e => Instr.noConfusion e) (fun _ e => Instr.noConfusion e) (straight_pipe _ _ _)) (straight_al _ _ _)))
      (straight_one _ _ (fun _ _ e => Instr.noConfusion e) (fun _ e => Instr.noConfusion e))) (tail_straight 67 71 1 2)
  have hex := run_execList B _ 75 rfl hst _ 0 (Nat.zero_add _) fuel st st' (by rw [hpc]; rfl) hrun
  rw [List.drop_zero] at hex
  obtain ⟨sc, hb, ht⟩ := execList_append B 75 _ _ st st' hex
  obtain ⟨v, hrd, hsc, huc⟩ := alu_hl_wrap B hB (((33, Instr.alu8 AluOp.cmp (R8.hi 0) (R8.lo 2)) :: pipeAt hlOff 15 240) ++ [(64, Instr.alu8i AluOp.or (R8.lo 0) 64)]) 66 67 (fun g v => opCp g v) afOnly_cp sameButAf_cp (fun _ => True) (fun _ _ _ h => h)
    (fun g' v st0 s1 hs0 hp0 hv0 hvlt hex0 => sub_body B .cmp (Or.inr rfl) _ _ (rd_dl B .cmp) v hlOff 66 g' st0 s1 hs0 hv0 hvlt hex0) g st sc hsim trivial hb
  obtain ⟨hs', hu'⟩ := sim_tail B hsc 67 71 75 1 2 (by decide) (by decide) ht
  refine ⟨advance (opCp g v) 1, st.bus, ?_, ⟨hs'.af, hs'.hl, hs'.de, hs'.bc, hs'.sp, hs'.ip, hs'.cy, hs'.size⟩,
    by rw [hu'.bus, huc.bus], by rw [hu'.stack, huc.stack], by rw [hu'.r14, huc.r14]⟩
  show (do let v ← B.read st.bus (getReg16 g .HL); _) = _
  simp only [bind, Except.bind, hrd]

theorem table_a6 (b1 b2 : Nat) :
    decodeCode (Gen.emitOp 0xa6) = some (((readHlPre ++ (((33, Instr.alu8 AluOp.and (R8.hi 0) (R8.lo 2)) :: pipeAt hlOff 127 128) ++ [(64, Instr.alu8i AluOp.and (R8.lo 0) 175), (66, Instr.alu8i AluOp.or (R8.lo 0) 32)])) ++ [(68, Instr.pop 2)]) ++ [(69, addIp 1), (73, addCy 2)]) ∧
    bytesOf (Gen.emitOp 0xa6) = 77 ∧ Gen.decode 0xa6 b1 b2 = (.AndIndirect, 1, 8) := ⟨by decide +kernel, by decide +kernel, rfl⟩

theorem sim_a6 (b1 b2 : Nat) : SimulatesMem 0xa6 b1 b2 := by
  obtain ⟨hdec, hbytes, hop⟩ := table_a6 b1 b2
  refine ⟨_, hdec, ?_⟩
  intro β B hB g fuel st st' hsim hpc _ _ hrun
  rw [hbytes] at hrun
  rw [hop]
  show ∃ g' m', runOp B .AndIndirect g st.bus 1 = .ok (g', m', STATUS_NORMAL) ∧ Sim { g' with cycles := g'.cycles + 8 / 4 } st' ∧ _
  rw [show (8 : Nat) / 4 = 2 from rfl]
  have hst : straight (((readHlPre ++ (((33, Instr.alu8 AluOp.and (R8.hi 0) (R8.lo 2)) :: pipeAt hlOff 127 128) ++ [(64, Instr.alu8i AluOp.and (R8.lo 0) 175), (66, Instr.alu8i AluOp.or (R8.lo 0) 32)])) ++ [(68, Instr.pop 2)]) ++ [(69, addIp 1), (73, addCy 2)]) :=
    straight_app (straight_app (straight_app straight_readHlPre (straight_app (straight_cons _ _ _ (fun _ _ e => Instr.noConfusion e) (fun _ e => Instr.noConfusion e) (straight_pipe _ _ _)) (straight_cons _ _ _ (fun _ _ e => Instr.noConfusion e) (fun _ e => Instr.noConfusion e) (straight_al _ _ _))))
      (straight_one _ _ (fun _ _ e => Instr.noConfusion e) (fun _ e => Instr.noConfusion e))) (tail_straight 69 73 1 2)
  have hex := run_execList B _ 77 rfl hst _ 0 (Nat.zero_add _) fuel st st' (by rw [hpc]; rfl) hrun
  rw [List.drop_zero] at hex
  obtain ⟨sc, hb, ht⟩ := execList_append B 77 _ _ st st' hex
  obtain ⟨v, hrd, hsc, huc⟩ := alu_hl_wrap B hB (((33, Instr.alu8 AluOp.and (R8.hi 0) (R8.lo 2)) :: pipeAt hlOff 127 128) ++ [(64, Instr.alu8i AluOp.and (R8.lo 0) 175), (66, Instr.alu8i AluOp.or (R8.lo 0) 32)]) 68 69 (fun g v => opAnd g v) afOnly_and sameButAf_and (fun _ => True) (fun _ _ _ h => h)
    (fun g' v st0 s1 hs0 hp0 hv0 hvlt hex0 => and_body B _ _ (rd_dl B .and) 127 128 175 (by decide) (by decide) (by decide) fAnd_eq v hlOff 68 g' st0 s1 hs0 hv0 hex0) g st sc hsim trivial hb
  obtain ⟨hs', hu'⟩ := sim_tail B hsc 69 73 77 1 2 (by decide) (by decide) ht
  refine ⟨advance (opAnd g v) 1, st.bus, ?_, ⟨hs'.af, hs'.hl, hs'.de, hs'.bc, hs'.sp, hs'.ip, hs'.cy, hs'.size⟩,
    by rw [hu'.bus, huc.bus], by rw [hu'.stack, huc.stack], by rw [hu'.r14, huc.r14]⟩
  show (do let v ← B.read st.bus (getReg16 g .HL); _) = _
  simp only [bind, Except.bind, hrd]

theorem table_ae (b1 b2 : Nat) :
    decodeCode (Gen.emitOp 0xae) = some (((readHlPre ++ (((33, Instr.alu8 AluOp.xor (R8.hi 0) (R8.lo 2)) :: pipeAt hlOff 127 128) ++ [(64, Instr.alu8i AluOp.and (R8.lo 0) 143)])) ++ [(66, Instr.pop 2)]) ++ [(67, addIp 1), (71, addCy 2)]) ∧
    bytesOf (Gen.emitOp 0xae) = 75 ∧ Gen.decode 0xae b1 b2 = (.XorIndirect, 1, 8) := ⟨by decide +kernel, by decide +kernel, rfl⟩

theorem sim_ae (b1 b2 : Nat) : SimulatesMem 0xae b1 b2 := by
  obtain ⟨hdec, hbytes, hop⟩ := table_ae b1 b2
  refine ⟨_, hdec, ?_⟩
  intro β B hB g fuel st st' hsim hpc _ _ hrun
  rw [hbytes] at hrun
  rw [hop]
  show ∃ g' m', runOp B .XorIndirect g st.bus 1 = .ok (g', m', STATUS_NORMAL) ∧ Sim { g' with cycles := g'.cycles + 8 / 4 } st' ∧ _
  rw [show (8 : Nat) / 4 = 2 from rfl]
  have hst : straight (((readHlPre ++ (((33, Instr.alu8 AluOp.xor (R8.hi 0) (R8.lo 2)) :: pipeAt hlOff 127 128) ++ [(64, Instr.alu8i AluOp.and (R8.lo 0) 143)])) ++ [(66, Instr.pop 2)]) ++ [(67, addIp 1), (71, addCy 2)]) :=
    straight_app (straight_app (straight_app straight_readHlPre (straight_app (straight_cons _ _ _ (fun _ _ e => Instr.noConfusion e) (fun _ e => Instr.noConfusion e) (straight_pipe _ _ _)) (straight_al _ _ _)))
      (straight_one _ _ (fun _ _ e => Instr.noConfusion e) (fun _ e => Instr.noConfusion e))) (tail_straight 67 71 1 2)
  have hex := run_execList B _ 75 rfl hst _ 0 (Nat.zero_add _) fuel st st' (by rw [hpc]; rfl) hrun
  rw [List.drop_zero] at hex
  obtain ⟨sc, hb, ht⟩ := execList_append B 75 _ _ st st' hex
  obtain ⟨v, hrd, hsc, huc⟩ := alu_hl_wrap B hB (((33, Instr.alu8 AluOp.xor (R8.hi 0) (R8.lo 2)) :: pipeAt hlOff 127 128) ++ [(64, Instr.alu8i AluOp.and (R8.lo 0) 143)]) 66 67 (fun g v => opXor g v) afOnly_xor sameButAf_xor (fun _ => True) (fun _ _ _ h => h)
    (fun g' v st0 s1 hs0 hp0 hv0 hvlt hex0 => xo_body B .xor (Or.inl rfl) _ _ (rd_dl B .xor) v hvlt hlOff 66 g' st0 s1 hs0 hv0 hex0) g st sc hsim trivial hb
  obtain ⟨hs', hu'⟩ := sim_tail B hsc 67 71 75 1 2 (by decide) (by decide) ht
  refine ⟨advance (opXor g v) 1, st.bus, ?_, ⟨hs'.af, hs'.hl, hs'.de, hs'.bc, hs'.sp, hs'.ip, hs'.cy, hs'.size⟩,
    by rw [hu'.bus, huc.bus], by rw [hu'.stack, huc.stack], by rw [hu'.r14, huc.r14]⟩
  show (do let v ← B.read st.bus (getReg16 g .HL); _) = _
  simp only [bind, Except.bind, hrd]

theorem table_b6 (b1 b2 : Nat) :
    decodeCode (Gen.emitOp 0xb6) = some (((readHlPre ++ (((33, Instr.alu8 AluOp.or (R8.hi 0) (R8.lo 2)) :: pipeAt hlOff 127 128) ++ [(64, Instr.alu8i AluOp.and (R8.lo 0) 143)])) ++ [(66, Instr.pop 2)]) ++ [(67, addIp 1), (71, addCy 2)]) ∧
    bytesOf (Gen.emitOp 0xb6) = 75 ∧ Gen.decode 0xb6 b1 b2 = (.OrIndirect, 1, 8) := ⟨by decide +kernel, by decide +kernel, rfl⟩

theorem sim_b6 (b1 b2 : Nat) : SimulatesMem 0xb6 b1 b2 := by
  obtain ⟨hdec, hbytes, hop⟩ := table_b6 b1 b2
  refine ⟨_, hdec, ?_⟩
  intro β B hB g fuel st st' hsim hpc _ _ hrun
  rw [hbytes] at hrun
  rw [hop]
  show ∃ g' m', runOp B .OrIndirect g st.bus 1 = .ok (g', m', STATUS_NORMAL) ∧ Sim { g' with cycles := g'.cycles + 8 / 4 } st' ∧ _
  rw [show (8 : Nat) / 4 = 2 from rfl]
  have hst : straight (((readHlPre ++ (((33, Instr.alu8 AluOp.or (R8.hi 0) (R8.lo 2)) :: pipeAt hlOff 127 128) ++ [(64, Instr.alu8i AluOp.and (R8.lo 0) 143)])) ++ [(66, Instr.pop 2)]) ++ [(67, addIp 1), (71, addCy 2)]) :=
    straight_app (straight_app (straight_app straight_readHlPre (straight_app (straight_cons _ _ _ (fun _ _ e => Instr.noConfusion e) (fun _ e => Instr.noConfusion e) (straight_pipe _ _ _)) (straight_al _ _ _)))
      (straight_one _ _ (fun _ _ e => Instr.noConfusion e) (fun _ e => Instr.noConfusion e))) (tail_straight 67 71 1 2)
  have hex := run_execList B _ 75 rfl hst _ 0 (Nat.zero_add _) fuel st st' (by rw [hpc]; rfl) hrun
  rw [List.drop_zero] at hex
  obtain ⟨sc, hb, ht⟩ := execList_append B 75 _ _ st st' hex
  obtain ⟨v, hrd, hsc, huc⟩ := alu_hl_wrap B hB (((33, Instr.alu8 AluOp.or (R8.hi 0) (R8.lo 2)) :: pipeAt hlOff 127 128) ++ [(64, Instr.alu8i AluOp.and (R8.lo 0) 143)]) 66 67 (fun g v => opOr g v) afOnly_or sameButAf_or (fun _ => True) (fun _ _ _ h => h)
    (fun g' v st0 s1 hs0 hp0 hv0 hvlt hex0 => xo_body B .or (Or.inr rfl) _ _ (rd_dl B .or) v hvlt hlOff 66 g' st0 s1 hs0 hv0 hex0) g st sc hsim trivial hb
  obtain ⟨hs', hu'⟩ := sim_tail B hsc 67 71 75 1 2 (by decide) (by decide) ht
  refine ⟨advance (opOr g v) 1, st.bus, ?_, ⟨hs'.af, hs'.hl, hs'.de, hs'.bc, hs'.sp, hs'.ip, hs'.cy, hs'.size⟩,
    by rw [hu'.bus, huc.bus], by rw [hu'.stack, huc.stack], by rw [hu'.r14, huc.r14]⟩
  show (do let v ← B.read st.bus (getReg16 g .HL); _) = _
  simp only [bind, Except.bind, hrd]

theorem table_8e (b1 b2 : Nat) :
    decodeCode (Gen.emitOp 0x8e) = some (((readHlPre ++ ([(33, Instr.alu8i AluOp.and (R8.lo 0) 16), (35, Instr.alu8i AluOp.add (R8.lo 0) 240)] ++ ((37, Instr.alu8 AluOp.adc (R8.hi 0) (R8.lo 2)) :: pipeAt hlOffC 15 240))) ++ [(68, Instr.pop 2)]) ++ [(69, addIp 1), (73, addCy 2)]) ∧
    bytesOf (Gen.emitOp 0x8e) = 77 ∧ Gen.decode 0x8e b1 b2 = (.AddIndirectWithCarry, 1, 8) := ⟨by decide +kernel, by decide +kernel, rfl⟩

theorem sim_8e (b1 b2 : Nat) : SimulatesMemF 0x8e b1 b2 := by
  obtain ⟨hdec, hbytes, hop⟩ := table_8e b1 b2
  refine ⟨_, hdec, ?_⟩
  intro β B hB g fuel st st' hsim h0 hpc _ _ hrun
  rw [hbytes] at hrun
  rw [hop]
  show ∃ g' m', runOp B .AddIndirectWithCarry g st.bus 1 = .ok (g', m', STATUS_NORMAL) ∧ Sim { g' with cycles := g'.cycles + 8 / 4 } st' ∧ _
  rw [show (8 : Nat) / 4 = 2 from rfl]
  have hst : straight (((readHlPre ++ ([(33, Instr.alu8i AluOp.and (R8.lo 0) 16), (35, Instr.alu8i AluOp.add (R8.lo 0) 240)] ++ ((37, Instr.alu8 AluOp.adc (R8.hi 0) (R8.lo 2)) :: pipeAt hlOffC 15 240))) ++ [(68, Instr.pop 2)]) ++ [(69, addIp 1), (73, addCy 2)]) :=
    straight_app (straight_app (straight_app straight_readHlPre (straight_app (straight_two _ _ _ _ ⟨fun _ _ e => Instr.noConfusion e, fun _ e => Instr.noConfusion e⟩ ⟨fun _ _ e => Instr.noConfusion e, fun _ e => Instr.noConfusion e⟩) (straight_cons _ _ _ (fun _ _ e => Instr.noConfusion e) (fun _ e => Instr.noConfusion e) (straight_pipe _ _ _))))
      (straight_one _ _ (fun _ _ e => Instr.noConfusion e) (fun _ e => Instr.noConfusion e))) (tail_straight 69 73 1 2)
  have hex := run_execList B _ 77 rfl hst _ 0 (Nat.zero_add _) fuel st st' (by rw [hpc]; rfl) hrun
  rw [List.drop_zero] at hex
  obtain ⟨sc, hb, ht⟩ := execList_append B 77 _ _ st st' hex
  obtain ⟨v, hrd, hsc, huc⟩ := alu_hl_wrap B hB ([(33, Instr.alu8i AluOp.and (R8.lo 0) 16), (35, Instr.alu8i AluOp.add (R8.lo 0) 240)] ++ ((37, Instr.alu8 AluOp.adc (R8.hi 0) (R8.lo 2)) :: pipeAt hlOffC 15 240)) 68 69 (fun g v => opAdc g v) afOnly_adc sameButAf_adc (fun g => g.af % 16 = 0) (fun _ _ h hp => by rw [← h]; exact hp)
    (fun g' v st0 s1 hs0 hp0 hv0 hvlt hex0 => adc_body B _ _ (rd_dl B .adc) rdStable_dl v hvlt 33 35 hlOffC 68 g' st0 s1 hs0 hp0 hv0 hex0) g st sc hsim h0 hb
  obtain ⟨hs', hu'⟩ := sim_tail B hsc 69 73 77 1 2 (by decide) (by decide) ht
  refine ⟨advance (opAdc g v) 1, st.bus, ?_, ⟨hs'.af, hs'.hl, hs'.de, hs'.bc, hs'.sp, hs'.ip, hs'.cy, hs'.size⟩,
    by rw [hu'.bus, huc.bus], by rw [hu'.stack, huc.stack], by rw [hu'.r14, huc.r14]⟩
  show (do let v ← B.read st.bus (getReg16 g .HL); _) = _
  simp only [bind, Except.bind, hrd]

theorem table_9e (b1 b2 : Nat) :
    decodeCode (Gen.emitOp 0x9e) = some (((readHlPre ++ (([(33, Instr.alu8i AluOp.and (R8.lo 0) 16), (35, Instr.alu8i AluOp.add (R8.lo 0) 240)] ++ ((37, Instr.alu8 AluOp.sbb (R8.hi 0) (R8.lo 2)) :: pipeAt hlOffC 15 240)) ++ [(68, Instr.alu8i AluOp.or (R8.lo 0) 64)])) ++ [(70, Instr.pop 2)]) ++ [(71, addIp 1), (75, addCy 2)]) ∧
    bytesOf (Gen.emitOp 0x9e) = 79 ∧ Gen.decode 0x9e b1 b2 = (.SubIndirectWithCarry, 1, 8) := ⟨by decide +kernel, by decide +kernel, rfl⟩

theorem sim_9e (b1 b2 : Nat) : SimulatesMemF 0x9e b1 b2 := by
  obtain ⟨hdec, hbytes, hop⟩ := table_9e b1 b2
  refine ⟨_, hdec, ?_⟩
  intro β B hB g fuel st st' hsim h0 hpc _ _ hrun
  rw [hbytes] at hrun
  rw [hop]
  show ∃ g' m', runOp B .SubIndirectWithCarry g st.bus 1 = .ok (g', m', STATUS_NORMAL) ∧ Sim { g' with cycles := g'.cycles + 8 / 4 } st' ∧ _
  rw [show (8 : Nat) / 4 = 2 from rfl]
  have hst : straight (((readHlPre ++ (([(33, Instr.alu8i AluOp.and (R8.lo 0) 16), (35, Instr.alu8i AluOp.add (R8.lo 0) 240)] ++ ((37, Instr.alu8 AluOp.sbb (R8.hi 0) (R8.lo 2)) :: pipeAt hlOffC 15 240)) ++ [(68, Instr.alu8i AluOp.or (R8.lo 0) 64)])) ++ [(70, Instr.pop 2)]) ++ [(71, addIp 1), (75, addCy 2)]) :=
    straight_app (straight_app (straight_app straight_readHlPre (straight_app (straight_app (straight_two _ _ _ _ ⟨fun _ _ e => Instr.noConfusion e, fun _ e => Instr.noConfusion e⟩ ⟨fun _ _ e => Instr.noConfusion e, fun _ e => Instr.noConfusion e⟩) (straight_cons _ _ _ (fun _ _ e => Instr.noConfusion e) (fun _ e => Instr.noConfusion e) (straight_pipe _ _ _))) (straight_al _ _ _)))
      (straight_one _ _ (fun _ _ e => Instr.noConfusion e) (fun _ e => Instr.noConfusion e))) (tail_straight 71 75 1 2)
  have hex := run_execList B _ 79 rfl hst _ 0 (Nat.zero_add _) fuel st st' (by rw [hpc]; rfl) hrun
  rw [List.drop_zero] at hex
  obtain ⟨sc, hb, ht⟩ := execList_append B 79 _ _ st st' hex
  obtain ⟨v, hrd, hsc, huc⟩ := alu_hl_wrap B hB (([(33, Instr.alu8i AluOp.and (R8.lo 0) 16), (35, Instr.alu8i AluOp.add (R8.lo 0) 240)] ++ ((37, Instr.alu8 AluOp.sbb (R8.hi 0) (R8.lo 2)) :: pipeAt hlOffC 15 240)) ++ [(68, Instr.alu8i AluOp.or (R8.lo 0) 64)]) 70 71 (fun g v => opSbc g v) afOnly_sbc sameButAf_sbc (fun g => g.af % 16 = 0) (fun _ _ h hp => by rw [← h]; exact hp)
    (fun g' v st0 s1 hs0 hp0 hv0 hvlt hex0 => sbc_body B _ _ (rd_dl B .sbb) rdStable_dl v hvlt 33 35 hlOffC 70 g' st0 s1 hs0 hp0 hv0 hex0) g st sc hsim h0 hb
  obtain ⟨hs', hu'⟩ := sim_tail B hsc 71 75 79 1 2 (by decide) (by decide) ht
  refine ⟨advance (opSbc g v) 1, st.bus, ?_, ⟨hs'.af, hs'.hl, hs'.de, hs'.bc, hs'.sp, hs'.ip, hs'.cy, hs'.size⟩,
    by rw [hu'.bus, huc.bus], by rw [hu'.stack, huc.stack], by rw [hu'.r14, huc.r14]⟩
  show (do let v ← B.read st.bus (getReg16 g .HL); _) = _
  simp only [bind, Except.bind, hrd]

end GbVerif.X86
