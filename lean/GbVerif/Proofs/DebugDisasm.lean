import GbVerif.Model.Debug
import GbVerif.Spec.Debug
/-!
Lemmas for C20, disassembly part.  The only facts used about the generated decoder table are the four
256-entry enumerations `dec_facts` / `cb_facts` (lengths within 1..3, operand reads inside the length).
-/
namespace GbVerif.DebugDisasm
open GbVerif.Debug GbVerif.DebugSpec GbVerif

/-! ### facts about the generated table (kernel enumeration, re-checked whenever the table changes) -/

theorem dec_facts : ∀ b, b < 256 → b ≠ Gen.prefixByte →
    (1 ≤ Gen.decLen b ∧ Gen.decLen b ≤ 3 ∧ Gen.decReads b + 1 ≤ Gen.decLen b) := by decide +kernel

theorem cb_facts : ∀ b, b < 256 →
    (1 ≤ Gen.cbLen b ∧ Gen.cbLen b ≤ 3 ∧ 1 + Gen.cbReads b + 1 ≤ Gen.cbLen b) := by decide +kernel

theorem prefix_lt : Gen.prefixByte < 256 := by decide

theorem instr_facts {b0 b1 : Nat} (h0 : b0 < 256) (h1 : b1 < 256) :
    1 ≤ Gen.instrLen b0 b1 ∧ Gen.instrLen b0 b1 ≤ 3 ∧ Gen.instrReads b0 b1 + 1 ≤ Gen.instrLen b0 b1 := by
  unfold Gen.instrLen Gen.instrReads
  by_cases h : b0 = Gen.prefixByte
  · simp only [h, if_true]; exact cb_facts b1 h1
  · simp only [h, if_false]; exact dec_facts b0 h0 h

theorem instrLen_nonprefix {b0 : Nat} (h : b0 ≠ Gen.prefixByte) (x y : Nat) :
    Gen.instrLen b0 x = Gen.instrLen b0 y ∧ Gen.instrReads b0 x = Gen.instrReads b0 y := by
  simp [Gen.instrLen, Gen.instrReads, h]

/-! ### complete instructions -/

/-- A complete instruction: its first byte — and, after the prefix byte, its second — select a decoder arm, and
it consists of exactly as many bytes as that arm's length. -/
def Complete (i : List Nat) : Prop :=
  ∃ b0 rest, i = b0 :: rest ∧ (∀ b ∈ i, b < 256) ∧ (b0 = Gen.prefixByte → rest ≠ []) ∧
    i.length = Gen.instrLen b0 (rest.headD 0)

def ofItem (x : Item) : Instr := ⟨x.address, x.length, x.bytes⟩

theorem headD_lt {l : List Nat} (h : ∀ b ∈ l, b < 256) : l.headD 0 < 256 := by
  cases l with
  | nil => decide
  | cons a b => exact h a (List.mem_cons_self ..)

/-- one step of the loop over a complete instruction followed by anything -/
theorem loop_step (fuel a : Nat) (i tl : List Nat) (hi : Complete i) :
    disasmLoop (fuel + 1) a (i ++ tl) =
      match disasmLoop fuel ((a + i.length) % 65536) tl with
      | .error e => .error e
      | .ok out => .ok (⟨a, i.length, i⟩ :: out) := by
  obtain ⟨b0, rest, rfl, hb, hp, hlen⟩ := hi
  have h0 : b0 < 256 := hb b0 (List.mem_cons_self ..)
  have hrest : ∀ b ∈ rest, b < 256 := fun b hb' => hb b (List.mem_cons_of_mem _ hb')
  have hf := instr_facts h0 (headD_lt hrest)
  -- the byte after the first, as the decoder sees it, selects the same arm
  have hsame : Gen.instrLen b0 ((rest ++ tl).headD 0) = Gen.instrLen b0 (rest.headD 0) ∧
      Gen.instrReads b0 ((rest ++ tl).headD 0) = Gen.instrReads b0 (rest.headD 0) := by
    cases rest with
    | nil =>
      have : b0 ≠ Gen.prefixByte := fun h => hp h rfl
      exact instrLen_nonprefix this _ _
    | cons r rs => exact ⟨rfl, rfl⟩
  have hl : (b0 :: rest).length = rest.length + 1 := rfl
  have hdec : decodeLen b0 (rest ++ tl) = some (b0 :: rest).length := by
    unfold decodeLen
    simp only [hsame.1, hsame.2, List.length_append]
    rw [if_neg (by omega), hlen]
  rw [List.cons_append, disasmLoop, hdec]
  simp only
  rw [if_neg (by omega), if_neg (by simp only [List.length_cons, List.length_append]; omega)]
  have hd : (b0 :: (rest ++ tl)).drop (b0 :: rest).length = tl := by
    rw [← List.cons_append, List.drop_left]
  have ht : (b0 :: (rest ++ tl)).take (b0 :: rest).length = b0 :: rest := by
    rw [← List.cons_append, List.take_left]
  rw [hd, ht]
  cases disasmLoop fuel ((a + (b0 :: rest).length) % 65536) tl <;> rfl

theorem complete_length_pos {i : List Nat} (h : Complete i) : 1 ≤ i.length := by
  obtain ⟨b0, rest, rfl, _, _, _⟩ := h
  simp

/-- the loop over a concatenation of complete instructions produces the spec layout -/
theorem loop_tiles (is : List (List Nat)) (his : ∀ i ∈ is, Complete i) :
    ∀ (fuel a : Nat), is.flatten.length ≤ fuel → disasmLoop fuel a is.flatten = .ok ((layout a is).map ofItem) := by
  induction is with
  | nil => intro fuel a _; cases fuel <;> simp [disasmLoop, layout]
  | cons i is ih =>
    intro fuel a hfuel
    have hi := his i (List.mem_cons_self ..)
    have hpos := complete_length_pos hi
    rw [List.flatten_cons] at hfuel ⊢
    rw [List.length_append] at hfuel
    obtain ⟨f, rfl⟩ : ∃ f, fuel = f + 1 := ⟨fuel - 1, by omega⟩
    rw [loop_step f a i is.flatten hi,
      ih (fun j hj => his j (List.mem_cons_of_mem _ hj)) f _ (by omega)]
    simp [layout, ofItem]

/-! ### totality -/

/-- on arbitrary bytes the loop returns or stops on an out-of-range index; never `bytes4`, never `fuel` -/
theorem loop_total : ∀ (fuel a : Nat) (bs : List Nat), (∀ b ∈ bs, b < 256) → bs.length ≤ fuel →
    (∃ out, disasmLoop fuel a bs = .ok out) ∨ disasmLoop fuel a bs = .error .oob := by
  intro fuel
  induction fuel with
  | zero =>
    intro a bs _ hl
    have : bs = [] := List.eq_nil_of_length_eq_zero (by omega)
    subst this
    exact Or.inl ⟨[], by simp [disasmLoop]⟩
  | succ f ih =>
    intro a bs hb hl
    cases bs with
    | nil => exact Or.inl ⟨[], by simp [disasmLoop]⟩
    | cons b0 rest =>
      have h0 : b0 < 256 := hb b0 (List.mem_cons_self ..)
      have hrest : ∀ b ∈ rest, b < 256 := fun b hb' => hb b (List.mem_cons_of_mem _ hb')
      have hf := instr_facts h0 (headD_lt hrest)
      rw [disasmLoop]
      by_cases hr : rest.length < Gen.instrReads b0 (rest.headD 0)
      · have : decodeLen b0 rest = none := by unfold decodeLen; exact if_pos hr
        rw [this]; exact Or.inr rfl
      · have : decodeLen b0 rest = some (Gen.instrLen b0 (rest.headD 0)) := by unfold decodeLen; exact if_neg hr
        rw [this]
        simp only
        rw [if_neg (by omega)]
        by_cases hs : (b0 :: rest).length < Gen.instrLen b0 (rest.headD 0)
        · rw [if_pos hs]; exact Or.inr rfl
        · rw [if_neg hs]
          have hdl : ((b0 :: rest).drop (Gen.instrLen b0 (rest.headD 0))).length ≤ f := by
            rw [List.length_drop]; simp only [List.length_cons] at hl ⊢; omega
          have hdb : ∀ b ∈ (b0 :: rest).drop (Gen.instrLen b0 (rest.headD 0)), b < 256 :=
            fun b hb' => hb b (List.mem_of_mem_drop hb')
          rcases ih ((a + Gen.instrLen b0 (rest.headD 0)) % 65536) _ hdb hdl with ⟨out, ho⟩ | he
          · rw [ho]; exact Or.inl ⟨_, rfl⟩
          · rw [he]; exact Or.inr rfl

/-! ### layout arithmetic -/

theorem layout_length (a : Nat) (is : List (List Nat)) : (layout a is).length = is.length := by
  induction is generalizing a with
  | nil => rfl
  | cons i is ih => simp [layout, ih]

theorem layout_sum (a : Nat) (is : List (List Nat)) :
    ((layout a is).map (·.length)).sum = is.flatten.length := by
  induction is generalizing a with
  | nil => rfl
  | cons i is ih => simp [layout, ih]

/-- the `k`-th listed instruction: starts at `a` + the bytes before it (mod 2^16), is the `k`-th instruction -/
theorem layout_get (a : Nat) (ha : a < 65536) (is : List (List Nat)) (k : Nat) (hk : k < is.length) :
    (layout a is)[k]? = some ⟨(a + (is.take k).flatten.length) % 65536, (is[k]'hk).length, is[k]'hk⟩ := by
  induction is generalizing a k with
  | nil => simp at hk
  | cons i is ih =>
    cases k with
    | zero => simp [layout, Nat.mod_eq_of_lt ha]
    | succ k =>
      simp only [layout, List.getElem?_cons_succ, List.take_succ_cons, List.flatten_cons, List.length_append,
        List.getElem_cons_succ]
      rw [ih ((a + i.length) % 65536) (Nat.mod_lt _ (by decide)) k (by simpa using hk)]
      congr 2
      omega

end GbVerif.DebugDisasm
