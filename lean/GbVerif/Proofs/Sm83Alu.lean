import GbVerif.Proofs.Sm83Abs
/-!
8-bit ALU leaf lemmas: the interpreter's carry/half-carry primitives and `op*` helpers, for every accumulator,
operand and flag value, compute the SM83 `alu[y]` result and Z/N/H/C flags.
-/
namespace GbVerif.C05
open GbVerif.Interp GbVerif.Sm83Bits
open GbVerif.SM83 (Cpu mkF flagZ flagN flagH flagC)

theorem beq0 (x : Nat) : (x == 0) = decide (x = 0) := by
  by_cases h : x = 0 <;> simp [h]

theorem carryIn_le (af : Nat) : carryIn af ≤ 1 := by unfold carryIn; split <;> omega

theorem carryAdd_eq (a v : Nat) :
    carryAdd a v = ((a + v) % 256, decide (a + v ≥ 256), decide (a % 16 + v % 16 ≥ 16)) := by
  simp only [carryAdd, u8, and_0f, and_10_ne, Prod.mk.injEq, decide_eq_decide, true_and]; omega

theorem carryAdc_eq (a v af : Nat) :
    carryAdc a v af = ((a + v + carryIn af) % 256, decide (a + v + carryIn af ≥ 256), decide (a % 16 + v % 16 + carryIn af ≥ 16)) := by
  have := carryIn_le af
  simp only [carryAdc, u8, and_0f, and_10_ne, Prod.mk.injEq, true_and]
  generalize carryIn af = e at *
  constructor
  · show (decide (a + v > 255) || decide ((a + v) % 256 + e > 255)) = decide (a + v + e ≥ 256)
    rw [Bool.eq_iff_iff]; simp only [Bool.or_eq_true, decide_eq_true_eq]; omega
  · rw [decide_eq_decide]; omega

theorem carrySub_eq (a v : Nat) (ha : a < 256) (hv : v < 256) :
    carrySub a v = ((a + 256 - v) % 256, decide (a < v), decide (a % 16 < v % 16)) := by
  simp only [carrySub, u8, and_0f, and_10_ne, Prod.mk.injEq, decide_eq_decide, true_and]; omega

theorem carrySbc_eq (a v af : Nat) (ha : a < 256) (hv : v < 256) :
    carrySbc a v af = ((a + 512 - v - carryIn af) % 256, decide (a < v + carryIn af), decide (a % 16 < v % 16 + carryIn af)) := by
  have := carryIn_le af
  simp only [carrySbc, u8, and_0f, and_10_ne, Prod.mk.injEq]
  generalize carryIn af = e at *
  refine ⟨by omega, ?_, ?_⟩
  · show (decide (a < v) || decide ((a + 256 - v) % 256 < e)) = decide (a < v + e)
    rw [Bool.eq_iff_iff]; simp only [Bool.or_eq_true, decide_eq_true_eq]; omega
  · rw [decide_eq_decide]; omega

theorem flagsAdd_conc {c : Cpu} (hc : CWF c) (k : Nat) (res : Nat × Bool × Bool) :
    flagsAdd (conc c k) res = conc { c with f := mkF (decide (res.1 = 0)) false res.2.2 res.2.1 } k := by
  simp only [flagsAdd]
  rw [mask_f0 hc, testCarry_mkF hc, testHalf_mkF hc, testZero_mkF hc]
  simp only [Bool.false_or]

theorem flagsSub_conc {c : Cpu} (hc : CWF c) (k : Nat) (res : Nat × Bool × Bool) :
    flagsSub (conc c k) res = conc { c with f := mkF (decide (res.1 = 0)) true res.2.2 res.2.1 } k := by
  simp only [flagsSub]
  rw [mask_f0 hc, testCarry_mkF hc, testHalf_mkF hc, setNeg_mkF hc, testZero_mkF hc]
  simp only [Bool.false_or]

private theorem m256 (x : Nat) : x % 256 < 256 := Nat.mod_lt _ (by decide)

theorem opAdd_conc {c : Cpu} (hc : CWF c) (k v : Nat) : opAdd (conc c k) v .A = conc (SM83.alu c 0 v) k := by
  simp only [opAdd]
  rw [getReg_conc hc, carryAdd_eq, setReg_conc hc k .A _ (m256 _), flagsAdd_conc (cwf_setR hc _ _ (m256 _))]
  simp only [SM83.alu, idx, SM83.getR, SM83.setR]

theorem opAdc_conc {c : Cpu} (hc : CWF c) (k v : Nat) : opAdc (conc c k) v .A = conc (SM83.alu c 1 v) k := by
  simp only [opAdc]
  rw [getReg_conc hc, carryAdc_eq, carryIn_conc hc, setReg_conc hc k .A _ (m256 _), flagsAdd_conc (cwf_setR hc _ _ (m256 _))]
  simp only [SM83.alu, idx, SM83.getR, SM83.setR]

theorem opSub_conc {c : Cpu} (hc : CWF c) (k v : Nat) (hv : v < 256) : opSub (conc c k) v .A = conc (SM83.alu c 2 v) k := by
  have ha := hc.ha
  simp only [opSub]
  rw [getReg_conc hc, carrySub_eq _ _ (getR_lt hc _) hv, setReg_conc hc k .A _ (m256 _), flagsSub_conc (cwf_setR hc _ _ (m256 _))]
  simp only [SM83.alu, idx, SM83.getR, SM83.setR]
  have hz : decide ((c.a + 256 - v) % 256 = 0) = decide (c.a = v) := decide_eq_decide.mpr (by omega)
  rw [hz]

theorem opSbc_conc {c : Cpu} (hc : CWF c) (k v : Nat) (hv : v < 256) : opSbc (conc c k) v .A = conc (SM83.alu c 3 v) k := by
  simp only [opSbc]
  rw [getReg_conc hc, carrySbc_eq _ _ _ (getR_lt hc _) hv, carryIn_conc hc, setReg_conc hc k .A _ (m256 _),
    flagsSub_conc (cwf_setR hc _ _ (m256 _))]
  simp only [SM83.alu, idx, SM83.getR, SM83.setR]

theorem opCp_conc {c : Cpu} (hc : CWF c) (k v : Nat) (hv : v < 256) : opCp (conc c k) v = conc (SM83.alu c 7 v) k := by
  have ha := hc.ha
  simp only [opCp]
  rw [getReg_conc hc, carrySub_eq _ _ (getR_lt hc _) hv, flagsSub_conc hc]
  simp only [SM83.alu, idx, SM83.getR]
  have hz : decide ((c.a + 256 - v) % 256 = 0) = decide (c.a = v) := decide_eq_decide.mpr (by omega)
  rw [hz]

theorem opAnd_conc {c : Cpu} (hc : CWF c) (k v : Nat) : opAnd (conc c k) v .A = conc (SM83.alu c 4 v) k := by
  have hx : SM83.getR c (idx .A) &&& v < 256 := Nat.lt_of_le_of_lt Nat.and_le_left (getR_lt hc _)
  simp only [opAnd]
  rw [getReg_conc hc, setReg_conc hc k .A _ hx, mask_f0 (cwf_setR hc _ _ hx), orF20_mkF (cwf_setR hc _ _ hx),
    testZero_mkF (cwf_setR hc _ _ hx)]
  simp only [SM83.alu, idx, SM83.getR, SM83.setR, Bool.false_or]

theorem opXor_conc {c : Cpu} (hc : CWF c) (k v : Nat) (hv : v < 256) : opXor (conc c k) v .A = conc (SM83.alu c 5 v) k := by
  have hx : SM83.getR c (idx .A) ^^^ v < 256 := @Nat.xor_lt_two_pow _ _ 8 (getR_lt hc _) hv
  simp only [opXor]
  rw [getReg_conc hc, setReg_conc hc k .A _ hx, mask_f0 (cwf_setR hc _ _ hx), testZero_mkF (cwf_setR hc _ _ hx)]
  simp only [SM83.alu, idx, SM83.getR, SM83.setR, Bool.false_or]

theorem opOr_conc {c : Cpu} (hc : CWF c) (k v : Nat) (hv : v < 256) : opOr (conc c k) v .A = conc (SM83.alu c 6 v) k := by
  have hx : SM83.getR c (idx .A) ||| v < 256 := @Nat.or_lt_two_pow _ _ 8 (getR_lt hc _) hv
  simp only [opOr]
  rw [getReg_conc hc, setReg_conc hc k .A _ hx, mask_f0 (cwf_setR hc _ _ hx), testZero_mkF (cwf_setR hc _ _ hx)]
  simp only [SM83.alu, idx, SM83.getR, SM83.setR, Bool.false_or]

/-- the interpreter's eight accumulator operations, indexed like the SM83 `alu[y]` table -/
def aluModel (y : Nat) (r : Regs) (v : Nat) : Regs :=
  match y with
  | 0 => opAdd r v | 1 => opAdc r v | 2 => opSub r v | 3 => opSbc r v
  | 4 => opAnd r v | 5 => opXor r v | 6 => opOr r v | _ => opCp r v

/-- **ALU refinement**: for every accumulator, flag and operand value, each of the interpreter's eight
accumulator operations produces the SM83 result and Z/N/H/C flags -/
theorem aluModel_conc {c : Cpu} (hc : CWF c) (k y v : Nat) (hv : v < 256) :
    aluModel y (conc c k) v = conc (SM83.alu c y v) k := by
  unfold aluModel
  split
  · exact opAdd_conc hc k v
  · exact opAdc_conc hc k v
  · exact opSub_conc hc k v hv
  · exact opSbc_conc hc k v hv
  · exact opAnd_conc hc k v
  · exact opXor_conc hc k v hv
  · exact opOr_conc hc k v hv
  · rename_i h0 h1 h2 h3 h4 h5 h6
    have h0 : y ≠ 0 := h0; have h1 : y ≠ 1 := h1; have h2 : y ≠ 2 := h2; have h3 : y ≠ 3 := h3
    have h4 : y ≠ 4 := h4; have h5 : y ≠ 5 := h5; have h6 : y ≠ 6 := h6
    obtain ⟨n, rfl⟩ : ∃ n, y = n + 7 := ⟨y - 7, by omega⟩
    have : SM83.alu c (n + 7) v = SM83.alu c 7 v := rfl
    rw [this]; exact opCp_conc hc k v hv

theorem cwf_alu {c : Cpu} (hc : CWF c) (y v : Nat) (hv : v < 256) : CWF (SM83.alu c y v) := by
  obtain ⟨ha, hf, hf0, hb, hc', hd, he, hh, hl, hsp, hpc⟩ := hc
  have h4 : c.a &&& v < 256 := Nat.lt_of_le_of_lt Nat.and_le_left ha
  have h5 : c.a ^^^ v < 256 := @Nat.xor_lt_two_pow _ _ 8 ha hv
  have h6 : c.a ||| v < 256 := @Nat.or_lt_two_pow _ _ 8 ha hv
  unfold SM83.alu
  simp only []
  split <;> constructor <;> first | assumption | exact mkF_lt .. | exact mkF_mod .. | exact m256 _

end GbVerif.C05
