import GbVerif.Proofs.Sm83Leaf
/-! Refinement of the unprefixed opcodes 0x20..0x3F (one goal per first byte, operand bytes symbolic). -/
namespace GbVerif.C05
open GbVerif.Interp GbVerif.Enum

set_option maxRecDepth 4000 in
theorem main_1 {β : Type} {B : BusOps β} (hB : ByteBus B) : PTree (Goal B) 5 32 := by
  simp only [PTree]
  repeat' constructor
  all_goals (intro b1 b2 hb1 hb2 h1 h2; first | sm83_leaf hB hb1 hb2 | (exfalso; first | exact h1 rfl | exact h2 rfl))

end GbVerif.C05
