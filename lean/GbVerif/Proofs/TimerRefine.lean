import GbVerif.Proofs.Timer
import GbVerif.Spec.Timer
/-!
Timer model, part 2: the invariant, and refinement of the model (batched, 16-bit, masks) to the per-clock
hardware spec (`GbVerif.TimerSpec`, unbounded elapsed-clock count, TAC only).
-/
namespace GbVerif.Timer
open GbVerif.TimerBits
open GbVerif.TimerSpec (Hw selBit period enabled signal tickTima edge writeTac)

/-! ### the two mask functions, in terms of the spec's `selBit` / `enabled` -/

theorem selBit_cases (v : Nat) : selBit v = 3 ∨ selBit v = 5 ∨ selBit v = 7 ∨ selBit v = 9 := by
  unfold selBit
  have : v % 4 = 0 ∨ v % 4 = 1 ∨ v % 4 = 2 ∨ v % 4 = 3 := by omega
  rcases this with h | h | h | h <;> simp [h]

theorem clockMaskOf_eq (v : Nat) : clockMaskOf v = 2 ^ selBit v := by
  unfold clockMaskOf selBit
  rw [and_3]
  have : v % 4 = 0 ∨ v % 4 = 1 ∨ v % 4 = 2 ∨ v % 4 = 3 := by omega
  rcases this with h | h | h | h <;> simp [h]

theorem enabledMaskOf_eq (v : Nat) : enabledMaskOf v = if enabled v then 0xffff else 0 := by
  unfold enabledMaskOf enabled
  rw [and_4_ne_zero]

theorem two_mul_clockMaskOf (v : Nat) : 2 * clockMaskOf v = period v := by
  rw [clockMaskOf_eq]; unfold period; rw [Nat.pow_succ]; omega

theorem selBit_mod (v : Nat) : selBit (v % 256) = selBit v := by
  unfold selBit
  have : v % 256 % 4 = v % 4 := by omega
  rw [this]

/-! ### invariant -/

/-- Representation invariant of `Timer`, between operations. The first alternative of the last conjunct is
the state of `Timer::new()` (both masks 0 until TAC is first written). -/
def Wf (s : State) : Prop :=
  s.cycleCount < 65536 ∧ s.counter < 256 ∧ s.modulo < 256 ∧ s.controlValue < 256 ∧
  ((s.enabledMask = 0 ∧ s.timerClockMask = 0 ∧ s.controlValue = 0) ∨
   (s.enabledMask = enabledMaskOf s.controlValue ∧ s.timerClockMask = clockMaskOf s.controlValue))

instance (s : State) : Decidable (Wf s) := by unfold Wf; infer_instance

theorem Wf.mask_lt {s : State} (w : Wf s) : s.timerClockMask < 65536 := by
  rcases w.2.2.2.2 with h | h
  · rw [h.2.1]; decide
  · rw [h.2, clockMaskOf_eq]
    rcases selBit_cases s.controlValue with e | e | e | e <;> rw [e] <;> decide

/-- model state `s` represents hardware state `h` -/
def Refines (s : State) (h : Hw) : Prop :=
  Wf s ∧ s.cycleCount = h.elapsed % 65536 ∧ s.counter = h.tima ∧ s.modulo = h.tma ∧ s.controlValue = h.tac

/-- the canonical hardware state of a well-formed model state -/
def abs (s : State) : Hw := ⟨s.cycleCount, s.counter, s.modulo, s.controlValue⟩

theorem refines_abs (s : State) (w : Wf s) : Refines s (abs s) :=
  ⟨w, (Nat.mod_eq_of_lt w.1).symm, rfl, rfl, rfl⟩

theorem refines_init : Refines init TimerSpec.init := by
  refine ⟨by decide, rfl, rfl, rfl, rfl⟩

/-- two model states representing the same hardware state with the same masks are equal -/
theorem refines_inj {s t : State} {h : Hw} (rs : Refines s h) (rt : Refines t h)
    (he : s.enabledMask = t.enabledMask) (hm : s.timerClockMask = t.timerClockMask) : s = t := by
  obtain ⟨_, a1, a2, a3, a4⟩ := rs
  obtain ⟨_, b1, b2, b3, b4⟩ := rt
  cases s; cases t
  simp only [State.mk.injEq] at *
  exact ⟨by rw [a1, b1], by rw [a2, b2], by rw [a3, b3], he, hm, by rw [a4, b4]⟩

/-! ### register writes -/

theorem refines_cc {s : State} {h : Hw} (r : Refines s h) (e : Nat) :
    Refines { s with cycleCount := e % 65536 } { h with elapsed := e } := by
  obtain ⟨⟨_, w2, w3, w4, w5⟩, _, r2, r3, r4⟩ := r
  exact ⟨⟨Nat.mod_lt _ (by decide), w2, w3, w4, w5⟩, rfl, r2, r3, r4⟩

theorem refines_resetDivider {s : State} {h : Hw} (r : Refines s h) :
    Refines (resetDivider s) (TimerSpec.writeDiv h) := refines_cc r 0

theorem refines_setCounter {s : State} {h : Hw} (r : Refines s h) (v : Nat) :
    Refines (setCounter s v) (TimerSpec.writeTima h v) := by
  obtain ⟨⟨w1, _, w3, w4, w5⟩, r1, _, r3, r4⟩ := r
  exact ⟨⟨w1, Nat.mod_lt _ (by decide), w3, w4, w5⟩, r1, rfl, r3, r4⟩

theorem refines_setModulo {s : State} {h : Hw} (r : Refines s h) (v : Nat) :
    Refines (setModulo s v) (TimerSpec.writeTma h v) := by
  obtain ⟨⟨w1, w2, _, w4, w5⟩, r1, r2, _, r4⟩ := r
  exact ⟨⟨w1, w2, Nat.mod_lt _ (by decide), w4, w5⟩, r1, r2, rfl, r4⟩

theorem refines_inc {s : State} {h : Hw} (r : Refines s h) :
    Refines (incrementCounter s).1 (tickTima h).1 ∧ (incrementCounter s).2 = (tickTima h).2 := by
  obtain ⟨⟨w1, w2, w3, w4, w5⟩, r1, r2, r3, r4⟩ := r
  unfold incrementCounter tickTima
  by_cases hc : s.counter = 255
  · have ht : h.tima = 255 := by rw [← r2]; exact hc
    simp only [hc, ht, beq_self_eq_true, if_true, and_true]
    exact ⟨⟨w1, w3, w3, w4, w5⟩, r1, r3, r3, r4⟩
  · have ht : ¬ h.tima = 255 := by rw [← r2]; exact hc
    have hb : (s.counter == 255) = false := by simpa using hc
    simp only [hb, ht, if_false, and_true, Bool.false_eq_true]
    refine ⟨⟨w1, Nat.mod_lt _ (by decide), w3, w4, w5⟩, r1, ?_, r3, r4⟩
    show (s.counter + 1) % 256 = h.tima + 1
    rw [← r2]; omega

/-- the masked bit the code computes is the spec's `signal` -/
theorem masked_eq_signal {s : State} {h : Hw} (r : Refines s h) :
    (s.cycleCount &&& s.timerClockMask &&& s.enabledMask != 0) = signal h := by
  obtain ⟨⟨w1, w2, w3, w4, w5⟩, r1, r2, r3, r4⟩ := r
  unfold signal
  rcases w5 with ⟨e1, _, e3⟩ | ⟨e1, e2⟩
  · have : h.tac = 0 := by rw [← r4]; exact e3
    rw [e1, this]; simp [enabled]
  · rw [e1, e2, enabledMaskOf_eq, clockMaskOf_eq, r4]
    cases hen : enabled h.tac
    · simp
    · have hk : selBit h.tac < 16 := by rcases selBit_cases h.tac with e | e | e | e <;> omega
      have hle : s.cycleCount &&& 2 ^ selBit h.tac < 65536 := by
        have := @Nat.and_le_right s.cycleCount (2 ^ selBit h.tac)
        have : 2 ^ selBit h.tac < 65536 := by
          rcases selBit_cases h.tac with e | e | e | e <;> rw [e] <;> decide
        omega
      simp only [if_true, and_ffff, Nat.mod_eq_of_lt hle, Bool.and_true]
      rw [and_two_pow_ne_zero, r1, ← NatBits.testBit_mod h.elapsed _ 16 hk]

/-- the field updates of `set_timer_control` -/
def withTac (s : State) (v : Nat) : State :=
  { s with controlValue := v % 256, enabledMask := enabledMaskOf (v % 256), timerClockMask := clockMaskOf (v % 256) }

theorem setTimerControl_eq (s : State) (v : Nat) : setTimerControl s v =
    if (s.cycleCount &&& s.timerClockMask &&& s.enabledMask != 0) = true then
      if ((withTac s v).cycleCount &&& (withTac s v).timerClockMask &&& (withTac s v).enabledMask == 0) = true
      then incrementCounter (withTac s v) else (withTac s v, false)
    else (withTac s v, false) := rfl

theorem writeTac_eq (h : Hw) (v : Nat) : writeTac h v =
    if (signal h && !signal { h with tac := v % 256 }) = true then tickTima { h with tac := v % 256 }
    else ({ h with tac := v % 256 }, false) := rfl

theorem refines_tac {s : State} {h : Hw} (r : Refines s h) (v : Nat) :
    Refines (withTac s v) { h with tac := v % 256 } := by
  obtain ⟨⟨w1, w2, w3, _, _⟩, r1, r2, r3, _⟩ := r
  exact ⟨⟨w1, w2, w3, Nat.mod_lt _ (by decide), Or.inr ⟨rfl, rfl⟩⟩, r1, r2, r3, rfl⟩

/-- `set_timer_control` is the spec's TAC write, glitch included -/
theorem refines_setTimerControl {s : State} {h : Hw} (r : Refines s h) (v : Nat) :
    Refines (setTimerControl s v).1 (writeTac h v).1 ∧ (setTimerControl s v).2 = (writeTac h v).2 := by
  have r' := refines_tac r v
  have m := masked_eq_signal r
  have m' := masked_eq_signal r'
  have m'' : ((withTac s v).cycleCount &&& (withTac s v).timerClockMask &&& (withTac s v).enabledMask == 0) =
      !signal { h with tac := v % 256 } := by
    rw [← m', bne, Bool.not_not]
  rw [setTimerControl_eq, writeTac_eq]
  simp only [m, m'']
  cases signal h <;> cases signal { h with tac := v % 256 }
  · exact ⟨r', rfl⟩
  · exact ⟨r', rfl⟩
  · exact refines_inc r'
  · exact ⟨r', rfl⟩

/-! ### one clock -/

theorem clock_eq (s : State) : clock s =
    if (s.enabledMask != 0 &&
        (s.cycleCount &&& s.timerClockMask != 0 && (s.cycleCount + 1) &&& s.timerClockMask == 0)) = true
    then ({ (incrementCounter s).1 with cycleCount := (s.cycleCount + 1) % 65536 }, (incrementCounter s).2)
    else ({ s with cycleCount := (s.cycleCount + 1) % 65536 }, false) := by
  unfold clock
  by_cases he : (s.enabledMask == 0) = true
  · have : (s.enabledMask != 0) = false := by simpa using he
    simp [he, this]
  · have hne : (s.enabledMask != 0) = true := by simpa using he
    simp only [he, hne, Bool.true_and, if_false, Bool.false_eq_true]
    rw [tick_eq]
    split
    · rw [incrementCounter_cc s (s.cycleCount + 1)]; rfl
    · rfl

theorem tickTima_elapsed (h : Hw) (e : Nat) :
    tickTima { h with elapsed := e } = ({ (tickTima h).1 with elapsed := e }, (tickTima h).2) := by
  unfold tickTima; split <;> rfl

theorem tickTima_frame (h : Hw) :
    (tickTima h).1.elapsed = h.elapsed ∧ (tickTima h).1.tma = h.tma ∧ (tickTima h).1.tac = h.tac := by
  unfold tickTima; split <;> simp

theorem spec_clock_eq' (h : Hw) : TimerSpec.clock h =
    if (signal h && !signal { h with elapsed := h.elapsed + 1 }) = true
    then tickTima { h with elapsed := h.elapsed + 1 }
    else ({ h with elapsed := h.elapsed + 1 }, false) := rfl

theorem spec_clock_eq (h : Hw) : TimerSpec.clock h =
    if (signal h && !signal { h with elapsed := h.elapsed + 1 }) = true
    then ({ (tickTima h).1 with elapsed := h.elapsed + 1 }, (tickTima h).2)
    else ({ h with elapsed := h.elapsed + 1 }, false) := by
  rw [spec_clock_eq', tickTima_elapsed h (h.elapsed + 1)]

/-- the code's falling-edge test on the masked counter is the spec's falling edge of `signal` -/
theorem fall_cond_eq {s : State} {h : Hw} (r : Refines s h) :
    (s.enabledMask != 0 &&
      (s.cycleCount &&& s.timerClockMask != 0 && (s.cycleCount + 1) &&& s.timerClockMask == 0)) =
    (signal h && !signal { h with elapsed := h.elapsed + 1 }) := by
  obtain ⟨⟨w1, w2, w3, w4, w5⟩, r1, r2, r3, r4⟩ := r
  unfold signal
  rcases w5 with ⟨e1, _, e3⟩ | ⟨e1, e2⟩
  · have : h.tac = 0 := by rw [← r4]; exact e3
    rw [e1, this]; simp [enabled]
  · rw [e1, e2, enabledMaskOf_eq, clockMaskOf_eq, r4]
    cases hen : enabled h.tac
    · simp
    · have hk : selBit h.tac < 16 := by rcases selBit_cases h.tac with e | e | e | e <;> omega
      have h1 : (s.cycleCount + 1) % 2 ^ 16 = (h.elapsed + 1) % 2 ^ 16 := by rw [r1]; omega
      simp only [if_true, Bool.and_true]
      rw [and_two_pow_ne_zero, and_two_pow_eq_zero, r1, ← NatBits.testBit_mod h.elapsed _ 16 hk,
        NatBits.testBit_mod (h.elapsed % 65536 + 1) _ 16 hk, ← r1, h1, ← NatBits.testBit_mod (h.elapsed + 1) _ 16 hk]
      simp

theorem refines_clock {s : State} {h : Hw} (r : Refines s h) :
    Refines (clock s).1 (TimerSpec.clock h).1 ∧ (clock s).2 = (TimerSpec.clock h).2 := by
  have hc : (s.cycleCount + 1) % 65536 = (h.elapsed + 1) % 65536 := by rw [r.2.1]; omega
  rw [clock_eq, spec_clock_eq, fall_cond_eq r, hc]
  split
  · exact ⟨refines_cc (refines_inc r).1 (h.elapsed + 1), (refines_inc r).2⟩
  · exact ⟨refines_cc r (h.elapsed + 1), rfl⟩

theorem refines_clocks : ∀ (n : Nat) {s : State} {h : Hw}, Refines s h →
    Refines (clocks n s).1 (TimerSpec.clocks n h).1 ∧ (clocks n s).2 = (TimerSpec.clocks n h).2
  | 0, _, _, r => ⟨r, rfl⟩
  | n + 1, s, h, r => by
    have h1 := refines_clock r
    have h2 := refines_clocks n h1.1
    simp only [clocks, TimerSpec.clocks]
    exact ⟨h2.1, by rw [h1.2, h2.2]⟩

/-- a batch of `n` clocks through `run_cycles` is `n` clocks of the hardware spec -/
theorem refines_run (n : Nat) {s : State} {h : Hw} (r : Refines s h) :
    Refines (run n s).1 (TimerSpec.clocks n h).1 ∧ (run n s).2 = (TimerSpec.clocks n h).2 := by
  rw [run_eq_clocks n s r.1.mask_lt, norm_of_lt s r.1.1]
  exact refines_clocks n r

/-! ### histories -/

/-- the event a model operation stands for -/
def toEv : Op → TimerSpec.Ev
  | .div => .div
  | .tima v => .tima v
  | .tma v => .tma v
  | .tac v => .tac v
  | .run n => .time n

theorem refines_apply {s : State} {h : Hw} (r : Refines s h) (op : Op) :
    Refines (apply s op).1 (TimerSpec.apply h (toEv op)).1 ∧ (apply s op).2 = (TimerSpec.apply h (toEv op)).2 := by
  cases op with
  | div => exact ⟨refines_resetDivider r, rfl⟩
  | tima v => exact ⟨refines_setCounter r v, rfl⟩
  | tma v => exact ⟨refines_setModulo r v, rfl⟩
  | tac v => exact refines_setTimerControl r v
  | run n => exact refines_run n r

theorem refines_exec : ∀ (ops : List Op) {s : State} {h : Hw}, Refines s h →
    Refines (exec ops s).1 (TimerSpec.exec (ops.map toEv) h).1 ∧
      (exec ops s).2 = (TimerSpec.exec (ops.map toEv) h).2
  | [], _, _, r => ⟨r, rfl⟩
  | op :: ops, s, h, r => by
    have h1 := refines_apply r op
    have h2 := refines_exec ops h1.1
    simp only [exec, TimerSpec.exec, List.map_cons]
    exact ⟨h2.1, by rw [h1.2, h2.2]⟩

/-! ### DIV -/

theorem getDivider_eq (s : State) : getDivider s = s.cycleCount / 256 % 256 := by
  unfold getDivider
  rw [Nat.shiftRight_eq_div_pow]
  have : (s.cycleCount &&& 0xff00) / 2 ^ 8 = s.cycleCount / 2 ^ 8 &&& 0xff00 / 2 ^ 8 := Nat.and_div_two_pow
  rw [this]
  have : (0xff00 : Nat) / 2 ^ 8 = 2 ^ 8 - 1 := by decide
  rw [this, Nat.and_two_pow_sub_one_eq_mod]
  omega

theorem getDivider_refines {s : State} {h : Hw} (r : Refines s h) : getDivider s = TimerSpec.div h := by
  rw [getDivider_eq, r.2.1]; unfold TimerSpec.div; omega

/-- spec: time adds to `elapsed`, a DIV write zeroes it, nothing else touches it -/
theorem spec_clock_elapsed (h : Hw) : (TimerSpec.clock h).1.elapsed = h.elapsed + 1 ∧
    (TimerSpec.clock h).1.tac = h.tac ∧ (TimerSpec.clock h).1.tma = h.tma := by
  rw [spec_clock_eq]
  split <;> simp [tickTima_frame]

theorem spec_clocks_elapsed : ∀ (n : Nat) (h : Hw), (TimerSpec.clocks n h).1.elapsed = h.elapsed + n ∧
    (TimerSpec.clocks n h).1.tac = h.tac ∧ (TimerSpec.clocks n h).1.tma = h.tma
  | 0, h => ⟨rfl, rfl, rfl⟩
  | n + 1, h => by
    have h1 := spec_clock_elapsed h
    have h2 := spec_clocks_elapsed n (TimerSpec.clock h).1
    simp only [TimerSpec.clocks]
    exact ⟨by rw [h2.1, h1.1]; omega, by rw [h2.2.1, h1.2.1], by rw [h2.2.2, h1.2.2]⟩

theorem spec_writeTac_elapsed (h : Hw) (v : Nat) : (writeTac h v).1.elapsed = h.elapsed := by
  rw [writeTac_eq]
  split <;> simp [tickTima_frame]

def sinceStep (acc : Nat) (e : TimerSpec.Ev) : Nat :=
  match e with
  | .div => 0
  | .time n => acc + n
  | _ => acc

theorem spec_apply_elapsed (h : Hw) (e : TimerSpec.Ev) :
    (TimerSpec.apply h e).1.elapsed = sinceStep h.elapsed e := by
  cases e with
  | div => rfl
  | tima v => rfl
  | tma v => rfl
  | tac v => exact spec_writeTac_elapsed h v
  | time n => exact (spec_clocks_elapsed n h).1

theorem spec_exec_elapsed : ∀ (es : List TimerSpec.Ev) (h : Hw),
    (TimerSpec.exec es h).1.elapsed = es.foldl sinceStep h.elapsed
  | [], _ => rfl
  | e :: es, h => by
    simp only [TimerSpec.exec, List.foldl_cons]
    rw [spec_exec_elapsed es, spec_apply_elapsed]

theorem sinceDivWrite_eq (es : List TimerSpec.Ev) : TimerSpec.sinceDivWrite es = es.foldl sinceStep 0 := rfl

end GbVerif.Timer
