import GbVerif.Proofs.SysTotal
import GbVerif.Proofs.Timer
import GbVerif.Proofs.Lcd
import GbVerif.Proofs.BusIo
import GbVerif.Proofs.CoreCycles
/-!
Batch independence of the whole device composition: letting `a + b` clocks pass in one call of
`MemoryAreas::run_clock_cycles` leaves the machine exactly where a call with `a` followed by a call with `b` leaves it
— OAM DMA (any source page, including the I/O page whose registers change while the copy runs), timer, LCD with its
frame counter, joypad request, IF.
-/
namespace GbVerif.SysProofs
open GbVerif GbVerif.Bus

/-- what `IO::run_clock_cycles` needs of the I/O block to be additive: the timer's counter and clock mask in 16 bits -/
def IoOk (io : Bus.Io) : Prop := io.timer.cycleCount < 65536 ∧ io.timer.clockMask < 65536

theorem timerOf_regsOf (t : Timer.State) : Sys.timerOf (Sys.regsOfTimer t) = t := by cases t; rfl

/-- frames counted over `m + n` loop iterations = over the first `m` plus over the next `n` -/
theorem vblanks_add (m : Nat) : ∀ (n : Nat) (s : Lcd.State),
    Sys.vblanks (m + n) s = Sys.vblanks m s + Sys.vblanks n (Lcd.run m s).1 := by
  induction m with
  | zero => intro n s; simp [Sys.vblanks, LcdProofs.run_zero]
  | succ m ih =>
    intro n s
    rw [show m + 1 + n = (m + n) + 1 by omega, Sys.vblanks, Sys.vblanks, ih, LcdProofs.run_succ]
    simp only []
    omega

theorem lcdOf_update (v : Bus.VideoRegs) (l : Lcd.State) (f : Nat)
    (h1 : l.lyc = v.lyc) (h2 : l.irqLyc = v.irqLyc) (h3 : l.irqM2 = v.irqM2) (h4 : l.irqM1 = v.irqM1) (h5 : l.irqM0 = v.irqM0) :
    Sys.lcdOf { v with mode := l.mode.toNat, dots := l.dots, line := l.line, frames := f } = l := by
  cases l
  simp only [Sys.lcdOf] at *
  subst h1 h2 h3 h4 h5
  simp only [modeOfNat_toNat']
where modeOfNat_toNat' : ∀ m : Lcd.Mode, Sys.modeOfNat m.toNat = m := by intro m; cases m <;> rfl


theorem run_regs' (n : Nat) (s : Lcd.State) :
    (Lcd.run n s).1.lyc = s.lyc ∧ (Lcd.run n s).1.irqLyc = s.irqLyc ∧ (Lcd.run n s).1.irqM2 = s.irqM2 ∧
    (Lcd.run n s).1.irqM1 = s.irqM1 ∧ (Lcd.run n s).1.irqM0 = s.irqM0 := by
  have h := LcdProofs.run_regs n s
  have e := h.2
  simp only [LcdProofs.enOf, LcdSpec.Enables.mk.injEq] at e
  exact ⟨h.1, e.1, e.2.1, e.2.2.1, e.2.2.2⟩

/-- the LCD part: `a + b` clocks = `a` then `b`, flags OR-ed, frames added up -/
theorem videoRun_add (v : Bus.VideoRegs) (a b : Nat) (ha : a % 4 = 0) (hb : b % 4 = 0) :
    Sys.videoRun v (a + b) =
      (Sys.videoRun v a).bind fun r1 => (Sys.videoRun r1.1 b).map fun r2 => (r2.1, r1.2 ||| r2.2) := by
  unfold Sys.videoRun Lcd.runClocks
  rw [if_pos (by omega), if_pos ha]
  simp only [Except.bind]
  have hr := run_regs' (a / 4) (Sys.lcdOf v)
  have hl : Sys.lcdOf { v with mode := (Lcd.run (a / 4) (Sys.lcdOf v)).1.mode.toNat, dots := (Lcd.run (a / 4) (Sys.lcdOf v)).1.dots,
                               line := (Lcd.run (a / 4) (Sys.lcdOf v)).1.line,
                               frames := v.frames + Sys.vblanks (a / 4) (Sys.lcdOf v) } = (Lcd.run (a / 4) (Sys.lcdOf v)).1 :=
    lcdOf_update v _ _ hr.1 hr.2.1 hr.2.2.1 hr.2.2.2.1 hr.2.2.2.2
  rw [hl, if_pos hb]
  simp only [Except.map]
  rw [show (a + b) / 4 = a / 4 + b / 4 by omega, LcdProofs.run_add, vblanks_add]
  simp only [Nat.add_assoc]


/-- IF accumulation: OR-ing the flags of the whole batch = OR-ing those of its two parts one after the other -/
theorem or_flags (x p q : Nat) (fa fb j : Bool) :
    x ||| ((if (fa || fb) then 4 else 0) ||| (p ||| q) ||| (if j then 0x10 else 0)) =
    (x ||| ((if fa then 4 else 0) ||| p ||| (if j then 0x10 else 0))) ||| ((if fb then 4 else 0) ||| q ||| (if false then 0x10 else 0)) := by
  apply Nat.eq_of_testBit_eq
  intro i
  simp only [Nat.testBit_or]
  cases fa <;> cases fb <;> cases j <;> simp only [Bool.or_false, Bool.or_true, Bool.false_or, Bool.true_or, if_true, if_false, Bool.false_eq_true, Nat.zero_testBit]
  all_goals
    generalize x.testBit i = X
    generalize p.testBit i = P
    generalize q.testBit i = Q
    generalize (4 : Nat).testBit i = F
    generalize (16 : Nat).testBit i = S
    cases X <;> cases P <;> cases Q <;> cases F <;> cases S <;> rfl

theorem runCycles_some (t : Timer.State) (k : Nat) (hc : t.cycleCount < 65536) (hk : k < 2 ^ 32 - 65536) :
    Timer.runCycles t k = some (Timer.run k t) := by
  unfold Timer.runCycles
  have h1 : k % 2 ^ 32 = k := Nat.mod_eq_of_lt (by omega)
  simp only [h1]
  rw [if_pos (by omega)]

/-- **`IO::run_clock_cycles` is additive**: timer, LCD, frame counter, joypad request and IF after `a + b` clocks in one
call = after `a` then `b` -/
theorem ioRun_add (io : Bus.Io) (a b : Nat) (ha : a % 4 = 0) (hb : b % 4 = 0) (hab : a + b < 2 ^ 32 - 65536) (ok : IoOk io) :
    Sys.ioRun io (a + b) = (Sys.ioRun io a).bind fun io1 => Sys.ioRun io1 b := by
  unfold Sys.ioRun
  have hc : (Sys.timerOf io.timer).cycleCount < 65536 := ok.1
  have hm : (Sys.timerOf io.timer).timerClockMask < 65536 := ok.2
  rw [runCycles_some _ (a + b) hc hab, runCycles_some _ a hc (by omega)]
  simp only []
  rw [videoRun_add io.video a b ha hb]
  cases hva : Sys.videoRun io.video a with
  | error e => simp only [Except.bind, bind]
  | ok r1 =>
    obtain ⟨v1, f1⟩ := r1
    simp only [Except.bind, bind, pure, Except.pure, timerOf_regsOf]
    rw [runCycles_some _ b (Timer.run_cc_lt a _) (by omega)]
    simp only []
    cases hvb : Sys.videoRun v1 b with
    | error e => simp only [Except.map, Except.bind, bind]
    | ok r2 =>
      obtain ⟨v2, f2⟩ := r2
      simp only [Except.map, Except.bind, bind, pure, Except.pure, Joypad.takeIrq]
      rw [Timer.run_add a b _ hm]
      refine congrArg Except.ok ?_
      congr 1
      exact or_flags io.ifl f1 f2 _ _ _

/-! ### the state right after a catch-up, and a catch-up of zero clocks -/

/-- right after `IO::run_clock_cycles`: the joypad request has been taken, the timer counter is masked, the LCD mode is
one of the four modes -/
def Settled (io : Bus.Io) : Prop := io.joy.irq = false ∧ io.timer.cycleCount < 65536 ∧ io.video.mode < 4

theorem regsOf_timerOf (r : Bus.TimerRegs) : Sys.regsOfTimer (Sys.timerOf r) = r := by cases r; rfl

theorem toNat_lt (m : Lcd.Mode) : m.toNat < 4 := by cases m <;> decide

theorem ioRun_settled {io io' : Bus.Io} {k : Nat} (h : Sys.ioRun io k = .ok io') : Settled io' := by
  unfold Sys.ioRun at h
  split at h
  · cases h
  · rename_i t tf ht
    cases hv : Sys.videoRun io.video k with
    | error e => rw [hv] at h; cases h
    | ok r =>
      obtain ⟨v, vf⟩ := r
      rw [hv] at h
      simp only [bind, Except.bind, pure, Except.pure, Joypad.takeIrq] at h
      injection h with h; subst h
      refine ⟨rfl, ?_, ?_⟩
      · unfold Timer.runCycles at ht
        simp only [] at ht
        split at ht
        · have e : t = (Timer.run (k % 2 ^ 32) (Sys.timerOf io.timer)).1 := by injection ht with ht; rw [ht]
          rw [e]
          exact Timer.run_cc_lt _ _
        · cases ht
      · unfold Sys.videoRun at hv
        split at hv
        · cases hv
        · injection hv with hv; injection hv with h1 h2; subst h1
          exact toNat_lt _

theorem ioRun_ok {io io' : Bus.Io} {k : Nat} (ok : IoOk io) (h : Sys.ioRun io k = .ok io') : IoOk io' := by
  refine ⟨(ioRun_settled h).2.1, ?_⟩
  unfold Sys.ioRun at h
  split at h
  · cases h
  · rename_i t tf ht
    cases hv : Sys.videoRun io.video k with
    | error e => rw [hv] at h; cases h
    | ok r =>
      rw [hv] at h
      simp only [bind, Except.bind, pure, Except.pure] at h
      injection h with h; subst h
      unfold Timer.runCycles at ht
      simp only [] at ht
      split at ht
      · have e : t = (Timer.run (k % 2 ^ 32) (Sys.timerOf io.timer)).1 := by injection ht with ht; rw [ht]
        rw [e]
        show (Timer.run _ (Sys.timerOf io.timer)).1.timerClockMask < 65536
        rw [(Timer.run_frame _ _ ok.2).2.2.2.1]; exact ok.2
      · cases ht

theorem modeOfNat_lt {n : Nat} (h : n < 4) : (Sys.modeOfNat n).toNat = n := by
  match n, h with
  | 0, _ => rfl
  | 1, _ => rfl
  | 2, _ => rfl
  | 3, _ => rfl

/-- a catch-up of zero clocks right after a catch-up changes nothing -/
theorem ioRun_zero {io : Bus.Io} (h : Settled io) : Sys.ioRun io 0 = .ok io := by
  obtain ⟨hj, hc, hm⟩ := h
  unfold Sys.ioRun
  rw [runCycles_some _ 0 hc (by decide)]
  simp only []
  have ht : (Timer.run 0 (Sys.timerOf io.timer)).1 = Sys.timerOf io.timer := by
    unfold Timer.run
    have e : (Sys.timerOf io.timer).cycleCount &&& 0xffff = (Sys.timerOf io.timer).cycleCount := by
      rw [Nat.and_two_pow_sub_one_eq_mod _ 16]; exact Nat.mod_eq_of_lt hc
    split
    · simp only [Nat.add_zero, e]
    · simp only [Timer.loop, e]
  have hf : (Timer.run 0 (Sys.timerOf io.timer)).2 = false := by
    unfold Timer.run
    split <;> rfl
  have hv : Sys.videoRun io.video 0 = .ok (io.video, 0) := by
    unfold Sys.videoRun Lcd.runClocks
    simp only [Nat.zero_mod, if_true, Nat.zero_div]
    show Except.ok ({ io.video with mode := (Sys.modeOfNat io.video.mode).toNat, dots := io.video.dots, line := io.video.line,
                                    frames := io.video.frames + 0 }, 0) = _
    rw [modeOfNat_lt hm]
    cases io.video; rfl
  simp only [hv, bind, Except.bind, pure, Except.pure, Joypad.takeIrq, ht, hf, hj, regsOf_timerOf]
  cases io with
  | mk joy sb sc so timer ifl ie ieu video =>
    cases joy
    simp only [] at hj
    subst hj
    simp


/-! ### the OAM-DMA loop -/

theorem dmaLoop_succ (s : Bus.State) (source off n : Nat) :
    Sys.dmaLoop s source off (n + 1) =
      (dmaCopyByte s source off).bind fun s1 => (Sys.ioRun s1.io 4).bind fun io => Sys.dmaLoop { s1 with io := io } source (off + 1) n := rfl

open GbVerif.BusProofs in
/-- the copy loop: completes, keeps the invariants, leaves the DMA bookkeeping field alone, and ends right after a catch-up -/
theorem dmaLoop_spec (source : Nat) : ∀ (n : Nat) {s : Bus.State} (_ : WF s) (_ : IoOk s.io) (off : Nat), off + n ≤ 0xa0 →
    ∃ s', Sys.dmaLoop s source off n = .ok (s', off + n) ∧ WF s' ∧ IoOk s'.io ∧ (0 < n → Settled s'.io) ∧ s'.dma = s.dma
  | 0, s, wf, ok, off, _ => ⟨s, rfl, wf, ok, fun h => absurd h (by decide), rfl⟩
  | n+1, s, wf, ok, off, h => by
    obtain ⟨s1, h1, wf1⟩ := dmaCopyByte_total wf source off (by omega)
    have hio := dmaCopyByte_io wf (by omega) h1
    have hdma : s1.dma = s.dma := by
      unfold dmaCopyByte at h1
      cases hr : read s ((source + off) % 65536) with
      | error e => rw [hr] at h1; cases h1
      | ok v =>
        rw [hr] at h1
        simp only [bind, Except.bind] at h1
        rw [write_oam_wf wf v (by omega) (by omega)] at h1
        injection h1 with h1; subst h1; rfl
    have ok1 : IoOk s1.io := by rw [hio]; exact ok
    obtain ⟨io2, h2, _⟩ := ioRun_total (io := s1.io) (k := 4) (by decide) (by decide) ok1.1
    have ok2 : IoOk io2 := ioRun_ok ok1 h2
    have st2 : Settled io2 := ioRun_settled h2
    have wf2 : WF { s1 with io := io2 } := ⟨wf1.1, wf1.2, wf1.3, wf1.4, wf1.5, wf1.6⟩
    obtain ⟨s3, h3, wf3, ok3, st3, hd3⟩ := dmaLoop_spec source n wf2 ok2 (off + 1) (by omega)
    refine ⟨s3, ?_, wf3, ok3, ?_, hd3.trans hdma⟩
    · rw [dmaLoop_succ]
      simp only [Except.bind, h1, h2]
      rw [show off + (n + 1) = off + 1 + n by omega]; exact h3
    · intro _
      cases n with
      | zero =>
        -- the loop body ran once: s3 is the state right after its catch-up
        simp only [Sys.dmaLoop] at h3
        injection h3 with h3; injection h3 with h3 _; subst h3; exact st2
      | succ m => exact st3 (by omega)

theorem dmaLoop_split (source : Nat) : ∀ (n1 n2 : Nat) (s : Bus.State) (off : Nat),
    Sys.dmaLoop s source off (n1 + n2) = (Sys.dmaLoop s source off n1).bind fun p => Sys.dmaLoop p.1 source p.2 n2
  | 0, n2, s, off => by simp [Sys.dmaLoop, Except.bind]
  | n1+1, n2, s, off => by
    rw [show n1 + 1 + n2 = (n1 + n2) + 1 by omega, dmaLoop_succ, dmaLoop_succ]
    cases h1 : dmaCopyByte s source off with
    | error e => rfl
    | ok s1 =>
      simp only [Except.bind]
      cases h2 : Sys.ioRun s1.io 4 with
      | error e => rfl
      | ok io2 =>
        simp only []
        exact dmaLoop_split source n1 n2 _ _

open GbVerif.BusProofs in
/-- the loop neither reads nor writes the DMA bookkeeping field -/
theorem dmaLoop_dma (source : Nat) (d : Option (Nat × Nat)) : ∀ (n : Nat) {s : Bus.State} (_ : WF s) (off : Nat), off + n ≤ 0xa0 →
    Sys.dmaLoop { s with dma := d } source off n = (Sys.dmaLoop s source off n).map fun p => ({ p.1 with dma := d }, p.2)
  | 0, s, _, off, _ => rfl
  | n+1, s, wf, off, h => by
    have wf' : WF { s with dma := d } := ⟨wf.1, wf.2, wf.3, wf.4, wf.5, wf.6⟩
    rw [dmaLoop_succ, dmaLoop_succ]
    have hc : dmaCopyByte { s with dma := d } source off = (dmaCopyByte s source off).map fun s' => { s' with dma := d } := by
      unfold dmaCopyByte
      have hr : read { s with dma := d } ((source + off) % 65536) = read s ((source + off) % 65536) := rfl
      rw [hr]
      cases read s ((source + off) % 65536) with
      | error e => rfl
      | ok v =>
        simp only [bind, Except.bind]
        rw [write_oam_wf wf' v (by omega) (by omega), write_oam_wf wf v (by omega) (by omega)]
        rfl
    rw [hc]
    cases h1 : dmaCopyByte s source off with
    | error e => rfl
    | ok s1 =>
      simp only [Except.map, Except.bind]
      cases h2 : Sys.ioRun s1.io 4 with
      | error e => rfl
      | ok io2 =>
        simp only []
        obtain ⟨_, h1', wf1⟩ := dmaCopyByte_total wf source off (by omega)
        rw [h1] at h1'; injection h1' with h1'; subst h1'
        have wf2 : WF { s1 with io := io2 } := ⟨wf1.1, wf1.2, wf1.3, wf1.4, wf1.5, wf1.6⟩
        exact dmaLoop_dma source d n wf2 (off + 1) (by omega)


/-! ### the whole device function -/

/-- an OAM DMA in progress has copied fewer than 160 bytes (a finished one is `none`) -/
def DmaOk (s : Bus.State) : Prop := ∀ src off, s.dma = some (src, off) → off < 0xa0

open GbVerif.BusProofs in
/-- **batch independence of `MemoryAreas::run_clock_cycles`**: `a + b` clocks in one call = `a` clocks, then `b` clocks —
the same OAM, the same timer, LCD position and frame count, joypad request, IF, DMA progress.  Any source page (the
I/O page included: every byte is read after the devices caught up with the previous machine cycle in both runs), any
progress, any `a ≥ 4`, `b` (whole machine cycles). -/
theorem dev_add {s : Bus.State} (wf : WF s) (ok : IoOk s.io) (hd : DmaOk s) (a b : Nat) (ha : a % 4 = 0) (hb : b % 4 = 0)
    (ha4 : 4 ≤ a) (hab : a + b < 2 ^ 32 - 65536) :
    Sys.dev s (a + b) = (Sys.dev s a).bind fun s1 => Sys.dev s1 b := by
  unfold Sys.dev
  cases hdma : s.dma with
  | none =>
    simp only [bind, Except.bind]
    rw [ioRun_add s.io a b ha hb hab ok]
    cases h1 : Sys.ioRun s.io a with
    | error e => rfl
    | ok io1 => simp only [Except.bind, pure, Except.pure, hdma]
  | some p =>
    obtain ⟨source, off⟩ := p
    have hoff : off < 0xa0 := hd source off hdma
    simp only []
    by_cases hc : 0xa0 - off ≤ a / 4
    · -- the transfer ends inside the first batch
      have e1 : min (0xa0 - off) (a / 4) = 0xa0 - off := by omega
      have e2 : min (0xa0 - off) ((a + b) / 4) = 0xa0 - off := by omega
      rw [e1, e2]
      obtain ⟨s1, h1, wf1, ok1, _, _⟩ := dmaLoop_spec source (0xa0 - off) wf ok off (by omega)
      have e3 : off + (0xa0 - off) = 0xa0 := by omega
      rw [e3] at h1
      simp only [bind, Except.bind, h1, pure, Except.pure, show ¬ (0xa0 < 0xa0) by decide, if_false]
      have hsplit : a + b - 4 * (0xa0 - off) = (a - 4 * (0xa0 - off)) + b := by omega
      rw [hsplit, ioRun_add s1.io (a - 4 * (0xa0 - off)) b (by omega) hb (by omega) ok1]
      cases h2 : Sys.ioRun s1.io (a - 4 * (0xa0 - off)) with
      | error e => rfl
      | ok io1 => simp only [Except.bind]
    · -- the transfer is still running when the first batch ends
      have hn1 : 1 ≤ a / 4 := by omega
      have e1 : min (0xa0 - off) (a / 4) = a / 4 := by omega
      have e2 : min (0xa0 - off) ((a + b) / 4) = a / 4 + min (0xa0 - (off + a / 4)) (b / 4) := by omega
      rw [e1, e2]
      obtain ⟨s1, h1, wf1, ok1, st1, hd1⟩ := dmaLoop_spec source (a / 4) wf ok off (by omega)
      obtain ⟨s2, h2, wf2, ok2, _, _⟩ := dmaLoop_spec source (min (0xa0 - (off + a / 4)) (b / 4)) wf1 ok1 (off + a / 4) (by omega)
      rw [dmaLoop_split, h1]
      simp only [bind, Except.bind, h2, pure, Except.pure]
      have ez : a - 4 * (a / 4) = 0 := by omega
      rw [ez, ioRun_zero (st1 (by omega))]
      simp only [show off + a / 4 < 0xa0 by omega, if_true]
      rw [dmaLoop_dma source _ _ wf1 _ (by omega), h2]
      simp only [Except.map]
      have e4 : a + b - 4 * (a / 4 + min (0xa0 - (off + a / 4)) (b / 4)) = b - 4 * min (0xa0 - (off + a / 4)) (b / 4) := by omega
      rw [e4]


open GbVerif.BusProofs in
/-- the invariants of the batch theorem are kept by every catch-up -/
theorem dev_keeps {s s' : Bus.State} (wf : WF s) (ok : IoOk s.io) (hd : DmaOk s) {k : Nat} (hk : k % 4 = 0)
    (hb : k < 2 ^ 32 - 65536) (h : Sys.dev s k = .ok s') : WF s' ∧ IoOk s'.io ∧ DmaOk s' := by
  unfold Sys.dev at h
  cases hdma : s.dma with
  | none =>
    rw [hdma] at h
    simp only [bind, Except.bind] at h
    cases h1 : Sys.ioRun s.io k with
    | error e => rw [h1] at h; cases h
    | ok io1 =>
      rw [h1] at h
      injection h with h; subst h
      exact ⟨⟨wf.1, wf.2, wf.3, wf.4, wf.5, wf.6⟩, ioRun_ok ok h1, fun src off he => by simp only [hdma] at he; cases he⟩
  | some p =>
    obtain ⟨source, off⟩ := p
    have hoff : off < 0xa0 := hd source off hdma
    rw [hdma] at h
    simp only [] at h
    obtain ⟨s1, h1, wf1, ok1, _, _⟩ := dmaLoop_spec source (min (0xa0 - off) (k / 4)) wf ok off (by omega)
    simp only [bind, Except.bind, h1] at h
    cases h2 : Sys.ioRun s1.io (k - 4 * min (0xa0 - off) (k / 4)) with
    | error e => rw [h2] at h; cases h
    | ok io1 =>
      rw [h2] at h
      injection h with h; subst h
      refine ⟨⟨wf1.1, wf1.2, wf1.3, wf1.4, wf1.5, wf1.6⟩, ioRun_ok ok1 h2, ?_⟩
      intro src o he
      simp only [] at he
      split at he
      · injection he with he; injection he with _ he; omega
      · cases he

/-- a sequence of catch-up batches -/
def devBatches : List Nat → Bus.State → Except Bus.Panic Bus.State
  | [], s => .ok s
  | k :: ks, s => (Sys.dev s k).bind (devBatches ks)

open GbVerif.BusProofs in
/-- **any partition**: batches of whole machine cycles (each at least one) run one after the other leave the machine
where one batch of their sum leaves it -/
theorem dev_partition : ∀ (ks : List Nat) {s : Bus.State}, WF s → IoOk s.io → DmaOk s → ks ≠ [] →
    (∀ k ∈ ks, k % 4 = 0 ∧ 4 ≤ k) → ks.sum < 2 ^ 32 - 65536 → devBatches ks s = Sys.dev s ks.sum
  | [], _, _, _, _, hne, _, _ => absurd rfl hne
  | [k], s, _, _, _, _, _, _ => by
    simp only [devBatches, List.sum_cons, List.sum_nil, Nat.add_zero]
    cases Sys.dev s k <;> rfl
  | k :: k2 :: rest, s, wf, ok, hd, _, hks, hsum => by
    have hk := hks k List.mem_cons_self
    have hsum' : k + (k2 :: rest).sum < 2 ^ 32 - 65536 := by simpa [List.sum_cons] using hsum
    have hrest4 : (k2 :: rest).sum % 4 = 0 := by
      have : ∀ (l : List Nat), (∀ x ∈ l, x % 4 = 0) → l.sum % 4 = 0 := by
        intro l
        induction l with
        | nil => intro _; rfl
        | cons x l ih =>
          intro h
          have := h x List.mem_cons_self
          have := ih (fun y hy => h y (List.mem_cons_of_mem _ hy))
          rw [List.sum_cons]; omega
      exact this _ (fun x hx => (hks x (List.mem_cons_of_mem _ hx)).1)
    rw [show (k :: k2 :: rest).sum = k + (k2 :: rest).sum by simp [List.sum_cons]]
    rw [dev_add wf ok hd k (k2 :: rest).sum hk.1 hrest4 hk.2 hsum']
    show (Sys.dev s k).bind (devBatches (k2 :: rest)) = _
    cases h1 : Sys.dev s k with
    | error e => rfl
    | ok s1 =>
      simp only [Except.bind]
      obtain ⟨wf1, ok1, hd1⟩ := dev_keeps wf ok hd hk.1 (by omega) h1
      exact dev_partition (k2 :: rest) wf1 ok1 hd1 (by simp) (fun x hx => hks x (List.mem_cons_of_mem _ hx)) (by omega)



/-! ### what the passage of time can touch -/

/-- everything of the bus state except OAM, the I/O block and the DMA bookkeeping -/
def rest (s : Bus.State) : Cart.State × Nat × Array Nat × Array Nat × Array Nat × Array Nat × Nat :=
  (s.cart, s.romLen, s.vram, s.cram, s.wram, s.hram, s.dmaReg)

open GbVerif.BusProofs in
theorem dmaCopyByte_rest {s s' : Bus.State} (wf : WF s) {source off : Nat} (ho : off < 0xa0)
    (h : dmaCopyByte s source off = .ok s') : rest s' = rest s ∧ s'.rom = s.rom := by
  unfold dmaCopyByte at h
  cases hr : read s ((source + off) % 65536) with
  | error e => rw [hr] at h; cases h
  | ok v =>
    rw [hr] at h
    simp only [bind, Except.bind] at h
    rw [write_oam_wf wf v (by omega) (by omega)] at h
    injection h with h; subst h
    constructor
    · unfold rest; rfl
    · rfl

open GbVerif.BusProofs in
theorem dmaLoop_rest (source : Nat) : ∀ (n : Nat) {s : Bus.State} (_ : WF s) (off : Nat) (s' : Bus.State) (off' : Nat), off + n ≤ 0xa0 →
    Sys.dmaLoop s source off n = .ok (s', off') → rest s' = rest s ∧ s'.rom = s.rom
  | 0, s, _, off, s', off', _, h => by injection h with h; injection h with h1 _; subst h1; exact ⟨rfl, rfl⟩
  | n+1, s, wf, off, s', off', hb, h => by
    rw [dmaLoop_succ] at h
    obtain ⟨s1, h1, wf1⟩ := dmaCopyByte_total wf source off (by omega)
    rw [h1] at h
    simp only [Except.bind] at h
    cases h2 : Sys.ioRun s1.io 4 with
    | error e => rw [h2] at h; cases h
    | ok io2 =>
      rw [h2] at h
      simp only [] at h
      have wf2 : WF { s1 with io := io2 } := ⟨wf1.1, wf1.2, wf1.3, wf1.4, wf1.5, wf1.6⟩
      obtain ⟨e1, e2⟩ := dmaLoop_rest source n wf2 (off + 1) s' off' (by omega) h
      obtain ⟨e3, e4⟩ := dmaCopyByte_rest wf (by omega) h1
      exact ⟨e1.trans e3, e2.trans e4⟩

open GbVerif.BusProofs in
/-- **the passage of time touches OAM (only while a transfer runs), the I/O block and the DMA bookkeeping — nothing else**:
cartridge registers, ROM, video RAM, cartridge RAM, work RAM, high RAM are exactly as before -/
theorem dev_rest {s s' : Bus.State} (wf : WF s) (hd : DmaOk s) {k : Nat} (h : Sys.dev s k = .ok s') :
    rest s' = rest s ∧ s'.rom = s.rom ∧ (s.dma = none → s'.oam = s.oam) := by
  unfold Sys.dev at h
  cases hdma : s.dma with
  | none =>
    rw [hdma] at h
    simp only [bind, Except.bind] at h
    cases h1 : Sys.ioRun s.io k with
    | error e => rw [h1] at h; cases h
    | ok io1 => rw [h1] at h; injection h with h; subst h; exact ⟨rfl, rfl, fun _ => rfl⟩
  | some p =>
    obtain ⟨source, off⟩ := p
    have hoff := hd source off hdma
    rw [hdma] at h
    simp only [] at h
    cases h1 : Sys.dmaLoop s source off (min (0xa0 - off) (k / 4)) with
    | error e => rw [h1] at h; simp only [bind, Except.bind] at h; cases h
    | ok r =>
      obtain ⟨s1, off'⟩ := r
      rw [h1] at h
      simp only [bind, Except.bind] at h
      cases h2 : Sys.ioRun s1.io (k - 4 * min (0xa0 - off) (k / 4)) with
      | error e => rw [h2] at h; cases h
      | ok io1 =>
        rw [h2] at h
        injection h with h; subst h
        obtain ⟨e1, e2⟩ := dmaLoop_rest source _ wf off s1 off' (by omega) h1
        exact ⟨e1, e2, fun hn => by cases hn⟩

/-! ### bus writes keep the invariants of the batch theorem -/

theorem setControl_mask (t : Bus.TimerRegs) (v : Nat) : (t.setControl v).1.clockMask < 65536 := by
  unfold Bus.TimerRegs.setControl
  simp only []
  repeat' split
  all_goals (show _ <<< _ < 65536; decide)

theorem setByte_ioOk (io : Bus.Io) (a v : Nat) (ok : IoOk io) : IoOk (io.setByte a v) := by
  refine ⟨setByte_timerOk io a v ok.1, ?_⟩
  unfold Bus.Io.setByte
  split
  all_goals first
    | exact ok.2
    | exact setControl_mask _ _


macro "wrd" h:ident : tactic => `(tactic| (
  obtain ⟨x, _, $h:ident⟩ := GbVerif.CoreProofs.bind_ok_elim $h:ident
  injection $h:ident with $h:ident; subst $h:ident; rfl))

/-- only a write to 0xFF46 touches the DMA bookkeeping -/
theorem write_dma {s s' : Bus.State} {a v : Nat} (h46 : a ≠ 0xff46) (h : Bus.write s a v = .ok s') : s'.dma = s.dma := by
  unfold Bus.write at h
  by_cases h1 : a < 0x8000
  · rw [if_pos h1] at h; injection h with h; subst h; rfl
  rw [if_neg h1] at h
  by_cases h2 : a < 0xa000
  · rw [if_pos h2] at h; wrd h
  rw [if_neg h2] at h
  by_cases h3 : a < 0xc000
  · rw [if_pos h3] at h
    simp only [] at h
    split at h
    · injection h with h; subst h; rfl
    · split at h
      · wrd h
      · injection h with h; subst h; rfl
  rw [if_neg h3] at h
  by_cases h4 : a < 0xd000
  · rw [if_pos h4] at h; wrd h
  rw [if_neg h4] at h
  by_cases h5 : a < 0xe000
  · rw [if_pos h5] at h; wrd h
  rw [if_neg h5] at h
  by_cases h6 : a < 0xfe00
  · rw [if_pos h6] at h; injection h with h; subst h; rfl
  rw [if_neg h6] at h
  by_cases h7 : a < 0xfea0
  · rw [if_pos h7] at h; wrd h
  rw [if_neg h7] at h
  by_cases h8 : a < 0xff00
  · rw [if_pos h8] at h; injection h with h; subst h; rfl
  rw [if_neg h8] at h
  by_cases h9 : a < 0xff80
  · rw [if_pos h9] at h
    have : (a == 0xff46) = false := by simpa using h46
    rw [this] at h
    simp only [Bool.false_eq_true, if_false] at h
    injection h with h; subst h; rfl
  rw [if_neg h9] at h
  split at h
  · injection h with h; subst h; rfl
  · wrd h

open GbVerif.BusProofs in
theorem write_keeps {s s' : Bus.State} {a v : Nat} (wf : WF s) (ha : a < 65536) (ok : IoOk s.io) (hd : DmaOk s)
    (h : Bus.write s a v = .ok s') : IoOk s'.io ∧ DmaOk s' := by
  constructor
  · rcases write_io_cases wf ha h with e | e | e
    · rw [e]; exact ok
    · rw [e]; exact ok
    · rw [e]; exact setByte_ioOk _ _ _ ok
  · intro src off he
    by_cases h46 : a = 0xff46
    · subst h46
      rw [write_io s 0xff46 v (by decide) (by decide)] at h
      simp only [beq_self_eq_true, if_true] at h
      injection h with h; subst h
      simp only [Option.some.injEq, Prod.mk.injEq] at he
      omega
    · -- every other write leaves the DMA bookkeeping alone
      have : s'.dma = s.dma := write_dma h46 h
      rw [this] at he
      exact hd src off he

end GbVerif.SysProofs
