import GbVerif.Proofs.DebugAddr
/-!
Lemmas for C20, command part: `split_whitespace` on lines of the shape `white* word (white …)`, the model's
tokens are the spec's words, `parse_command` factors through the spec's `interp`, and is allowed by the spec.
-/
namespace GbVerif.DebugCmd
open GbVerif.Debug GbVerif.DebugSpec GbVerif.DebugAddr

/-! ### `split` / `split_whitespace` -/

theorem splitOnP_ne_nil (p : Char → Bool) (s : List Char) : splitOnP p s ≠ [] := by
  cases s with
  | nil => simp [splitOnP]
  | cons c cs =>
    unfold splitOnP
    split
    · simp
    · split <;> simp

theorem headD_cons_tail {α} (l : List (List α)) (h : l ≠ []) : l.headD [] :: l.tail = l := by
  cases l with
  | nil => exact absurd rfl h
  | cons a b => rfl

theorem splitOnP_white {p : Char → Bool} {c : Char} (h : p c = true) (cs : List Char) :
    splitOnP p (c :: cs) = [] :: splitOnP p cs := by
  simp [splitOnP, h]

theorem splitOnP_nonwhite {p : Char → Bool} {c : Char} (h : p c = false) (cs : List Char) :
    splitOnP p (c :: cs) = (c :: (splitOnP p cs).headD []) :: (splitOnP p cs).tail := by
  have hne := splitOnP_ne_nil p cs
  rw [splitOnP]
  simp only [h]
  cases hs : splitOnP p cs with
  | nil => exact absurd hs hne
  | cons a b => simp

theorem splitOnP_word (p : Char → Bool) (w rest : List Char) (hw : ∀ c ∈ w, p c = false) :
    splitOnP p (w ++ rest) = (w ++ (splitOnP p rest).headD []) :: (splitOnP p rest).tail := by
  induction w with
  | nil => simp only [List.nil_append]; exact (headD_cons_tail _ (splitOnP_ne_nil p rest)).symm
  | cons c w ih =>
    rw [List.cons_append, splitOnP_nonwhite (hw c (List.mem_cons_self ..)),
      ih (fun x hx => hw x (List.mem_cons_of_mem _ hx))]
    simp

/-- no piece of a split contains a separator -/
theorem splitOnP_mem (p : Char → Bool) (s : List Char) : ∀ seg ∈ splitOnP p s, ∀ c ∈ seg, p c = false := by
  induction s with
  | nil => simp [splitOnP]
  | cons c cs ih =>
    by_cases h : p c = true
    · rw [splitOnP_white h]
      intro seg hseg
      rcases List.mem_cons.mp hseg with rfl | hm
      · simp
      · exact ih seg hm
    · have h' : p c = false := by simpa using h
      rw [splitOnP_nonwhite h']
      have hne := splitOnP_ne_nil p cs
      intro seg hseg
      rcases List.mem_cons.mp hseg with rfl | hm
      · intro x hx
        rcases List.mem_cons.mp hx with rfl | hx
        · exact h'
        · refine ih ((splitOnP p cs).headD []) ?_ x hx
          cases hs : splitOnP p cs with
          | nil => exact absurd hs hne
          | cons a b => simp
      · exact ih seg (List.mem_of_mem_tail hm)

/-- tokens of `split_whitespace` are non-empty and contain no whitespace -/
theorem sw_mem (E : Env) (s : List Char) : ∀ t ∈ splitWhitespace E s, t ≠ [] ∧ ∀ c ∈ t, E.isWhite c = false := by
  intro t ht
  unfold splitWhitespace at ht
  rw [List.mem_filter] at ht
  refine ⟨?_, splitOnP_mem _ _ t ht.1⟩
  intro h; subst h; simp at ht

theorem sw_nil (E : Env) : splitWhitespace E [] = [] := by simp [splitWhitespace, splitOnP]

/-- leading whitespace does not produce tokens -/
theorem sw_white_prefix (E : Env) (pre s : List Char) (h : ∀ c ∈ pre, E.isWhite c = true) :
    splitWhitespace E (pre ++ s) = splitWhitespace E s := by
  induction pre with
  | nil => rfl
  | cons c pre ih =>
    have hc := h c (List.mem_cons_self ..)
    unfold splitWhitespace at ih ⊢
    rw [List.cons_append, splitOnP_white hc]
    simp only [List.filter_cons, List.isEmpty_nil, Bool.not_true]
    exact ih (fun x hx => h x (List.mem_cons_of_mem _ hx))

/-- what may follow a word: nothing, or something starting with whitespace -/
def Sep (E : Env) (rest : List Char) : Prop := rest = [] ∨ ∃ c r, rest = c :: r ∧ E.isWhite c = true

/-- a non-empty run of non-whitespace followed by a separator is the first token -/
theorem sw_word (E : Env) (w rest : List Char) (hne : w ≠ []) (hw : ∀ c ∈ w, E.isWhite c = false)
    (hrest : Sep E rest) : splitWhitespace E (w ++ rest) = w :: splitWhitespace E rest := by
  have hwne : (!w.isEmpty) = true := by cases w with
    | nil => exact absurd rfl hne
    | cons _ _ => rfl
  unfold splitWhitespace
  rw [splitOnP_word _ w rest hw]
  rcases hrest with rfl | ⟨c, r, rfl, hc⟩
  · simp [splitOnP, hwne]
  · rw [splitOnP_white hc]
    simp [hwne]

/-- `white* word sep` : the word is the first token -/
theorem sw_line (E : Env) (pre w rest : List Char) (hpre : ∀ c ∈ pre, E.isWhite c = true) (hne : w ≠ [])
    (hw : ∀ c ∈ w, E.isWhite c = false) (hrest : Sep E rest) :
    splitWhitespace E (pre ++ w ++ rest) = w :: splitWhitespace E rest := by
  rw [List.append_assoc, sw_white_prefix E pre _ hpre, sw_word E w rest hne hw hrest]

/-! ### the spec's words are the model's tokens -/

theorem tokensAux_eq (p : Char → Bool) (s cur : List Char) :
    tokensAux p s cur =
      (((cur.reverse ++ (splitOnP p s).headD []) :: (splitOnP p s).tail).filter fun t => !t.isEmpty) := by
  induction s generalizing cur with
  | nil =>
    simp only [tokensAux, splitOnP, List.headD_cons, List.append_nil, List.tail_cons, List.filter_cons,
      List.filter_nil, List.isEmpty_reverse]
    cases cur <;> simp
  | cons c cs ih =>
    have hne := splitOnP_ne_nil p cs
    by_cases h : p c = true
    · rw [splitOnP_white h]
      simp only [tokensAux, h, if_true, List.headD_cons, List.append_nil, List.tail_cons, List.filter_cons,
        List.isEmpty_reverse]
      have ih0 := ih []
      simp only [List.reverse_nil, List.nil_append, headD_cons_tail _ hne] at ih0
      cases cur with
      | nil => simp [ih0]
      | cons a b => simp [ih0]
    · have h' : p c = false := by simpa using h
      rw [splitOnP_nonwhite h']
      simp only [tokensAux, h', Bool.false_eq_true, if_false, List.headD_cons, List.tail_cons]
      rw [ih (c :: cur)]
      simp

/-- **the spec's words of a line are exactly the tokens `split_whitespace` yields** -/
theorem tokens_eq (E : Env) (s : List Char) : tokens E.isWhite s = splitWhitespace E s := by
  unfold tokens splitWhitespace
  rw [tokensAux_eq]
  simp only [List.reverse_nil, List.nil_append]
  rw [headD_cons_tail _ (splitOnP_ne_nil _ s)]

/-! ### case folding -/

theorem foldAscii?_some {w k : List Char} (h : foldAscii? w = some k) :
    (∀ c ∈ w, c.toNat < 128) ∧ k = w.map asciiLower := by
  unfold foldAscii? at h
  split at h
  · rename_i hall
    refine ⟨fun c hc => by simpa [isAscii] using List.all_eq_true.mp hall c hc, ?_⟩
    cases h
    apply List.map_congr_left
    intro c _
    simp [asciiLower]
  · cases h

theorem foldAscii?_of_ascii {w : List Char} (h : ∀ c ∈ w, c.toNat < 128) : foldAscii? w = some (w.map asciiLower) := by
  unfold foldAscii?
  have : w.all isAscii = true := List.all_eq_true.mpr (fun c hc => by simpa [isAscii] using h c hc)
  rw [if_pos this]
  congr 1

theorem toLowercase_ascii {E : Env} (hE : E.AsciiOk) {w : List Char} (h : ∀ c ∈ w, c.toNat < 128) :
    toLowercase E w = w.map asciiLower := by
  unfold toLowercase
  induction w with
  | nil => rfl
  | cons c w ih =>
    simp only [List.flatMap_cons, List.map_cons, hE.lower c (h c (List.mem_cons_self ..))]
    rw [ih (fun x hx => h x (List.mem_cons_of_mem _ hx))]
    rfl

/-- an ASCII word lowercases to its case folding -/
theorem toLowercase_fold {E : Env} (hE : E.AsciiOk) {w k : List Char} (h : foldAscii? w = some k) :
    toLowercase E w = k := by
  obtain ⟨ha, hk⟩ := foldAscii?_some h
  rw [hk, toLowercase_ascii hE ha]

/-- ASCII chars whose lowercase form is a letter are not whitespace (kernel enumeration) -/
theorem letter_not_white_aux : ∀ n, n < 128 →
    97 ≤ (asciiLower (Char.ofNat n)).toNat → (asciiLower (Char.ofNat n)).toNat ≤ 122 →
    ((Char.ofNat n).toNat == 32 || (9 ≤ (Char.ofNat n).toNat && (Char.ofNat n).toNat ≤ 13)) = false := by
  decide +kernel

def lettersOnly (k : List Char) : Prop := ∀ d ∈ k, 97 ≤ d.toNat ∧ d.toNat ≤ 122

/-- a spelling of an all-letters word contains no whitespace and is non-empty if the word is -/
theorem fold_not_white {E : Env} (hE : E.AsciiOk) {w k : List Char} (h : foldAscii? w = some k)
    (hk : lettersOnly k) : ∀ c ∈ w, E.isWhite c = false := by
  obtain ⟨ha, hk'⟩ := foldAscii?_some h
  intro c hc
  have hca := ha c hc
  have hd := hk (asciiLower c) (by rw [hk']; exact List.mem_map_of_mem hc)
  have := letter_not_white_aux c.toNat hca
  rw [← char_eq_ofNat] at this
  rw [hE.white c hca]
  exact this hd.1 hd.2

theorem fold_ne_nil {w k : List Char} (h : foldAscii? w = some k) (hk : k ≠ []) : w ≠ [] := by
  intro hw; subst hw
  simp [foldAscii?] at h
  exact hk h

/-! ### `parse_command` through the spec's `interp` -/

def toSpec : Command → Cmd
  | .breakSet a => .breakSet a
  | .continue_ => .continue_
  | .readMemory a => .readMemory a
  | .readRegisters => .readRegisters
  | .step => .step

/-- `normalize_command` of a token -/
def norm (E : Env) (t : List Char) : List Char := toLowercase E (trim E t)

theorem lookup_ne {k w : List Char} {sh : Shape} {rest : List (List Char × Shape)} (h : k ≠ w) :
    lookup k ((w, sh) :: rest) = lookup k rest := by simp [lookup, h]

theorem words_eq : "break".toList = wBreak ∧ "c".toList = wC ∧ "continue".toList = wContinue ∧
    "info".toList = wInfo ∧ "p".toList = wP ∧ "print".toList = wPrint ∧ "s".toList = wS ∧ "step".toList = wStep ∧
    "reg".toList = wReg ∧ "registers".toList = wRegisters := by decide

theorem table_eq : table =
    [ (wBreak, .addrArg .breakSet), (wC, .noArg .continue_), (wContinue, .noArg .continue_),
      (wInfo, .subWord [wReg, wRegisters] .readRegisters), (wP, .addrArg .readMemory), (wPrint, .addrArg .readMemory),
      (wS, .noArg .step), (wStep, .noArg .step) ] := by
  obtain ⟨h1, h2, h3, h4, h5, h6, h7, h8, h9, h10⟩ := words_eq
  simp only [table, h1, h2, h3, h4, h5, h6, h7, h8, h9, h10]

/-- the match arms of `parse_command` as a function of the normalised first token and the raw second token -/
def chain (E : Env) (first : List Char) (t2 : Option (List Char)) : Option Command :=
  if first = wBreak then
    match t2 with
    | none => none
    | some addrStr =>
      match parseAddress E addrStr with
      | none => none
      | some addr => some (.breakSet addr)
  else if first = wC ∨ first = wContinue then some .continue_
  else if first = wInfo then
    match normalizeCommand E t2 with
    | none => none
    | some next => if next = wReg ∨ next = wRegisters then some .readRegisters else none
  else if first = wP ∨ first = wPrint then
    match t2 with
    | none => none
    | some arg1 =>
      match parseAddress E arg1 with
      | none => none
      | some addr => some (.readMemory addr)
  else if first = wS ∨ first = wStep then some .step
  else none

theorem parseCommand_chain (E : Env) (line : List Char) :
    parseCommand E line =
      match (splitWhitespace E line).head? with
      | none => none
      | some w => chain E (norm E w) (splitWhitespace E line).tail.head? := by
  unfold parseCommand
  simp only
  cases (splitWhitespace E line).head? <;> rfl

abbrev tbl : List (List Char × Shape) :=
  [ (wBreak, .addrArg .breakSet), (wC, .noArg .continue_), (wContinue, .noArg .continue_),
    (wInfo, .subWord [wReg, wRegisters] .readRegisters), (wP, .addrArg .readMemory), (wPrint, .addrArg .readMemory),
    (wS, .noArg .step), (wStep, .noArg .step) ]

/-- the model's if-chain is the spec's table lookup -/
theorem chain_interp (E : Env) (first : List Char) (t2 : Option (List Char)) :
    (chain E first t2).map toSpec = interp (some first) (t2.map (norm E)) (t2.bind (parseAddress E)) := by
  unfold chain
  simp only [interp, table_eq]
  by_cases h1 : first = wBreak
  · subst h1
    have : lookup wBreak tbl = some (.addrArg .breakSet) := by simp [lookup]
    rw [this, if_pos rfl]
    cases t2 with
    | none => rfl
    | some a => simp only [Option.bind_some]; cases parseAddress E a <;> rfl
  rw [if_neg h1, lookup_ne h1]
  by_cases h2 : first = wC
  · subst h2
    simp [lookup, toSpec]
  rw [lookup_ne h2]
  by_cases h3 : first = wContinue
  · subst h3
    simp [lookup, toSpec]
  rw [lookup_ne h3, if_neg (by simp [h2, h3])]
  by_cases h4 : first = wInfo
  · subst h4
    have : lookup wInfo [ (wInfo, Shape.subWord [wReg, wRegisters] .readRegisters), (wP, .addrArg .readMemory),
      (wPrint, .addrArg .readMemory), (wS, .noArg .step), (wStep, .noArg .step) ]
        = some (.subWord [wReg, wRegisters] .readRegisters) := by simp [lookup]
    rw [this, if_pos rfl]
    cases t2 with
    | none => rfl
    | some a =>
      simp only [Option.map_some, normalizeCommand]
      change Option.map toSpec (if norm E a = wReg ∨ norm E a = wRegisters then _ else _) = _
      by_cases hr : norm E a = wReg ∨ norm E a = wRegisters
      · rw [if_pos hr]
        have : [wReg, wRegisters].contains (norm E a) = true := by
          rcases hr with hr | hr <;> simp [hr]
        show _ = if [wReg, wRegisters].contains (norm E a) = true then some Cmd.readRegisters else none
        rw [if_pos this]; rfl
      · rw [if_neg hr]
        have : [wReg, wRegisters].contains (norm E a) = false := by
          simp only [not_or] at hr
          simp [hr.1, hr.2]
        show _ = if [wReg, wRegisters].contains (norm E a) = true then some Cmd.readRegisters else none
        rw [if_neg (by rw [this]; decide)]; rfl
  rw [if_neg h4, lookup_ne h4]
  by_cases h5 : first = wP
  · subst h5
    have : lookup wP [ (wP, Shape.addrArg .readMemory), (wPrint, .addrArg .readMemory), (wS, .noArg .step),
      (wStep, .noArg .step) ] = some (.addrArg .readMemory) := by simp [lookup]
    rw [this, if_pos (Or.inl rfl)]
    cases t2 with
    | none => rfl
    | some a => simp only [Option.bind_some]; cases parseAddress E a <;> rfl
  rw [lookup_ne h5]
  by_cases h6 : first = wPrint
  · subst h6
    have : lookup wPrint [ (wPrint, Shape.addrArg .readMemory), (wS, .noArg .step),
      (wStep, .noArg .step) ] = some (.addrArg .readMemory) := by simp [lookup]
    rw [this, if_pos (Or.inr rfl)]
    cases t2 with
    | none => rfl
    | some a => simp only [Option.bind_some]; cases parseAddress E a <;> rfl
  rw [lookup_ne h6, if_neg (by simp [h5, h6])]
  by_cases h7 : first = wS
  · subst h7
    simp [lookup, toSpec]
  rw [lookup_ne h7]
  by_cases h8 : first = wStep
  · subst h8
    simp [lookup, toSpec]
  rw [lookup_ne h8, if_neg (by simp [h7, h8])]
  simp [lookup]

/-- `parse_command` = the spec's `interp` of the normalised first and second token and the parsed second token -/
theorem parseCommand_factor (E : Env) (line : List Char) :
    (parseCommand E line).map toSpec =
      interp ((splitWhitespace E line).head?.map (norm E)) ((splitWhitespace E line).tail.head?.map (norm E))
        ((splitWhitespace E line).tail.head?.bind (parseAddress E)) := by
  rw [parseCommand_chain]
  cases (splitWhitespace E line).head? with
  | none => simp [interp]
  | some w => simp only [Option.map_some]; exact chain_interp E _ _

/-! ### `parse_command` is allowed by the spec -/

theorem norm_token (E : Env) (t : List Char) (h : ∀ c ∈ t, E.isWhite c = false) : norm E t = toLowercase E t := by
  unfold norm; rw [trim_id E t h]

theorem parseAddress_token (E : Env) (t : List Char) (h : ∀ c ∈ t, E.isWhite c = false) :
    parseAddress E t = address? t := by
  rw [parseAddress_eq, trim_id E t h]

theorem lookup_table_cases (k : List Char) :
    lookup k table = none ∨ lookup k table = some (.addrArg .breakSet) ∨ lookup k table = some (.noArg .continue_) ∨
    lookup k table = some (.subWord [wReg, wRegisters] .readRegisters) ∨ lookup k table = some (.addrArg .readMemory) ∨
    lookup k table = some (.noArg .step) := by
  rw [table_eq]
  simp only [lookup]
  repeat' split
  all_goals simp

/-- recognising more first/second words keeps every recognised command -/
theorem interp_mono {fs fm ss sm : Option (List Char)} {a : Option Nat} {c : Cmd}
    (h1 : ∀ k, fs = some k → fm = some k) (h2 : ∀ k, ss = some k → sm = some k)
    (h : interp fs ss a = some c) : interp fm sm a = some c := by
  cases fs with
  | none => simp [interp] at h
  | some k =>
    rw [h1 k rfl]
    unfold interp at h ⊢
    simp only at h ⊢
    cases hl : lookup k table with
    | none => simp [hl] at h
    | some sh =>
      rw [hl] at h
      cases sh with
      | noArg c' => exact h
      | addrArg mk => exact h
      | subWord subs c' =>
        simp only at h ⊢
        cases ss with
        | none => simp at h
        | some s => rw [h2 s rfl]; exact h

/-- a command that carries an address got it from the parsed second word -/
theorem interp_addr {f s : Option (List Char)} {a : Option Nat} {c : Cmd} {x : Nat}
    (h : interp f s a = some c) (hx : c.addr? = some x) : a = some x := by
  cases f with
  | none => simp [interp] at h
  | some k =>
    unfold interp at h
    simp only at h
    rcases lookup_table_cases k with hl | hl | hl | hl | hl | hl <;> rw [hl] at h <;> simp only at h
    · cases h
    · cases a with
      | none => cases h
      | some y => cases h; simpa [Cmd.addr?] using hx
    · cases h; simp [Cmd.addr?] at hx
    · cases s with
      | none => cases h
      | some s' =>
        simp only at h
        split at h
        · cases h; simp [Cmd.addr?] at hx
        · cases h
    · cases a with
      | none => cases h
      | some y => cases h; simpa [Cmd.addr?] using hx
    · cases h; simp [Cmd.addr?] at hx

theorem all_ascii {w : List Char} (h : w.all isAscii = true) : ∀ c ∈ w, c.toNat < 128 :=
  fun c hc => by simpa [isAscii] using List.all_eq_true.mp h c hc

/-- **every answer of `parse_command` is one the spec allows**, for every line and every `Env` that is right on ASCII -/
theorem parse_allowed (E : Env) (hE : E.AsciiOk) (line : List Char) :
    allows E.isWhite line ((parseCommand E line).map toSpec) = true := by
  have hmem := sw_mem E line
  rw [parseCommand_factor]
  unfold allows command?
  simp only [tokens_eq]
  generalize splitWhitespace E line = toks at hmem ⊢
  -- the second word, parsed as an address: model = spec
  have ha : toks.tail.head?.bind (parseAddress E) = toks.tail.head?.bind address? := by
    cases h : toks.tail.head? with
    | none => rfl
    | some t =>
      have : t ∈ toks := List.mem_of_mem_tail (List.mem_of_mem_head? h)
      simp only [Option.bind_some]
      exact parseAddress_token E t (hmem t this).2
  rw [ha]
  -- folding an ASCII word is what `normalize_command` does to it
  have hfold : ∀ (o : Option (List Char)), (∀ t, o = some t → ∀ c ∈ t, E.isWhite c = false) →
      ∀ k, o.bind foldAscii? = some k → o.map (norm E) = some k := by
    intro o ho k hk
    cases o with
    | none => simp at hk
    | some t =>
      simp only [Option.bind_some] at hk
      simp only [Option.map_some]
      rw [norm_token E t (ho t rfl), toLowercase_fold hE hk]
  have h1 := hfold toks.head? (fun t ht => (hmem t (List.mem_of_mem_head? ht)).2)
  have h2 := hfold toks.tail.head? (fun t ht => (hmem t (List.mem_of_mem_tail (List.mem_of_mem_head? ht))).2)
  have hfoldeq : ∀ (o : Option (List Char)), (∀ t, o = some t → ∀ c ∈ t, E.isWhite c = false) →
      (∀ t, o = some t → t.all isAscii = true) → o.bind foldAscii? = o.map (norm E) := by
    intro o ho hasc
    cases o with
    | none => rfl
    | some t =>
      simp only [Option.bind_some, Option.map_some]
      rw [norm_token E t (ho t rfl), foldAscii?_of_ascii (all_ascii (hasc t rfl)),
        toLowercase_ascii hE (all_ascii (hasc t rfl))]
  rw [Bool.and_eq_true]
  constructor
  · cases hs : interp (toks.head?.bind foldAscii?) (toks.tail.head?.bind foldAscii?) (toks.tail.head?.bind address?) with
    | some c => simp only; rw [interp_mono h1 h2 hs]; simp
    | none =>
      simp only
      by_cases hasc : (toks.take 2).all (fun w => w.all isAscii) = true
      · have e1 : toks.head?.bind foldAscii? = toks.head?.map (norm E) :=
          hfoldeq _ (fun t ht => (hmem t (List.mem_of_mem_head? ht)).2) (fun t ht => by
            have : t ∈ toks.take 2 := by
              cases toks with
              | nil => simp at ht
              | cons a b => simp at ht; subst ht; simp
            exact List.all_eq_true.mp hasc t this)
        have e2 : toks.tail.head?.bind foldAscii? = toks.tail.head?.map (norm E) :=
          hfoldeq _ (fun t ht => (hmem t (List.mem_of_mem_tail (List.mem_of_mem_head? ht))).2) (fun t ht => by
            have : t ∈ toks.take 2 := by
              match toks, ht with
              | a :: b :: r, ht => simp at ht; subst ht; simp
            exact List.all_eq_true.mp hasc t this)
        rw [← e1, ← e2, hs]
        simp
      · simp [hasc]
  · cases hr : interp (toks.head?.map (norm E)) (toks.tail.head?.map (norm E)) (toks.tail.head?.bind address?) with
    | none => rfl
    | some c =>
      simp only
      cases hx : c.addr? with
      | none => rfl
      | some x => simp only; rw [interp_addr hr hx]; simp

/-! ### lines of the shape `white* WORD sep …` -/

/-- a line starting (after whitespace) with a spelling of an all-letters word `k`: `parse_command` takes the
arm of `k`, its second token being the first token of what follows -/
theorem parse_line_word (E : Env) (hE : E.AsciiOk) (pre w rest k : List Char)
    (hpre : ∀ c ∈ pre, E.isWhite c = true) (hw : foldAscii? w = some k) (hk : lettersOnly k) (hkne : k ≠ [])
    (hrest : Sep E rest) :
    parseCommand E (pre ++ w ++ rest) = chain E k (splitWhitespace E rest).head? := by
  have hnw := fold_not_white hE hw hk
  rw [parseCommand_chain, sw_line E pre w rest hpre (fold_ne_nil hw hkne) hnw hrest]
  simp only [List.head?_cons, List.tail_cons]
  rw [norm_token E w hnw, toLowercase_fold hE hw]

/-- `white+ token sep`: the token is the first token -/
theorem sw_second (E : Env) (mid a rest : List Char) (hmid : ∀ c ∈ mid, E.isWhite c = true) (hane : a ≠ [])
    (ha : ∀ c ∈ a, E.isWhite c = false) (hrest : Sep E rest) :
    (splitWhitespace E (mid ++ a ++ rest)).head? = some a := by
  rw [sw_line E mid a rest hmid hane ha hrest]; rfl

theorem sep_of_white (E : Env) (mid s : List Char) (hne : mid ≠ []) (hmid : ∀ c ∈ mid, E.isWhite c = true) :
    Sep E (mid ++ s) := by
  cases mid with
  | nil => exact absurd rfl hne
  | cons c r => exact Or.inr ⟨c, r ++ s, rfl, hmid c (List.mem_cons_self ..)⟩

theorem letters_words : lettersOnly wBreak ∧ lettersOnly wC ∧ lettersOnly wContinue ∧ lettersOnly wInfo ∧
    lettersOnly wP ∧ lettersOnly wPrint ∧ lettersOnly wS ∧ lettersOnly wStep ∧ lettersOnly wReg ∧
    lettersOnly wRegisters := by
  unfold lettersOnly; decide

end GbVerif.DebugCmd
