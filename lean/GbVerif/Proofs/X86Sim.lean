import GbVerif.Proofs.X86Cycles
import GbVerif.Proofs.X86Stack
import GbVerif.Proofs.Enum
/-
C01, the data side, for the register-transfer family: the relation `Sim` between the guest register file of the
interpreter model and the host registers of the x86 model (guest registers live in the low 16 bits of rax=AF, rcx=HL,
rdx=DE, rbx=BC, r12=SP, r13=PC, r15=cycles), the correspondence of the 8-bit register accessors, and straight-line
execution of a template.
-/
namespace GbVerif.X86
open GbVerif.JitCycles GbVerif.Interp
variable {β : Type}

/-- the host location of a guest 8-bit register -/
def hostR8 : Reg8 → R8
  | .A => .hi 0 | .B => .hi 3 | .C => .lo 3 | .D => .hi 2 | .E => .lo 2 | .H => .hi 1 | .L => .lo 1

/-- the host register holding a guest register pair -/
def hostR16 : Reg16 → Nat
  | .AF => 0 | .HL => 1 | .DE => 2 | .BC => 3 | .SP => 12

/-- guest register file ↔ host registers: equal modulo 2^16, register by register -/
structure Sim (g : Regs) (s : St β) : Prop where
  af : (get s 0).toNat % 65536 = g.af % 65536
  hl : (get s 1).toNat % 65536 = g.hl % 65536
  de : (get s 2).toNat % 65536 = g.de % 65536
  bc : (get s 3).toNat % 65536 = g.bc % 65536
  sp : (get s 12).toNat % 65536 = g.sp % 65536
  ip : (get s 13).toNat % 65536 = g.ip % 65536
  cy : (get s 15).toNat % 65536 = g.cycles % 65536
  size : s.r.size = 16

/-! ### bit operations of the register accessors as arithmetic -/

theorem and_ff00_small : ∀ p, p < 2 ^ 16 → (p &&& 0xff00 == (p / 256 % 256) * 256) = true :=
  Enum.forall_lt_of_allRange (fun p => p &&& 0xff00 == (p / 256 % 256) * 256) 16 (by decide +kernel)

theorem and_ff00 (p : Nat) : p &&& 0xff00 = (p / 256 % 256) * 256 := by
  have h1 : p &&& 0xff00 = (p &&& 0xff00) % 2 ^ 16 :=
    (Nat.mod_eq_of_lt (Nat.lt_of_le_of_lt Nat.and_le_right (by decide))).symm
  rw [h1, Nat.and_mod_two_pow]
  have := and_ff00_small (p % 2 ^ 16) (Nat.mod_lt _ (by decide))
  have h2 : (p % 2 ^ 16) &&& 0xff00 = (p % 2 ^ 16 / 256 % 256) * 256 := by simpa using this
  have h3 : (0xff00 : Nat) % 2 ^ 16 = 0xff00 := by decide
  rw [h3, h2]
  omega

theorem and_00ff (p : Nat) : p &&& 0x00ff = p % 256 := Nat.and_two_pow_sub_one_eq_mod p 8

theorem getHi_eq (p : Nat) : getHi p = p / 256 % 256 := by
  unfold getHi; rw [Nat.shiftRight_eq_div_pow]

theorem setHi_eq (p v : Nat) : setHi p v = v * 256 + p % 256 := by
  unfold setHi
  rw [and_00ff, Nat.shiftLeft_eq, Nat.or_comm, or_disjoint_mul v (p % 256) 8 (Nat.mod_lt _ (by decide))]
where
  or_disjoint_mul (q b k : Nat) (hb : b < 2 ^ k) : (q * 2 ^ k) ||| b = q * 2 ^ k + b := by
    rw [← Nat.shiftLeft_eq]; exact (Nat.shiftLeft_add_eq_or_of_lt hb q).symm

theorem setLo_eq (p v : Nat) (hv : v < 256) : setLo p v = (p / 256 % 256) * 256 + v := by
  unfold setLo
  rw [and_ff00]
  have : (p / 256 % 256) * 256 = (p / 256 % 256) * 2 ^ 8 := rfl
  rw [this, ← Nat.shiftLeft_eq]
  exact (Nat.shiftLeft_add_eq_or_of_lt hv _).symm

/-! ### the 8-bit accessors on both sides -/

theorem toNat_set8_hi (s : St β) (j v : Nat) (hj : j < s.r.size) :
    (get (set8 s (.hi j) v) j).toNat = ((get s j).toNat - ((get s j).toNat / 256 % 256) * 256 + (v % 256) * 256) % 2 ^ 64 := by
  simp only [set8]
  rw [get_set_eq _ _ _ hj, BitVec.toNat_ofNat]

theorem toNat_set8_lo (s : St β) (j v : Nat) (hj : j < s.r.size) :
    (get (set8 s (.lo j) v) j).toNat = ((get s j).toNat - (get s j).toNat % 256 + v % 256) % 2 ^ 64 := by
  simp only [set8]
  rw [get_set_eq _ _ _ hj, BitVec.toNat_ofNat]

theorem size_set8' (s : St β) (r : R8) (v : Nat) : (set8 s r v).r.size = s.r.size := size_set8 s r v

/-- reading a guest 8-bit register: host and interpreter agree -/
theorem get8_sim {g : Regs} {s : St β} (h : Sim g s) (r : Reg8) : get8 s (hostR8 r) = getReg g r := by
  have h0 := h.af; have h1 := h.hl; have h2 := h.de; have h3 := h.bc
  cases r <;> simp only [hostR8, get8, getReg, getHi_eq, getLo] <;> omega

/-- writing a guest 8-bit register: host and interpreter agree -/
theorem set8_sim {g : Regs} {s : St β} (h : Sim g s) (r : Reg8) (v : Nat) (hv : v < 256) :
    Sim (setReg g r v) (set8 s (hostR8 r) v) := by
  have hsz := h.size
  have hx0 := (get s 0).isLt; have hx1 := (get s 1).isLt; have hx2 := (get s 2).isLt; have hx3 := (get s 3).isLt
  have h0 := h.af; have h1 := h.hl; have h2 := h.de; have h3 := h.bc
  cases r
  all_goals
    simp only [hostR8, setReg]
    constructor
  all_goals first
    | (rw [size_set8']; exact hsz)
    | (rw [get_set8_ne _ _ _ _ (by simp [r8reg])]; first | exact h.af | exact h.hl | exact h.de | exact h.bc | exact h.sp | exact h.ip | exact h.cy)
    | (rw [toNat_set8_hi _ _ _ (by omega)]; simp only [setHi_eq]; omega)
    | (rw [toNat_set8_lo _ _ _ (by omega)]; simp only [setLo_eq _ _ hv]; omega)

/-! ### straight-line execution -/

/-- the offset of the first instruction of `rest`, the end offset if there is none -/
def headOff (endOff : Nat) : List (Nat × Instr) → Nat
  | (o, _) :: _ => o
  | [] => endOff

/-- the instructions of a list one after the other (each with its length in bytes: the distance to the next offset) -/
def execList (B : BusOps β) (endOff : Nat) : List (Nat × Instr) → St β → Except Fault (St β)
  | [], s => .ok s
  | (off, ins) :: rest, s =>
    match step B s ins (headOff endOff rest - off) with
    | .ok s1 => execList B endOff rest s1
    | .error e => .error e

def straight (code : List (Nat × Instr)) : Prop :=
  ∀ p ∈ code, (∀ c rel, p.2 ≠ .jcc c rel) ∧ (∀ rel, p.2 ≠ .jmp rel)

theorem offAt_drop (code : List (Nat × Instr)) (endOff i : Nat) :
    headOff endOff (code.drop (i + 1)) = offAt code endOff (i + 1) := by
  unfold offAt
  cases h : code[i + 1]? with
  | none =>
    have : code.drop (i + 1) = [] := List.drop_eq_nil_of_le (by
      rcases Nat.lt_or_ge (i + 1) code.length with h' | h'
      · rw [List.getElem?_eq_getElem h'] at h; cases h
      · exact h')
    rw [this]; rfl
  | some p =>
    have hi : i + 1 < code.length := by
      rcases Nat.lt_or_ge (i + 1) code.length with h' | h'
      · exact h'
      · rw [List.getElem?_eq_none h'] at h; cases h
    rw [List.drop_eq_getElem_cons hi]
    rw [List.getElem?_eq_getElem hi] at h
    injection h with h
    rw [h]; rfl

/-- a complete run of jump-free code is the sequence of its steps -/
theorem run_execList (B : BusOps β) (code : List (Nat × Instr)) (endOff : Nat) (hok : codeOk code endOff = true)
    (hst : straight code) : ∀ (n i : Nat), i + n = code.length → ∀ (fr : Nat) (s s' : St β), s.pc = offAt code endOff i →
      run B code endOff fr s = .ok s' → execList B endOff (code.drop i) s = .ok s' := by
  intro n
  induction n with
  | zero =>
    intro i hi fr s s' hpc hrun
    have hd : code.drop i = [] := List.drop_eq_nil_of_le (by omega)
    rw [hd]
    cases fr with
    | zero => simp [run] at hrun
    | succ fr =>
      have hoe : offAt code endOff i = endOff := by
        unfold offAt; rw [List.getElem?_eq_none (by omega)]
      rw [run] at hrun
      have hpe : (s.pc == endOff) = true := by rw [hpc, hoe]; simp
      rw [hpe] at hrun; simp only [if_true] at hrun
      exact hrun
  | succ n ih =>
    intro i hi fr s s' hpc hrun
    have hil : i < code.length := by omega
    cases fr with
    | zero => simp [run] at hrun
    | succ fr =>
      have hget : code[i]? = some (code[i].1, code[i].2) := by rw [List.getElem?_eq_getElem hil]
      have hoff := offAt_of_get (endOff := endOff) hget
      obtain ⟨s1, hstep, hrun1⟩ := run_unfold B hok hget (hpc.trans hoff) hrun
      obtain ⟨_, _, hmono⟩ := codeOk_at hok hil
      rw [hoff] at hmono
      obtain ⟨_, hpcn⟩ := step_size_pc B s s1 _ _ hstep
      have hs := hst code[i] (List.getElem_mem hil)
      have hpc1 : s1.pc = offAt code endOff (i + 1) := by rw [hpcn hs.1 hs.2, hpc.trans hoff]; omega
      have := ih (i + 1) (by omega) fr s1 s' hpc1 hrun1
      rw [List.drop_eq_getElem_cons hil]
      show (match step B s code[i].2 (headOff endOff (code.drop (i + 1)) - code[i].1) with
        | .ok s1 => execList B endOff (code.drop (i + 1)) s1
        | .error e => .error e) = .ok s'
      rw [offAt_drop, hstep]
      exact this

/-! ### `Sim` along single steps -/

/-- what a step of the register-transfer family leaves alone: bus, host stack, status byte -/
structure Untouched (s s1 : St β) : Prop where
  bus : s1.bus = s.bus
  stack : s1.stack = s.stack
  r14 : get s1 14 = get s 14

theorem Untouched.refl (s : St β) : Untouched s s := ⟨rfl, rfl, rfl⟩
theorem Untouched.trans {s s1 s2 : St β} (a : Untouched s s1) (b : Untouched s1 s2) : Untouched s s2 :=
  ⟨b.bus.trans a.bus, b.stack.trans a.stack, b.r14.trans a.r14⟩

/-- a step of an instruction that is no helper call, no stack instruction and does not write r14 -/
theorem untouched_step (B : BusOps β) (s s1 : St β) (ins : Instr) (len : Nat) (h : step B s ins len = .ok s1)
    (hc : ins ≠ .callRax) (hd : destReg ins ≠ some 14)
    (h1 : ∀ r, ins ≠ .push r) (h2 : ∀ r, ins ≠ .pop r) (h3 : ins ≠ .pushf) (h4 : ins ≠ .popf)
    (h5 : ∀ sz b d src, ins ≠ .store sz b d src) (h6 : ∀ b d src, ins ≠ .store8 b d src) : Untouched s s1 :=
  ⟨step_bus B s s1 ins len h hc, step_stack B s s1 ins len h h1 h2 h3 h4 h5 h6, step_frame B s s1 ins len 14 h hc hd⟩

theorem sim_add_ip (B : BusOps β) {g : Regs} {s s1 : St β} (h : Sim g s) (n len : Nat) (hn : n < 128)
    (hstep : step B s (.aluI .add .q 13 [n] true) len = .ok s1) : Sim { g with ip := g.ip + n } s1 ∧ Untouched s s1 := by
  have hadd := step_add_q B s s1 13 n len (by decide) hn h.size hstep
  have hf : ∀ j, 13 ≠ j → get s1 j = get s j := fun j hj =>
    step_frame B s s1 _ len j hstep (by intro e; cases e) (by simp only [destReg]; intro e; injection e with e; exact hj e)
  obtain ⟨hsz, _⟩ := step_size_pc B s s1 _ _ hstep
  refine ⟨⟨by rw [hf 0 (by decide)]; exact h.af, by rw [hf 1 (by decide)]; exact h.hl, by rw [hf 2 (by decide)]; exact h.de,
    by rw [hf 3 (by decide)]; exact h.bc, by rw [hf 12 (by decide)]; exact h.sp, ?_, by rw [hf 15 (by decide)]; exact h.cy,
    by rw [hsz]; exact h.size⟩, ?_⟩
  · show (get s1 13).toNat % 65536 = (g.ip + n) % 65536
    rw [hadd]; have := h.ip; omega
  · exact untouched_step B s s1 _ len hstep (by intro e; cases e) (by simp [destReg]) (fun _ e => by cases e) (fun _ e => by cases e)
      (fun e => by cases e) (fun e => by cases e) (fun _ _ _ _ e => by cases e) (fun _ _ _ e => by cases e)

theorem sim_add_cycles (B : BusOps β) {g : Regs} {s s1 : St β} (h : Sim g s) (n len : Nat) (hn : n < 128)
    (hstep : step B s (.aluI .add .q 15 [n] true) len = .ok s1) : Sim { g with cycles := g.cycles + n } s1 ∧ Untouched s s1 := by
  have hadd := step_add_q B s s1 15 n len (by decide) hn h.size hstep
  have hf : ∀ j, 15 ≠ j → get s1 j = get s j := fun j hj =>
    step_frame B s s1 _ len j hstep (by intro e; cases e) (by simp only [destReg]; intro e; injection e with e; exact hj e)
  obtain ⟨hsz, _⟩ := step_size_pc B s s1 _ _ hstep
  refine ⟨⟨by rw [hf 0 (by decide)]; exact h.af, by rw [hf 1 (by decide)]; exact h.hl, by rw [hf 2 (by decide)]; exact h.de,
    by rw [hf 3 (by decide)]; exact h.bc, by rw [hf 12 (by decide)]; exact h.sp, by rw [hf 13 (by decide)]; exact h.ip, ?_,
    by rw [hsz]; exact h.size⟩, ?_⟩
  · show (get s1 15).toNat % 65536 = (g.cycles + n) % 65536
    rw [hadd]; have := h.cy; omega
  · exact untouched_step B s s1 _ len hstep (by intro e; cases e) (by simp [destReg]) (fun _ e => by cases e) (fun _ e => by cases e)
      (fun e => by cases e) (fun e => by cases e) (fun _ _ _ _ e => by cases e) (fun _ _ _ e => by cases e)

/-- `Sim` does not look at the program counter of the host code -/
theorem sim_pc {g : Regs} {s : St β} (h : Sim g s) (pc' : Nat) : Sim g { s with pc := pc' } :=
  ⟨h.af, h.hl, h.de, h.bc, h.sp, h.ip, h.cy, h.size⟩

/-! ### templates of the shape `body ; add r13, len ; add r15, cycles` -/

def addIp (n : Nat) : Instr := .aluI .add .q 13 [n] true
def addCy (n : Nat) : Instr := .aluI .add .q 15 [n] true

/-- one step of execList -/
theorem execList_cons (B : BusOps β) (endOff off : Nat) (ins : Instr) (rest : List (Nat × Instr)) (s s' : St β)
    (h : execList B endOff ((off, ins) :: rest) s = .ok s') :
    ∃ s1, step B s ins (headOff endOff rest - off) = .ok s1 ∧ execList B endOff rest s1 = .ok s' := by
  have h' : (match step B s ins (headOff endOff rest - off) with
      | .ok s1 => execList B endOff rest s1
      | .error e => .error e) = .ok s' := h
  cases hs : step B s ins (headOff endOff rest - off) with
  | error e => rw [hs] at h'; cases h'
  | ok s1 => rw [hs] at h'; exact ⟨s1, rfl, h'⟩

theorem execList_nil (B : BusOps β) (endOff : Nat) (s s' : St β) (h : execList B endOff [] s = .ok s') : s' = s := by
  have : execList B endOff [] s = .ok s := rfl
  rw [this] at h; injection h with h; exact h.symm

theorem execList_append (B : BusOps β) (endOff : Nat) (l2 : List (Nat × Instr)) :
    ∀ (l1 : List (Nat × Instr)) (s s' : St β), execList B endOff (l1 ++ l2) s = .ok s' →
      ∃ s1, execList B (headOff endOff l2) l1 s = .ok s1 ∧ execList B endOff l2 s1 = .ok s'
  | [], s, s', h => ⟨s, rfl, h⟩
  | (off, ins) :: rest, s, s', h => by
    obtain ⟨s1, h1, h2⟩ := execList_cons B endOff off ins (rest ++ l2) s s' h
    obtain ⟨s2, h3, h4⟩ := execList_append B endOff l2 rest s1 s' h2
    refine ⟨s2, ?_, h4⟩
    have hh : headOff endOff (rest ++ l2) = headOff (headOff endOff l2) rest := by
      cases rest with
      | nil => rfl
      | cons p r => rfl
    rw [hh] at h1
    show (match step B s ins (headOff (headOff endOff l2) rest - off) with
      | .ok s1 => execList B (headOff endOff l2) rest s1
      | .error e => .error e) = .ok s2
    rw [h1]; exact h3

/-- the tail every template of this shape ends with -/
theorem sim_tail (B : BusOps β) {g : Regs} {s s' : St β} (h : Sim g s) (o1 o2 e n c : Nat) (hn : n < 128) (hc : c < 128)
    (hex : execList B e [(o1, addIp n), (o2, addCy c)] s = .ok s') :
    Sim { g with ip := g.ip + n, cycles := g.cycles + c } s' ∧ Untouched s s' := by
  obtain ⟨s1, h1, hex⟩ := execList_cons B _ _ _ _ _ _ hex
  obtain ⟨s2, h2, hex⟩ := execList_cons B _ _ _ _ _ _ hex
  have := execList_nil B _ _ _ hex
  subst this
  obtain ⟨a1, u1⟩ := sim_add_ip B h n _ hn h1
  obtain ⟨a2, u2⟩ := sim_add_cycles B a1 c _ hc h2
  exact ⟨a2, u1.trans u2⟩

/-- a template `body ; add r13, n ; add r15, c` whose body takes `g` to `g1` (from initial states with property `P`, e.g.
"the operand byte is b1") takes `g` to `g1` advanced by `n` with `c` more cycles -/
theorem sim_bodyP (B : BusOps β) (P : St β → Prop) (body : List (Nat × Instr)) (o1 o2 e n c : Nat) (g g1 : Regs)
    (hok : codeOk (body ++ [(o1, addIp n), (o2, addCy c)]) e = true) (hst : straight body) (hn : n < 128) (hc : c < 128)
    (hbody : ∀ st s1 : St β, Sim g st → P st → execList B o1 body st = .ok s1 → Sim g1 s1 ∧ Untouched st s1)
    (fuel : Nat) (st st' : St β) (hsim : Sim g st) (hP : P st) (hpc : st.pc = offAt (body ++ [(o1, addIp n), (o2, addCy c)]) e 0)
    (hrun : run B (body ++ [(o1, addIp n), (o2, addCy c)]) e fuel st = .ok st') :
    Sim { g1 with ip := g1.ip + n, cycles := g1.cycles + c } st' ∧ Untouched st st' := by
  have hst' : straight (body ++ [(o1, addIp n), (o2, addCy c)]) := by
    intro p hp
    rcases List.mem_append.mp hp with h | h
    · exact hst p h
    · simp only [List.mem_cons, List.not_mem_nil, or_false] at h
      rcases h with e | e <;> subst e <;> exact ⟨fun _ _ e => Instr.noConfusion e, fun _ e => Instr.noConfusion e⟩
  have hex := run_execList B _ e hok hst' (body ++ [(o1, addIp n), (o2, addCy c)]).length 0 (Nat.zero_add _) fuel st st' hpc hrun
  rw [List.drop_zero] at hex
  obtain ⟨s1, hb, ht⟩ := execList_append B e _ body st st' hex
  obtain ⟨hs1, hu1⟩ := hbody st s1 hsim hP hb
  obtain ⟨hs2, hu2⟩ := sim_tail B hs1 o1 o2 e n c hn hc ht
  exact ⟨hs2, hu1.trans hu2⟩

theorem sim_body (B : BusOps β) (body : List (Nat × Instr)) (o1 o2 e n c : Nat) (g g1 : Regs)
    (hok : codeOk (body ++ [(o1, addIp n), (o2, addCy c)]) e = true) (hst : straight body) (hn : n < 128) (hc : c < 128)
    (hbody : ∀ st s1 : St β, Sim g st → execList B o1 body st = .ok s1 → Sim g1 s1 ∧ Untouched st s1)
    (fuel : Nat) (st st' : St β) (hsim : Sim g st) (hpc : st.pc = offAt (body ++ [(o1, addIp n), (o2, addCy c)]) e 0)
    (hrun : run B (body ++ [(o1, addIp n), (o2, addCy c)]) e fuel st = .ok st') :
    Sim { g1 with ip := g1.ip + n, cycles := g1.cycles + c } st' ∧ Untouched st st' :=
  sim_bodyP B (fun _ => True) body o1 o2 e n c g g1 hok hst hn hc (fun st s1 hs _ hex => hbody st s1 hs hex) fuel st st' hsim trivial hpc hrun

end GbVerif.X86
