import GbVerif.Proofs.X86SimAdc
import GbVerif.Proofs.X86SimCb
/-
C01, the data side: INC r / DEC r for the seven registers.  The register write and the flag conversion are separated:
after `inc|dec r8` the host state is related to `setReg g r v`, and the conversion then acts on that register file's AF.
-/
namespace GbVerif.X86
open GbVerif.JitCycles GbVerif.Interp
variable {β : Type}

/-- the flag conversion from a state related to `g1`: AF of the host afterwards -/
theorem pipe_sim (B : BusOps β) (keep take : Nat) (hk : keep < 256) (ht : take < 256) (o : Nat → Nat) (e : Nat) (g1 : Regs)
    (s1 s' : St β) (hs : Sim g1 s1) (hex : execList B e (pipeAt o keep take) s1 = .ok s') :
    (get s' 0).toNat % 65536 = getReg g1 .A * 256 + ((g1.af % 256 &&& keep) ||| (conv s1.fl &&& take)) ∧ Frame06 s1 s' := by
  obtain ⟨hv, hf, hb, hst, hsz⟩ := flag_pipe B keep take hk ht (o 1) (o 2) (o 3) (o 4) (o 5) (o 6) (o 7) (o 8) (o 9) e s1 s' hs.size hex
  refine ⟨?_, ⟨hf, hb, hst, hsz⟩⟩
  rw [hv]
  have hc := conv_lt s1.fl
  have hA := getReg_lt g1 .A
  have hx : (get s1 0).toNat % 65536 = getReg g1 .A * 256 + g1.af % 256 := by
    show _ = getHi g1.af * 256 + g1.af % 256
    rw [getHi_eq]; have := hs.af; omega
  exact pipe_low16 _ keep _ _ _ hk (Nat.lt_of_le_of_lt Nat.and_le_left hc) (Nat.mod_lt _ (by decide)) hA hx

/-- ZF and AF of the host as Z and H of the guest (the C bit is masked off by `take = 0xe0`) -/
theorem conv_e0 (fl : Flags) : conv fl &&& 0xe0 = (if fl.zf then 0x80 else 0) + (if fl.af then 0x20 else 0) := by
  obtain ⟨cf, pf, af, zf, sf, of⟩ := fl
  cases cf <;> cases af <;> cases zf <;> simp [conv]

theorem fInc_eq (f1 : Nat) (z h : Bool) :
    ((f1 &&& 0x1f) ||| ((if z then 0x80 else 0) + (if h then 0x20 else 0))) = (((f1 &&& 0x1f) ||| (if h then 0x20 else 0)) ||| (if z then 0x80 else 0)) := by
  cases z <;> cases h <;> simp [Nat.or_assoc]

theorem fDec_eq (f1 : Nat) (z h : Bool) :
    bitop .or ((f1 &&& 0x1f) ||| ((if z then 0x80 else 0) + (if h then 0x20 else 0))) 64 =
      ((((f1 &&& 0x1f) ||| (if h then 0x20 else 0)) ||| 0x40) ||| (if z then 0x80 else 0)) := by
  cases z <;> cases h <;> simp [bitop, Nat.or_assoc]

/-- the flag part of the interpreter's INC / DEC on a register file `g1` (after the register write) -/
theorem incFlags_pack (g1 : Regs) (h : Bool) (x : Nat) (neg : Bool) :
    (testZero (if neg then setNeg (testHalf (applyMask g1 0xe0) h) else testHalf (applyMask g1 0xe0) h) x).af =
      getReg g1 .A * 256 + ((((g1.af % 256 &&& 0x1f) ||| (if h then 0x20 else 0)) ||| (if neg then 0x40 else 0)) ||| (if x == 0 then 0x80 else 0)) := by
  have hA := getReg_lt g1 .A
  have hg : g1.af % 65536 = getReg g1 .A * 256 + g1.af % 256 := by
    show g1.af % 65536 = getHi g1.af * 256 + g1.af % 256
    rw [getHi_eq]; omega
  have i0 := applyMask_pack' g1 _ _ 0xe0 hA (Nat.mod_lt _ (by decide)) hg
  rw [show ((0xe0 ^^^ 0xff) % 256 : Nat) = 0x1f from rfl] at i0
  have c0 : g1.af % 256 &&& 0x1f < 256 := Nat.lt_of_le_of_lt Nat.and_le_right (by decide)
  have i1 := testHalf_pack _ _ _ h c0 i0
  have c1 := or_bit_lt _ h 0x20 c0 (by decide)
  cases neg
  · simp only [Bool.false_eq_true, if_false, Nat.or_zero]
    exact testZero_pack _ _ _ x c1 i1
  · simp only [if_true]
    have i2 := setNeg_pack _ _ _ c1 i1
    exact testZero_pack _ _ _ x (Nat.or_lt_two_pow (n := 8) c1 (by decide)) i2

theorem sameButAf_incFlags (g1 : Regs) (h : Bool) (x : Nat) (neg : Bool) :
    SameButAf g1 (testZero (if neg then setNeg (testHalf (applyMask g1 0xe0) h) else testHalf (applyMask g1 0xe0) h) x) := by
  cases neg
  · exact ((sameButAf_applyMask g1 _).trans (sameButAf_testHalf _ _)).trans (sameButAf_testZero _ _)
  · exact (((sameButAf_applyMask g1 _).trans (sameButAf_testHalf _ _)).trans (sameButAf_orF _ _)).trans (sameButAf_testZero _ _)

def opcodeInc8 (r : Reg8) : Nat := 0x04 + 8 * r8code r
def opcodeDec8 (r : Reg8) : Nat := 0x05 + 8 * r8code r

theorem table_incdec8 (r : Reg8) (b1 b2 : Nat) :
    decodeCode (Gen.emitOp (opcodeInc8 r)) = some (((0, Instr.incdec8 false (hostR8 r)) :: pipeAt (aluOff 2) 31 224) ++ [(31, addIp 1), (35, addCy 1)]) ∧
    bytesOf (Gen.emitOp (opcodeInc8 r)) = 39 ∧ Gen.decode (opcodeInc8 r) b1 b2 = (.Increment8 r, 1, 4) ∧
    decodeCode (Gen.emitOp (opcodeDec8 r)) = some ((((0, Instr.incdec8 true (hostR8 r)) :: pipeAt (aluOff' 2) 31 224) ++ [(31, Instr.alu8i AluOp.or (R8.lo 0) 64)]) ++ [(33, addIp 1), (37, addCy 1)]) ∧
    bytesOf (Gen.emitOp (opcodeDec8 r)) = 41 ∧ Gen.decode (opcodeDec8 r) b1 b2 = (.Decrement8 r, 1, 4) := by
  cases r <;> exact ⟨by decide +kernel, by decide +kernel, rfl, by decide +kernel, by decide +kernel, rfl⟩

/-- `inc|dec r8` on the host location of a guest register: the register write, and the host flags Z and A -/
theorem step_incdec8_sim (B : BusOps β) (dec : Bool) (r : Reg8) (g : Regs) (st s1 : St β) (len : Nat) (hs : Sim g st)
    (h : step B st (.incdec8 dec (hostR8 r)) len = .ok s1) :
    Sim (setReg g r (if dec then u8 (getReg g r + 256 - 1) else u8 (getReg g r + 1))) s1 ∧ Untouched st s1 ∧
    s1.fl.zf = ((if dec then u8 (getReg g r + 256 - 1) else u8 (getReg g r + 1)) == 0) ∧
    s1.fl.af = (if dec then decide (getReg g r % 16 < 1 % 16) else decide (getReg g r % 16 + 1 % 16 ≥ 16)) := by
  have hu : Untouched st s1 := untouched_step B st s1 _ _ h (by intro e; cases e)
    (by simp only [destReg]; intro e; injection e with e; exact hostR8_ne14 r e)
    (fun _ e => by cases e) (fun _ e => by cases e) (fun e => by cases e) (fun e => by cases e)
    (fun _ _ _ _ e => by cases e) (fun _ _ _ e => by cases e)
  have e1 : step B st (.incdec8 dec (hostR8 r)) len =
      .ok { (set8 ({ st with pc := st.pc + len } : St β) (hostR8 r) (aluOp (if dec then .sub else .add) 8 (get8 st (hostR8 r)) 1 st.fl).1) with
            fl := { (aluOp (if dec then .sub else .add) 8 (get8 st (hostR8 r)) 1 st.fl).2 with cf := st.fl.cf } } := rfl
  rw [e1] at h
  injection h with h
  have ha := getReg_lt g r
  rw [get8_sim hs r] at h
  cases dec
  · simp only [Bool.false_eq_true, if_false] at h ⊢
    have hv : (aluOp .add 8 (getReg g r) 1 st.fl).1 = u8 (getReg g r + 1) := by
      show (getReg g r + 1 + 0) % 2 ^ 8 = (getReg g r + 1) % 256
      omega
    refine ⟨?_, hu, ?_, ?_⟩
    · rw [← h, hv]; exact sim_fl (set8_sim (sim_pc hs _) r _ (Nat.mod_lt _ (by decide))) _
    · rw [← h]; show ((getReg g r + 1 + 0) % 2 ^ 8 == 0) = _; rw [← hv]; rfl
    · rw [← h]; show decide (getReg g r % 16 + 1 % 16 + 0 ≥ 16) = _; simp only [Nat.add_zero]
  · simp only [if_true] at h ⊢
    have hv : (aluOp .sub 8 (getReg g r) 1 st.fl).1 = u8 (getReg g r + 256 - 1) := by
      show (getReg g r + 2 ^ 8 + 2 ^ 8 - 1 - 0) % 2 ^ 8 = (getReg g r + 256 - 1) % 256
      omega
    refine ⟨?_, hu, ?_, ?_⟩
    · rw [← h, hv]; exact sim_fl (set8_sim (sim_pc hs _) r _ (Nat.mod_lt _ (by decide))) _
    · rw [← h]; show ((getReg g r + 2 ^ 8 + 2 ^ 8 - 1 - 0) % 2 ^ 8 == 0) = _; rw [← hv]; rfl
    · rw [← h]; show decide (getReg g r % 16 < 1 % 16 + 0) = _; simp only [Nat.add_zero]

/-- the body of INC r -/
theorem inc_body (B : BusOps β) (r : Reg8) (o : Nat → Nat) (e : Nat) (g : Regs) (st s2 : St β) (hs : Sim g st)
    (hex : execList B e ((o 0, .incdec8 false (hostR8 r)) :: pipeAt o 31 224) st = .ok s2) :
    Sim (testZero (testHalf (applyMask (setReg g r (u8 (getReg g r + 1))) 0xe0) (((getReg g r &&& 0x0f) + (1 &&& 0x0f)) &&& 0x10 != 0)) (u8 (getReg g r + 1))) s2 ∧
    Untouched st s2 := by
  obtain ⟨s1, h1, hex⟩ := execList_cons B _ _ _ _ _ _ hex
  obtain ⟨hs1', hu1, hz', ha'⟩ := step_incdec8_sim B false r g st s1 _ hs h1
  have hs1 : Sim (setReg g r (u8 (getReg g r + 1))) s1 := hs1'
  have hz : s1.fl.zf = (u8 (getReg g r + 1) == 0) := hz'
  have ha : s1.fl.af = decide (getReg g r % 16 + 1 % 16 ≥ 16) := ha'
  obtain ⟨hx, hfr⟩ := pipe_sim B 31 224 (by decide) (by decide) o e _ s1 s2 hs1 hex
  rw [conv_e0, hz, ha, fInc_eq] at hx
  have hi := incFlags_pack (setReg g r (u8 (getReg g r + 1))) (((getReg g r &&& 0x0f) + (1 &&& 0x0f)) &&& 0x10 != 0) (u8 (getReg g r + 1)) false
  have hi2 : (testZero (testHalf (applyMask (setReg g r (u8 (getReg g r + 1))) 0xe0) (((getReg g r &&& 0x0f) + (1 &&& 0x0f)) &&& 0x10 != 0)) (u8 (getReg g r + 1))).af =
      getReg (setReg g r (u8 (getReg g r + 1))) .A * 256 + ((((setReg g r (u8 (getReg g r + 1))).af % 256 &&& 0x1f) |||
        (if (((getReg g r &&& 0x0f) + (1 &&& 0x0f)) &&& 0x10 != 0) then 0x20 else 0)) ||| (if u8 (getReg g r + 1) == 0 then 0x80 else 0)) := by
    have := hi
    simp only [Bool.false_eq_true, if_false, Nat.or_zero] at this
    exact this
  have h2 : (((getReg g r &&& 0x0f) + (1 &&& 0x0f)) &&& 0x10 != 0) = decide (getReg g r % 16 + 1 % 16 ≥ 16) := by
    have := halfAdd_eq (getReg g r) 1 0 (by decide)
    rw [Nat.add_zero, Nat.add_zero] at this
    exact this
  obtain ⟨q1, q2⟩ := sim_af (g' := testZero (testHalf (applyMask (setReg g r (u8 (getReg g r + 1))) 0xe0) (((getReg g r &&& 0x0f) + (1 &&& 0x0f)) &&& 0x10 != 0)) (u8 (getReg g r + 1))) hs1 hfr
      (sameButAf_incFlags _ (((getReg g r &&& 0x0f) + (1 &&& 0x0f)) &&& 0x10 != 0) (u8 (getReg g r + 1)) false) (by
    rw [hx, hi2, h2]
    have hlt : (((setReg g r (u8 (getReg g r + 1))).af % 256 &&& 0x1f ||| (if decide (getReg g r % 16 + 1 % 16 ≥ 16) then 0x20 else 0)) |||
        (if u8 (getReg g r + 1) == 0 then 0x80 else 0)) < 256 := by
      apply Nat.or_lt_two_pow (n := 8)
      · apply Nat.or_lt_two_pow (n := 8)
        · exact Nat.lt_of_le_of_lt Nat.and_le_right (by decide)
        · split <;> decide
      · split <;> decide
    have hA := getReg_lt (setReg g r (u8 (getReg g r + 1))) .A
    omega)
  exact ⟨q1, hu1.trans q2⟩

/-- the body of DEC r -/
theorem dec_body (B : BusOps β) (r : Reg8) (o : Nat → Nat) (e : Nat) (g : Regs) (st s3 : St β) (hs : Sim g st)
    (hex : execList B e (((o 0, .incdec8 true (hostR8 r)) :: pipeAt o 31 224) ++ [(o 10, .alu8i .or (.lo 0) 64)]) st = .ok s3) :
    Sim (testZero (setNeg (testHalf (applyMask (setReg g r (u8 (getReg g r + 256 - 1))) 0xe0) (u8 ((getReg g r &&& 0x0f) + 256 - (1 &&& 0x0f)) &&& 0x10 != 0))) (u8 (getReg g r + 256 - 1))) s3 ∧
    Untouched st s3 := by
  obtain ⟨s2, hex1, hexp⟩ := execList_append B e _ _ st s3 hex
  obtain ⟨s1, h1, hex2⟩ := execList_cons B _ _ _ _ _ _ hex1
  obtain ⟨hs1', hu1, hz', ha'⟩ := step_incdec8_sim B true r g st s1 _ hs h1
  have hs1 : Sim (setReg g r (u8 (getReg g r + 256 - 1))) s1 := hs1'
  have hz : s1.fl.zf = (u8 (getReg g r + 256 - 1) == 0) := hz'
  have ha : s1.fl.af = decide (getReg g r % 16 < 1 % 16) := ha'
  obtain ⟨hx, hfr⟩ := pipe_sim B 31 224 (by decide) (by decide) o _ _ s1 s2 hs1 hex2
  obtain ⟨s4, hp, hex4⟩ := execList_cons B _ _ _ _ _ _ hexp
  have := execList_nil B _ _ _ hex4
  subst this
  obtain ⟨hx3, hr3, hb3, hst3, hsz3⟩ := step_al B .or (Or.inr (Or.inl rfl)) 64 (by decide) s2 s3 _ hfr.size hp
  have hfr3 := frame06_al hfr hr3 hb3 hst3 hsz3
  rw [conv_e0, hz, ha] at hx
  have hA := getReg_lt (setReg g r (u8 (getReg g r + 256 - 1))) .A
  have hFlt : ((setReg g r (u8 (getReg g r + 256 - 1))).af % 256 &&& 31 |||
      ((if (u8 (getReg g r + 256 - 1) == 0) = true then 128 else 0) + if decide (getReg g r % 16 < 1 % 16) = true then 32 else 0)) < 256 := by
    apply Nat.or_lt_two_pow (n := 8)
    · exact Nat.lt_of_le_of_lt Nat.and_le_right (by decide)
    · split <;> split <;> decide
  have hlo : (get s2 0).toNat % 256 = ((setReg g r (u8 (getReg g r + 256 - 1))).af % 256 &&& 31 |||
      ((if (u8 (getReg g r + 256 - 1) == 0) = true then 128 else 0) + if decide (getReg g r % 16 < 1 % 16) = true then 32 else 0)) := by
    have : (get s2 0).toNat % 256 = (get s2 0).toNat % 65536 % 256 := by omega
    rw [this, hx]; omega
  have hhi : (get s2 0).toNat / 256 % 256 = getReg (setReg g r (u8 (getReg g r + 256 - 1))) .A := by
    have : (get s2 0).toNat / 256 % 256 = (get s2 0).toNat % 65536 / 256 := by omega
    rw [this, hx]; omega
  rw [hlo, hhi, fDec_eq] at hx3
  have hi := incFlags_pack (setReg g r (u8 (getReg g r + 256 - 1))) (u8 ((getReg g r &&& 0x0f) + 256 - (1 &&& 0x0f)) &&& 0x10 != 0) (u8 (getReg g r + 256 - 1)) true
  have hi2 : (testZero (setNeg (testHalf (applyMask (setReg g r (u8 (getReg g r + 256 - 1))) 0xe0) (u8 ((getReg g r &&& 0x0f) + 256 - (1 &&& 0x0f)) &&& 0x10 != 0))) (u8 (getReg g r + 256 - 1))).af =
      getReg (setReg g r (u8 (getReg g r + 256 - 1))) .A * 256 + (((((setReg g r (u8 (getReg g r + 256 - 1))).af % 256 &&& 0x1f) |||
        (if (u8 ((getReg g r &&& 0x0f) + 256 - (1 &&& 0x0f)) &&& 0x10 != 0) then 0x20 else 0)) ||| 0x40) ||| (if u8 (getReg g r + 256 - 1) == 0 then 0x80 else 0)) := by
    have := hi
    simp only [if_true] at this
    exact this
  have h2 : (u8 ((getReg g r &&& 0x0f) + 256 - (1 &&& 0x0f)) &&& 0x10 != 0) = decide (getReg g r % 16 < 1 % 16) := halfSub0_eq (getReg g r) 1
  obtain ⟨q1, q2⟩ := sim_af (g' := testZero (setNeg (testHalf (applyMask (setReg g r (u8 (getReg g r + 256 - 1))) 0xe0) (u8 ((getReg g r &&& 0x0f) + 256 - (1 &&& 0x0f)) &&& 0x10 != 0))) (u8 (getReg g r + 256 - 1))) hs1 hfr3
      (sameButAf_incFlags _ (u8 ((getReg g r &&& 0x0f) + 256 - (1 &&& 0x0f)) &&& 0x10 != 0) (u8 (getReg g r + 256 - 1)) true) (by
    rw [hx3, hi2, h2]
    have hlt : ((((setReg g r (u8 (getReg g r + 256 - 1))).af % 256 &&& 0x1f ||| (if decide (getReg g r % 16 < 1 % 16) then 0x20 else 0)) ||| 0x40) |||
        (if u8 (getReg g r + 256 - 1) == 0 then 0x80 else 0)) < 256 := by
      apply Nat.or_lt_two_pow (n := 8)
      · apply Nat.or_lt_two_pow (n := 8)
        · apply Nat.or_lt_two_pow (n := 8)
          · exact Nat.lt_of_le_of_lt Nat.and_le_right (by decide)
          · split <;> decide
        · decide
      · split <;> decide
    omega)
  exact ⟨q1, hu1.trans q2⟩

/-- **INC r** (7 registers): all states -/
theorem sim_inc8 (r : Reg8) (b1 b2 : Nat) : Simulates (opcodeInc8 r) b1 b2 := by
  obtain ⟨hdec, hbytes, hop, _⟩ := table_incdec8 r b1 b2
  refine ⟨_, hdec, ?_⟩
  intro β B g m fuel st st' hsim hpc _ _ hrun
  rw [hbytes] at hrun
  rw [hop]
  show ∃ g', runOp B (.Increment8 r) g m 1 = .ok (g', m, STATUS_NORMAL) ∧ Sim { g' with cycles := g'.cycles + 4 / 4 } st' ∧ Untouched st st'
  rw [show (4 : Nat) / 4 = 1 from rfl]
  refine ⟨advance (testZero (testHalf (applyMask (setReg g r (u8 (getReg g r + 1))) 0xe0) (((getReg g r &&& 0x0f) + (1 &&& 0x0f)) &&& 0x10 != 0)) (u8 (getReg g r + 1))) 1, rfl, ?_⟩
  obtain ⟨h1, h2⟩ := sim_body B ((0, Instr.incdec8 false (hostR8 r)) :: pipeAt (aluOff 2) 31 224) 31 35 39 1 1 g
    (testZero (testHalf (applyMask (setReg g r (u8 (getReg g r + 1))) 0xe0) (((getReg g r &&& 0x0f) + (1 &&& 0x0f)) &&& 0x10 != 0)) (u8 (getReg g r + 1))) rfl
    (straight_cons _ _ _ (fun _ _ e => Instr.noConfusion e) (fun _ e => Instr.noConfusion e) (straight_pipe _ _ _)) (by decide) (by decide)
    (fun st0 s1 hs hex => inc_body B r (aluOff 2) 31 g st0 s1 hs hex)
    fuel st st' hsim (by rw [hpc]; rfl) hrun
  exact ⟨⟨h1.af, h1.hl, h1.de, h1.bc, h1.sp, h1.ip, h1.cy, h1.size⟩, h2⟩

set_option maxHeartbeats 1000000 in
/-- **DEC r** (7 registers): all states -/
theorem sim_dec8 (r : Reg8) (b1 b2 : Nat) : Simulates (opcodeDec8 r) b1 b2 := by
  obtain ⟨_, _, _, hdec, hbytes, hop⟩ := table_incdec8 r b1 b2
  refine ⟨_, hdec, ?_⟩
  intro β B g m fuel st st' hsim hpc _ _ hrun
  rw [hbytes] at hrun
  rw [hop]
  show ∃ g', runOp B (.Decrement8 r) g m 1 = .ok (g', m, STATUS_NORMAL) ∧ Sim { g' with cycles := g'.cycles + 4 / 4 } st' ∧ Untouched st st'
  rw [show (4 : Nat) / 4 = 1 from rfl]
  refine ⟨advance (testZero (setNeg (testHalf (applyMask (setReg g r (u8 (getReg g r + 256 - 1))) 0xe0) (u8 ((getReg g r &&& 0x0f) + 256 - (1 &&& 0x0f)) &&& 0x10 != 0))) (u8 (getReg g r + 256 - 1))) 1, rfl, ?_⟩
  obtain ⟨h1, h2⟩ := sim_body B (((0, Instr.incdec8 true (hostR8 r)) :: pipeAt (aluOff' 2) 31 224) ++ [(31, Instr.alu8i AluOp.or (R8.lo 0) 64)]) 33 37 41 1 1 g
    (testZero (setNeg (testHalf (applyMask (setReg g r (u8 (getReg g r + 256 - 1))) 0xe0) (u8 ((getReg g r &&& 0x0f) + 256 - (1 &&& 0x0f)) &&& 0x10 != 0))) (u8 (getReg g r + 256 - 1))) rfl
    (straight_app (straight_cons _ _ _ (fun _ _ e => Instr.noConfusion e) (fun _ e => Instr.noConfusion e) (straight_pipe _ _ _)) (straight_al _ _ _)) (by decide) (by decide)
    (fun st0 s1 hs hex => dec_body B r (aluOff' 2) 33 g st0 s1 hs hex)
    fuel st st' hsim (by rw [hpc]; rfl) hrun
  exact ⟨⟨h1.af, h1.hl, h1.de, h1.bc, h1.sp, h1.ip, h1.cy, h1.size⟩, h2⟩

end GbVerif.X86
