import GbVerif.Proofs.X86Sim
import GbVerif.Proofs.X86Sp
import GbVerif.Gen.EmitTable
import GbVerif.Gen.DecoderOps
/-
C01, the data side, proved for the register-transfer instructions: for each of them the emitted template, run on the
x86 model from ANY host state related by `Sim` to a guest register file, ends in a host state related to the register
file the interpreter model produces — registers, PC, cycles — and leaves the bus, the host stack and the status alone.
-/
namespace GbVerif.X86
open GbVerif.JitCycles GbVerif.Interp
variable {β : Type}

/-- the template of the encoding `b0` (operand bytes `b1 b2`) simulates the interpreter on register-only instructions -/
def Simulates (b0 b1 b2 : Nat) : Prop :=
  ∃ code, decodeCode (Gen.emitOp b0) = some code ∧
  ∀ (β : Type) (B : BusOps β) (g : Regs) (m : β) (fuel : Nat) (st st' : St β), Sim g st → st.pc = 0 → st.op1 = b1 → st.op2 = b2 →
    run B code (bytesOf (Gen.emitOp b0)) fuel st = .ok st' →
    ∃ g', runOp B (Gen.decode b0 b1 b2).1 g m (Gen.decode b0 b1 b2).2.1 = .ok (g', m, STATUS_NORMAL) ∧
      Sim { g' with cycles := g'.cycles + (Gen.decode b0 b1 b2).2.2 / 4 } st' ∧ Untouched st st'

/-- position of a register in the SM83 encoding (6 is `(HL)`) -/
def r8code : Reg8 → Nat | .B => 0 | .C => 1 | .D => 2 | .E => 3 | .H => 4 | .L => 5 | .A => 7

theorem getReg_lt (g : Regs) (r : Reg8) : getReg g r < 256 := by
  cases r <;> simp only [getReg, getHi_eq, getLo] <;> omega

theorem hostR8_ne14 (r : Reg8) : r8reg (hostR8 r) ≠ 14 := by cases r <;> decide

theorem straight_one (off : Nat) (ins : Instr) (h1 : ∀ c rel, ins ≠ .jcc c rel) (h2 : ∀ rel, ins ≠ .jmp rel) :
    straight [(off, ins)] := by
  intro p hp
  rw [List.mem_singleton.mp hp]; exact ⟨h1, h2⟩

/-- a one-instruction body -/
theorem body_one (B : BusOps β) (off o1 : Nat) (ins : Instr) (g g1 : Regs)
    (h : ∀ (st s1 : St β) (len : Nat), Sim g st → step B st ins len = .ok s1 → Sim g1 s1 ∧ Untouched st s1) :
    ∀ st s1 : St β, Sim g st → execList B o1 [(off, ins)] st = .ok s1 → Sim g1 s1 ∧ Untouched st s1 := by
  intro st s1 hs hex
  obtain ⟨s2, h1, hex⟩ := execList_cons B _ _ _ _ _ _ hex
  have := execList_nil B _ _ _ hex
  subst this
  exact h st s1 _ hs h1

/-! ### LD d,s -/

def opcodeLd8 (d s : Reg8) : Nat := 0x40 + 8 * r8code d + r8code s

theorem table_ld8 (d s : Reg8) (b1 b2 : Nat) :
    decodeCode (Gen.emitOp (opcodeLd8 d s)) = some ([(0, .mov8 (hostR8 d) (hostR8 s))] ++ [(2, addIp 1), (6, addCy 1)]) ∧
    bytesOf (Gen.emitOp (opcodeLd8 d s)) = 10 ∧ Gen.decode (opcodeLd8 d s) b1 b2 = (.Load8 d s, 1, 4) := by
  cases d <;> cases s <;> exact ⟨by decide +kernel, by decide +kernel, rfl⟩

theorem step_mov8_sim (B : BusOps β) (d s : Reg8) (g : Regs) (st s1 : St β) (len : Nat) (hs : Sim g st)
    (h : step B st (.mov8 (hostR8 d) (hostR8 s)) len = .ok s1) : Sim (setReg g d (getReg g s)) s1 ∧ Untouched st s1 := by
  have hu : Untouched st s1 := untouched_step B st s1 _ _ h (by intro e; cases e)
    (by simp only [destReg]; intro e; injection e with e; exact hostR8_ne14 d e)
    (fun _ e => by cases e) (fun _ e => by cases e) (fun e => by cases e) (fun e => by cases e)
    (fun _ _ _ _ e => by cases e) (fun _ _ _ e => by cases e)
  have e : step B st (.mov8 (hostR8 d) (hostR8 s)) len =
      .ok (set8 ({ st with pc := st.pc + len } : St β) (hostR8 d) (get8 ({ st with pc := st.pc + len } : St β) (hostR8 s))) := rfl
  rw [e] at h; injection h with h
  have hs0 := sim_pc hs (st.pc + len)
  refine ⟨?_, hu⟩
  rw [← h, get8_sim hs0 s]; exact set8_sim hs0 d _ (getReg_lt g s)

/-- **LD d,s** (all 49 register pairs) -/
theorem sim_ld8 (d s : Reg8) (b1 b2 : Nat) : Simulates (opcodeLd8 d s) b1 b2 := by
  obtain ⟨hdec, hbytes, hop⟩ := table_ld8 d s b1 b2
  refine ⟨_, hdec, ?_⟩
  intro β B g m fuel st st' hsim hpc _ _ hrun
  rw [hbytes] at hrun
  rw [hop]
  show ∃ g', runOp B (.Load8 d s) g m 1 = .ok (g', m, STATUS_NORMAL) ∧ Sim { g' with cycles := g'.cycles + 4 / 4 } st' ∧ Untouched st st'
  rw [show (4 : Nat) / 4 = 1 from rfl]
  refine ⟨advance (setReg g d (getReg g s)) 1, rfl, ?_⟩
  obtain ⟨h1, h2⟩ := sim_body B [(0, .mov8 (hostR8 d) (hostR8 s))] 2 6 10 1 1 g (setReg g d (getReg g s)) rfl
    (straight_one _ _ (fun _ _ e => Instr.noConfusion e) (fun _ e => Instr.noConfusion e)) (by decide) (by decide)
    (body_one B 0 2 _ g _ (fun st s1 len hs h => step_mov8_sim B d s g st s1 len hs h)) fuel st st' hsim (by rw [hpc]; rfl) hrun
  exact ⟨⟨h1.af, h1.hl, h1.de, h1.bc, h1.sp, h1.ip, h1.cy, h1.size⟩, h2⟩

/-! ### LD r,n -/

def opcodeLdI (r : Reg8) : Nat := 0x06 + 8 * r8code r

theorem table_ldi (r : Reg8) (b1 b2 : Nat) :
    decodeCode (Gen.emitOp (opcodeLdI r)) = some ([(0, .mov8i (hostR8 r) 256)] ++ [(2, addIp 2), (6, addCy 2)]) ∧
    bytesOf (Gen.emitOp (opcodeLdI r)) = 10 ∧ Gen.decode (opcodeLdI r) b1 b2 = (.Load8Immediate r b1, 2, 8) := by
  cases r <;> exact ⟨by decide +kernel, by decide +kernel, rfl⟩

theorem step_mov8i_sim (B : BusOps β) (r : Reg8) (b1 : Nat) (hb : b1 < 256) (g : Regs) (st s1 : St β) (len : Nat) (hs : Sim g st)
    (hop : st.op1 = b1) (h : step B st (.mov8i (hostR8 r) 256) len = .ok s1) : Sim (setReg g r b1) s1 ∧ Untouched st s1 := by
  have hu : Untouched st s1 := untouched_step B st s1 _ _ h (by intro e; cases e)
    (by simp only [destReg]; intro e; injection e with e; exact hostR8_ne14 r e)
    (fun _ e => by cases e) (fun _ e => by cases e) (fun e => by cases e) (fun e => by cases e)
    (fun _ _ _ _ e => by cases e) (fun _ _ _ e => by cases e)
  have e : step B st (.mov8i (hostR8 r) 256) len =
      .ok (set8 ({ st with pc := st.pc + len } : St β) (hostR8 r) st.op1) := rfl
  rw [e] at h; injection h with h
  have hs0 := sim_pc hs (st.pc + len)
  refine ⟨?_, hu⟩
  subst hop
  rw [← h]; exact set8_sim hs0 r _ hb

/-- **LD r,n** (7 registers, every operand byte) -/
theorem sim_ldi (r : Reg8) (b1 b2 : Nat) (hb : b1 < 256) : Simulates (opcodeLdI r) b1 b2 := by
  obtain ⟨hdec, hbytes, hop⟩ := table_ldi r b1 b2
  refine ⟨_, hdec, ?_⟩
  intro β B g m fuel st st' hsim hpc hop1 _ hrun
  rw [hbytes] at hrun
  rw [hop]
  show ∃ g', runOp B (.Load8Immediate r b1) g m 2 = .ok (g', m, STATUS_NORMAL) ∧ Sim { g' with cycles := g'.cycles + 8 / 4 } st' ∧ Untouched st st'
  rw [show (8 : Nat) / 4 = 2 from rfl]
  refine ⟨advance (setReg g r b1) 2, rfl, ?_⟩
  -- the operand byte stays in the state's op1 field through the run: the body reads it in its first step
  have hbody : ∀ st0 s1 : St β, Sim g st0 → st0.op1 = b1 → execList B 2 [(0, .mov8i (hostR8 r) 256)] st0 = .ok s1 →
      Sim (setReg g r b1) s1 ∧ Untouched st0 s1 := by
    intro st0 s1 hs ho hex
    obtain ⟨s2, h1, hex⟩ := execList_cons B _ _ _ _ _ _ hex
    have := execList_nil B _ _ _ hex
    subst this
    exact step_mov8i_sim B r b1 hb g st0 s1 _ hs ho h1
  have hst : straight ([(0, .mov8i (hostR8 r) 256)] ++ [(2, addIp 2), (6, addCy 2)]) := by
    intro p hp
    simp only [List.cons_append, List.nil_append, List.mem_cons, List.not_mem_nil, or_false] at hp
    rcases hp with e | e | e <;> subst e <;> exact ⟨fun _ _ e => Instr.noConfusion e, fun _ e => Instr.noConfusion e⟩
  have hex := run_execList B _ 10 rfl hst 3 0 rfl fuel st st' (by rw [hpc]; rfl) hrun
  rw [List.drop_zero] at hex
  obtain ⟨s1, hb1, ht⟩ := execList_append B 10 _ [(0, .mov8i (hostR8 r) 256)] st st' hex
  obtain ⟨hs1, hu1⟩ := hbody st s1 hsim hop1 hb1
  obtain ⟨hs2, hu2⟩ := sim_tail B hs1 2 6 10 2 2 (by decide) (by decide) ht
  exact ⟨⟨hs2.af, hs2.hl, hs2.de, hs2.bc, hs2.sp, hs2.ip, hs2.cy, hs2.size⟩, hu1.trans hu2⟩

/-! ### NOP -/

theorem sim_nop (b1 b2 : Nat) : Simulates 0x00 b1 b2 := by
  have hdec : decodeCode (Gen.emitOp 0x00) = some ([] ++ [(0, addIp 1), (4, addCy 1)]) := by decide +kernel
  have hbytes : bytesOf (Gen.emitOp 0x00) = 8 := by decide +kernel
  refine ⟨_, hdec, ?_⟩
  intro β B g m fuel st st' hsim hpc _ _ hrun
  rw [hbytes] at hrun
  show ∃ g', runOp B .NoOp g m 1 = .ok (g', m, STATUS_NORMAL) ∧ Sim { g' with cycles := g'.cycles + 4 / 4 } st' ∧ Untouched st st'
  rw [show (4 : Nat) / 4 = 1 from rfl]
  refine ⟨advance g 1, rfl, ?_⟩
  obtain ⟨h1, h2⟩ := sim_body B [] 0 4 8 1 1 g g rfl (fun p hp => by cases hp) (by decide) (by decide)
    (fun st s1 hs hex => by have := execList_nil B _ _ _ hex; subst this; exact ⟨hs, Untouched.refl _⟩)
    fuel st st' hsim (by rw [hpc]; rfl) hrun
  exact ⟨⟨h1.af, h1.hl, h1.de, h1.bc, h1.sp, h1.ip, h1.cy, h1.size⟩, h2⟩

/-! ### 16-bit register writes: LD rr,nn / INC rr / DEC rr / LD SP,HL -/

/-- the register pairs that live in one host register's low 16 bits and are written as a whole -/
inductive Pair where | BC | DE | HL | SP
deriving DecidableEq

def Pair.reg : Pair → Reg16 | .BC => .BC | .DE => .DE | .HL => .HL | .SP => .SP
def Pair.host : Pair → Nat | .BC => 3 | .DE => 2 | .HL => 1 | .SP => 12
def Pair.code : Pair → Nat | .BC => 0 | .DE => 1 | .HL => 2 | .SP => 3

theorem toNat_setSz_w (s : St β) (j v : Nat) (hj : j < s.r.size) :
    (get (setSz s .w j v) j).toNat = ((get s j).toNat - (get s j).toNat % 65536 + v % 65536) % 2 ^ 64 := by
  simp only [setSz]
  rw [get_set_eq _ _ _ hj, BitVec.toNat_ofNat]

/-- a host state whose registers other than `p.host` are those of `s` and whose `p.host` holds `v` in its low 16 bits -/
theorem sim_set16 {g : Regs} {s s1 : St β} (h : Sim g s) (p : Pair) (v : Nat)
    (hf : ∀ j, p.host ≠ j → get s1 j = get s j) (hv : (get s1 p.host).toNat % 65536 = v % 65536) (hsz : s1.r.size = 16) :
    Sim (setReg16 g p.reg v) s1 := by
  cases p
  all_goals
    simp only [Pair.host] at hf hv
    simp only [Pair.reg, setReg16]
  · exact ⟨by rw [hf 0 (by decide)]; exact h.af, by rw [hf 1 (by decide)]; exact h.hl, by rw [hf 2 (by decide)]; exact h.de,
      hv, by rw [hf 12 (by decide)]; exact h.sp, by rw [hf 13 (by decide)]; exact h.ip, by rw [hf 15 (by decide)]; exact h.cy, hsz⟩
  · exact ⟨by rw [hf 0 (by decide)]; exact h.af, by rw [hf 1 (by decide)]; exact h.hl, hv, by rw [hf 3 (by decide)]; exact h.bc,
      by rw [hf 12 (by decide)]; exact h.sp, by rw [hf 13 (by decide)]; exact h.ip, by rw [hf 15 (by decide)]; exact h.cy, hsz⟩
  · exact ⟨by rw [hf 0 (by decide)]; exact h.af, hv, by rw [hf 2 (by decide)]; exact h.de, by rw [hf 3 (by decide)]; exact h.bc,
      by rw [hf 12 (by decide)]; exact h.sp, by rw [hf 13 (by decide)]; exact h.ip, by rw [hf 15 (by decide)]; exact h.cy, hsz⟩
  · exact ⟨by rw [hf 0 (by decide)]; exact h.af, by rw [hf 1 (by decide)]; exact h.hl, by rw [hf 2 (by decide)]; exact h.de,
      by rw [hf 3 (by decide)]; exact h.bc, hv, by rw [hf 13 (by decide)]; exact h.ip, by rw [hf 15 (by decide)]; exact h.cy, hsz⟩

theorem pair_host_lt (p : Pair) : p.host < 16 := by cases p <;> decide
theorem pair_host_ne14 (p : Pair) : p.host ≠ 14 := by cases p <;> decide

theorem getReg16_sim {g : Regs} {s : St β} (h : Sim g s) (p : Pair) : (get s p.host).toNat % 65536 = getReg16 g p.reg := by
  cases p <;> simp only [Pair.host, Pair.reg, getReg16, u16]
  · exact h.bc
  · exact h.de
  · exact h.hl
  · exact h.sp

/-- a step of an instruction whose only destination is the host register of `p` and that is neither a call nor a stack
instruction -/
theorem step16_sim (B : BusOps β) (p : Pair) (ins : Instr) (v : Nat) (g : Regs) (st s1 : St β) (len : Nat) (hs : Sim g st)
    (h : step B st ins len = .ok s1) (hd : destReg ins = some p.host) (hc : ins ≠ .callRax)
    (h1 : ∀ r, ins ≠ .push r) (h2 : ∀ r, ins ≠ .pop r) (h3 : ins ≠ .pushf) (h4 : ins ≠ .popf)
    (h5 : ∀ sz b d src, ins ≠ .store sz b d src) (h6 : ∀ b d src, ins ≠ .store8 b d src)
    (hv : (get s1 p.host).toNat % 65536 = v % 65536) : Sim (setReg16 g p.reg v) s1 ∧ Untouched st s1 := by
  have hu : Untouched st s1 := untouched_step B st s1 _ _ h hc
    (by rw [hd]; intro e; injection e with e; exact pair_host_ne14 p e) h1 h2 h3 h4 h5 h6
  have hf : ∀ j, p.host ≠ j → get s1 j = get st j := fun j hj =>
    step_frame B st s1 ins len j h hc (by rw [hd]; intro e; injection e with e; exact hj e)
  obtain ⟨hsz, _⟩ := step_size_pc B st s1 _ _ h
  exact ⟨sim_set16 hs p v hf hv (by rw [hsz]; exact hs.size), hu⟩

/-! #### INC rr / DEC rr -/

def opcodeInc16 (p : Pair) : Nat := 0x03 + 16 * p.code
def opcodeDec16 (p : Pair) : Nat := 0x0b + 16 * p.code
def incLen (p : Pair) : Nat := match p with | .SP => 4 | _ => 3

theorem table_incdec16 (p : Pair) (b1 b2 : Nat) :
    decodeCode (Gen.emitOp (opcodeInc16 p)) = some ([(0, .incdec16 false p.host)] ++ [(incLen p, addIp 1), (incLen p + 4, addCy 2)]) ∧
    bytesOf (Gen.emitOp (opcodeInc16 p)) = incLen p + 8 ∧ Gen.decode (opcodeInc16 p) b1 b2 = (.Increment16 p.reg, 1, 8) ∧
    decodeCode (Gen.emitOp (opcodeDec16 p)) = some ([(0, .incdec16 true p.host)] ++ [(incLen p, addIp 1), (incLen p + 4, addCy 2)]) ∧
    bytesOf (Gen.emitOp (opcodeDec16 p)) = incLen p + 8 ∧ Gen.decode (opcodeDec16 p) b1 b2 = (.Decrement16 p.reg, 1, 8) := by
  cases p <;> exact ⟨by decide +kernel, by decide +kernel, rfl, by decide +kernel, by decide +kernel, rfl⟩

theorem codeOk_one (p : Pair) (ins : Instr) (n c : Nat) :
    codeOk ([(0, ins)] ++ [(incLen p, addIp n), (incLen p + 4, addCy c)]) (incLen p + 8) = true := by
  cases p <;> rfl

theorem sim_incdec16 (p : Pair) (dec : Bool) (b1 b2 : Nat) :
    Simulates (if dec then opcodeDec16 p else opcodeInc16 p) b1 b2 := by
  obtain ⟨hdec, hbytes, hop, hdec', hbytes', hop'⟩ := table_incdec16 p b1 b2
  have main : ∀ (β : Type) (B : BusOps β) (g : Regs) (fuel : Nat) (st st' : St β), Sim g st → st.pc = 0 →
      run B ([(0, .incdec16 dec p.host)] ++ [(incLen p, addIp 1), (incLen p + 4, addCy 2)]) (incLen p + 8) fuel st = .ok st' →
      Sim { (setReg16 g p.reg (u16 (getReg16 g p.reg + (if dec then 65535 else 1)))) with
              ip := g.ip + 1, cycles := g.cycles + 2 } st' ∧ Untouched st st' := by
    intro β B g fuel st st' hsim hpc hrun
    have hb := body_one B 0 (incLen p) (.incdec16 dec p.host) g (setReg16 g p.reg (u16 (getReg16 g p.reg + (if dec then 65535 else 1))))
      (fun st s1 len hs h => by
        have hv := step_incdec16 B st s1 dec p.host len (pair_host_lt p) hs.size h
        refine step16_sim B p _ _ g st s1 len hs h rfl (by intro e; cases e) (fun _ e => by cases e) (fun _ e => by cases e)
          (fun e => by cases e) (fun e => by cases e) (fun _ _ _ _ e => by cases e) (fun _ _ _ e => by cases e) ?_
        rw [hv, ← getReg16_sim hs p]
        unfold u16; omega)
    obtain ⟨h1, h2⟩ := sim_body B [(0, .incdec16 dec p.host)] (incLen p) (incLen p + 4) (incLen p + 8) 1 2 g _ (codeOk_one p _ 1 2)
      (straight_one _ _ (fun _ _ e => Instr.noConfusion e) (fun _ e => Instr.noConfusion e)) (by decide) (by decide) hb
      fuel st st' hsim (by rw [hpc]; rfl) hrun
    have hip : (setReg16 g p.reg (u16 (getReg16 g p.reg + (if dec then 65535 else 1)))).ip = g.ip := by cases p <;> simp only [Pair.reg, setReg16]
    have hcy : (setReg16 g p.reg (u16 (getReg16 g p.reg + (if dec then 65535 else 1)))).cycles = g.cycles := by cases p <;> simp only [Pair.reg, setReg16]
    exact ⟨⟨h1.af, h1.hl, h1.de, h1.bc, h1.sp, by have := h1.ip; rw [hip] at this; exact this,
      by have := h1.cy; rw [hcy] at this; exact this, h1.size⟩, h2⟩
  cases dec
  · simp only [Bool.false_eq_true, if_false]
    refine ⟨_, hdec, ?_⟩
    intro β B g m fuel st st' hsim hpc _ _ hrun
    rw [hbytes] at hrun
    rw [hop]
    show ∃ g', runOp B (.Increment16 p.reg) g m 1 = .ok (g', m, STATUS_NORMAL) ∧ Sim { g' with cycles := g'.cycles + 8 / 4 } st' ∧ Untouched st st'
    rw [show (8 : Nat) / 4 = 2 from rfl]
    refine ⟨advance (setReg16 g p.reg (u16 (getReg16 g p.reg + 1))) 1, rfl, ?_⟩
    obtain ⟨h1, h2⟩ := main β B g fuel st st' hsim hpc hrun
    simp only [Bool.false_eq_true, if_false] at h1
    have hip : (setReg16 g p.reg (u16 (getReg16 g p.reg + 1))).ip = g.ip := by cases p <;> simp only [Pair.reg, setReg16]
    have hcy : (setReg16 g p.reg (u16 (getReg16 g p.reg + 1))).cycles = g.cycles := by cases p <;> simp only [Pair.reg, setReg16]
    exact ⟨⟨h1.af, h1.hl, h1.de, h1.bc, h1.sp, by show _ = ((setReg16 g p.reg _).ip + 1) % 65536; rw [hip]; exact h1.ip,
      by show _ = ((setReg16 g p.reg _).cycles + 2) % 65536; rw [hcy]; exact h1.cy, h1.size⟩, h2⟩
  · simp only [if_true]
    refine ⟨_, hdec', ?_⟩
    intro β B g m fuel st st' hsim hpc _ _ hrun
    rw [hbytes'] at hrun
    rw [hop']
    show ∃ g', runOp B (.Decrement16 p.reg) g m 1 = .ok (g', m, STATUS_NORMAL) ∧ Sim { g' with cycles := g'.cycles + 8 / 4 } st' ∧ Untouched st st'
    rw [show (8 : Nat) / 4 = 2 from rfl]
    refine ⟨advance (setReg16 g p.reg (u16 (getReg16 g p.reg + 65535))) 1, rfl, ?_⟩
    obtain ⟨h1, h2⟩ := main β B g fuel st st' hsim hpc hrun
    simp only [if_true] at h1
    have hip : (setReg16 g p.reg (u16 (getReg16 g p.reg + 65535))).ip = g.ip := by cases p <;> simp only [Pair.reg, setReg16]
    have hcy : (setReg16 g p.reg (u16 (getReg16 g p.reg + 65535))).cycles = g.cycles := by cases p <;> simp only [Pair.reg, setReg16]
    exact ⟨⟨h1.af, h1.hl, h1.de, h1.bc, h1.sp, by show _ = ((setReg16 g p.reg _).ip + 1) % 65536; rw [hip]; exact h1.ip,
      by show _ = ((setReg16 g p.reg _).cycles + 2) % 65536; rw [hcy]; exact h1.cy, h1.size⟩, h2⟩

/-! #### LD rr,nn -/

def opcodeLd16 (p : Pair) : Nat := 0x01 + 16 * p.code
def ld16Len (p : Pair) : Nat := match p with | .SP => 5 | _ => 4

theorem table_ld16 (p : Pair) (b1 b2 : Nat) :
    decodeCode (Gen.emitOp (opcodeLd16 p)) = some ([(0, .movi16 p.host [256, 257])] ++ [(ld16Len p, addIp 3), (ld16Len p + 4, addCy 3)]) ∧
    bytesOf (Gen.emitOp (opcodeLd16 p)) = ld16Len p + 8 ∧ Gen.decode (opcodeLd16 p) b1 b2 = (.Load16 p.reg (b1 + 256 * b2), 3, 12) := by
  cases p <;> exact ⟨by decide +kernel, by decide +kernel, rfl⟩

theorem sim_ld16 (p : Pair) (b1 b2 : Nat) : Simulates (opcodeLd16 p) b1 b2 := by
  obtain ⟨hdec, hbytes, hop⟩ := table_ld16 p b1 b2
  refine ⟨_, hdec, ?_⟩
  intro β B g m fuel st st' hsim hpc hop1 hop2 hrun
  rw [hbytes] at hrun
  rw [hop]
  show ∃ g', runOp B (.Load16 p.reg (b1 + 256 * b2)) g m 3 = .ok (g', m, STATUS_NORMAL) ∧ Sim { g' with cycles := g'.cycles + 12 / 4 } st' ∧ Untouched st st'
  rw [show (12 : Nat) / 4 = 3 from rfl]
  refine ⟨advance (setReg16 g p.reg (b1 + 256 * b2)) 3, rfl, ?_⟩
  have hst : straight ([(0, .movi16 p.host [256, 257])] ++ [(ld16Len p, addIp 3), (ld16Len p + 4, addCy 3)]) := by
    intro q hq
    simp only [List.cons_append, List.nil_append, List.mem_cons, List.not_mem_nil, or_false] at hq
    rcases hq with e | e | e <;> subst e <;> exact ⟨fun _ _ e => Instr.noConfusion e, fun _ e => Instr.noConfusion e⟩
  have hok : codeOk ([(0, .movi16 p.host [256, 257])] ++ [(ld16Len p, addIp 3), (ld16Len p + 4, addCy 3)]) (ld16Len p + 8) = true := by
    cases p <;> rfl
  have hex := run_execList B _ _ hok hst 3 0 rfl fuel st st' (by rw [hpc]; cases p <;> rfl) hrun
  rw [List.drop_zero] at hex
  obtain ⟨s1, hb1, ht⟩ := execList_append B _ _ [(0, .movi16 p.host [256, 257])] st st' hex
  obtain ⟨s2, h1, hex2⟩ := execList_cons B _ _ _ _ _ _ hb1
  have := execList_nil B _ _ _ hex2
  subst this
  have hv : (get s1 p.host).toNat % 65536 = (b1 + 256 * b2) % 65536 := by
    have e : step B st (.movi16 p.host [256, 257]) (headOff (headOff (ld16Len p + 8) [(ld16Len p, addIp 3), (ld16Len p + 4, addCy 3)]) [] - 0) =
        .ok (setSz ({ st with pc := st.pc + (headOff (headOff (ld16Len p + 8) [(ld16Len p, addIp 3), (ld16Len p + 4, addCy 3)]) [] - 0) } : St β) .w p.host
              (st.op1 + 256 * (st.op2 + 256 * 0))) := rfl
    rw [e] at h1; injection h1 with h1
    rw [← h1, toNat_setSz_w _ _ _ (by show p.host < st.r.size; rw [hsim.size]; exact pair_host_lt p), hop1, hop2]
    have := (get st p.host).isLt
    show ((get st p.host).toNat - (get st p.host).toNat % 65536 + (b1 + 256 * (b2 + 256 * 0)) % 65536) % 2 ^ 64 % 65536 = _
    omega
  obtain ⟨hs1, hu1⟩ := step16_sim B p _ (b1 + 256 * b2) g st s1 _ hsim h1 rfl (by intro e; cases e) (fun _ e => by cases e)
    (fun _ e => by cases e) (fun e => by cases e) (fun e => by cases e) (fun _ _ _ _ e => by cases e) (fun _ _ _ e => by cases e) hv
  obtain ⟨hs2, hu2⟩ := sim_tail B hs1 _ _ _ 3 3 (by decide) (by decide) ht
  have hip : (setReg16 g p.reg (b1 + 256 * b2)).ip = g.ip := by cases p <;> simp only [Pair.reg, setReg16]
  have hcy : (setReg16 g p.reg (b1 + 256 * b2)).cycles = g.cycles := by cases p <;> simp only [Pair.reg, setReg16]
  exact ⟨⟨hs2.af, hs2.hl, hs2.de, hs2.bc, hs2.sp, hs2.ip, hs2.cy, hs2.size⟩, hu1.trans hu2⟩

/-! #### LD SP,HL -/

theorem sim_ld_sp_hl (b1 b2 : Nat) : Simulates 0xf9 b1 b2 := by
  have hdec : decodeCode (Gen.emitOp 0xf9) = some ([(0, .mov .w 12 1)] ++ [(4, addIp 1), (8, addCy 2)]) := by decide +kernel
  have hbytes : bytesOf (Gen.emitOp 0xf9) = 12 := by decide +kernel
  refine ⟨_, hdec, ?_⟩
  intro β B g m fuel st st' hsim hpc _ _ hrun
  rw [hbytes] at hrun
  show ∃ g', runOp B .LoadToStackPointer g m 1 = .ok (g', m, STATUS_NORMAL) ∧ Sim { g' with cycles := g'.cycles + 8 / 4 } st' ∧ Untouched st st'
  rw [show (8 : Nat) / 4 = 2 from rfl]
  refine ⟨advance (setReg16 g .SP (getReg16 g .HL)) 1, rfl, ?_⟩
  obtain ⟨h1, h2⟩ := sim_body B [(0, .mov .w 12 1)] 4 8 12 1 2 g (setReg16 g .SP (getReg16 g .HL)) rfl
    (straight_one _ _ (fun _ _ e => Instr.noConfusion e) (fun _ e => Instr.noConfusion e)) (by decide) (by decide)
    (body_one B 0 4 _ g _ (fun st s1 len hs h => by
      refine step16_sim B .SP _ _ g st s1 len hs h rfl (by intro e; cases e) (fun _ e => by cases e) (fun _ e => by cases e)
          (fun e => by cases e) (fun e => by cases e) (fun _ _ _ _ e => by cases e) (fun _ _ _ e => by cases e) ?_
      have e : step B st (.mov .w 12 1) len =
          .ok (setSz ({ st with pc := st.pc + len } : St β) .w 12 ((get st 1).toNat % 2 ^ 16)) := rfl
      rw [e] at h; injection h with h
      show (get s1 12).toNat % 65536 = getReg16 g .HL % 65536
      rw [← h, toNat_setSz_w _ _ _ (by show 12 < st.r.size; rw [hs.size]; decide)]
      have := (get st 12).isLt
      have hh := hs.hl
      show ((get st 12).toNat - (get st 12).toNat % 65536 + (get st 1).toNat % 2 ^ 16 % 65536) % 2 ^ 64 % 65536 = u16 g.hl % 65536
      unfold u16; omega))
    fuel st st' hsim (by rw [hpc]; rfl) hrun
  exact ⟨⟨h1.af, h1.hl, h1.de, h1.bc, h1.sp, h1.ip, h1.cy, h1.size⟩, h2⟩

end GbVerif.X86
