import GbVerif.Proofs.CartFrame
import GbVerif.Proofs.InterpLen
import GbVerif.Proofs.BusWf
import GbVerif.Model.Cache
import GbVerif.Proofs.Enum
/-!
The interpreter and the translator walk a ROM block the same way: the guest bytes the interpreter decodes while it
executes a block located in ROM (no store below 0x8000 in it) are exactly the bytes `translate_code_block` consumes
when it translates that block under the bank mapped at entry — same instruction boundaries, same block end.
-/
namespace GbVerif.CoreProofs
open GbVerif GbVerif.Interp GbVerif.BusProofs

theorem and_3fff' (x : Nat) : x &&& 0x3fff = x % 16384 := Nat.and_two_pow_sub_one_eq_mod x 14
theorem and_ffff' (x : Nat) : x &&& 0xffff = x % 65536 := Nat.and_two_pow_sub_one_eq_mod x 16

theorem canDynarec_lt {a : Nat} (h : Cpu.canDynarec a = true) : a < 0x8000 ∧ a % 16384 < 0x3ffe := by
  simp only [Cpu.canDynarec, Bool.and_eq_true, decide_eq_true_eq, and_3fff'] at h
  exact h

theorem sliceByte_lo {s : Bus.State} {ip k : Nat} (h1 : ip < 0x4000) (h2 : ip + k < s.romLen) :
    Cpu.sliceByte s ip k = .ok (s.rom (ip + k)) := by
  unfold Cpu.sliceByte; rw [if_pos h1, if_pos h2]

theorem sliceByte_hi {s : Bus.State} {ip k : Nat} (h0 : ¬ ip < 0x4000) (h1 : ip < 0x8000)
    (h2 : Cart.getRomBank s.cart * 0x4000 + (ip &&& 0x3fff) + k < s.romLen) :
    Cpu.sliceByte s ip k = .ok (s.rom (Cart.getRomBank s.cart * 0x4000 + (ip &&& 0x3fff) + k)) := by
  unfold Cpu.sliceByte
  rw [if_neg h0, if_pos h1]
  show (if Cart.getRomBank s.cart * 0x4000 + (ip &&& 0x3fff) + k < s.romLen then _ else _) = _
  rw [if_pos h2]

theorem romAt_lo {rom : Nat → Nat} {bank a : Nat} (h : a < 0x4000) : Cache.romAt rom bank a = rom a := by
  unfold Cache.romAt; rw [if_pos h]

theorem romAt_hi {rom : Nat → Nat} {bank a : Nat} (h : ¬ a < 0x4000) : Cache.romAt rom bank a = rom (bank * 0x4000 + (a - 0x4000)) := by
  unfold Cache.romAt; rw [if_neg h]

/-- byte `k` of the slice at a banked ROM address, with the index written as the translator writes it -/
theorem sliceByte_hi' {s : Bus.State} {ip k : Nat} (h0 : ¬ ip < 0x4000) (h1 : ip < 0x8000)
    (h2 : Cart.getRomBank s.cart * 0x4000 + (ip + k - 0x4000) < s.romLen) :
    Cpu.sliceByte s ip k = .ok (Cache.romAt s.rom (Cart.getRomBank s.cart) (ip + k)) := by
  have ea : ip &&& 0x3fff = ip - 0x4000 := by rw [and_3fff']; omega
  have e : ∀ B : Nat, B + (ip - 0x4000) + k = B + (ip + k - 0x4000) := by intro B; omega
  rw [romAt_hi (by omega), ← e, ← ea]
  exact sliceByte_hi h0 h1 (by rw [ea, e]; exact h2)

/-- the three bytes `run_next_op` decodes at a translatable ROM address are the ROM bytes under the mapped bank -/
theorem fetch3_rom {s : Bus.State} (wf : WF s) {ip : Nat} (hd : Cpu.canDynarec ip = true) :
    Cpu.fetch3 s ip = .ok (Cache.romAt s.rom (Cart.getRomBank s.cart) ip, Cache.romAt s.rom (Cart.getRomBank s.cart) (ip + 1),
      Cache.romAt s.rom (Cart.getRomBank s.cart) (ip + 2)) := by
  obtain ⟨h1, h2⟩ := canDynarec_lt hd
  have hb := getRomBank_lt s.cart wf.banks
  have hl := wf.romLen
  have hbanks := wf.banks
  unfold Cpu.fetch3
  by_cases hlo : ip < 0x4000
  · have hs : Cpu.sliceLen ip = .ok (0x4000 - ip) := by unfold Cpu.sliceLen; rw [if_pos hlo]
    rw [hs]
    simp only [bind, Except.bind]
    rw [if_neg (by omega), sliceByte_lo hlo (by omega), sliceByte_lo hlo (by omega), sliceByte_lo hlo (by omega)]
    rw [romAt_lo hlo, romAt_lo (by omega), romAt_lo (by omega)]
    rfl
  · have hs : Cpu.sliceLen ip = .ok (0x4000 - (ip &&& 0x3fff)) := by unfold Cpu.sliceLen; rw [if_neg hlo, if_pos h1]
    rw [hs]
    have hm : Cart.getRomBank s.cart * 0x4000 + 0x4000 ≤ s.cart.romBanks * 0x4000 := by
      have : Cart.getRomBank s.cart + 1 ≤ s.cart.romBanks := hb
      calc Cart.getRomBank s.cart * 0x4000 + 0x4000 = (Cart.getRomBank s.cart + 1) * 0x4000 := by rw [Nat.add_mul, Nat.one_mul]
        _ ≤ s.cart.romBanks * 0x4000 := Nat.mul_le_mul_right _ this
    have ea : ip &&& 0x3fff = ip - 0x4000 := by rw [and_3fff']; omega
    simp only [bind, Except.bind]
    have hB : ∀ k, k ≤ 2 → Cart.getRomBank s.cart * 0x4000 + (ip + k - 0x4000) < s.romLen := by
      intro k hk
      omega
    rw [if_neg (by rw [ea]; omega), sliceByte_hi' hlo h1 (hB 0 (by omega)), sliceByte_hi' hlo h1 (hB 1 (by omega)),
      sliceByte_hi' hlo h1 (hB 2 (by omega))]
    rfl


macro "wrr" h:ident : tactic => `(tactic| (
  obtain ⟨x, _, $h:ident⟩ := bind_ok_elim $h:ident
  injection $h:ident with $h:ident; subst $h:ident; exact ⟨rfl, rfl⟩))

/-- no bus write changes the ROM image -/
theorem write_romfields {s s' : Bus.State} {a v : Nat} (h : Bus.write s a v = .ok s') : s'.rom = s.rom ∧ s'.romLen = s.romLen := by
  unfold Bus.write at h
  by_cases h1 : a < 0x8000
  · rw [if_pos h1] at h; injection h with h; subst h; exact ⟨rfl, rfl⟩
  rw [if_neg h1] at h
  by_cases h2 : a < 0xa000
  · rw [if_pos h2] at h; wrr h
  rw [if_neg h2] at h
  by_cases h3 : a < 0xc000
  · rw [if_pos h3] at h
    simp only [] at h
    split at h
    · injection h with h; subst h; exact ⟨rfl, rfl⟩
    · split at h
      · wrr h
      · injection h with h; subst h; exact ⟨rfl, rfl⟩
  rw [if_neg h3] at h
  by_cases h4 : a < 0xd000
  · rw [if_pos h4] at h; wrr h
  rw [if_neg h4] at h
  by_cases h5 : a < 0xe000
  · rw [if_pos h5] at h; wrr h
  rw [if_neg h5] at h
  by_cases h6 : a < 0xfe00
  · rw [if_pos h6] at h; injection h with h; subst h; exact ⟨rfl, rfl⟩
  rw [if_neg h6] at h
  by_cases h7 : a < 0xfea0
  · rw [if_pos h7] at h; wrr h
  rw [if_neg h7] at h
  by_cases h8 : a < 0xff00
  · rw [if_pos h8] at h; injection h with h; subst h; exact ⟨rfl, rfl⟩
  rw [if_neg h8] at h
  by_cases h9 : a < 0xff80
  · rw [if_pos h9] at h
    split at h
    · injection h with h; subst h; exact ⟨rfl, rfl⟩
    · injection h with h; subst h; exact ⟨rfl, rfl⟩
  rw [if_neg h9] at h
  split at h
  · injection h with h; subst h; exact ⟨rfl, rfl⟩
  · wrr h

/-- what a guarded `run_op` keeps: the ROM image, the cartridge registers, well-formedness -/
def Keeps (s m : Bus.State) : Prop := m.rom = s.rom ∧ m.cart = s.cart ∧ WF m

theorem runOp_hi_keeps {op : Op} {r r' : Regs} {s s' : Bus.State} {len st : Nat} (wf : WF s)
    (h : runOp hiBus op r s len = .ok (r', s', st)) : Keeps s s' := by
  refine runOp_inv hiBus (Keeps s) ?_ op r s len r' s' st h ⟨rfl, rfl, wf⟩
  intro m a v m' hw hp
  have hc := hiBus_write hw
  rw [hiBus, guard_write_iff] at hw
  exact ⟨(write_romfields hw.2).1.trans hp.1, hc.trans hp.2.1, wf_write hp.2.2 hw.2⟩

/-- the block loop on the guarded bus, recording the guest bytes of every instruction it executes -/
def walkHi (start : Nat) (r : Regs) (s : Bus.State) (status : Nat) :
    Nat → Except Bus.Panic ((Regs × Bus.State × Nat) × List Nat)
  | 0 => .error (.explicit "fuel")
  | fuel+1 =>
    if start < 0x8000 && Cpu.romBlockMustEnd start r.ip then pure ((r, s, status), [])
    else do
      let (b0, b1, b2) ← Cpu.fetch3 s r.ip
      let (r', s', st, stop) ← runNextOpHi r s
      let bytes := (List.range (Gen.decode b0 b1 b2).2.1).map fun k => [b0, b1, b2].getD k 0
      if stop then pure ((r', s', st), bytes)
      else do
        let (res, tr) ← walkHi start r' s' st fuel
        pure (res, bytes ++ tr)


theorem decode_len_le_3 : ∀ b0, b0 < 2^8 → ∀ b1 b2, b1 < 2^8 → (Gen.decode b0 b1 b2).2.1 ≤ 3 := by
  intro b0 h0 b1 b2 h1
  have ha := GbVerif.Enum.forall_lt_of_allRange (fun b => decide (Gen.opLen b ≤ 3)) 8 (by decide +kernel) b0 h0
  have hb := GbVerif.Enum.forall_lt_of_allRange (fun b => decide (Gen.cbOpLen b ≤ 3)) 8 (by decide +kernel) b1 h1
  unfold Gen.decode
  split
  · exact of_decide_eq_true hb
  · exact of_decide_eq_true ha

/-- the first `len ≤ 3` of the three fetched bytes are the ROM bytes at `index …` -/
theorem bytes_eq (f : Nat → Nat) (index len : Nat) (hl : len ≤ 3) :
    ((List.range len).map fun k => [f index, f (index + 1), f (index + 2)].getD k 0) = (List.range len).map fun k => f (index + k) := by
  apply List.map_congr_left
  intro k hk
  have hk' : k < len := List.mem_range.mp hk
  match k, hk' with
  | 0, _ => rfl
  | 1, _ => rfl
  | 2, _ => rfl
  | k+3, h => omega

/-- the guarded walk is the real block loop -/
theorem walkHi_real (start : Nat) : ∀ (fuel : Nat) (r : Regs) (s : Bus.State) (st : Nat)
    (res : Regs × Bus.State × Nat) (bytes : List Nat),
    walkHi start r s st fuel = .ok (res, bytes) → Cpu.runCodeBlockAux start r s st fuel = .ok res := by
  intro fuel
  induction fuel with
  | zero => intro r s st res bytes h; cases h
  | succ n ih =>
    intro r s st res bytes h
    rw [walkHi] at h
    rw [Cpu.runCodeBlockAux]
    split at h
    · rename_i hc
      rw [if_pos hc]
      simp only [pure, Except.pure, Except.ok.injEq, Prod.mk.injEq] at h
      obtain ⟨rfl, _⟩ := h
      rfl
    · rename_i hc
      rw [if_neg hc]
      obtain ⟨⟨b0, b1, b2⟩, _, h⟩ := bind_ok_elim h
      obtain ⟨⟨r1, s1, st1, stop⟩, h1, h⟩ := bind_ok_elim h
      obtain ⟨hreal, _⟩ := runNextOpHi_spec h1
      simp only [bind, Except.bind, hreal]
      simp only [] at h ⊢
      split at h
      · rename_i hs
        simp only [hs, if_true]
        simp only [pure, Except.pure, Except.ok.injEq, Prod.mk.injEq] at h
        obtain ⟨rfl, _⟩ := h
        rfl
      · rename_i hs
        simp only [hs, Bool.false_eq_true, if_false]
        obtain ⟨⟨res', tr'⟩, h2, h⟩ := bind_ok_elim h
        simp only [pure, Except.pure, Except.ok.injEq, Prod.mk.injEq] at h
        obtain ⟨rfl, _⟩ := h
        exact ih _ _ _ _ _ h2


theorem romAt_lt {rom : Nat → Nat} (hrom : ∀ i, rom i < 256) (bank a : Nat) : Cache.romAt rom bank a < 256 := by
  unfold Cache.romAt; split <;> exact hrom _

/-- a block continues at `ip` only if `ip` is translatable (the start is by assumption) -/
theorem dyn_of_not_end {start ip : Nat} (hd : Cpu.canDynarec start = true) (h : Cpu.romBlockMustEnd start ip = false) :
    Cpu.canDynarec ip = true := by
  unfold Cpu.romBlockMustEnd at h
  by_cases he : ip = start
  · rw [he]; exact hd
  · have : (ip != start) = true := by simpa using he
    rw [this, Bool.true_and] at h
    cases hc : Cpu.canDynarec ip with
    | true => rfl
    | false => rw [hc] at h; simp at h

/-- **same walk**: the bytes the interpreter decodes while it runs a ROM block (on the guarded bus) are the bytes the
translator consumes for that block under the bank mapped at entry -/
theorem walkHi_source (start : Nat) (hs : start < 0x8000) (hd : Cpu.canDynarec start = true) :
    ∀ (fuel : Nat) (r : Regs) (s : Bus.State) (st : Nat) (res : Regs × Bus.State × Nat) (bytes : List Nat),
    WF s → (∀ i, s.rom i < 256) → walkHi start r s st fuel = .ok (res, bytes) →
    bytes = Cache.sourceBytes s.rom (Cart.getRomBank s.cart) start r.ip fuel := by
  intro fuel
  induction fuel with
  | zero => intro r s st res bytes _ _ h; cases h
  | succ n ih =>
    intro r s st res bytes wf hrom h
    rw [walkHi] at h
    rw [Cache.sourceBytes]
    have hs' : decide (start < 0x8000) = true := by simpa using hs
    cases hme : Cpu.romBlockMustEnd start r.ip with
    | true =>
      rw [hme] at h
      simp only [hs', Bool.and_self, if_true, pure, Except.pure, Except.ok.injEq, Prod.mk.injEq] at h
      simp only [if_true]
      exact h.2.symm
    | false =>
      rw [hme] at h
      simp only [Bool.and_false, Bool.false_eq_true, if_false] at h ⊢
      have hdyn := dyn_of_not_end hd hme
      obtain ⟨hip, hmod⟩ := canDynarec_lt hdyn
      have hf := fetch3_rom wf hdyn
      rw [hf] at h
      simp only [bind, Except.bind] at h
      -- the three bytes
      generalize hb0 : Cache.romAt s.rom (Cart.getRomBank s.cart) r.ip = b0 at h hf ⊢
      generalize hb1 : Cache.romAt s.rom (Cart.getRomBank s.cart) (r.ip + 1) = b1 at h hf ⊢
      generalize hb2 : Cache.romAt s.rom (Cart.getRomBank s.cart) (r.ip + 2) = b2 at h hf ⊢
      have hl3 : (Gen.decode b0 b1 b2).2.1 ≤ 3 :=
        decode_len_le_3 b0 (by rw [← hb0]; exact romAt_lt hrom _ _) b1 b2 (by rw [← hb1]; exact romAt_lt hrom _ _)
      cases h1 : runNextOpHi r s with
      | error e => rw [h1] at h; cases h
      | ok x =>
        obtain ⟨r1, s1, st1, stop⟩ := x
        rw [h1] at h
        simp only [] at h
        -- what runNextOpHi did
        unfold runNextOpHi at h1
        rw [hf] at h1
        simp only [bind, Except.bind] at h1
        generalize hdec : Gen.decode b0 b1 b2 = d at h1 h hl3 ⊢
        obtain ⟨op, len, clocks⟩ := d
        simp only [] at h1 h hl3 ⊢
        cases h2 : runOp hiBus op r s len with
        | error e => rw [h2] at h1; cases h1
        | ok y =>
          obtain ⟨r0, s0, st0⟩ := y
          rw [h2] at h1
          simp only [pure, Except.pure, Except.ok.injEq, Prod.mk.injEq] at h1
          obtain ⟨hr1, hs1, _, hstop⟩ := h1
          have hbytes : ((List.range len).map fun k => [b0, b1, b2].getD k 0) =
              (List.range len).map fun k => Cache.romAt s.rom (Cart.getRomBank s.cart) (r.ip + k) := by
            have := bytes_eq (Cache.romAt s.rom (Cart.getRomBank s.cart)) r.ip len hl3
            rw [hb0, hb1, hb2] at this
            exact this
          cases hstop' : Gen.isBlockEnd op with
          | true =>
            rw [← hstop, hstop'] at h
            simp only [if_true, pure, Except.pure, Except.ok.injEq, Prod.mk.injEq] at h
            simp only [if_true]
            rw [← h.2, hbytes]
          | false =>
            rw [← hstop, hstop'] at h
            simp only [Bool.false_eq_true, if_false] at h ⊢
            cases h3 : walkHi start r1 s1 st1 n with
            | error e => rw [h3] at h; cases h
            | ok z =>
              obtain ⟨res', tr⟩ := z
              rw [h3] at h
              simp only [pure, Except.pure, Except.ok.injEq, Prod.mk.injEq] at h
              have hk := runOp_hi_keeps wf h2
              have hipn : r0.ip = r.ip + len := runOp_ip hiBus op r s len r0 s0 st0 hstop' h2
              have hr1ip : r1.ip = r.ip + len := by
                rw [← hr1]
                show r0.ip &&& 0xffff = _
                rw [hipn, and_ffff']
                exact Nat.mod_eq_of_lt (by omega)
              have := ih r1 s1 st1 res' tr (by rw [← hs1]; exact hk.2.2) (by rw [← hs1, hk.1]; exact hrom) h3
              rw [← hs1, hk.1, hk.2.1, hr1ip] at this
              rw [← h.2, hbytes, this]


/-- more fuel does not change a block run that completed -/
theorem runCodeBlockAux_fuel (start : Nat) : ∀ (fuel k : Nat) (r : Regs) (s : Bus.State) (st : Nat) (res : Regs × Bus.State × Nat),
    Cpu.runCodeBlockAux start r s st fuel = .ok res → Cpu.runCodeBlockAux start r s st (fuel + k) = .ok res := by
  intro fuel
  induction fuel with
  | zero => intro k r s st res h; cases h
  | succ n ih =>
    intro k r s st res h
    rw [show n + 1 + k = (n + k) + 1 by omega]
    rw [Cpu.runCodeBlockAux] at h ⊢
    split at h
    · rename_i hc; rw [if_pos hc]; exact h
    · rename_i hc
      rw [if_neg hc]
      obtain ⟨⟨r1, s1, st1, stop⟩, h1, h⟩ := bind_ok_elim h
      simp only [bind, Except.bind, h1]
      simp only [] at h ⊢
      split at h
      · rename_i hs; simp only [hs, if_true]; exact h
      · rename_i hs
        simp only [hs, Bool.false_eq_true, if_false]
        exact ih k _ _ _ _ h

end GbVerif.CoreProofs
