import GbVerif.Proofs.Enum
/-!
Bitwise-to-arithmetic facts on `Nat` used by the interpreter/SM83 refinement (core only).
Small ranges are enumerated by the kernel, the rest is `Nat.and_two_pow_sub_one_eq_mod` + `omega`.
-/
namespace GbVerif.Sm83Bits
open GbVerif.Enum

theorem shr8 (x : Nat) : x >>> 8 = x / 256 := by rw [Nat.shiftRight_eq_div_pow]
theorem shr4 (x : Nat) : x >>> 4 = x / 16 := by rw [Nat.shiftRight_eq_div_pow]
theorem shr7 (x : Nat) : x >>> 7 = x / 128 := by rw [Nat.shiftRight_eq_div_pow]
theorem shr1 (x : Nat) : x >>> 1 = x / 2 := by rw [Nat.shiftRight_eq_div_pow]
theorem shl8 (x : Nat) : x <<< 8 = x * 256 := by rw [Nat.shiftLeft_eq]
theorem shl1 (x : Nat) : x <<< 1 = x * 2 := by rw [Nat.shiftLeft_eq]
theorem shl3 (x : Nat) : x <<< 3 = x * 8 := by rw [Nat.shiftLeft_eq]
theorem shl4 (x : Nat) : x <<< 4 = x * 16 := by rw [Nat.shiftLeft_eq]
theorem shl7 (x : Nat) : x <<< 7 = x * 128 := by rw [Nat.shiftLeft_eq]

theorem and_ff (x : Nat) : x &&& 0xff = x % 256 := Nat.and_two_pow_sub_one_eq_mod x 8
theorem and_0f (x : Nat) : x &&& 0x0f = x % 16 := Nat.and_two_pow_sub_one_eq_mod x 4
theorem and_fff (x : Nat) : x &&& 0xfff = x % 4096 := Nat.and_two_pow_sub_one_eq_mod x 12
theorem and_ffff (x : Nat) : x &&& 0xffff = x % 65536 := Nat.and_two_pow_sub_one_eq_mod x 16

/-- `hi * 256 ||| lo = hi * 256 + lo` for a byte `lo` -/
theorem or_lo (hi lo : Nat) (h : lo < 256) : hi * 256 ||| lo = hi * 256 + lo := by
  have := @Nat.two_pow_add_eq_or_of_lt 8 lo h hi
  rw [Nat.mul_comm] at this; exact this.symm

theorem lo_or (hi lo : Nat) (h : lo < 256) : lo ||| hi * 256 = hi * 256 + lo := by
  rw [Nat.or_comm]; exact or_lo hi lo h

/-- value of a single-bit mask -/
theorem and_pow_val (x k : Nat) : x &&& 2 ^ k = (x / 2 ^ k % 2) * 2 ^ k := by
  have hp : 0 < 2 ^ k := Nat.two_pow_pos k
  have h1 : (x &&& 2 ^ k) / 2 ^ k = x / 2 ^ k % 2 := by
    rw [Nat.and_div_two_pow, Nat.div_self hp, Nat.and_one_is_mod]
  have h2 : (x &&& 2 ^ k) % 2 ^ k = 0 := by
    rw [Nat.and_mod_two_pow, Nat.mod_self, Nat.and_zero]
  have := Nat.div_add_mod (x &&& 2 ^ k) (2 ^ k)
  rw [h1, h2, Nat.mul_comm] at this
  omega

/-- single-bit tests -/
theorem and_pow_ne (x k : Nat) : (x &&& 2 ^ k != 0) = decide (x / 2 ^ k % 2 = 1) := by
  rw [and_pow_val]
  have hp : 2 ^ k ≠ 0 := Nat.ne_of_gt (Nat.two_pow_pos k)
  have h2 : x / 2 ^ k % 2 = 0 ∨ x / 2 ^ k % 2 = 1 := by omega
  rcases h2 with h2 | h2 <;> simp [h2, hp]

theorem and_pow_eq (x k : Nat) : (x &&& 2 ^ k == 0) = decide (x / 2 ^ k % 2 = 0) := by
  rw [and_pow_val]
  have hp : 2 ^ k ≠ 0 := Nat.ne_of_gt (Nat.two_pow_pos k)
  have h2 : x / 2 ^ k % 2 = 0 ∨ x / 2 ^ k % 2 = 1 := by omega
  rcases h2 with h2 | h2 <;> simp [h2, hp]

theorem and_10_ne (x : Nat) : (x &&& 0x10 != 0) = decide (x / 16 % 2 = 1) := and_pow_ne x 4
theorem and_20_ne (x : Nat) : (x &&& 0x20 != 0) = decide (x / 32 % 2 = 1) := and_pow_ne x 5
theorem and_40_ne (x : Nat) : (x &&& 0x40 != 0) = decide (x / 64 % 2 = 1) := and_pow_ne x 6
theorem and_80_ne (x : Nat) : (x &&& 0x80 != 0) = decide (x / 128 % 2 = 1) := and_pow_ne x 7
theorem and_01_ne (x : Nat) : (x &&& 0x01 != 0) = decide (x % 2 = 1) := by
  have := and_pow_ne x 0; simpa using this
theorem and_100_ne (x : Nat) : (x &&& 0x100 != 0) = decide (x / 256 % 2 = 1) := and_pow_ne x 8
theorem and_1000_ne (x : Nat) : (x &&& 0x1000 != 0) = decide (x / 4096 % 2 = 1) := and_pow_ne x 12
theorem and_10_eq (x : Nat) : (x &&& 0x10 == 0) = decide (x / 16 % 2 = 0) := and_pow_eq x 4
theorem and_40_eq (x : Nat) : (x &&& 0x40 == 0) = decide (x / 64 % 2 = 0) := and_pow_eq x 6
theorem and_80_eq (x : Nat) : (x &&& 0x80 == 0) = decide (x / 128 % 2 = 0) := and_pow_eq x 7

theorem and_80_val (x : Nat) : x &&& 0x80 = (x / 128 % 2) * 128 := and_pow_val x 7
theorem and_10_val (x : Nat) : x &&& 0x10 = (x / 16 % 2) * 16 := and_pow_val x 4
theorem and_01_val (x : Nat) : x &&& 0x01 = x % 2 := Nat.and_one_is_mod x

/-- byte complement -/
theorem xor_ff (x : Nat) (h : x < 256) : x ^^^ 0xff = 255 - x := by
  have := forall_lt_of_allRange (fun x => x ^^^ 0xff == 255 - x) 8 (by decide +kernel) x h
  simpa using this

/-- split an AND with a 16-bit constant into its two bytes -/
theorem and_split (x K : Nat) : x &&& K = (x / 256 &&& K / 256) * 256 + (x % 256 &&& K % 256) := by
  have h1 := @Nat.and_div_two_pow x K 8
  have h2 := @Nat.and_mod_two_pow x K 8
  have := Nat.div_add_mod (x &&& K) 256
  simp only [Nat.reducePow] at h1 h2
  rw [h1, h2] at this
  omega

/-- high-byte mask of a 16-bit value -/
theorem and_ff00 (x : Nat) : x &&& 0xff00 = x / 256 % 256 * 256 := by
  rw [and_split]; simp only [Nat.reduceDiv, Nat.reduceMod, Nat.and_zero, Nat.add_zero, and_ff]

/-- low-byte masks used by `apply_mask` and POP AF -/
theorem lo_and (f K : Nat) (hf : f < 256) (g : Nat → Nat)
    (h : GbVerif.Enum.allRange (fun f => f &&& K == g f) 8 0 = true) : f &&& K = g f := by
  have := forall_lt_of_allRange (fun f => f &&& K == g f) 8 h f hf
  simpa using this

theorem and_mask16 (x K : Nat) (hK : K / 256 = 255) : x &&& K = x / 256 % 256 * 256 + (x % 256 &&& K % 256) := by
  rw [and_split, hK, and_ff]

/-- OR of a byte constant into the low byte of a 16-bit value -/
theorem or_low (x bits : Nat) (hb : bits < 256) : x ||| bits = x / 256 * 256 + (x % 256 ||| bits) := by
  have hx : x = x / 256 * 256 + x % 256 := by omega
  have h1 : x % 256 < 256 := Nat.mod_lt _ (by decide)
  have h2 : (x % 256 ||| bits) < 2 ^ 8 := Nat.or_lt_two_pow h1 hb
  rw [← or_lo (x / 256) (x % 256 ||| bits) h2, ← Nat.or_assoc, or_lo (x / 256) (x % 256) h1, ← hx]

/-- XOR of a byte constant into the low byte -/
theorem xor_low (x bits : Nat) (hb : bits < 256) : x ^^^ bits = x / 256 * 256 + (x % 256 ^^^ bits) := by
  have h1 := @Nat.xor_div_two_pow x bits 8
  have h2 := @Nat.xor_mod_two_pow x bits 8
  have := Nat.div_add_mod (x ^^^ bits) 256
  simp only [Nat.reducePow] at h1 h2
  rw [h1, h2, Nat.div_eq_of_lt hb, Nat.xor_zero, Nat.mod_eq_of_lt hb] at this
  omega

end GbVerif.Sm83Bits
