import GbVerif.Proofs.X86SimMemAbs
import GbVerif.Proofs.X86SimMemAlu
import GbVerif.Proofs.X86SimRotT
/-
C01, the bus side: read-modify-write on (HL).
-/
namespace GbVerif.X86
open GbVerif.JitCycles GbVerif.Interp
variable {β : Type}

theorem step_load_eq (B : BusOps β) (s s1 : St β) (sz : Size) (d off len : Nat) (w : W) (hj : off % 8 + bitsOf sz / 8 ≤ 8)
    (hw : s.stack[off / 8]? = some w) (h : step B s (.load sz d 4 off) len = .ok s1) :
    s1 = setSz ({ s with pc := s.pc + len } : St β) sz d (w.toNat / 2 ^ (8 * (off % 8)) % 2 ^ (8 * (bitsOf sz / 8))) := by
  have hr : stackRead ({ s with pc := s.pc + len } : St β) off (bitsOf sz / 8) = .ok (w.toNat / 2 ^ (8 * (off % 8)) % 2 ^ (8 * (bitsOf sz / 8))) := by
    unfold stackRead
    simp only []
    rw [if_neg (by omega)]
    show (match s.stack[off / 8]? with | some w => _ | none => _) = _
    rw [hw]
  have e : step B s (.load sz d 4 off) len =
      (do let v ← stackRead ({ s with pc := s.pc + len } : St β) off (bitsOf sz / 8); pure (setSz ({ s with pc := s.pc + len } : St β) sz d v)) := rfl
  rw [e, hr] at h
  injection h with h
  exact h.symm

def rmwPre : List (Nat × Instr) :=
  [(0, Instr.push 0), (1, Instr.push 1), (2, Instr.push 2), (3, Instr.mov Size.q 6 1), (6, Instr.movabs 7 512), (16, Instr.movabs 0 513),
   (26, Instr.callRax), (28, Instr.mov Size.q 2 0), (31, Instr.load Size.w 0 4 16)]

def rmwPost (o : Nat → Nat) : List (Nat × Instr) :=
  [(o 0, Instr.store8 4 16 (R8.lo 0)), (o 1, Instr.load Size.q 6 4 8), (o 2, Instr.movabs 7 512), (o 3, Instr.movabs 0 514),
   (o 4, Instr.callRax), (o 5, Instr.pop 2), (o 6, Instr.pop 1), (o 7, Instr.pop 0)]

set_option maxHeartbeats 1000000 in
/-- after the read prefix: the byte at (HL) is in dl, ax holds AF again, rax rcx rdx are on the host stack -/
theorem rmw_pre (B : BusOps β) (hB : ByteReads B) (e : Nat) (g : Regs) (st sa : St β) (hs : Sim g st)
    (hex : execList B e rmwPre st = .ok sa) :
    ∃ v, B.read st.bus (getReg16 g .HL) = .ok v ∧ v < 256 ∧ (get sa 2).toNat % 256 = v ∧
      (get sa 0).toNat % 65536 = g.af % 65536 ∧ (∀ j, j ∉ [0, 1, 2, 6, 7, 8, 9, 10, 11] → get sa j = get st j) ∧
      sa.stack = get st 2 :: get st 1 :: get st 0 :: st.stack ∧ sa.bus = st.bus ∧ sa.r.size = 16 := by
  unfold rmwPre at hex
  obtain ⟨s1, h1, hex⟩ := execList_cons B _ _ _ _ _ _ hex
  obtain ⟨s2, h2, hex⟩ := execList_cons B _ _ _ _ _ _ hex
  obtain ⟨s3, h3, hex⟩ := execList_cons B _ _ _ _ _ _ hex
  obtain ⟨s4, h4, hex⟩ := execList_cons B _ _ _ _ _ _ hex
  obtain ⟨s5, h5, hex⟩ := execList_cons B _ _ _ _ _ _ hex
  obtain ⟨s6, h6, hex⟩ := execList_cons B _ _ _ _ _ _ hex
  obtain ⟨s7, h7, hex⟩ := execList_cons B _ _ _ _ _ _ hex
  obtain ⟨s8, h8, hex⟩ := execList_cons B _ _ _ _ _ _ hex
  obtain ⟨s9, h9, hex⟩ := execList_cons B _ _ _ _ _ _ hex
  have := execList_nil B _ _ _ hex
  subst this
  have hsz := hs.size
  obtain ⟨r1, k1, b1, z1⟩ := step_push B st s1 0 _ h1
  obtain ⟨r2, k2, b2, z2⟩ := step_push B s1 s2 1 _ h2
  obtain ⟨r3, k3, b3, z3⟩ := step_push B s2 s3 2 _ h3
  have R3 : ∀ j, get s3 j = get st j := fun j => by rw [r3, r2, r1]
  have K3 : s3.stack = get st 2 :: get st 1 :: get st 0 :: st.stack := by rw [k3, k2, k1, r2 2, r1 2, r1 1]
  have Z3 : s3.r.size = 16 := by rw [z3, z2, z1]; exact hsz
  obtain ⟨v4, r4, k4, b4, z4⟩ := step_movq B s3 s4 6 1 _ (by omega) h4
  obtain ⟨v5, r5, k5, b5, z5⟩ := step_movabs B s4 s5 7 512 _ (by omega) h5
  obtain ⟨v6, r6, k6, b6, z6⟩ := step_movabs B s5 s6 0 513 _ (by omega) h6
  have Z6 : s6.r.size = 16 := by rw [z6, z5, z4]; exact Z3
  have a7 : get s6 7 = ptrVal 512 := by rw [r6 7 (by decide)]; exact v5
  have a6 : get s6 6 = get st 1 := by rw [r6 6 (by decide), r5 6 (by decide), v4, R3]
  obtain ⟨v, hrd, hv7, b7, k7, Z7, r7⟩ := step_call_read B s6 s7 _ Z6 v6 a7 h7
  have hvlt : v < 256 := hB _ _ _ hrd
  have haddr : (get s6 6).toNat % 65536 = getReg16 g .HL := by rw [a6]; exact hs.hl
  rw [haddr, show s6.bus = st.bus by rw [b6, b5, b4, b3, b2, b1]] at hrd
  obtain ⟨v8, r8, k8, b8, z8⟩ := step_movq B s7 s8 2 0 _ (by omega) h8
  have K8 : s8.stack = get st 2 :: get st 1 :: get st 0 :: st.stack := by rw [k8, k7, k6, k5, k4]; exact K3
  have Z8 : s8.r.size = 16 := by rw [z8]; exact Z7
  have hw : s8.stack[16 / 8]? = some (get st 0) := by rw [K8]; rfl
  have h9' := step_load_eq B s8 sa Size.w 0 16 _ (get st 0) (by decide) hw h9
  have g9 : ∀ j, get sa j = get (setSz ({ s8 with pc := s8.pc + (headOff e [] - 31) } : St β) Size.w 0
      ((get st 0).toNat / 2 ^ (8 * (16 % 8)) % 2 ^ (8 * (bitsOf Size.w / 8)))) j := by intro j; rw [h9']
  refine ⟨v, hrd, hvlt, ?_, ?_, ?_, ?_, ?_, ?_⟩
  · rw [g9 2, get_setSz_ne _ _ _ _ _ (by decide)]
    show (get s8 2).toNat % 256 = v
    rw [v8]
    have : (get s7 0).toNat % 256 = (get s7 0).toNat % 65536 % 256 := by omega
    rw [this, hv7]; omega
  · rw [g9 0, toNat_setSz_w _ _ _ (by show 0 < s8.r.size; omega)]
    have hx := (get s8 0).isLt
    have haf := hs.af
    show ((get s8 0).toNat - (get s8 0).toNat % 65536 + (get st 0).toNat / 2 ^ (8 * (16 % 8)) % 2 ^ (8 * (bitsOf Size.w / 8)) % 65536) % 2 ^ 64 % 65536 = _
    have e1 : (get st 0).toNat / 2 ^ (8 * (16 % 8)) % 2 ^ (8 * (bitsOf Size.w / 8)) = (get st 0).toNat % 65536 := by
      show (get st 0).toNat / 2 ^ 0 % 2 ^ 16 = _
      simp
    rw [e1]
    omega
  · intro j hj
    rw [g9 j, get_setSz_ne _ _ _ _ _ (fun e => hj (by rw [← e]; simp))]
    show get s8 j = get st j
    rw [r8 j (fun e => hj (by rw [← e]; simp)), r7 j hj,
      r6 j (fun e => hj (by rw [← e]; simp)), r5 j (fun e => hj (by rw [← e]; simp)), r4 j (fun e => hj (by rw [← e]; simp)), R3]
  · rw [h9', stack_setSz]; exact K8
  · rw [h9', bus_setSz]; show s8.bus = st.bus; rw [b8, b7, b6, b5, b4, b3, b2, b1]
  · rw [h9', size_setSz]; exact Z8

set_option maxHeartbeats 1000000 in
/-- the write-back: al replaces the saved F, the byte in dl goes to the address in the saved rcx, rdx rcx rax are popped -/
theorem rmw_post (B : BusOps β) (o : Nat → Nat) (e : Nat) (sb s' : St β) (d2 d1 d0 : W) (rest : List W)
    (hk : sb.stack = d2 :: d1 :: d0 :: rest) (hsz : sb.r.size = 16) (hex : execList B e (rmwPost o) sb = .ok s') :
    B.write sb.bus (d1.toNat % 65536) ((get sb 2).toNat % 256) = .ok s'.bus ∧ get s' 2 = d2 ∧ get s' 1 = d1 ∧
    (get s' 0).toNat % 65536 = (d0.toNat / 256 % 256) * 256 + (get sb 0).toNat % 256 ∧
    (∀ j, j ∉ [0, 1, 2, 6, 7, 8, 9, 10, 11] → get s' j = get sb j) ∧ s'.stack = rest ∧ s'.r.size = 16 := by
  unfold rmwPost at hex
  obtain ⟨s1, h1, hex⟩ := execList_cons B _ _ _ _ _ _ hex
  obtain ⟨s2, h2, hex⟩ := execList_cons B _ _ _ _ _ _ hex
  obtain ⟨s3, h3, hex⟩ := execList_cons B _ _ _ _ _ _ hex
  obtain ⟨s4, h4, hex⟩ := execList_cons B _ _ _ _ _ _ hex
  obtain ⟨s5, h5, hex⟩ := execList_cons B _ _ _ _ _ _ hex
  obtain ⟨s6, h6, hex⟩ := execList_cons B _ _ _ _ _ _ hex
  obtain ⟨s7, h7, hex⟩ := execList_cons B _ _ _ _ _ _ hex
  obtain ⟨s8, h8, hex⟩ := execList_cons B _ _ _ _ _ _ hex
  have := execList_nil B _ _ _ hex
  subst this
  -- mov [rsp+16], al
  have hw : sb.stack[16 / 8]? = some d0 := by rw [hk]; rfl
  obtain ⟨r1, b1, z1, k1⟩ := step_store8_stack B sb s1 16 _ (.lo 0) d0 (by decide) hw h1
  rw [hk] at k1
  simp only [Nat.reduceDiv, Nat.reduceMod, List.set_cons_zero, List.set_cons_succ] at k1
  -- mov rsi, [rsp+8]
  have hw2 : s1.stack[8 / 8]? = some d1 := by rw [k1]; rfl
  have h2' := step_load_eq B s1 s2 Size.q 6 8 _ d1 (by decide) hw2 h2
  have g2 : ∀ j, get s2 j = get (setSz ({ s1 with pc := s1.pc + (headOff e
      [(o 2, Instr.movabs 7 512), (o 3, Instr.movabs 0 514), (o 4, Instr.callRax), (o 5, Instr.pop 2), (o 6, Instr.pop 1), (o 7, Instr.pop 0)] - o 1) } : St β)
      Size.q 6 (d1.toNat / 2 ^ (8 * (8 % 8)) % 2 ^ (8 * (bitsOf Size.q / 8)))) j := by intro j; rw [h2']
  have Z1 : s1.r.size = 16 := by rw [z1]; exact hsz
  have Z2 : s2.r.size = 16 := by rw [h2', size_setSz]; exact Z1
  have r2 : ∀ j, 6 ≠ j → get s2 j = get sb j := by
    intro j hj; rw [g2 j, get_setSz_ne _ _ _ _ _ hj]; exact r1 j
  have v2 : (get s2 6).toNat % 65536 = d1.toNat % 65536 := by
    rw [g2 6]
    show (get (set _ 6 (BitVec.ofNat 64 (d1.toNat / 2 ^ (8 * (8 % 8)) % 2 ^ (8 * (bitsOf Size.q / 8))))) 6).toNat % 65536 = _
    rw [get_set_eq _ _ _ (by show 6 < s1.r.size; omega), BitVec.toNat_ofNat]
    have hd := d1.isLt
    have e1 : d1.toNat / 2 ^ (8 * (8 % 8)) % 2 ^ (8 * (bitsOf Size.q / 8)) = d1.toNat := by
      show d1.toNat / 2 ^ 0 % 2 ^ 64 = d1.toNat
      simp only [Nat.pow_zero, Nat.div_one]; omega
    rw [e1]; omega
  have k2 : s2.stack = s1.stack := by rw [h2', stack_setSz]
  have b2 : s2.bus = s1.bus := by rw [h2', bus_setSz]
  obtain ⟨v3, r3, k3, b3, z3⟩ := step_movabs B s2 s3 7 512 _ (by omega) h3
  obtain ⟨v4, r4, k4, b4, z4⟩ := step_movabs B s3 s4 0 514 _ (by omega) h4
  have Z4 : s4.r.size = 16 := by rw [z4, z3]; exact Z2
  obtain ⟨hwr, k5, Z5, r5⟩ := step_call_write B s4 s5 _ Z4 v4 h5
  have a6 : (get s4 6).toNat % 65536 = d1.toNat % 65536 := by rw [r4 6 (by decide), r3 6 (by decide)]; exact v2
  have a2 : get s4 2 = get sb 2 := by rw [r4 2 (by decide), r3 2 (by decide), r2 2 (by decide)]
  have B4 : s4.bus = sb.bus := by rw [b4, b3, b2, b1]
  rw [a6, a2, B4] at hwr
  have K5 : s5.stack = d2 :: d1 :: BitVec.ofNat 64 (d0.toNat - (d0.toNat / 2 ^ (8 * 0) % 2 ^ (8 * 1)) * 2 ^ (8 * 0) + (get8 sb (.lo 0) % 2 ^ (8 * 1)) * 2 ^ (8 * 0)) :: rest := by
    rw [k5, k4, k3, k2]; exact k1
  obtain ⟨w6, t6, e6, k6, g6, q6, b6, z6⟩ := step_pop B s5 s6 2 _ (by rw [Z5]; decide) h6
  obtain ⟨w7, t7, e7, k7, g7, q7, b7, z7⟩ := step_pop B s6 s7 1 _ (by rw [z6, Z5]; decide) h7
  obtain ⟨w8, t8, e8, k8, g8, q8, b8, z8⟩ := step_pop B s7 s' 0 _ (by rw [z7, z6, Z5]; decide) h8
  rw [K5] at e6
  obtain ⟨a6', e6⟩ := List.cons.inj e6
  rw [k6, ← e6] at e7
  obtain ⟨a7', e7⟩ := List.cons.inj e7
  rw [k7, ← e7] at e8
  obtain ⟨a8', e8⟩ := List.cons.inj e8
  refine ⟨by rw [b8, b7, b6]; exact hwr, by rw [q8 2 (by decide), q7 2 (by decide), g6]; exact a6'.symm,
    by rw [q8 1 (by decide), g7]; exact a7'.symm, ?_, ?_, by rw [k8]; exact e8.symm, by rw [z8, z7, z6]; exact Z5⟩
  · rw [g8, ← a8', BitVec.toNat_ofNat]
    have hx := d0.isLt
    have := poke_low16 d0.toNat (get8 sb (.lo 0)) 0 hx (by decide)
    simp only [Nat.zero_ne_one, if_false] at this
    rw [this]
    show d0.toNat / 256 % 256 * 256 + (get sb 0).toNat % 256 % 256 = _
    omega
  · intro j hj
    rw [q8 j (fun e => hj (by rw [← e]; simp)), q7 j (fun e => hj (by rw [← e]; simp)), q6 j (fun e => hj (by rw [← e]; simp)),
      r5 j hj, r4 j (fun e => hj (by rw [← e]; simp)), r3 j (fun e => hj (by rw [← e]; simp)), r2 j (fun e => hj (by rw [← e]; simp))]

/-- read (HL) into dl, run the REGISTER form of an operation on E (= dl) with AF in ax, write dl back: the interpreter's
read-modify-write with the (HL) form `fi` of the operation -/
theorem rmw_wrap (B : BusOps β) (hB : ByteReads B) (mid : List (Nat × Instr)) (o : Nat → Nat) (e : Nat)
    (fr : Regs → Regs) (fi : Nat → Regs → Nat × Regs) (P : Regs → Prop) (hP : ∀ g1 g2 : Regs, g1.af = g2.af → P g1 → P g2)
    (H1 : ∀ g', getReg (fr g') .E = (fi (getReg g' .E) g').1)
    (H2 : ∀ g', (fr g').af = (fi (getReg g' .E) g').2.af)
    (H3 : ∀ (g1 g2 : Regs) v, g1.af = g2.af → (fi v g1).1 = (fi v g2).1 ∧ (fi v g1).2.af = (fi v g2).2.af)
    (H4 : ∀ v g, SameButAf g (fi v g).2)
    (H5 : ∀ v (g : Regs), (fi v g).2.af % 65536 / 256 = g.af % 65536 / 256)
    (H6 : ∀ g', (fr g').bc = g'.bc ∧ (fr g').sp = g'.sp ∧ (fr g').ip = g'.ip ∧ (fr g').cycles = g'.cycles)
    (R : W → W → Prop)
    (hbody : ∀ (g' : Regs) (st0 s1 : St β), Sim g' st0 → P g' → execList B (headOff e (rmwPost o)) mid st0 = .ok s1 →
      Sim (fr g') s1 ∧ s1.bus = st0.bus ∧ s1.stack = st0.stack ∧ R (get st0 14) (get s1 14))
    (g : Regs) (st s' : St β) (hs : Sim g st) (hPg : P g)
    (hex : execList B e ((rmwPre ++ mid) ++ rmwPost o) st = .ok s') :
    ∃ v, B.read st.bus (getReg16 g .HL) = .ok v ∧ B.write st.bus (getReg16 g .HL) (fi v g).1 = .ok s'.bus ∧
      Sim (fi v g).2 s' ∧ s'.stack = st.stack ∧ R (get st 14) (get s' 14) := by
  obtain ⟨sb, hex1, hexp⟩ := execList_append B e _ _ st s' hex
  obtain ⟨sa, hpre, hbd⟩ := execList_append B _ _ rmwPre st sb hex1
  obtain ⟨v, hrd, hvlt, hdl, haf, hrest, hk, hb, hsz⟩ := rmw_pre B hB _ g st sa hs hpre
  have hsa : Sim ({ g with de := (get sa 2).toNat, hl := (get sa 1).toNat } : Regs) sa :=
    ⟨haf, rfl, rfl, by rw [hrest 3 (by decide)]; exact hs.bc,
     by rw [hrest 12 (by decide)]; exact hs.sp, by rw [hrest 13 (by decide)]; exact hs.ip, by rw [hrest 15 (by decide)]; exact hs.cy, hsz⟩
  have hE : getReg ({ g with de := (get sa 2).toNat, hl := (get sa 1).toNat } : Regs) .E = v := hdl
  obtain ⟨hsb, hubb, hubk, hR⟩ := hbody _ sa sb hsa (hP g _ rfl hPg) hbd
  have hkb : sb.stack = get st 2 :: get st 1 :: get st 0 :: st.stack := by rw [hubk]; exact hk
  obtain ⟨hwr, g2, g1, g0, hr', hk', hz'⟩ := rmw_post B o e sb s' _ _ _ _ hkb hsb.size hexp
  have hval : (get sb 2).toNat % 256 = (fi v g).1 := by
    have := get8_sim hsb .E
    have h1 := H1 ({ g with de := (get sa 2).toNat, hl := (get sa 1).toNat } : Regs)
    rw [hE] at h1
    have h3 := (H3 ({ g with de := (get sa 2).toNat, hl := (get sa 1).toNat } : Regs) g v rfl).1
    show get8 sb (hostR8 .E) = _
    rw [this, h1, h3]
  have hfl : (get sb 0).toNat % 65536 = (fi v g).2.af % 65536 := by
    have h2 := H2 ({ g with de := (get sa 2).toNat, hl := (get sa 1).toNat } : Regs)
    rw [hE] at h2
    have h3 := (H3 ({ g with de := (get sa 2).toNat, hl := (get sa 1).toNat } : Regs) g v rfl).2
    rw [hsb.af, h2, h3]
  have hHL : (get st 1).toNat % 65536 = getReg16 g .HL := hs.hl
  rw [hHL, hval, hubb, hb] at hwr
  obtain ⟨q1, q2, q3, q4, q5, q6⟩ := H4 v g
  obtain ⟨f1, f2, f3, f4⟩ := H6 ({ g with de := (get sa 2).toNat, hl := (get sa 1).toNat } : Regs)
  refine ⟨v, hrd, hwr, ⟨?_, ?_, ?_, ?_, ?_, ?_, ?_, hz'⟩, hk', ?_⟩
  · rw [g0]
    have h5 := H5 v g
    have ha := hs.af
    omega
  · rw [g1, q3]; exact hs.hl
  · rw [g2, q2]; exact hs.de
  · rw [hr' 3 (by decide), hsb.bc, f1, q1]
  · rw [hr' 12 (by decide), hsb.sp, f2, q4]
  · rw [hr' 13 (by decide), hsb.ip, f3, q5]
  · rw [hr' 15 (by decide), hsb.cy, f4, q6]
  · rw [hr' 14 (by decide), ← hrest 14 (by decide)]; exact hR

/-- `SimulatesMem` for a CB-prefixed encoding -/
def SimulatesCbMem (b1 b2 : Nat) : Prop :=
  ∃ code, decodeCode (Gen.emitCb b1) = some code ∧
  ∀ (β : Type) (B : BusOps β), ByteReads B → ∀ (g : Regs) (fuel : Nat) (st st' : St β), Sim g st → st.pc = 0 →
    run B code (bytesOf (Gen.emitCb b1)) fuel st = .ok st' →
    ∃ g' m', runOp B (Gen.decode 0xcb b1 b2).1 g st.bus (Gen.decode 0xcb b1 b2).2.1 = .ok (g', m', STATUS_NORMAL) ∧
      Sim { g' with cycles := g'.cycles + (Gen.decode 0xcb b1 b2).2.2 / 4 } st' ∧ st'.bus = m' ∧ st'.stack = st.stack ∧ get st' 14 = get st 14

theorem straight_rmw (mid : List (Nat × Instr)) (o : Nat → Nat) (h : straight mid) : straight ((rmwPre ++ mid) ++ rmwPost o) := by
  refine straight_app (straight_app ?_ h) ?_
  · intro p hp
    simp only [rmwPre, List.mem_cons, List.not_mem_nil, or_false] at hp
    rcases hp with e | e | e | e | e | e | e | e | e <;> subst e <;> exact ⟨fun _ _ e => Instr.noConfusion e, fun _ e => Instr.noConfusion e⟩
  · intro p hp
    simp only [rmwPost, List.mem_cons, List.not_mem_nil, or_false] at hp
    rcases hp with e | e | e | e | e | e | e | e <;> subst e <;> exact ⟨fun _ _ e => Instr.noConfusion e, fun _ e => Instr.noConfusion e⟩

/-! ### RES b,(HL) and SET b,(HL) -/

def rmwOff3 (k : Nat) : Nat := [39, 43, 48, 58, 68, 70, 71, 72].getD k 0

def opcodeResHl (b : Fin 8) : Nat := 0x86 + 8 * b.val
def opcodeSetHl (b : Fin 8) : Nat := 0xc6 + 8 * b.val

theorem table_reshl (b : Fin 8) (b2 : Nat) :
    decodeCode (Gen.emitCb (opcodeResHl b)) = some (((rmwPre ++ [(36, Instr.alu8i AluOp.and (R8.lo 2) ((bitMask b ^^^ 0xff) % 256))]) ++ rmwPost rmwOff3) ++ [(73, addIp 2), (77, addCy 4)]) ∧
    bytesOf (Gen.emitCb (opcodeResHl b)) = 81 ∧ Gen.decode 0xcb (opcodeResHl b) b2 = (.BitClearIndirect (bitMask b), 2, 16) ∧
    decodeCode (Gen.emitCb (opcodeSetHl b)) = some (((rmwPre ++ [(36, Instr.alu8i AluOp.or (R8.lo 2) (bitMask b))]) ++ rmwPost rmwOff3) ++ [(73, addIp 2), (77, addCy 4)]) ∧
    bytesOf (Gen.emitCb (opcodeSetHl b)) = 81 ∧ Gen.decode 0xcb (opcodeSetHl b) b2 = (.BitSetIndirect (bitMask b), 2, 16) := by
  have hb : b = 0 ∨ b = 1 ∨ b = 2 ∨ b = 3 ∨ b = 4 ∨ b = 5 ∨ b = 6 ∨ b = 7 := by
    obtain ⟨v, hv⟩ := b
    have : v = 0 ∨ v = 1 ∨ v = 2 ∨ v = 3 ∨ v = 4 ∨ v = 5 ∨ v = 6 ∨ v = 7 := by omega
    rcases this with e | e | e | e | e | e | e | e <;> subst e <;> simp
  rcases hb with e | e | e | e | e | e | e | e <;> subst e <;>
    exact ⟨by decide +kernel, by decide +kernel, rfl, by decide +kernel, by decide +kernel, rfl⟩

/-- the shared end of the (HL) read-modify-write theorems -/
theorem rmw_finish (B : BusOps β) (hB : ByteReads B) (mid : List (Nat × Instr)) (hmid : straight mid) (o : Nat → Nat) (o1 o2 e n c len : Nat)
    (hok : codeOk (((rmwPre ++ mid) ++ rmwPost o) ++ [(o1, addIp n), (o2, addCy c)]) e = true)
    (hlen : len = (((rmwPre ++ mid) ++ rmwPost o) ++ [(o1, addIp n), (o2, addCy c)]).length) (hn : n < 128) (hc : c < 128)
    (fr : Regs → Regs) (fi : Nat → Regs → Nat × Regs) (P : Regs → Prop) (hP : ∀ g1 g2 : Regs, g1.af = g2.af → P g1 → P g2)
    (H1 : ∀ g', getReg (fr g') .E = (fi (getReg g' .E) g').1)
    (H2 : ∀ g', (fr g').af = (fi (getReg g' .E) g').2.af)
    (H3 : ∀ (g1 g2 : Regs) v, g1.af = g2.af → (fi v g1).1 = (fi v g2).1 ∧ (fi v g1).2.af = (fi v g2).2.af)
    (H4 : ∀ v g, SameButAf g (fi v g).2)
    (H5 : ∀ v (g : Regs), (fi v g).2.af % 65536 / 256 = g.af % 65536 / 256)
    (H6 : ∀ g', (fr g').bc = g'.bc ∧ (fr g').sp = g'.sp ∧ (fr g').ip = g'.ip ∧ (fr g').cycles = g'.cycles)
    (R : W → W → Prop)
    (hbody : ∀ (g' : Regs) (st0 s1 : St β), Sim g' st0 → P g' → execList B (headOff o1 (rmwPost o)) mid st0 = .ok s1 →
      Sim (fr g') s1 ∧ s1.bus = st0.bus ∧ s1.stack = st0.stack ∧ R (get st0 14) (get s1 14))
    (g : Regs) (fuel : Nat) (st st' : St β) (hs : Sim g st) (hPg : P g) (hpc : st.pc = 0)
    (hrun : run B (((rmwPre ++ mid) ++ rmwPost o) ++ [(o1, addIp n), (o2, addCy c)]) e fuel st = .ok st') :
    ∃ v bus', B.read st.bus (getReg16 g .HL) = .ok v ∧ B.write st.bus (getReg16 g .HL) (fi v g).1 = .ok bus' ∧
      Sim { (fi v g).2 with ip := (fi v g).2.ip + n, cycles := (fi v g).2.cycles + c } st' ∧ st'.bus = bus' ∧ st'.stack = st.stack ∧ R (get st 14) (get st' 14) := by
  have hst : straight (((rmwPre ++ mid) ++ rmwPost o) ++ [(o1, addIp n), (o2, addCy c)]) :=
    straight_app (straight_rmw mid o hmid) (tail_straight o1 o2 n c)
  have hex := run_execList B _ e hok hst len 0 (by rw [hlen]; omega) fuel st st' (by rw [hpc]; rfl) hrun
  rw [List.drop_zero] at hex
  obtain ⟨s12, hb, ht⟩ := execList_append B e _ ((rmwPre ++ mid) ++ rmwPost o) st st' hex
  obtain ⟨v, hrd, hwr, hs12, hk12, h14⟩ := rmw_wrap B hB mid o o1 fr fi P hP H1 H2 H3 H4 H5 H6 R hbody g st s12 hs hPg hb
  obtain ⟨hs', hu'⟩ := sim_tail B hs12 o1 o2 e n c hn hc ht
  exact ⟨v, s12.bus, hrd, hwr, hs', hu'.bus, by rw [hu'.stack, hk12], by rw [hu'.r14]; exact h14⟩

theorem keep_setRegE (g' : Regs) (x : Nat) :
    (setReg g' .E x).bc = g'.bc ∧ (setReg g' .E x).sp = g'.sp ∧ (setReg g' .E x).ip = g'.ip ∧ (setReg g' .E x).cycles = g'.cycles :=
  ⟨rfl, rfl, rfl, rfl⟩

/-- **RES b,(HL)** (8 bits): all states, any bus -/
theorem sim_reshl (b : Fin 8) (b2 : Nat) : SimulatesCbMem (opcodeResHl b) b2 := by
  obtain ⟨hdec, hbytes, hop, _⟩ := table_reshl b b2
  refine ⟨_, hdec, ?_⟩
  intro β B hB g fuel st st' hsim hpc hrun
  rw [hbytes] at hrun
  rw [hop]
  show ∃ g' m', runOp B (.BitClearIndirect (bitMask b)) g st.bus 2 = .ok (g', m', STATUS_NORMAL) ∧ Sim { g' with cycles := g'.cycles + 16 / 4 } st' ∧ _
  rw [show (16 : Nat) / 4 = 4 from rfl]
  have hm : (bitMask b ^^^ 0xff) % 256 < 256 := Nat.mod_lt _ (by decide)
  obtain ⟨v, bus', hrd, hwr, hs', hb', hk', h14'⟩ := rmw_finish B hB [(36, Instr.alu8i AluOp.and (R8.lo 2) ((bitMask b ^^^ 0xff) % 256))]
    (straight_one _ _ (fun _ _ e => Instr.noConfusion e) (fun _ e => Instr.noConfusion e)) rmwOff3 73 77 81 2 4 20
    (by
      have hb : b = 0 ∨ b = 1 ∨ b = 2 ∨ b = 3 ∨ b = 4 ∨ b = 5 ∨ b = 6 ∨ b = 7 := by
        obtain ⟨v, hv⟩ := b
        have : v = 0 ∨ v = 1 ∨ v = 2 ∨ v = 3 ∨ v = 4 ∨ v = 5 ∨ v = 6 ∨ v = 7 := by omega
        rcases this with e | e | e | e | e | e | e | e <;> subst e <;> simp
      rcases hb with e | e | e | e | e | e | e | e <;> subst e <;> rfl) rfl (by decide) (by decide)
    (fun g' => setReg g' .E (getReg g' .E &&& ((bitMask b ^^^ 0xff) % 256))) (fun v r => (v &&& ((bitMask b ^^^ 0xff) % 256), r))
    (fun _ => True) (fun _ _ _ _ => trivial)
    (fun g' => getReg_setReg_self g' .E _ (Nat.lt_of_le_of_lt Nat.and_le_right hm))
    (fun _ => rfl) (fun _ _ _ h => ⟨rfl, h⟩) (fun _ g => sameButAf_refl g) (fun _ _ => rfl) (fun g' => keep_setRegE g' _)
    (fun a b => b = a)
    (fun g' st0 s1 hs _ hex => by
      obtain ⟨q, u⟩ := body_one B 36 _ _ g' _ (fun st s1 len hs h => step_bit_sim B .and (Or.inl rfl) .E _ hm g' st s1 len hs h) st0 s1 hs hex
      exact ⟨q, u.bus, u.stack, u.r14⟩)
    g fuel st st' hsim trivial hpc hrun
  refine ⟨advance g 2, bus', ?_, ⟨hs'.af, hs'.hl, hs'.de, hs'.bc, hs'.sp, hs'.ip, hs'.cy, hs'.size⟩, hb', hk', h14'⟩
  show (do let (r, m) ← rmwHL B g st.bus (fun v r => (v &&& ((bitMask b ^^^ 0xff) % 256), r)); _) = _
  simp only [rmwHL, bind, Except.bind, hrd, hwr, pure, Except.pure]

/-- **SET b,(HL)** (8 bits): all states, any bus -/
theorem sim_sethl (b : Fin 8) (b2 : Nat) : SimulatesCbMem (opcodeSetHl b) b2 := by
  obtain ⟨_, _, _, hdec, hbytes, hop⟩ := table_reshl b b2
  refine ⟨_, hdec, ?_⟩
  intro β B hB g fuel st st' hsim hpc hrun
  rw [hbytes] at hrun
  rw [hop]
  show ∃ g' m', runOp B (.BitSetIndirect (bitMask b)) g st.bus 2 = .ok (g', m', STATUS_NORMAL) ∧ Sim { g' with cycles := g'.cycles + 16 / 4 } st' ∧ _
  rw [show (16 : Nat) / 4 = 4 from rfl]
  have hm := bitMask_lt b
  obtain ⟨v, bus', hrd, hwr, hs', hb', hk', h14'⟩ := rmw_finish B hB [(36, Instr.alu8i AluOp.or (R8.lo 2) (bitMask b))]
    (straight_one _ _ (fun _ _ e => Instr.noConfusion e) (fun _ e => Instr.noConfusion e)) rmwOff3 73 77 81 2 4 20
    (by
      have hb : b = 0 ∨ b = 1 ∨ b = 2 ∨ b = 3 ∨ b = 4 ∨ b = 5 ∨ b = 6 ∨ b = 7 := by
        obtain ⟨v, hv⟩ := b
        have : v = 0 ∨ v = 1 ∨ v = 2 ∨ v = 3 ∨ v = 4 ∨ v = 5 ∨ v = 6 ∨ v = 7 := by omega
        rcases this with e | e | e | e | e | e | e | e <;> subst e <;> simp
      rcases hb with e | e | e | e | e | e | e | e <;> subst e <;> rfl) rfl (by decide) (by decide)
    (fun g' => setReg g' .E (getReg g' .E ||| bitMask b)) (fun v r => (v ||| bitMask b, r))
    (fun _ => True) (fun _ _ _ _ => trivial)
    (fun g' => getReg_setReg_self g' .E _ (Nat.or_lt_two_pow (n := 8) (getReg_lt g' .E) hm))
    (fun _ => rfl) (fun _ _ _ h => ⟨rfl, h⟩) (fun _ g => sameButAf_refl g) (fun _ _ => rfl) (fun g' => keep_setRegE g' _)
    (fun a b => b = a)
    (fun g' st0 s1 hs _ hex => by
      obtain ⟨q, u⟩ := body_one B 36 _ _ g' _ (fun st s1 len hs h => step_bit_sim B .or (Or.inr rfl) .E _ hm g' st s1 len hs h) st0 s1 hs hex
      exact ⟨q, u.bus, u.stack, u.r14⟩)
    g fuel st st' hsim trivial hpc hrun
  refine ⟨advance g 2, bus', ?_, ⟨hs'.af, hs'.hl, hs'.de, hs'.bc, hs'.sp, hs'.ip, hs'.cy, hs'.size⟩, hb', hk', h14'⟩
  show (do let (r, m) ← rmwHL B g st.bus (fun v r => (v ||| bitMask b, r)); _) = _
  simp only [rmwHL, bind, Except.bind, hrd, hwr, pure, Except.pure]

/-! ### SLA / SRA / SRL (HL), INC (HL), DEC (HL) -/

def rmwMidOff (k : Nat) : Nat := [36, 38, 39, 40, 43, 45, 48, 54, 59, 65, 67].getD k 0
def rmwOff5 (k : Nat) : Nat := [69, 73, 78, 88, 98, 100, 101, 102].getD k 0
def rmwOff4 (k : Nat) : Nat := [67, 71, 76, 86, 96, 98, 99, 100].getD k 0

theorem getE_sameButAf {g g' : Regs} (h : SameButAf g g') : getReg g' .E = getReg g .E := by
  show getLo g'.de = getLo g.de; rw [h.2.1]

theorem af_flagsRot (r1 r2 : Regs) (res : Nat × Bool) (b : Bool) (h : r1.af = r2.af) : (flagsRot r1 res b).af = (flagsRot r2 res b).af := by
  cases b
  · exact af_testCarry _ _ _ (af_applyMask _ _ _ h)
  · exact af_testZero _ _ _ (af_testCarry _ _ _ (af_applyMask _ _ _ h))

theorem keep_sameButAf {g g' : Regs} (h : SameButAf g g') : g'.bc = g.bc ∧ g'.sp = g.sp ∧ g'.ip = g.ip ∧ g'.cycles = g.cycles :=
  ⟨h.1, h.2.2.2.1, h.2.2.2.2.1, h.2.2.2.2.2⟩

theorem hiA_pack (af a f : Nat) (ha : a < 256) (hf : f < 256) (h : af = a * 256 + f) (g : Regs) (hA : getReg g .A = a) :
    af % 65536 / 256 = g.af % 65536 / 256 := by
  have : getReg g .A = g.af / 256 % 256 := by show getHi g.af = _; rw [getHi_eq]
  omega

def Sh3.opHl : Sh3 → Op
  | .sla => .ShiftLeftIndirect | .sra => .ShiftRightIndirect | .srl => .ShiftRightLogicalIndirect
def opcodeShHl (k : Sh3) : Nat := k.base + 6

theorem table_shhl (k : Sh3) (b2 : Nat) :
    decodeCode (Gen.emitCb (opcodeShHl k)) = some (((rmwPre ++ (((rmwMidOff 0, Instr.sh8 k.host (hostR8 .E) 1) :: pipeAt rmwMidOff 0x6f 0x90) ++
      [(rmwMidOff 10, Instr.alu8i AluOp.and (R8.lo 0) 0x9f)])) ++ rmwPost rmwOff5) ++ [(103, addIp 2), (107, addCy 4)]) ∧
    bytesOf (Gen.emitCb (opcodeShHl k)) = 111 ∧ Gen.decode 0xcb (opcodeShHl k) b2 = (k.opHl, 2, 16) := by
  cases k <;> exact ⟨by decide +kernel, by decide +kernel, rfl⟩

/-- **SLA (HL), SRA (HL), SRL (HL)**: all states, any bus -/
theorem sim_shhl (k : Sh3) (b2 : Nat) : SimulatesCbMem (opcodeShHl k) b2 := by
  obtain ⟨hdec, hbytes, hop⟩ := table_shhl k b2
  refine ⟨_, hdec, ?_⟩
  intro β B hB g fuel st st' hsim hpc hrun
  rw [hbytes] at hrun
  rw [hop]
  show ∃ g' m', runOp B k.opHl g st.bus 2 = .ok (g', m', STATUS_NORMAL) ∧ Sim { g' with cycles := g'.cycles + 16 / 4 } st' ∧ _
  rw [show (16 : Nat) / 4 = 4 from rfl]
  obtain ⟨v, bus', hrd, hwr, hs', hb', hk', h14'⟩ := rmw_finish B hB
    (((rmwMidOff 0, Instr.sh8 k.host (hostR8 .E) 1) :: pipeAt rmwMidOff 0x6f 0x90) ++ [(rmwMidOff 10, Instr.alu8i AluOp.and (R8.lo 0) 0x9f)])
    (straight_app (straight_cons _ _ _ (fun _ _ e => Instr.noConfusion e) (fun _ e => Instr.noConfusion e) (straight_pipe _ _ _)) (straight_al _ _ _))
    rmwOff5 103 107 111 2 4 30 (by cases k <;> rfl) rfl (by decide) (by decide)
    (fun g' => flagsRot (setReg g' .E (k.res (getReg g' .E)).1) (k.res (getReg g' .E)) true)
    (fun v r => ((k.res v).1, flagsRot r (k.res v) true))
    (fun _ => True) (fun _ _ _ _ => trivial)
    (fun g' => by
      rw [getE_sameButAf (sameButAf_flagsRot _ _)]
      exact getReg_setReg_self g' .E _ (shOp_res k _ (getReg_lt g' .E) fl0).2.2.2)
    (fun g' => af_flagsRot _ _ _ _ rfl)
    (fun g1 g2 v h => ⟨rfl, af_flagsRot _ _ _ _ h⟩)
    (fun v g => sameButAf_flagsRot g _)
    (fun v g => by
      have hp := rotFlags_pack g (k.res v)
      have hlt : (((g.af % 256 &&& 0x0f) ||| (if (k.res v).2 then 0x10 else 0)) ||| (if (k.res v).1 == 0 then 0x80 else 0)) < 256 := by
        apply Nat.or_lt_two_pow (n := 8)
        · apply Nat.or_lt_two_pow (n := 8)
          · exact Nat.lt_of_le_of_lt Nat.and_le_right (by decide)
          · split <;> decide
        · split <;> decide
      exact hiA_pack _ _ _ (getReg_lt g .A) hlt hp g rfl)
    (fun g' => by
      obtain ⟨a, b, c, d⟩ := keep_sameButAf (sameButAf_flagsRot (setReg g' .E (k.res (getReg g' .E)).1) (k.res (getReg g' .E)))
      exact ⟨a, b, c, d⟩)
    (fun a b => b = a)
    (fun g' st0 s1 hs _ hex => by
      obtain ⟨q, u⟩ := sh_body B k .E rmwMidOff _ g' st0 s1 hs hex
      exact ⟨q, u.bus, u.stack, u.r14⟩)
    g fuel st st' hsim trivial hpc hrun
  refine ⟨advance (flagsRot g (k.res v) true) 2, bus', ?_, ⟨hs'.af, hs'.hl, hs'.de, hs'.bc, hs'.sp, hs'.ip, hs'.cy, hs'.size⟩, hb', hk', h14'⟩
  cases k
  · show (do let (r, m) ← rmwHL B g st.bus (fun v r => let res := sla v; (res.1, flagsRot r res true)); _) = _
    simp only [rmwHL, bind, Except.bind, hrd, pure, Except.pure]
    have hwr' : B.write st.bus (getReg16 g .HL) (sla v).1 = .ok bus' := hwr
    simp only [hwr']
    rfl
  · show (do let (r, m) ← rmwHL B g st.bus (fun v r => let res := sra v; (res.1, flagsRot r res true)); _) = _
    simp only [rmwHL, bind, Except.bind, hrd, pure, Except.pure]
    have hwr' : B.write st.bus (getReg16 g .HL) (sra v).1 = .ok bus' := hwr
    simp only [hwr']
    rfl
  · show (do let (r, m) ← rmwHL B g st.bus (fun v r => let res := srl v; (res.1, flagsRot r res true)); _) = _
    simp only [rmwHL, bind, Except.bind, hrd, pure, Except.pure]
    have hwr' : B.write st.bus (getReg16 g .HL) (srl v).1 = .ok bus' := hwr
    simp only [hwr']
    rfl

/-- the register file INC / DEC compute from the register file after the register write -/
def incF (g1 : Regs) (h : Bool) (x : Nat) (neg : Bool) : Regs :=
  testZero (if neg then setNeg (testHalf (applyMask g1 0xe0) h) else testHalf (applyMask g1 0xe0) h) x

theorem sameButAf_incF (g1 : Regs) (h : Bool) (x : Nat) (neg : Bool) : SameButAf g1 (incF g1 h x neg) :=
  sameButAf_incFlags g1 h x neg

theorem af_incF (r1 r2 : Regs) (h : Bool) (x : Nat) (neg : Bool) (e : r1.af = r2.af) : (incF r1 h x neg).af = (incF r2 h x neg).af := by
  cases neg
  · exact af_testZero _ _ _ (af_testHalf _ _ _ (af_applyMask _ _ _ e))
  · exact af_testZero _ _ _ (af_orF _ _ _ (af_testHalf _ _ _ (af_applyMask _ _ _ e)))

theorem incF_hiA (g : Regs) (h : Bool) (x : Nat) (neg : Bool) : (incF g h x neg).af % 65536 / 256 = g.af % 65536 / 256 := by
  have hp := incFlags_pack g h x neg
  have hlt : ((((g.af % 256 &&& 0x1f) ||| (if h then 0x20 else 0)) ||| (if neg then 0x40 else 0)) ||| (if x == 0 then 0x80 else 0)) < 256 := by
    apply Nat.or_lt_two_pow (n := 8)
    · apply Nat.or_lt_two_pow (n := 8)
      · apply Nat.or_lt_two_pow (n := 8)
        · exact Nat.lt_of_le_of_lt Nat.and_le_right (by decide)
        · split <;> decide
      · split <;> decide
    · split <;> decide
  exact hiA_pack _ _ _ (getReg_lt g .A) hlt hp g rfl

theorem table_incdechl (b1 b2 : Nat) :
    (decodeCode (Gen.emitOp 0x34) = some (((rmwPre ++ ((rmwMidOff 0, Instr.incdec8 false (hostR8 .E)) :: pipeAt rmwMidOff 31 224)) ++ rmwPost rmwOff4) ++ [(101, addIp 1), (105, addCy 3)]) ∧
      bytesOf (Gen.emitOp 0x34) = 109 ∧ Gen.decode 0x34 b1 b2 = (.IncrementHLIndirect, 1, 12)) ∧
    (decodeCode (Gen.emitOp 0x35) = some (((rmwPre ++ (((rmwMidOff 0, Instr.incdec8 true (hostR8 .E)) :: pipeAt rmwMidOff 31 224) ++
        [(rmwMidOff 10, Instr.alu8i AluOp.or (R8.lo 0) 64)])) ++ rmwPost rmwOff5) ++ [(103, addIp 1), (107, addCy 3)]) ∧
      bytesOf (Gen.emitOp 0x35) = 111 ∧ Gen.decode 0x35 b1 b2 = (.DecrementHLIndirect, 1, 12)) :=
  ⟨⟨by decide +kernel, by decide +kernel, rfl⟩, ⟨by decide +kernel, by decide +kernel, rfl⟩⟩

/-- **INC (HL)**: all states, any bus -/
theorem sim_inchl (b1 b2 : Nat) : SimulatesMem 0x34 b1 b2 := by
  obtain ⟨⟨hdec, hbytes, hop⟩, _⟩ := table_incdechl b1 b2
  refine ⟨_, hdec, ?_⟩
  intro β B hB g fuel st st' hsim hpc _ _ hrun
  rw [hbytes] at hrun
  rw [hop]
  show ∃ g' m', runOp B .IncrementHLIndirect g st.bus 1 = .ok (g', m', STATUS_NORMAL) ∧ Sim { g' with cycles := g'.cycles + 12 / 4 } st' ∧ _
  rw [show (12 : Nat) / 4 = 3 from rfl]
  obtain ⟨v, bus', hrd, hwr, hs', hb', hk', h14'⟩ := rmw_finish B hB ((rmwMidOff 0, Instr.incdec8 false (hostR8 .E)) :: pipeAt rmwMidOff 31 224)
    (straight_cons _ _ _ (fun _ _ e => Instr.noConfusion e) (fun _ e => Instr.noConfusion e) (straight_pipe _ _ _))
    rmwOff4 101 105 109 1 3 29 rfl rfl (by decide) (by decide)
    (fun g' => incF (setReg g' .E (u8 (getReg g' .E + 1))) (((getReg g' .E &&& 0x0f) + (1 &&& 0x0f)) &&& 0x10 != 0) (u8 (getReg g' .E + 1)) false)
    (fun v r => (u8 (v + 1), incF r (((v &&& 0x0f) + (1 &&& 0x0f)) &&& 0x10 != 0) (u8 (v + 1)) false))
    (fun _ => True) (fun _ _ _ _ => trivial)
    (fun g' => by
      rw [getE_sameButAf (sameButAf_incF _ _ _ false)]
      exact getReg_setReg_self g' .E _ (Nat.mod_lt _ (by decide)))
    (fun g' => af_incF _ _ _ _ _ rfl)
    (fun g1 g2 v h => ⟨rfl, af_incF _ _ _ _ _ h⟩)
    (fun v g => sameButAf_incFlags g _ _ false)
    (fun v g => incF_hiA g _ _ false)
    (fun g' => by
      obtain ⟨a, b, c, d⟩ := keep_sameButAf (sameButAf_incFlags (setReg g' .E (u8 (getReg g' .E + 1))) (((getReg g' .E &&& 0x0f) + (1 &&& 0x0f)) &&& 0x10 != 0) (u8 (getReg g' .E + 1)) false)
      exact ⟨a, b, c, d⟩)
    (fun a b => b = a)
    (fun g' st0 s1 hs _ hex => by
      obtain ⟨q, u⟩ := inc_body B .E rmwMidOff _ g' st0 s1 hs hex
      exact ⟨q, u.bus, u.stack, u.r14⟩)
    g fuel st st' hsim trivial hpc hrun
  refine ⟨advance (incF g (((v &&& 0x0f) + (1 &&& 0x0f)) &&& 0x10 != 0) (u8 (v + 1)) false) 1, bus', ?_, ⟨hs'.af, hs'.hl, hs'.de, hs'.bc, hs'.sp, hs'.ip, hs'.cy, hs'.size⟩, hb', hk', h14'⟩
  show (do let (r, m) ← rmwHL B g st.bus (fun v r => let res := carryAdd v 1; (res.1, testZero (testHalf (applyMask r 0xe0) res.2.2) res.1)); _) = _
  simp only [rmwHL, bind, Except.bind, hrd, pure, Except.pure]
  have hwr' : B.write st.bus (getReg16 g .HL) (carryAdd v 1).1 = .ok bus' := hwr
  simp only [hwr']
  rfl

set_option maxHeartbeats 1000000 in
/-- **DEC (HL)**: all states, any bus -/
theorem sim_dechl (b1 b2 : Nat) : SimulatesMem 0x35 b1 b2 := by
  obtain ⟨_, ⟨hdec, hbytes, hop⟩⟩ := table_incdechl b1 b2
  refine ⟨_, hdec, ?_⟩
  intro β B hB g fuel st st' hsim hpc _ _ hrun
  rw [hbytes] at hrun
  rw [hop]
  show ∃ g' m', runOp B .DecrementHLIndirect g st.bus 1 = .ok (g', m', STATUS_NORMAL) ∧ Sim { g' with cycles := g'.cycles + 12 / 4 } st' ∧ _
  rw [show (12 : Nat) / 4 = 3 from rfl]
  obtain ⟨v, bus', hrd, hwr, hs', hb', hk', h14'⟩ := rmw_finish B hB
    (((rmwMidOff 0, Instr.incdec8 true (hostR8 .E)) :: pipeAt rmwMidOff 31 224) ++ [(rmwMidOff 10, Instr.alu8i AluOp.or (R8.lo 0) 64)])
    (straight_app (straight_cons _ _ _ (fun _ _ e => Instr.noConfusion e) (fun _ e => Instr.noConfusion e) (straight_pipe _ _ _)) (straight_al _ _ _))
    rmwOff5 103 107 111 1 3 30 rfl rfl (by decide) (by decide)
    (fun g' => incF (setReg g' .E (u8 (getReg g' .E + 256 - 1))) (u8 ((getReg g' .E &&& 0x0f) + 256 - (1 &&& 0x0f)) &&& 0x10 != 0) (u8 (getReg g' .E + 256 - 1)) true)
    (fun v r => (u8 (v + 256 - 1), incF r (u8 ((v &&& 0x0f) + 256 - (1 &&& 0x0f)) &&& 0x10 != 0) (u8 (v + 256 - 1)) true))
    (fun _ => True) (fun _ _ _ _ => trivial)
    (fun g' => by
      rw [getE_sameButAf (sameButAf_incF _ _ _ true)]
      exact getReg_setReg_self g' .E _ (Nat.mod_lt _ (by decide)))
    (fun g' => af_incF _ _ _ _ _ rfl)
    (fun g1 g2 v h => ⟨rfl, af_incF _ _ _ _ _ h⟩)
    (fun v g => sameButAf_incFlags g _ _ true)
    (fun v g => incF_hiA g _ _ true)
    (fun g' => by
      obtain ⟨a, b, c, d⟩ := keep_sameButAf (sameButAf_incFlags (setReg g' .E (u8 (getReg g' .E + 256 - 1))) (u8 ((getReg g' .E &&& 0x0f) + 256 - (1 &&& 0x0f)) &&& 0x10 != 0) (u8 (getReg g' .E + 256 - 1)) true)
      exact ⟨a, b, c, d⟩)
    (fun a b => b = a)
    (fun g' st0 s1 hs _ hex => by
      obtain ⟨q, u⟩ := dec_body B .E rmwMidOff _ g' st0 s1 hs hex
      exact ⟨q, u.bus, u.stack, u.r14⟩)
    g fuel st st' hsim trivial hpc hrun
  refine ⟨advance (incF g (u8 ((v &&& 0x0f) + 256 - (1 &&& 0x0f)) &&& 0x10 != 0) (u8 (v + 256 - 1)) true) 1, bus', ?_, ⟨hs'.af, hs'.hl, hs'.de, hs'.bc, hs'.sp, hs'.ip, hs'.cy, hs'.size⟩, hb', hk', h14'⟩
  show (do let (r, m) ← rmwHL B g st.bus (fun v r => let res := carrySub v 1; (res.1, testZero (setNeg (testHalf (applyMask r 0xe0) res.2.2)) res.1)); _) = _
  simp only [rmwHL, bind, Except.bind, hrd, pure, Except.pure]
  have hwr' : B.write st.bus (getReg16 g .HL) (carrySub v 1).1 = .ok bus' := hwr
  simp only [hwr']
  rfl

/-! ### SWAP (HL) -/

def swapHlOff (k : Nat) : Nat := [0, 41, 42, 43, 46, 48, 51, 57, 62, 68, 70].getD k 0
def rmwOff6 (k : Nat) : Nat := [72, 76, 81, 91, 101, 103, 104, 105].getD k 0

theorem table_swaphl (b2 : Nat) :
    decodeCode (Gen.emitCb 0x36) = some (((rmwPre ++ swapBodyAt .E 36 39 swapHlOff) ++ rmwPost rmwOff6) ++ [(106, addIp 2), (110, addCy 4)]) ∧
    bytesOf (Gen.emitCb 0x36) = 114 ∧ Gen.decode 0xcb 0x36 b2 = (.SwapIndirect, 2, 16) :=
  ⟨by decide +kernel, by decide +kernel, rfl⟩

/-- **SWAP (HL)**: all states, any bus -/
theorem sim_swaphl (b2 : Nat) : SimulatesCbMem 0x36 b2 := by
  obtain ⟨hdec, hbytes, hop⟩ := table_swaphl b2
  refine ⟨_, hdec, ?_⟩
  intro β B hB g fuel st st' hsim hpc hrun
  rw [hbytes] at hrun
  rw [hop]
  show ∃ g' m', runOp B .SwapIndirect g st.bus 2 = .ok (g', m', STATUS_NORMAL) ∧ Sim { g' with cycles := g'.cycles + 16 / 4 } st' ∧ _
  rw [show (16 : Nat) / 4 = 4 from rfl]
  obtain ⟨v, bus', hrd, hwr, hs', hb', hk', h14'⟩ := rmw_finish B hB (swapBodyAt .E 36 39 swapHlOff) (straight_swapBodyAt _ _ _ _)
    rmwOff6 106 110 114 2 4 31 rfl rfl (by decide) (by decide)
    (fun g' => testZero (applyMask (setReg g' .E (swapN (getReg g' .E))) 0xf0) (swapN (getReg g' .E)))
    (fun v r => (swapN v, testZero (applyMask r 0xf0) (swapN v)))
    (fun _ => True) (fun _ _ _ _ => trivial)
    (fun g' => by
      rw [getE_sameButAf ((sameButAf_applyMask _ _).trans (sameButAf_testZero _ _))]
      exact getReg_setReg_self g' .E _ (rol4_swap _ (getReg_lt g' .E) fl0).2)
    (fun g' => af_testZero _ _ _ (af_applyMask _ _ _ rfl))
    (fun g1 g2 v h => ⟨rfl, af_testZero _ _ _ (af_applyMask _ _ _ h)⟩)
    (fun v g => (sameButAf_applyMask g _).trans (sameButAf_testZero _ _))
    (fun v g => by
      have hp := swapFlags_pack g (swapN v)
      have hlt : ((g.af % 256 &&& 0x0f) ||| (if swapN v == 0 then 0x80 else 0)) < 256 := by
        apply Nat.or_lt_two_pow (n := 8)
        · exact Nat.lt_of_le_of_lt Nat.and_le_right (by decide)
        · split <;> decide
      exact hiA_pack _ _ _ (getReg_lt g .A) hlt hp g rfl)
    (fun g' => by
      obtain ⟨a, b, c, d⟩ := keep_sameButAf ((sameButAf_applyMask (setReg g' .E (swapN (getReg g' .E))) 0xf0).trans (sameButAf_testZero _ (swapN (getReg g' .E))))
      exact ⟨a, b, c, d⟩)
    (fun a b => b = a)
    (fun g' st0 s1 hs _ hex => by
      obtain ⟨q, u⟩ := swap_body_at B .E 36 39 swapHlOff _ g' st0 s1 hs hex
      exact ⟨q, u.bus, u.stack, u.r14⟩)
    g fuel st st' hsim trivial hpc hrun
  refine ⟨advance (testZero (applyMask g 0xf0) (swapN v)) 2, bus', ?_, ⟨hs'.af, hs'.hl, hs'.de, hs'.bc, hs'.sp, hs'.ip, hs'.cy, hs'.size⟩, hb', hk', h14'⟩
  show (do let (r, m) ← rmwHL B g st.bus (fun v r => let x := swapN v; (x, testZero (applyMask r 0xf0) x)); _) = _
  simp only [rmwHL, bind, Except.bind, hrd, pure, Except.pure]
  have hwr' : B.write st.bus (getReg16 g .HL) (swapN v) = .ok bus' := hwr
  simp only [hwr']

/-! ### RLC (HL), RRC (HL): the middle leaves 0 or 0x80 in the status byte -/

/-- `SimulatesCbMem` for templates that use r14b as scratch -/
def SimulatesCbMemS (b1 b2 : Nat) : Prop :=
  ∃ code, decodeCode (Gen.emitCb b1) = some code ∧
  ∀ (β : Type) (B : BusOps β), ByteReads B → ∀ (g : Regs) (fuel : Nat) (st st' : St β), Sim g st → st.pc = 0 →
    run B code (bytesOf (Gen.emitCb b1)) fuel st = .ok st' →
    ∃ g' m', runOp B (Gen.decode 0xcb b1 b2).1 g st.bus (Gen.decode 0xcb b1 b2).2.1 = .ok (g', m', STATUS_NORMAL) ∧
      Sim { g' with cycles := g'.cycles + (Gen.decode 0xcb b1 b2).2.2 / 4 } st' ∧ st'.bus = m' ∧ st'.stack = st.stack ∧
      (get8 st' (.lo 14) = 0 ∨ get8 st' (.lo 14) = 0x80)

/-- rotate, carry, zero: the register form of RLC / RRC at any offsets -/
theorem rc_body (B : BusOps β) (k : Rc2) (r : Reg8) (o : Nat → Nat) (z0 z1 z2 z3 e : Nat) (g : Regs) (st s6 : St β) (hs : Sim g st)
    (hex : execList B e (rotcBody k r o ++ zTail r z0 z1 z2 z3) st = .ok s6) :
    Sim (flagsRot (setReg g r (k.res (getReg g r)).1) (k.res (getReg g r)) true) s6 ∧ s6.bus = st.bus ∧ s6.stack = st.stack ∧
    (get8 s6 (.lo 14) = 0 ∨ get8 s6 (.lo 14) = 0x80) := by
  obtain ⟨s3, hb1, hb2⟩ := execList_append B e _ (rotcBody k r o) st s6 hex
  obtain ⟨hs3, hu3⟩ := rotc_body B k r o _ g st s3 hs hb1
  generalize hg1 : setReg g r (k.res (getReg g r)).1 = g1 at hs3 ⊢
  have hxlt := (rot1_res k (getReg g r) (getReg_lt g r) fl0).2.2
  have hx : getReg g1 r = (k.res (getReg g r)).1 := by rw [← hg1]; exact getReg_setReg_self g r _ hxlt
  generalize hres : k.res (getReg g r) = res at hs3 hx ⊢
  have hlt : ((g1.af % 256 &&& 0x0f) ||| (if res.2 then 0x10 else 0)) < 256 := by
    apply Nat.or_lt_two_pow (n := 8)
    · exact Nat.lt_of_le_of_lt Nat.and_le_right (by decide)
    · split <;> decide
  obtain ⟨hs6, hbus, hstk, h14⟩ := ztail_body B r z0 z1 z2 z3 e (flagsRot g1 res false) (getReg g1 .A) _ (getReg_lt g1 .A) hlt
    (rotFlagsC_pack g1 res) s3 s6 hs3 hb2
  rw [getReg_flagsRotC, hx] at hs6
  exact ⟨hs6, by rw [hbus, hu3.bus], by rw [hstk, hu3.stack], h14⟩

def rcHlZ (k : Nat) : Nat := [69, 71, 75, 78].getD k 0
def rmwOff7 (k : Nat) : Nat := [81, 85, 90, 100, 110, 112, 113, 114].getD k 0

def Rc2.opHl : Rc2 → Op
  | .rlc => .RotateLeftCarryIndirect | .rrc => .RotateRightCarryIndirect
def opcodeRcHl (k : Rc2) : Nat := k.base + 6

theorem table_rchl (k : Rc2) (b2 : Nat) :
    decodeCode (Gen.emitCb (opcodeRcHl k)) = some (((rmwPre ++ (rotcBody k .E rmwMidOff ++ zTail .E 69 71 75 78)) ++ rmwPost rmwOff7) ++ [(115, addIp 2), (119, addCy 4)]) ∧
    bytesOf (Gen.emitCb (opcodeRcHl k)) = 123 ∧ Gen.decode 0xcb (opcodeRcHl k) b2 = (k.opHl, 2, 16) := by
  cases k <;> exact ⟨by decide +kernel, by decide +kernel, rfl⟩

/-- **RLC (HL), RRC (HL)**: all states, any bus; the status byte is left at 0 or 0x80 -/
theorem sim_rchl (k : Rc2) (b2 : Nat) : SimulatesCbMemS (opcodeRcHl k) b2 := by
  obtain ⟨hdec, hbytes, hop⟩ := table_rchl k b2
  refine ⟨_, hdec, ?_⟩
  intro β B hB g fuel st st' hsim hpc hrun
  rw [hbytes] at hrun
  rw [hop]
  show ∃ g' m', runOp B k.opHl g st.bus 2 = .ok (g', m', STATUS_NORMAL) ∧ Sim { g' with cycles := g'.cycles + 16 / 4 } st' ∧ _
  rw [show (16 : Nat) / 4 = 4 from rfl]
  obtain ⟨v, bus', hrd, hwr, hs', hb', hk', h14'⟩ := rmw_finish B hB (rotcBody k .E rmwMidOff ++ zTail .E 69 71 75 78)
    (straight_app (straight_rotcBody k .E _) (straight_zTail .E _ _ _ _))
    rmwOff7 115 119 123 2 4 34 (by cases k <;> rfl) rfl (by decide) (by decide)
    (fun g' => flagsRot (setReg g' .E (k.res (getReg g' .E)).1) (k.res (getReg g' .E)) true)
    (fun v r => ((k.res v).1, flagsRot r (k.res v) true))
    (fun _ => True) (fun _ _ _ _ => trivial)
    (fun g' => by
      rw [getE_sameButAf (sameButAf_flagsRot _ _)]
      exact getReg_setReg_self g' .E _ (rot1_res k _ (getReg_lt g' .E) fl0).2.2)
    (fun g' => af_flagsRot _ _ _ _ rfl)
    (fun g1 g2 v h => ⟨rfl, af_flagsRot _ _ _ _ h⟩)
    (fun v g => sameButAf_flagsRot g _)
    (fun v g => by
      have hp := rotFlags_pack g (k.res v)
      have hlt : (((g.af % 256 &&& 0x0f) ||| (if (k.res v).2 then 0x10 else 0)) ||| (if (k.res v).1 == 0 then 0x80 else 0)) < 256 := by
        apply Nat.or_lt_two_pow (n := 8)
        · apply Nat.or_lt_two_pow (n := 8)
          · exact Nat.lt_of_le_of_lt Nat.and_le_right (by decide)
          · split <;> decide
        · split <;> decide
      exact hiA_pack _ _ _ (getReg_lt g .A) hlt hp g rfl)
    (fun g' => by
      obtain ⟨a, b, c, d⟩ := keep_sameButAf (sameButAf_flagsRot (setReg g' .E (k.res (getReg g' .E)).1) (k.res (getReg g' .E)))
      exact ⟨a, b, c, d⟩)
    (fun _ b => b.toNat % 256 = 0 ∨ b.toNat % 256 = 0x80)
    (fun g' st0 s1 hs _ hex => rc_body B k .E rmwMidOff 69 71 75 78 _ g' st0 s1 hs hex)
    g fuel st st' hsim trivial hpc hrun
  refine ⟨advance (flagsRot g (k.res v) true) 2, bus', ?_, ⟨hs'.af, hs'.hl, hs'.de, hs'.bc, hs'.sp, hs'.ip, hs'.cy, hs'.size⟩, hb', hk', h14'⟩
  cases k
  · show (do let (r, m) ← rmwHL B g st.bus (fun v r => let res := rlCircular v; (res.1, flagsRot r res true)); _) = _
    simp only [rmwHL, bind, Except.bind, hrd, pure, Except.pure]
    have hwr' : B.write st.bus (getReg16 g .HL) (rlCircular v).1 = .ok bus' := hwr
    simp only [hwr']
    rfl
  · show (do let (r, m) ← rmwHL B g st.bus (fun v r => let res := rrCircular v; (res.1, flagsRot r res true)); _) = _
    simp only [rmwHL, bind, Except.bind, hrd, pure, Except.pure]
    have hwr' : B.write st.bus (getReg16 g .HL) (rrCircular v).1 = .ok bus' := hwr
    simp only [hwr']
    rfl

end GbVerif.X86
