import GbVerif.Model.Core
import GbVerif.Spec.Interrupt
import GbVerif.Proofs.BusIo
/-!
C07: `Core.handleInterrupt` (model of `Core::handle_interrupt`) equals the dispatch spec `InterruptSpec.dispatch`
on every well-formed state.  Bus facts used: IF / IE read back through 0xFF0F / 0xFFFF, every bus write keeps
IF and IE five-bit, and clearing one IF bit through a bus write equals the model's in-place mask.
-/
namespace GbVerif.CoreProofs
open GbVerif.Core GbVerif.Bus GbVerif.BusProofs

/-- the interrupt registers as the code keeps them: IF and IE five bits, the upper IE bits stored apart -/
structure IoInv (io : Io) : Prop where
  ifl : io.ifl < 32
  ie : io.ie < 32
  ieu : io.ieUpper % 32 = 0

/-- well-formed core state: bus buffers as `Bus.create` makes them, five-bit IF/IE, 16-bit SP and PC -/
structure WFc (c : Core.State) : Prop where
  io : IoInv c.bus.io
  bus : BusProofs.WF c.bus
  sp : c.regs.sp < 65536
  ip : c.regs.ip < 65536

/-! ### bit facts (kernel enumeration over the 5-bit registers) -/

theorem or_e0_mod : ∀ f, f < 32 → (f ||| 0xe0) % 32 = f := by decide +kernel

theorem or_lt32 {x f : Nat} (hx : x < 32) (hf : f < 32) : x ||| f < 32 :=
  Nat.or_lt_two_pow (n := 5) hx hf

theorem and_1f_lt (v : Nat) : v &&& 0x1f < 32 := by
  have := Nat.and_two_pow_sub_one_eq_mod v 5
  simp only [show (2:Nat)^5 - 1 = 0x1f from rfl] at this; rw [this]; omega

theorem and_e0_mod (v : Nat) : (v &&& 0xe0) % 32 = 0 := by
  rw [show (32:Nat) = 2^5 from rfl, Nat.and_mod_two_pow]
  show v % 2^5 &&& 0 = 0
  exact Nat.and_zero _

theorem ie_or_mod {e u : Nat} (he : e < 32) (hu : u % 32 = 0) : (e ||| u) % 32 = e := by
  rw [show (32:Nat) = 2^5 from rfl, Nat.or_mod_two_pow, show (2:Nat)^5 = 32 from rfl, hu, Nat.mod_eq_of_lt he]
  exact Nat.or_zero _

/-- clearing bit `bit` of a five-bit IF by writing `f − (f / bit % 2)·bit` to 0xFF0F (which keeps the low five bits)
is the model's `&= !bit` -/
theorem clear_bit_eq : ∀ f, f < 32 → ∀ bit ∈ [1, 2, 4, 8, 16],
    (f - (f / bit % 2) * bit) &&& 0x1f = f &&& ((bit ^^^ 0xff) % 256) := by decide +kernel

theorem and_ff_id : ∀ f, f < 32 → f &&& ((0 ^^^ 0xff) % 256) = f := by decide +kernel

/-- the priority chain of the code is "first source in VBlank, STAT, Timer, Serial, Joypad order whose bit is set" -/
theorem chain_eq_find : ∀ p, p < 32 →
    InterruptSpec.sources.find? (fun s => p &&& s.1 ≠ 0) =
      (if p == 0 then none
       else if p &&& 1 != 0 then some (1, 0x40)
       else if p &&& 2 != 0 then some (2, 0x48)
       else if p &&& 4 != 0 then some (4, 0x50)
       else if p &&& 8 != 0 then some (8, 0x58)
       else some (16, 0x60)) := by decide +kernel

theorem and_lt32 {a b : Nat} (ha : a < 32) : a &&& b < 32 := Nat.lt_of_le_of_lt Nat.and_le_left ha

/-! ### the interrupt registers through the bus -/

theorem read_if (s : Bus.State) : Bus.read s 0xff0f = .ok (s.io.ifl ||| 0xe0) := by
  rw [read_io s 0xff0f (by omega) (by omega)]; rfl

theorem read_ie' (s : Bus.State) : Bus.read s 0xffff = .ok (s.io.ie ||| s.io.ieUpper) := read_ie s 0xffff rfl

theorem write_if (s : Bus.State) (v : Nat) :
    Bus.write s 0xff0f v = .ok { s with io := { s.io with ifl := v &&& 0x1f } } := by
  rw [write_io s 0xff0f v (by omega) (by omega)]; rfl

/-- what the guest sees as IF ∧ IE is the code's `get_active_interrupts` -/
theorem pending_eq (s : Bus.State) (h : IoInv s.io) : InterruptSpec.pending s = .ok (activeInterrupts s) := by
  unfold InterruptSpec.pending activeInterrupts
  rw [read_if, read_ie']
  show Except.ok _ = _
  rw [or_e0_mod _ h.ifl, ie_or_mod h.ie h.ieu]

theorem setControl_flag (t : TimerRegs) (v : Nat) : (t.setControl v).2 = 0 ∨ (t.setControl v).2 = 4 := by
  unfold TimerRegs.setControl
  simp only []
  repeat' split
  all_goals first | exact Or.inl rfl | exact Or.inr rfl

theorem checkLine_flag (v : VideoRegs) : v.checkLine = 0 ∨ v.checkLine = 2 := by
  unfold VideoRegs.checkLine; split
  · exact Or.inr rfl
  · exact Or.inl rfl

theorem or_checkLine_lt {x : Nat} (v : VideoRegs) (h : x < 32) : x ||| v.checkLine < 32 := by
  rcases checkLine_flag v with hf | hf <;> rw [hf]
  · simpa using h
  · exact or_lt32 h (by omega)

theorem or_setControl_lt {x : Nat} (t : TimerRegs) (v : Nat) (h : x < 32) : x ||| (t.setControl v).2 < 32 := by
  rcases setControl_flag t v with hf | hf <;> rw [hf]
  · simpa using h
  · exact or_lt32 h (by omega)

/-- no register write makes IF or IE wider than five bits (TAC / STAT / LYC writes OR in 4 or 2; IF writes mask) -/
theorem setByte_inv (io : Io) (a v : Nat) (h : IoInv io) : IoInv (io.setByte a v) := by
  obtain ⟨h1, h2, h3⟩ := h
  unfold Io.setByte
  split
  case h_7 => exact ⟨or_setControl_lt io.timer v h1, h2, h3⟩
  case h_8 => exact ⟨and_1f_lt v, h2, h3⟩
  case h_10 => exact ⟨or_checkLine_lt _ h1, h2, h3⟩
  case h_13 => exact ⟨or_checkLine_lt _ h1, h2, h3⟩
  all_goals exact ⟨h1, h2, h3⟩

/-- every bus write (any address, any value) keeps the interrupt registers well-formed -/
theorem write_inv {s s' : Bus.State} (wf : BusProofs.WF s) (hi : IoInv s.io) {a v : Nat} (ha : a < 65536)
    (h : Bus.write s a v = .ok s') : IoInv s'.io := by
  rcases write_io_cases wf ha h with e | e | e
  · rw [e]; exact hi
  · rw [e]; exact ⟨hi.ifl, and_1f_lt v, and_e0_mod v⟩
  · rw [e]; exact setByte_inv _ _ _ hi

/-! ### the model is the spec -/

theorem u32_dec {x : Nat} (_h : x < 65536) : (Interp.u32 (x + 4294967295) &&& 0xffff) = (x + 65535) % 65536 := by
  unfold Interp.u32
  rw [Nat.and_two_pow_sub_one_eq_mod _ 16]; omega

/-- the code's priority chain: (vector, IF bit to clear) -/
def chain (ints : Nat) : Nat × Nat :=
  if ints == 0 then (0x00, 0x00)
  else if ints &&& 1 != 0 then (0x40, 0x01)
  else if ints &&& 2 != 0 then (0x48, 0x02)
  else if ints &&& 4 != 0 then (0x50, 0x04)
  else if ints &&& 8 != 0 then (0x58, 0x08)
  else (0x60, 0x10)

/-- the state after a dispatch, given the bus after the high-byte push (`b1`), after the low-byte push (`b2`) and SP -/
def dispatched (c : Core.State) (b1 b2 : Bus.State) (sp2 : Nat) : Core.State :=
  { c with run := .Run, ime := .Disabled,
           bus := { b2 with io := { b2.io with ifl := b2.io.ifl &&& (((chain (activeInterrupts b1)).2 ^^^ 0xff) % 256) } },
           regs := { c.regs with sp := sp2, cycles := c.regs.cycles + 5, ip := (chain (activeInterrupts b1)).1 },
           charged := c.charged + 5 }

theorem handleInterrupt_unfold (c : Core.State) : handleInterrupt c =
    if activeInterrupts c.bus == 0 then .ok c
    else if c.ime != .Enabled then .ok { c with run := .Run }
    else
      Bus.write c.bus ((Interp.u32 (c.regs.sp + 4294967295) &&& 0xffff) % 65536) ((c.regs.ip >>> 8) % 256) >>= fun b1 =>
      Bus.write b1 ((Interp.u32 ((Interp.u32 (c.regs.sp + 4294967295) &&& 0xffff) + 4294967295) &&& 0xffff) % 65536)
        (c.regs.ip &&& 0xff) >>= fun b2 =>
      .ok (dispatched c b1 b2 (Interp.u32 ((Interp.u32 (c.regs.sp + 4294967295) &&& 0xffff) + 4294967295) &&& 0xffff)) := rfl

theorem bind_ok {ε α β : Type} {x : Except ε α} {v : α} (h : x = .ok v) (f : α → Except ε β) : (x >>= f) = f v := by
  subst h; rfl

theorem ok_inj {ε α : Type} {x : Except ε α} {a b : α} (h1 : x = .ok a) (h2 : x = .ok b) : a = b := by
  rw [h1] at h2; injection h2

theorem handleInterrupt_closed (c : Core.State) (h : WFc c) (h0 : activeInterrupts c.bus ≠ 0) (hi : c.ime = .Enabled)
    {b1 b2 : Bus.State} (hb1 : Bus.write c.bus ((c.regs.sp + 65535) % 65536) (c.regs.ip / 256) = .ok b1)
    (hb2 : Bus.write b1 ((c.regs.sp + 65534) % 65536) (c.regs.ip % 256) = .ok b2) :
    handleInterrupt c = .ok (dispatched c b1 b2 ((c.regs.sp + 65534) % 65536)) := by
  obtain ⟨_, _, hsp, hip⟩ := h
  have e1 : (Interp.u32 (c.regs.sp + 4294967295) &&& 0xffff) = (c.regs.sp + 65535) % 65536 := u32_dec hsp
  have e2 : (Interp.u32 ((c.regs.sp + 65535) % 65536 + 4294967295) &&& 0xffff) = (c.regs.sp + 65534) % 65536 := by
    rw [u32_dec (Nat.mod_lt _ (by omega))]; omega
  have e3 : (c.regs.ip >>> 8) % 256 = c.regs.ip / 256 := by rw [Nat.shiftRight_eq_div_pow]; omega
  have e4 : c.regs.ip &&& 0xff = c.regs.ip % 256 := and_ff _
  rw [handleInterrupt_unfold]
  rw [if_neg (beq_ne h0)]
  rw [if_neg (by rw [hi]; decide)]
  rw [e1]
  rw [e2]
  rw [e3, e4]
  rw [Nat.mod_mod]
  rw [Nat.mod_mod]
  exact (bind_ok hb1 _).trans (bind_ok hb2 _)

/-- IF with the bits of `m` cleared, in place (what `interrupt_flag.clear(m)` does) -/
def clr (b : Bus.State) (m : Nat) : Bus.State := { b with io := { b.io with ifl := b.io.ifl &&& ((m ^^^ 0xff) % 256) } }

theorem clr_zero (b : Bus.State) (h : IoInv b.io) : clr b 0 = b := by
  unfold clr; rw [and_ff_id _ h.ifl]

theorem clear_via_bus (b : Bus.State) (h : IoInv b.io) (bit : Nat) (hb : bit ∈ [1, 2, 4, 8, 16]) {γ : Type}
    (k : Bus.State → Except Bus.Panic γ) :
    (Bus.read b 0xff0f >>= fun f => Bus.write b 0xff0f (f % 32 - (f % 32 / bit % 2) * bit) >>= fun b' => k b') = k (clr b bit) := by
  refine (bind_ok (read_if b) _).trans ?_
  refine (bind_ok (write_if b _) _).trans ?_
  show k _ = k _
  rw [or_e0_mod _ h.ifl, clear_bit_eq _ h.ifl bit hb]; rfl

theorem tail_eq {γ : Type} (b2 : Bus.State) (hio2 : IoInv b2.io) (p' : Nat) (hp : p' < 32)
    (k : Bus.State × Nat → Except Bus.Panic γ) :
    (match InterruptSpec.sources.find? (fun s => decide (p' &&& s.1 ≠ 0)) with
     | some (bit, vector) =>
       (Bus.read b2 0xff0f >>= fun f => Bus.write b2 0xff0f (f % 32 - (f % 32 / bit % 2) * bit) >>= fun b => k (b, vector))
     | none => k (b2, 0)) = k (clr b2 (chain p').2, (chain p').1) := by
  rw [chain_eq_find p' hp]
  unfold chain
  by_cases c0 : (p' == 0) = true
  · rw [if_pos c0, if_pos c0]; show k _ = k _; rw [clr_zero b2 hio2]
  rw [if_neg c0, if_neg c0]
  by_cases c1 : (p' &&& 1 != 0) = true
  · rw [if_pos c1, if_pos c1]; exact clear_via_bus b2 hio2 1 (by decide) (fun b => k (b, 0x40))
  rw [if_neg c1, if_neg c1]
  by_cases c2 : (p' &&& 2 != 0) = true
  · rw [if_pos c2, if_pos c2]; exact clear_via_bus b2 hio2 2 (by decide) (fun b => k (b, 0x48))
  rw [if_neg c2, if_neg c2]
  by_cases c3 : (p' &&& 4 != 0) = true
  · rw [if_pos c3, if_pos c3]; exact clear_via_bus b2 hio2 4 (by decide) (fun b => k (b, 0x50))
  rw [if_neg c3, if_neg c3]
  by_cases c4 : (p' &&& 8 != 0) = true
  · rw [if_pos c4, if_pos c4]; exact clear_via_bus b2 hio2 8 (by decide) (fun b => k (b, 0x58))
  rw [if_neg c4, if_neg c4]
  exact clear_via_bus b2 hio2 16 (by decide) (fun b => k (b, 0x60))

theorem dispatch_closed (c : Core.State) (h : WFc c) (h0 : activeInterrupts c.bus ≠ 0) (hi : c.ime = .Enabled)
    {b1 b2 : Bus.State} (hb1 : Bus.write c.bus ((c.regs.sp + 65535) % 65536) (c.regs.ip / 256) = .ok b1)
    (hb2 : Bus.write b1 ((c.regs.sp + 65534) % 65536) (c.regs.ip % 256) = .ok b2) :
    InterruptSpec.dispatch c = .ok (dispatched c b1 b2 ((c.regs.sp + 65534) % 65536)) := by
  obtain ⟨hio, hbus, hsp, hip⟩ := h
  have hio1 := write_inv hbus hio (Nat.mod_lt _ (by omega)) hb1
  have hbus1 := wf_write hbus hb1
  have hio2 := write_inv hbus1 hio1 (Nat.mod_lt _ (by omega)) hb2
  unfold InterruptSpec.dispatch
  refine (bind_ok (pending_eq _ hio) _).trans ?_
  rw [if_neg h0]
  dsimp only
  rw [if_neg (by rw [hi]; exact fun h => h rfl)]
  rw [Nat.mod_eq_of_lt hsp, Nat.mod_eq_of_lt hip]
  refine (bind_ok hb1 _).trans ?_
  refine (bind_ok (pending_eq _ hio1) _).trans ?_
  refine (bind_ok hb2 _).trans ?_
  refine (tail_eq b2 hio2 (activeInterrupts b1) (and_lt32 hio1.ifl) (fun x : Bus.State × Nat => (.ok
    { c with run := .Run, ime := .Disabled, bus := x.1, charged := c.charged + 5,
             regs := { c.regs with sp := (c.regs.sp + 65534) % 65536, ip := x.2, cycles := c.regs.cycles + 5 } }
      : Except Bus.Panic Core.State))).trans ?_
  rfl

/-- **C07**: on every well-formed state the model of `Core::handle_interrupt` is the dispatch spec -/
theorem dispatch_spec (c : Core.State) (h : WFc c) : handleInterrupt c = InterruptSpec.dispatch c := by
  by_cases h0 : activeInterrupts c.bus = 0
  · rw [handleInterrupt_unfold, if_pos (beq_eq h0)]
    unfold InterruptSpec.dispatch
    refine ((bind_ok (pending_eq _ h.io) _).trans ?_).symm
    rw [if_pos h0]; rfl
  by_cases hi : c.ime = .Enabled
  · obtain ⟨b1, hb1⟩ := write_total h.bus (c.regs.ip / 256) (show (c.regs.sp + 65535) % 65536 < 65536 from Nat.mod_lt _ (by omega))
    obtain ⟨b2, hb2⟩ := write_total (wf_write h.bus hb1) (c.regs.ip % 256)
      (show (c.regs.sp + 65534) % 65536 < 65536 from Nat.mod_lt _ (by omega))
    rw [handleInterrupt_closed c h h0 hi hb1 hb2, dispatch_closed c h h0 hi hb1 hb2]
  · rw [handleInterrupt_unfold, if_neg (beq_ne h0), if_pos (by cases hc : c.ime <;> simp_all)]
    unfold InterruptSpec.dispatch
    refine ((bind_ok (pending_eq _ h.io) _).trans ?_).symm
    rw [if_neg h0]
    dsimp only
    rw [if_pos hi]; rfl

/-! ### the three outcomes of `handle_interrupt`, for the corollaries -/

theorem handleInterrupt_idle (c : Core.State) (h0 : activeInterrupts c.bus = 0) : handleInterrupt c = .ok c := by
  rw [handleInterrupt_unfold, if_pos (beq_eq h0)]

theorem handleInterrupt_masked (c : Core.State) (h0 : activeInterrupts c.bus ≠ 0) (hi : c.ime ≠ .Enabled) :
    handleInterrupt c = .ok { c with run := .Run } := by
  rw [handleInterrupt_unfold, if_neg (beq_ne h0), if_pos (by cases hc : c.ime <;> simp_all)]

theorem handleInterrupt_taken (c : Core.State) (h : WFc c) (h0 : activeInterrupts c.bus ≠ 0) (hi : c.ime = .Enabled) :
    ∃ b1 b2, Bus.write c.bus ((c.regs.sp + 65535) % 65536) (c.regs.ip / 256) = .ok b1 ∧
      Bus.write b1 ((c.regs.sp + 65534) % 65536) (c.regs.ip % 256) = .ok b2 ∧
      IoInv b1.io ∧ IoInv b2.io ∧ BusProofs.WF b2 ∧
      handleInterrupt c = .ok (dispatched c b1 b2 ((c.regs.sp + 65534) % 65536)) := by
  obtain ⟨b1, hb1⟩ := write_total h.bus (c.regs.ip / 256) (show (c.regs.sp + 65535) % 65536 < 65536 from Nat.mod_lt _ (by omega))
  obtain ⟨b2, hb2⟩ := write_total (wf_write h.bus hb1) (c.regs.ip % 256)
    (show (c.regs.sp + 65534) % 65536 < 65536 from Nat.mod_lt _ (by omega))
  have hio1 := write_inv h.bus h.io (Nat.mod_lt _ (by omega)) hb1
  have hbus1 := wf_write h.bus hb1
  exact ⟨b1, b2, hb1, hb2, hio1, write_inv hbus1 hio1 (Nat.mod_lt _ (by omega)) hb2, wf_write hbus1 hb2,
    handleInterrupt_closed c h h0 hi hb1 hb2⟩

/-- the chain picks the lowest set bit `i` of the sampled value: vector 0x40 + 8·i, IF bit 2^i -/
theorem chain_lowest : ∀ p, p < 32 → p ≠ 0 →
    ∃ i, i < 5 ∧ (p / 2^i % 2 = 1 ∧ (∀ j, j < i → p / 2^j % 2 = 0) ∧ chain p = (0x40 + 8 * i, 2^i)) := by decide +kernel

theorem chain_zero : chain 0 = (0, 0) := rfl

/-- masking with `!2^i` removes exactly bit `i` (if set) from a five-bit value -/
theorem mask_bit : ∀ f, f < 32 → ∀ i, i < 5 → f &&& (((2^i) ^^^ 0xff) % 256) = f - (f / 2^i % 2) * 2^i := by decide +kernel

/-- `dispatched` keeps the interrupt registers and the buffers well-formed -/
theorem wfc_dispatched (c : Core.State) (b1 b2 : Bus.State) (h2 : IoInv b2.io) (w2 : BusProofs.WF b2) (sp2 : Nat) (hs : sp2 < 65536)
    (hp : activeInterrupts b1 < 32) : WFc (dispatched c b1 b2 sp2) := by
  refine ⟨⟨and_lt32 h2.ifl, h2.ie, h2.ieu⟩, ⟨w2.vram, w2.wram, w2.oam, w2.hram, w2.romLen, w2.banks⟩, hs, ?_⟩
  show (chain (activeInterrupts b1)).1 < 65536
  have : ∀ p, p < 32 → (chain p).1 < 65536 := by decide +kernel
  exact this _ hp

end GbVerif.CoreProofs


