import GbVerif.Proofs.Sm83Abs
/-!
Rotates / shifts / SWAP, INC / DEC flag computation and the single-bit operations: the interpreter's primitives
equal the SM83 `rot[y]` table and the arithmetic bit-operation definitions for every byte and carry-in.
-/
namespace GbVerif.C05
open GbVerif.Interp GbVerif.Sm83Bits GbVerif.Enum
open GbVerif.SM83 (Cpu mkF flagZ flagN flagH flagC)

/-- the interpreter's eight rotate/shift primitives, indexed like the SM83 `rot[y]` table -/
def rotModel (y v af : Nat) : Nat × Bool :=
  match y with
  | 0 => rlCircular v | 1 => rrCircular v | 2 => rlThrough v af | 3 => rrThrough v af
  | 4 => sla v | 5 => sra v | 6 => (swapN v, false) | _ => srl v

/-- (result, carry) of the SM83 `rot[y]` with carry-in `e` -/
def rotRes (e y v : Nat) : Nat × Bool :=
  match y with
  | 0 => ((v * 2) % 256 + v / 128, v / 128 = 1)
  | 1 => (v / 2 + (v % 2) * 128, v % 2 = 1)
  | 2 => ((v * 2) % 256 + e, v / 128 = 1)
  | 3 => (v / 2 + e * 128, v % 2 = 1)
  | 4 => ((v * 2) % 256, v / 128 = 1)
  | 5 => (v / 2 + (v / 128) * 128, v % 2 = 1)
  | 6 => ((v % 16) * 16 + v / 16, false)
  | _ => (v / 2, v % 2 = 1)

theorem rot_eq (f y v : Nat) :
    SM83.rot f y v = ((rotRes (if flagC f then 1 else 0) y v).1,
      mkF ((rotRes (if flagC f then 1 else 0) y v).1 = 0) false false (rotRes (if flagC f then 1 else 0) y v).2) := rfl

/-- all eight primitives on every byte and both carry-ins (4096 cases) -/
theorem rotModel_enum : ∀ n, n < 2 ^ 12 →
    rotModel (n / 512) (n % 256) ((n / 256 % 2) * 16) = rotRes (n / 256 % 2) (n / 512) (n % 256) := by
  intro n hn
  have := forall_lt_of_allRange (fun n =>
    decide (rotModel (n / 512) (n % 256) ((n / 256 % 2) * 16) = rotRes (n / 256 % 2) (n / 512) (n % 256))) 12
    (by decide +kernel) n hn
  exact of_decide_eq_true this

/-- the rotate primitives only look at bit 4 of AF -/
theorem rotModel_af (y v af : Nat) : rotModel y v af = rotModel y v ((af / 16 % 2) * 16) := by
  have h : af &&& 0x10 = ((af / 16 % 2) * 16) &&& 0x10 := by
    rw [and_10_val, and_10_val]; omega
  unfold rotModel
  split <;> simp only [rlThrough, rrThrough, h]

theorem rotModel_spec (y v af : Nat) (hy : y < 8) (hv : v < 256) :
    rotModel y v af = rotRes (af / 16 % 2) y v := by
  have h := rotModel_enum (y * 512 + (af / 16 % 2) * 256 + v) (by omega)
  have e1 : (y * 512 + (af / 16 % 2) * 256 + v) / 512 = y := by omega
  have e2 : (y * 512 + (af / 16 % 2) * 256 + v) % 256 = v := by omega
  have e3 : (y * 512 + (af / 16 % 2) * 256 + v) / 256 % 2 = af / 16 % 2 := by omega
  rw [e1, e2, e3] at h
  rw [rotModel_af]; exact h

theorem rotRes_lt (e y v : Nat) (he : e < 2) (hv : v < 256) : (rotRes e y v).1 < 256 := by
  unfold rotRes; split <;> simp only <;> omega

/-- on a concretised state the carry-in bit is the SM83 C flag -/
theorem rotModel_conc {c : Cpu} (hc : CWF c) (k y v : Nat) (hy : y < 8) (hv : v < 256) :
    rotModel y v (conc c k).af = rotRes (if flagC c.f then 1 else 0) y v := by
  rw [rotModel_spec y v _ hy hv]
  have hf := hc.hf
  have e : (conc c k).af / 16 % 2 = c.f / 16 % 2 := by simp only [conc]; omega
  rw [e]
  have h2 : c.f / 16 % 2 = 0 ∨ c.f / 16 % 2 = 1 := by omega
  rcases h2 with h2 | h2 <;> simp [flagC, h2]

theorem flagsRot_conc {c : Cpu} (hc : CWF c) (k : Nat) (res : Nat × Bool) (wz : Bool) :
    flagsRot (conc c k) res wz = conc { c with f := mkF (wz && decide (res.1 = 0)) false false res.2 } k := by
  simp only [flagsRot]
  rw [mask_f0 hc, testCarry_mkF hc]
  cases wz
  · simp
  · simp only [if_true, Bool.true_and]; rw [testZero_mkF hc]; simp only [Bool.false_or]

theorem setR_f (c : Cpu) (i v : Nat) : (SM83.setR c i v).f = c.f := by
  unfold SM83.setR; split <;> rfl

/-- CB rotate/shift/swap on a register -/
theorem rotReg_conc {c : Cpu} (hc : CWF c) (k y : Nat) (hy : y < 8) (reg : Reg8) :
    flagsRot (setReg (conc c k) reg (rotModel y (getReg (conc c k) reg) (conc c k).af).1)
        (rotModel y (getReg (conc c k) reg) (conc c k).af) true =
      conc { SM83.setR c (idx reg) (SM83.rot c.f y (SM83.getR c (idx reg))).1 with
        f := (SM83.rot c.f y (SM83.getR c (idx reg))).2 } k ∧
    CWF { SM83.setR c (idx reg) (SM83.rot c.f y (SM83.getR c (idx reg))).1 with
        f := (SM83.rot c.f y (SM83.getR c (idx reg))).2 } := by
  have hv := getR_lt hc (idx reg)
  have he : (if flagC c.f then 1 else 0) < 2 := by split <;> omega
  have hl := rotRes_lt _ y _ he hv
  rw [getReg_conc hc, rotModel_conc hc k y _ hy hv, setReg_conc hc k reg _ hl, flagsRot_conc (cwf_setR hc _ _ hl), rot_eq]
  simp only [Bool.true_and]
  exact ⟨trivial, cwf_mkF (cwf_setR hc _ _ hl) ..⟩

/-- CB rotate/shift/swap on a memory byte: the flag part -/
theorem rotMem_conc {c : Cpu} (hc : CWF c) (k y v : Nat) (hy : y < 8) (hv : v < 256) :
    ((rotModel y v (conc c k).af).1, flagsRot (conc c k) (rotModel y v (conc c k).af) true) =
      ((SM83.rot c.f y v).1, conc { c with f := (SM83.rot c.f y v).2 } k) ∧
    CWF { c with f := (SM83.rot c.f y v).2 } := by
  rw [rotModel_conc hc k y _ hy hv, flagsRot_conc hc, rot_eq]
  simp only [Bool.true_and]
  exact ⟨trivial, cwf_mkF hc ..⟩

/-- RLCA / RRCA / RLA / RRA: result in A, Z cleared -/
theorem rotA_conc {c : Cpu} (hc : CWF c) (k y : Nat) (hy : y < 8) :
    flagsRot (setReg (conc c k) .A (rotModel y (getReg (conc c k) .A) (conc c k).af).1)
        (rotModel y (getReg (conc c k) .A) (conc c k).af) false =
      conc { c with a := (rotRes (if flagC c.f then 1 else 0) y c.a).1,
                    f := mkF false false false (rotRes (if flagC c.f then 1 else 0) y c.a).2 } k ∧
    CWF { c with a := (rotRes (if flagC c.f then 1 else 0) y c.a).1,
                 f := mkF false false false (rotRes (if flagC c.f then 1 else 0) y c.a).2 } := by
  have hv := getR_lt hc (idx .A)
  have he : (if flagC c.f then 1 else 0) < 2 := by split <;> omega
  have hl := rotRes_lt _ y _ he hv
  rw [getReg_conc hc, rotModel_conc hc k y _ hy hv, setReg_conc hc k .A _ hl, flagsRot_conc (cwf_setR hc _ _ hl)]
  simp only [Bool.false_and, idx, SM83.getR, SM83.setR]
  exact ⟨trivial, cwf_mkF (cwf_setA hc _ hl) ..⟩

/-! ### INC / DEC flags -/

def incFlags (v : Nat) (r : Regs) : Regs :=
  testZero (testHalf (applyMask r 0xe0) (carryAdd v 1).2.2) (carryAdd v 1).1
def decFlags (v : Nat) (r : Regs) : Regs :=
  testZero (setNeg (testHalf (applyMask r 0xe0) (carrySub v 1).2.2)) (carrySub v 1).1

theorem carryAdd1 (v : Nat) : carryAdd v 1 = ((v + 1) % 256, decide (v + 1 ≥ 256), decide (v % 16 = 15)) := by
  simp only [carryAdd, u8, and_0f, and_10_ne, Prod.mk.injEq, decide_eq_decide, true_and]; omega

theorem carrySub1 (v : Nat) (hv : v < 256) : carrySub v 1 = ((v + 255) % 256, decide (v < 1), decide (v % 16 = 0)) := by
  simp only [carrySub, u8, and_0f, and_10_ne, Prod.mk.injEq, decide_eq_decide]
  refine ⟨?_, ?_, ?_⟩
  · omega
  · trivial
  · omega

theorem incFlags_conc {c : Cpu} (hc : CWF c) (k v : Nat) :
    incFlags v (conc c k) = conc { c with f := mkF (decide ((v + 1) % 256 = 0)) false (decide (v % 16 = 15)) (flagC c.f) } k := by
  simp only [incFlags, carryAdd1]
  rw [mask_e0 hc, testHalf_mkF hc, testZero_mkF hc]
  simp only [Bool.false_or]

theorem decFlags_conc {c : Cpu} (hc : CWF c) (k v : Nat) (hv : v < 256) :
    decFlags v (conc c k) = conc { c with f := mkF (decide ((v + 255) % 256 = 0)) true (decide (v % 16 = 0)) (flagC c.f) } k := by
  simp only [decFlags, carrySub1 v hv]
  rw [mask_e0 hc, testHalf_mkF hc, setNeg_mkF hc, testZero_mkF hc]
  simp only [Bool.false_or]

private theorem m256 (x : Nat) : x % 256 < 256 := Nat.mod_lt _ (by decide)

/-- INC r -/
theorem incReg_conc {c : Cpu} (hc : CWF c) (k : Nat) (reg : Reg8) :
    incFlags (getReg (conc c k) reg) (setReg (conc c k) reg (carryAdd (getReg (conc c k) reg) 1).1) =
      conc { SM83.setR c (idx reg) ((SM83.getR c (idx reg) + 1) % 256) with
        f := mkF (decide ((SM83.getR c (idx reg) + 1) % 256 = 0)) false (decide (SM83.getR c (idx reg) % 16 = 15)) (flagC c.f) } k ∧
    CWF { SM83.setR c (idx reg) ((SM83.getR c (idx reg) + 1) % 256) with
        f := mkF (decide ((SM83.getR c (idx reg) + 1) % 256 = 0)) false (decide (SM83.getR c (idx reg) % 16 = 15)) (flagC c.f) } := by
  rw [getReg_conc hc, carryAdd1, setReg_conc hc k reg _ (m256 _), incFlags_conc (cwf_setR hc _ _ (m256 _)), setR_f]
  exact ⟨rfl, cwf_mkF (cwf_setR hc _ _ (m256 _)) ..⟩

/-- DEC r -/
theorem decReg_conc {c : Cpu} (hc : CWF c) (k : Nat) (reg : Reg8) :
    decFlags (getReg (conc c k) reg) (setReg (conc c k) reg (carrySub (getReg (conc c k) reg) 1).1) =
      conc { SM83.setR c (idx reg) ((SM83.getR c (idx reg) + 255) % 256) with
        f := mkF (decide ((SM83.getR c (idx reg) + 255) % 256 = 0)) true (decide (SM83.getR c (idx reg) % 16 = 0)) (flagC c.f) } k ∧
    CWF { SM83.setR c (idx reg) ((SM83.getR c (idx reg) + 255) % 256) with
        f := mkF (decide ((SM83.getR c (idx reg) + 255) % 256 = 0)) true (decide (SM83.getR c (idx reg) % 16 = 0)) (flagC c.f) } := by
  have hv := getR_lt hc (idx reg)
  rw [getReg_conc hc, carrySub1 _ hv, setReg_conc hc k reg _ (m256 _), decFlags_conc (cwf_setR hc _ _ (m256 _)) _ _ hv, setR_f]
  exact ⟨rfl, cwf_mkF (cwf_setR hc _ _ (m256 _)) ..⟩

/-! ### single-bit operations (mask = 2^y) -/

theorem bit_test (v y : Nat) : decide (v &&& 2 ^ y = 0) = decide (v / 2 ^ y % 2 = 0) := by
  rw [and_pow_val, decide_eq_decide]
  have hp : 0 < 2 ^ y := Nat.two_pow_pos y
  constructor
  · intro h
    rcases Nat.mul_eq_zero.mp h with h | h
    · exact h
    · omega
  · intro h; rw [h]; exact Nat.zero_mul _

theorem bit_ops_enum : ∀ n, n < 2 ^ 11 →
    ((n % 256) ||| 2 ^ (n / 256) = (n % 256) + (1 - (n % 256) / 2 ^ (n / 256) % 2) * 2 ^ (n / 256)) ∧
    ((n % 256) &&& ((2 ^ (n / 256) ^^^ 0xff) % 256) = (n % 256) - ((n % 256) / 2 ^ (n / 256) % 2) * 2 ^ (n / 256)) := by
  intro n hn
  have := forall_lt_of_allRange (fun n => decide (
    ((n % 256) ||| 2 ^ (n / 256) = (n % 256) + (1 - (n % 256) / 2 ^ (n / 256) % 2) * 2 ^ (n / 256)) ∧
    ((n % 256) &&& ((2 ^ (n / 256) ^^^ 0xff) % 256) = (n % 256) - ((n % 256) / 2 ^ (n / 256) % 2) * 2 ^ (n / 256)))) 11
    (by decide +kernel) n hn
  exact of_decide_eq_true this

theorem bit_set (v y : Nat) (hv : v < 256) (hy : y < 8) : v ||| 2 ^ y = v + (1 - v / 2 ^ y % 2) * 2 ^ y := by
  have h := (bit_ops_enum (y * 256 + v) (by omega)).1
  have e1 : (y * 256 + v) % 256 = v := by omega
  have e2 : (y * 256 + v) / 256 = y := by omega
  rw [e1, e2] at h; exact h

theorem bit_clear (v y : Nat) (hv : v < 256) (hy : y < 8) : v &&& ((2 ^ y ^^^ 0xff) % 256) = v - (v / 2 ^ y % 2) * 2 ^ y := by
  have h := (bit_ops_enum (y * 256 + v) (by omega)).2
  have e1 : (y * 256 + v) % 256 = v := by omega
  have e2 : (y * 256 + v) / 256 = y := by omega
  rw [e1, e2] at h; exact h

theorem bit_set_lt (v y : Nat) (hv : v < 256) (hy : y < 8) : v ||| 2 ^ y < 256 := by
  have : 2 ^ y < 2 ^ 8 := Nat.pow_lt_pow_right (by decide) hy
  exact @Nat.or_lt_two_pow _ _ 8 hv this

theorem bit_clear_lt (v m : Nat) (hv : v < 256) : v &&& m < 256 := Nat.lt_of_le_of_lt Nat.and_le_left hv

/-- BIT y,v flags -/
theorem bitFlags_conc {c : Cpu} (hc : CWF c) (k v y : Nat) :
    testZero (orF (applyMask (conc c k) 0xe0) 0x20) (v &&& 2 ^ y) =
      conc { c with f := mkF (decide (v / 2 ^ y % 2 = 0)) false true (flagC c.f) } k := by
  rw [mask_e0 hc, orF20_mkF hc, testZero_mkF hc, bit_test]
  simp only [Bool.false_or]

end GbVerif.C05
