import GbVerif.Model.Lcd
import GbVerif.Spec.Lcd
import GbVerif.Proofs.NatBits
/-!
Symbolic lemmas for C14: the tick of the model factors through a function on positions
(`stepOf`), which registers are untouched, how flags accumulate, arithmetic facts about `sched`.
The kernel enumeration over one frame is in `Proofs/LcdEnum.lean`.
-/
namespace GbVerif.LcdProofs
open GbVerif.Lcd GbVerif.LcdSpec

/-- the position part of a model state -/
def pos (s : State) : Pos := ⟨s.line, s.mode.toNat, s.dots⟩

/-- the enable bits of a model state, as the spec's record -/
def enOf (s : State) : Enables := ⟨s.irqLyc, s.irqM2, s.irqM1, s.irqM0⟩

/-- what one tick does as a function of the position only: next position, whether
`check_mode_interrupt` / `check_current_line` are consulted, whether VBlank is raised -/
structure Step where
  next : Pos
  chkMode : Bool
  chkLine : Bool
  vbl : Bool
deriving DecidableEq

def stepOf (p : Pos) : Step :=
  let d := p.dots + 4
  match p.mode with
  | 0 =>
    if d ≥ 188 then
      if p.line < 143 then ⟨⟨p.line + 1, 2, d - 188⟩, true, true, false⟩
      else ⟨⟨144, 1, d - 188⟩, true, true, true⟩
    else ⟨⟨p.line, 0, d⟩, false, false, false⟩
  | 1 =>
    if d ≥ 456 then
      if p.line < 153 then ⟨⟨p.line + 1, 1, d - 456⟩, false, true, false⟩
      else ⟨⟨0, 2, d - 456⟩, true, true, false⟩
    else ⟨⟨p.line, 1, d⟩, false, false, false⟩
  | 2 =>
    if d ≥ 80 then ⟨⟨p.line, 3, d - 80⟩, false, false, false⟩
    else ⟨⟨p.line, 2, d⟩, false, false, false⟩
  | _ =>
    if d ≥ 188 then ⟨⟨p.line, 0, d - 188⟩, true, false, false⟩
    else ⟨⟨p.line, 3, d⟩, false, false, false⟩

/-! ### the tick, decomposed -/

theorem tick4_pos (s : State) : pos (tick4 s).1 = (stepOf (pos s)).next := by
  obtain ⟨m, d, l, c, e1, e2, e3, e4⟩ := s
  cases m
  · by_cases h1 : d + 4 ≥ 188 <;> by_cases h2 : l < 143 <;> simp [tick4, stepOf, pos, Mode.toNat, h1, h2]
  · by_cases h1 : d + 4 ≥ 456 <;> by_cases h2 : l < 153 <;> simp [tick4, stepOf, pos, Mode.toNat, h1, h2]
  · by_cases h1 : d + 4 ≥ 80 <;> simp [tick4, stepOf, pos, Mode.toNat, h1]
  · by_cases h1 : d + 4 ≥ 188 <;> simp [tick4, stepOf, pos, Mode.toNat, h1]

theorem tick4_regs (s : State) :
    (tick4 s).1.lyc = s.lyc ∧ (tick4 s).1.irqLyc = s.irqLyc ∧ (tick4 s).1.irqM2 = s.irqM2 ∧
    (tick4 s).1.irqM1 = s.irqM1 ∧ (tick4 s).1.irqM0 = s.irqM0 := by
  obtain ⟨m, d, l, c, e1, e2, e3, e4⟩ := s
  cases m
  · by_cases h1 : d + 4 ≥ 188 <;> by_cases h2 : l < 143 <;> simp [tick4, h1, h2]
  · by_cases h1 : d + 4 ≥ 456 <;> by_cases h2 : l < 153 <;> simp [tick4, h1, h2]
  · by_cases h1 : d + 4 ≥ 80 <;> simp [tick4, h1]
  · by_cases h1 : d + 4 ≥ 188 <;> simp [tick4, h1]

theorem tick4_enOf (s : State) : enOf (tick4 s).1 = enOf s := by
  have := tick4_regs s
  simp only [enOf, this]

/-- `stat()` or `empty()` -/
def ofB (b : Bool) : Flags := if b then fStat else fEmpty

theorem checkCurrentLine_eq (s : State) :
    checkCurrentLine s = ofB (s.line == s.lyc && s.irqLyc) := by
  simp only [checkCurrentLine, ofB]
  by_cases h : s.lyc = s.line
  · simp [h]
  · have : ¬ s.line = s.lyc := fun h' => h h'.symm
    simp [h, this]

theorem checkModeInterrupt_eq (s : State) :
    checkModeInterrupt s = ofB ((enOf s).forMode s.mode.toNat) := by
  obtain ⟨m, d, l, c, e1, e2, e3, e4⟩ := s
  cases m <;> cases e2 <;> cases e3 <;> cases e4 <;> rfl

theorem hasVblank_or (a b : Flags) : hasVblank (a ||| b) = (hasVblank a || hasVblank b) := by
  simp only [hasVblank, Nat.testBit_or]
theorem hasStat_or (a b : Flags) : hasStat (a ||| b) = (hasStat a || hasStat b) := by
  simp only [hasStat, Nat.testBit_or]
theorem hasVblank_ofB (b : Bool) : hasVblank (ofB b) = false := by cases b <;> rfl
theorem hasStat_ofB (b : Bool) : hasStat (ofB b) = b := by cases b <;> rfl
theorem hasVblank_empty : hasVblank fEmpty = false := rfl
theorem hasStat_empty : hasStat fEmpty = false := rfl
theorem hasVblank_zero : hasVblank 0 = false := rfl
theorem hasStat_zero : hasStat 0 = false := rfl
theorem hasVblank_vblank : hasVblank fVblank = true := rfl
theorem hasStat_vblank : hasStat fVblank = false := rfl
theorem ofB_lt (b : Bool) : ofB b < 4 := by cases b <;> decide

/-- bit 0 (VBlank) of the flags of one tick -/
theorem tick4_vbl (s : State) : hasVblank (tick4 s).2 = (stepOf (pos s)).vbl := by
  obtain ⟨m, d, l, c, e1, e2, e3, e4⟩ := s
  cases m
  · by_cases h1 : d + 4 ≥ 188 <;> by_cases h2 : l < 143 <;>
      simp [tick4, stepOf, pos, Mode.toNat, checkCurrentLine_eq, checkModeInterrupt_eq, h1, h2,
        hasVblank_or, hasVblank_ofB, hasVblank_empty, hasVblank_vblank]
  · by_cases h1 : d + 4 ≥ 456 <;> by_cases h2 : l < 153 <;>
      simp [tick4, stepOf, pos, Mode.toNat, checkCurrentLine_eq, checkModeInterrupt_eq, h1, h2,
        hasVblank_or, hasVblank_ofB, hasVblank_empty]
  · by_cases h1 : d + 4 ≥ 80 <;> simp [tick4, stepOf, pos, Mode.toNat, h1, hasVblank_empty]
  · by_cases h1 : d + 4 ≥ 188 <;>
      simp [tick4, stepOf, pos, Mode.toNat, checkModeInterrupt_eq, h1, hasVblank_ofB, hasVblank_empty]

/-- bit 1 (STAT) of the flags of one tick -/
theorem tick4_stat (s : State) :
    hasStat (tick4 s).2 =
      (((stepOf (pos s)).chkMode && (enOf s).forMode (stepOf (pos s)).next.mode) ||
       ((stepOf (pos s)).chkLine && (stepOf (pos s)).next.line == s.lyc && s.irqLyc)) := by
  obtain ⟨m, d, l, c, e1, e2, e3, e4⟩ := s
  cases m
  · by_cases h1 : d + 4 ≥ 188 <;> by_cases h2 : l < 143 <;>
      simp [tick4, stepOf, pos, Mode.toNat, checkCurrentLine_eq, checkModeInterrupt_eq, h1, h2,
        hasStat_or, hasStat_ofB, hasStat_empty, hasStat_vblank, enOf]
  · by_cases h1 : d + 4 ≥ 456 <;> by_cases h2 : l < 153 <;>
      simp [tick4, stepOf, pos, Mode.toNat, checkCurrentLine_eq, checkModeInterrupt_eq, h1, h2,
        hasStat_or, hasStat_ofB, hasStat_empty, enOf]
  · by_cases h1 : d + 4 ≥ 80 <;> simp [tick4, stepOf, pos, Mode.toNat, h1, hasStat_empty]
  · by_cases h1 : d + 4 ≥ 188 <;>
      simp [tick4, stepOf, pos, Mode.toNat, checkModeInterrupt_eq, h1, hasStat_ofB, hasStat_empty, enOf]

/-- no other bit is ever set -/
theorem tick4_flags_lt (s : State) : (tick4 s).2 < 4 := by
  have h2 : ∀ a b : Nat, a < 4 → b < 4 → a ||| b < 4 := fun a b ha hb => Nat.or_lt_two_pow (n := 2) ha hb
  have hv : fVblank < 4 := by decide
  have he : fEmpty < 4 := by decide
  obtain ⟨m, d, l, c, e1, e2, e3, e4⟩ := s
  cases m
  · by_cases h1 : d + 4 ≥ 188 <;> by_cases h2' : l < 143 <;>
      simp only [tick4, checkCurrentLine_eq, checkModeInterrupt_eq, h1, h2', if_true, if_false] <;>
      first | exact he | exact h2 _ _ (h2 _ _ (ofB_lt _) (ofB_lt _)) hv | exact h2 _ _ (ofB_lt _) (ofB_lt _)
  · by_cases h1 : d + 4 ≥ 456 <;> by_cases h2' : l < 153 <;>
      simp only [tick4, checkCurrentLine_eq, checkModeInterrupt_eq, h1, h2', if_true, if_false] <;>
      first | exact he | exact ofB_lt _ | exact h2 _ _ (ofB_lt _) (ofB_lt _)
  · by_cases h1 : d + 4 ≥ 80 <;> simp only [tick4, h1, if_true, if_false] <;> exact he
  · by_cases h1 : d + 4 ≥ 188 <;>
      simp only [tick4, checkModeInterrupt_eq, h1, if_true, if_false] <;> first | exact he | exact ofB_lt _

/-! ### accumulation -/

theorem runAcc_acc (n : Nat) : ∀ (s : State) (acc : Flags),
    runAcc n s acc = ((runAcc n s 0).1, acc ||| (runAcc n s 0).2) := by
  induction n with
  | zero => intro s acc; simp [runAcc]
  | succ n ih =>
    intro s acc
    simp only [runAcc]
    rw [ih (tick4 s).1 (acc ||| (tick4 s).2), ih (tick4 s).1 (0 ||| (tick4 s).2)]
    simp [Nat.or_assoc]

theorem run_zero (s : State) : run 0 s = (s, 0) := rfl

theorem run_succ (n : Nat) (s : State) :
    run (n + 1) s = ((run n (tick4 s).1).1, (tick4 s).2 ||| (run n (tick4 s).1).2) := by
  simp only [run, runAcc, fEmpty]
  rw [runAcc_acc]
  simp

theorem run_add (a : Nat) : ∀ (b : Nat) (s : State),
    run (a + b) s = ((run b (run a s).1).1, (run a s).2 ||| (run b (run a s).1).2) := by
  induction a with
  | zero => intro b s; simp [run_zero]
  | succ a ih =>
    intro b s
    rw [show a + 1 + b = (a + b) + 1 by omega, run_succ, ih, run_succ]
    simp [Nat.or_assoc]

theorem run_regs (n : Nat) : ∀ s : State,
    (run n s).1.lyc = s.lyc ∧ enOf (run n s).1 = enOf s := by
  induction n with
  | zero => intro s; simp [run_zero]
  | succ n ih =>
    intro s
    rw [run_succ]
    have := ih (tick4 s).1
    have h2 := tick4_regs s
    have h3 := tick4_enOf s
    simp only [this, h2, h3, and_self]

theorem run_flags_lt (n : Nat) : ∀ s : State, (run n s).2 < 4 := by
  induction n with
  | zero => intro s; simp [run_zero]
  | succ n ih =>
    intro s
    rw [run_succ]
    exact Nat.or_lt_two_pow (n := 2) (tick4_flags_lt s) (ih _)

/-! ### STAT write decodes bits 6..3 -/

theorem and_bit_ne_zero (v i : Nat) (hi : i < 7) : (v &&& 2^i != 0) = v.testBit i := by
  rw [NatBits.and_const_mod v (2^i) 7 (Nat.pow_lt_pow_right (by decide) hi), NatBits.testBit_mod v i 7 hi]
  have hv : v % 2^7 < 128 := Nat.mod_lt _ (by decide)
  generalize v % 2^7 = w at hv
  have : ∀ i < 7, ∀ w < 128, (w &&& 2^i != 0) = w.testBit i := by decide
  exact this i hi w hv

theorem setStat_enOf (v : Nat) (s : State) : enOf (setStat v s).1 = Enables.ofByte v := by
  have h6 := and_bit_ne_zero v 6 (by decide)
  have h5 := and_bit_ne_zero v 5 (by decide)
  have h4 := and_bit_ne_zero v 4 (by decide)
  have h3 := and_bit_ne_zero v 3 (by decide)
  simp only [setStat, enOf, Enables.ofByte]
  rw [show (0x40 : Nat) = 2^6 from rfl, show (0x20 : Nat) = 2^5 from rfl,
      show (0x10 : Nat) = 2^4 from rfl, show (0x08 : Nat) = 2^3 from rfl, h6, h5, h4, h3]

/-! ### STAT read-back -/

theorem beq_comm' (a b : Nat) : (a == b) = (b == a) := BEq.comm

/-- `get_lcd_status` as a sum of disjoint bits -/
def statOf (m : Mode) (e1 e2 e3 e4 b : Bool) : Nat :=
  let status := 0
  let status := if e1 then status ||| 0x40 else status
  let status := if e2 then status ||| 0x20 else status
  let status := if e3 then status ||| 0x10 else status
  let status := if e4 then status ||| 0x08 else status
  let status := if b then status ||| 4 else status
  status ||| m.toNat

theorem getStat_eq (s : State) : getStat s = statOf s.mode s.irqLyc s.irqM2 s.irqM1 s.irqM0 (s.line == s.lyc) := by
  simp only [getStat, statOf, beq_comm' s.lyc s.line]

theorem statOf_bits : ∀ (m : Mode) (e1 e2 e3 e4 b : Bool),
    statOf m e1 e2 e3 e4 b % 4 = m.toNat ∧ (statOf m e1 e2 e3 e4 b).testBit 2 = b ∧
    (statOf m e1 e2 e3 e4 b).testBit 3 = e4 ∧ (statOf m e1 e2 e3 e4 b).testBit 4 = e3 ∧
    (statOf m e1 e2 e3 e4 b).testBit 5 = e2 ∧ (statOf m e1 e2 e3 e4 b).testBit 6 = e1 ∧
    statOf m e1 e2 e3 e4 b < 128 ∧
    statOf m e1 e2 e3 e4 b % 8 = m.toNat + (if b then 4 else 0) := by
  intro m e1 e2 e3 e4 b
  cases m <;> cases e1 <;> cases e2 <;> cases e3 <;> cases e4 <;> cases b <;> decide

/-! ### arithmetic of the schedule -/

theorem sched_mod (t : Nat) : sched t = sched (t % 70224) := by
  simp only [sched, Nat.mod_mod]

theorem sched_period (t : Nat) : sched (t + 70224) = sched t := by
  rw [sched_mod (t + 70224), sched_mod t, Nat.add_mod_right]

theorem sched_tick_mod (k : Nat) : sched (4 * k) = sched (4 * (k % 17556)) := by
  rw [sched_mod (4 * k), sched_mod (4 * (k % 17556))]
  congr 1
  omega

theorem sched_tick_succ_mod (k : Nat) : sched (4 * k + 4) = sched (4 * (k % 17556) + 4) := by
  rw [sched_mod (4 * k + 4), sched_mod (4 * (k % 17556) + 4)]
  congr 1
  omega

/-- `sched` in terms of the property sentence (`lyAt`, clock within the line) -/
def schedAlt (t : Nat) : Pos :=
  if lyAt t ≥ 144 then ⟨lyAt t, 1, t % 456⟩
  else if t % 456 < 80 then ⟨lyAt t, 2, t % 456⟩
  else if t % 456 < 268 then ⟨lyAt t, 3, t % 456 - 80⟩ else ⟨lyAt t, 0, t % 456 - 268⟩

theorem sched_alt (t : Nat) : sched t = schedAlt t := by
  have hA : t % 70224 < 4560 → lyAt t = 144 + (t % 70224) / 456 ∧ (t % 70224) % 456 = t % 456 := by
    unfold lyAt; omega
  have hB : ¬ t % 70224 < 4560 → lyAt t = (t % 70224 - 4560) / 456 ∧
      (t % 70224 - 4560) % 456 = t % 456 ∧ ¬ lyAt t ≥ 144 := by
    unfold lyAt; omega
  by_cases h1 : t % 70224 < 4560
  · obtain ⟨e1, e2⟩ := hA h1
    have h2 : lyAt t ≥ 144 := by omega
    simp only [sched, h1, ↓reduceIte, schedAlt, h2]
    rw [e1, e2]
  · obtain ⟨e1, e2, h2⟩ := hB h1
    simp only [sched, h1, ↓reduceIte, schedAlt, h2]
    rw [e1, e2]

theorem sched_line (t : Nat) : (sched t).line = lyAt t := by
  rw [sched_alt, schedAlt]
  split
  · rfl
  · split
    · rfl
    · split <;> rfl

theorem sched_mode (t : Nat) : (sched t).mode = modeAt t := by
  rw [sched_alt, schedAlt, modeAt]
  split
  · rfl
  · simp only []
    split
    · rfl
    · split <;> rfl

end GbVerif.LcdProofs
