import GbVerif.Proofs.X86SimAlu
/-
C01, the data side: SUB / CP / AND / XOR / OR on A with a register operand (fix-up instructions on F after the conversion).
-/
namespace GbVerif.X86
open GbVerif.JitCycles GbVerif.Interp
variable {β : Type}

/-- the bitwise operations of `alu8i` on al -/
def bitop : AluOp → Nat → Nat → Nat
  | .and, a, b => a &&& b
  | .or, a, b => a ||| b
  | .xor, a, b => a ^^^ b
  | _, a, _ => a

theorem bitop_lt (op : AluOp) (a k : Nat) (ha : a < 256) (hk : k < 256) : bitop op a k < 256 := by
  cases op <;> simp only [bitop] <;> first
    | exact ha
    | exact Nat.lt_of_le_of_lt Nat.and_le_left ha
    | exact Nat.or_lt_two_pow (n := 8) ha hk
    | exact Nat.xor_lt_two_pow (n := 8) ha hk

set_option maxRecDepth 4000 in
/-- `and/or/xor al, k`: the F byte, nothing else but the host flags -/
theorem step_al (B : BusOps β) (op : AluOp) (hop : op = .and ∨ op = .or ∨ op = .xor) (k : Nat) (hk : k < 256)
    (s s1 : St β) (len : Nat) (hsz : s.r.size = 16) (h : step B s (.alu8i op (.lo 0) k) len = .ok s1) :
    (get s1 0).toNat % 65536 = ((get s 0).toNat / 256 % 256) * 256 + bitop op ((get s 0).toNat % 256) k ∧
    (∀ j, 0 ≠ j → get s1 j = get s j) ∧ s1.bus = s.bus ∧ s1.stack = s.stack ∧ s1.r.size = 16 := by
  have hne : (op == .cmp) = false := by rcases hop with e | e | e <;> subst e <;> rfl
  have e1 : step B s (.alu8i op (.lo 0) k) len =
      .ok { (set8 ({ s with pc := s.pc + len } : St β) (.lo 0) (aluOp op 8 ((get s 0).toNat % 256) k s.fl).1) with
            fl := (aluOp op 8 ((get s 0).toNat % 256) k s.fl).2 } := by
    simp only [step, hne, Bool.false_eq_true, if_false]
    rw [tokVal_lt _ k hk]
    rfl
  rw [e1] at h
  injection h with h
  have hval : (aluOp op 8 ((get s 0).toNat % 256) k s.fl).1 = bitop op ((get s 0).toNat % 256) k := by
    rcases hop with e | e | e <;> subst e <;> rfl
  have hs1 : s1 = { (set8 ({ s with pc := s.pc + len } : St β) (.lo 0) (bitop op ((get s 0).toNat % 256) k)) with
      fl := (aluOp op 8 ((get s 0).toNat % 256) k s.fl).2 } := by rw [← h, hval]
  have hg : ∀ j, get s1 j = get (set8 ({ s with pc := s.pc + len } : St β) (.lo 0) (bitop op ((get s 0).toNat % 256) k)) j := by
    intro j; rw [hs1]; rfl
  refine ⟨?_, ?_, ?_, ?_, ?_⟩
  · rw [hg 0, toNat_set8_lo ({ s with pc := s.pc + len } : St β) 0 (bitop op ((get s 0).toNat % 256) k) (by show 0 < s.r.size; omega)]
    have hb := bitop_lt op ((get s 0).toNat % 256) k (Nat.mod_lt _ (by decide)) hk
    have hlt := (get s 0).isLt
    show ((get s 0).toNat - (get s 0).toNat % 256 + bitop op ((get s 0).toNat % 256) k % 256) % 2 ^ 64 % 65536 = _
    omega
  · intro j hj
    rw [hg j, get_set8_ne _ _ _ _ (by simpa [r8reg] using hj)]; rfl
  · rw [hs1]; exact bus_set8 ({ s with pc := s.pc + len } : St β) (.lo 0) (bitop op ((get s 0).toNat % 256) k)
  · rw [hs1]; exact stack_set8 ({ s with pc := s.pc + len } : St β) (.lo 0) (bitop op ((get s 0).toNat % 256) k)
  · rw [hs1]; exact (size_set8 ({ s with pc := s.pc + len } : St β) (.lo 0) (bitop op ((get s 0).toNat % 256) k)).trans hsz

theorem frame06_al {s s1 s2 : St β} (hf : Frame06 s s1) (h : ∀ j, 0 ≠ j → get s2 j = get s1 j) (hb : s2.bus = s1.bus)
    (hst : s2.stack = s1.stack) (hsz : s2.r.size = 16) : Frame06 s s2 :=
  ⟨fun j h0 h6 => by rw [h j h0, hf.regs j h0 h6], by rw [hb, hf.bus], by rw [hst, hf.stack], hsz⟩

/-! ### SUB A,r and CP r -/

theorem bit4_byte (x : Nat) (hx : x < 256) : (x &&& 0x10 != 0) = decide (x % 32 ≥ 16) := by
  have := Enum.forall_lt_of_allRange (fun x => (x &&& 0x10 != 0) == decide (x % 32 ≥ 16)) 8 (by decide +kernel) x hx
  simpa using this

theorem halfSub_eq (a v cin : Nat) (hc : cin ≤ 1) :
    (u8 (u8 ((a &&& 0x0f) + 256 - (v &&& 0x0f)) + 256 - cin) &&& 0x10 != 0) = decide (a % 16 < v % 16 + cin) := by
  unfold u8
  rw [and_0f, and_0f, bit4_byte _ (Nat.mod_lt _ (by decide))]
  apply decide_eq_decide.mpr
  omega

theorem halfSub0_eq (a v : Nat) : (u8 ((a &&& 0x0f) + 256 - (v &&& 0x0f)) &&& 0x10 != 0) = decide (a % 16 < v % 16) := by
  unfold u8
  rw [and_0f, and_0f, bit4_byte _ (Nat.mod_lt _ (by decide))]
  apply decide_eq_decide.mpr
  omega

/-- the flag byte the host computes for SUB / SBC / CP (conversion, then `or al, 0x40`) equals the interpreter's -/
theorem fSub_eq (f : Nat) (z h c : Bool) :
    bitop .or ((f &&& 0x0f) ||| (((if z then 0x80 else 0) + (if h then 0x20 else 0) + (if c then 0x10 else 0)) &&& 0xf0)) 64 =
    (((((f &&& 0x0f) ||| (if c then 0x10 else 0)) ||| (if h then 0x20 else 0)) ||| 0x40) ||| (if z then 0x80 else 0)) := by
  cases c <;> cases h <;> cases z <;> simp [bitop, Nat.or_assoc]

theorem applyMask_pack' (r : Regs) (a f mask : Nat) (ha : a < 256) (hf : f < 256) (hr : r.af % 65536 = a * 256 + f) :
    (applyMask r mask).af = a * 256 + (f &&& ((mask ^^^ 0xff) % 256)) := by
  show r.af &&& (0xff00 ||| ((mask ^^^ 0xff) % 256)) = _
  have hk : (mask ^^^ 0xff) % 256 < 256 := Nat.mod_lt _ (by decide)
  have hM : (0xff00 ||| ((mask ^^^ 0xff) % 256) : Nat) = 255 * 256 + (mask ^^^ 0xff) % 256 := by
    have h1 : (0xff00 : Nat) = 255 * 256 + 0 := rfl
    have h2 : (mask ^^^ 0xff) % 256 = 0 * 256 + (mask ^^^ 0xff) % 256 := by omega
    rw [h1, h2, pack_or _ _ _ _ (by decide) hk]
    simp only [Nat.or_zero, Nat.zero_or]
    omega
  rw [hM]
  have hlt : r.af &&& (255 * 256 + (mask ^^^ 0xff) % 256) < 2 ^ 16 := Nat.lt_of_le_of_lt Nat.and_le_right (by omega)
  rw [← Nat.mod_eq_of_lt hlt, Nat.and_mod_two_pow]
  have e16 : (2 ^ 16 : Nat) = 65536 := rfl
  rw [e16, hr, Nat.mod_eq_of_lt (by omega : 255 * 256 + (mask ^^^ 0xff) % 256 < 65536), pack_and _ _ _ _ hf hk, and_255 a ha]

/-- `flagsSub` on (A, F), for an AF field with anything above bit 15 -/
theorem flagsSub_pack' (r : Regs) (a f x : Nat) (c h : Bool) (ha : a < 256) (hf : f < 256) (hr : r.af % 65536 = a * 256 + f) :
    (flagsSub r (x, c, h)).af =
      a * 256 + (((((f &&& 0x0f) ||| (if c then 0x10 else 0)) ||| (if h then 0x20 else 0)) ||| 0x40) ||| (if x == 0 then 0x80 else 0)) := by
  have h0 := applyMask_pack' r a f 0xf0 ha hf hr
  rw [show ((0xf0 ^^^ 0xff) % 256 : Nat) = 0x0f from rfl] at h0
  have b0 : f &&& 0x0f < 256 := Nat.lt_of_le_of_lt Nat.and_le_left hf
  have h1 := testCarry_pack _ a _ c b0 h0
  have b1 := or_bit_lt _ c 0x10 b0 (by decide)
  have h2 := testHalf_pack _ a _ h b1 h1
  have b2 := or_bit_lt _ h 0x20 b1 (by decide)
  have h3 := setNeg_pack _ a _ b2 h2
  have b3 : _ ||| 0x40 < 256 := Nat.or_lt_two_pow (n := 8) b2 (by decide)
  exact testZero_pack _ a _ x b3 h3

theorem conv_sub (op : AluOp) (hop : op = .sub ∨ op = .cmp) (a v : Nat) (fl : Flags) :
    conv (aluOp op 8 a v fl).2 =
      (if (a + 256 + 256 - v - 0) % 256 == 0 then 0x80 else 0) + (if decide (a % 16 < v % 16 + 0) then 0x20 else 0) +
      (if decide (a < v + 0) then 0x10 else 0) := by
  rcases hop with e | e <;> subst e <;> rfl

/-- the body of SUB A,v / CP v: `sub|cmp ah, src`, the flag conversion, `or al, 0x40` -/
theorem sub_body (B : BusOps β) (op : AluOp) (hop : op = .sub ∨ op = .cmp) (ins : Instr) (rd : St β → Nat) (hins : IsAOp B op ins rd) (v : Nat) (o : Nat → Nat) (e : Nat) (g : Regs)
    (st s2 : St β) (hs : Sim g st) (hv : rd st = v) (hvlt : v < 256)
    (hex : execList B e (((o 0, ins) :: pipeAt o 15 240) ++ [(o 10, .alu8i .or (.lo 0) 64)]) st = .ok s2) :
    Sim (if op == .cmp then opCp g v else opSub g v) s2 ∧ Untouched st s2 := by
  obtain ⟨s1, hex1, hex2⟩ := execList_append B e _ _ st s2 hex
  obtain ⟨hx, hfr⟩ := alu_then_pipe B op ins rd hins 15 240 (by decide) (by decide) o _ st s1 hs.size hex1
  obtain ⟨s3, hp, hex3⟩ := execList_cons B _ _ _ _ _ _ hex2
  have := execList_nil B _ _ _ hex3
  subst this
  obtain ⟨hx2, hr2, hb2, hst2, hsz2⟩ := step_al B .or (Or.inr (Or.inl rfl)) 64 (by decide) s1 s2 _ hfr.size hp
  have hfr2 := frame06_al hfr hr2 hb2 hst2 hsz2
  have ha : get8 st (.hi 0) = getReg g .A := get8_sim hs .A
  rw [ha, hv] at hx
  have hf : (get st 0).toNat % 256 = g.af % 256 := by have := hs.af; omega
  rw [hf] at hx
  have hA := getReg_lt g .A
  have hc := conv_sub op hop (getReg g .A) v st.fl
  simp only [Nat.add_zero, Nat.sub_zero] at hc
  rw [hc] at hx
  have hFlt : (g.af % 256 &&& 15 ||| ((if ((getReg g .A + 256 + 256 - v) % 256 == 0) = true then 128 else 0) +
      (if decide (getReg g .A % 16 < v % 16) = true then 32 else 0) + if decide (getReg g .A < v) = true then 16 else 0) &&& 240) < 256 := by
    apply Nat.or_lt_two_pow (n := 8)
    · exact Nat.lt_of_le_of_lt Nat.and_le_right (by decide)
    · exact Nat.lt_of_le_of_lt Nat.and_le_right (by decide)
  -- al after `or al, 0x40`
  have hlo : (get s1 0).toNat % 256 = (g.af % 256 &&& 15 ||| ((if ((getReg g .A + 256 + 256 - v) % 256 == 0) = true then 128 else 0) +
      (if decide (getReg g .A % 16 < v % 16) = true then 32 else 0) + if decide (getReg g .A < v) = true then 16 else 0) &&& 240) := by
    have : (get s1 0).toNat % 256 = (get s1 0).toNat % 65536 % 256 := by omega
    rw [this, hx]; omega
  have hhi : (get s1 0).toNat / 256 % 256 = (if op == .cmp then getReg g .A else (aluOp op 8 (getReg g .A) v st.fl).1 % 256) := by
    have : (get s1 0).toNat / 256 % 256 = (get s1 0).toNat % 65536 / 256 := by omega
    rw [this, hx]
    have hb : (if op == .cmp then getReg g .A else (aluOp op 8 (getReg g .A) v st.fl).1 % 256) < 256 := by
      split
      · exact hA
      · exact Nat.mod_lt _ (by decide)
    omega
  rw [hlo, hhi, fSub_eq] at hx2
  have h2 := halfSub0_eq (getReg g .A) v
  have hres : (getReg g .A + 256 + 256 - v) % 256 = u8 (getReg g .A + 256 - v) := by unfold u8; omega
  rcases hop with e | e <;> subst e
  · -- SUB
    simp only [show (AluOp.sub == AluOp.cmp) = false from rfl, Bool.false_eq_true, if_false] at hx2 ⊢
    have hi : (opSub g v).af = u8 (getReg g .A + 256 - v) * 256 +
        (((((g.af % 256 &&& 0x0f) ||| (if decide (getReg g .A < v) then 0x10 else 0)) |||
          (if (u8 ((getReg g .A &&& 0x0f) + 256 - (v &&& 0x0f)) &&& 0x10 != 0) then 0x20 else 0)) ||| 0x40) |||
          (if u8 (getReg g .A + 256 - v) == 0 then 0x80 else 0)) := by
      have hset : (setReg g .A (u8 (getReg g .A + 256 - v))).af = u8 (getReg g .A + 256 - v) * 256 + g.af % 256 := setHi_eq _ _
      exact flagsSub_pack _ _ _ _ _ _ (Nat.mod_lt _ (by decide)) (Nat.mod_lt _ (by decide)) hset
    refine sim_af hs hfr2 ((sameButAf_setA g _).trans (sameButAf_flagsSub _ _)) ?_
    rw [hx2, hi, h2, hres]
    have h1 : (aluOp .sub 8 (getReg g .A) v st.fl).1 % 256 = u8 (getReg g .A + 256 - v) := by
      show (getReg g .A + 2 ^ 8 + 2 ^ 8 - v - 0) % 2 ^ 8 % 256 = (getReg g .A + 256 - v) % 256
      omega
    rw [h1]
    have hu : u8 (getReg g .A + 256 - v) < 256 := Nat.mod_lt _ (by decide)
    have hlt : (((((g.af % 256 &&& 0x0f) ||| (if decide (getReg g .A < v) then 0x10 else 0)) |||
          (if decide (getReg g .A % 16 < v % 16) then 0x20 else 0)) ||| 0x40) ||| (if u8 (getReg g .A + 256 - v) == 0 then 0x80 else 0)) < 256 := by
      apply Nat.or_lt_two_pow (n := 8)
      · apply Nat.or_lt_two_pow (n := 8)
        · apply Nat.or_lt_two_pow (n := 8)
          · apply Nat.or_lt_two_pow (n := 8)
            · exact Nat.lt_of_le_of_lt Nat.and_le_right (by decide)
            · split <;> decide
          · split <;> decide
        · decide
      · split <;> decide
    omega
  · -- CP
    simp only [show (AluOp.cmp == AluOp.cmp) = true from rfl, if_true] at hx2 ⊢
    have hg : g.af % 65536 = getReg g .A * 256 + g.af % 256 := by
      show g.af % 65536 = getHi g.af * 256 + g.af % 256
      rw [getHi_eq]; omega
    have hi : (opCp g v).af = getReg g .A * 256 +
        (((((g.af % 256 &&& 0x0f) ||| (if decide (getReg g .A < v) then 0x10 else 0)) |||
          (if (u8 ((getReg g .A &&& 0x0f) + 256 - (v &&& 0x0f)) &&& 0x10 != 0) then 0x20 else 0)) ||| 0x40) |||
          (if u8 (getReg g .A + 256 - v) == 0 then 0x80 else 0)) :=
      flagsSub_pack' g _ _ _ _ _ hA (Nat.mod_lt _ (by decide)) hg
    refine sim_af hs hfr2 (sameButAf_flagsSub _ _) ?_
    rw [hx2, hi, h2, hres]
    have hlt : (((((g.af % 256 &&& 0x0f) ||| (if decide (getReg g .A < v) then 0x10 else 0)) |||
          (if decide (getReg g .A % 16 < v % 16) then 0x20 else 0)) ||| 0x40) ||| (if u8 (getReg g .A + 256 - v) == 0 then 0x80 else 0)) < 256 := by
      apply Nat.or_lt_two_pow (n := 8)
      · apply Nat.or_lt_two_pow (n := 8)
        · apply Nat.or_lt_two_pow (n := 8)
          · apply Nat.or_lt_two_pow (n := 8)
            · exact Nat.lt_of_le_of_lt Nat.and_le_right (by decide)
            · split <;> decide
          · split <;> decide
        · decide
      · split <;> decide
    omega

/-! ### AND / XOR / OR A,r -/

theorem fAnd_eq (f : Nat) (hf : f < 256) (z : Bool) :
    bitop .or (bitop .and ((f &&& 127) ||| ((if z then 0x80 else 0) &&& 128)) 175) 32 = (((f &&& 0x0f) ||| 0x20) ||| (if z then 0x80 else 0)) := by
  cases z
  · have := Enum.forall_lt_of_allRange (fun f => bitop .or (bitop .and ((f &&& 127) ||| ((0 : Nat) &&& 128)) 175) 32 == (((f &&& 0x0f) ||| 0x20) ||| 0)) 8 (by decide +kernel) f hf
    simpa using this
  · have := Enum.forall_lt_of_allRange (fun f => bitop .or (bitop .and ((f &&& 127) ||| ((0x80 : Nat) &&& 128)) 175) 32 == (((f &&& 0x0f) ||| 0x20) ||| 0x80)) 8 (by decide +kernel) f hf
    simpa using this

theorem fAnd_eq' (f : Nat) (hf : f < 256) (z : Bool) :
    bitop .or (bitop .and ((f &&& 63) ||| ((if z then 0x80 else 0) &&& 192)) 239) 32 = (((f &&& 0x0f) ||| 0x20) ||| (if z then 0x80 else 0)) := by
  cases z
  · have := Enum.forall_lt_of_allRange (fun f => bitop .or (bitop .and ((f &&& 63) ||| ((0 : Nat) &&& 192)) 239) 32 == (((f &&& 0x0f) ||| 0x20) ||| 0)) 8 (by decide +kernel) f hf
    simpa using this
  · have := Enum.forall_lt_of_allRange (fun f => bitop .or (bitop .and ((f &&& 63) ||| ((0x80 : Nat) &&& 192)) 239) 32 == (((f &&& 0x0f) ||| 0x20) ||| 0x80)) 8 (by decide +kernel) f hf
    simpa using this

theorem fXor_eq (f : Nat) (hf : f < 256) (z : Bool) :
    bitop .and ((f &&& 127) ||| ((if z then 0x80 else 0) &&& 128)) 143 = ((f &&& 0x0f) ||| (if z then 0x80 else 0)) := by
  cases z
  · have := Enum.forall_lt_of_allRange (fun f => bitop .and ((f &&& 127) ||| ((0 : Nat) &&& 128)) 143 == ((f &&& 0x0f) ||| 0)) 8 (by decide +kernel) f hf
    simpa using this
  · have := Enum.forall_lt_of_allRange (fun f => bitop .and ((f &&& 127) ||| ((0x80 : Nat) &&& 128)) 143 == ((f &&& 0x0f) ||| 0x80)) 8 (by decide +kernel) f hf
    simpa using this

/-- the 8-bit logic operations of the host: value and the guest's view of the flags -/
theorem logic_val (op : AluOp) (hop : op = .and ∨ op = .or ∨ op = .xor) (a v : Nat) (fl : Flags) :
    (aluOp op 8 a v fl).1 = bitop op a v ∧ conv (aluOp op 8 a v fl).2 = (if bitop op a v == 0 then 0x80 else 0) := by
  rcases hop with e | e | e <;> subst e <;> exact ⟨rfl, by simp [conv, aluOp, bitop]⟩

theorem sameButAf_logic (g : Regs) (x : Nat) (h20 : Bool) :
    SameButAf g (testZero (if h20 then orF (applyMask (setReg g .A x) 0xf0) 0x20 else applyMask (setReg g .A x) 0xf0) x) := by
  cases h20
  · exact ((sameButAf_setA g _).trans (sameButAf_applyMask _ _)).trans (sameButAf_testZero _ _)
  · exact (((sameButAf_setA g _).trans (sameButAf_applyMask _ _)).trans (sameButAf_orF _ _)).trans (sameButAf_testZero _ _)

/-- AF after the interpreter's AND (`h20`) / XOR / OR with result `x` -/
theorem logic_pack (g : Regs) (x : Nat) (hx : x < 256) (h20 : Bool) :
    (testZero (if h20 then orF (applyMask (setReg g .A x) 0xf0) 0x20 else applyMask (setReg g .A x) 0xf0) x).af =
      x * 256 + (((g.af % 256 &&& 0x0f) ||| (if h20 then 0x20 else 0)) ||| (if x == 0 then 0x80 else 0)) := by
  have hset : (setReg g .A x).af = x * 256 + g.af % 256 := setHi_eq _ _
  have h0 := applyMask_pack _ x (g.af % 256) 0xf0 hx (Nat.mod_lt _ (by decide)) (by decide) hset
  rw [show ((0xf0 ^^^ 0xff) % 256 : Nat) = 0x0f from rfl] at h0
  have b0 : g.af % 256 &&& 0x0f < 256 := Nat.lt_of_le_of_lt Nat.and_le_right (by decide)
  cases h20
  · simp only [Bool.false_eq_true, if_false, Nat.or_zero]
    exact testZero_pack _ x _ x b0 h0
  · simp only [if_true]
    have h1 := orF_pack _ x _ 0x20 b0 (by decide) h0
    exact testZero_pack _ x _ x (Nat.or_lt_two_pow (n := 8) b0 (by decide)) h1

/-- the body of AND A,v -/
theorem and_body (B : BusOps β) (ins : Instr) (rd : St β → Nat) (hins : IsAOp B .and ins rd) (keep take m : Nat) (hk : keep < 256) (ht : take < 256) (hm : m < 256)
    (hF : ∀ f, f < 256 → ∀ z : Bool, bitop .or (bitop .and ((f &&& keep) ||| ((if z then 0x80 else 0) &&& take)) m) 32 = (((f &&& 0x0f) ||| 0x20) ||| (if z then 0x80 else 0))) (v : Nat) (o : Nat → Nat) (e : Nat) (g : Regs)
    (st s3 : St β) (hs : Sim g st) (hv : rd st = v)
    (hex : execList B e (((o 0, ins) :: pipeAt o keep take) ++
      [(o 10, .alu8i .and (.lo 0) m), (o 11, .alu8i .or (.lo 0) 32)]) st = .ok s3) :
    Sim (opAnd g v) s3 ∧ Untouched st s3 := by
  obtain ⟨s1, hex1, hex2⟩ := execList_append B e _ _ st s3 hex
  obtain ⟨hx, hfr⟩ := alu_then_pipe B .and ins rd hins keep take hk ht o _ st s1 hs.size hex1
  obtain ⟨s2, hp, hex3⟩ := execList_cons B _ _ _ _ _ _ hex2
  obtain ⟨s4, hq, hex4⟩ := execList_cons B _ _ _ _ _ _ hex3
  have := execList_nil B _ _ _ hex4
  subst this
  obtain ⟨hx2, hr2, hb2, hst2, hsz2⟩ := step_al B .and (Or.inl rfl) m hm s1 s2 _ hfr.size hp
  obtain ⟨hx3, hr3, hb3, hst3, hsz3⟩ := step_al B .or (Or.inr (Or.inl rfl)) 32 (by decide) s2 s3 _ hsz2 hq
  have hfr3 := frame06_al (frame06_al hfr hr2 hb2 hst2 hsz2) hr3 hb3 hst3 hsz3
  have ha : get8 st (.hi 0) = getReg g .A := get8_sim hs .A
  rw [ha, hv] at hx
  have hf : (get st 0).toNat % 256 = g.af % 256 := by have := hs.af; omega
  obtain ⟨hval, hconv⟩ := logic_val .and (Or.inl rfl) (getReg g .A) v st.fl
  rw [hf, hval, hconv] at hx
  simp only [show (AluOp.and == AluOp.cmp) = false from rfl, Bool.false_eq_true, if_false] at hx
  have hA := getReg_lt g .A
  have hxlt : bitop .and (getReg g .A) v < 256 := Nat.lt_of_le_of_lt Nat.and_le_left hA
  have hF1 : (g.af % 256 &&& keep ||| (if (bitop .and (getReg g .A) v == 0) = true then 128 else 0) &&& take) < 256 :=
    Nat.or_lt_two_pow (n := 8) (Nat.lt_of_le_of_lt Nat.and_le_right hk) (Nat.lt_of_le_of_lt Nat.and_le_right ht)
  rw [Nat.mod_eq_of_lt hxlt] at hx
  have hlo1 : (get s1 0).toNat % 256 = (g.af % 256 &&& keep ||| (if (bitop .and (getReg g .A) v == 0) = true then 128 else 0) &&& take) := by
    have : (get s1 0).toNat % 256 = (get s1 0).toNat % 65536 % 256 := by omega
    rw [this, hx]; omega
  have hhi1 : (get s1 0).toNat / 256 % 256 = bitop .and (getReg g .A) v := by
    have : (get s1 0).toNat / 256 % 256 = (get s1 0).toNat % 65536 / 256 := by omega
    rw [this, hx]; omega
  rw [hlo1, hhi1] at hx2
  have hF2 := bitop_lt .and _ m hF1 hm
  have hlo2 : (get s2 0).toNat % 256 = bitop .and (g.af % 256 &&& keep ||| (if (bitop .and (getReg g .A) v == 0) = true then 128 else 0) &&& take) m := by
    have : (get s2 0).toNat % 256 = (get s2 0).toNat % 65536 % 256 := by omega
    rw [this, hx2]; omega
  have hhi2 : (get s2 0).toNat / 256 % 256 = bitop .and (getReg g .A) v := by
    have : (get s2 0).toNat / 256 % 256 = (get s2 0).toNat % 65536 / 256 := by omega
    rw [this, hx2]; omega
  rw [hlo2, hhi2, hF _ (Nat.mod_lt _ (by decide))] at hx3
  have hi := logic_pack g (bitop .and (getReg g .A) v) hxlt true
  simp only [if_true] at hi
  refine sim_af hs hfr3 (sameButAf_logic g _ true) ?_
  show (get s3 0).toNat % 65536 = (opAnd g v).af % 65536
  have hi' : (opAnd g v).af = bitop .and (getReg g .A) v * 256 +
      (((g.af % 256 &&& 0x0f) ||| 0x20) ||| (if bitop .and (getReg g .A) v == 0 then 0x80 else 0)) := hi
  rw [hx3, hi']
  have hlt : (((g.af % 256 &&& 0x0f) ||| 0x20) ||| (if bitop .and (getReg g .A) v == 0 then 0x80 else 0)) < 256 := by
    apply Nat.or_lt_two_pow (n := 8)
    · exact Nat.or_lt_two_pow (n := 8) (Nat.lt_of_le_of_lt Nat.and_le_right (by decide)) (by decide)
    · split <;> decide
  omega

/-- the body of XOR A,v / OR A,v -/
theorem xo_body (B : BusOps β) (op : AluOp) (hop : op = .xor ∨ op = .or) (ins : Instr) (rd : St β → Nat) (hins : IsAOp B op ins rd) (v : Nat) (hvlt : v < 256) (o : Nat → Nat) (e : Nat) (g : Regs)
    (st s2 : St β) (hs : Sim g st) (hv : rd st = v)
    (hex : execList B e (((o 0, ins) :: pipeAt o 127 128) ++ [(o 10, .alu8i .and (.lo 0) 143)]) st = .ok s2) :
    Sim (if op == .xor then opXor g v else opOr g v) s2 ∧ Untouched st s2 := by
  have hop3 : op = .and ∨ op = .or ∨ op = .xor := by rcases hop with e | e <;> subst e <;> simp
  have hne : (op == .cmp) = false := by rcases hop with e | e <;> subst e <;> rfl
  obtain ⟨s1, hex1, hex2⟩ := execList_append B e _ _ st s2 hex
  obtain ⟨hx, hfr⟩ := alu_then_pipe B op ins rd hins 127 128 (by decide) (by decide) o _ st s1 hs.size hex1
  obtain ⟨s3, hp, hex3⟩ := execList_cons B _ _ _ _ _ _ hex2
  have := execList_nil B _ _ _ hex3
  subst this
  obtain ⟨hx2, hr2, hb2, hst2, hsz2⟩ := step_al B .and (Or.inl rfl) 143 (by decide) s1 s2 _ hfr.size hp
  have hfr2 := frame06_al hfr hr2 hb2 hst2 hsz2
  have ha : get8 st (.hi 0) = getReg g .A := get8_sim hs .A
  rw [ha, hv] at hx
  have hf : (get st 0).toNat % 256 = g.af % 256 := by have := hs.af; omega
  obtain ⟨hval, hconv⟩ := logic_val op hop3 (getReg g .A) v st.fl
  rw [hf, hval, hconv] at hx
  simp only [hne, Bool.false_eq_true, if_false] at hx
  have hA := getReg_lt g .A
  have hxlt : bitop op (getReg g .A) v < 256 := bitop_lt op _ _ hA hvlt
  have hF1 : (g.af % 256 &&& 127 ||| (if (bitop op (getReg g .A) v == 0) = true then 128 else 0) &&& 128) < 256 :=
    Nat.or_lt_two_pow (n := 8) (Nat.lt_of_le_of_lt Nat.and_le_right (by decide)) (Nat.lt_of_le_of_lt Nat.and_le_right (by decide))
  rw [Nat.mod_eq_of_lt hxlt] at hx
  have hlo1 : (get s1 0).toNat % 256 = (g.af % 256 &&& 127 ||| (if (bitop op (getReg g .A) v == 0) = true then 128 else 0) &&& 128) := by
    have : (get s1 0).toNat % 256 = (get s1 0).toNat % 65536 % 256 := by omega
    rw [this, hx]; omega
  have hhi1 : (get s1 0).toNat / 256 % 256 = bitop op (getReg g .A) v := by
    have : (get s1 0).toNat / 256 % 256 = (get s1 0).toNat % 65536 / 256 := by omega
    rw [this, hx]; omega
  rw [hlo1, hhi1, fXor_eq _ (Nat.mod_lt _ (by decide))] at hx2
  have hi := logic_pack g (bitop op (getReg g .A) v) hxlt false
  simp only [Bool.false_eq_true, if_false, Nat.or_zero] at hi
  have hlt : ((g.af % 256 &&& 0x0f) ||| (if bitop op (getReg g .A) v == 0 then 0x80 else 0)) < 256 := by
    apply Nat.or_lt_two_pow (n := 8)
    · exact Nat.lt_of_le_of_lt Nat.and_le_right (by decide)
    · split <;> decide
  rcases hop with e | e <;> subst e
  · simp only [show (AluOp.xor == AluOp.xor) = true from rfl, if_true]
    refine sim_af hs hfr2 (sameButAf_logic g _ false) ?_
    have hi' : (opXor g v).af = bitop .xor (getReg g .A) v * 256 +
        ((g.af % 256 &&& 0x0f) ||| (if bitop .xor (getReg g .A) v == 0 then 0x80 else 0)) := hi
    rw [hx2, hi']; omega
  · simp only [show (AluOp.or == AluOp.xor) = false from rfl, Bool.false_eq_true, if_false]
    refine sim_af hs hfr2 (sameButAf_logic g _ false) ?_
    have hi' : (opOr g v).af = bitop .or (getReg g .A) v * 256 +
        ((g.af % 256 &&& 0x0f) ||| (if bitop .or (getReg g .A) v == 0 then 0x80 else 0)) := hi
    rw [hx2, hi']; omega

/-! ### the families -/

def opcodeSub (r : Reg8) : Nat := 0x90 + r8code r
def opcodeAnd (r : Reg8) : Nat := 0xa0 + r8code r
def opcodeXor (r : Reg8) : Nat := 0xa8 + r8code r
def opcodeOr (r : Reg8) : Nat := 0xb0 + r8code r
def opcodeCp (r : Reg8) : Nat := 0xb8 + r8code r

/-- offsets of an ALU template with fix-up instructions after the conversion (each 2 bytes) -/
def aluOff' (n0 : Nat) (k : Nat) : Nat :=
  [0, n0, n0 + 1, n0 + 2, n0 + 5, n0 + 7, n0 + 10, n0 + 16, n0 + 21, n0 + 27, n0 + 29, n0 + 31].getD k 0

theorem table_sub (r : Reg8) (b1 b2 : Nat) :
    decodeCode (Gen.emitOp (opcodeSub r)) =
      some ((((0, Instr.alu8 AluOp.sub (R8.hi 0) (hostR8 r)) :: pipeAt (aluOff' 2) 15 240) ++ [(31, Instr.alu8i AluOp.or (R8.lo 0) 64)]) ++ [(33, addIp 1), (37, addCy 1)]) ∧
    bytesOf (Gen.emitOp (opcodeSub r)) = 41 ∧ Gen.decode (opcodeSub r) b1 b2 = (.Sub8 .A r, 1, 4) ∧
    decodeCode (Gen.emitOp (opcodeCp r)) =
      some ((((0, Instr.alu8 AluOp.cmp (R8.hi 0) (hostR8 r)) :: pipeAt (aluOff' 2) 15 240) ++ [(31, Instr.alu8i AluOp.or (R8.lo 0) 64)]) ++ [(33, addIp 1), (37, addCy 1)]) ∧
    bytesOf (Gen.emitOp (opcodeCp r)) = 41 ∧ Gen.decode (opcodeCp r) b1 b2 = (.Compare8 r, 1, 4) := by
  cases r <;> exact ⟨by decide +kernel, by decide +kernel, rfl, by decide +kernel, by decide +kernel, rfl⟩

theorem straight_app {l1 l2 : List (Nat × Instr)} (h1 : straight l1) (h2 : straight l2) : straight (l1 ++ l2) := by
  intro p hp
  rcases List.mem_append.mp hp with h | h
  · exact h1 p h
  · exact h2 p h

theorem straight_al (off : Nat) (op : AluOp) (k : Nat) : straight [(off, .alu8i op (.lo 0) k)] :=
  straight_one _ _ (fun _ _ e => Instr.noConfusion e) (fun _ e => Instr.noConfusion e)

/-- **SUB A,r** (7 registers): all states -/
theorem sim_sub (r : Reg8) (b1 b2 : Nat) : Simulates (opcodeSub r) b1 b2 := by
  obtain ⟨hdec, hbytes, hop, _, _, _⟩ := table_sub r b1 b2
  refine ⟨_, hdec, ?_⟩
  intro β B g m fuel st st' hsim hpc _ _ hrun
  rw [hbytes] at hrun
  rw [hop]
  show ∃ g', runOp B (.Sub8 .A r) g m 1 = .ok (g', m, STATUS_NORMAL) ∧ Sim { g' with cycles := g'.cycles + 4 / 4 } st' ∧ Untouched st st'
  rw [show (4 : Nat) / 4 = 1 from rfl]
  refine ⟨advance (opSub g (getReg g r)) 1, rfl, ?_⟩
  obtain ⟨h1, h2⟩ := sim_body B (((0, Instr.alu8 AluOp.sub (R8.hi 0) (hostR8 r)) :: pipeAt (aluOff' 2) 15 240) ++ [(31, Instr.alu8i AluOp.or (R8.lo 0) 64)])
    33 37 41 1 1 g (opSub g (getReg g r)) rfl
    (straight_app (straight_cons _ _ _ (fun _ _ e => Instr.noConfusion e) (fun _ e => Instr.noConfusion e) (straight_pipe _ _ _)) (straight_al _ _ _))
    (by decide) (by decide)
    (fun st0 s1 hs hex => sub_body B .sub (Or.inl rfl) _ _ (isAOp_reg B .sub (hostR8 r)) (getReg g r) (aluOff' 2) 33 g st0 s1 hs (get8_sim hs r) (getReg_lt g r) hex)
    fuel st st' hsim (by rw [hpc]; rfl) hrun
  exact ⟨⟨h1.af, h1.hl, h1.de, h1.bc, h1.sp, h1.ip, h1.cy, h1.size⟩, h2⟩

/-- **CP r** (7 registers): all states -/
theorem sim_cp (r : Reg8) (b1 b2 : Nat) : Simulates (opcodeCp r) b1 b2 := by
  obtain ⟨_, _, _, hdec, hbytes, hop⟩ := table_sub r b1 b2
  refine ⟨_, hdec, ?_⟩
  intro β B g m fuel st st' hsim hpc _ _ hrun
  rw [hbytes] at hrun
  rw [hop]
  show ∃ g', runOp B (.Compare8 r) g m 1 = .ok (g', m, STATUS_NORMAL) ∧ Sim { g' with cycles := g'.cycles + 4 / 4 } st' ∧ Untouched st st'
  rw [show (4 : Nat) / 4 = 1 from rfl]
  refine ⟨advance (opCp g (getReg g r)) 1, rfl, ?_⟩
  obtain ⟨h1, h2⟩ := sim_body B (((0, Instr.alu8 AluOp.cmp (R8.hi 0) (hostR8 r)) :: pipeAt (aluOff' 2) 15 240) ++ [(31, Instr.alu8i AluOp.or (R8.lo 0) 64)])
    33 37 41 1 1 g (opCp g (getReg g r)) rfl
    (straight_app (straight_cons _ _ _ (fun _ _ e => Instr.noConfusion e) (fun _ e => Instr.noConfusion e) (straight_pipe _ _ _)) (straight_al _ _ _))
    (by decide) (by decide)
    (fun st0 s1 hs hex => sub_body B .cmp (Or.inr rfl) _ _ (isAOp_reg B .cmp (hostR8 r)) (getReg g r) (aluOff' 2) 33 g st0 s1 hs (get8_sim hs r) (getReg_lt g r) hex)
    fuel st st' hsim (by rw [hpc]; rfl) hrun
  exact ⟨⟨h1.af, h1.hl, h1.de, h1.bc, h1.sp, h1.ip, h1.cy, h1.size⟩, h2⟩

theorem table_logic (r : Reg8) (b1 b2 : Nat) :
    decodeCode (Gen.emitOp (opcodeAnd r)) =
      some ((((0, Instr.alu8 AluOp.and (R8.hi 0) (hostR8 r)) :: pipeAt (aluOff' 2) 127 128) ++ [(31, Instr.alu8i AluOp.and (R8.lo 0) 175), (33, Instr.alu8i AluOp.or (R8.lo 0) 32)]) ++ [(35, addIp 1), (39, addCy 1)]) ∧
    bytesOf (Gen.emitOp (opcodeAnd r)) = 43 ∧ Gen.decode (opcodeAnd r) b1 b2 = (.And8 .A r, 1, 4) ∧
    decodeCode (Gen.emitOp (opcodeXor r)) =
      some ((((0, Instr.alu8 AluOp.xor (R8.hi 0) (hostR8 r)) :: pipeAt (aluOff' 2) 127 128) ++ [(31, Instr.alu8i AluOp.and (R8.lo 0) 143)]) ++ [(33, addIp 1), (37, addCy 1)]) ∧
    bytesOf (Gen.emitOp (opcodeXor r)) = 41 ∧ Gen.decode (opcodeXor r) b1 b2 = (.Xor8 .A r, 1, 4) ∧
    decodeCode (Gen.emitOp (opcodeOr r)) =
      some ((((0, Instr.alu8 AluOp.or (R8.hi 0) (hostR8 r)) :: pipeAt (aluOff' 2) 127 128) ++ [(31, Instr.alu8i AluOp.and (R8.lo 0) 143)]) ++ [(33, addIp 1), (37, addCy 1)]) ∧
    bytesOf (Gen.emitOp (opcodeOr r)) = 41 ∧ Gen.decode (opcodeOr r) b1 b2 = (.Or8 .A r, 1, 4) := by
  cases r <;> exact ⟨by decide +kernel, by decide +kernel, rfl, by decide +kernel, by decide +kernel, rfl, by decide +kernel, by decide +kernel, rfl⟩

/-- **AND A,r** (7 registers): all states -/
theorem sim_and (r : Reg8) (b1 b2 : Nat) : Simulates (opcodeAnd r) b1 b2 := by
  obtain ⟨hdec, hbytes, hop, _⟩ := table_logic r b1 b2
  refine ⟨_, hdec, ?_⟩
  intro β B g m fuel st st' hsim hpc _ _ hrun
  rw [hbytes] at hrun
  rw [hop]
  show ∃ g', runOp B (.And8 .A r) g m 1 = .ok (g', m, STATUS_NORMAL) ∧ Sim { g' with cycles := g'.cycles + 4 / 4 } st' ∧ Untouched st st'
  rw [show (4 : Nat) / 4 = 1 from rfl]
  refine ⟨advance (opAnd g (getReg g r)) 1, rfl, ?_⟩
  obtain ⟨h1, h2⟩ := sim_body B (((0, Instr.alu8 AluOp.and (R8.hi 0) (hostR8 r)) :: pipeAt (aluOff' 2) 127 128) ++ [(31, Instr.alu8i AluOp.and (R8.lo 0) 175), (33, Instr.alu8i AluOp.or (R8.lo 0) 32)])
    35 39 43 1 1 g (opAnd g (getReg g r)) rfl
    (straight_app (straight_cons _ _ _ (fun _ _ e => Instr.noConfusion e) (fun _ e => Instr.noConfusion e) (straight_pipe _ _ _))
      (straight_cons _ _ _ (fun _ _ e => Instr.noConfusion e) (fun _ e => Instr.noConfusion e) (straight_al _ _ _)))
    (by decide) (by decide)
    (fun st0 s1 hs hex => and_body B _ _ (isAOp_reg B .and (hostR8 r)) 127 128 175 (by decide) (by decide) (by decide) fAnd_eq (getReg g r) (aluOff' 2) 35 g st0 s1 hs (get8_sim hs r) hex)
    fuel st st' hsim (by rw [hpc]; rfl) hrun
  exact ⟨⟨h1.af, h1.hl, h1.de, h1.bc, h1.sp, h1.ip, h1.cy, h1.size⟩, h2⟩

/-- **XOR A,r** (7 registers): all states -/
theorem sim_xor (r : Reg8) (b1 b2 : Nat) : Simulates (opcodeXor r) b1 b2 := by
  obtain ⟨_, _, _, hdec, hbytes, hop, _⟩ := table_logic r b1 b2
  refine ⟨_, hdec, ?_⟩
  intro β B g m fuel st st' hsim hpc _ _ hrun
  rw [hbytes] at hrun
  rw [hop]
  show ∃ g', runOp B (.Xor8 .A r) g m 1 = .ok (g', m, STATUS_NORMAL) ∧ Sim { g' with cycles := g'.cycles + 4 / 4 } st' ∧ Untouched st st'
  rw [show (4 : Nat) / 4 = 1 from rfl]
  refine ⟨advance (opXor g (getReg g r)) 1, rfl, ?_⟩
  obtain ⟨h1, h2⟩ := sim_body B (((0, Instr.alu8 AluOp.xor (R8.hi 0) (hostR8 r)) :: pipeAt (aluOff' 2) 127 128) ++ [(31, Instr.alu8i AluOp.and (R8.lo 0) 143)])
    33 37 41 1 1 g (opXor g (getReg g r)) rfl
    (straight_app (straight_cons _ _ _ (fun _ _ e => Instr.noConfusion e) (fun _ e => Instr.noConfusion e) (straight_pipe _ _ _)) (straight_al _ _ _))
    (by decide) (by decide)
    (fun st0 s1 hs hex => xo_body B .xor (Or.inl rfl) _ _ (isAOp_reg B .xor (hostR8 r)) (getReg g r) (getReg_lt g r) (aluOff' 2) 33 g st0 s1 hs (get8_sim hs r) hex)
    fuel st st' hsim (by rw [hpc]; rfl) hrun
  exact ⟨⟨h1.af, h1.hl, h1.de, h1.bc, h1.sp, h1.ip, h1.cy, h1.size⟩, h2⟩

/-- **OR A,r** (7 registers): all states -/
theorem sim_or (r : Reg8) (b1 b2 : Nat) : Simulates (opcodeOr r) b1 b2 := by
  obtain ⟨_, _, _, _, _, _, hdec, hbytes, hop⟩ := table_logic r b1 b2
  refine ⟨_, hdec, ?_⟩
  intro β B g m fuel st st' hsim hpc _ _ hrun
  rw [hbytes] at hrun
  rw [hop]
  show ∃ g', runOp B (.Or8 .A r) g m 1 = .ok (g', m, STATUS_NORMAL) ∧ Sim { g' with cycles := g'.cycles + 4 / 4 } st' ∧ Untouched st st'
  rw [show (4 : Nat) / 4 = 1 from rfl]
  refine ⟨advance (opOr g (getReg g r)) 1, rfl, ?_⟩
  obtain ⟨h1, h2⟩ := sim_body B (((0, Instr.alu8 AluOp.or (R8.hi 0) (hostR8 r)) :: pipeAt (aluOff' 2) 127 128) ++ [(31, Instr.alu8i AluOp.and (R8.lo 0) 143)])
    33 37 41 1 1 g (opOr g (getReg g r)) rfl
    (straight_app (straight_cons _ _ _ (fun _ _ e => Instr.noConfusion e) (fun _ e => Instr.noConfusion e) (straight_pipe _ _ _)) (straight_al _ _ _))
    (by decide) (by decide)
    (fun st0 s1 hs hex => xo_body B .or (Or.inr rfl) _ _ (isAOp_reg B .or (hostR8 r)) (getReg g r) (getReg_lt g r) (aluOff' 2) 33 g st0 s1 hs (get8_sim hs r) hex)
    fuel st st' hsim (by rw [hpc]; rfl) hrun
  exact ⟨⟨h1.af, h1.hl, h1.de, h1.bc, h1.sp, h1.ip, h1.cy, h1.size⟩, h2⟩

end GbVerif.X86
