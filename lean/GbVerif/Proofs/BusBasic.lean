import GbVerif.Model.Bus
/-!
Basic lemmas about the bus model (`Model/Bus.lean`): the well-formedness invariant (buffer sizes as
`Bus.create` makes them), one rewriting lemma per region of the two address ladders, and totality of
every access from a well-formed state.  Used by C10, C11, C16.
-/
namespace GbVerif.BusProofs
open GbVerif.Bus

theorem and_3fff (a : Nat) : a &&& 0x3fff = a % 0x4000 := Nat.and_two_pow_sub_one_eq_mod a 14
theorem and_1fff (a : Nat) : a &&& 0x1fff = a % 0x2000 := Nat.and_two_pow_sub_one_eq_mod a 13
theorem and_fff (a : Nat) : a &&& 0xfff = a % 0x1000 := Nat.and_two_pow_sub_one_eq_mod a 12
theorem and_ff (a : Nat) : a &&& 0xff = a % 0x100 := Nat.and_two_pow_sub_one_eq_mod a 8
theorem and_7f (a : Nat) : a &&& 0x7f = a % 0x80 := Nat.and_two_pow_sub_one_eq_mod a 7

theorem beq_ne {a b : Nat} (h : a ≠ b) : ¬ ((a == b) = true) := by simpa using h
theorem beq_eq {a b : Nat} (h : a = b) : (a == b) = true := by simpa using h

/-- buffer sizes as `Bus.create` (`MemoryAreas::with_rom_file`) makes them; the cartridge RAM size is arbitrary -/
structure WF (s : State) : Prop where
  vram : s.vram.size = 0x2000
  wram : s.wram.size = 0x2000
  oam : s.oam.size = 0xa0
  hram : s.hram.size = 127
  romLen : s.romLen = s.cart.romBanks * 0x4000
  banks : 2 ≤ s.cart.romBanks

/-! ### cartridge registers -/

theorem getRomBank_lt (c : Cart.State) (h : 2 ≤ c.romBanks) : Cart.getRomBank c < c.romBanks := by
  unfold Cart.getRomBank
  cases c.kind <;> simp only
  · omega
  · exact Nat.mod_lt _ (by omega)
  · exact Nat.mod_lt _ (by omega)

theorem writeRom_fixed (c : Cart.State) (a v : Nat) :
    (Cart.writeRom c a v).kind = c.kind ∧ (Cart.writeRom c a v).romBanks = c.romBanks ∧
    (Cart.writeRom c a v).ramBanks = c.ramBanks := by
  unfold Cart.writeRom
  cases hk : c.kind <;> simp only <;> (repeat' split) <;> simp [hk]

/-! ### array cells -/

theorem rd_ok {w : String} {a : Array Nat} {i : Nat} (h : i < a.size) : rd w a i = .ok a[i] := by
  unfold rd; rw [dif_pos h]

theorem wr_ok {w : String} {a : Array Nat} {i : Nat} (v : Nat) (h : i < a.size) : wr w a i v = .ok (a.set i v) := by
  unfold wr; rw [dif_pos h]

theorem rd_set_eq {w : String} {a : Array Nat} {i : Nat} (v : Nat) (h : i < a.size) :
    rd w (a.set i v) i = .ok v := by
  rw [rd_ok (by simpa using h)]; simp

theorem rd_set_ne {w : String} {a : Array Nat} {i j : Nat} (v : Nat) (h : i < a.size) (hne : i ≠ j) :
    rd w (a.set i v) j = rd w a j := by
  unfold rd
  by_cases hj : j < a.size
  · rw [dif_pos (by simpa using hj), dif_pos hj]; simp [Array.getElem_set, hne]
  · rw [dif_neg (by simpa using hj), dif_neg hj]

/-! ### the read ladder, one lemma per region -/

section ladders
variable (s : State) (a : Nat)

theorem read_rom0 (h : a < 0x4000) :
    read s a = if a < s.romLen then .ok (s.rom a) else .error (.oob "rom0") := by
  unfold Bus.read; rw [if_pos h]

theorem read_romx (h1 : 0x4000 ≤ a) (h2 : a < 0x8000) :
    read s a = if 0x4000 * Cart.getRomBank s.cart + (a &&& 0x3fff) < s.romLen
      then .ok (s.rom (0x4000 * Cart.getRomBank s.cart + (a &&& 0x3fff))) else .error (.oob "romx") := by
  unfold Bus.read; rw [if_neg (by omega), if_pos h2]

theorem read_vram (h1 : 0x8000 ≤ a) (h2 : a < 0xa000) : read s a = rd "vram" s.vram (a &&& 0x1fff) := by
  unfold Bus.read; rw [if_neg (by omega), if_neg (by omega), if_pos h2]

theorem read_cram (h1 : 0xa000 ≤ a) (h2 : a < 0xc000) :
    read s a = if s.cram.size == 0 then .ok 0xff
      else if 0x2000 * Cart.getRamBank s.cart + (a &&& 0x1fff) ≥ s.cram.size then .ok 0xff
      else rd "cram" s.cram (0x2000 * Cart.getRamBank s.cart + (a &&& 0x1fff)) := by
  unfold Bus.read; rw [if_neg (by omega), if_neg (by omega), if_neg (by omega), if_pos h2]

theorem read_wram0 (h1 : 0xc000 ≤ a) (h2 : a < 0xd000) : read s a = rd "wram0" s.wram (a &&& 0xfff) := by
  unfold Bus.read; rw [if_neg (by omega), if_neg (by omega), if_neg (by omega), if_neg (by omega), if_pos h2]

theorem read_wramx (h1 : 0xd000 ≤ a) (h2 : a < 0xe000) :
    read s a = rd "wramx" s.wram (0x1000 + (a &&& 0xfff)) := by
  unfold Bus.read
  rw [if_neg (by omega), if_neg (by omega), if_neg (by omega), if_neg (by omega), if_neg (by omega), if_pos h2]

theorem read_echo (h1 : 0xe000 ≤ a) (h2 : a < 0xfe00) : read s a = .ok 0 := by
  unfold Bus.read
  rw [if_neg (by omega), if_neg (by omega), if_neg (by omega), if_neg (by omega), if_neg (by omega),
    if_neg (by omega), if_pos h2]

theorem read_oam (h1 : 0xfe00 ≤ a) (h2 : a < 0xfea0) : read s a = rd "oam" s.oam (a &&& 0xff) := by
  unfold Bus.read
  rw [if_neg (by omega), if_neg (by omega), if_neg (by omega), if_neg (by omega), if_neg (by omega),
    if_neg (by omega), if_neg (by omega), if_pos h2]

theorem read_unused (h1 : 0xfea0 ≤ a) (h2 : a < 0xff00) : read s a = .ok 0 := by
  unfold Bus.read
  rw [if_neg (by omega), if_neg (by omega), if_neg (by omega), if_neg (by omega), if_neg (by omega),
    if_neg (by omega), if_neg (by omega), if_neg (by omega), if_pos h2]

theorem read_io (h1 : 0xff00 ≤ a) (h2 : a < 0xff80) :
    read s a = if a == 0xff46 then .ok s.dmaReg else .ok (s.io.getByte a) := by
  unfold Bus.read
  rw [if_neg (by omega), if_neg (by omega), if_neg (by omega), if_neg (by omega), if_neg (by omega),
    if_neg (by omega), if_neg (by omega), if_neg (by omega), if_neg (by omega), if_pos h2]

theorem read_hram (h1 : 0xff80 ≤ a) (h2 : a ≠ 0xffff) : read s a = rd "hram" s.hram (a &&& 0x7f) := by
  unfold Bus.read
  rw [if_neg (by omega), if_neg (by omega), if_neg (by omega), if_neg (by omega), if_neg (by omega),
    if_neg (by omega), if_neg (by omega), if_neg (by omega), if_neg (by omega), if_neg (by omega),
    if_neg (beq_ne h2)]

theorem read_ie (h : a = 0xffff) : read s a = .ok (s.io.ie ||| s.io.ieUpper) := by
  subst h; rfl

/-! ### the write ladder -/

variable (v : Nat)

theorem write_rom (h : a < 0x8000) : write s a v = .ok { s with cart := Cart.writeRom s.cart a v } := by
  unfold Bus.write; rw [if_pos h]

theorem write_vram (h1 : 0x8000 ≤ a) (h2 : a < 0xa000) :
    write s a v = (wr "vram" s.vram (a &&& 0x1fff) v >>= fun x => pure { s with vram := x }) := by
  unfold Bus.write; rw [if_neg (by omega), if_pos h2]

theorem write_cram (h1 : 0xa000 ≤ a) (h2 : a < 0xc000) :
    write s a v = if s.cram.size == 0 then .ok s
      else if 0x2000 * Cart.getRamBank s.cart + (a &&& 0x1fff) < s.cram.size then
        (wr "cram" s.cram (0x2000 * Cart.getRamBank s.cart + (a &&& 0x1fff)) v >>= fun x => pure { s with cram := x })
      else .ok s := by
  unfold Bus.write; rw [if_neg (by omega), if_neg (by omega), if_pos h2]

theorem write_wram0 (h1 : 0xc000 ≤ a) (h2 : a < 0xd000) :
    write s a v = (wr "wram0" s.wram (a &&& 0xfff) v >>= fun x => pure { s with wram := x }) := by
  unfold Bus.write; rw [if_neg (by omega), if_neg (by omega), if_neg (by omega), if_pos h2]

theorem write_wramx (h1 : 0xd000 ≤ a) (h2 : a < 0xe000) :
    write s a v = (wr "wramx" s.wram (0x1000 + (a &&& 0xfff)) v >>= fun x => pure { s with wram := x }) := by
  unfold Bus.write; rw [if_neg (by omega), if_neg (by omega), if_neg (by omega), if_neg (by omega), if_pos h2]

theorem write_echo (h1 : 0xe000 ≤ a) (h2 : a < 0xfe00) : write s a v = .ok s := by
  unfold Bus.write
  rw [if_neg (by omega), if_neg (by omega), if_neg (by omega), if_neg (by omega), if_neg (by omega), if_pos h2]

theorem write_oam (h1 : 0xfe00 ≤ a) (h2 : a < 0xfea0) :
    write s a v = (wr "oam" s.oam (a &&& 0xff) v >>= fun x => pure { s with oam := x }) := by
  unfold Bus.write
  rw [if_neg (by omega), if_neg (by omega), if_neg (by omega), if_neg (by omega), if_neg (by omega),
    if_neg (by omega), if_pos h2]

theorem write_unused (h1 : 0xfea0 ≤ a) (h2 : a < 0xff00) : write s a v = .ok s := by
  unfold Bus.write
  rw [if_neg (by omega), if_neg (by omega), if_neg (by omega), if_neg (by omega), if_neg (by omega),
    if_neg (by omega), if_neg (by omega), if_pos h2]

theorem write_io (h1 : 0xff00 ≤ a) (h2 : a < 0xff80) :
    write s a v = if a == 0xff46 then .ok { s with dmaReg := v, dma := some (v <<< 8, 0) }
      else .ok { s with io := s.io.setByte a v } := by
  unfold Bus.write
  rw [if_neg (by omega), if_neg (by omega), if_neg (by omega), if_neg (by omega), if_neg (by omega),
    if_neg (by omega), if_neg (by omega), if_neg (by omega), if_pos h2]

theorem write_hram (h1 : 0xff80 ≤ a) (h2 : a ≠ 0xffff) :
    write s a v = (wr "hram" s.hram (a &&& 0x7f) v >>= fun x => pure { s with hram := x }) := by
  unfold Bus.write
  rw [if_neg (by omega), if_neg (by omega), if_neg (by omega), if_neg (by omega), if_neg (by omega),
    if_neg (by omega), if_neg (by omega), if_neg (by omega), if_neg (by omega), if_neg (beq_ne h2)]

theorem write_ie (h : a = 0xffff) :
    write s a v = .ok { s with io := { s.io with ie := v &&& 0x1f, ieUpper := v &&& 0xe0 } } := by
  subst h; rfl

end ladders

end GbVerif.BusProofs
