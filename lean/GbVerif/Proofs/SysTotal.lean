import GbVerif.Model.Sys
import GbVerif.Proofs.BusWf
/-!
The passage of device time never panics (C11 for `MemoryAreas::run_clock_cycles` as a whole): OAM DMA with any source
page, the timer's checked `u32` addition, the LCD loop's `cycles_remaining -= 4`, from every well-formed bus state
whose timer counter is in the 16 bits the timer keeps between catch-ups.
-/
namespace GbVerif.SysProofs
open GbVerif GbVerif.Bus GbVerif.BusProofs

/-- the timer's cycle counter between catch-ups: `run_cycles` masks it to 16 bits, a DIV write clears it -/
def TimerOk (s : Bus.State) : Prop := s.io.timer.cycleCount < 65536

theorem and_ffff_lt (x : Nat) : x &&& 0xffff < 65536 := by
  have := Nat.and_le_right (n := x) (m := 0xffff); omega

theorem run_cycleCount_lt (cycles : Nat) (t : Timer.State) : (Timer.run cycles t).1.cycleCount < 65536 := by
  unfold Timer.run
  split
  · exact and_ffff_lt _
  · exact and_ffff_lt _

/-- `IO::run_clock_cycles` completes for every whole number of machine cycles below 2^32 - 2^16 clocks -/
theorem ioRun_total {io : Bus.Io} {k : Nat} (hk : k % 4 = 0) (hb : k < 2 ^ 32 - 65536) (hc : io.timer.cycleCount < 65536) :
    ∃ io', Sys.ioRun io k = .ok io' ∧ io'.timer.cycleCount < 65536 := by
  unfold Sys.ioRun
  have hsome : Timer.runCycles (Sys.timerOf io.timer) k = some (Timer.run (k % 2 ^ 32) (Sys.timerOf io.timer)) := by
    unfold Timer.runCycles
    have : (Sys.timerOf io.timer).cycleCount = io.timer.cycleCount := rfl
    simp only []
    rw [if_pos (by rw [this]; have := Nat.mod_le k (2 ^ 32); omega)]
  rw [hsome]
  simp only []
  have hv : ∃ v, Sys.videoRun io.video k = .ok v := by
    unfold Sys.videoRun Lcd.runClocks
    rw [if_pos hk]
    exact ⟨_, rfl⟩
  obtain ⟨⟨v, vf⟩, hv⟩ := hv
  simp only [bind, Except.bind, hv]
  refine ⟨_, rfl, ?_⟩
  exact run_cycleCount_lt _ _

/-- a write to OAM leaves the I/O block alone -/
theorem dmaCopyByte_io {s s' : Bus.State} (wf : WF s) {source off : Nat} (ho : off < 0xa0)
    (h : dmaCopyByte s source off = .ok s') : s'.io = s.io := by
  unfold dmaCopyByte at h
  cases hr : read s ((source + off) % 65536) with
  | error e => rw [hr] at h; cases h
  | ok v =>
    rw [hr] at h
    simp only [bind, Except.bind] at h
    rw [write_oam_wf wf v (by omega) (by omega)] at h
    injection h with h; subst h; rfl

theorem dmaLoop_total (source : Nat) : ∀ (n : Nat) {s : Bus.State} (_ : WF s) (_ : TimerOk s) (off : Nat), off + n ≤ 0xa0 →
    ∃ s', Sys.dmaLoop s source off n = .ok (s', off + n) ∧ WF s' ∧ TimerOk s'
  | 0, s, wf, ht, off, _ => ⟨s, rfl, wf, ht⟩
  | n+1, s, wf, ht, off, h => by
    obtain ⟨s1, h1, wf1⟩ := dmaCopyByte_total wf source off (by omega)
    have hio := dmaCopyByte_io wf (by omega) h1
    have ht1 : s1.io.timer.cycleCount < 65536 := by rw [hio]; exact ht
    obtain ⟨io2, h2, ht2⟩ := ioRun_total (io := s1.io) (k := 4) (by decide) (by decide) ht1
    have wf2 : WF { s1 with io := io2 } := ⟨wf1.1, wf1.2, wf1.3, wf1.4, wf1.5, wf1.6⟩
    obtain ⟨s3, h3, wf3, ht3⟩ := dmaLoop_total source n wf2 ht2 (off + 1) (by omega)
    refine ⟨s3, ?_, wf3, ht3⟩
    unfold Sys.dmaLoop
    simp only [bind, Except.bind, h1, h2]
    rw [show off + (n + 1) = off + 1 + n by omega]; exact h3

/-- **`MemoryAreas::run_clock_cycles` never panics**: any whole number of machine cycles (below 2^32 - 2^16 clocks), any
OAM-DMA state — any source page, any progress — from a well-formed bus; the result is well-formed again -/
theorem dev_total {s : Bus.State} (wf : WF s) (ht : TimerOk s) {k : Nat} (hk : k % 4 = 0) (hb : k < 2 ^ 32 - 65536) :
    ∃ s', Sys.dev s k = .ok s' ∧ WF s' ∧ TimerOk s' := by
  unfold Sys.dev
  cases hd : s.dma with
  | none =>
    obtain ⟨io', h1, ht1⟩ := ioRun_total hk hb ht
    simp only [bind, Except.bind, h1]
    exact ⟨_, rfl, ⟨wf.1, wf.2, wf.3, wf.4, wf.5, wf.6⟩, ht1⟩
  | some p =>
    obtain ⟨source, off⟩ := p
    simp only []
    have hn : 4 * min (0xa0 - off) (k / 4) ≤ k := by
      have : min (0xa0 - off) (k / 4) ≤ k / 4 := Nat.min_le_right _ _
      omega
    by_cases ho : off ≤ 0xa0
    · obtain ⟨s1, h1, wf1, ht1⟩ := dmaLoop_total source (min (0xa0 - off) (k / 4)) wf ht off (by omega)
      simp only [bind, Except.bind, h1]
      obtain ⟨io', h2, ht2⟩ := ioRun_total (io := s1.io) (k := k - 4 * min (0xa0 - off) (k / 4)) (by omega) (by omega) ht1
      simp only [h2]
      exact ⟨_, rfl, ⟨wf1.1, wf1.2, wf1.3, wf1.4, wf1.5, wf1.6⟩, ht2⟩
    · have hz : min (0xa0 - off) (k / 4) = 0 := by omega
      simp only [hz, Sys.dmaLoop, bind, Except.bind, Nat.mul_zero, Nat.sub_zero]
      obtain ⟨io', h2, ht2⟩ := ioRun_total hk hb ht
      simp only [h2]
      exact ⟨_, rfl, ⟨wf.1, wf.2, wf.3, wf.4, wf.5, wf.6⟩, ht2⟩

/-- bus writes keep the timer counter in range: a DIV write clears it, nothing else assigns it -/
theorem setByte_timerOk (io : Bus.Io) (a v : Nat) (h : io.timer.cycleCount < 65536) : (io.setByte a v).timer.cycleCount < 65536 := by
  unfold Bus.Io.setByte
  split
  all_goals first
    | exact h
    | (show (0 : Nat) < 65536; decide)
    | skip
  · show (io.timer.setControl v).1.cycleCount < 65536
    unfold Bus.TimerRegs.setControl
    simp only []
    repeat' split
    all_goals exact h

end GbVerif.SysProofs
